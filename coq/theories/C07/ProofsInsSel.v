(** C07 — correctness of [Selection], [Insertion] (package sort) and of radixsort's
    [insertion(a, lo, hi)] on a sub-range. *)
From Algo.C07 Require Import ArrLemmas.
Open Scope Z_scope.

(** * reading an array after a swap, as a read of the array before the swap *)
Section SwapInv.
  Context {T : Type}.

  Definition swp (i j k : Z) : Z :=
    if Z.eq_dec k i then j else if Z.eq_dec k j then i else k.

  Lemma swap_get_inv (a a' : list T) (i j k : Z) (v : T) :
    swap a i j = Ok a' -> get a' k = Ok v -> get a (swp i j k) = Ok v.
  Proof.
    intros H G. pose proof (swap_range _ _ _ _ H) as [Ri Rj]. unfold swp.
    destruct (Z.eq_dec k i) as [->|Ni].
    - destruct (get_in_range a j Rj) as [y Gy].
      rewrite (swap_get_l _ _ _ _ _ H Gy) in G. congruence.
    - destruct (Z.eq_dec k j) as [->|Nj].
      + destruct (get_in_range a i Ri) as [y Gy].
        rewrite (swap_get_r _ _ _ _ _ H Gy) in G. congruence.
      + rewrite <- (swap_get_other _ _ _ _ k H) by assumption. exact G.
  Qed.
End SwapInv.

(** * radixsort's insertion(a, lo, hi) *)
Section RIns.
  Context {K : Type} (cmp : K -> K -> Z) (less : K -> K -> bool).
  Hypothesis TP : TotalPreorder cmp.
  Hypothesis Hless : forall x y, less x y = (cmp x y <? 0).

  (** [a[lo..i]] is sorted except that [a[j]] may be smaller than its predecessors *)
  Definition almost (a : list K) (lo i j : Z) : Prop :=
    forall p q x y, lo <= p -> p <= q -> q <= i -> q <> j ->
                    get a p = Ok x -> get a q = Ok y -> cmp x y <= 0.

  Lemma rins_inner_correct : forall (fuel : nat) (a : list K) (lo i j : Z),
    0 <= lo -> lo <= j -> j <= i -> i < len a -> j - lo < Z.of_nat fuel ->
    almost a lo i j ->
    exists b, rins_inner less fuel a lo j = Ok b /\ len b = len a /\ Permutation a b /\
              sorted_on cmp b lo i /\ same_outside a b lo i /\ range_from a b lo i.
  Proof.
    induction fuel as [|f IH]; intros a lo i j Hlo Hj Hji Hi Hf Inv.
    - simpl in Hf. lia.
    - cbn [rins_inner].
      destruct (lo <? j) eqn:E.
      + apply Z.ltb_lt in E.
        destruct (get_in_range a j ltac:(lia)) as [x Gx].
        destruct (get_in_range a (j - 1) ltac:(lia)) as [y Gy].
        rewrite Gx, Gy. cbn [bind]. rewrite Hless.
        destruct (cmp x y <? 0) eqn:C.
        * apply Z.ltb_lt in C.
          destruct (swap_Ok a j (j - 1) ltac:(lia) ltac:(lia)) as [a' Sw].
          rewrite Sw. cbn [bind].
          pose proof (swap_len _ _ _ _ Sw) as L'.
          destruct (IH a' lo i (j - 1)) as (b & Hb & Lb & Pb & Sb & Ob & Rb); try lia.
          { intros p q u v Hp Hpq Hq Nq Gp Gq.
            apply (swap_get_inv _ _ _ _ _ _ Sw) in Gp.
            apply (swap_get_inv _ _ _ _ _ _ Sw) in Gq.
            unfold swp in Gp, Gq.
            destruct (Z.eq_dec p q) as [Epq|Npq].
            { subst q. assert (u = v) by congruence. subst v. rewrite (cmp_refl cmp TP). lia. }
            destruct (Z.eq_dec p j) as [E1|N1]; destruct (Z.eq_dec p (j - 1)) as [E2|N2];
              destruct (Z.eq_dec q j) as [E3|N3]; destruct (Z.eq_dec q (j - 1)) as [E4|N4];
              try lia;
              try (eapply Inv; [| | | | exact Gp | exact Gq]; lia).
            assert (u = x) by congruence. assert (v = y) by congruence. subst u v. lia. }
          exists b. split; [exact Hb|]. split; [lia|].
          split; [eapply Permutation_trans; [eapply swap_Permutation; exact Sw | exact Pb]|].
          split; [exact Sb|]. split.
          -- eapply same_outside_trans; [|exact Ob].
             eapply swap_same_outside; [exact Sw | lia | lia].
          -- eapply range_from_trans; [|exact Rb].
             eapply swap_range_from; [exact Sw | lia | lia].
        * apply Z.ltb_ge in C. exists a.
          split; [reflexivity|]. split; [reflexivity|]. split; [apply Permutation_refl|].
          split; [| split; [apply same_outside_refl | apply range_from_refl]].
          intros p q u v Hp Hpq Hq Gp Gq.
          destruct (Z.eq_dec q j) as [Eq|Nq]; [| eapply Inv; eauto].
          subst q.
          destruct (Z.eq_dec p j) as [Ep|Np].
          { subst p. assert (u = v) by congruence. subst v. rewrite (cmp_refl cmp TP). lia. }
          assert (v = x) by congruence. subst v.
          apply (tp_trans cmp TP u y x).
          -- apply (Inv p (j - 1) u y); try lia; assumption.
          -- apply (cmp_nlt_ge cmp TP). lia.
      + apply Z.ltb_ge in E. exists a.
        split; [reflexivity|]. split; [reflexivity|]. split; [apply Permutation_refl|].
        split; [| split; [apply same_outside_refl | apply range_from_refl]].
        intros p q u v Hp Hpq Hq Gp Gq.
        destruct (Z.eq_dec q j) as [Eq|Nq]; [| eapply Inv; eauto].
        assert (p = q) by lia. subst p.
        assert (u = v) by congruence. subst v. rewrite (cmp_refl cmp TP). lia.
  Qed.

  Lemma rins_outer_correct : forall (cnt : nat) (a : list K) (lo hi i : Z),
    0 <= lo -> lo <= i -> i + Z.of_nat cnt = hi + 1 -> hi < len a ->
    sorted_on cmp a lo (i - 1) ->
    exists b, rins_outer less cnt a lo i = Ok b /\ len b = len a /\ Permutation a b /\
              sorted_on cmp b lo hi /\ same_outside a b lo hi /\ range_from a b lo hi.
  Proof.
    induction cnt as [|c IH]; intros a lo hi i Hlo Hi Hn Hhi Hs.
    - cbn [rins_outer]. exists a.
      split; [reflexivity|]. split; [reflexivity|]. split; [apply Permutation_refl|].
      split; [| split; [apply same_outside_refl | apply range_from_refl]].
      replace hi with (i - 1) by lia. exact Hs.
    - cbn [rins_outer].
      destruct (rins_inner_correct (S (Z.to_nat (i - lo))) a lo i i)
        as (b1 & Hb1 & Lb1 & Pb1 & Sb1 & Ob1 & Rb1); try lia.
      { intros p q x y Hp Hpq Hq Nq Gp Gq. apply (Hs p q x y); try lia; assumption. }
      rewrite Hb1. cbn [bind].
      destruct (IH b1 lo hi (i + 1)) as (b & Hb & Lb & Pb & Sb & Ob & Rb); try lia.
      { replace (i + 1 - 1) with i by lia. exact Sb1. }
      exists b. split; [exact Hb|]. split; [lia|].
      split; [eapply Permutation_trans; eauto|].
      split; [exact Sb|]. split.
      + eapply same_outside_trans; [|exact Ob].
        apply (same_outside_widen a b1 lo i lo hi); [lia | lia | exact Ob1].
      + eapply range_from_trans; [|exact Rb].
        apply (range_from_widen a b1 lo i lo hi); [lia | lia | exact Ob1 | exact Rb1].
  Qed.
End RIns.

Theorem insertion_range_correct : forall (K : Type) (cmp : K -> K -> Z) (less : K -> K -> bool),
  TotalPreorder cmp -> (forall x y, less x y = (cmp x y <? 0)) ->
  forall (a : list K) (lo hi : Z), 0 <= lo -> hi < len a -> lo <= hi + 1 ->
  exists b, insertion_range less a lo hi = Ok b /\ len b = len a /\ Permutation a b /\
            sorted_on cmp b lo hi /\ same_outside a b lo hi /\ range_from a b lo hi.
Proof.
  intros K cmp less TP Hless a lo hi Hlo Hhi Hle. unfold insertion_range.
  apply (rins_outer_correct cmp less TP Hless); try lia.
  intros i j x y H1 H2 H3 _ _. lia.
Qed.

(** * sort.Insertion is the range insertion on the whole slice *)
Section Ins.
  Context {T : Type} (cmp : T -> T -> Z).

  Lemma ins_inner_eq : forall (fuel : nat) (a : list T) (j : Z),
    ins_inner cmp fuel a j = rins_inner (fun x y => cmp x y <? 0) fuel a 0 j.
  Proof.
    induction fuel as [|f IH]; intros a j; cbn [ins_inner rins_inner]; [reflexivity|].
    destruct (0 <? j); [|reflexivity].
    destruct (get a j) as [x| |]; cbn [bind]; try reflexivity.
    destruct (get a (j - 1)) as [y| |]; cbn [bind]; try reflexivity.
    destruct (cmp x y <? 0); [|reflexivity].
    destruct (swap a j (j - 1)) as [a'| |]; cbn [bind]; try reflexivity.
    apply IH.
  Qed.

  Lemma ins_outer_eq : forall (cnt : nat) (a : list T) (i : Z),
    ins_outer cmp cnt a i = rins_outer (fun x y => cmp x y <? 0) cnt a 0 i.
  Proof.
    induction cnt as [|c IH]; intros a i; cbn [ins_outer rins_outer]; [reflexivity|].
    rewrite ins_inner_eq. rewrite Z.sub_0_r.
    destruct (rins_inner _ _ a 0 i) as [a'| |]; cbn [bind]; try reflexivity.
    apply IH.
  Qed.
End Ins.

Theorem Insertion_correct : forall (T : Type) (cmp : T -> T -> Z), TotalPreorder cmp ->
  forall a : list T, sorts_to (cle cmp) (Insertion cmp a) a.
Proof.
  intros T cmp TP a. unfold sorts_to, Insertion. rewrite ins_outer_eq.
  destruct (rins_outer_correct cmp (fun x y => cmp x y <? 0) TP (fun x y => eq_refl)
              (length a) a 0 (len a - 1) 0)
    as (b & Hb & Lb & Pb & Sb & _ & _); try (unfold len; lia).
  { intros i j x y H1 H2 H3 _ _. lia. }
  exists b. split; [exact Hb|]. split; [exact Pb|].
  apply (sorted_on_Sorted cmp). rewrite Lb. exact Sb.
Qed.

(** * sort.Selection *)
Section Sel.
  Context {T : Type} (cmp : T -> T -> Z).
  Hypothesis TP : TotalPreorder cmp.

  Lemma sel_min_correct : forall (cnt : nat) (a : list T) (i j mn : Z),
    0 <= i -> i <= mn -> mn < j -> j + Z.of_nat cnt = len a ->
    (forall k x y, i <= k -> k < j -> get a mn = Ok x -> get a k = Ok y -> cmp x y <= 0) ->
    exists m, sel_min cmp cnt a j mn = Ok m /\ i <= m < len a /\
              (forall k x y, i <= k -> get a m = Ok x -> get a k = Ok y -> cmp x y <= 0).
  Proof.
    induction cnt as [|c IH]; intros a i j mn Hi Hmn Hj Hn Hmin.
    - cbn [sel_min]. exists mn. split; [reflexivity|]. split; [lia|].
      intros k x y Hk Gx Gy. pose proof (get_Ok_range _ _ _ Gy) as Rk.
      apply (Hmin k x y); try lia; assumption.
    - cbn [sel_min].
      destruct (get_in_range a j ltac:(lia)) as [x Gx].
      destruct (get_in_range a mn ltac:(lia)) as [y Gy].
      rewrite Gx, Gy. cbn [bind].
      destruct (cmp x y <? 0) eqn:C.
      + apply Z.ltb_lt in C. apply (IH a i (j + 1) j); try lia.
        intros k u v Hk Hkj Gu Gv.
        assert (u = x) by congruence. subst u.
        destruct (Z.eq_dec k j) as [Ek|Nk].
        * subst k. assert (v = x) by congruence. subst v. rewrite (cmp_refl cmp TP). lia.
        * apply (tp_trans cmp TP x y v); [lia|].
          apply (Hmin k y v); try lia; assumption.
      + apply Z.ltb_ge in C. apply (IH a i (j + 1) mn); try lia.
        intros k u v Hk Hkj Gu Gv.
        destruct (Z.eq_dec k j) as [Ek|Nk].
        * subst k. assert (u = y) by congruence. assert (v = x) by congruence. subst u v.
          apply (cmp_nlt_ge cmp TP). lia.
        * apply (Hmin k u v); try lia; assumption.
  Qed.

  Lemma sel_outer_correct : forall (cnt : nat) (a : list T) (i : Z),
    0 <= i -> i + Z.of_nat cnt = len a ->
    sorted_on cmp a 0 (i - 1) ->
    (forall p q x y, 0 <= p -> p < i -> i <= q -> get a p = Ok x -> get a q = Ok y -> cmp x y <= 0) ->
    exists b, sel_outer cmp cnt a i = Ok b /\ len b = len a /\ Permutation a b /\
              sorted_on cmp b 0 (len a - 1).
  Proof.
    induction cnt as [|c IH]; intros a i Hi Hn Hs Hpart.
    - cbn [sel_outer]. exists a.
      split; [reflexivity|]. split; [reflexivity|]. split; [apply Permutation_refl|].
      replace (len a - 1) with (i - 1) by lia. exact Hs.
    - cbn [sel_outer].
      destruct (sel_min_correct (Z.to_nat (len a - (i + 1))) a i (i + 1) i)
        as (m & Hm & Rm & Mm); try lia.
      { intros k x y Hk Hk' Gx Gy. assert (k = i) by lia. subst k.
        assert (x = y) by congruence. subst y. rewrite (cmp_refl cmp TP). lia. }
      rewrite Hm. cbn [bind].
      destruct (swap_Ok a i m ltac:(lia) ltac:(lia)) as [a' Sw].
      rewrite Sw. cbn [bind].
      pose proof (swap_len _ _ _ _ Sw) as L'.
      destruct (IH a' (i + 1)) as (b & Hb & Lb & Pb & Sb); try lia.
      { (* sorted prefix *)
        replace (i + 1 - 1) with i by lia.
        intros p q u v Hp Hpq Hq Gp Gq.
        apply (swap_get_inv _ _ _ _ _ _ Sw) in Gp.
        apply (swap_get_inv _ _ _ _ _ _ Sw) in Gq.
        unfold swp in Gp, Gq.
        destruct (Z.eq_dec p q) as [Epq|Npq].
        { subst q. assert (u = v) by congruence. subst v. rewrite (cmp_refl cmp TP). lia. }
        destruct (Z.eq_dec p i) as [E1|N1]; destruct (Z.eq_dec p m) as [E2|N2];
          destruct (Z.eq_dec q i) as [E3|N3]; destruct (Z.eq_dec q m) as [E4|N4];
          try lia;
          try (eapply Hs; [| | | exact Gp | exact Gq]; lia);
          try (eapply Hpart; [| | | exact Gp | exact Gq]; lia). }
      { (* partition *)
        intros p q u v Hp Hpi Hq Gp Gq.
        apply (swap_get_inv _ _ _ _ _ _ Sw) in Gp.
        apply (swap_get_inv _ _ _ _ _ _ Sw) in Gq.
        unfold swp in Gp, Gq.
        destruct (Z.eq_dec p i) as [E1|N1]; destruct (Z.eq_dec p m) as [E2|N2];
          destruct (Z.eq_dec q i) as [E3|N3]; destruct (Z.eq_dec q m) as [E4|N4];
          try lia;
          try (eapply Hpart; [| | | exact Gp | exact Gq]; lia);
          try (eapply Mm; [| exact Gp | exact Gq]; lia). }
      exists b. split; [exact Hb|]. split; [lia|].
      split; [eapply Permutation_trans; [eapply swap_Permutation; exact Sw | exact Pb]|].
      rewrite L' in Sb. exact Sb.
  Qed.
End Sel.

Theorem Selection_correct : forall (T : Type) (cmp : T -> T -> Z), TotalPreorder cmp ->
  forall a : list T, sorts_to (cle cmp) (Selection cmp a) a.
Proof.
  intros T cmp TP a. unfold sorts_to, Selection.
  destruct (sel_outer_correct cmp TP (length a) a 0) as (b & Hb & Lb & Pb & Sb);
    try (unfold len; lia).
  { intros i j x y H1 H2 H3 _ _. lia. }
  exists b. split; [exact Hb|]. split; [exact Pb|].
  apply (sorted_on_Sorted cmp). rewrite Lb. exact Sb.
Qed.
