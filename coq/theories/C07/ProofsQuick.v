(** C07 — quick.go: total correctness of [partition], [quick] ([QuickCore], [Quick]),
    [quick3Way] ([Quick3Way]) and [Select]. *)
From Algo.C07 Require Import ArrLemmas.
Open Scope Z_scope.

(** * in-place updates confined to an index range *)
Section InPlace.
  Context {T : Type}.
  Implicit Types (a b c : list T) (i j lo hi : Z).

  Definition inplace a b lo hi : Prop :=
    len b = len a /\ Permutation a b /\ same_outside a b lo hi /\ range_from a b lo hi.

  Lemma inplace_refl a lo hi : inplace a a lo hi.
  Proof.
    split; [reflexivity|]. split; [apply Permutation_refl|].
    split; [apply same_outside_refl | apply range_from_refl].
  Qed.

  Lemma inplace_trans a b c lo hi : inplace a b lo hi -> inplace b c lo hi -> inplace a c lo hi.
  Proof.
    intros (L1 & P1 & S1 & R1) (L2 & P2 & S2 & R2).
    split; [congruence|]. split; [eapply Permutation_trans; eauto|].
    split; [eapply same_outside_trans; eauto | eapply range_from_trans; eauto].
  Qed.

  Lemma inplace_widen a b lo hi lo' hi' :
    lo' <= lo -> hi <= hi' -> inplace a b lo hi -> inplace a b lo' hi'.
  Proof.
    intros Hl Hh (L1 & P1 & S1 & R1).
    split; [assumption|]. split; [assumption|].
    split; [eapply same_outside_widen; eauto | eapply range_from_widen; eauto].
  Qed.

  Lemma inplace_swap a i j b lo hi :
    swap a i j = Ok b -> lo <= i <= hi -> lo <= j <= hi -> inplace a b lo hi.
  Proof.
    intros H Hi Hj.
    split; [eapply swap_len; eauto|]. split; [eapply swap_Permutation; eauto|].
    split; [eapply swap_same_outside; eauto | eapply swap_range_from; eauto].
  Qed.

  Lemma inplace_len a b lo hi : inplace a b lo hi -> len b = len a.
  Proof. intros (L & _). exact L. Qed.

  Lemma inplace_perm a b lo hi : inplace a b lo hi -> Permutation a b.
  Proof. intros (_ & P & _). exact P. Qed.

  Lemma inplace_get_out a b lo hi i : inplace a b lo hi -> i < lo \/ hi < i -> get b i = get a i.
  Proof. intros (_ & _ & S & _) Hi. apply S. exact Hi. Qed.

  (** where does [b[i]] come from? *)
  Lemma inplace_get a b lo hi i x :
    inplace a b lo hi -> get b i = Ok x ->
    exists i', get a i' = Ok x /\ (i' = i \/ (lo <= i <= hi /\ lo <= i' <= hi)).
  Proof.
    intros (_ & _ & S & R) G.
    destruct (Z_lt_ge_dec i lo) as [Lt|Ge].
    - exists i. split; [|left; reflexivity]. rewrite <- S by lia. exact G.
    - destruct (Z_lt_ge_dec hi i) as [Gt|Le].
      + exists i. split; [|left; reflexivity]. rewrite <- S by lia. exact G.
      + destruct (R i x ltac:(lia) G) as (i' & Hi' & G'). exists i'. split; [exact G'|]. right. lia.
  Qed.
End InPlace.

(** * counting with [filter] *)
Section Count.
  Context {T : Type}.

  Lemma filter_length_perm (p : T -> bool) (l l' : list T) :
    Permutation l l' -> length (filter p l) = length (filter p l').
  Proof.
    induction 1 as [|x l l' P IH|x y l|l l' l'' P1 IH1 P2 IH2]; simpl.
    - reflexivity.
    - destruct (p x); simpl; lia.
    - destruct (p x), (p y); simpl; reflexivity.
    - lia.
  Qed.

  Lemma filter_count_le (p : T -> bool) : forall (l : list T) (k : nat),
    (forall i y, nth_error l i = Some y -> p y = true -> (i < k)%nat) ->
    (length (filter p l) <= k)%nat.
  Proof.
    induction l as [|h t IH]; intros k H; simpl; [lia|].
    destruct (p h) eqn:E.
    - assert (0 < k)%nat as Hk by (apply (H 0%nat h); [reflexivity | exact E]).
      destruct k as [|k']; [lia|]. simpl. apply le_n_S. apply IH.
      intros i y N Py. assert (S i < S k')%nat by (apply (H (S i) y); assumption). lia.
    - apply IH. intros i y N Py.
      assert (S i < k)%nat by (apply (H (S i) y); assumption). lia.
  Qed.

  Lemma filter_count_ge (p : T -> bool) : forall (l : list T) (k : nat),
    (k <= length l)%nat ->
    (forall i y, nth_error l i = Some y -> (i < k)%nat -> p y = true) ->
    (k <= length (filter p l))%nat.
  Proof.
    induction l as [|h t IH]; intros k L H; simpl in *; [lia|].
    destruct k as [|k']; [lia|].
    assert (p h = true) as E by (apply (H 0%nat h); [reflexivity | lia]).
    rewrite E. simpl. apply le_n_S. apply IH; [lia|].
    intros i y N Hi. apply (H (S i) y); [exact N | lia].
  Qed.

  Lemma nth_error_get (l : list T) (n : nat) (z : T) :
    nth_error l n = Some z -> get l (Z.of_nat n) = Ok z.
  Proof. intros H. apply get_Ok_iff. rewrite Nat2Z.id. split; [lia | exact H]. Qed.
End Count.

Section Quick.
  Context {T : Type} (cmp : T -> T -> Z) (TP : TotalPreorder cmp).
  Implicit Types (a b c : list T) (i j k lo hi : Z) (x y v : T).

  (** ** generic facts on [sorted_on] *)
  Lemma sorted_on_small a lo hi : hi <= lo -> sorted_on cmp a lo hi.
  Proof.
    intros H p q x y Hp Hpq Hq Gx Gy.
    assert (p = q) by lia. subst q. assert (x = y) by congruence. subst y.
    rewrite (cmp_refl cmp TP). lia.
  Qed.

  (** three zones [lo..lt-1] <= v, [lt..gt] ~ v, [gt+1..hi] >= v with sorted outer zones *)
  Lemma sorted_on_3 b lo lt gt hi v :
    sorted_on cmp b lo (lt - 1) -> sorted_on cmp b (gt + 1) hi ->
    (forall i x, lo <= i < lt -> get b i = Ok x -> cmp x v <= 0) ->
    (forall i x, lt <= i <= gt -> get b i = Ok x -> cmp x v = 0) ->
    (forall i x, gt < i <= hi -> get b i = Ok x -> cmp v x <= 0) ->
    sorted_on cmp b lo hi.
  Proof.
    intros SL SR L M R p q x y Hp Hpq Hq Gx Gy.
    destruct (Z_lt_ge_dec q lt) as [Q|Q]; [apply (SL p q x y); try lia; assumption|].
    destruct (Z_lt_ge_dec gt p) as [P|P]; [apply (SR p q x y); try lia; assumption|].
    apply (tp_trans cmp TP x v y).
    - destruct (Z_lt_ge_dec p lt) as [P'|P']; [apply (L p); [lia | assumption]|].
      rewrite (M p x); [lia | lia | assumption].
    - destruct (Z_lt_ge_dec gt q) as [Q'|Q']; [apply (R q); [lia | assumption]|].
      rewrite (cmp_eq_sym cmp TP y v); [lia|]. apply (M q); [lia | assumption].
  Qed.

  (** ** the two scans of [partition] *)
  Lemma scan_up_spec v hi : forall (fuel : nat) a s,
    0 <= s -> s <= hi -> hi < len a -> hi - s < Z.of_nat fuel ->
    exists i', scan_up cmp fuel a v s hi = Ok i' /\ s <= i' <= hi /\
      (forall k x, s <= k < i' -> get a k = Ok x -> cmp x v < 0) /\
      (i' = hi \/ exists x, get a i' = Ok x /\ ~ cmp x v < 0).
  Proof.
    induction fuel as [|f IH]; intros a s H0 Hs Hhi Hf; [lia|].
    cbn [scan_up]. destruct (s <? hi) eqn:E.
    - apply Z.ltb_lt in E.
      destruct (get_in_range a s ltac:(lia)) as [x Hx]. rewrite Hx. cbn [bind].
      destruct (cmp x v <? 0) eqn:C.
      + apply Z.ltb_lt in C.
        destruct (IH a (s + 1) ltac:(lia) ltac:(lia) Hhi ltac:(lia)) as (i' & Ei & Ri & Li & Si).
        exists i'. split; [exact Ei|]. split; [lia|]. split; [|exact Si].
        intros k y Hk G. destruct (Z.eq_dec k s) as [->|Nk].
        * assert (y = x) by congruence. subst y. exact C.
        * apply (Li k y); [lia | exact G].
      + apply Z.ltb_ge in C. exists s. split; [reflexivity|]. split; [lia|]. split.
        * intros k y Hk G. lia.
        * right. exists x. split; [exact Hx | lia].
    - apply Z.ltb_ge in E. exists s. split; [reflexivity|]. split; [lia|]. split.
      + intros k y Hk G. lia.
      + left. lia.
  Qed.

  Lemma scan_down_spec v lo : forall (fuel : nat) a s,
    0 <= lo -> lo <= s -> s < len a -> s - lo < Z.of_nat fuel ->
    exists j', scan_down cmp fuel a v s lo = Ok j' /\ lo <= j' <= s /\
      (forall k x, j' < k <= s -> get a k = Ok x -> 0 < cmp x v) /\
      (j' = lo \/ exists x, get a j' = Ok x /\ ~ 0 < cmp x v).
  Proof.
    induction fuel as [|f IH]; intros a s H0 Hs Hhi Hf; [lia|].
    cbn [scan_down]. destruct (lo <? s) eqn:E.
    - apply Z.ltb_lt in E.
      destruct (get_in_range a s ltac:(lia)) as [x Hx]. rewrite Hx. cbn [bind].
      destruct (0 <? cmp x v) eqn:C.
      + apply Z.ltb_lt in C.
        destruct (IH a (s - 1) H0 ltac:(lia) ltac:(lia) ltac:(lia)) as (j' & Ej & Rj & Lj & Sj).
        exists j'. split; [exact Ej|]. split; [lia|]. split; [|exact Sj].
        intros k y Hk G. destruct (Z.eq_dec k s) as [->|Nk].
        * assert (y = x) by congruence. subst y. exact C.
        * apply (Lj k y); [lia | exact G].
      + apply Z.ltb_ge in C. exists s. split; [reflexivity|]. split; [lia|]. split.
        * intros k y Hk G. lia.
        * right. exists x. split; [exact Hx | lia].
    - apply Z.ltb_ge in E. exists s. split; [reflexivity|]. split; [lia|]. split.
      + intros k y Hk G. lia.
      + left. lia.
  Qed.

  (** ** the main loop of [partition] *)
  Lemma part_loop_spec v lo hi : 0 <= lo -> forall (fuel : nat) a i j,
    lo <= i -> i < j -> j <= hi + 1 -> i < hi -> hi < len a -> hi - i < Z.of_nat fuel ->
    get a lo = Ok v ->
    (forall k x, lo < k <= i -> get a k = Ok x -> cmp x v <= 0) ->
    (forall k x, j <= k <= hi -> get a k = Ok x -> cmp v x <= 0) ->
    exists b j', part_loop cmp fuel a v i j lo hi = Ok (b, j') /\ lo <= j' <= hi /\
      inplace a b lo hi /\ get b lo = Ok v /\
      (forall k x, lo < k <= j' -> get b k = Ok x -> cmp x v <= 0) /\
      (forall k x, j' < k <= hi -> get b k = Ok x -> cmp v x <= 0).
  Proof.
    intros Hlo. induction fuel as [|f IH]; intros a i j Hi Hij Hj Hih Hhi Hf Gv Hle Hge; [lia|].
    cbn [part_loop].
    destruct (scan_up_spec v hi (S (Z.to_nat (hi - (i + 1)))) a (i + 1)
                ltac:(lia) ltac:(lia) Hhi ltac:(lia)) as (i' & E1 & R1 & L1 & S1).
    rewrite E1. cbn [bind].
    destruct (scan_down_spec v lo (S (Z.to_nat (j - 1 - lo))) a (j - 1)
                Hlo ltac:(lia) ltac:(lia) ltac:(lia)) as (j' & E2 & R2 & G2 & S2).
    rewrite E2. cbn [bind].
    (* facts shared by both branches *)
    assert (Hle' : forall k x, lo < k < i' -> get a k = Ok x -> cmp x v <= 0).
    { intros k x Hk G. destruct (Z_le_gt_dec k i) as [Le|Gt].
      - apply (Hle k x); [lia | exact G].
      - assert (cmp x v < 0) by (apply (L1 k x); [lia | exact G]). lia. }
    assert (Hge' : forall k x, j' < k <= hi -> get a k = Ok x -> cmp v x <= 0).
    { intros k x Hk G. destruct (Z_lt_ge_dec k j) as [Lt|Ge].
      - apply (cmp_gt_le cmp TP). apply (G2 k x); [lia | exact G].
      - apply (Hge k x); [lia | exact G]. }
    destruct (j' <=? i') eqn:E.
    - apply Z.leb_le in E. exists a, j'. split; [reflexivity|]. split; [lia|].
      split; [apply inplace_refl|]. split; [exact Gv|]. split; [|exact Hge'].
      intros k x Hk G. destruct (Z.eq_dec k i') as [->|Nk].
      + assert (j' = i') by lia. subst j'.
        destruct S2 as [S2|(y & Gy & Ny)]; [lia|].
        assert (y = x) by congruence. subst y. lia.
      + apply (Hle' k x); [lia | exact G].
    - apply Z.leb_gt in E.
      destruct S1 as [S1|(xi & Gxi & Nxi)]; [lia|].
      destruct S2 as [S2|(xj & Gxj & Nxj)]; [lia|].
      destruct (swap_Ok a i' j' ltac:(lia) ltac:(lia)) as [a' Ha']. rewrite Ha'. cbn [bind].
      pose proof (swap_len _ _ _ _ Ha') as La'.
      assert (Gv' : get a' lo = Ok v).
      { rewrite (swap_get_other _ _ _ _ lo Ha') by lia. exact Gv. }
      assert (Hle2 : forall k x, lo < k <= i' -> get a' k = Ok x -> cmp x v <= 0).
      { intros k x Hk G. destruct (Z.eq_dec k i') as [->|Nk].
        - pose proof (swap_get_l _ _ _ _ _ Ha' Gxj) as G'.
          assert (x = xj) by congruence. subst x. lia.
        - rewrite (swap_get_other _ _ _ _ k Ha') in G by lia.
          apply (Hle' k x); [lia | exact G]. }
      assert (Hge2 : forall k x, j' <= k <= hi -> get a' k = Ok x -> cmp v x <= 0).
      { intros k x Hk G. destruct (Z.eq_dec k j') as [->|Nk].
        - pose proof (swap_get_r _ _ _ _ _ Ha' Gxi) as G'.
          assert (x = xi) by congruence. subst x. apply (cmp_nlt_ge cmp TP). exact Nxi.
        - rewrite (swap_get_other _ _ _ _ k Ha') in G by lia.
          apply (Hge' k x); [lia | exact G]. }
      destruct (IH a' i' j' ltac:(lia) ltac:(lia) ltac:(lia) ltac:(lia) ltac:(lia) ltac:(lia)
                  Gv' Hle2 Hge2) as (b & jj & Eb & Rjj & IP & Gb & Lb & Rb).
      exists b, jj. split; [exact Eb|]. split; [exact Rjj|]. split.
      + eapply inplace_trans; [|exact IP]. eapply inplace_swap; [exact Ha' | lia | lia].
      + split; [exact Gb|]. split; [exact Lb | exact Rb].
  Qed.

  (** [b[lo..hi]] is split around the pivot [v] sitting at index [j] *)
  Definition pivoted b lo hi j v : Prop :=
    get b j = Ok v /\
    (forall i x, lo <= i < j -> get b i = Ok x -> cmp x v <= 0) /\
    (forall i x, j < i <= hi -> get b i = Ok x -> cmp v x <= 0).

  Theorem partition_spec a lo hi : 0 <= lo -> lo < hi -> hi < len a ->
    exists b j v, partition cmp a lo hi = Ok (b, j) /\ lo <= j <= hi /\
      inplace a b lo hi /\ pivoted b lo hi j v.
  Proof.
    intros Hlo Hlh Hhi. unfold partition.
    destruct (get_in_range a lo ltac:(lia)) as [v Hv]. rewrite Hv. cbn [bind].
    destruct (part_loop_spec v lo hi Hlo (S (Z.to_nat (hi + 1 - lo))) a lo (hi + 1)
                ltac:(lia) ltac:(lia) ltac:(lia) Hlh Hhi ltac:(lia) Hv)
      as (a' & j & E & Rj & IP & Gv & Lb & Rb).
    { intros k x Hk G. lia. }
    { intros k x Hk G. lia. }
    rewrite E. cbn [bind].
    pose proof (inplace_len _ _ _ _ IP) as La'.
    destruct (swap_Ok a' lo j ltac:(lia) ltac:(lia)) as [b Hb]. rewrite Hb. cbn [bind].
    exists b, j, v. split; [reflexivity|]. split; [exact Rj|]. split.
    - eapply inplace_trans; [exact IP|]. eapply inplace_swap; [exact Hb | lia | lia].
    - split; [eapply swap_get_r; eauto|]. split.
      + intros i x Hi G. destruct (Z.eq_dec i lo) as [->|Ni].
        * destruct (get_in_range a' j ltac:(lia)) as [z Gz].
          pose proof (swap_get_l _ _ _ _ _ Hb Gz) as G'.
          assert (x = z) by congruence. subst x. apply (Lb j z); [lia | exact Gz].
        * rewrite (swap_get_other _ _ _ _ i Hb) in G by lia. apply (Lb i x); [lia | exact G].
      + intros i x Hi G.
        rewrite (swap_get_other _ _ _ _ i Hb) in G by lia. apply (Rb i x); [lia | exact G].
  Qed.

  (** ** quick *)
  Lemma quick_rec_spec : forall (fuel : nat) a lo hi,
    0 <= lo -> hi < len a -> hi - lo < Z.of_nat fuel -> 0 < Z.of_nat fuel ->
    exists b, quick_rec cmp fuel a lo hi = Ok b /\ inplace a b lo hi /\ sorted_on cmp b lo hi.
  Proof.
    induction fuel as [|f IH]; intros a lo hi Hlo Hhi Hf Hf0; [lia|].
    cbn [quick_rec]. destruct (hi <=? lo) eqn:E.
    - apply Z.leb_le in E. exists a. split; [reflexivity|].
      split; [apply inplace_refl | apply sorted_on_small; exact E].
    - apply Z.leb_gt in E.
      destruct (partition_spec a lo hi Hlo E Hhi) as (a1 & j & v & E1 & Rj & IP1 & Gj & Lj & Rjv).
      rewrite E1. cbn [bind].
      pose proof (inplace_len _ _ _ _ IP1) as L1.
      destruct (IH a1 lo (j - 1) Hlo ltac:(lia) ltac:(lia) ltac:(lia)) as (a2 & E2 & IP2 & S2).
      rewrite E2. cbn [bind].
      pose proof (inplace_len _ _ _ _ IP2) as L2.
      destruct (IH a2 (j + 1) hi ltac:(lia) ltac:(lia) ltac:(lia) ltac:(lia)) as (a3 & E3 & IP3 & S3).
      exists a3. split; [exact E3|]. split.
      + eapply inplace_trans; [exact IP1|]. eapply inplace_trans.
        * eapply inplace_widen; [| |exact IP2]; lia.
        * eapply inplace_widen; [| |exact IP3]; lia.
      + apply (sorted_on_3 a3 lo j j hi v).
        * intros p q x y Hp Hpq Hq Gx Gy.
          rewrite (inplace_get_out _ _ _ _ p IP3) in Gx by lia.
          rewrite (inplace_get_out _ _ _ _ q IP3) in Gy by lia.
          apply (S2 p q x y); assumption.
        * exact S3.
        * intros i x Hi G.
          rewrite (inplace_get_out _ _ _ _ i IP3) in G by lia.
          destruct (inplace_get _ _ _ _ _ _ IP2 G) as (i' & G' & Hi').
          apply (Lj i' x); [lia | exact G'].
        * intros i x Hi G. assert (i = j) by lia. subst i.
          rewrite (inplace_get_out _ _ _ _ j IP3) in G by lia.
          rewrite (inplace_get_out _ _ _ _ j IP2) in G by lia.
          assert (x = v) by congruence. subst x. apply (cmp_refl cmp TP).
        * intros i x Hi G.
          destruct (inplace_get _ _ _ _ _ _ IP3 G) as (i' & G' & Hi').
          rewrite (inplace_get_out _ _ _ _ i' IP2) in G' by lia.
          apply (Rjv i' x); [lia | exact G'].
  Qed.

  Theorem QuickCore_correct_ a : sorts_to (cle cmp) (QuickCore cmp a) a.
  Proof.
    unfold QuickCore.
    destruct (quick_rec_spec (S (length a)) a 0 (len a - 1)) as (b & E & IP & S); try (unfold len; lia).
    exists b. split; [exact E|]. split; [eapply inplace_perm; eauto|].
    apply sorted_on_Sorted. rewrite (inplace_len _ _ _ _ IP). exact S.
  Qed.

  Theorem Quick_correct_ (rnd : Z -> Z) a : sorts_to (cle cmp) (Quick cmp rnd a) a.
  Proof.
    unfold Quick. destruct (Shuffle_perm rnd a) as (a0 & E0 & P0). rewrite E0. cbn [bind].
    destruct (QuickCore_correct_ a0) as (b & E & P & S).
    exists b. split; [exact E|]. split; [eapply Permutation_trans; eauto | exact S].
  Qed.

  (** ** quick3Way *)
  Lemma q3_loop_spec v lo hi : 0 <= lo -> forall (fuel : nat) a lt i gt,
    lo <= lt -> lt < i -> i <= gt + 1 -> gt <= hi -> hi < len a -> gt + 1 - i < Z.of_nat fuel ->
    (forall k x, lo <= k < lt -> get a k = Ok x -> cmp x v <= 0) ->
    (forall k x, lt <= k < i -> get a k = Ok x -> cmp x v = 0) ->
    (forall k x, gt < k <= hi -> get a k = Ok x -> cmp v x <= 0) ->
    exists b lt' gt', q3_loop cmp fuel a v lt i gt = Ok (b, lt', gt') /\
      lo <= lt' /\ lt' <= gt' /\ gt' <= hi /\ inplace a b lo hi /\
      (forall k x, lo <= k < lt' -> get b k = Ok x -> cmp x v <= 0) /\
      (forall k x, lt' <= k <= gt' -> get b k = Ok x -> cmp x v = 0) /\
      (forall k x, gt' < k <= hi -> get b k = Ok x -> cmp v x <= 0).
  Proof.
    intros Hlo. induction fuel as [|f IH]; intros a lt i gt Hlt Hi Hig Hgt Hhi Hf ZL ZM ZR; [lia|].
    cbn [q3_loop]. destruct (i <=? gt) eqn:E.
    - apply Z.leb_le in E.
      destruct (get_in_range a i ltac:(lia)) as [x Hx]. rewrite Hx. cbn [bind]. cbv zeta.
      destruct (cmp x v <? 0) eqn:C1.
      + apply Z.ltb_lt in C1.
        destruct (swap_Ok a lt i ltac:(lia) ltac:(lia)) as [a' Ha']. rewrite Ha'. cbn [bind].
        pose proof (swap_len _ _ _ _ Ha') as La'.
        destruct (get_in_range a lt ltac:(lia)) as [w Hw].
        assert (Cw : cmp w v = 0) by (apply (ZM lt w); [lia | exact Hw]).
        assert (ZL' : forall k y, lo <= k < lt + 1 -> get a' k = Ok y -> cmp y v <= 0).
        { intros k y Hk G. destruct (Z.eq_dec k lt) as [->|Nk].
          - pose proof (swap_get_l _ _ _ _ _ Ha' Hx) as G'. assert (y = x) by congruence. subst y. lia.
          - rewrite (swap_get_other _ _ _ _ k Ha') in G by lia. apply (ZL k y); [lia | exact G]. }
        assert (ZM' : forall k y, lt + 1 <= k < i + 1 -> get a' k = Ok y -> cmp y v = 0).
        { intros k y Hk G. destruct (Z.eq_dec k i) as [->|Nk].
          - pose proof (swap_get_r _ _ _ _ _ Ha' Hw) as G'. assert (y = w) by congruence. subst y. exact Cw.
          - rewrite (swap_get_other _ _ _ _ k Ha') in G by lia. apply (ZM k y); [lia | exact G]. }
        assert (ZR' : forall k y, gt < k <= hi -> get a' k = Ok y -> cmp v y <= 0).
        { intros k y Hk G. rewrite (swap_get_other _ _ _ _ k Ha') in G by lia.
          apply (ZR k y); [lia | exact G]. }
        destruct (IH a' (lt + 1) (i + 1) gt ltac:(lia) ltac:(lia) ltac:(lia) ltac:(lia) ltac:(lia)
                    ltac:(lia) ZL' ZM' ZR') as (b & lt' & gt' & Eb & B1 & B2 & B3 & IP & RL & RM & RR).
        exists b, lt', gt'. split; [exact Eb|]. split; [lia|]. split; [lia|]. split; [lia|]. split.
        * eapply inplace_trans; [|exact IP]. eapply inplace_swap; [exact Ha' | lia | lia].
        * split; [exact RL|]. split; [exact RM | exact RR].
      + apply Z.ltb_ge in C1. destruct (0 <? cmp x v) eqn:C2.
        * apply Z.ltb_lt in C2.
          destruct (swap_Ok a i gt ltac:(lia) ltac:(lia)) as [a' Ha']. rewrite Ha'. cbn [bind].
          pose proof (swap_len _ _ _ _ Ha') as La'.
          assert (ZL' : forall k y, lo <= k < lt -> get a' k = Ok y -> cmp y v <= 0).
          { intros k y Hk G. rewrite (swap_get_other _ _ _ _ k Ha') in G by lia.
            apply (ZL k y); [lia | exact G]. }
          assert (ZM' : forall k y, lt <= k < i -> get a' k = Ok y -> cmp y v = 0).
          { intros k y Hk G. rewrite (swap_get_other _ _ _ _ k Ha') in G by lia.
            apply (ZM k y); [lia | exact G]. }
          assert (ZR' : forall k y, gt - 1 < k <= hi -> get a' k = Ok y -> cmp v y <= 0).
          { intros k y Hk G. destruct (Z.eq_dec k gt) as [->|Nk].
            - pose proof (swap_get_r _ _ _ _ _ Ha' Hx) as G'. assert (y = x) by congruence. subst y.
              apply (cmp_gt_le cmp TP). exact C2.
            - rewrite (swap_get_other _ _ _ _ k Ha') in G by lia. apply (ZR k y); [lia | exact G]. }
          destruct (IH a' lt i (gt - 1) ltac:(lia) ltac:(lia) ltac:(lia) ltac:(lia) ltac:(lia)
                      ltac:(lia) ZL' ZM' ZR') as (b & lt' & gt' & Eb & B1 & B2 & B3 & IP & RL & RM & RR).
          exists b, lt', gt'. split; [exact Eb|]. split; [lia|]. split; [lia|]. split; [lia|]. split.
          -- eapply inplace_trans; [|exact IP]. eapply inplace_swap; [exact Ha' | lia | lia].
          -- split; [exact RL|]. split; [exact RM | exact RR].
        * apply Z.ltb_ge in C2.
          assert (ZM' : forall k y, lt <= k < i + 1 -> get a k = Ok y -> cmp y v = 0).
          { intros k y Hk G. destruct (Z.eq_dec k i) as [->|Nk].
            - assert (y = x) by congruence. subst y. lia.
            - apply (ZM k y); [lia | exact G]. }
          destruct (IH a lt (i + 1) gt ltac:(lia) ltac:(lia) ltac:(lia) ltac:(lia) ltac:(lia)
                      ltac:(lia) ZL ZM' ZR) as (b & lt' & gt' & Eb & B1 & B2 & B3 & IP & RL & RM & RR).
          exists b, lt', gt'. split; [exact Eb|]. split; [lia|]. split; [lia|]. split; [lia|].
          split; [exact IP|]. split; [exact RL|]. split; [exact RM | exact RR].
    - apply Z.leb_gt in E. exists a, lt, gt. split; [reflexivity|].
      split; [lia|]. split; [lia|]. split; [lia|]. split; [apply inplace_refl|].
      split; [exact ZL|]. split; [|exact ZR].
      intros k x Hk G. apply (ZM k x); [lia | exact G].
  Qed.

  Lemma quick3_spec : forall (fuel : nat) a lo hi,
    0 <= lo -> hi < len a -> hi - lo < Z.of_nat fuel -> 0 < Z.of_nat fuel ->
    exists b, quick3 cmp fuel a lo hi = Ok b /\ inplace a b lo hi /\ sorted_on cmp b lo hi.
  Proof.
    induction fuel as [|f IH]; intros a lo hi Hlo Hhi Hf Hf0; [lia|].
    cbn [quick3]. destruct (hi <=? lo) eqn:E.
    - apply Z.leb_le in E. exists a. split; [reflexivity|].
      split; [apply inplace_refl | apply sorted_on_small; exact E].
    - apply Z.leb_gt in E.
      destruct (get_in_range a lo ltac:(lia)) as [v Hv]. rewrite Hv. cbn [bind].
      destruct (q3_loop_spec v lo hi Hlo (S (Z.to_nat (hi - lo))) a lo (lo + 1) hi
                  ltac:(lia) ltac:(lia) ltac:(lia) ltac:(lia) Hhi ltac:(lia))
        as (a1 & lt & gt & E1 & B1 & B2 & B3 & IP1 & ZL & ZM & ZR).
      { intros k x Hk G. lia. }
      { intros k x Hk G. assert (k = lo) by lia. subst k.
        assert (x = v) by congruence. subst x. apply (cmp_refl cmp TP). }
      { intros k x Hk G. lia. }
      rewrite E1. cbn [bind].
      pose proof (inplace_len _ _ _ _ IP1) as L1.
      destruct (IH a1 lo (lt - 1) Hlo ltac:(lia) ltac:(lia) ltac:(lia)) as (a2 & E2 & IP2 & S2).
      rewrite E2. cbn [bind].
      pose proof (inplace_len _ _ _ _ IP2) as L2.
      destruct (IH a2 (gt + 1) hi ltac:(lia) ltac:(lia) ltac:(lia) ltac:(lia)) as (a3 & E3 & IP3 & S3).
      exists a3. split; [exact E3|]. split.
      + eapply inplace_trans; [exact IP1|]. eapply inplace_trans.
        * eapply inplace_widen; [| |exact IP2]; lia.
        * eapply inplace_widen; [| |exact IP3]; lia.
      + apply (sorted_on_3 a3 lo lt gt hi v).
        * intros p q x y Hp Hpq Hq Gx Gy.
          rewrite (inplace_get_out _ _ _ _ p IP3) in Gx by lia.
          rewrite (inplace_get_out _ _ _ _ q IP3) in Gy by lia.
          apply (S2 p q x y); assumption.
        * exact S3.
        * intros i x Hi G.
          rewrite (inplace_get_out _ _ _ _ i IP3) in G by lia.
          destruct (inplace_get _ _ _ _ _ _ IP2 G) as (i' & G' & Hi').
          apply (ZL i' x); [lia | exact G'].
        * intros i x Hi G.
          rewrite (inplace_get_out _ _ _ _ i IP3) in G by lia.
          rewrite (inplace_get_out _ _ _ _ i IP2) in G by lia.
          apply (ZM i x); [lia | exact G].
        * intros i x Hi G.
          destruct (inplace_get _ _ _ _ _ _ IP3 G) as (i' & G' & Hi').
          rewrite (inplace_get_out _ _ _ _ i' IP2) in G' by lia.
          apply (ZR i' x); [lia | exact G'].
  Qed.

  Theorem Quick3Way_correct_ a : sorts_to (cle cmp) (Quick3Way cmp a) a.
  Proof.
    unfold Quick3Way.
    destruct (quick3_spec (S (length a)) a 0 (len a - 1)) as (b & E & IP & S); try (unfold len; lia).
    exists b. split; [exact E|]. split; [eapply inplace_perm; eauto|].
    apply sorted_on_Sorted. rewrite (inplace_len _ _ _ _ IP). exact S.
  Qed.

  (** ** Select *)
  (** everything left of index [m] is <= everything from [m] on *)
  Definition split_at a (m : Z) : Prop :=
    forall i q x y, i < m -> m <= q -> get a i = Ok x -> get a q = Ok y -> cmp x y <= 0.

  Lemma split_at_inplace a b lo hi m :
    split_at a m -> inplace a b lo hi -> m <= lo \/ hi < m -> split_at b m.
  Proof.
    intros S IP Hm i q x y Hi Hq Gx Gy.
    destruct (inplace_get _ _ _ _ _ _ IP Gx) as (i' & Gx' & Hi').
    destruct (inplace_get _ _ _ _ _ _ IP Gy) as (q' & Gy' & Hq').
    apply (S i' q' x y); try assumption; lia.
  Qed.

  Lemma split_at_pivot b lo hi j v m :
    lo <= j <= hi -> pivoted b lo hi j v -> split_at b lo -> split_at b (hi + 1) ->
    m = j \/ m = j + 1 -> split_at b m.
  Proof.
    intros Hj (Gv & L & R) S1 S2 Hm i q x y Hi Hq Gx Gy.
    destruct (Z_lt_ge_dec i lo) as [Il|Il]; [apply (S1 i q x y); try assumption; lia|].
    destruct (Z_lt_ge_dec hi q) as [Qh|Qh]; [apply (S2 i q x y); try assumption; lia|].
    apply (tp_trans cmp TP x v y).
    - destruct (Z.eq_dec i j) as [->|Ni].
      + assert (x = v) by congruence. subst x. rewrite (cmp_refl cmp TP). lia.
      + apply (L i x); [lia | exact Gx].
    - destruct (Z.eq_dec q j) as [->|Nq].
      + assert (y = v) by congruence. subst y. rewrite (cmp_refl cmp TP). lia.
      + apply (R q y); [lia | exact Gy].
  Qed.

  Lemma select_loop_spec k : forall (fuel : nat) a lo hi,
    0 <= lo -> lo <= k -> k <= hi -> hi < len a -> hi - lo < Z.of_nat fuel ->
    split_at a lo -> split_at a (hi + 1) ->
    exists b x, select_loop cmp fuel a lo hi k = Ok (b, x) /\ Permutation a b /\ get b k = Ok x /\
      (forall i y, i < k -> get b i = Ok y -> cmp y x <= 0) /\
      (forall i y, k < i -> get b i = Ok y -> cmp x y <= 0).
  Proof.
    induction fuel as [|f IH]; intros a lo hi Hlo Hlk Hkh Hhi Hf S1 S2; [lia|].
    cbn [select_loop]. destruct (lo <? hi) eqn:E.
    - apply Z.ltb_lt in E.
      destruct (partition_spec a lo hi Hlo E Hhi) as (a1 & j & v & E1 & Rj & IP1 & PV).
      rewrite E1. cbn [bind].
      pose proof (inplace_len _ _ _ _ IP1) as L1.
      pose proof (inplace_perm _ _ _ _ IP1) as P1.
      assert (S1' : split_at a1 lo) by (eapply split_at_inplace; [exact S1 | exact IP1 | lia]).
      assert (S2' : split_at a1 (hi + 1)) by (eapply split_at_inplace; [exact S2 | exact IP1 | lia]).
      destruct (j <? k) eqn:C1.
      + apply Z.ltb_lt in C1.
        assert (S3 : split_at a1 (j + 1)) by (eapply split_at_pivot; eauto).
        destruct (IH a1 (j + 1) hi ltac:(lia) ltac:(lia) Hkh ltac:(lia) ltac:(lia) S3 S2')
          as (b & x & Eb & Pb & Gb & Lb & Rb).
        exists b, x. split; [exact Eb|]. split; [eapply Permutation_trans; eauto|].
        split; [exact Gb|]. split; [exact Lb | exact Rb].
      + apply Z.ltb_ge in C1. destruct (k <? j) eqn:C2.
        * apply Z.ltb_lt in C2.
          assert (S3 : split_at a1 (j - 1 + 1)) by (eapply split_at_pivot; eauto; lia).
          destruct (IH a1 lo (j - 1) Hlo Hlk ltac:(lia) ltac:(lia) ltac:(lia) S1' S3)
            as (b & x & Eb & Pb & Gb & Lb & Rb).
          exists b, x. split; [exact Eb|]. split; [eapply Permutation_trans; eauto|].
          split; [exact Gb|]. split; [exact Lb | exact Rb].
        * apply Z.ltb_ge in C2. assert (j = k) by lia. subst j.
          destruct PV as (Gv & L & R). rewrite Gv. cbn [bind].
          exists a1, v. split; [reflexivity|]. split; [exact P1|]. split; [exact Gv|]. split.
          -- intros i y Hi G. destruct (Z_lt_ge_dec i lo) as [Il|Il].
             ++ apply (S1' i k y v); try assumption; lia.
             ++ apply (L i y); [lia | exact G].
          -- intros i y Hi G. destruct (Z_lt_ge_dec hi i) as [Ih|Ih].
             ++ apply (S2' k i v y); try assumption; lia.
             ++ apply (R i y); [lia | exact G].
    - apply Z.ltb_ge in E.
      destruct (get_in_range a k ltac:(lia)) as [x Hx]. rewrite Hx. cbn [bind].
      exists a, x. split; [reflexivity|]. split; [apply Permutation_refl|]. split; [exact Hx|]. split.
      + intros i y Hi G. apply (S1 i k y x); try assumption; lia.
      + intros i y Hi G. apply (S2 k i x y); try assumption; lia.
  Qed.

  (** the counting argument: an element in its final position has rank [k] *)
  Lemma rank_partitioned b k x (s : list T) : 0 <= k -> get b k = Ok x ->
    (forall i y, i < k -> get b i = Ok y -> cmp y x <= 0) ->
    (forall i y, k < i -> get b i = Ok y -> cmp x y <= 0) ->
    Permutation b s -> Sorted (cle cmp) s ->
    exists y, nth_error s (Z.to_nat k) = Some y /\ cmp x y = 0.
  Proof.
    intros Hk Gx L R P Srt.
    pose proof (get_Ok_range _ _ _ Gx) as Rk.
    assert (len s = len b) as Ls by (unfold len; rewrite (Permutation_length P); reflexivity).
    destruct (get_in_range s k ltac:(lia)) as [y Gy].
    exists y. split; [apply get_Ok_iff in Gy; tauto|].
    pose proof (Sorted_sorted_on cmp TP s Srt) as SS.
    assert (N1 : ~ cmp y x < 0).
    { intros C. set (p := fun z : T => cmp z x <? 0).
      assert (S (Z.to_nat k) <= length (filter p s))%nat as A1.
      { apply filter_count_ge.
        - unfold len in *. lia.
        - intros i z N Hi. apply nth_error_get in N. unfold p. apply Z.ltb_lt.
          apply (cmp_lt_trans_r cmp TP z y x); [|exact C].
          apply (SS (Z.of_nat i) k z y); try lia; assumption. }
      assert (length (filter p b) <= Z.to_nat k)%nat as A2.
      { apply filter_count_le. intros i z N Pz. apply nth_error_get in N.
        unfold p in Pz. apply Z.ltb_lt in Pz.
        destruct (Z_lt_ge_dec (Z.of_nat i) k) as [Lt|Ge]; [lia|]. exfalso.
        destruct (Z.eq_dec (Z.of_nat i) k) as [e|ne].
        - rewrite e in N. assert (z = x) by congruence. subst z.
          rewrite (cmp_refl cmp TP) in Pz. lia.
        - assert (cmp x z <= 0) by (apply (R (Z.of_nat i)); [lia | exact N]).
          pose proof (tp_flip cmp TP z x). lia. }
      rewrite (filter_length_perm p b s P) in A2. lia. }
    assert (N2 : ~ cmp x y < 0).
    { intros C. set (p := fun z : T => cmp z x <=? 0).
      assert (S (Z.to_nat k) <= length (filter p b))%nat as A1.
      { apply filter_count_ge.
        - unfold len in *. lia.
        - intros i z N Hi. apply nth_error_get in N. unfold p. apply Z.leb_le.
          destruct (Z.eq_dec (Z.of_nat i) k) as [e|ne].
          + rewrite e in N. assert (z = x) by congruence. subst z.
            rewrite (cmp_refl cmp TP). lia.
          + apply (L (Z.of_nat i)); [lia | exact N]. }
      assert (length (filter p s) <= Z.to_nat k)%nat as A2.
      { apply filter_count_le. intros i z N Pz. apply nth_error_get in N.
        unfold p in Pz. apply Z.leb_le in Pz.
        destruct (Z_lt_ge_dec (Z.of_nat i) k) as [Lt|Ge]; [lia|]. exfalso.
        pose proof (get_Ok_range _ _ _ N) as Ri.
        assert (cmp y z <= 0) by (apply (SS k (Z.of_nat i) y z); try lia; assumption).
        assert (cmp x z < 0) by (apply (cmp_lt_trans_l cmp TP x y z); assumption).
        pose proof (tp_flip cmp TP x z). lia. }
      rewrite (filter_length_perm p b s P) in A1. lia. }
    pose proof (tp_flip cmp TP x y). pose proof (tp_flip cmp TP y x). lia.
  Qed.

  Theorem SelectCore_spec a k : 0 <= k < len a ->
    exists a' x, SelectCore cmp a k = Ok (a', x) /\ Permutation a a' /\ get a' k = Ok x /\
      (forall i y, i < k -> get a' i = Ok y -> cmp y x <= 0) /\
      (forall i y, k < i -> get a' i = Ok y -> cmp x y <= 0).
  Proof.
    intros Hk. unfold SelectCore.
    apply (select_loop_spec k (S (length a)) a 0 (len a - 1)); try (unfold len in *; lia).
    - intros i q x y Hi Hq Gx Gy. apply get_Ok_range in Gx. lia.
    - intros i q x y Hi Hq Gx Gy. apply get_Ok_range in Gy. lia.
  Qed.

  Theorem Select_correct_ (rnd : Z -> Z) a k : 0 <= k < len a ->
    exists a' x, Select cmp rnd a k = Ok (a', x) /\ Permutation a a' /\ has_rank cmp a k x.
  Proof.
    intros Hk. unfold Select.
    destruct (Shuffle_perm rnd a) as (a0 & E0 & P0). rewrite E0. cbn [bind].
    assert (len a0 = len a) as L0 by (unfold len; rewrite (Permutation_length P0); reflexivity).
    destruct (SelectCore_spec a0 k ltac:(lia)) as (a' & x & E & P & Gx & L & R).
    exists a', x. split; [exact E|].
    assert (Permutation a a') as Pa by (eapply Permutation_trans; eauto).
    split; [exact Pa|]. split.
    - apply (Permutation_in x (Permutation_sym Pa)). eapply get_Ok_In; eauto.
    - intros s Ps Ss. apply (rank_partitioned a' k x s); try assumption; [lia|].
      eapply Permutation_trans; [apply Permutation_sym; exact Pa | exact Ps].
  Qed.
End Quick.

(** * the contract *)
Theorem QuickCore_correct : forall (T : Type) (cmp : T -> T -> Z), TotalPreorder cmp ->
  forall a : list T, sorts_to (cle cmp) (QuickCore cmp a) a.
Proof. intros T cmp TP a. apply QuickCore_correct_. exact TP. Qed.

Theorem Quick_correct : forall (T : Type) (cmp : T -> T -> Z), TotalPreorder cmp ->
  forall (rnd : Z -> Z) (a : list T), sorts_to (cle cmp) (Quick cmp rnd a) a.
Proof. intros T cmp TP rnd a. apply Quick_correct_. exact TP. Qed.

Theorem Quick3Way_correct : forall (T : Type) (cmp : T -> T -> Z), TotalPreorder cmp ->
  forall a : list T, sorts_to (cle cmp) (Quick3Way cmp a) a.
Proof. intros T cmp TP a. apply Quick3Way_correct_. exact TP. Qed.

Theorem Select_correct : forall (T : Type) (cmp : T -> T -> Z), TotalPreorder cmp ->
  forall (rnd : Z -> Z) (a : list T) (k : Z), 0 <= k < len a ->
  exists a' x, Select cmp rnd a k = Ok (a', x) /\ Permutation a a' /\ has_rank cmp a k x.
Proof. intros T cmp TP rnd a k Hk. apply Select_correct_; assumption. Qed.
