(** C07 — heap sort (/repo/sort/heap.go): [Heap] returns a sorted permutation of its input. *)
From Algo.C07 Require Import ArrLemmas.
Open Scope Z_scope.

Section HeapProofs.
  Context {T : Type} (cmp : T -> T -> Z) (TP : TotalPreorder cmp).
  Implicit Types (b : list T) (p c k n lo : Z).

  (** reads after a swap, as one rewriting rule *)
  Lemma swap_get_cases b b' i j xi xj :
    swap b i j = Ok b' -> get b i = Ok xi -> get b j = Ok xj ->
    forall m, get b' m = if m =? i then Ok xj else if m =? j then Ok xi else get b m.
  Proof.
    intros S Gi Gj m.
    destruct (m =? i) eqn:E1; [apply Z.eqb_eq in E1; subst m; eapply swap_get_l; eauto|].
    destruct (m =? j) eqn:E2; [apply Z.eqb_eq in E2; subst m; eapply swap_get_r; eauto|].
    apply Z.eqb_neq in E1. apply Z.eqb_neq in E2. eapply swap_get_other; eauto.
  Qed.

  (** [c] is a child of [p] in the implicit binary tree on 1..n *)
  Definition child c p : Prop := c = 2 * p \/ c = 2 * p + 1.

  (** the element at [p] dominates the element at [c] *)
  Definition dom b p c : Prop :=
    forall x y, get b p = Ok x -> get b c = Ok y -> cmp y x <= 0.

  (** every parent [>= lo] dominates its children [<= n] *)
  Definition heap_from b lo n : Prop :=
    forall p c, lo <= p -> c <= n -> child c p -> dom b p c.

  (** the same, except for the pairs whose parent is [k] *)
  Definition heap_ex b lo n k : Prop :=
    forall p c, lo <= p -> c <= n -> child c p -> p <> k -> dom b p c.

  (** the parent of [k] (if it is [>= lo]) dominates the children of [k] *)
  Definition gp_ok b lo n k : Prop :=
    forall g c, lo <= g -> child k g -> child c k -> c <= n -> dom b g c.

  Ltac eqb_tac :=
    repeat match goal with
    | H : context[?a =? ?b] |- _ =>
        first [ replace (a =? b) with true in H by (symmetry; apply Z.eqb_eq; unfold child in *; lia)
              | replace (a =? b) with false in H by (symmetry; apply Z.eqb_neq; unfold child in *; lia) ]
    end.

  (** ** sink *)
  Lemma sink_correct : forall fuel b k n lo,
    1 <= lo <= k -> n < len b -> 1 <= Z.of_nat fuel -> n + 1 - k <= Z.of_nat fuel ->
    heap_ex b lo n k -> gp_ok b lo n k ->
    exists b', sink cmp fuel b k n = Ok b' /\ Permutation b b' /\ len b' = len b /\
               same_outside b b' k n /\ range_from b b' k n /\ heap_from b' lo n.
  Proof.
    induction fuel as [|f IH]; intros b k n lo Hlo Hn Hf1 Hf HE HG; [lia|].
    cbn [sink].
    destruct (2 * k <=? n) eqn:E2k.
    2:{ apply Z.leb_gt in E2k. exists b.
        split; [reflexivity|]. split; [apply Permutation_refl|]. split; [reflexivity|].
        split; [apply same_outside_refl|]. split; [apply range_from_refl|].
        intros p c Hp Hc Hch. destruct (Z.eq_dec p k) as [->|Np].
        - unfold child in Hch. lia.
        - apply HE; auto. }
    apply Z.leb_le in E2k.
    assert (exists j',
      (if 2 * k <? n
       then x <- get b (2 * k) ;; y <- get b (2 * k + 1) ;;
            Ok (if cmp x y <? 0 then 2 * k + 1 else 2 * k)
       else Ok (2 * k)) = Ok j' /\ child j' k /\ j' <= n /\
      forall c, child c k -> c <= n -> dom b j' c) as (j' & Ej & Hcj & Hjn & Hmax).
    { destruct (2 * k <? n) eqn:Ejn.
      - apply Z.ltb_lt in Ejn.
        destruct (get_in_range b (2 * k) ltac:(lia)) as [x Gx].
        destruct (get_in_range b (2 * k + 1) ltac:(lia)) as [y Gy].
        rewrite Gx, Gy. cbn [bind].
        destruct (cmp x y <? 0) eqn:Exy.
        + apply Z.ltb_lt in Exy. exists (2 * k + 1).
          split; [reflexivity|]. split; [right; reflexivity|]. split; [lia|].
          intros c [->| ->] Hcn x' y' Gx' Gy'.
          * assert (x' = y) by congruence. assert (y' = x) by congruence. subst. lia.
          * assert (x' = y') by congruence. subst. rewrite (cmp_refl cmp TP). lia.
        + apply Z.ltb_ge in Exy. exists (2 * k).
          split; [reflexivity|]. split; [left; reflexivity|]. split; [lia|].
          intros c [->| ->] Hcn x' y' Gx' Gy'.
          * assert (x' = y') by congruence. subst. rewrite (cmp_refl cmp TP). lia.
          * assert (x' = x) by congruence. assert (y' = y) by congruence. subst.
            apply (cmp_nlt_ge cmp TP). lia.
      - apply Z.ltb_ge in Ejn. exists (2 * k).
        split; [reflexivity|]. split; [left; reflexivity|]. split; [lia|].
        intros c [->| ->] Hcn x' y' Gx' Gy'; [|lia].
        assert (x' = y') by congruence. subst. rewrite (cmp_refl cmp TP). lia. }
    rewrite Ej. cbn [bind].
    assert (k < j') as Hkj by (unfold child in Hcj; lia).
    destruct (get_in_range b k ltac:(lia)) as [xk Gk].
    destruct (get_in_range b j' ltac:(lia)) as [xj Gj].
    rewrite Gk, Gj. cbn [bind].
    pose proof (tp_flip cmp TP xk xj) as Fkj.
    destruct (0 <=? cmp xk xj) eqn:Ec.
    - apply Z.leb_le in Ec. exists b.
      split; [reflexivity|]. split; [apply Permutation_refl|]. split; [reflexivity|].
      split; [apply same_outside_refl|]. split; [apply range_from_refl|].
      intros p c Hp Hc Hch. destruct (Z.eq_dec p k) as [->|Np]; [|apply HE; auto].
      intros x y Gx Gy. assert (x = xk) by congruence. subst x.
      apply (tp_trans cmp TP y xj xk).
      + apply (Hmax c Hch Hc xj y Gj Gy).
      + lia.
    - apply Z.leb_gt in Ec.
      destruct (swap_Ok b k j' ltac:(lia) ltac:(lia)) as [b1 S1]. rewrite S1. cbn [bind].
      pose proof (swap_get_cases _ _ _ _ _ _ S1 Gk Gj) as G1.
      pose proof (swap_len _ _ _ _ S1) as L1.
      destruct (IH b1 j' n lo) as (b2 & E2 & P2 & L2 & SO2 & RF2 & HF2).
      + lia.
      + lia.
      + lia.
      + unfold child in Hcj. lia.
      + (* heap_ex b1 lo n j' *)
        intros p c Hp Hc Hch Np x y Gx Gy. rewrite G1 in Gx, Gy.
        destruct (Z.eq_dec p k) as [->|Npk].
        * destruct (Z.eq_dec c j') as [->|Ncj].
          -- eqb_tac. assert (x = xj) by congruence. assert (y = xk) by congruence. subst. lia.
          -- eqb_tac. assert (x = xj) by congruence. subst.
             apply (Hmax c Hch Hc xj y Gj Gy).
        * destruct (Z.eq_dec c k) as [->|Nck].
          -- eqb_tac. assert (y = xj) by congruence. subst.
             apply (HG p j' Hp Hch Hcj Hjn x xj Gx Gj).
          -- assert (c <> j') by (unfold child in *; lia).
             eqb_tac. apply (HE p c Hp Hc Hch Npk x y Gx Gy).
      + (* gp_ok b1 lo n j' *)
        intros g c Hg Hkg Hck Hc x y Gx Gy.
        assert (g = k) by (unfold child in *; lia). subst g.
        rewrite G1 in Gx, Gy.
        assert (c <> k /\ c <> j') as [Nck Ncj] by (unfold child in *; lia).
        eqb_tac. assert (x = xj) by congruence. subst.
        apply (HE j' c ltac:(lia) Hc Hck ltac:(lia) xj y Gj Gy).
      + exists b2. split; [exact E2|].
        split; [eapply Permutation_trans; [eapply swap_Permutation; exact S1 | exact P2]|].
        split; [lia|].
        assert (same_outside b b1 k n) as SO1 by (eapply swap_same_outside; eauto; lia).
        assert (range_from b b1 k n) as RF1 by (eapply swap_range_from; eauto; lia).
        split; [|split].
        * eapply same_outside_trans; [exact SO1|].
          eapply same_outside_widen; [| |exact SO2]; lia.
        * eapply range_from_trans; [exact RF1|].
          eapply range_from_widen; [| |exact SO2|exact RF2]; lia.
        * exact HF2.
  Qed.

  (** ** heap_build *)
  Lemma heap_build_correct : forall cnt b k n,
    Z.of_nat cnt = k -> n < len b -> heap_from b (k + 1) n ->
    exists b', heap_build cmp cnt b k n = Ok b' /\ Permutation b b' /\ len b' = len b /\
               get b' 0 = get b 0 /\ heap_from b' 1 n.
  Proof.
    induction cnt as [|c IH]; intros b k n Hk Hn HF.
    - exists b. cbn [heap_build].
      split; [reflexivity|]. split; [apply Permutation_refl|]. split; [reflexivity|].
      split; [reflexivity|]. replace 1 with (k + 1) by lia. exact HF.
    - cbn [heap_build].
      destruct (sink_correct (S (length b)) b k n k) as (b1 & E1 & P1 & L1 & SO1 & _ & HF1).
      + lia.
      + exact Hn.
      + lia.
      + unfold len in Hn. lia.
      + intros p c' Hp Hc Hch Np. apply HF; auto. lia.
      + intros g c' Hg Hkg Hck Hc. unfold child in *. lia.
      + rewrite E1. cbn [bind].
        destruct (IH b1 (k - 1) n) as (b2 & E2 & P2 & L2 & G2 & HF2).
        * lia.
        * lia.
        * replace (k - 1 + 1) with k by lia. exact HF1.
        * exists b2. split; [exact E2|].
          split; [eapply Permutation_trans; eauto|]. split; [lia|].
          split; [|exact HF2]. rewrite G2. apply SO1. lia.
  Qed.

  (** ** the root of a heap is a maximum *)
  Lemma heap_root_max b n r :
    n < len b -> heap_from b 1 n -> get b 1 = Ok r ->
    forall (m : nat) i x, i <= Z.of_nat m -> 1 <= i <= n -> get b i = Ok x -> cmp x r <= 0.
  Proof.
    intros Hn HF Gr. induction m as [|m IH]; intros i x Hm Hi Gx; [lia|].
    destruct (Z.eq_dec i 1) as [->|Ni].
    - assert (x = r) by congruence. subst. rewrite (cmp_refl cmp TP). lia.
    - pose proof (Z.div_mod i 2 ltac:(lia)) as Hdm.
      pose proof (Z.mod_pos_bound i 2 ltac:(lia)) as Hmb.
      set (p := i / 2) in *.
      assert (child i p) as Hch by (unfold child; lia).
      assert (1 <= p < i) as Hp by lia.
      destruct (get_in_range b p ltac:(lia)) as [xp Gp].
      apply (tp_trans cmp TP x xp r).
      + apply (HF p i ltac:(lia) ltac:(lia) Hch xp x Gp Gx).
      + apply (IH p xp); [lia | lia | exact Gp].
  Qed.

  (** ** heap_down *)
  Definition cross b n N : Prop :=
    forall i j x y, 1 <= i <= n -> n + 1 <= j <= N ->
                    get b i = Ok x -> get b j = Ok y -> cmp x y <= 0.

  Lemma heap_down_correct : forall cnt b n N,
    Z.of_nat cnt = Z.max 0 (n - 1) -> 0 <= n <= N -> len b = N + 1 ->
    heap_from b 1 n -> sorted_on cmp b (n + 1) N -> cross b n N ->
    exists b', heap_down cmp cnt b n = Ok b' /\ Permutation b b' /\ len b' = len b /\
               get b' 0 = get b 0 /\ sorted_on cmp b' 1 N.
  Proof.
    induction cnt as [|c IH]; intros b n N Hc Hn HL HF HS HX.
    - exists b. cbn [heap_down].
      split; [reflexivity|]. split; [apply Permutation_refl|]. split; [reflexivity|].
      split; [reflexivity|].
      intros i j x y Hi Hij Hj Gx Gy.
      destruct (Z_le_gt_dec (n + 1) i) as [Li|Gi].
      + apply (HS i j x y); auto.
      + assert (i = 1 /\ n = 1) as [-> ->] by lia.
        destruct (Z.eq_dec j 1) as [->|Nj].
        * assert (x = y) by congruence. subst. rewrite (cmp_refl cmp TP). lia.
        * apply (HX 1 j x y); auto; lia.
    - cbn [heap_down].
      assert (2 <= n) as Hn2 by lia.
      destruct (get_in_range b 1 ltac:(lia)) as [r Gr].
      destruct (get_in_range b n ltac:(lia)) as [z Gz].
      destruct (swap_Ok b 1 n ltac:(lia) ltac:(lia)) as [b1 S1]. rewrite S1. cbn [bind].
      pose proof (swap_get_cases _ _ _ _ _ _ S1 Gr Gz) as G1.
      pose proof (swap_len _ _ _ _ S1) as L1.
      destruct (sink_correct (S (length b)) b1 1 (n - 1) 1) as (b2 & E2 & P2 & L2 & SO2 & RF2 & HF2).
      + lia.
      + lia.
      + lia.
      + unfold len in HL. lia.
      + intros p c' Hp Hc' Hch Np x y Gx Gy. rewrite G1 in Gx, Gy.
        assert (p <> n /\ c' <> 1 /\ c' <> n) as (N1 & N2 & N3) by (unfold child in *; lia).
        eqb_tac. apply (HF p c' Hp ltac:(lia) Hch x y Gx Gy).
      + intros g c' Hg Hkg Hck Hc'. unfold child in *. lia.
      + rewrite E2. cbn [bind].
        destruct (IH b2 (n - 1) N) as (b3 & E3 & P3 & L3 & G3 & HS3).
        * lia.
        * lia.
        * lia.
        * exact HF2.
        * (* sorted_on b2 n N *)
          replace (n - 1 + 1) with n by lia.
          intros i j x y Hi Hij Hj Gx Gy.
          rewrite (SO2 i) in Gx by lia. rewrite (SO2 j) in Gy by lia.
          rewrite G1 in Gx, Gy.
          destruct (Z.eq_dec i n) as [->|Nin].
          -- destruct (Z.eq_dec j n) as [->|Njn].
             ++ eqb_tac. assert (x = y) by congruence. subst. rewrite (cmp_refl cmp TP). lia.
             ++ eqb_tac. assert (x = r) by congruence. subst.
                apply (HX 1 j r y); auto; lia.
          -- eqb_tac. apply (HS i j x y); auto; lia.
        * (* cross b2 (n-1) N *)
          intros i j x y Hi Hj Gx Gy.
          destruct (RF2 i x ltac:(lia) Gx) as (i' & Hi' & Gx').
          assert (exists i'', 1 <= i'' <= n /\ get b i'' = Ok x) as (i'' & Hi'' & Gx'').
          { rewrite G1 in Gx'. destruct (Z.eq_dec i' 1) as [->|Ni'].
            - eqb_tac. exists n. split; [lia|]. congruence.
            - eqb_tac. exists i'. split; [lia | exact Gx']. }
          rewrite (SO2 j) in Gy by lia. rewrite G1 in Gy.
          destruct (Z.eq_dec j n) as [->|Njn].
          -- eqb_tac. assert (y = r) by congruence. subst.
             assert (n < len b) as Hnb by lia.
             apply (heap_root_max b n r Hnb HF Gr (Z.to_nat i'') i'' x); auto; lia.
          -- eqb_tac. apply (HX i'' j x y); auto; lia.
        * exists b3. split; [exact E3|].
          split; [eapply Permutation_trans; [eapply swap_Permutation; exact S1|];
                  eapply Permutation_trans; eauto|].
          split; [lia|]. split; [|exact HS3].
          rewrite G3. rewrite (SO2 0) by lia.
          apply (swap_get_other _ _ _ _ 0 S1); lia.
  Qed.

  (** ** heap_sort on a slice whose position 0 is outside the heap *)
  Lemma heap_sort_correct b :
    1 <= len b ->
    exists b', heap_sort cmp b = Ok b' /\ Permutation b b' /\ len b' = len b /\
               get b' 0 = get b 0 /\ sorted_on cmp b' 1 (len b - 1).
  Proof.
    intros HL. unfold heap_sort. cbv zeta.
    set (N := len b - 1).
    assert (0 <= N) as HN by (unfold N; lia).
    rewrite (Z.quot_div_nonneg N 2) by lia.
    pose proof (Z.div_mod N 2 ltac:(lia)) as Hdm.
    pose proof (Z.mod_pos_bound N 2 ltac:(lia)) as Hmb.
    set (q := N / 2) in *.
    destruct (heap_build_correct (Z.to_nat q) b q N) as (b1 & E1 & P1 & L1 & G1 & HF1).
    - lia.
    - unfold N. lia.
    - intros p c Hp Hc Hch. unfold child in Hch. lia.
    - rewrite E1. cbn [bind].
      destruct (heap_down_correct (Z.to_nat (N - 1)) b1 N N) as (b2 & E2 & P2 & L2 & G2 & HS2).
      + lia.
      + lia.
      + unfold N. lia.
      + exact HF1.
      + intros i j x y Hi Hij Hj. lia.
      + intros i j x y Hi Hj. lia.
      + exists b2. split; [exact E2|]. split; [eapply Permutation_trans; eauto|].
        split; [lia|]. split; [congruence | exact HS2].
  Qed.
End HeapProofs.

Theorem Heap_correct : forall (T : Type) (cmp : T -> T -> Z), TotalPreorder cmp ->
  forall (zero : T) (a : list T), sorts_to (cle cmp) (Heap cmp zero a) a.
Proof.
  intros T cmp TP zero a. unfold sorts_to, Heap.
  destruct (heap_sort_correct cmp TP (zero :: a)) as (b & E & P & L & G & HS).
  { rewrite len_cons. pose proof (len_nonneg a). lia. }
  rewrite E. cbn [bind].
  rewrite get_cons_0 in G. rewrite len_cons in L, HS.
  destruct b as [|h t]; [discriminate G|].
  rewrite get_cons_0 in G. assert (h = zero) by congruence. subst h.
  rewrite len_cons in L.
  exists t. cbn [tl]. split; [reflexivity|].
  split; [eapply Permutation_cons_inv; exact P|].
  apply (sorted_on_Sorted cmp).
  intros i j x y Hi Hij Hj Gx Gy.
  apply (HS (i + 1) (j + 1) x y); try lia.
  - rewrite get_cons_S by lia. exact Gx.
  - rewrite get_cons_S by lia. exact Gy.
Qed.
