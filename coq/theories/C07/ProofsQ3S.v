(** C07 — radixsort/quick.go: total correctness of the 3-way radix quicksort on strings
    ([q3s_loop], [q3s], [Quick3WayStringCore], [Quick3WayString]). *)
From Algo.C07 Require Import ArrLemmas StrOrder ProofsInsSel ProofsQuick.
Open Scope Z_scope.

Local Notation scmp := (cmp_of_less str_ltb).

(** * properties of the elements of an index range, and their transport *)
Section RangeAll.
  Context {T : Type}.
  Implicit Types (a b : list T) (l h : Z).

  Definition range_all (P : T -> Prop) a l h : Prop :=
    forall k x, l <= k <= h -> get a k = Ok x -> P x.

  Definition range_all2 (R : T -> T -> Prop) a l h : Prop :=
    forall i j x y, l <= i <= h -> l <= j <= h -> get a i = Ok x -> get a j = Ok y -> R x y.

  Lemma range_all_narrow P a l h l' h' :
    l <= l' -> h' <= h -> range_all P a l h -> range_all P a l' h'.
  Proof. intros H1 H2 R k x Hk G. apply (R k x); [lia | exact G]. Qed.

  Lemma range_all2_narrow R a l h l' h' :
    l <= l' -> h' <= h -> range_all2 R a l h -> range_all2 R a l' h'.
  Proof. intros H1 H2 A i j x y Hi Hj Gx Gy. apply (A i j x y); try lia; assumption. Qed.

  (** an in-place change on [l..h] keeps a property of the range [l'..h'] when [l..h] lies
      inside [l'..h'] or is disjoint from it *)
  Lemma range_all_inplace P a b l h l' h' :
    inplace a b l h -> (l' <= l /\ h <= h') \/ (h' < l \/ h < l') ->
    range_all P a l' h' -> range_all P b l' h'.
  Proof.
    intros IP C R k x Hk G.
    destruct (inplace_get _ _ _ _ _ _ IP G) as (k' & G' & [->|[K1 K2]]).
    - apply (R k x Hk G').
    - apply (R k' x); [lia | exact G'].
  Qed.

  Lemma range_all2_inplace R a b l h l' h' :
    inplace a b l h -> (l' <= l /\ h <= h') \/ (h' < l \/ h < l') ->
    range_all2 R a l' h' -> range_all2 R b l' h'.
  Proof.
    intros IP C A i j x y Hi Hj Gx Gy.
    destruct (inplace_get _ _ _ _ _ _ IP Gx) as (i' & Gx' & Di).
    destruct (inplace_get _ _ _ _ _ _ IP Gy) as (j' & Gy' & Dj).
    apply (A i' j' x y); try assumption; lia.
  Qed.
End RangeAll.

(** sortedness of a range survives an in-place change elsewhere *)
Lemma sorted_on_inplace_out {T : Type} (cmp : T -> T -> Z) (a b : list T) l h l' h' :
  inplace a b l' h' -> h < l' \/ h' < l -> sorted_on cmp a l h -> sorted_on cmp b l h.
Proof.
  intros IP D S p q x y Hp Hpq Hq Gx Gy.
  rewrite (inplace_get_out _ _ _ _ p IP) in Gx by lia.
  rewrite (inplace_get_out _ _ _ _ q IP) in Gy by lia.
  apply (S p q x y); assumption.
Qed.

Lemma Sorted_mono {A : Type} (R S : A -> A -> Prop) (l : list A) :
  (forall x y, R x y -> S x y) -> Sorted R l -> Sorted S l.
Proof.
  intros H. induction 1 as [|x l St IH Hd]; constructor.
  - exact IH.
  - destruct Hd; constructor. apply H. assumption.
Qed.

Lemma max_len_bound : forall (a : list str) (x : str), In x a -> (length x <= max_len a)%nat.
Proof.
  induction a as [|s a IH]; intros x Hx.
  - destruct Hx.
  - cbn [max_len]. destruct Hx as [->|Hx]; [lia|]. specialize (IH x Hx). lia.
Qed.

(** * the partitioning loop *)
Lemma q3s_loop_spec v d lo hi : 0 <= lo -> 0 <= d -> forall (fuel : nat) (a : list str) lt i gt,
  lo <= lt -> lt < i -> i <= gt + 1 -> gt <= hi -> hi < len a -> gt + 1 - i < Z.of_nat fuel ->
  range_all (fun x => chr d x < v) a lo (lt - 1) ->
  range_all (fun x => chr d x = v) a lt (i - 1) ->
  range_all (fun x => v < chr d x) a (gt + 1) hi ->
  exists b lt' gt', q3s_loop fuel a v d lt i gt = Ok (b, lt', gt') /\
    lo <= lt' /\ lt' <= gt' /\ gt' <= hi /\ inplace a b lo hi /\
    range_all (fun x => chr d x < v) b lo (lt' - 1) /\
    range_all (fun x => chr d x = v) b lt' gt' /\
    range_all (fun x => v < chr d x) b (gt' + 1) hi.
Proof.
  intros Hlo Hd. induction fuel as [|f IH]; intros a lt i gt Hlt Hi Hig Hgt Hhi Hf ZL ZM ZR; [lia|].
  cbn [q3s_loop]. destruct (i <=? gt) eqn:E.
  - apply Z.leb_le in E.
    destruct (get_in_range a i ltac:(lia)) as [x Hx]. rewrite Hx. cbn [bind].
    rewrite (charAt_chr d x Hd). cbn [bind].
    destruct (chr d x <? v) eqn:C1.
    + apply Z.ltb_lt in C1.
      destruct (swap_Ok a lt i ltac:(lia) ltac:(lia)) as [a' Ha']. rewrite Ha'. cbn [bind].
      pose proof (swap_len _ _ _ _ Ha') as La'.
      destruct (get_in_range a lt ltac:(lia)) as [w Hw].
      assert (Cw : chr d w = v) by (apply (ZM lt w); [lia | exact Hw]).
      assert (ZL' : range_all (fun x => chr d x < v) a' lo (lt + 1 - 1)).
      { intros k y Hk G. destruct (Z.eq_dec k lt) as [->|Nk].
        - pose proof (swap_get_l _ _ _ _ _ Ha' Hx) as G'. assert (y = x) by congruence. subst y. exact C1.
        - rewrite (swap_get_other _ _ _ _ k Ha') in G by lia. apply (ZL k y); [lia | exact G]. }
      assert (ZM' : range_all (fun x => chr d x = v) a' (lt + 1) (i + 1 - 1)).
      { intros k y Hk G. destruct (Z.eq_dec k i) as [->|Nk].
        - pose proof (swap_get_r _ _ _ _ _ Ha' Hw) as G'. assert (y = w) by congruence. subst y. exact Cw.
        - rewrite (swap_get_other _ _ _ _ k Ha') in G by lia. apply (ZM k y); [lia | exact G]. }
      assert (ZR' : range_all (fun x => v < chr d x) a' (gt + 1) hi).
      { intros k y Hk G. rewrite (swap_get_other _ _ _ _ k Ha') in G by lia.
        apply (ZR k y); [lia | exact G]. }
      destruct (IH a' (lt + 1) (i + 1) gt ltac:(lia) ltac:(lia) ltac:(lia) ltac:(lia) ltac:(lia)
                  ltac:(lia) ZL' ZM' ZR') as (b & lt' & gt' & Eb & B1 & B2 & B3 & IP & RL & RM & RR).
      exists b, lt', gt'. split; [exact Eb|]. split; [lia|]. split; [lia|]. split; [lia|]. split.
      * eapply inplace_trans; [|exact IP]. eapply inplace_swap; [exact Ha' | lia | lia].
      * split; [exact RL|]. split; [exact RM | exact RR].
    + apply Z.ltb_ge in C1. destruct (v <? chr d x) eqn:C2.
      * apply Z.ltb_lt in C2.
        destruct (swap_Ok a i gt ltac:(lia) ltac:(lia)) as [a' Ha']. rewrite Ha'. cbn [bind].
        pose proof (swap_len _ _ _ _ Ha') as La'.
        assert (ZL' : range_all (fun x => chr d x < v) a' lo (lt - 1)).
        { intros k y Hk G. rewrite (swap_get_other _ _ _ _ k Ha') in G by lia.
          apply (ZL k y); [lia | exact G]. }
        assert (ZM' : range_all (fun x => chr d x = v) a' lt (i - 1)).
        { intros k y Hk G. rewrite (swap_get_other _ _ _ _ k Ha') in G by lia.
          apply (ZM k y); [lia | exact G]. }
        assert (ZR' : range_all (fun x => v < chr d x) a' (gt - 1 + 1) hi).
        { intros k y Hk G. destruct (Z.eq_dec k gt) as [->|Nk].
          - pose proof (swap_get_r _ _ _ _ _ Ha' Hx) as G'. assert (y = x) by congruence. subst y.
            exact C2.
          - rewrite (swap_get_other _ _ _ _ k Ha') in G by lia. apply (ZR k y); [lia | exact G]. }
        destruct (IH a' lt i (gt - 1) ltac:(lia) ltac:(lia) ltac:(lia) ltac:(lia) ltac:(lia)
                    ltac:(lia) ZL' ZM' ZR') as (b & lt' & gt' & Eb & B1 & B2 & B3 & IP & RL & RM & RR).
        exists b, lt', gt'. split; [exact Eb|]. split; [lia|]. split; [lia|]. split; [lia|]. split.
        -- eapply inplace_trans; [|exact IP]. eapply inplace_swap; [exact Ha' | lia | lia].
        -- split; [exact RL|]. split; [exact RM | exact RR].
      * apply Z.ltb_ge in C2.
        assert (ZM' : range_all (fun x => chr d x = v) a lt (i + 1 - 1)).
        { intros k y Hk G. destruct (Z.eq_dec k i) as [->|Nk].
          - assert (y = x) by congruence. subst y. lia.
          - apply (ZM k y); [lia | exact G]. }
        destruct (IH a lt (i + 1) gt ltac:(lia) ltac:(lia) ltac:(lia) ltac:(lia) ltac:(lia)
                    ltac:(lia) ZL ZM' ZR) as (b & lt' & gt' & Eb & B1 & B2 & B3 & IP & RL & RM & RR).
        exists b, lt', gt'. split; [exact Eb|]. split; [lia|]. split; [lia|]. split; [lia|].
        split; [exact IP|]. split; [exact RL|]. split; [exact RM | exact RR].
  - apply Z.leb_gt in E. exists a, lt, gt. split; [reflexivity|].
    split; [lia|]. split; [lia|]. split; [lia|]. split; [apply inplace_refl|].
    split; [exact ZL|]. split; [|exact ZR].
    intros k x Hk G. apply (ZM k x); [lia | exact G].
Qed.

(** * the recursion *)
Section Q3S.
  Variable M : Z.

  (** every string is a byte string of length at most [M] *)
  Definition good (x : str) : Prop := is_str x /\ len x <= M.

  Lemma good_perm (a b : list str) : Permutation a b -> Forall good a -> Forall good b.
  Proof.
    intros P F. rewrite Forall_forall in *. intros x Hx. apply F.
    eapply Permutation_in; [apply Permutation_sym; exact P | exact Hx].
  Qed.

  Lemma good_get (a : list str) i x : Forall good a -> get a i = Ok x -> is_str x /\ len x <= M.
  Proof. intros F G. apply get_Ok_In in G. rewrite Forall_forall in F. apply F. exact G. Qed.

  (** [a[lo..hi]] share their first [d] characters and are split on character [d] around [v] *)
  Definition parted (a : list str) lo lt gt hi d v : Prop :=
    Forall good a /\ range_all2 (same_prefix d) a lo hi /\
    range_all (fun x => chr d x < v) a lo (lt - 1) /\
    range_all (fun x => chr d x = v) a lt gt /\
    range_all (fun x => v < chr d x) a (gt + 1) hi.

  Lemma parted_inplace a b lo lt gt hi d v l h :
    lo <= lt -> lt <= gt + 1 -> gt <= hi ->
    (l = lo /\ h = lt - 1) \/ (l = lt /\ h = gt) \/ (l = gt + 1 /\ h = hi) ->
    inplace a b l h -> parted a lo lt gt hi d v -> parted b lo lt gt hi d v.
  Proof.
    intros H1 H2 H3 C IP (G & SP & ZL & ZM & ZR).
    split; [eapply good_perm; [eapply inplace_perm; exact IP | exact G]|].
    split; [eapply range_all2_inplace; [exact IP | lia | exact SP]|].
    split; [eapply range_all_inplace; [exact IP | lia | exact ZL]|].
    split; [eapply range_all_inplace; [exact IP | lia | exact ZM]|].
    eapply range_all_inplace; [exact IP | lia | exact ZR].
  Qed.

  Lemma parted_sorted b lo lt gt hi d v : 0 <= d ->
    parted b lo lt gt hi d v ->
    sorted_on scmp b lo (lt - 1) -> sorted_on scmp b lt gt -> sorted_on scmp b (gt + 1) hi ->
    sorted_on scmp b lo hi.
  Proof.
    intros Hd (G & SP & ZL & ZM & ZR) S1 S2 S3 p q x y Hp Hpq Hq Gx Gy.
    destruct (good_get _ _ _ G Gx) as [Sx _]. destruct (good_get _ _ _ G Gy) as [Sy _].
    assert (PXY : same_prefix d x y) by (apply (SP p q x y); try lia; assumption).
    assert (LT : chr d x < chr d y -> scmp x y <= 0).
    { intros L. pose proof (same_prefix_lt d x y Sx Sy Hd PXY L) as B.
      unfold cmp_of_less. rewrite B. lia. }
    destruct (Z_lt_ge_dec p lt) as [P1|P1].
    - pose proof (ZL p x ltac:(lia) Gx) as Cx. simpl in Cx.
      destruct (Z_lt_ge_dec q lt) as [Q1|Q1]; [apply (S1 p q x y); try lia; assumption|].
      apply LT. destruct (Z_le_gt_dec q gt) as [Q2|Q2].
      + pose proof (ZM q y ltac:(lia) Gy) as Cy. simpl in Cy. lia.
      + pose proof (ZR q y ltac:(lia) Gy) as Cy. simpl in Cy. lia.
    - destruct (Z_le_gt_dec p gt) as [P2|P2].
      + destruct (Z_le_gt_dec q gt) as [Q2|Q2]; [apply (S2 p q x y); try lia; assumption|].
        pose proof (ZM p x ltac:(lia) Gx) as Cx. simpl in Cx.
        pose proof (ZR q y ltac:(lia) Gy) as Cy. simpl in Cy.
        apply LT. lia.
      + apply (S3 p q x y); try lia; assumption.
  Qed.

  Lemma q3s_spec : forall (fuel : nat) (a : list str) lo hi d,
    0 <= lo -> hi < len a -> lo <= hi + 1 -> 0 <= d ->
    Forall good a -> range_all2 (same_prefix d) a lo hi ->
    hi + 1 - lo + Z.max 0 (M - d) < Z.of_nat fuel ->
    exists b, q3s fuel a lo hi d = Ok b /\ inplace a b lo hi /\ sorted_on scmp b lo hi.
  Proof.
    induction fuel as [|f IH]; intros a lo hi d Hlo Hhi Hlh Hd GA SP Hf; [lia|].
    cbn [q3s]. destruct (hi <=? lo + CUTOFF) eqn:E.
    - destruct (insertion_range_correct str scmp str_ltb str_cmp_TP str_cmp_less a lo hi Hlo Hhi Hlh)
        as (b & Eb & Lb & Pb & Sb & Ob & Rb).
      exists b. split; [exact Eb|]. split; [|exact Sb].
      split; [exact Lb|]. split; [exact Pb|]. split; [exact Ob | exact Rb].
    - apply Z.leb_gt in E. assert (HC : 0 <= CUTOFF) by (unfold CUTOFF; lia).
      destruct (get_in_range a lo ltac:(lia)) as [x0 Hx0]. rewrite Hx0. cbn [bind].
      rewrite (charAt_chr d x0 Hd). cbn [bind].
      remember (chr d x0) as v eqn:Ev.
      destruct (q3s_loop_spec v d lo hi Hlo Hd (S (Z.to_nat (hi - lo))) a lo (lo + 1) hi
                  ltac:(lia) ltac:(lia) ltac:(lia) ltac:(lia) Hhi ltac:(lia))
        as (a1 & lt & gt & E1 & B1 & B2 & B3 & IP1 & ZL & ZM & ZR).
      { intros k x Hk G. lia. }
      { intros k x Hk G. assert (k = lo) by lia. subst k.
        assert (x = x0) by congruence. subst x. symmetry. exact Ev. }
      { intros k x Hk G. lia. }
      rewrite E1. cbn [bind].
      pose proof (inplace_len _ _ _ _ IP1) as L1.
      assert (PT1 : parted a1 lo lt gt hi d v).
      { split; [eapply good_perm; [eapply inplace_perm; exact IP1 | exact GA]|].
        split; [eapply range_all2_inplace; [exact IP1 | lia | exact SP]|].
        split; [exact ZL|]. split; [exact ZM | exact ZR]. }
      (* left part *)
      destruct (IH a1 lo (lt - 1) d Hlo ltac:(lia) ltac:(lia) Hd) as (a2 & E2 & IP2 & S2).
      { destruct PT1 as (G & _). exact G. }
      { destruct PT1 as (_ & A & _). eapply range_all2_narrow; [| |exact A]; lia. }
      { lia. }
      rewrite E2. cbn [bind].
      pose proof (inplace_len _ _ _ _ IP2) as L2.
      assert (PT2 : parted a2 lo lt gt hi d v).
      { eapply (parted_inplace a1 a2 lo lt gt hi d v lo (lt - 1)); try lia; assumption. }
      (* middle part *)
      assert (exists a3, (if 0 <=? v then q3s f a2 lt gt (d + 1) else Ok a2) = Ok a3 /\
                         inplace a2 a3 lt gt /\ sorted_on scmp a3 lt gt) as (a3 & E3 & IP3 & S3).
      { destruct PT2 as (G2 & SP2 & _ & ZM2 & _).
        destruct (0 <=? v) eqn:Ev0.
        - apply Z.leb_le in Ev0.
          destruct (get_in_range a2 lt ltac:(lia)) as [w Hw].
          pose proof (ZM2 lt w ltac:(lia) Hw) as Cw. simpl in Cw.
          destruct (good_get _ _ _ G2 Hw) as [Sw Lw].
          assert (d < len w) as Dw.
          { destruct (Z_lt_ge_dec d (len w)) as [L|Ge]; [exact L|].
            rewrite chr_out in Cw by lia. lia. }
          apply IH; try lia; try assumption.
          intros i j x y Hi Hj Gx Gy.
          destruct (good_get _ _ _ G2 Gx) as [Sx _]. destruct (good_get _ _ _ G2 Gy) as [Sy _].
          pose proof (ZM2 i x Hi Gx) as Cx. simpl in Cx.
          pose proof (ZM2 j y Hj Gy) as Cy. simpl in Cy.
          apply same_prefix_succ; try assumption; try lia.
          apply (SP2 i j x y); try lia; assumption.
        - apply Z.leb_gt in Ev0. exists a2. split; [reflexivity|]. split; [apply inplace_refl|].
          intros p q x y Hp Hpq Hq Gx Gy.
          destruct (good_get _ _ _ G2 Gx) as [Sx _]. destruct (good_get _ _ _ G2 Gy) as [Sy _].
          pose proof (ZM2 p x ltac:(lia) Gx) as Cx. simpl in Cx.
          pose proof (ZM2 q y ltac:(lia) Gy) as Cy. simpl in Cy.
          pose proof (chr_range d x Sx Hd) as Rx.
          assert (x = y) as ->.
          { apply (same_prefix_end d x y Sx Sy Hd); try lia.
            apply (SP2 p q x y); try lia; assumption. }
          rewrite (cmp_refl _ str_cmp_TP). lia. }
      rewrite E3. cbn [bind].
      pose proof (inplace_len _ _ _ _ IP3) as L3.
      assert (PT3 : parted a3 lo lt gt hi d v).
      { eapply (parted_inplace a2 a3 lo lt gt hi d v lt gt); try lia; assumption. }
      (* right part *)
      destruct (IH a3 (gt + 1) hi d ltac:(lia) ltac:(lia) ltac:(lia) Hd) as (a4 & E4 & IP4 & S4).
      { destruct PT3 as (G & _). exact G. }
      { destruct PT3 as (_ & A & _). eapply range_all2_narrow; [| |exact A]; lia. }
      { lia. }
      pose proof (inplace_len _ _ _ _ IP4) as L4.
      assert (PT4 : parted a4 lo lt gt hi d v).
      { eapply (parted_inplace a3 a4 lo lt gt hi d v (gt + 1) hi); try lia; assumption. }
      exists a4. split; [exact E4|]. split.
      + eapply inplace_trans; [exact IP1|]. eapply inplace_trans.
        * eapply inplace_widen; [| |exact IP2]; lia.
        * eapply inplace_trans.
          -- eapply inplace_widen; [| |exact IP3]; lia.
          -- eapply inplace_widen; [| |exact IP4]; lia.
      + apply (parted_sorted a4 lo lt gt hi d v Hd PT4).
        * eapply sorted_on_inplace_out; [exact IP4 | lia|].
          eapply sorted_on_inplace_out; [exact IP3 | lia | exact S2].
        * eapply sorted_on_inplace_out; [exact IP4 | lia | exact S3].
        * exact S4.
  Qed.
End Q3S.

(** * the contract *)
Theorem Quick3WayStringCore_correct : forall a : list str, Forall is_str a ->
  sorts_to str_le (Quick3WayStringCore a) a.
Proof.
  intros a SA. unfold Quick3WayStringCore.
  destruct (q3s_spec (Z.of_nat (max_len a)) (S (S (length a + max_len a))) a 0 (len a - 1) 0)
    as (b & E & IP & S); try (unfold len; lia).
  - rewrite Forall_forall in *. intros x Hx. split; [apply SA; exact Hx|].
    pose proof (max_len_bound a x Hx). unfold len. lia.
  - intros i j x y _ _ _ _. apply same_prefix_0.
  - exists b. split; [exact E|]. split; [eapply inplace_perm; eauto|].
    apply (Sorted_mono (cle scmp)).
    + intros x y H. apply str_cmp_le. exact H.
    + apply sorted_on_Sorted. rewrite (inplace_len _ _ _ _ IP). exact S.
Qed.

Theorem Quick3WayString_correct : forall (rnd : Z -> Z) (a : list str), Forall is_str a ->
  sorts_to str_le (Quick3WayString rnd a) a.
Proof.
  intros rnd a SA. unfold Quick3WayString.
  destruct (Shuffle_perm rnd a) as (a0 & E0 & P0). rewrite E0. cbn [bind].
  assert (Forall is_str a0) as SA0.
  { rewrite Forall_forall in *. intros x Hx. apply SA.
    eapply Permutation_in; [apply Permutation_sym; exact P0 | exact Hx]. }
  destruct (Quick3WayStringCore_correct a0 SA0) as (b & E & P & S).
  exists b. split; [exact E|]. split; [eapply Permutation_trans; eauto | exact S].
Qed.
