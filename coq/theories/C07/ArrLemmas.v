(** C07 — lemma library for the slice primitives [get]/[set]/[swap] and for the monad. *)
From Algo.C07 Require Export Spec.
Open Scope Z_scope.

(** * the result monad *)
Lemma bind_Ok {A B : Type} (r : res A) (f : A -> res B) (b : B) :
  bind r f = Ok b -> exists a, r = Ok a /\ f a = Ok b.
Proof. destruct r; simpl; intros H; try discriminate. eauto. Qed.

Lemma bind_Ok_l {A B : Type} (r : res A) (f : A -> res B) (a : A) :
  r = Ok a -> bind r f = f a.
Proof. intros ->. reflexivity. Qed.

(** [inv_bind H] decomposes [H : (x <- e ;; f) = Ok b] into [e = Ok x] and [f x = Ok b]. *)
Ltac inv_bind H :=
  let x := fresh "x" in let Hx := fresh "H" x in
  apply bind_Ok in H; destruct H as [x [Hx H]].

Section Arr.
  Context {T : Type}.
  Implicit Types (a : list T) (i j k : Z) (x y v : T).

  Lemma len_nonneg a : 0 <= len a.
  Proof. unfold len. lia. Qed.

  Lemma len_nil : len (@nil T) = 0.
  Proof. reflexivity. Qed.

  Lemma len_cons x a : len (x :: a) = len a + 1.
  Proof. unfold len. simpl length. lia. Qed.

  (** ** get *)
  Lemma get_Ok_iff a i x :
    get a i = Ok x <-> 0 <= i /\ nth_error a (Z.to_nat i) = Some x.
  Proof.
    unfold get. destruct (i <? 0) eqn:E.
    - apply Z.ltb_lt in E. split; [discriminate | lia].
    - apply Z.ltb_ge in E. destruct (nth_error a (Z.to_nat i)) eqn:N; split.
      + intros H; inversion H; subst; auto.
      + intros [_ H]; inversion H; subst; auto.
      + discriminate.
      + intros [_ H]; discriminate.
  Qed.

  Lemma get_Ok_range a i x : get a i = Ok x -> 0 <= i < len a.
  Proof.
    intros H. apply get_Ok_iff in H. destruct H as [H0 H].
    assert (Z.to_nat i < length a)%nat by (apply nth_error_Some; congruence).
    unfold len. lia.
  Qed.

  Lemma get_in_range a i : 0 <= i < len a -> exists x, get a i = Ok x.
  Proof.
    unfold len. intros H.
    destruct (nth_error a (Z.to_nat i)) eqn:N.
    - exists t. apply get_Ok_iff. split; [lia | exact N].
    - apply nth_error_None in N. lia.
  Qed.

  Lemma get_not_Hang a i : get a i <> Hang.
  Proof. unfold get. destruct (i <? 0); [discriminate|]. destruct (nth_error _ _); discriminate. Qed.

  Lemma get_Ok_In a i x : get a i = Ok x -> In x a.
  Proof. intros H. apply get_Ok_iff in H. destruct H as [_ H]. eapply nth_error_In; eauto. Qed.

  Lemma In_get a x : In x a -> exists i, get a i = Ok x.
  Proof.
    intros H. apply In_nth_error in H. destruct H as [n H].
    exists (Z.of_nat n). apply get_Ok_iff. rewrite Nat2Z.id. split; [lia | exact H].
  Qed.

  (** total accessor with a default, for stating invariants *)
  Definition nthZ (d : T) a i : T := nth (Z.to_nat i) a d.

  Lemma get_nthZ d a i : 0 <= i < len a -> get a i = Ok (nthZ d a i).
  Proof.
    unfold len. intros H. apply get_Ok_iff. split; [lia|].
    unfold nthZ. apply nth_error_nth'. lia.
  Qed.

  Lemma get_Ok_nthZ d a i x : get a i = Ok x -> nthZ d a i = x.
  Proof.
    intros H. pose proof (get_Ok_range _ _ _ H) as R.
    rewrite (get_nthZ d) in H by exact R. congruence.
  Qed.

  Lemma get_cons_0 x a : get (x :: a) 0 = Ok x.
  Proof. reflexivity. Qed.

  Lemma get_cons_S x a i : 0 <= i -> get (x :: a) (i + 1) = get a i.
  Proof.
    intros H. unfold get.
    destruct (i + 1 <? 0) eqn:E1; [apply Z.ltb_lt in E1; lia|].
    destruct (i <? 0) eqn:E2; [apply Z.ltb_lt in E2; lia|].
    replace (Z.to_nat (i + 1)) with (S (Z.to_nat i)) by lia. reflexivity.
  Qed.

  (** two lists with the same successful reads are equal *)
  Lemma get_ext a b : len a = len b -> (forall i, 0 <= i < len a -> get a i = get b i) -> a = b.
  Proof.
    revert b. induction a as [|x a IH]; intros [|y b] L H; try reflexivity.
    { rewrite len_cons, len_nil in L. pose proof (len_nonneg b). lia. }
    { rewrite len_cons, len_nil in L. pose proof (len_nonneg a). lia. }
    rewrite !len_cons in L.
    assert (H0 := H 0). rewrite !get_cons_0 in H0. rewrite len_cons in H0.
    pose proof (len_nonneg a) as La.
    assert (x = y) by (assert (Ok x = Ok y) by (apply H0; lia); congruence). subst y.
    f_equal. apply IH; [lia|].
    intros i Hi. specialize (H (i + 1)). rewrite len_cons in H.
    rewrite !get_cons_S in H by lia. apply H. lia.
  Qed.

  (** ** upd / set *)
  Lemma upd_length a n v : length (upd a n v) = length a.
  Proof. revert n. induction a as [|h t IH]; intros [|n]; simpl; auto. Qed.

  Lemma nth_error_upd_eq a n v : (n < length a)%nat -> nth_error (upd a n v) n = Some v.
  Proof.
    revert n. induction a as [|h t IH]; intros [|n] H; simpl in *; try lia; auto.
    apply IH. lia.
  Qed.

  Lemma nth_error_upd_neq a n m v : n <> m -> nth_error (upd a n v) m = nth_error a m.
  Proof.
    revert n m. induction a as [|h t IH]; intros [|n] [|m] H; simpl; auto; try congruence.
  Qed.

  Lemma set_Ok a i v : 0 <= i < len a -> set a i v = Ok (upd a (Z.to_nat i) v).
  Proof.
    intros H. unfold set.
    replace (0 <=? i) with true by (symmetry; apply Z.leb_le; lia).
    replace (i <? len a) with true by (symmetry; apply Z.ltb_lt; lia).
    reflexivity.
  Qed.

  Lemma set_Ok_inv a i v a' : set a i v = Ok a' -> 0 <= i < len a /\ a' = upd a (Z.to_nat i) v.
  Proof.
    unfold set. destruct (0 <=? i) eqn:E1; destruct (i <? len a) eqn:E2; simpl; intros H; try discriminate.
    apply Z.leb_le in E1. apply Z.ltb_lt in E2. inversion H. split; [lia | reflexivity].
  Qed.

  Lemma set_not_Hang a i v : set a i v <> Hang.
  Proof. unfold set. destruct (_ && _); discriminate. Qed.

  Lemma len_upd a n v : len (upd a n v) = len a.
  Proof. unfold len. rewrite upd_length. reflexivity. Qed.

  Lemma set_len a i v a' : set a i v = Ok a' -> len a' = len a.
  Proof. intros H. apply set_Ok_inv in H. destruct H as [_ ->]. apply len_upd. Qed.

  Lemma set_length a i v a' : set a i v = Ok a' -> length a' = length a.
  Proof. intros H. apply set_Ok_inv in H. destruct H as [_ ->]. apply upd_length. Qed.

  Lemma get_set_eq a i v a' : set a i v = Ok a' -> get a' i = Ok v.
  Proof.
    intros H. apply set_Ok_inv in H. destruct H as [R ->].
    apply get_Ok_iff. split; [lia|]. apply nth_error_upd_eq. unfold len in R. lia.
  Qed.

  Lemma get_set_neq a i j v a' : set a i v = Ok a' -> i <> j -> get a' j = get a j.
  Proof.
    intros H N. apply set_Ok_inv in H. destruct H as [R ->].
    unfold get. destruct (j <? 0) eqn:E; [reflexivity|]. apply Z.ltb_ge in E.
    rewrite nth_error_upd_neq by lia. reflexivity.
  Qed.

  (** ** swap *)
  Lemma swap_Ok a i j : 0 <= i < len a -> 0 <= j < len a -> exists a', swap a i j = Ok a'.
  Proof.
    intros Hi Hj. unfold swap.
    destruct (get_in_range a i Hi) as [x Hx]. destruct (get_in_range a j Hj) as [y Hy].
    rewrite Hx, Hy. simpl. rewrite (set_Ok a i y Hi). simpl.
    rewrite set_Ok by (rewrite len_upd; exact Hj). eauto.
  Qed.

  Lemma swap_not_Hang a i j : swap a i j <> Hang.
  Proof.
    unfold swap. destruct (get a i) eqn:E1; simpl; try discriminate; [|exfalso; eapply get_not_Hang; eauto].
    destruct (get a j) eqn:E2; simpl; try discriminate; [|exfalso; eapply get_not_Hang; eauto].
    destruct (set a i a1) eqn:E3; simpl; try discriminate; [|exfalso; eapply set_not_Hang; eauto].
    apply set_not_Hang.
  Qed.

  Lemma swap_inv a i j a' :
    swap a i j = Ok a' ->
    exists x y, get a i = Ok x /\ get a j = Ok y /\
                a' = upd (upd a (Z.to_nat i) y) (Z.to_nat j) x.
  Proof.
    unfold swap. intros H. inv_bind H. inv_bind H. inv_bind H.
    apply set_Ok_inv in Hx1. destruct Hx1 as [_ ->].
    apply set_Ok_inv in H. destruct H as [_ ->]. eauto.
  Qed.

  Lemma swap_range a i j a' : swap a i j = Ok a' -> 0 <= i < len a /\ 0 <= j < len a.
  Proof.
    intros H. apply swap_inv in H. destruct H as (x & y & Hx & Hy & _).
    split; eapply get_Ok_range; eauto.
  Qed.

  Lemma swap_length a i j a' : swap a i j = Ok a' -> length a' = length a.
  Proof.
    intros H. apply swap_inv in H. destruct H as (x & y & _ & _ & ->). now rewrite !upd_length.
  Qed.

  Lemma swap_len a i j a' : swap a i j = Ok a' -> len a' = len a.
  Proof. intros H. unfold len. now rewrite (swap_length _ _ _ _ H). Qed.

  Lemma swap_get_l a i j a' x : swap a i j = Ok a' -> get a j = Ok x -> get a' i = Ok x.
  Proof.
    intros H G. pose proof (swap_range _ _ _ _ H) as [Ri Rj]. unfold len in *.
    apply swap_inv in H. destruct H as (x0 & y0 & Hx & Hy & ->).
    assert (y0 = x) by congruence. subst y0.
    apply get_Ok_iff. split; [lia|].
    destruct (Z.eq_dec i j) as [->|N].
    - assert (x0 = x) by congruence. subst. apply nth_error_upd_eq. rewrite upd_length. lia.
    - rewrite nth_error_upd_neq by lia. apply nth_error_upd_eq. lia.
  Qed.

  Lemma swap_get_r a i j a' x : swap a i j = Ok a' -> get a i = Ok x -> get a' j = Ok x.
  Proof.
    intros H G. pose proof (swap_range _ _ _ _ H) as [Ri Rj]. unfold len in *.
    apply swap_inv in H. destruct H as (x0 & y0 & Hx & Hy & ->).
    assert (x0 = x) by congruence. subst x0.
    apply get_Ok_iff. split; [lia|]. apply nth_error_upd_eq. rewrite upd_length. lia.
  Qed.

  Lemma swap_get_other a i j a' k : swap a i j = Ok a' -> k <> i -> k <> j -> get a' k = get a k.
  Proof.
    intros H Ni Nj. pose proof (swap_range _ _ _ _ H) as [Ri Rj].
    apply swap_inv in H. destruct H as (x0 & y0 & Hx & Hy & ->).
    unfold get. destruct (k <? 0) eqn:E; [reflexivity|]. apply Z.ltb_ge in E.
    rewrite !nth_error_upd_neq by lia. reflexivity.
  Qed.

  Lemma swap_same a i a' : swap a i i = Ok a' -> a' = a.
  Proof.
    intros H. apply get_ext.
    - eapply swap_len; eauto.
    - intros k Hk. destruct (Z.eq_dec k i) as [->|N].
      + pose proof (swap_range _ _ _ _ H) as [Ri _].
        destruct (get_in_range a i Ri) as [x Hx]. rewrite Hx. eapply swap_get_l; eauto.
      + eapply swap_get_other; eauto.
  Qed.

  (** swapping two positions is a permutation *)
  Lemma upd_firstn_skipn a n v :
    (n < length a)%nat -> upd a n v = firstn n a ++ v :: skipn (S n) a.
  Proof.
    revert n. induction a as [|h t IH]; intros [|n] H; simpl in *; try lia; auto.
    f_equal. apply IH. lia.
  Qed.

  Lemma nth_error_split' a n x :
    nth_error a n = Some x -> a = firstn n a ++ x :: skipn (S n) a.
  Proof.
    revert n. induction a as [|h t IH]; intros [|n] H; simpl in *; try discriminate.
    - inversion H. reflexivity.
    - f_equal. apply IH. exact H.
  Qed.

  Lemma upd_same a n x : nth_error a n = Some x -> upd a n x = a.
  Proof.
    revert n. induction a as [|h t IH]; intros [|n] H; simpl in *; try discriminate; auto.
    - inversion H. reflexivity.
    - f_equal. auto.
  Qed.

  Lemma Permutation_upd_upd a n m x y :
    nth_error a n = Some x -> nth_error a m = Some y ->
    Permutation a (upd (upd a n y) m x).
  Proof.
    revert n m. induction a as [|h t IH]; intros n m Hn Hm.
    - destruct n; discriminate.
    - destruct n as [|n]; destruct m as [|m]; simpl in *.
      + inversion Hn; inversion Hm; subst. apply Permutation_refl.
      + inversion Hn; subst h.
        rewrite upd_firstn_skipn by (apply nth_error_Some; congruence).
        rewrite (nth_error_split' t m y Hm) at 1.
        transitivity (x :: y :: firstn m t ++ skipn (S m) t).
        * apply perm_skip. symmetry. apply Permutation_middle.
        * transitivity (y :: x :: firstn m t ++ skipn (S m) t); [apply perm_swap|].
          apply perm_skip. apply Permutation_middle.
      + inversion Hm; subst h.
        rewrite upd_firstn_skipn by (apply nth_error_Some; congruence).
        rewrite (nth_error_split' t n x Hn) at 1.
        transitivity (y :: x :: firstn n t ++ skipn (S n) t).
        * apply perm_skip. symmetry. apply Permutation_middle.
        * transitivity (x :: y :: firstn n t ++ skipn (S n) t); [apply perm_swap|].
          apply perm_skip. apply Permutation_middle.
      + apply perm_skip. apply IH; assumption.
  Qed.

  Lemma swap_Permutation a i j a' : swap a i j = Ok a' -> Permutation a a'.
  Proof.
    intros H. apply swap_inv in H. destruct H as (x & y & Hx & Hy & ->).
    apply get_Ok_iff in Hx. apply get_Ok_iff in Hy.
    apply Permutation_upd_upd; tauto.
  Qed.
End Arr.

(** * comparators *)
Section Cmp.
  Context {T : Type} (cmp : T -> T -> Z) (TP : TotalPreorder cmp).

  Lemma cmp_refl x : cmp x x = 0.
  Proof. destruct (tp_flip cmp TP x x) as [F1 F2]. destruct (Z.lt_trichotomy (cmp x x) 0) as [L|[E|G]]; [apply F1 in L; lia | exact E | pose proof (F2 G); lia]. Qed.

  Lemma cmp_total x y : cmp x y <= 0 \/ cmp y x <= 0.
  Proof. pose proof (tp_flip cmp TP x y). pose proof (tp_flip cmp TP y x). lia. Qed.

  Lemma cmp_nlt_ge x y : ~ cmp x y < 0 -> cmp y x <= 0.
  Proof. pose proof (tp_flip cmp TP y x). pose proof (tp_flip cmp TP x y). lia. Qed.

  Lemma cmp_lt_le x y : cmp x y < 0 -> cmp x y <= 0.
  Proof. lia. Qed.

  Lemma cmp_gt_le x y : 0 < cmp x y -> cmp y x <= 0.
  Proof. pose proof (tp_flip cmp TP y x). pose proof (tp_flip cmp TP x y). lia. Qed.

  Lemma cmp_eq_sym x y : cmp x y = 0 -> cmp y x = 0.
  Proof. pose proof (tp_flip cmp TP x y). pose proof (tp_flip cmp TP y x). lia. Qed.

  Lemma cmp_lt_trans_l x y z : cmp x y < 0 -> cmp y z <= 0 -> cmp x z < 0.
  Proof.
    intros H1 H2. destruct (Z_lt_ge_dec (cmp x z) 0) as [|G]; [assumption|].
    assert (cmp z x <= 0) by (pose proof (tp_flip cmp TP z x); pose proof (tp_flip cmp TP x z); lia).
    pose proof (tp_trans cmp TP y z x H2 H). pose proof (tp_flip cmp TP x y). lia.
  Qed.

  Lemma cmp_lt_trans_r x y z : cmp x y <= 0 -> cmp y z < 0 -> cmp x z < 0.
  Proof.
    intros H1 H2. destruct (Z_lt_ge_dec (cmp x z) 0) as [|G]; [assumption|].
    assert (cmp z x <= 0) by (pose proof (tp_flip cmp TP z x); pose proof (tp_flip cmp TP x z); lia).
    pose proof (tp_trans cmp TP z x y H H1). pose proof (tp_flip cmp TP y z). lia.
  Qed.

  Lemma cle_trans x y z : cle cmp x y -> cle cmp y z -> cle cmp x z.
  Proof. apply (tp_trans cmp TP). Qed.

  Lemma cle_refl x : cle cmp x x.
  Proof. unfold cle. rewrite cmp_refl. lia. Qed.

  (** sortedness of an index range, the form loop invariants use *)
  Definition sorted_on (a : list T) (lo hi : Z) : Prop :=
    forall i j x y, lo <= i -> i <= j -> j <= hi -> get a i = Ok x -> get a j = Ok y -> cmp x y <= 0.

  Lemma Sorted_cle_Strongly (l : list T) : Sorted (cle cmp) l -> StronglySorted (cle cmp) l.
  Proof. apply Sorted_StronglySorted. intros x y z. apply cle_trans. Qed.

  Lemma sorted_on_Sorted (a : list T) : sorted_on a 0 (len a - 1) -> Sorted (cle cmp) a.
  Proof.
    induction a as [|h t IH]; intros H; [constructor|].
    constructor.
    - apply IH. intros i j x y Hi Hij Hj Gx Gy.
      apply (H (i + 1) (j + 1) x y); try lia.
      + rewrite len_cons. lia.
      + rewrite get_cons_S by lia. exact Gx.
      + rewrite get_cons_S by lia. exact Gy.
    - destruct t as [|h' t']; constructor.
      apply (H 0 1 h h'); try lia.
      + rewrite !len_cons. pose proof (len_nonneg t'). lia.
      + reflexivity.
      + reflexivity.
  Qed.

  Lemma Sorted_sorted_on (a : list T) : Sorted (cle cmp) a -> sorted_on a 0 (len a - 1).
  Proof.
    intros S. apply Sorted_cle_Strongly in S.
    induction S as [|h t St IH F]; intros i j x y Hi Hij Hj Gx Gy.
    - apply get_Ok_range in Gx. unfold len in Gx. simpl in Gx. lia.
    - destruct (Z.eq_dec i 0) as [->|Ni].
      + rewrite get_cons_0 in Gx. inversion Gx; subst x.
        destruct (Z.eq_dec j 0) as [->|Nj].
        * rewrite get_cons_0 in Gy. inversion Gy; subst y. rewrite cmp_refl. lia.
        * replace j with ((j - 1) + 1) in Gy by lia. rewrite get_cons_S in Gy by lia.
          apply get_Ok_In in Gy. rewrite Forall_forall in F. apply F. exact Gy.
      + replace i with ((i - 1) + 1) in Gx by lia. rewrite get_cons_S in Gx by lia.
        replace j with ((j - 1) + 1) in Gy by lia. rewrite get_cons_S in Gy by lia.
        apply (IH (i - 1) (j - 1) x y); try lia; try assumption.
        rewrite len_cons in Hj. lia.
  Qed.

  (** adjacent form: enough to compare neighbours *)
  Lemma sorted_on_adjacent (a : list T) lo hi :
    0 <= lo -> hi < len a ->
    (forall i x y, lo <= i -> i + 1 <= hi -> get a i = Ok x -> get a (i + 1) = Ok y -> cmp x y <= 0) ->
    sorted_on a lo hi.
  Proof.
    intros Hlo Hhi H i j x y Hi Hij Hj Gx Gy.
    remember (Z.to_nat (j - i)) as n eqn:En. revert j y Hij Hj Gy En.
    induction n as [|n IH]; intros j y Hij Hj Gy En.
    - assert (j = i) by lia. subst j. assert (x = y) by congruence. subst. rewrite cmp_refl. lia.
    - destruct (get_in_range a (j - 1)) as [z Gz]; [lia|].
      apply (tp_trans cmp TP x z y).
      + apply (IH (j - 1) z); try lia. exact Gz.
      + apply (H (j - 1) z y); try lia; [exact Gz|]. replace (j - 1 + 1) with j by lia. exact Gy.
  Qed.
End Cmp.

(** * uniqueness of the sorted permutation for an antisymmetric order *)
Lemma sorted_perm_unique {T : Type} (le : T -> T -> Prop) :
  (forall x y z, le x y -> le y z -> le x z) ->
  (forall x y, le x y -> le y x -> x = y) ->
  forall l1 l2 : list T, Permutation l1 l2 -> Sorted le l1 -> Sorted le l2 -> l1 = l2.
Proof.
  intros Tr As l1. induction l1 as [|x l1 IH]; intros l2 P S1 S2.
  - apply Permutation_nil in P. now subst.
  - destruct l2 as [|y l2]; [apply Permutation_sym, Permutation_nil in P; discriminate|].
    apply Sorted_StronglySorted in S1; [|exact Tr]. apply Sorted_StronglySorted in S2; [|exact Tr].
    inversion S1 as [|? ? S1' F1]; subst. inversion S2 as [|? ? S2' F2]; subst.
    assert (x = y) as ->.
    { assert (In x (y :: l2)) as Ix by (eapply Permutation_in; [exact P | left; reflexivity]).
      assert (In y (x :: l1)) as Iy by (eapply Permutation_in; [apply Permutation_sym; exact P | left; reflexivity]).
      destruct Ix as [->|Ix]; [reflexivity|]. destruct Iy as [->|Iy]; [reflexivity|].
      rewrite Forall_forall in F1, F2. apply As; [apply F1; exact Iy | apply F2; exact Ix]. }
    f_equal. apply IH.
    + eapply Permutation_cons_inv; eauto.
    + apply StronglySorted_Sorted; assumption.
    + apply StronglySorted_Sorted; assumption.
Qed.

(** * range-local bookkeeping for in-place algorithms working on [a[lo..hi]] *)
Section Ranges.
  Context {T : Type}.
  Implicit Types (a b c : list T) (i j lo hi : Z).

  (** every element of [b[lo..hi]] is an element of [a[lo..hi]] *)
  Definition range_from a b lo hi : Prop :=
    forall i x, lo <= i <= hi -> get b i = Ok x -> exists i', lo <= i' <= hi /\ get a i' = Ok x.

  (** [b] agrees with [a] outside [lo..hi] *)
  Definition same_outside a b lo hi : Prop :=
    forall i, i < lo \/ hi < i -> get b i = get a i.

  Lemma range_from_refl a lo hi : range_from a a lo hi.
  Proof. intros i x Hi G. eauto. Qed.

  Lemma range_from_trans a b c lo hi : range_from a b lo hi -> range_from b c lo hi -> range_from a c lo hi.
  Proof. intros H1 H2 i x Hi G. destruct (H2 i x Hi G) as (i' & Hi' & G'). eauto. Qed.

  Lemma same_outside_refl a lo hi : same_outside a a lo hi.
  Proof. intros i _. reflexivity. Qed.

  Lemma same_outside_trans a b c lo hi :
    same_outside a b lo hi -> same_outside b c lo hi -> same_outside a c lo hi.
  Proof. intros H1 H2 i Hi. rewrite H2, H1; auto. Qed.

  Lemma same_outside_widen a b lo hi lo' hi' :
    lo' <= lo -> hi <= hi' -> same_outside a b lo hi -> same_outside a b lo' hi'.
  Proof. intros L H S i Hi. apply S. lia. Qed.

  (** a change confined to a sub-range keeps a super-range's elements inside the super-range *)
  Lemma range_from_widen a b lo hi lo' hi' :
    lo' <= lo -> hi <= hi' -> same_outside a b lo hi -> range_from a b lo hi -> range_from a b lo' hi'.
  Proof.
    intros L H S R i x Hi G.
    destruct (Z_lt_ge_dec i lo) as [Lt|Ge].
    - exists i. split; [lia|]. rewrite <- S by lia. exact G.
    - destruct (Z_lt_ge_dec hi i) as [Gt|Le].
      + exists i. split; [lia|]. rewrite <- S by lia. exact G.
      + destruct (R i x ltac:(lia) G) as (i' & Hi' & G'). exists i'. split; [lia | exact G'].
  Qed.

  Lemma swap_range_from a i j b lo hi :
    swap a i j = Ok b -> lo <= i <= hi -> lo <= j <= hi -> range_from a b lo hi.
  Proof.
    intros H Hi Hj k x Hk G.
    destruct (Z.eq_dec k i) as [->|Ni].
    - exists j. split; [lia|].
      pose proof (swap_range _ _ _ _ H) as [_ Rj]. destruct (get_in_range a j Rj) as [y Gy].
      rewrite (swap_get_l _ _ _ _ _ H Gy) in G. congruence.
    - destruct (Z.eq_dec k j) as [->|Nj].
      + exists i. split; [lia|].
        pose proof (swap_range _ _ _ _ H) as [Ri _]. destruct (get_in_range a i Ri) as [y Gy].
        rewrite (swap_get_r _ _ _ _ _ H Gy) in G. congruence.
      + exists k. split; [lia|]. rewrite <- (swap_get_other _ _ _ _ k H) by assumption. exact G.
  Qed.

  Lemma swap_same_outside a i j b lo hi :
    swap a i j = Ok b -> lo <= i <= hi -> lo <= j <= hi -> same_outside a b lo hi.
  Proof. intros H Hi Hj k Hk. apply (swap_get_other _ _ _ _ k H); lia. Qed.

  (** [Shuffle] is a permutation for every oracle *)
  Lemma shuffle_loop_perm rnd cnt : forall a i,
    0 <= i -> i + Z.of_nat cnt = len a ->
    exists b, shuffle_loop cnt rnd a i = Ok b /\ Permutation a b.
  Proof.
    induction cnt as [|c IH]; intros a i Hi Hn; simpl.
    - eauto.
    - assert (0 < len a - i) as Hpos by lia.
      pose proof (Z.mod_pos_bound (rnd i) (len a - i) Hpos) as Hm.
      destruct (swap_Ok a i (i + rnd i mod (len a - i))) as [a' Ha']; try lia.
      rewrite Ha'. simpl.
      destruct (IH a' (i + 1)) as (b & Hb & Pb); try lia.
      { rewrite (swap_len _ _ _ _ Ha'). lia. }
      exists b. split; [exact Hb|].
      eapply Permutation_trans; [eapply swap_Permutation; exact Ha' | exact Pb].
  Qed.

  Theorem Shuffle_perm (rnd : Z -> Z) a : exists b, Shuffle rnd a = Ok b /\ Permutation a b.
  Proof. unfold Shuffle. apply shuffle_loop_perm; unfold len; lia. Qed.
End Ranges.
