(** C07 — radixsort/msd.go: total correctness of [MSDUint] and [MSDInt]. *)
From Algo.C07 Require Import ArrLemmas ProofsCount IntKeys ProofsInsSel StrOrder.
Open Scope Z_scope.

Local Notation cmpZ := (cmp_of_less Z.ltb).

(** * generic helpers *)
Lemma for_range_inv {St : Type} (P : Z -> St -> Prop) (body : Z -> St -> res St) :
  forall n r st, P r st ->
    (forall r' st', r <= r' < r + Z.of_nat n -> P r' st' ->
       exists st'', body r' st' = Ok st'' /\ P (r' + 1) st'') ->
    exists st', for_range n body r st = Ok st' /\ P (r + Z.of_nat n) st'.
Proof.
  induction n as [|n IH]; intros r st HP Hb.
  - exists st. split; [reflexivity|]. replace (r + Z.of_nat 0) with r by lia. exact HP.
  - cbn [for_range]. destruct (Hb r st ltac:(lia) HP) as (st1 & E1 & P1). rewrite E1. cbn [bind].
    destruct (IH (r + 1) st1 P1) as (st' & E & P').
    { intros r' st' Hr'. apply Hb. lia. }
    exists st'. split; [exact E|].
    replace (r + Z.of_nat (S n)) with (r + 1 + Z.of_nat n) by lia. exact P'.
Qed.

Lemma slice_perm_whole (a b : list Z) lo cnt :
  0 <= lo -> lo + Z.of_nat cnt <= len a -> len b = len a ->
  same_outside a b lo (lo + Z.of_nat cnt - 1) ->
  Permutation (slice a lo cnt) (slice b lo cnt) -> Permutation a b.
Proof.
  intros H0 Ha L S P.
  pose proof (slice_split a lo cnt H0) as Ea. pose proof (slice_split b lo cnt H0) as Eb.
  pose proof (same_outside_firstn a b lo _ H0 (eq_sym L) S) as Ef.
  pose proof (same_outside_skipn a b lo (lo + Z.of_nat cnt - 1) (Z.to_nat lo + cnt) ltac:(lia) (eq_sym L) S) as Es.
  rewrite Ef, Es in Eb. rewrite Ea, Eb.
  apply Permutation_app_head. apply Permutation_app_tail. exact P.
Qed.

Lemma slice_In_get (a : list Z) lo cnt x :
  0 <= lo -> lo + Z.of_nat cnt <= len a -> In x (slice a lo cnt) ->
  exists i, lo <= i <= lo + Z.of_nat cnt - 1 /\ get a i = Ok x.
Proof.
  intros H0 Ha Hin. destruct (In_get _ _ Hin) as [k Gk].
  pose proof (get_Ok_range _ _ _ Gk) as Rk. rewrite len_slice in Rk by assumption.
  rewrite get_slice in Gk by lia. exists (lo + k). split; [lia | exact Gk].
Qed.

Lemma get_slice_In (a : list Z) lo cnt i x :
  0 <= lo -> lo <= i <= lo + Z.of_nat cnt - 1 -> get a i = Ok x -> In x (slice a lo cnt).
Proof.
  intros H0 Hi G. apply (get_Ok_In (slice a lo cnt) (i - lo)).
  rewrite get_slice by lia. replace (lo + (i - lo)) with i by lia. exact G.
Qed.

(** all the elements of [b[l..h]] have the same [d] high bytes (of their key) *)
Definition shared (key : Z -> Z) (d : Z) (b : list Z) (l h : Z) : Prop :=
  exists hv, forall i x, l <= i <= h -> get b i = Ok x -> high d (key x) = hv.

(** the contract of a recursive call *)
Definition sorts_range (r : res (list Z * list Z)) (a : list Z) (lo hi : Z) : Prop :=
  exists b aux', r = Ok (b, aux') /\ len b = len a /\ len aux' = len a /\
    Permutation a b /\ same_outside a b lo hi /\ range_from a b lo hi /\ sorted_on cmpZ b lo hi.

(** * the array after the distribution pass: buckets laid out in [order] *)
Section Buckets.
  Variable key : Z -> Z.
  Hypothesis key_le : forall x y, key x <= key y -> x <= y.
  Variables d hv : Z.
  Hypothesis Hd : 0 <= d <= 7.
  Variables dgf rk : Z -> Z.
  Variable order : list Z.
  Variable L : list Z.
  Variable lo : Z.
  Variable a1 : list Z.
  Hypothesis ND : NoDup order.
  Hypothesis HLin : forall x, In x L -> In (dgf x) order.
  Hypothesis HLkey : forall x, In x L -> high d (key x) = hv /\ dg (7 - d) (key x) = rk (dgf x).
  Hypothesis rk_inj : forall c c', In c order -> In c' order -> rk c = rk c' -> c = c'.
  Hypothesis rk_mono : forall c c', In c order -> In c' order -> rk c < rk c' ->
    start dgf order c L + cnt_eq dgf c L <= start dgf order c' L.
  Hypothesis Hlo : 0 <= lo.
  Hypothesis Hlen : lo + Z.of_nat (length L) <= len a1.
  Hypothesis Hsl : slice a1 lo (length L) = bucket_cat dgf order L.

  Local Notation hi := (lo + Z.of_nat (length L) - 1).
  Local Notation blo c := (lo + start dgf order c L).
  Local Notation bhi c := (lo + start dgf order c L + cnt_eq dgf c L - 1).

  Definition owned (b : list Z) : Prop :=
    forall c p x, In c order -> blo c <= p <= bhi c -> get b p = Ok x -> In x L /\ dgf x = c.

  Definition Inv (done : Z -> Prop) (b : list Z) : Prop :=
    len b = len a1 /\ Permutation a1 b /\ same_outside a1 b lo hi /\ owned b /\
    (forall c, In c order -> done c -> sorted_on cmpZ b (blo c) (bhi c)).

  Lemma bucket_bounds c : In c order ->
    0 <= start dgf order c L /\ start dgf order c L + cnt_eq dgf c L <= Z.of_nat (length L).
  Proof.
    intros Hc. split; [apply start_nonneg|].
    pose proof (start_end_le dgf order c L Hc) as H.
    unfold len in H. rewrite (bucket_cat_length dgf order L ND HLin) in H. exact H.
  Qed.

  Lemma owned_init : owned a1.
  Proof.
    intros c p x Hc Hp G. pose proof (bucket_bounds c Hc) as [B1 B2].
    assert (get (bucket dgf c L) (p - blo c) = Ok x) as Gb.
    { rewrite <- (bucket_cat_bucket_slice dgf order c L ND Hc).
      rewrite get_slice by (unfold cnt_eq in *; lia).
      rewrite <- Hsl. rewrite get_slice by lia.
      replace (lo + (start dgf order c L + (p - blo c))) with p by lia. exact G. }
    apply get_Ok_In in Gb. apply In_bucket in Gb. exact Gb.
  Qed.

  Lemma pos_owner p : lo <= p <= hi -> exists c, In c order /\ blo c <= p <= bhi c.
  Proof.
    intros Hp.
    destruct (bucket_cat_get dgf order L (p - lo) ND) as (c & k & Hc & Hk & Ep & _).
    { unfold len. rewrite (bucket_cat_length dgf order L ND HLin). lia. }
    exists c. split; [exact Hc | lia].
  Qed.

  Lemma inv_init : Inv (fun _ => False) a1.
  Proof.
    split; [reflexivity|]. split; [apply Permutation_refl|]. split; [apply same_outside_refl|].
    split; [apply owned_init|]. intros c _ [].
  Qed.

  Lemma inv_weaken (done done' : Z -> Prop) b :
    (forall c, done' c -> done c) -> Inv done b -> Inv done' b.
  Proof.
    intros H (I1 & I2 & I3 & I4 & I5). repeat (split; [assumption|]).
    intros c Hc Dc. apply I5; [exact Hc | apply H; exact Dc].
  Qed.

  Lemma inv_skip (done : Z -> Prop) b c :
    Inv done b -> cnt_eq dgf c L <= 0 -> Inv (fun c' => done c' \/ c' = c) b.
  Proof.
    intros (I1 & I2 & I3 & I4 & I5) Hz. repeat (split; [assumption|]).
    intros c' Hc' [Dc | ->]; [apply I5; assumption|].
    intros i j x y Hi Hij Hj _ _. lia.
  Qed.

  Lemma step_inv (done : Z -> Prop) b b' c :
    Inv done b -> In c order -> len b' = len b -> Permutation b b' ->
    same_outside b b' (blo c) (bhi c) -> range_from b b' (blo c) (bhi c) ->
    sorted_on cmpZ b' (blo c) (bhi c) ->
    Inv (fun c' => done c' \/ c' = c) b'.
  Proof.
    intros (I1 & I2 & I3 & I4 & I5) Hc Lb Pb Sb Rb Srt.
    pose proof (bucket_bounds c Hc) as [B1 B2].
    split; [congruence|]. split; [eapply Permutation_trans; eassumption|].
    split.
    { eapply same_outside_trans; [exact I3|]. eapply same_outside_widen; [| |exact Sb]; lia. }
    split.
    - intros c' p x Hc' Hp G.
      destruct (Z.eq_dec c' c) as [->|N].
      + destruct (Rb p x Hp G) as (p' & Hp' & G'). apply (I4 c p' x Hc Hp' G').
      + pose proof (start_disjoint dgf order c c' L Hc Hc' ltac:(congruence)) as Dj.
        rewrite Sb in G by lia. apply (I4 c' p x Hc' Hp G).
    - intros c' Hc' [Dc | ->]; [|exact Srt].
      destruct (Z.eq_dec c' c) as [->|N]; [exact Srt|].
      pose proof (start_disjoint dgf order c c' L Hc Hc' ltac:(congruence)) as Dj.
      intros i j x y Hi Hij Hj Gx Gy.
      rewrite Sb in Gx by lia. rewrite Sb in Gy by lia.
      apply (I5 c' Hc' Dc i j x y); assumption.
  Qed.

  Lemma inv_range_from (done : Z -> Prop) b a :
    Inv done b -> (forall x, In x L -> exists i, lo <= i <= hi /\ get a i = Ok x) ->
    range_from a b lo hi.
  Proof.
    intros (I1 & I2 & I3 & I4 & I5) HLa i x Hi G.
    destruct (pos_owner i Hi) as (c & Hc & Hp).
    destruct (I4 c i x Hc Hp G) as [Hin _]. apply HLa. exact Hin.
  Qed.

  Lemma inv_final (done : Z -> Prop) b :
    Inv done b -> (forall c, In c order -> 0 < cnt_eq dgf c L -> done c) ->
    sorted_on cmpZ b lo hi.
  Proof.
    intros (I1 & I2 & I3 & I4 & I5) Hall i j x y Hi Hij Hj Gx Gy.
    pose proof (get_Ok_range _ _ _ Gx) as Rx. pose proof (get_Ok_range _ _ _ Gy) as Ry.
    destruct (pos_owner i ltac:(lia)) as (c & Hc & Hpc).
    destruct (pos_owner j ltac:(lia)) as (c' & Hc' & Hpc').
    destruct (I4 c i x Hc Hpc Gx) as [Lx Dx]. destruct (I4 c' j y Hc' Hpc' Gy) as [Ly Dy].
    destruct (Z.eq_dec c c') as [<-|N].
    - apply (I5 c Hc (Hall c Hc ltac:(lia)) i j x y); try assumption; lia.
    - apply Z_cmp_le. apply key_le.
      destruct (HLkey x Lx) as [Hx1 Hx2]. destruct (HLkey y Ly) as [Hy1 Hy2].
      assert (rk c < rk c') as Hrk.
      { destruct (Z.lt_trichotomy (rk c) (rk c')) as [Lt|[E|Gt]]; [exact Lt | |].
        - exfalso. apply N. apply rk_inj; assumption.
        - pose proof (rk_mono c' c Hc' Hc Gt). lia. }
      assert (key x < key y); [|lia].
      rewrite Dx in Hx2. rewrite Dy in Hy2.
      apply (high_lt (d + 1)); [lia|]. rewrite !high_succ by lia. lia.
  Qed.

  (** at the last byte every bucket is constant *)
  Lemma inv_last (done : Z -> Prop) b : d = 7 -> Inv done b -> Inv (fun _ => True) b.
  Proof.
    intros E7 (I1 & I2 & I3 & I4 & I5). repeat (split; [assumption|]).
    intros c Hc _ i j x y Hi Hij Hj Gx Gy.
    destruct (I4 c i x Hc ltac:(lia) Gx) as [Lx Dx]. destruct (I4 c j y Hc ltac:(lia) Gy) as [Ly Dy].
    destruct (HLkey x Lx) as [Hx1 Hx2]. destruct (HLkey y Ly) as [Hy1 Hy2].
    apply Z_cmp_le. apply key_le. rewrite Dx in Hx2. rewrite Dy in Hy2.
    rewrite <- (high_8 (key x)), <- (high_8 (key y)).
    replace 8 with (d + 1) by lia. rewrite !high_succ by lia. lia.
  Qed.

  (** ** the recursive calls *)
  Variable rec : list Z -> list Z -> Z -> Z -> res (list Z * list Z).
  Hypothesis Hrec : forall b aux l h,
    0 <= l -> h < len b -> l <= h + 1 -> len aux = len b -> shared key (d + 1) b l h ->
    sorts_range (rec b aux l h) b l h.

  Lemma visit (done : Z -> Prop) b aux c l h :
    Inv done b -> len aux = len a1 -> In c order -> l = blo c -> h = bhi c ->
    exists b' aux', rec b aux l h = Ok (b', aux') /\
      Inv (fun c' => done c' \/ c' = c) b' /\ len aux' = len a1.
  Proof.
    intros I Lx Hc -> ->. pose proof I as (I1 & I2 & I3 & I4 & I5).
    pose proof (bucket_bounds c Hc) as [B1 B2].
    pose proof (cnt_eq_nonneg dgf c L) as B3.
    destruct (Hrec b aux (blo c) (bhi c)) as (b' & aux' & E & Lb & La & Pb & Sb & Rb & Srt); try lia.
    { exists (hv * 256 + rk c). intros i x Hi G.
      destruct (I4 c i x Hc Hi G) as [Lx' Dx]. destruct (HLkey x Lx') as [H1 H2].
      rewrite high_succ by lia. rewrite H1, H2, Dx. reflexivity. }
    exists b', aux'. split; [exact E|]. split; [|lia].
    eapply step_inv; eassumption.
  Qed.

  Variable count4 : list Z.
  Hypothesis Hc4len : len count4 = 257.
  Local Notation cv r := (nthZ 0 count4 r).
  Variable bk : Z -> Z.
  Definition live (r : Z) : Prop :=
    In (bk r) order /\ lo + cv r = blo (bk r) /\ cv (r + 1) - cv r = cnt_eq dgf (bk r) L.
  Hypothesis Hcnt : forall r, 0 <= r < 256 -> cv (r + 1) <= cv r \/ live r.

  Lemma loop (done : Z -> Prop) b aux :
    Inv done b -> len aux = len a1 ->
    exists b' aux',
      for_range (Z.to_nat 256)
        (fun r '(a, aux) =>
           c0 <- get count4 r ;; c1 <- get count4 (r + 1) ;;
           if c0 <? c1 then rec a aux (lo + c0) (lo + c1 - 1) else Ok (a, aux))
        0 (b, aux) = Ok (b', aux') /\
      Inv (fun c => done c \/ exists r, 0 <= r < 256 /\ live r /\ c = bk r) b' /\
      len aux' = len a1.
  Proof.
    intros I Lx.
    destruct (for_range_inv
      (fun r (st : list Z * list Z) =>
         Inv (fun c => done c \/ exists r', 0 <= r' < r /\ live r' /\ c = bk r') (fst st) /\
         len (snd st) = len a1)
      (fun r '(a, aux) =>
           c0 <- get count4 r ;; c1 <- get count4 (r + 1) ;;
           if c0 <? c1 then rec a aux (lo + c0) (lo + c1 - 1) else Ok (a, aux))
      (Z.to_nat 256) 0 (b, aux)) as ([b' aux'] & E & I' & Lx').
    - cbn [fst snd]. split; [|exact Lx].
      eapply inv_weaken; [|exact I]. intros c [Dc | (r' & Hr' & _)]; [exact Dc | lia].
    - intros r [b0 x0] Hr [I0 L0]. cbn [fst snd] in I0, L0.
      assert (0 <= r < 256) as Hr' by lia.
      rewrite (get_nthZ 0 count4 r) by lia. cbn [bind].
      rewrite (get_nthZ 0 count4 (r + 1)) by lia. cbn [bind].
      destruct (Z.ltb_spec (cv r) (cv (r + 1))) as [Lt | Ge].
      + destruct (Hcnt r Hr') as [Le | Lv]; [lia|]. pose proof Lv as (Hc & E1 & E2).
        destruct (visit _ b0 x0 (bk r) (lo + cv r) (lo + cv (r + 1) - 1) I0 L0 Hc)
          as (b1 & x1 & E & I1 & L1); try lia.
        exists (b1, x1). split; [exact E|]. cbn [fst snd]. split; [|exact L1].
        eapply inv_weaken; [|exact I1]. cbv beta.
        intros c [Dc | (r' & Hr1 & Lv' & ->)]; [left; left; exact Dc|].
        destruct (Z.eq_dec r' r) as [->|N]; [right; reflexivity|].
        left. right. exists r'. split; [lia|]. split; [exact Lv' | reflexivity].
      + exists (b0, x0). split; [reflexivity|]. cbn [fst snd]. split; [|exact L0].
        destruct I0 as (J1 & J2 & J3 & J4 & J5). repeat (split; [assumption|]).
        intros c Hc [Dc | (r' & Hr1 & Lv' & ->)]; [apply J5; [exact Hc | left; exact Dc]|].
        destruct (Z.eq_dec r' r) as [->|N].
        * destruct Lv' as (_ & _ & E2). intros i j x y Hi Hij Hj _ _. lia.
        * apply J5; [exact Hc|]. right. exists r'. split; [lia|]. split; [exact Lv' | reflexivity].
    - exists b', aux'. split; [exact E|]. cbn [fst snd] in I', Lx'. split; [|exact Lx'].
      eapply inv_weaken; [|exact I']. cbv beta.
      intros c [Dc | (r' & Hr1 & Lv' & ->)]; [left; exact Dc|].
      right. exists r'. split; [lia|]. split; [exact Lv' | reflexivity].
  Qed.
End Buckets.

(** * one level of the recursion, after the distribution pass *)
Section Level.
  Variable key : Z -> Z.
  Hypothesis key_le : forall x y, key x <= key y -> x <= y.
  Variables d hv : Z.
  Hypothesis Hd : 0 <= d <= 7.
  Variables dgf rk : Z -> Z.
  Variable order : list Z.
  Variables (a a1 aux1 : list Z) (lo hi : Z) (cnt : nat).
  Local Notation L := (slice a lo cnt).
  Hypothesis ND : NoDup order.
  Hypothesis HLin : forall x, In x L -> In (dgf x) order.
  Hypothesis HLkey : forall x, In x L -> high d (key x) = hv /\ dg (7 - d) (key x) = rk (dgf x).
  Hypothesis rk_inj : forall c c', In c order -> In c' order -> rk c = rk c' -> c = c'.
  Hypothesis rk_mono : forall c c', In c order -> In c' order -> rk c < rk c' ->
    start dgf order c L + cnt_eq dgf c L <= start dgf order c' L.
  Hypothesis Hlo : 0 <= lo.
  Hypothesis Hlen : lo + Z.of_nat cnt <= len a.
  Hypothesis Hhi : hi = lo + Z.of_nat cnt - 1.
  Hypothesis La1 : len a1 = len a.
  Hypothesis Lx1 : len aux1 = len a.
  Hypothesis Hso : same_outside a a1 lo hi.
  Hypothesis Hsl : slice a1 lo cnt = bucket_cat dgf order L.

  Lemma LL : length L = cnt.
  Proof. apply length_slice; assumption. Qed.

  Lemma level_inv0 : Inv dgf order L lo a1 (fun _ => False) a1.
  Proof. apply inv_init; try assumption. rewrite LL. exact Hsl. Qed.

  Lemma level_perm : Permutation a a1.
  Proof.
    apply (slice_perm_whole a a1 lo cnt); try assumption.
    - rewrite <- Hhi. exact Hso.
    - rewrite Hsl. apply bucket_cat_perm; assumption.
  Qed.

  Lemma level_done (done : Z -> Prop) b aux' :
    Inv dgf order L lo a1 done b -> len aux' = len a ->
    (forall c, In c order -> 0 < cnt_eq dgf c L -> done c) ->
    sorts_range (Ok (b, aux')) a lo hi.
  Proof.
    intros I Lx Hall. pose proof I as (I1 & I2 & I3 & I4 & I5).
    assert (lo + Z.of_nat (length L) - 1 = hi) as Ehi by (rewrite LL; lia).
    exists b, aux'. split; [reflexivity|]. split; [congruence|]. split; [exact Lx|].
    split; [eapply Permutation_trans; [apply level_perm | exact I2]|].
    split; [eapply same_outside_trans; [exact Hso | rewrite <- Ehi; exact I3]|].
    split.
    - rewrite <- Ehi. apply (inv_range_from dgf order L lo a1 ND HLin done b a I).
      intros x Hx. rewrite LL. apply slice_In_get; assumption.
    - rewrite <- Ehi.
      apply (inv_final key key_le d hv Hd dgf rk order L lo a1 ND HLin HLkey rk_inj rk_mono done b I Hall).
  Qed.

  Lemma level_last : d = 7 -> sorts_range (Ok (a1, aux1)) a lo hi.
  Proof.
    intros E7. apply (level_done (fun _ => True)); [|exact Lx1 | intros; exact I].
    apply (inv_last key key_le d hv Hd dgf rk order L lo a1 HLkey (fun _ => False) a1 E7 level_inv0).
  Qed.

  Variable rec : list Z -> list Z -> Z -> Z -> res (list Z * list Z).
  Hypothesis Hrec : forall b aux l h,
    0 <= l -> h < len b -> l <= h + 1 -> len aux = len b -> shared key (d + 1) b l h ->
    sorts_range (rec b aux l h) b l h.
  Variable count4 : list Z.
  Hypothesis Hc4len : len count4 = 257.
  Variable bk : Z -> Z.
  Hypothesis Hcnt : forall r, 0 <= r < 256 ->
    nthZ 0 count4 (r + 1) <= nthZ 0 count4 r \/ live dgf order L lo count4 bk r.
  Variable cf : Z.
  Hypothesis Hcf : In cf order.
  Hypothesis Hcfr : 0 <= cf < 257.
  Hypothesis Hcf0 : start dgf order cf L = 0.
  Hypothesis Hcfv : nthZ 0 count4 cf = cnt_eq dgf cf L.
  Hypothesis Hcover : forall c, In c order -> 0 < cnt_eq dgf c L ->
    c = cf \/ exists r, 0 <= r < 256 /\ live dgf order L lo count4 bk r /\ c = bk r.

  Lemma level_rec :
    sorts_range
      (st1 <- (c <- get count4 cf ;;
               if 0 <? c then rec a1 aux1 lo (lo + c - 1) else Ok (a1, aux1)) ;;
       for_range (Z.to_nat 256)
         (fun r '(a, aux) =>
            c0 <- get count4 r ;; c1 <- get count4 (r + 1) ;;
            if c0 <? c1 then rec a aux (lo + c0) (lo + c1 - 1) else Ok (a, aux))
         0 st1) a lo hi.
  Proof.
    assert (lo + Z.of_nat (length L) <= len a1) as Hlen1 by (rewrite LL; lia).
    rewrite (get_nthZ 0 count4 cf) by lia. cbn [bind]. rewrite Hcfv.
    assert (exists b1 x1,
      (if 0 <? cnt_eq dgf cf L then rec a1 aux1 lo (lo + cnt_eq dgf cf L - 1) else Ok (a1, aux1)) = Ok (b1, x1) /\
      Inv dgf order L lo a1 (fun c' => False \/ c' = cf) b1 /\ len x1 = len a1) as (b1 & x1 & E1 & I1 & L1).
    { destruct (Z.ltb_spec 0 (cnt_eq dgf cf L)) as [Pos | Npos].
      - apply (visit key d hv Hd dgf rk order L lo a1 ND HLin HLkey Hlo Hlen1 rec Hrec
                 (fun _ => False) a1 aux1 cf); try assumption; try lia.
        apply level_inv0.
      - exists a1, aux1. split; [reflexivity|]. split; [|lia].
        apply inv_skip; [apply level_inv0 | exact Npos]. }
    rewrite E1. cbn [bind].
    destruct (loop key d hv Hd dgf rk order L lo a1 ND HLin HLkey Hlo Hlen1 rec Hrec
                count4 Hc4len bk Hcnt _ b1 x1 I1 L1) as (b2 & x2 & E2 & I2 & L2).
    rewrite E2.
    eapply level_done; [exact I2 | lia |].
    intros c Hc Pos. destruct (Hcover c Hc Pos) as [-> | Ex]; [left; right; reflexivity | right; exact Ex].
  Qed.
End Level.

(** * a level with the plain bucket order 0..255 *)
Section Plain.
  Variable key : Z -> Z.
  Hypothesis key_le : forall x y, key x <= key y -> x <= y.
  Variable d : Z.
  Hypothesis Hd : 0 <= d <= 7.
  Hypothesis Hkd : forall x, dg (7 - d) (key x) = dg (7 - d) x.
  Variable rec : list Z -> list Z -> Z -> Z -> res (list Z * list Z).
  Hypothesis Hrec : d < 7 -> forall b aux l h,
    0 <= l -> h < len b -> l <= h + 1 -> len aux = len b -> shared key (d + 1) b l h ->
    sorts_range (rec b aux l h) b l h.

  Lemma plain_level a aux lo hi :
    0 <= lo -> hi < len a -> lo <= hi + 1 -> len aux = len a -> shared key d a lo hi ->
    sorts_range
      (count1 <- count_freq_idx (int_digit (INT_SIZE - BYTE_SIZE - BYTE_SIZE * d)) 0
                   (Z.to_nat (hi + 1 - lo)) a lo (repeat 0 (Z.to_nat (R + 1))) ;;
       count2 <- cumulate (Z.to_nat R) count1 0 ;;
       '(count4, aux1) <- distribute_idx (int_digit (INT_SIZE - BYTE_SIZE - BYTE_SIZE * d)) 0
                            (Z.to_nat (hi + 1 - lo)) a lo count2 aux ;;
       a1 <- copy_back (Z.to_nat (hi + 1 - lo)) a aux1 lo lo ;;
       if d =? W - 1 then Ok (a1, aux1)
       else
         st1 <- (c <- get count4 0 ;;
                 if 0 <? c then rec a1 aux1 lo (lo + c - 1) else Ok (a1, aux1)) ;;
         for_range (Z.to_nat R)
           (fun r '(a, aux) =>
              c0 <- get count4 r ;; c1 <- get count4 (r + 1) ;;
              if c0 <? c1 then rec a aux (lo + c0) (lo + c1 - 1) else Ok (a, aux))
           0 st1) a lo hi.
  Proof.
    intros Hlo Hhi Hle Hx [hv Hhv].
    set (cnt := Z.to_nat (hi + 1 - lo)).
    set (digit := int_digit (INT_SIZE - BYTE_SIZE - BYTE_SIZE * d)).
    set (dgf := dg (7 - d)).
    assert (Z.of_nat cnt = hi + 1 - lo) as Ecnt by (unfold cnt; lia).
    assert (digits_ok digit dgf 0 256 (slice a lo cnt)) as D.
    { intros s _. split; [apply int_digit_msd; lia|]. pose proof (dg_range (7 - d) s). unfold dgf. lia. }
    destruct (msd_pass_plain digit dgf 0 256 cnt a lo aux)
      as (c1 & c2 & count' & aux' & a' & E1 & E2 & E3 & E4 & La' & Lx' & Hsl & Hso & Lc & Gc & GM);
      try lia; [exact D|].
    change R with 256. rewrite E1. cbn [bind]. rewrite E2. cbn [bind]. rewrite E3. cbn [bind].
    rewrite E4. cbn [bind].
    change (- 0) with 0 in Hsl.
    set (L := slice a lo cnt) in *.
    assert (length L = cnt) as LL by (apply length_slice; lia).
    assert (forall r, 0 <= r <= 256 -> nthZ 0 count' r = cnt_lt dgf (r + 1) L) as Hcv.
    { intros r Hr. destruct (Z.eq_dec r 256) as [->|N].
      - rewrite (get_Ok_nthZ 0 _ _ _ GM).
        rewrite (cnt_lt_top digit dgf 0 256 L (256 + 1) D) by lia. rewrite LL. reflexivity.
      - rewrite (get_Ok_nthZ 0 _ _ _ (Gc r ltac:(lia))). f_equal. lia. }
    assert (cnt_lt dgf 0 L = 0) as Hz by (apply (cnt_lt_bot digit dgf 0 256 L 0 D); lia).
    assert (forall c, 0 <= c < 256 -> start dgf (iota 0 (Z.to_nat 256)) c L = cnt_lt dgf c L) as Hst.
    { intros c Hc. rewrite start_iota_in by lia. lia. }
    assert (NoDup (iota 0 (Z.to_nat 256))) as ND by apply NoDup_iota.
    assert (forall x, In x L -> In (dgf x) (iota 0 (Z.to_nat 256))) as HLin.
    { intros x Hx'. apply In_iota. destruct (D x Hx'). lia. }
    assert (forall x, In x L -> high d (key x) = hv /\ dg (7 - d) (key x) = (fun c : Z => c) (dgf x)) as HLkey.
    { intros x Hx'. split; [|apply Hkd].
      destruct (slice_In_get a lo cnt x Hlo ltac:(lia) Hx') as (i & Hi & G). apply (Hhv i x); [lia | exact G]. }
    assert (forall c c', In c (iota 0 (Z.to_nat 256)) -> In c' (iota 0 (Z.to_nat 256)) ->
              (fun c : Z => c) c = (fun c : Z => c) c' -> c = c') as rk_inj by (intros c c' _ _ E; exact E).
    assert (forall c c', In c (iota 0 (Z.to_nat 256)) -> In c' (iota 0 (Z.to_nat 256)) ->
              (fun c : Z => c) c < (fun c : Z => c) c' ->
              start dgf (iota 0 (Z.to_nat 256)) c L + cnt_eq dgf c L <= start dgf (iota 0 (Z.to_nat 256)) c' L) as rk_mono.
    { intros c c' Hc Hc' Lt. apply In_iota in Hc, Hc'. cbv beta in Lt.
      rewrite !Hst by lia. rewrite <- cnt_lt_succ. apply cnt_lt_mono. lia. }
    change (W - 1) with 7.
    destruct (Z.eqb_spec d 7) as [E7 | N7].
    - apply (level_last key key_le d hv Hd dgf (fun c => c) (iota 0 (Z.to_nat 256)) a a' aux' lo hi cnt
               ND HLin HLkey rk_inj rk_mono); try assumption; try lia.
      replace hi with (lo + Z.of_nat cnt - 1) by lia. exact Hso.
    - apply (level_rec key key_le d hv Hd dgf (fun c => c) (iota 0 (Z.to_nat 256)) a a' aux' lo hi cnt
               ND HLin HLkey rk_inj rk_mono Hlo ltac:(lia) ltac:(lia) La' ltac:(lia)
               ltac:(replace hi with (lo + Z.of_nat cnt - 1) by lia; exact Hso) Hsl
               rec (Hrec ltac:(lia)) count' Lc (fun r => r + 1)).
      + intros r Hr. unfold live. change (slice a lo cnt) with L.
        destruct (Z.eq_dec r 255) as [->|N].
        * left. rewrite !Hcv by lia.
          rewrite !(cnt_lt_top digit dgf 0 256 L _ D) by lia. lia.
        * right. split; [apply In_iota; lia|]. rewrite Hst by lia. rewrite !Hcv by lia.
          split; [reflexivity|]. replace (r + 1 + 1) with ((r + 1) + 1) by lia.
          rewrite (cnt_lt_succ dgf (r + 1)). lia.
      + apply In_iota. lia.
      + lia.
      + change (slice a lo cnt) with L. rewrite Hst by lia. exact Hz.
      + change (slice a lo cnt) with L. rewrite Hcv by lia. rewrite cnt_lt_succ. lia.
      + unfold live. change (slice a lo cnt) with L. intros c Hc Pos. apply In_iota in Hc.
        destruct (Z.eq_dec c 0) as [->|N]; [left; reflexivity|].
        right. exists (c - 1). split; [lia|]. split; [|lia].
        split; [apply In_iota; lia|]. replace (c - 1 + 1) with c by lia.
        rewrite Hst by lia. rewrite !Hcv by lia. replace (c - 1 + 1) with c by lia.
        split; [reflexivity|]. rewrite cnt_lt_succ. lia.
  Qed.
End Plain.

(** * msdUint *)
Lemma Sorted_cmpZ_le (l : list Z) : Sorted (cle cmpZ) l -> Sorted Z.le l.
Proof.
  intros S. induction S as [|x l _ IH Hhd]; constructor; [exact IH|].
  destruct Hhd as [|y l' Hxy]; constructor. apply Z_cmp_le. exact Hxy.
Qed.

Lemma insertion_case (a aux : list Z) lo hi :
  0 <= lo -> hi < len a -> lo <= hi + 1 -> len aux = len a ->
  sorts_range (a' <- insertion_range Z.ltb a lo hi ;; Ok (a', aux)) a lo hi.
Proof.
  intros Hlo Hhi Hle Hx.
  destruct (insertion_range_correct Z cmpZ Z.ltb Z_cmp_TP Z_cmp_less a lo hi Hlo Hhi Hle)
    as (b & Hb & Lb & Pb & Sb & So & Rf).
  rewrite Hb. cbn [bind]. exists b, aux. repeat (split; [first [reflexivity | assumption]|]). exact Sb.
Qed.

Lemma msd_uint_spec : forall fuel a aux lo hi d,
  8 - d <= Z.of_nat fuel -> 0 <= d <= 7 ->
  0 <= lo -> hi < len a -> lo <= hi + 1 -> len aux = len a -> shared (fun x => x) d a lo hi ->
  sorts_range (msd_uint fuel a aux lo hi d) a lo hi.
Proof.
  induction fuel as [|f IH]; intros a aux lo hi d Hf Hd Hlo Hhi Hle Hx Hsh; [lia|].
  cbn [msd_uint].
  destruct (hi <=? lo + CUTOFF) eqn:Ecut.
  - apply insertion_case; assumption.
  - apply (plain_level (fun x => x) ltac:(intros x y H; exact H) d Hd ltac:(reflexivity)
             (fun a aux l h => msd_uint f a aux l h (d + 1))); try assumption.
    intros Hd7 b aux0 l h H1 H2 H3 H4 H5. apply IH; try assumption; lia.
Qed.

Theorem MSDUint_correct : forall a : list Z, Forall uint64 a -> sorts_to Z.le (MSDUint a) a.
Proof.
  intros a Ha. unfold MSDUint.
  destruct (msd_uint_spec (S (Z.to_nat W)) a (repeat 0 (length a)) 0 (len a - 1) 0)
    as (b & aux' & E & Lb & _ & Pb & _ & _ & Srt); try (unfold W; lia).
  - pose proof (len_nonneg a). lia.
  - apply len_repeat.
  - exists 0. intros i x _ G. apply high_0. rewrite Forall_forall in Ha. apply Ha.
    eapply get_Ok_In; exact G.
  - rewrite E. cbn [bind]. exists b. split; [reflexivity|]. split; [exact Pb|].
    rewrite <- Lb in Srt. apply (sorted_on_Sorted cmpZ) in Srt. apply Sorted_cmpZ_le. exact Srt.
Qed.

(** * the top level of msdInt: rotated bucket order 128..255, 0..127 *)
Lemma rk_rot_inj c c' : 0 <= c < 256 -> 0 <= c' < 256 -> (c + 128) mod 256 = (c' + 128) mod 256 -> c = c'.
Proof.
  intros Hc Hc'. rewrite (rot_mod c Hc), (rot_mod c' Hc').
  destruct (Z.ltb_spec c 128); destruct (Z.ltb_spec c' 128); lia.
Qed.

Section Rot.
  Variable rec : list Z -> list Z -> Z -> Z -> res (list Z * list Z).
  Hypothesis Hrec : forall b aux l h,
    0 <= l -> h < len b -> l <= h + 1 -> len aux = len b -> shared skey (0 + 1) b l h ->
    sorts_range (rec b aux l h) b l h.

  Lemma rot_level a aux lo hi :
    0 <= lo -> hi < len a -> lo <= hi + 1 -> len aux = len a -> shared skey 0 a lo hi ->
    sorts_range
      (count1 <- count_freq_idx (int_digit (INT_SIZE - BYTE_SIZE - BYTE_SIZE * 0)) 0
                   (Z.to_nat (hi + 1 - lo)) a lo (repeat 0 (Z.to_nat (R + 1))) ;;
       count2 <- cumulate (Z.to_nat R) count1 0 ;;
       count3 <- msd_rotate count2 ;;
       '(count4, aux1) <- distribute_idx (int_digit (INT_SIZE - BYTE_SIZE - BYTE_SIZE * 0)) 0
                            (Z.to_nat (hi + 1 - lo)) a lo count3 aux ;;
       a1 <- copy_back (Z.to_nat (hi + 1 - lo)) a aux1 lo lo ;;
       st1 <- (c <- get count4 (Z.quot R 2) ;;
               if 0 <? c then rec a1 aux1 lo (lo + c - 1) else Ok (a1, aux1)) ;;
       for_range (Z.to_nat R)
         (fun r '(a, aux) =>
            c0 <- get count4 r ;; c1 <- get count4 (r + 1) ;;
            if c0 <? c1 then rec a aux (lo + c0) (lo + c1 - 1) else Ok (a, aux))
         0 st1) a lo hi.
  Proof.
    intros Hlo Hhi Hle Hx [hv Hhv].
    set (cnt := Z.to_nat (hi + 1 - lo)).
    set (digit := int_digit (INT_SIZE - BYTE_SIZE - BYTE_SIZE * 0)).
    set (dgf := dg 7).
    assert (Z.of_nat cnt = hi + 1 - lo) as Ecnt by (unfold cnt; lia).
    assert (digits_ok digit dgf 0 256 (slice a lo cnt)) as D.
    { intros s _. split; [apply (int_digit_msd 0); lia|]. pose proof (dg_range 7 s). unfold dgf. lia. }
    destruct (msd_pass_rot digit dgf cnt a lo aux)
      as (c1 & c2 & c3 & count' & aux' & a' & E1 & E2 & E2' & E3 & E4 & La' & Lx' & Hsl & Hso & Lc & Gc & GM);
      try lia; [exact D|].
    change (Z.quot R 2) with 128. change R with 256.
    rewrite E1. cbn [bind]. rewrite E2. cbn [bind]. rewrite E2'. cbn [bind]. rewrite E3. cbn [bind].
    rewrite E4. cbn [bind].
    set (L := slice a lo cnt) in *.
    assert (length L = cnt) as LL by (apply length_slice; lia).
    set (A := cnt_lt dgf 128 L).
    assert (cnt_lt dgf 0 L = 0) as Hz by (apply (cnt_lt_bot digit dgf 0 256 L 0 D); lia).
    assert (cnt_lt dgf 256 L = Z.of_nat cnt) as Htop
      by (rewrite (cnt_lt_top digit dgf 0 256 L 256 D) by lia; rewrite LL; reflexivity).
    pose proof (cnt_lt_succ dgf 0 L) as H01. change (0 + 1) with 1 in H01.
    assert (forall c, 0 <= c < 128 -> start dgf rot_order c L = Z.of_nat cnt - A + cnt_lt dgf c L) as HSlo.
    { intros c Hc. rewrite (start_rot_lo_ok digit dgf c L D Hc). rewrite LL. reflexivity. }
    assert (forall c, 128 <= c < 256 -> start dgf rot_order c L = cnt_lt dgf c L - A) as HShi.
    { intros c Hc. apply (start_rot_hi_ok digit dgf c L D Hc). }
    assert (forall c, 0 <= c < 128 -> nthZ 0 count' c = Z.of_nat cnt - A + cnt_lt dgf (c + 1) L) as Hcvlo.
    { intros c Hc. rewrite (get_Ok_nthZ 0 _ _ _ (Gc c ltac:(lia))). rewrite HSlo by lia.
      rewrite cnt_lt_succ. lia. }
    assert (forall c, 128 <= c < 256 -> nthZ 0 count' c = cnt_lt dgf (c + 1) L - A) as Hcvhi.
    { intros c Hc. rewrite (get_Ok_nthZ 0 _ _ _ (Gc c ltac:(lia))). rewrite HShi by lia.
      rewrite cnt_lt_succ. lia. }
    assert (nthZ 0 count' 256 = Z.of_nat cnt - A + cnt_lt dgf 1 L) as Hcv256.
    { rewrite (get_Ok_nthZ 0 _ _ _ GM). fold A. lia. }
    pose proof NoDup_rot_order as ND.
    assert (forall x, In x L -> In (dgf x) rot_order) as HLin.
    { intros x Hx'. apply In_rot_order. destruct (D x Hx'). lia. }
    assert (forall x, In x L -> high 0 (skey x) = hv /\
              dg (7 - 0) (skey x) = (fun c : Z => (c + 128) mod 256) (dgf x)) as HLkey.
    { intros x Hx'. split; [|apply skey_dg7].
      destruct (slice_In_get a lo cnt x Hlo ltac:(lia) Hx') as (i & Hi & G). apply (Hhv i x); [lia | exact G]. }
    assert (forall c c', In c rot_order -> In c' rot_order ->
              (fun c : Z => (c + 128) mod 256) c = (fun c : Z => (c + 128) mod 256) c' -> c = c') as rk_inj.
    { intros c c' Hc Hc' E. apply In_rot_order in Hc, Hc'. apply rk_rot_inj; assumption. }
    assert (forall c c', In c rot_order -> In c' rot_order ->
              (fun c : Z => (c + 128) mod 256) c < (fun c : Z => (c + 128) mod 256) c' ->
              start dgf rot_order c L + cnt_eq dgf c L <= start dgf rot_order c' L) as rk_mono.
    { intros c c' Hc Hc' Lt. apply In_rot_order in Hc, Hc'. cbv beta in Lt.
      apply rot_lt in Lt; [|assumption|assumption].
      pose proof (cnt_lt_succ dgf c L) as Hs.
      pose proof (cnt_lt_nonneg dgf c' L) as Hn.
      destruct (Z_lt_ge_dec c 128) as [C1|C1]; destruct (Z_lt_ge_dec c' 128) as [C2|C2]; try lia.
      - rewrite !HSlo by lia. pose proof (cnt_lt_mono dgf (c + 1) c' L ltac:(lia)). lia.
      - rewrite HShi, HSlo by lia. pose proof (cnt_lt_mono dgf (c + 1) 256 L ltac:(lia)). lia.
      - rewrite !HShi by lia. pose proof (cnt_lt_mono dgf (c + 1) c' L ltac:(lia)). lia. }
    apply (level_rec skey ltac:(intros x y H; apply skey_le; exact H) 0 hv ltac:(lia) dgf
             (fun c => (c + 128) mod 256) rot_order a a' aux' lo hi cnt
             ND HLin HLkey rk_inj rk_mono Hlo ltac:(lia) ltac:(lia) La' ltac:(lia)
             ltac:(replace hi with (lo + Z.of_nat cnt - 1) by lia; exact Hso) Hsl
             rec Hrec count' Lc (fun r => if r =? 255 then 0 else r + 1)).
    - intros r Hr. unfold live. change (slice a lo cnt) with L.
      destruct (Z.eq_dec r 127) as [->|N127].
      { left. change (127 + 1) with 128. rewrite (Hcvlo 127), (Hcvhi 128) by lia.
        change (127 + 1) with 128. fold A.
        pose proof (cnt_lt_le_len dgf (128 + 1) L) as Hle'. rewrite LL in Hle'.
        pose proof (cnt_lt_nonneg dgf 128 L) as HA. fold A in HA. lia. }
      right. destruct (Z.eqb_spec r 255) as [->|N255].
      + split; [apply In_rot_order; lia|]. rewrite HSlo by lia. rewrite Hcvhi by lia.
        change (255 + 1) with 256. rewrite Hcv256, Htop, Hz.
        split; lia.
      + split; [apply In_rot_order; lia|].
        destruct (Z_lt_ge_dec r 127) as [C|C].
        * rewrite HSlo by lia. rewrite !Hcvlo by lia. split; [lia|].
          rewrite (cnt_lt_succ dgf (r + 1)). lia.
        * rewrite HShi by lia. rewrite !Hcvhi by lia. split; [lia|].
          rewrite (cnt_lt_succ dgf (r + 1)). lia.
    - apply In_rot_order. lia.
    - lia.
    - change (slice a lo cnt) with L. rewrite HShi by lia. fold A. lia.
    - change (slice a lo cnt) with L. rewrite Hcvhi by lia. rewrite cnt_lt_succ. fold A. lia.
    - unfold live. change (slice a lo cnt) with L. intros c Hc Pos. apply In_rot_order in Hc.
      destruct (Z.eq_dec c 128) as [->|N]; [left; reflexivity|]. right.
      destruct (Z.eq_dec c 0) as [->|N0].
      + exists 255. split; [lia|]. change (255 =? 255) with true. cbv iota. split; [|reflexivity].
        split; [apply In_rot_order; lia|]. rewrite HSlo by lia. rewrite Hcvhi by lia.
        change (255 + 1) with 256. rewrite Hcv256, Htop, Hz.
        split; lia.
      + exists (c - 1). split; [lia|].
        replace (c - 1 =? 255) with false by (symmetry; apply Z.eqb_neq; lia).
        replace (c - 1 + 1) with c by lia. split; [|reflexivity].
        split; [apply In_rot_order; lia|].
        destruct (Z_lt_ge_dec c 128) as [C|C].
        * rewrite HSlo by lia. rewrite (Hcvlo (c - 1)), (Hcvlo c) by lia.
          replace (c - 1 + 1) with c by lia. split; [lia|]. rewrite cnt_lt_succ. lia.
        * rewrite HShi by lia. rewrite (Hcvhi (c - 1)), (Hcvhi c) by lia.
          replace (c - 1 + 1) with c by lia. split; [lia|]. rewrite cnt_lt_succ. lia.
  Qed.
End Rot.

(** * msdInt *)
Lemma msd_int_spec : forall fuel a aux lo hi d,
  8 - d <= Z.of_nat fuel -> 0 <= d <= 7 ->
  0 <= lo -> hi < len a -> lo <= hi + 1 -> len aux = len a -> shared skey d a lo hi ->
  sorts_range (msd_int fuel a aux lo hi d) a lo hi.
Proof.
  induction fuel as [|f IH]; intros a aux lo hi d Hf Hd Hlo Hhi Hle Hx Hsh; [lia|].
  cbn [msd_int].
  destruct (hi <=? lo + CUTOFF) eqn:Ecut.
  - apply insertion_case; assumption.
  - destruct (Z.eqb_spec d 0) as [->|N0].
    + change (0 =? W - 1) with false. cbn [negb bind fst snd].
      apply (rot_level (fun a aux l h => msd_int f a aux l h (0 + 1))); try assumption.
      intros b aux0 l h H1 H2 H3 H4 H5. apply IH; try assumption; lia.
    + cbn [negb bind fst snd].
      apply (plain_level skey ltac:(intros x y H; apply skey_le; exact H) d Hd
               ltac:(intros x; apply skey_dg_low; lia)
               (fun a aux l h => msd_int f a aux l h (d + 1))); try assumption.
      intros Hd7 b aux0 l h H1 H2 H3 H4 H5. apply IH; try assumption; lia.
Qed.

Theorem MSDInt_correct : forall a : list Z, Forall int64 a -> sorts_to Z.le (MSDInt a) a.
Proof.
  intros a Ha. unfold MSDInt.
  destruct (msd_int_spec (S (Z.to_nat W)) a (repeat 0 (length a)) 0 (len a - 1) 0)
    as (b & aux' & E & Lb & _ & Pb & _ & _ & Srt); try (unfold W; lia).
  - pose proof (len_nonneg a). lia.
  - apply len_repeat.
  - exists 0. intros i x _ G. apply high_0. apply skey_range. rewrite Forall_forall in Ha. apply Ha.
    eapply get_Ok_In; exact G.
  - rewrite E. cbn [bind]. exists b. split; [reflexivity|]. split; [exact Pb|].
    rewrite <- Lb in Srt. apply (sorted_on_Sorted cmpZ) in Srt. apply Sorted_cmpZ_le. exact Srt.
Qed.
