(** C07 — specification vocabulary: comparators, sortedness, the statement shapes. *)
From Coq Require Export List ZArith Bool Lia Permutation Sorted.
From Algo.C07 Require Export Model.
Open Scope Z_scope.

(** A Go comparator [cmp(x,y) int] that is a total preorder: the sign of [cmp y x] is the
    opposite of the sign of [cmp x y], and [<=] is transitive.  Reflexivity and totality follow. *)
Record TotalPreorder {T : Type} (cmp : T -> T -> Z) : Prop := {
  tp_flip : forall x y, cmp x y < 0 <-> 0 < cmp y x;
  tp_trans : forall x y z, cmp x y <= 0 -> cmp y z <= 0 -> cmp x z <= 0
}.

Definition cle {T : Type} (cmp : T -> T -> Z) (x y : T) : Prop := cmp x y <= 0.

(** [r] is a successful run whose result is a sorted permutation of [a]. *)
Definition sorts_to {T : Type} (le : T -> T -> Prop) (r : res (list T)) (a : list T) : Prop :=
  exists b, r = Ok b /\ Permutation a b /\ Sorted le b.

(** [x] has rank [k] in [a]: in every sorted permutation of [a], position [k] holds an element
    equivalent to [x]. *)
Definition has_rank {T : Type} (cmp : T -> T -> Z) (a : list T) (k : Z) (x : T) : Prop :=
  In x a /\
  forall s, Permutation a s -> Sorted (cle cmp) s ->
    exists y, nth_error s (Z.to_nat k) = Some y /\ cmp x y = 0.

(** machine integers *)
Definition int64 (v : Z) : Prop := - 2 ^ 63 <= v < 2 ^ 63.
Definition uint64 (v : Z) : Prop := 0 <= v < 2 ^ 64.

(** byte strings and Go's native order on them *)
Definition is_byte (b : Z) : Prop := 0 <= b < 256.
Definition is_str (s : str) : Prop := Forall is_byte s.
Definition str_le (s t : str) : Prop := str_ltb t s = false.

(** the comparator of a strict order given as a boolean [less] (radixsort's [insertion]) *)
Definition cmp_of_less {K : Type} (less : K -> K -> bool) (x y : K) : Z :=
  if less x y then -1 else if less y x then 1 else 0.
