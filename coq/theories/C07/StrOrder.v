(** C07 — Go's order on strings ([str_ltb]) as a total order, the comparator views used by the
    radix sorts ([chr], [same_prefix], [suffix]). *)
From Algo.C07 Require Import ArrLemmas.
Open Scope Z_scope.

(** * comparators obtained from a boolean strict order *)
Lemma cmp_of_less_lt : forall (K : Type) (less : K -> K -> bool),
  (forall x y, less x y = true -> less y x = false) ->
  forall x y, less x y = (cmp_of_less less x y <? 0).
Proof.
  intros K less _ x y. unfold cmp_of_less.
  destruct (less x y); [reflexivity|]. destruct (less y x); reflexivity.
Qed.

Section LessCmp.
  Context {K : Type} (less : K -> K -> bool).
  Hypothesis less_asym : forall x y, less x y = true -> less y x = false.
  Hypothesis less_negtrans : forall x y z, less y x = false -> less z y = false -> less z x = false.

  Lemma cmp_of_less_le x y : cmp_of_less less x y <= 0 <-> less y x = false.
  Proof.
    unfold cmp_of_less. destruct (less x y) eqn:E1.
    - rewrite (less_asym _ _ E1). split; [reflexivity | lia].
    - destruct (less y x); split; intros H; try reflexivity; try lia; discriminate.
  Qed.

  Lemma cmp_of_less_TP : TotalPreorder (cmp_of_less less).
  Proof.
    constructor.
    - intros x y. unfold cmp_of_less.
      destruct (less x y) eqn:E1; destruct (less y x) eqn:E2; try lia.
      rewrite (less_asym _ _ E1) in E2. discriminate.
    - intros x y z H1 H2. apply cmp_of_less_le. apply cmp_of_less_le in H1, H2.
      eapply less_negtrans; eauto.
  Qed.
End LessCmp.

(** * strings *)
Lemma str_ltb_nil_r : forall s, str_ltb s [] = false.
Proof. destruct s; reflexivity. Qed.

Lemma str_ltb_cons : forall x s y t,
  str_ltb (x :: s) (y :: t) = if x <? y then true else if y <? x then false else str_ltb s t.
Proof. reflexivity. Qed.

Lemma str_ltb_cons_true : forall x s y t,
  str_ltb (x :: s) (y :: t) = true <-> x < y \/ (x = y /\ str_ltb s t = true).
Proof.
  intros x s y t. rewrite str_ltb_cons.
  destruct (Z.ltb_spec x y) as [L|G].
  - split; [left; exact L | reflexivity].
  - destruct (Z.ltb_spec y x) as [L2|G2].
    + split; [discriminate | intros [A|[A _]]; lia].
    + split; [intros H; right; split; [lia | exact H] | intros [A|[_ A]]; [lia | exact A]].
Qed.

Lemma str_ltb_cons_false : forall x s y t,
  str_ltb (x :: s) (y :: t) = false <-> y < x \/ (x = y /\ str_ltb s t = false).
Proof.
  intros x s y t. rewrite str_ltb_cons.
  destruct (Z.ltb_spec x y) as [L|G].
  - split; [discriminate | intros [A|[A _]]; lia].
  - destruct (Z.ltb_spec y x) as [L2|G2].
    + split; [left; exact L2 | reflexivity].
    + split; [intros H; right; split; [lia | exact H] | intros [A|[_ A]]; [lia | exact A]].
Qed.

Lemma str_ltb_irrefl : forall s, str_ltb s s = false.
Proof.
  induction s as [|x s IH]; [reflexivity|].
  apply str_ltb_cons_false. right. split; [reflexivity | exact IH].
Qed.

Lemma str_ltb_asym : forall s t, str_ltb s t = true -> str_ltb t s = false.
Proof.
  induction s as [|x s IH]; intros [|y t] H; try reflexivity; try discriminate.
  apply str_ltb_cons_true in H. apply str_ltb_cons_false.
  destruct H as [L|[E H]]; [left; exact L|].
  right. split; [congruence | apply IH; exact H].
Qed.

Lemma str_ltb_trans : forall s t u, str_ltb s t = true -> str_ltb t u = true -> str_ltb s u = true.
Proof.
  induction s as [|x s IH]; intros [|y t] [|z u] H1 H2; try reflexivity; try discriminate.
  apply str_ltb_cons_true in H1. apply str_ltb_cons_true in H2. apply str_ltb_cons_true.
  destruct H1 as [L1|[E1 H1]]; destruct H2 as [L2|[E2 H2]]; try (left; lia).
  right. split; [congruence | eapply IH; eauto].
Qed.

Lemma str_ltb_connex : forall s t, str_ltb s t = false -> str_ltb t s = false -> s = t.
Proof.
  induction s as [|x s IH]; intros [|y t] H1 H2; try reflexivity; try discriminate.
  apply str_ltb_cons_false in H1. apply str_ltb_cons_false in H2.
  destruct H1 as [L1|[E1 H1]]; destruct H2 as [L2|[E2 H2]]; try lia.
  subst y. f_equal. apply IH; assumption.
Qed.

Lemma str_ltb_negtrans : forall x y z,
  str_ltb y x = false -> str_ltb z y = false -> str_ltb z x = false.
Proof.
  intros x y z H1 H2. destruct (str_ltb z x) eqn:E; [|reflexivity].
  destruct (str_ltb y z) eqn:E2.
  - rewrite (str_ltb_trans _ _ _ E2 E) in H1. discriminate.
  - assert (z = y) by (apply str_ltb_connex; assumption). subst y. congruence.
Qed.

Lemma str_le_refl : forall s, str_le s s.
Proof. intros s. apply str_ltb_irrefl. Qed.

Lemma str_le_trans : forall s t u, str_le s t -> str_le t u -> str_le s u.
Proof. unfold str_le. intros s t u H1 H2. eapply str_ltb_negtrans; eauto. Qed.

Lemma str_le_antisym : forall s t, str_le s t -> str_le t s -> s = t.
Proof. unfold str_le. intros s t H1 H2. apply str_ltb_connex; assumption. Qed.

Lemma str_le_total : forall s t, str_le s t \/ str_le t s.
Proof.
  unfold str_le. intros s t. destruct (str_ltb t s) eqn:E; [|left; reflexivity].
  right. apply str_ltb_asym. exact E.
Qed.

Lemma str_cmp_TP : TotalPreorder (cmp_of_less str_ltb).
Proof. apply cmp_of_less_TP; [exact str_ltb_asym | exact str_ltb_negtrans]. Qed.

Lemma str_cmp_less : forall x y, str_ltb x y = (cmp_of_less str_ltb x y <? 0).
Proof. apply cmp_of_less_lt. exact str_ltb_asym. Qed.

Lemma str_cmp_le : forall x y, cmp_of_less str_ltb x y <= 0 <-> str_le x y.
Proof. intros x y. unfold str_le. apply cmp_of_less_le. exact str_ltb_asym. Qed.

Lemma str_cmp_eq : forall x y, cmp_of_less str_ltb x y = 0 <-> x = y.
Proof.
  intros x y. split.
  - unfold cmp_of_less. destruct (str_ltb x y) eqn:E1; [lia|].
    destruct (str_ltb y x) eqn:E2; [lia|]. intros _. apply str_ltb_connex; assumption.
  - intros ->. unfold cmp_of_less. rewrite str_ltb_irrefl. reflexivity.
Qed.

(** * integers with [Z.ltb], same interface *)
Lemma Z_cmp_TP : TotalPreorder (cmp_of_less Z.ltb).
Proof.
  apply cmp_of_less_TP.
  - intros x y H. apply Z.ltb_lt in H. apply Z.ltb_ge. lia.
  - intros x y z H1 H2. apply Z.ltb_ge in H1, H2. apply Z.ltb_ge. lia.
Qed.

Lemma Z_cmp_less : forall x y, Z.ltb x y = (cmp_of_less Z.ltb x y <? 0).
Proof.
  apply cmp_of_less_lt. intros x y H. apply Z.ltb_lt in H. apply Z.ltb_ge. lia.
Qed.

Lemma Z_cmp_le : forall x y, cmp_of_less Z.ltb x y <= 0 <-> x <= y.
Proof.
  intros x y. rewrite cmp_of_less_le.
  - apply Z.ltb_ge.
  - intros a b H. apply Z.ltb_lt in H. apply Z.ltb_ge. lia.
Qed.

(** * the character at position d, -1 past the end (total version of charAt) *)
Definition chr (d : Z) (s : str) : Z := if d <? len s then nthZ (-1) s d else -1.

Lemma chr_in : forall d s, d < len s -> chr d s = nthZ (-1) s d.
Proof. intros d s H. unfold chr. apply Z.ltb_lt in H. rewrite H. reflexivity. Qed.

Lemma chr_out : forall d s, len s <= d -> chr d s = -1.
Proof. intros d s H. unfold chr. apply Z.ltb_ge in H. rewrite H. reflexivity. Qed.

Lemma charAt_chr : forall d s, 0 <= d -> charAt d s = Ok (chr d s).
Proof.
  intros d s H. unfold charAt, chr. destruct (Z.ltb_spec d (len s)) as [L|G]; [|reflexivity].
  apply get_nthZ. lia.
Qed.

Lemma get_chr : forall d s, 0 <= d < len s -> get s d = Ok (chr d s).
Proof. intros d s H. rewrite chr_in by lia. apply get_nthZ. exact H. Qed.

Lemma get_Ok_chr : forall d s c, get s d = Ok c -> chr d s = c.
Proof.
  intros d s c H. pose proof (get_Ok_range _ _ _ H) as R.
  rewrite chr_in by lia. eapply get_Ok_nthZ. exact H.
Qed.

Lemma chr_byte : forall d s, is_str s -> 0 <= d < len s -> is_byte (chr d s).
Proof.
  intros d s S R. pose proof (get_chr d s R) as G. apply get_Ok_In in G.
  unfold is_str in S. rewrite Forall_forall in S. apply S. exact G.
Qed.

Lemma chr_range : forall d s, is_str s -> 0 <= d -> -1 <= chr d s < 256.
Proof.
  intros d s S H. destruct (Z_lt_ge_dec d (len s)) as [L|G].
  - pose proof (chr_byte d s S ltac:(lia)) as B. unfold is_byte in B. lia.
  - rewrite chr_out by lia. lia.
Qed.

Lemma chr_end : forall d s, is_str s -> 0 <= d -> (chr d s = -1 <-> len s <= d).
Proof.
  intros d s S H. split.
  - intros E. destruct (Z_lt_ge_dec d (len s)) as [L|G]; [|lia].
    pose proof (chr_byte d s S ltac:(lia)) as B. unfold is_byte in B. lia.
  - apply chr_out.
Qed.

(** * LSD view: the suffix starting at d *)
Definition suffix (d : Z) (s : str) : str := skipn (Z.to_nat d) s.

Lemma skipn_nth_cons : forall (A : Type) (def : A) (l : list A) (n : nat),
  (n < length l)%nat -> skipn n l = nth n l def :: skipn (S n) l.
Proof.
  intros A def. induction l as [|h l IH]; intros [|n] H; simpl in H; try lia.
  - reflexivity.
  - change (skipn (S n) (h :: l)) with (skipn n l).
    change (nth (S n) (h :: l) def) with (nth n l def).
    change (skipn (S (S n)) (h :: l)) with (skipn (S n) l).
    apply IH. lia.
Qed.

Lemma firstn_S_nth : forall (A : Type) (def : A) (l : list A) (n : nat),
  (n < length l)%nat -> firstn (S n) l = firstn n l ++ [nth n l def].
Proof.
  intros A def. induction l as [|h l IH]; intros [|n] H; simpl in H; try lia.
  - reflexivity.
  - change (firstn (S (S n)) (h :: l)) with (h :: firstn (S n) l).
    change (firstn (S n) (h :: l)) with (h :: firstn n l).
    change (nth (S n) (h :: l) def) with (nth n l def).
    rewrite (IH n) by lia. reflexivity.
Qed.

Lemma suffix_0 : forall s, suffix 0 s = s.
Proof. reflexivity. Qed.

Lemma suffix_all : forall s, suffix (len s) s = [].
Proof. intros s. unfold suffix, len. rewrite Nat2Z.id. apply skipn_all. Qed.

Lemma suffix_past : forall d s, len s <= d -> suffix d s = [].
Proof. intros d s H. unfold suffix. apply skipn_all2. unfold len in H. lia. Qed.

Lemma suffix_step : forall d s, 0 <= d < len s -> suffix d s = chr d s :: suffix (d + 1) s.
Proof.
  intros d s H. unfold suffix. rewrite chr_in by lia. unfold nthZ.
  replace (Z.to_nat (d + 1)) with (S (Z.to_nat d)) by lia.
  apply skipn_nth_cons. unfold len in H. lia.
Qed.

Lemma prefix_suffix : forall d s, firstn (Z.to_nat d) s ++ suffix d s = s.
Proof. intros d s. unfold suffix. apply firstn_skipn. Qed.

Lemma suffix_le_lex : forall d s t, 0 <= d < len s -> 0 <= d < len t ->
  (str_le (suffix d s) (suffix d t) <->
   chr d s < chr d t \/ (chr d s = chr d t /\ str_le (suffix (d + 1) s) (suffix (d + 1) t))).
Proof.
  intros d s t Hs Ht. rewrite (suffix_step d s Hs), (suffix_step d t Ht).
  unfold str_le. rewrite str_ltb_cons_false.
  split; (intros [A|[A B]]; [left; exact A | right; split; [congruence | exact B]]).
Qed.

(** * MSD / 3-way view: two strings that agree on their first d characters *)
Definition same_prefix (d : Z) (s t : str) : Prop :=
  d <= len s /\ d <= len t /\ firstn (Z.to_nat d) s = firstn (Z.to_nat d) t.

Lemma same_prefix_0 : forall s t, same_prefix 0 s t.
Proof.
  intros s t. unfold same_prefix. pose proof (len_nonneg s). pose proof (len_nonneg t).
  repeat split; try lia.
Qed.

Lemma same_prefix_refl : forall d s, d <= len s -> same_prefix d s s.
Proof. intros d s H. unfold same_prefix. auto. Qed.

Lemma same_prefix_sym : forall d s t, same_prefix d s t -> same_prefix d t s.
Proof. intros d s t (A & B & C). unfold same_prefix. auto. Qed.

Lemma same_prefix_trans : forall d s t u, same_prefix d s t -> same_prefix d t u -> same_prefix d s u.
Proof.
  intros d s t u (A & B & C) (A' & B' & C'). unfold same_prefix.
  repeat split; try assumption. congruence.
Qed.

Lemma str_ltb_app : forall p a b, str_ltb (p ++ a) (p ++ b) = str_ltb a b.
Proof.
  induction p as [|x p IH]; intros a b; [reflexivity|].
  rewrite <- !app_comm_cons, str_ltb_cons, Z.ltb_irrefl. apply IH.
Qed.

Lemma same_prefix_ltb : forall d s t, same_prefix d s t ->
  str_ltb s t = str_ltb (suffix d s) (suffix d t).
Proof.
  intros d s t (_ & _ & E).
  rewrite <- (prefix_suffix d s) at 1. rewrite <- (prefix_suffix d t) at 1.
  rewrite E. apply str_ltb_app.
Qed.

Lemma same_prefix_lt : forall d s t, is_str s -> is_str t -> 0 <= d -> same_prefix d s t ->
  chr d s < chr d t -> str_ltb s t = true.
Proof.
  intros d s t Ss St Hd P L. rewrite (same_prefix_ltb d s t P).
  pose proof (chr_range d s Ss Hd) as Rs.
  destruct (Z_lt_ge_dec d (len t)) as [Lt|Gt]; [|rewrite (chr_out d t) in L by lia; lia].
  rewrite (suffix_step d t) by lia.
  destruct (Z_lt_ge_dec d (len s)) as [Ls|Gs].
  - rewrite (suffix_step d s) by lia. apply str_ltb_cons_true. left. exact L.
  - rewrite (suffix_past d s) by lia. reflexivity.
Qed.

Lemma same_prefix_end : forall d s t, is_str s -> is_str t -> 0 <= d -> same_prefix d s t ->
  chr d s = -1 -> chr d t = -1 -> s = t.
Proof.
  intros d s t Ss St Hd (A & B & E) Cs Ct.
  apply (chr_end d s Ss Hd) in Cs. apply (chr_end d t St Hd) in Ct.
  rewrite firstn_all2 in E by (unfold len in Cs; lia).
  rewrite firstn_all2 in E by (unfold len in Ct; lia).
  exact E.
Qed.

Lemma same_prefix_succ : forall d s t, is_str s -> is_str t -> 0 <= d -> same_prefix d s t ->
  chr d s = chr d t -> 0 <= chr d s -> same_prefix (d + 1) s t.
Proof.
  intros d s t Ss St Hd (A & B & E) C P.
  assert (d < len s) as Ls.
  { destruct (Z_lt_ge_dec d (len s)) as [L|G]; [exact L|]. rewrite chr_out in P by lia. lia. }
  assert (d < len t) as Lt.
  { destruct (Z_lt_ge_dec d (len t)) as [L|G]; [exact L|]. rewrite (chr_out d t) in C by lia. lia. }
  unfold same_prefix. repeat split; try lia.
  replace (Z.to_nat (d + 1)) with (S (Z.to_nat d)) by lia.
  rewrite (firstn_S_nth Z (-1) s) by (unfold len in Ls; lia).
  rewrite (firstn_S_nth Z (-1) t) by (unfold len in Lt; lia).
  rewrite E. f_equal. f_equal.
  rewrite (chr_in d s Ls), (chr_in d t Lt) in C. exact C.
Qed.
