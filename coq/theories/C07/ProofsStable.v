(** C07 — stability of [Insertion], [MergeRec] and [Merge]: elements that compare equal keep
    their input order.  Stated per equivalence class: the subsequence of the elements
    equivalent to [k] is the same list before and after the sort. *)
From Algo.C07 Require Import ArrLemmas ProofsMerge.
Open Scope Z_scope.

(* the subsequence of elements equivalent to k *)
Definition eqclass {T : Type} (cmp : T -> T -> Z) (k : T) (l : list T) : list T :=
  filter (fun z => cmp z k =? 0) l.

Section Stable.
  Context {T : Type} (cmp : T -> T -> Z) (TP : TotalPreorder cmp).
  Variable k0 : T.
  Implicit Types (a aux : list T) (i j k lo mid hi : Z).

  Notation ec := (eqclass cmp k0).

  (** * the class filter *)
  Lemma ec_app (l1 l2 : list T) : ec (l1 ++ l2) = ec l1 ++ ec l2.
  Proof. apply filter_app. Qed.

  Lemma ec_cons (x : T) (l : list T) : ec (x :: l) = (if cmp x k0 =? 0 then [x] else []) ++ ec l.
  Proof. unfold eqclass. cbn [filter]. destruct (cmp x k0 =? 0); reflexivity. Qed.

  Lemma ec_nil_all (l : list T) : (forall y, In y l -> cmp y k0 <> 0) -> ec l = [].
  Proof.
    induction l as [|h t IH]; intros H; [reflexivity|].
    rewrite ec_cons. rewrite IH by (intros y Hy; apply H; right; exact Hy).
    destruct (Z.eqb_spec (cmp h k0) 0) as [E|E]; [|reflexivity].
    exfalso. apply (H h); [left; reflexivity | exact E].
  Qed.

  (** two members of the class of [k0] are equivalent to each other *)
  Lemma equiv_k (x y : T) : cmp x k0 = 0 -> cmp y k0 = 0 -> cmp x y = 0.
  Proof.
    intros Hx Hy.
    pose proof (cmp_eq_sym cmp TP _ _ Hx) as Hx'. pose proof (cmp_eq_sym cmp TP _ _ Hy) as Hy'.
    assert (A : cmp x y <= 0) by (apply (tp_trans cmp TP x k0 y); lia).
    assert (B : cmp y x <= 0) by (apply (tp_trans cmp TP y k0 x); lia).
    pose proof (tp_flip cmp TP x y). lia.
  Qed.

  (** * insertion sort: every swap exchanges two adjacent, inequivalent elements *)
  Lemma ec_upd_adj : forall (a : list T) (n : nat) (x y : T),
    nth_error a n = Some y -> nth_error a (S n) = Some x ->
    ~ (cmp x k0 = 0 /\ cmp y k0 = 0) ->
    ec (upd (upd a (S n) y) n x) = ec a.
  Proof.
    induction a as [|h t IH]; intros n x y Hy Hx N.
    - destruct n; discriminate.
    - destruct n as [|n].
      + cbn [nth_error] in Hy. inversion Hy; subst h.
        destruct t as [|h' t']; [discriminate|].
        cbn [nth_error] in Hx. inversion Hx; subst h'.
        cbn [upd]. rewrite !ec_cons.
        destruct (Z.eqb_spec (cmp x k0) 0) as [Ex|Ex];
          destruct (Z.eqb_spec (cmp y k0) 0) as [Ey|Ey]; try reflexivity.
        exfalso. apply N. split; assumption.
      + cbn [nth_error] in Hy, Hx. cbn [upd]. rewrite !ec_cons. f_equal.
        apply IH; assumption.
  Qed.

  Lemma swap_adj_ec a j a' (x y : T) :
    swap a j (j - 1) = Ok a' -> get a j = Ok x -> get a (j - 1) = Ok y ->
    ~ (cmp x k0 = 0 /\ cmp y k0 = 0) -> ec a' = ec a.
  Proof.
    intros Hs Gx Gy N. apply swap_inv in Hs. destruct Hs as (x' & y' & Gx' & Gy' & ->).
    assert (x' = x) by congruence. assert (y' = y) by congruence. subst x' y'.
    apply get_Ok_iff in Gx. destruct Gx as [_ Gx].
    apply get_Ok_iff in Gy. destruct Gy as [Hj Gy].
    assert (Ej : Z.to_nat j = S (Z.to_nat (j - 1))) by lia.
    rewrite Ej in *. apply ec_upd_adj; assumption.
  Qed.

  Lemma ins_inner_stable : forall (fuel : nat) a j b,
    ins_inner cmp fuel a j = Ok b -> ec b = ec a.
  Proof.
    induction fuel as [|f IH]; intros a j b H; [discriminate|].
    cbn [ins_inner] in H. destruct (0 <? j); [|inversion H; reflexivity].
    inv_bind H. inv_bind H.
    destruct (cmp x x0 <? 0) eqn:E; [|inversion H; reflexivity].
    apply Z.ltb_lt in E. inv_bind H. apply IH in H. rewrite H.
    eapply swap_adj_ec; eauto.
    intros [A B]. pose proof (equiv_k _ _ A B). lia.
  Qed.

  Lemma ins_outer_stable : forall (cnt : nat) a i b,
    ins_outer cmp cnt a i = Ok b -> ec b = ec a.
  Proof.
    induction cnt as [|c IH]; intros a i b H.
    - cbn [ins_outer] in H. inversion H. reflexivity.
    - cbn [ins_outer] in H. inv_bind H. apply IH in H. rewrite H.
      eapply ins_inner_stable; eauto.
  Qed.

  Lemma Insertion_stable_ a b : Insertion cmp a = Ok b -> ec b = ec a.
  Proof. unfold Insertion. apply ins_outer_stable. Qed.

  (** * the merge step *)
  (** the first cell written by an iteration is not touched by the remaining ones *)
  Lemma merge_loop_head (c : nat) a aux k i j mid hi (x : T) a' :
    0 <= i -> i <= mid + 1 -> mid + 1 <= j -> j <= hi + 1 -> hi < len a -> hi < len aux ->
    0 <= k -> k + 1 = i + j - mid - 1 -> Z.of_nat c = hi + 1 - (k + 1) ->
    sorted_on cmp aux i mid -> sorted_on cmp aux j hi ->
    merge_loop cmp c (upd a (Z.to_nat k) x) aux (k + 1) i j mid hi = Ok a' ->
    seg a' k (hi + 1) = x :: seg a' (k + 1) (hi + 1).
  Proof.
    intros Hi Him Hmj Hjh Hha Hhx Hk0 Hk Hc Si Sj H.
    destruct (merge_loop_spec cmp TP c (upd a (Z.to_nat k) x) aux (k + 1) i j mid hi)
      as (a'' & E & La & So & _); try assumption; try (rewrite len_upd; assumption).
    rewrite E in H. inversion H; subst a''.
    apply seg_cons; [|lia]. rewrite So by lia.
    apply (get_set_eq a k x). apply set_Ok. lia.
  Qed.

  Lemma merge_loop_stable (cnt : nat) : forall a aux k i j mid hi a',
    0 <= i -> i <= mid + 1 -> mid + 1 <= j -> j <= hi + 1 -> hi < len a -> hi < len aux ->
    k = i + j - mid - 1 -> Z.of_nat cnt = hi + 1 - k ->
    sorted_on cmp aux i mid -> sorted_on cmp aux j hi ->
    merge_loop cmp cnt a aux k i j mid hi = Ok a' ->
    ec (seg a' k (hi + 1)) = ec (seg aux i (mid + 1)) ++ ec (seg aux j (hi + 1)).
  Proof.
    induction cnt as [|c IH]; intros a aux k i j mid hi a' Hi Him Hmj Hjh Hha Hhx Hk Hc Si Sj H.
    - rewrite !seg_empty by lia. reflexivity.
    - cbn [merge_loop] in H.
      destruct (mid <? i) eqn:E1; [apply Z.ltb_lt in E1 | apply Z.ltb_ge in E1].
      { inv_bind H. inv_bind H. apply set_Ok_inv in Hx0. destruct Hx0 as [_ ->].
        assert (Sj' : sorted_on cmp aux (j + 1) hi) by (eapply sorted_on_sub; [| |exact Sj]; lia).
        rewrite (merge_loop_head c a aux k i (j + 1) mid hi x a') by (try assumption; lia).
        rewrite ec_cons.
        rewrite (IH (upd a (Z.to_nat k) x) aux (k + 1) i (j + 1) mid hi a') by
          (try assumption; try lia; rewrite len_upd; assumption).
        rewrite (seg_cons aux j (hi + 1) x Hx) by lia. rewrite ec_cons.
        rewrite (seg_empty aux i (mid + 1)) by lia. reflexivity. }
      destruct (hi <? j) eqn:E2; [apply Z.ltb_lt in E2 | apply Z.ltb_ge in E2].
      { inv_bind H. inv_bind H. apply set_Ok_inv in Hx0. destruct Hx0 as [_ ->].
        assert (Si' : sorted_on cmp aux (i + 1) mid) by (eapply sorted_on_sub; [| |exact Si]; lia).
        rewrite (merge_loop_head c a aux k (i + 1) j mid hi x a') by (try assumption; lia).
        rewrite ec_cons.
        rewrite (IH (upd a (Z.to_nat k) x) aux (k + 1) (i + 1) j mid hi a') by
          (try assumption; try lia; rewrite len_upd; assumption).
        rewrite (seg_cons aux i (mid + 1) x Hx) by lia. rewrite ec_cons.
        rewrite app_assoc. reflexivity. }
      inv_bind H. inv_bind H. rename x into xj, x0 into xi, Hx into Hxj, Hx0 into Hxi.
      destruct (cmp xj xi <? 0) eqn:E3; [apply Z.ltb_lt in E3 | apply Z.ltb_ge in E3].
      { inv_bind H. apply set_Ok_inv in Hx. destruct Hx as [_ ->].
        assert (Sj' : sorted_on cmp aux (j + 1) hi) by (eapply sorted_on_sub; [| |exact Sj]; lia).
        rewrite (merge_loop_head c a aux k i (j + 1) mid hi xj a') by (try assumption; lia).
        rewrite ec_cons.
        rewrite (IH (upd a (Z.to_nat k) xj) aux (k + 1) i (j + 1) mid hi a') by
          (try assumption; try lia; rewrite len_upd; assumption).
        rewrite (seg_cons aux j (hi + 1) xj Hxj) by lia. rewrite ec_cons.
        destruct (Z.eqb_spec (cmp xj k0) 0) as [Ek|Ek]; [|reflexivity].
        (* the taken right element is in the class: no remaining left element is *)
        rewrite (ec_nil_all (seg aux i (mid + 1))); [reflexivity|].
        intros y Hy Ey. apply In_seg in Hy; [|lia]. destruct Hy as (r & Hr & Gr).
        assert (C1 : cmp xi y <= 0) by (apply (Si i r xi y); try lia; assumption).
        pose proof (cmp_lt_trans_l cmp TP xj xi y E3 C1) as C2.
        pose proof (equiv_k xj y Ek Ey). lia. }
      { inv_bind H. apply set_Ok_inv in Hx. destruct Hx as [_ ->].
        assert (Si' : sorted_on cmp aux (i + 1) mid) by (eapply sorted_on_sub; [| |exact Si]; lia).
        rewrite (merge_loop_head c a aux k (i + 1) j mid hi xi a') by (try assumption; lia).
        rewrite ec_cons.
        rewrite (IH (upd a (Z.to_nat k) xi) aux (k + 1) (i + 1) j mid hi a') by
          (try assumption; try lia; rewrite len_upd; assumption).
        rewrite (seg_cons aux i (mid + 1) xi Hxi) by lia. rewrite ec_cons.
        rewrite app_assoc. reflexivity. }
  Qed.

  (** a change confined to [lo..hi-1] that keeps that segment's class keeps the slice's class *)
  Lemma seg_ec_whole a a' lo hi :
    0 <= lo -> lo <= hi -> hi <= len a -> len a' = len a ->
    same_outside a a' lo (hi - 1) ->
    ec (seg a' lo hi) = ec (seg a lo hi) -> ec a' = ec a.
  Proof.
    intros H0 H1 H2 L So P.
    assert (D : forall c : list T, len c = len a ->
              c = seg c 0 lo ++ seg c lo hi ++ seg c hi (len c)).
    { intros c Lc. rewrite <- seg_split by lia. rewrite <- seg_split by lia.
      symmetry. apply seg_full. }
    rewrite (D a eq_refl). rewrite (D a' L).
    rewrite (seg_ext a a' 0 lo) by (try lia; intros p Hp; apply So; lia).
    rewrite L.
    rewrite (seg_ext a a' hi (len a)) by (try lia; intros p Hp; apply So; lia).
    rewrite !ec_app. rewrite P. reflexivity.
  Qed.

  Lemma merge_run_stable a aux lo mid hi a' aux' :
    0 <= lo -> lo <= mid + 1 -> mid <= hi -> hi < len a -> len aux = len a ->
    sorted_on cmp a lo mid -> sorted_on cmp a (mid + 1) hi ->
    merge_run cmp a aux lo mid hi = Ok (a', aux') -> ec a' = ec a.
  Proof.
    intros Hlo Hlm Hmh Hha Lx S1 S2 H. unfold merge_run in H.
    assert (C : (0 <=? lo) && (lo <=? hi + 1) && (hi + 1 <=? len a) && (hi + 1 <=? len aux) = true).
    { rewrite !andb_true_iff, !Z.leb_le. lia. }
    rewrite C in H.
    destruct (copy_range_spec (Z.to_nat (hi + 1 - lo)) aux a lo) as (ax & Hc & Lx' & Hin & Hout);
      try lia.
    rewrite Hc in H; cbn [bind] in H.
    rewrite Z2Nat.id in Hin by lia.
    assert (Hin' : forall p, lo <= p <= hi -> get ax p = get a p) by (intros p Hp; apply Hin; lia).
    assert (S1' : sorted_on cmp ax lo mid).
    { eapply sorted_on_ext; [|exact S1]. intros p Hp. apply Hin'. lia. }
    assert (S2' : sorted_on cmp ax (mid + 1) hi).
    { eapply sorted_on_ext; [|exact S2]. intros p Hp. apply Hin'. lia. }
    destruct (merge_loop_spec cmp TP (Z.to_nat (hi + 1 - lo)) a ax lo lo (mid + 1) mid hi
                ltac:(lia) ltac:(lia) ltac:(lia) ltac:(lia) ltac:(lia) ltac:(lia) ltac:(lia) ltac:(lia) S1' S2')
      as (a1 & Hm & La & So & _ & _).
    pose proof (merge_loop_stable (Z.to_nat (hi + 1 - lo)) a ax lo lo (mid + 1) mid hi a1
                ltac:(lia) ltac:(lia) ltac:(lia) ltac:(lia) ltac:(lia) ltac:(lia) ltac:(lia) ltac:(lia) S1' S2' Hm)
      as E.
    rewrite Hm in H; cbn [bind] in H. inversion H; subst a1 ax. clear H.
    rewrite <- ec_app in E. rewrite <- seg_split in E by lia.
    rewrite (seg_ext a aux' lo (hi + 1)) in E by (try lia; intros p Hp; apply Hin'; lia).
    apply (seg_ec_whole a a' lo (hi + 1)); try lia.
    - replace (hi + 1 - 1) with hi by lia. exact So.
    - exact E.
  Qed.

  (** * top-down merge sort *)
  Lemma merge_rec_stable (fuel : nat) : forall a aux lo hi a' aux',
    0 <= lo -> hi < len a -> len aux = len a -> (0 < fuel)%nat -> hi - lo < Z.of_nat fuel ->
    merge_rec cmp fuel a aux lo hi = Ok (a', aux') -> ec a' = ec a.
  Proof.
    induction fuel as [|f IH]; intros a aux lo hi a' aux' Hlo Hhi Lx Hf Hfu H; [lia|].
    cbn [merge_rec] in H. destruct (hi <=? lo) eqn:E; [apply Z.leb_le in E | apply Z.leb_gt in E].
    - inversion H. reflexivity.
    - cbv zeta in H.
      assert (Hq : Z.quot (lo + hi) 2 = (lo + hi) / 2) by (apply Z.quot_div_nonneg; lia).
      rewrite Hq in H. clear Hq.
      assert (Hmid : lo <= (lo + hi) / 2 < hi).
      { split; [apply Z.div_le_lower_bound; lia | apply Z.div_lt_upper_bound; lia]. }
      set (mid := (lo + hi) / 2) in *.
      destruct (merge_rec_spec cmp TP f a aux lo mid ltac:(lia) ltac:(lia) Lx ltac:(lia) ltac:(lia))
        as (a1 & x1 & H1 & La1 & Lx1 & So1 & P1 & S1).
      rewrite H1 in H; cbn [bind] in H.
      destruct (merge_rec_spec cmp TP f a1 x1 (mid + 1) hi ltac:(lia) ltac:(lia) ltac:(lia) ltac:(lia) ltac:(lia))
        as (a2 & x2 & H2 & La2 & Lx2 & So2 & P2 & S2).
      rewrite H2 in H; cbn [bind] in H.
      assert (E1 : ec a1 = ec a).
      { apply (IH a aux lo mid a1 x1); try assumption; lia. }
      assert (E2 : ec a2 = ec a1).
      { apply (IH a1 x1 (mid + 1) hi a2 x2); try assumption; lia. }
      inv_bind H. inv_bind H.
      destruct (0 <=? cmp x x0) eqn:Ec.
      + inversion H; subst a' aux'. rewrite E2. exact E1.
      + assert (S1' : sorted_on cmp a2 lo mid).
        { eapply sorted_on_ext; [|exact S1]. intros p Hp. apply So2. lia. }
        rewrite (merge_run_stable a2 x2 lo mid hi a' aux') by (try assumption; lia).
        rewrite E2. exact E1.
  Qed.

  Lemma MergeRec_stable_ (zero : T) a b : MergeRec cmp zero a = Ok b -> ec b = ec a.
  Proof.
    unfold MergeRec. intros H. inv_bind H. destruct x as [a' aux']. inversion H; subst b.
    apply (merge_rec_stable (S (length a)) a (repeat zero (length a)) 0 (len a - 1) a' aux');
      try exact Hx; try (rewrite ?len_repeat; unfold len; lia).
  Qed.

  (** * bottom-up merge sort *)
  Lemma merge_pass_stable (fuel : nat) : forall a aux n sz c lo a' aux',
    len a = n -> len aux = len a -> 1 <= sz -> 0 <= c -> lo = c * (sz + sz) ->
    Z.max 0 (n - lo) < Z.of_nat fuel ->
    (forall b, 0 <= b < c ->
       sorted_on cmp a (b * (sz + sz)) (Z.min (b * (sz + sz) + (sz + sz) - 1) (n - 1))) ->
    (forall b, 2 * c <= b -> sorted_on cmp a (b * sz) (Z.min (b * sz + sz - 1) (n - 1))) ->
    merge_pass cmp fuel a aux n sz lo = Ok (a', aux') -> ec a' = ec a.
  Proof.
    induction fuel as [|f IH]; intros a aux n sz c lo a' aux' Ln Lx Hsz Hc Hlo Hfu P2 P1 H; [lia|].
    assert (Hlo0 : 0 <= lo) by (subst lo; apply Z.mul_nonneg_nonneg; lia).
    cbn [merge_pass] in H.
    destruct (lo <? n - sz) eqn:E; [apply Z.ltb_lt in E | apply Z.ltb_ge in E].
    - set (hi := Z.min (lo + sz + sz - 1) (n - 1)) in *.
      assert (Hhi : lo + sz <= hi /\ hi <= n - 1 /\ hi <= lo + sz + sz - 1) by (subst hi; lia).
      assert (S1 : sorted_on cmp a lo (lo + sz - 1)).
      { pose proof (P1 (2 * c) ltac:(lia)) as S.
        replace (2 * c * sz) with lo in S by (subst lo; ring).
        rewrite Z.min_l in S by lia. exact S. }
      assert (S2 : sorted_on cmp a (lo + sz - 1 + 1) hi).
      { pose proof (P1 (2 * c + 1) ltac:(lia)) as S.
        replace ((2 * c + 1) * sz) with (lo + sz) in S by (subst lo; ring).
        replace (lo + sz - 1 + 1) with (lo + sz) by lia. exact S. }
      destruct (merge_run_spec cmp TP a aux lo (lo + sz - 1) hi
                  ltac:(lia) ltac:(lia) ltac:(lia) ltac:(lia) Lx S1 S2)
        as (a1 & x1 & H1 & La1 & Lx1 & So1 & S1' & _ & Pm1).
      assert (E1 : ec a1 = ec a).
      { apply (merge_run_stable a aux lo (lo + sz - 1) hi a1 x1); try assumption; lia. }
      rewrite H1 in H; cbn [bind] in H.
      rewrite <- E1.
      apply (IH a1 x1 n sz (c + 1) (lo + sz + sz) a' aux'); try lia; try exact H.
      + intros b Hb. destruct (Z.eq_dec b c) as [->|N].
        * replace (c * (sz + sz)) with lo by (subst lo; ring).
          replace (lo + (sz + sz) - 1) with (lo + sz + sz - 1) by lia. exact S1'.
        * assert (Hb' : b * (sz + sz) + (sz + sz) <= lo).
          { subst lo. replace (b * (sz + sz) + (sz + sz)) with ((b + 1) * (sz + sz)) by ring.
            apply Z.mul_le_mono_nonneg_r; lia. }
          eapply sorted_on_ext; [|apply (P2 b); lia].
          intros p Hp. apply So1. lia.
      + intros b Hb.
        assert (Hb' : lo + sz + sz <= b * sz).
        { subst lo. replace (c * (sz + sz) + sz + sz) with ((2 * (c + 1)) * sz) by ring.
          apply Z.mul_le_mono_nonneg_r; lia. }
        eapply sorted_on_ext; [|apply (P1 b); lia].
        intros p Hp. apply So1. lia.
    - inversion H. reflexivity.
  Qed.

  Lemma merge_sizes_stable (fuel : nat) : forall a aux n sz a' aux',
    len a = n -> len aux = len a -> 1 <= sz -> Z.max 0 (n - sz) < Z.of_nat fuel ->
    blocks cmp a n sz ->
    merge_sizes cmp fuel a aux n sz = Ok (a', aux') -> ec a' = ec a.
  Proof.
    induction fuel as [|f IH]; intros a aux n sz a' aux' Ln Lx Hsz Hfu B H; [lia|].
    cbn [merge_sizes] in H. destruct (sz <? n) eqn:E; [apply Z.ltb_lt in E | apply Z.ltb_ge in E].
    - destruct (merge_pass_spec cmp TP (S (length a)) a aux n sz 0 0)
        as (a1 & x1 & H1 & La1 & Lx1 & P1 & B1); try lia.
      + unfold len in Ln. lia.
      + intros b Hb. apply B. lia.
      + assert (E1 : ec a1 = ec a).
        { apply (merge_pass_stable (S (length a)) a aux n sz 0 0 a1 x1); try lia; try exact H1.
          - unfold len in Ln. lia.
          - intros b Hb. apply B. lia. }
        rewrite H1 in H; cbn [bind] in H.
        rewrite <- E1.
        apply (IH a1 x1 n (sz + sz) a' aux'); try lia; try exact B1; exact H.
    - inversion H. reflexivity.
  Qed.

  Lemma Merge_stable_ (zero : T) a b : Merge cmp zero a = Ok b -> ec b = ec a.
  Proof.
    unfold Merge. intros H. inv_bind H. destruct x as [a' aux']. inversion H; subst b.
    apply (merge_sizes_stable (S (length a)) a (repeat zero (length a)) (len a) 1 a' aux');
      try exact Hx; try (rewrite ?len_repeat; unfold len; lia).
    intros b Hb. apply sorted_on_single; [exact TP | lia].
  Qed.
End Stable.

(** * the contract *)
Theorem Insertion_stable : forall (T : Type) (cmp : T -> T -> Z), TotalPreorder cmp ->
  forall (a b : list T), Insertion cmp a = Ok b -> forall k, eqclass cmp k b = eqclass cmp k a.
Proof. intros T cmp TP a b H k. eapply Insertion_stable_; eauto. Qed.

Theorem MergeRec_stable : forall (T : Type) (cmp : T -> T -> Z), TotalPreorder cmp ->
  forall (zero : T) (a b : list T), MergeRec cmp zero a = Ok b -> forall k, eqclass cmp k b = eqclass cmp k a.
Proof. intros T cmp TP zero a b H k. eapply MergeRec_stable_; eauto. Qed.

Theorem Merge_stable : forall (T : Type) (cmp : T -> T -> Z), TotalPreorder cmp ->
  forall (zero : T) (a b : list T), Merge cmp zero a = Ok b -> forall k, eqclass cmp k b = eqclass cmp k a.
Proof. intros T cmp TP zero a b H k. eapply Merge_stable_; eauto. Qed.
