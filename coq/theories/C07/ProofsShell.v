(** C07 — sort/shell.go [Shell]: total correctness of the model [Shell].

    Structure of the proof.
    - [shell_h] (the loop [for h < n/3 { h = 3*h+1 }]) terminates within the fuel it is given and
      returns a member of the gap sequence [hseq] = 1, 4, 13, 40, ...
    - for every gap [h >= 1] a pass [shell_pass] neither panics nor hangs and permutes the slice
      (every step is a swap of two in-range positions);
    - the pass with [h = 1] is insertion sort: whatever the input, its result is sorted;
    - [shell_outer] divides the gap by 3 until it reaches 1 ([(3h+1)/3 = h], [1/3 = 0]), so the
      last executed pass has [h = 1]. *)
From Algo.C07 Require Import ArrLemmas.
Open Scope Z_scope.

(** * the gap sequence *)
Inductive hseq : Z -> Prop :=
| hseq_1 : hseq 1
| hseq_next h : hseq h -> hseq (3 * h + 1).

Lemma hseq_pos h : hseq h -> 1 <= h.
Proof. induction 1; lia. Qed.

Lemma quot3_next h : 1 <= h -> Z.quot (3 * h + 1) 3 = h.
Proof.
  intros H. rewrite Z.quot_div_nonneg by lia.
  symmetry. apply Z.div_unique with (r := 1); lia.
Qed.

Lemma quot3_one : Z.quot 1 3 = 0.
Proof. reflexivity. Qed.

Lemma shell_h_ok : forall fuel n h,
  0 <= n -> hseq h -> n - h < Z.of_nat fuel -> (0 < fuel)%nat ->
  exists h', shell_h fuel n h = Ok h' /\ hseq h'.
Proof.
  induction fuel as [|f IH]; intros n h Hn Hh Hf Hpos; [lia|].
  cbn [shell_h].
  pose proof (hseq_pos h Hh) as Hh1.
  destruct (h <? Z.quot n 3) eqn:E.
  - apply Z.ltb_lt in E. rewrite Z.quot_div_nonneg in E by lia.
    assert (3 * h < n) as Hlt
      by (pose proof (Z.mul_div_le n 3 ltac:(lia)); lia).
    apply IH; try lia. constructor; exact Hh.
  - eauto.
Qed.

Section Shell.
  Context {T : Type} (cmp : T -> T -> Z) (TP : TotalPreorder cmp).

  (** * any gap: no panic, no hang, a permutation *)
  Lemma shell_inner_total : forall fuel (a : list T) h j,
    1 <= h -> 0 <= j < len a -> j < Z.of_nat fuel ->
    exists b, shell_inner cmp fuel a h j = Ok b /\ Permutation a b /\ len b = len a.
  Proof.
    induction fuel as [|f IH]; intros a h j Hh Hj Hf; [lia|].
    cbn [shell_inner].
    destruct (h <=? j) eqn:E.
    - apply Z.leb_le in E.
      destruct (get_in_range a j ltac:(lia)) as [x Hx]. rewrite Hx. cbn [bind].
      destruct (get_in_range a (j - h) ltac:(lia)) as [y Hy]. rewrite Hy. cbn [bind].
      destruct (cmp x y <? 0).
      + destruct (swap_Ok a j (j - h) ltac:(lia) ltac:(lia)) as [a' Ha']. rewrite Ha'. cbn [bind].
        pose proof (swap_len _ _ _ _ Ha') as L.
        destruct (IH a' h (j - h)) as (b & Hb & Pb & Lb); try lia.
        exists b. split; [exact Hb|]. split; [|lia].
        eapply Permutation_trans; [eapply swap_Permutation; exact Ha' | exact Pb].
      + exists a. auto.
    - exists a. auto.
  Qed.

  Lemma shell_pass_total : forall cnt (a : list T) h i,
    1 <= h -> 0 <= i -> (cnt = 0%nat \/ i + Z.of_nat cnt = len a) ->
    exists b, shell_pass cmp cnt a h i = Ok b /\ Permutation a b /\ len b = len a.
  Proof.
    induction cnt as [|c IH]; intros a h i Hh Hi Hc; cbn [shell_pass].
    - exists a. auto.
    - destruct Hc as [Hc|Hc]; [discriminate|].
      destruct (shell_inner_total (S (Z.to_nat i)) a h i) as (a' & Ha' & Pa' & La'); try lia.
      rewrite Ha'. cbn [bind].
      destruct (IH a' h (i + 1)) as (b & Hb & Pb & Lb); try lia.
      exists b. split; [exact Hb|]. split; [|lia].
      eapply Permutation_trans; eauto.
  Qed.

  (** * gap 1: insertion sort *)
  (** invariant of the inner loop: every ordered pair of [a[0..i]] is in order, except possibly the
      pairs [(p, j)] with [p < j] (the element at [j] is still travelling down) *)
  Definition ins_inv (a : list T) (j i : Z) : Prop :=
    forall p q x y, 0 <= p -> p <= q -> q <= i -> (q = j -> p = j) ->
      get a p = Ok x -> get a q = Ok y -> cmp x y <= 0.

  Lemma shell_inner1_sorted : forall fuel (a : list T) j i b,
    0 <= j <= i -> ins_inv a j i ->
    shell_inner cmp fuel a 1 j = Ok b -> sorted_on cmp b 0 i.
  Proof.
    induction fuel as [|f IH]; intros a j i b Hj HI H; cbn [shell_inner] in H; [discriminate|].
    destruct (1 <=? j) eqn:E.
    - apply Z.leb_le in E.
      apply bind_Ok in H. destruct H as (x & Hx & H).
      apply bind_Ok in H. destruct H as (y & Hy & H).
      destruct (cmp x y <? 0) eqn:C.
      + apply Z.ltb_lt in C.
        apply bind_Ok in H. destruct H as (a' & Hs & H).
        apply (IH a' (j - 1) i b); [lia | | exact H].
        assert (Gj : get a' j = Ok y) by (eapply swap_get_l; eauto).
        assert (Gj1 : get a' (j - 1) = Ok x) by (eapply swap_get_r; eauto).
        assert (Go : forall k, k <> j -> k <> j - 1 -> get a' k = get a k)
          by (intros k K1 K2; eapply swap_get_other; eauto).
        intros p q x' y' Hp Hpq Hq Hex Gp Gq.
        destruct (Z.eq_dec p q) as [->|Npq].
        { assert (x' = y') by congruence. subst y'. rewrite (cmp_refl cmp TP). lia. }
        destruct (Z.eq_dec p (j - 1)) as [->|Np1].
        { assert (x' = x) by congruence. subst x'.
          destruct (Z.eq_dec q j) as [->|Nq].
          - assert (y' = y) by congruence. subst y'. lia.
          - rewrite Go in Gq by lia. apply (HI j q x y'); try lia; assumption. }
        destruct (Z.eq_dec p j) as [->|Np].
        { assert (x' = y) by congruence. subst x'.
          rewrite Go in Gq by lia. apply (HI (j - 1) q y y'); try lia; assumption. }
        rewrite Go in Gp by lia.
        destruct (Z.eq_dec q (j - 1)) as [->|Nq1]; [lia|].
        destruct (Z.eq_dec q j) as [->|Nq].
        { assert (y' = y) by congruence. subst y'.
          apply (HI p (j - 1) x' y); try lia; assumption. }
        rewrite Go in Gq by lia. apply (HI p q x' y'); try lia; assumption.
      + apply Z.ltb_ge in C. inversion H; subst b.
        intros p q x' y' Hp Hpq Hq Gp Gq.
        destruct (Z.eq_dec q j) as [->|Nq].
        * destruct (Z.eq_dec p j) as [->|Np].
          -- apply (HI j j x' y'); try lia; assumption.
          -- assert (y' = x) by congruence. subst y'.
             apply (tp_trans cmp TP x' y x).
             ++ apply (HI p (j - 1) x' y); try lia; assumption.
             ++ apply (cmp_nlt_ge cmp TP). lia.
        * apply (HI p q x' y'); try lia; assumption.
    - apply Z.leb_gt in E. inversion H; subst b.
      intros p q x' y' Hp Hpq Hq Gp Gq.
      apply (HI p q x' y'); try lia; assumption.
  Qed.

  Lemma shell_pass1_sorted : forall cnt (a : list T) i b,
    1 <= i -> i + Z.of_nat cnt = len a -> sorted_on cmp a 0 (i - 1) ->
    shell_pass cmp cnt a 1 i = Ok b -> sorted_on cmp b 0 (len b - 1).
  Proof.
    induction cnt as [|c IH]; intros a i b Hi Hc HS H; cbn [shell_pass] in H.
    - inversion H; subst b. replace (len a - 1) with (i - 1) by lia. exact HS.
    - apply bind_Ok in H. destruct H as (a' & Ha' & H).
      destruct (shell_inner_total (S (Z.to_nat i)) a 1 i) as (a'' & Ha'' & _ & La''); try lia.
      assert (a'' = a') by congruence. subst a''.
      apply (IH a' (i + 1) b); [lia | lia | | exact H].
      replace (i + 1 - 1) with i by lia.
      apply (shell_inner1_sorted (S (Z.to_nat i)) a i i a'); [lia | | exact Ha'].
      intros p q x y Hp Hpq Hq Hex Gp Gq.
      destruct (Z.eq_dec q i) as [->|Nq].
      + rewrite (Hex eq_refl) in Gp. assert (x = y) by congruence. subst y.
        rewrite (cmp_refl cmp TP). lia.
      + apply (HS p q x y); try lia; assumption.
  Qed.

  Lemma shell_pass1_correct (a : list T) :
    exists b, shell_pass cmp (Z.to_nat (len a - 1)) a 1 1 = Ok b /\ Permutation a b /\
              sorted_on cmp b 0 (len b - 1).
  Proof.
    pose proof (len_nonneg a) as Hn.
    destruct (shell_pass_total (Z.to_nat (len a - 1)) a 1 1) as (b & Hb & Pb & Lb); try lia.
    exists b. split; [exact Hb|]. split; [exact Pb|].
    destruct (Z.eq_dec (len a) 0) as [L0|L0].
    - intros p q x y Hp Hpq Hq Gp Gq. apply get_Ok_range in Gq. lia.
    - apply (shell_pass1_sorted (Z.to_nat (len a - 1)) a 1 b); [lia | lia | | exact Hb].
      intros p q x y Hp Hpq Hq Gp Gq.
      assert (p = q) by lia. subst q. assert (x = y) by congruence. subst y.
      rewrite (cmp_refl cmp TP). lia.
  Qed.

  (** * the outer loop *)
  Lemma shell_outer_correct : forall h, hseq h -> forall fuel (a : list T),
    (Z.to_nat h < fuel)%nat ->
    exists b, shell_outer cmp fuel a h = Ok b /\ Permutation a b /\ sorted_on cmp b 0 (len b - 1).
  Proof.
    induction 1 as [|h Hh IH]; intros fuel a Hf.
    - destruct fuel as [|[|f]]; try lia.
      cbn [shell_outer].
      replace (1 <=? 1) with true by reflexivity.
      destruct (shell_pass1_correct a) as (b & Hb & Pb & Sb).
      rewrite Hb. cbn [bind]. rewrite quot3_one.
      replace (1 <=? 0) with false by reflexivity.
      exists b. auto.
    - pose proof (hseq_pos h Hh) as Hh1.
      destruct fuel as [|f]; [lia|].
      cbn [shell_outer].
      replace (1 <=? 3 * h + 1) with true by (symmetry; apply Z.leb_le; lia).
      destruct (shell_pass_total (Z.to_nat (len a - (3 * h + 1))) a (3 * h + 1) (3 * h + 1))
        as (a' & Ha' & Pa' & La'); try lia.
      rewrite Ha'. cbn [bind]. rewrite quot3_next by lia.
      destruct (IH f a') as (b & Hb & Pb & Sb); [lia|].
      exists b. split; [exact Hb|]. split; [|exact Sb].
      eapply Permutation_trans; eauto.
  Qed.
End Shell.

Theorem Shell_correct : forall (T : Type) (cmp : T -> T -> Z), TotalPreorder cmp ->
  forall a : list T, sorts_to (cle cmp) (Shell cmp a) a.
Proof.
  intros T cmp TP a. unfold sorts_to, Shell.
  destruct (shell_h_ok (S (length a)) (len a) 1) as (h & Hh & Hs).
  - apply len_nonneg.
  - constructor.
  - unfold len. lia.
  - lia.
  - rewrite Hh. cbn [bind].
    destruct (shell_outer_correct cmp TP h Hs (S (Z.to_nat h)) a) as (b & Hb & Pb & Sb); [lia|].
    exists b. split; [exact Hb|]. split; [exact Pb|].
    apply (sorted_on_Sorted cmp). exact Sb.
Qed.
