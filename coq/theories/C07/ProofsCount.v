(** C07 — key-indexed counting is a stable bucket sort.

    Generic theory shared by the LSD proofs (whole slice, [count_freq]/[distribute]) and the MSD
    proofs (sub-range [a[lo..hi]], [count_freq_idx]/[distribute_idx]/[copy_back]). *)
From Algo.C07 Require Import ArrLemmas.
Open Scope Z_scope.

(** * list helpers phrased with [get]/[len] *)
Section ListGet.
  Context {T : Type}.
  Implicit Types (a b : list T).

  Lemma len_app a b : len (a ++ b) = len a + len b.
  Proof. unfold len. rewrite app_length. lia. Qed.

  Lemma get_app_l a b i : i < len a -> get (a ++ b) i = get a i.
  Proof.
    unfold len, get. intros H. destruct (i <? 0) eqn:E; [reflexivity|]. apply Z.ltb_ge in E.
    rewrite nth_error_app1 by lia. reflexivity.
  Qed.

  Lemma get_app_r a b i : len a <= i -> get (a ++ b) i = get b (i - len a).
  Proof.
    unfold len, get. intros H.
    destruct (i <? 0) eqn:E; [apply Z.ltb_lt in E; lia|].
    destruct (i - Z.of_nat (length a) <? 0) eqn:E2; [apply Z.ltb_lt in E2; lia|].
    rewrite nth_error_app2 by lia.
    replace (Z.to_nat (i - Z.of_nat (length a))) with (Z.to_nat i - length a)%nat by lia.
    reflexivity.
  Qed.

  Lemma nth_error_firstn_lt a : forall n m, (m < n)%nat -> nth_error (firstn n a) m = nth_error a m.
  Proof.
    induction a as [|h t IH]; intros [|n] [|m] H; simpl; try lia; try reflexivity.
    apply IH. lia.
  Qed.

  Lemma nth_error_skipn_add a : forall n m, nth_error (skipn n a) m = nth_error a (n + m).
  Proof.
    induction a as [|h t IH]; intros [|n] m; simpl; try reflexivity.
    - destruct m; reflexivity.
    - apply IH.
  Qed.

  Lemma skipn_nth_error_cons a : forall n x, nth_error a n = Some x -> skipn n a = x :: skipn (S n) a.
  Proof.
    induction a as [|h t IH]; intros [|n] x H; simpl in *; try discriminate.
    - inversion H. reflexivity.
    - apply IH. exact H.
  Qed.

  Lemma get_firstn a n i : i < Z.of_nat n -> get (firstn n a) i = get a i.
  Proof.
    intros H. unfold get. destruct (i <? 0) eqn:E; [reflexivity|]. apply Z.ltb_ge in E.
    rewrite nth_error_firstn_lt by lia. reflexivity.
  Qed.

  Lemma get_skipn a n i : 0 <= i -> get (skipn n a) i = get a (Z.of_nat n + i).
  Proof.
    intros H. unfold get.
    destruct (i <? 0) eqn:E; [apply Z.ltb_lt in E; lia|].
    destruct (Z.of_nat n + i <? 0) eqn:E2; [apply Z.ltb_lt in E2; lia|].
    rewrite nth_error_skipn_add.
    replace (Z.to_nat (Z.of_nat n + i)) with (n + Z.to_nat i)%nat by lia. reflexivity.
  Qed.

  Lemma len_firstn a n : Z.of_nat n <= len a -> len (firstn n a) = Z.of_nat n.
  Proof. unfold len. intros H. rewrite firstn_length_le by lia. reflexivity. Qed.

  Lemma len_skipn a n : Z.of_nat n <= len a -> len (skipn n a) = len a - Z.of_nat n.
  Proof. unfold len. intros H. rewrite skipn_length. lia. Qed.

  Lemma len_repeat (x : T) n : len (repeat x n) = Z.of_nat n.
  Proof. unfold len. rewrite repeat_length. reflexivity. Qed.

  Lemma get_repeat (x : T) n i : 0 <= i < Z.of_nat n -> get (repeat x n) i = Ok x.
  Proof.
    intros H. destruct (get_in_range (repeat x n) i) as [y Hy]; [rewrite len_repeat; lia|].
    rewrite Hy. f_equal. apply get_Ok_In in Hy. apply repeat_spec in Hy. exact Hy.
  Qed.

  (** ** the sub-range [a[lo .. lo+cnt-1]] as a list *)
  Definition slice a (lo : Z) (cnt : nat) : list T := firstn cnt (skipn (Z.to_nat lo) a).

  Lemma len_slice a lo cnt : 0 <= lo -> lo + Z.of_nat cnt <= len a -> len (slice a lo cnt) = Z.of_nat cnt.
  Proof.
    intros H0 H. unfold slice. apply len_firstn. rewrite len_skipn by lia. lia.
  Qed.

  Lemma length_slice a lo cnt : 0 <= lo -> lo + Z.of_nat cnt <= len a -> length (slice a lo cnt) = cnt.
  Proof. intros H0 H. pose proof (len_slice a lo cnt H0 H) as L. unfold len in L. lia. Qed.

  Lemma get_slice a lo cnt k : 0 <= lo -> 0 <= k < Z.of_nat cnt -> get (slice a lo cnt) k = get a (lo + k).
  Proof.
    intros H0 H. unfold slice. rewrite get_firstn by lia. rewrite get_skipn by lia.
    f_equal. lia.
  Qed.

  Lemma slice_S a lo cnt x :
    0 <= lo -> get a lo = Ok x -> slice a lo (S cnt) = x :: slice a (lo + 1) cnt.
  Proof.
    intros H0 G. apply get_Ok_iff in G. destruct G as [_ G]. unfold slice.
    rewrite (skipn_nth_error_cons _ _ _ G).
    replace (Z.to_nat (lo + 1)) with (S (Z.to_nat lo)) by lia. reflexivity.
  Qed.

  Lemma slice_0 a lo : slice a lo 0 = [].
  Proof. reflexivity. Qed.

  Lemma slice_full a : slice a 0 (length a) = a.
  Proof. unfold slice. simpl. apply firstn_all. Qed.

  Lemma slice_In a lo cnt x : In x (slice a lo cnt) -> In x a.
  Proof.
    unfold slice. intros H.
    rewrite <- (firstn_skipn (Z.to_nat lo) a). apply in_or_app. right.
    rewrite <- (firstn_skipn cnt (skipn (Z.to_nat lo) a)). apply in_or_app. left. exact H.
  Qed.

  Lemma skipn_skipn_add : forall m n a, skipn n (skipn m a) = skipn (m + n) a.
  Proof.
    induction m as [|m IH]; intros n a; [reflexivity|].
    destruct a as [|h t]; [destruct n; reflexivity|]. simpl. apply IH.
  Qed.

  (** the three-way split of [a] around the slice *)
  Lemma slice_split a lo cnt :
    0 <= lo -> a = firstn (Z.to_nat lo) a ++ slice a lo cnt ++ skipn (Z.to_nat lo + cnt) a.
  Proof.
    intros H0. unfold slice.
    rewrite <- (firstn_skipn (Z.to_nat lo) a) at 1. f_equal.
    rewrite <- (firstn_skipn cnt (skipn (Z.to_nat lo) a)) at 1. f_equal.
    rewrite skipn_skipn_add. reflexivity.
  Qed.

  (** two arrays that agree outside [lo .. lo+cnt-1] have the same prefix and suffix *)
  Lemma same_outside_firstn a b lo hi :
    0 <= lo -> len a = len b -> same_outside a b lo hi ->
    firstn (Z.to_nat lo) b = firstn (Z.to_nat lo) a.
  Proof.
    intros H0 L S.
    destruct (Z_le_gt_dec lo (len a)) as [Le|Gt].
    - apply get_ext.
      + rewrite !len_firstn by lia. reflexivity.
      + intros i Hi. rewrite len_firstn in Hi by lia.
        rewrite !get_firstn by lia. apply S. lia.
    - rewrite !firstn_all2 by (unfold len in *; lia).
      symmetry. apply get_ext; [exact L|]. intros i Hi. symmetry. apply S. lia.
  Qed.

  Lemma same_outside_skipn a b lo hi n :
    hi < Z.of_nat n -> len a = len b -> same_outside a b lo hi ->
    skipn n b = skipn n a.
  Proof.
    intros H0 L S.
    destruct (Z_le_gt_dec (Z.of_nat n) (len a)) as [Le|Gt].
    - apply get_ext.
      + rewrite !len_skipn by lia. lia.
      + intros i Hi. rewrite !get_skipn by lia. apply S. lia.
    - rewrite !skipn_all2 by (unfold len in *; lia). reflexivity.
  Qed.

  Lemma skipn_length_app a b : skipn (length a) (a ++ b) = b.
  Proof. induction a as [|h t IH]; [reflexivity | exact IH]. Qed.

  Lemma firstn_length_app a b : firstn (length a) (a ++ b) = a.
  Proof. induction a as [|h t IH]; [reflexivity | simpl; f_equal; exact IH]. Qed.

  Lemma slice_app_mid a b c : slice (a ++ b ++ c) (len a) (length b) = b.
  Proof.
    unfold slice, len. rewrite Nat2Z.id, skipn_length_app. apply firstn_length_app.
  Qed.

  Lemma slice_slice a lo cnt i k :
    0 <= lo -> lo + Z.of_nat cnt <= len a -> 0 <= i -> i + Z.of_nat k <= Z.of_nat cnt ->
    slice (slice a lo cnt) i k = slice a (lo + i) k.
  Proof.
    intros H0 H Hi Hk. apply get_ext.
    - rewrite !len_slice; try lia. rewrite len_slice by lia. lia.
    - intros j Hj. rewrite len_slice in Hj by (try rewrite len_slice by lia; lia).
      rewrite !get_slice by lia. f_equal. lia.
  Qed.

  (** ** item 6: the copy loops *)
  Lemma copy_range_spec : forall cnt (dst src : list T) i,
    0 <= i -> i + Z.of_nat cnt <= len src -> i + Z.of_nat cnt <= len dst ->
    exists d', copy_range cnt dst src i = Ok d' /\ len d' = len dst /\
      (forall k, i <= k < i + Z.of_nat cnt -> get d' k = get src k) /\
      (forall k, k < i \/ i + Z.of_nat cnt <= k -> get d' k = get dst k).
  Proof.
    induction cnt as [|c IH]; intros dst src i H0 Hs Hd.
    - exists dst. cbn [copy_range]. repeat split; auto. intros k Hk. lia.
    - cbn [copy_range].
      destruct (get_in_range src i ltac:(lia)) as [x Hx]. rewrite Hx. cbn [bind].
      pose proof (set_Ok dst i x ltac:(lia)) as Hset. rewrite Hset. cbn [bind].
      pose proof (set_len _ _ _ _ Hset) as L1.
      destruct (IH (upd dst (Z.to_nat i) x) src (i + 1)) as (d' & Hd' & L & Hin & Hout); try lia.
      exists d'. split; [exact Hd'|]. split; [lia|]. split.
      + intros k Hk. destruct (Z.eq_dec k i) as [->|N].
        * rewrite Hout by lia. rewrite (get_set_eq _ _ _ _ Hset). symmetry. exact Hx.
        * apply Hin. lia.
      + intros k Hk. rewrite Hout by lia. apply (get_set_neq _ _ _ _ _ Hset). lia.
  Qed.

  (** generalised loop lemma with a running index [i] *)
  Lemma copy_back_loop : forall cnt a (aux : list T) lo i,
    lo <= i -> 0 <= i -> i + Z.of_nat cnt <= len a -> i - lo + Z.of_nat cnt <= len aux ->
    exists a', copy_back cnt a aux lo i = Ok a' /\ len a' = len a /\
      (forall k, i <= k < i + Z.of_nat cnt -> get a' k = get aux (k - lo)) /\
      (forall k, k < i \/ i + Z.of_nat cnt <= k -> get a' k = get a k).
  Proof.
    induction cnt as [|c IH]; intros a aux lo i Hlo H0 Ha Hx.
    - exists a. cbn [copy_back]. repeat split; auto. intros k Hk. lia.
    - cbn [copy_back].
      destruct (get_in_range aux (i - lo) ltac:(lia)) as [x Gx]. rewrite Gx. cbn [bind].
      pose proof (set_Ok a i x ltac:(lia)) as Hset. rewrite Hset. cbn [bind].
      pose proof (set_len _ _ _ _ Hset) as L1.
      destruct (IH (upd a (Z.to_nat i) x) aux lo (i + 1)) as (a' & Ha' & L & Hin & Hout); try lia.
      exists a'. split; [exact Ha'|]. split; [lia|]. split.
      + intros k Hk. destruct (Z.eq_dec k i) as [->|N].
        * rewrite Hout by lia. rewrite (get_set_eq _ _ _ _ Hset). symmetry. exact Gx.
        * apply Hin. lia.
      + intros k Hk. rewrite Hout by lia. apply (get_set_neq _ _ _ _ _ Hset). lia.
  Qed.

  Lemma copy_back_spec cnt a (aux : list T) lo :
    0 <= lo -> lo + Z.of_nat cnt <= len a -> Z.of_nat cnt <= len aux ->
    exists a', copy_back cnt a aux lo lo = Ok a' /\ len a' = len a /\
      slice a' lo cnt = firstn cnt aux /\
      same_outside a a' lo (lo + Z.of_nat cnt - 1).
  Proof.
    intros H0 Ha Hx.
    destruct (copy_back_loop cnt a aux lo lo) as (a' & Ha' & L & Hin & Hout); try lia.
    exists a'. split; [exact Ha'|]. split; [exact L|]. split.
    - apply get_ext.
      + rewrite len_slice by lia. rewrite len_firstn by lia. reflexivity.
      + intros k Hk. rewrite len_slice in Hk by lia.
        rewrite get_slice by lia. rewrite get_firstn by lia.
        rewrite Hin by lia. f_equal. lia.
    - intros k Hk. apply Hout. lia.
  Qed.
End ListGet.

(** * item 5: the index loops are the list loops on the slice *)
Section Idx.
  Context {K : Type}.
  Variable digit : K -> res Z.
  Variable off : Z.

  Lemma count_freq_idx_slice : forall cnt a lo count,
    0 <= lo -> lo + Z.of_nat cnt <= len a ->
    count_freq_idx digit off cnt a lo count = count_freq digit off (slice a lo cnt) count.
  Proof.
    induction cnt as [|c IH]; intros a lo count H0 H.
    - reflexivity.
    - destruct (get_in_range a lo ltac:(lia)) as [s Hs].
      rewrite (slice_S a lo c s H0 Hs). cbn [count_freq_idx count_freq]. rewrite Hs. cbn [bind].
      destruct (digit s) as [d| |]; cbn [bind]; try reflexivity.
      destruct (get count (d + off + 1)) as [x| |]; cbn [bind]; try reflexivity.
      destruct (set count (d + off + 1) (x + 1)) as [c'| |]; cbn [bind]; try reflexivity.
      apply IH; lia.
  Qed.

  Lemma distribute_idx_slice : forall cnt a lo count (aux : list K),
    0 <= lo -> lo + Z.of_nat cnt <= len a ->
    distribute_idx digit off cnt a lo count aux = distribute digit off (slice a lo cnt) count aux.
  Proof.
    induction cnt as [|c IH]; intros a lo count aux H0 H.
    - reflexivity.
    - destruct (get_in_range a lo ltac:(lia)) as [s Hs].
      rewrite (slice_S a lo c s H0 Hs). cbn [distribute_idx distribute]. rewrite Hs. cbn [bind].
      destruct (digit s) as [d| |]; cbn [bind]; try reflexivity.
      destruct (get count (d + off)) as [p| |]; cbn [bind]; try reflexivity.
      destruct (set aux p s) as [aux'| |]; cbn [bind]; try reflexivity.
      destruct (set count (d + off) (p + 1)) as [c'| |]; cbn [bind]; try reflexivity.
      apply IH; lia.
  Qed.
End Idx.

(** * generic facts on [StronglySorted] *)
Section SSorted.
  Context {A : Type}.

  Lemma SS_app (R : A -> A -> Prop) l1 l2 :
    StronglySorted R l1 -> StronglySorted R l2 ->
    (forall x y, In x l1 -> In y l2 -> R x y) -> StronglySorted R (l1 ++ l2).
  Proof.
    intros S1 S2 H. induction S1 as [|h t St IH F]; [exact S2|].
    simpl. constructor.
    - apply IH. intros x y Hx Hy. apply H; [right; exact Hx | exact Hy].
    - apply Forall_app. split; [exact F|].
      apply Forall_forall. intros y Hy. apply H; [left; reflexivity | exact Hy].
  Qed.

  Lemma SS_app_inv (R : A -> A -> Prop) l1 l2 :
    StronglySorted R (l1 ++ l2) ->
    StronglySorted R l1 /\ StronglySorted R l2 /\ (forall x y, In x l1 -> In y l2 -> R x y).
  Proof.
    induction l1 as [|h t IH]; simpl; intros S.
    - split; [constructor|]. split; [exact S|]. intros x y [].
    - inversion S as [|? ? St F]; subst. destruct (IH St) as (S1 & S2 & H).
      apply Forall_app in F. destruct F as [F1 F2]. split; [constructor; assumption|].
      split; [exact S2|]. intros x y [->|Hx] Hy.
      + rewrite Forall_forall in F2. apply F2. exact Hy.
      + apply H; assumption.
  Qed.

  Lemma SS_impl_In (R R' : A -> A -> Prop) l :
    StronglySorted R l -> (forall x y, In x l -> In y l -> R x y -> R' x y) -> StronglySorted R' l.
  Proof.
    intros S. induction S as [|h t St IH F]; intros H; [constructor|].
    constructor.
    - apply IH. intros x y Hx Hy. apply H; right; assumption.
    - rewrite Forall_forall in *. intros y Hy. apply H; [left; reflexivity | right; exact Hy | apply F; exact Hy].
  Qed.

  Lemma SS_filter (R : A -> A -> Prop) (f : A -> bool) l :
    StronglySorted R l -> StronglySorted R (filter f l).
  Proof.
    intros S. induction S as [|h t St IH F]; [constructor|].
    simpl. destruct (f h); [|exact IH]. constructor; [exact IH|].
    rewrite Forall_forall in *. intros y Hy. apply filter_In in Hy. apply F. tauto.
  Qed.

  Lemma SS_irrefl_NoDup (R : A -> A -> Prop) l :
    (forall x, ~ R x x) -> StronglySorted R l -> NoDup l.
  Proof.
    intros Irr S. induction S as [|h t St IH F]; constructor; [|exact IH].
    intros Hin. rewrite Forall_forall in F. apply (Irr h). apply F. exact Hin.
  Qed.
End SSorted.

(** * bucket orders: [iota], [rot_order], [before] *)
Definition iota (lo : Z) (n : nat) : list Z := map (fun i => lo + Z.of_nat i) (seq 0 n).

(** signed top byte: digits 0x80-0xFF come before 0x00-0x7F *)
Definition rot_order : list Z := iota 128 128 ++ iota 0 128.

(** [c] occurs strictly before [c'] in [order] *)
Definition before (order : list Z) (c c' : Z) : Prop :=
  exists l1 l2 l3, order = l1 ++ c :: l2 ++ c' :: l3.

Lemma iota_0 lo : iota lo 0 = [].
Proof. reflexivity. Qed.

Lemma iota_S lo n : iota lo (S n) = lo :: iota (lo + 1) n.
Proof.
  unfold iota. cbn [seq map]. f_equal; [lia|].
  rewrite <- seq_shift, map_map. apply map_ext. intros i. lia.
Qed.

Lemma In_iota lo n c : In c (iota lo n) <-> lo <= c < lo + Z.of_nat n.
Proof.
  unfold iota. rewrite in_map_iff. split.
  - intros (x & <- & Hx). apply in_seq in Hx. lia.
  - intros H. exists (Z.to_nat (c - lo)). split; [lia|]. apply in_seq. lia.
Qed.

Lemma length_iota lo n : length (iota lo n) = n.
Proof. unfold iota. rewrite map_length, seq_length. reflexivity. Qed.

Lemma iota_app : forall n m lo, iota lo (n + m) = iota lo n ++ iota (lo + Z.of_nat n) m.
Proof.
  induction n as [|n IH]; intros m lo.
  - change (0 + m)%nat with m. rewrite iota_0. cbn [app]. f_equal. lia.
  - replace (S n + m)%nat with (S (n + m)) by lia. rewrite !iota_S, IH. simpl. f_equal. f_equal. f_equal. lia.
Qed.

Lemma iota_sorted : forall n lo, StronglySorted Z.lt (iota lo n).
Proof.
  induction n as [|n IH]; intros lo; [constructor|].
  rewrite iota_S. constructor; [apply IH|].
  apply Forall_forall. intros x Hx. apply In_iota in Hx. lia.
Qed.

Lemma NoDup_iota lo n : NoDup (iota lo n).
Proof. apply (SS_irrefl_NoDup Z.lt); [intros x; lia | apply iota_sorted]. Qed.

Lemma before_In order c c' : before order c c' -> In c order /\ In c' order.
Proof.
  intros (l1 & l2 & l3 & ->). split.
  - apply in_or_app. right. left. reflexivity.
  - apply in_or_app. right. right. apply in_or_app. right. left. reflexivity.
Qed.

Lemma before_cons a order c c' : before order c c' -> before (a :: order) c c'.
Proof. intros (l1 & l2 & l3 & ->). exists (a :: l1), l2, l3. reflexivity. Qed.

Lemma before_head order c c' : In c' order -> before (c :: order) c c'.
Proof. intros H. apply in_split in H. destruct H as (l2 & l3 & ->). exists [], l2, l3. reflexivity. Qed.

(** an order that is strictly increasing for a rank function [f] is characterised by [f] *)
Lemma before_rank_lt (f : Z -> Z) order c c' :
  StronglySorted (fun a b => f a < f b) order -> before order c c' -> f c < f c'.
Proof.
  intros S (l1 & l2 & l3 & ->).
  apply SS_app_inv in S. destruct S as (_ & S & _).
  inversion S as [|? ? _ F]; subst. rewrite Forall_forall in F. apply F.
  apply in_or_app. right. left. reflexivity.
Qed.

Lemma rank_lt_before (f : Z -> Z) order c c' :
  StronglySorted (fun a b => f a < f b) order -> In c order -> In c' order -> f c < f c' ->
  before order c c'.
Proof.
  intros S Hc Hc' Hlt. apply in_split in Hc. destruct Hc as (l1 & r & ->).
  apply SS_app_inv in S. destruct S as (_ & S & Hx).
  apply in_app_or in Hc'. destruct Hc' as [H1|[->|H2]].
  - specialize (Hx c' c H1 ltac:(left; reflexivity)). simpl in Hx. lia.
  - lia.
  - apply in_split in H2. destruct H2 as (l2 & l3 & ->). exists l1, l2, l3. reflexivity.
Qed.

Lemma before_rank (f : Z -> Z) order c c' :
  StronglySorted (fun a b => f a < f b) order -> In c order -> In c' order ->
  (before order c c' <-> f c < f c').
Proof.
  intros S Hc Hc'. split; [apply before_rank_lt; exact S | apply rank_lt_before; assumption].
Qed.

Lemma before_iota lo n c c' : before (iota lo n) c c' <-> lo <= c < c' /\ c' < lo + Z.of_nat n.
Proof.
  split.
  - intros B. pose proof (before_In _ _ _ B) as [H1 H2]. apply In_iota in H1. apply In_iota in H2.
    pose proof (before_rank_lt (fun x => x) _ _ _ (iota_sorted n lo) B) as Hlt. cbv beta in Hlt. lia.
  - intros H. apply (rank_lt_before (fun x => x)); [apply iota_sorted | apply In_iota; lia | apply In_iota; lia | lia].
Qed.

Definition rot_rank (c : Z) : Z := (c + 128) mod 256.

Lemma In_rot_order c : In c rot_order <-> 0 <= c < 256.
Proof.
  unfold rot_order. rewrite in_app_iff, !In_iota. lia.
Qed.

Lemma rot_rank_hi c : 128 <= c < 256 -> rot_rank c = c - 128.
Proof. intros H. unfold rot_rank. symmetry. apply (Z.mod_unique_pos _ _ 1). lia. lia. Qed.

Lemma rot_rank_lo c : 0 <= c < 128 -> rot_rank c = c + 128.
Proof. intros H. unfold rot_rank. apply Z.mod_small. lia. Qed.

Lemma rot_order_sorted : StronglySorted (fun a b => rot_rank a < rot_rank b) rot_order.
Proof.
  unfold rot_order. apply SS_app.
  - apply (SS_impl_In Z.lt); [apply iota_sorted|].
    intros x y Hx Hy L. apply In_iota in Hx. apply In_iota in Hy. rewrite !rot_rank_hi by lia. lia.
  - apply (SS_impl_In Z.lt); [apply iota_sorted|].
    intros x y Hx Hy L. apply In_iota in Hx. apply In_iota in Hy. rewrite !rot_rank_lo by lia. lia.
  - intros x y Hx Hy. apply In_iota in Hx. apply In_iota in Hy.
    rewrite rot_rank_hi, rot_rank_lo by lia. lia.
Qed.

Lemma NoDup_rot_order : NoDup rot_order.
Proof.
  apply (SS_irrefl_NoDup (fun a b => rot_rank a < rot_rank b)); [intros x; lia | apply rot_order_sorted].
Qed.

Lemma before_rot_order c c' :
  0 <= c < 256 -> 0 <= c' < 256 ->
  (before rot_order c c' <-> (c + 128) mod 256 < (c' + 128) mod 256).
Proof.
  intros H H'. apply (before_rank rot_rank); [apply rot_order_sorted | apply In_rot_order; lia | apply In_rot_order; lia].
Qed.

(** * prefix sums: the [cumulate] loop *)
Lemma cumulate_gen (f g : Z -> Z) :
  (forall j, g (j + 1) = f (j + 1) + g j) ->
  forall cnt count r, 0 <= r -> r + Z.of_nat cnt < len count ->
    (forall j, 0 <= j <= r -> get count j = Ok (g j)) ->
    (forall j, r < j < len count -> get count j = Ok (f j)) ->
    exists c2, cumulate cnt count r = Ok c2 /\ len c2 = len count /\
      (forall j, 0 <= j <= r + Z.of_nat cnt -> get c2 j = Ok (g j)) /\
      (forall j, r + Z.of_nat cnt < j < len count -> get c2 j = Ok (f j)).
Proof.
  intros Hfg. induction cnt as [|c IH]; intros count r H0 Hr Hg Hf.
  - exists count. cbn [cumulate]. split; [reflexivity|]. split; [reflexivity|].
    split; intros j Hj; [apply Hg | apply Hf]; lia.
  - cbn [cumulate]. rewrite (Hf (r + 1)) by lia. cbn [bind]. rewrite (Hg r) by lia. cbn [bind].
    pose proof (set_Ok count (r + 1) (f (r + 1) + g r) ltac:(lia)) as Hset. rewrite Hset. cbn [bind].
    pose proof (set_len _ _ _ _ Hset) as L1.
    destruct (IH (upd count (Z.to_nat (r + 1)) (f (r + 1) + g r)) (r + 1)) as (c2 & Hc2 & L2 & G2 & F2); try lia.
    + intros j Hj. destruct (Z.eq_dec j (r + 1)) as [->|N].
      * rewrite (get_set_eq _ _ _ _ Hset). rewrite Hfg. reflexivity.
      * rewrite (get_set_neq _ _ _ _ _ Hset) by lia. apply Hg. lia.
    + intros j Hj. rewrite (get_set_neq _ _ _ _ _ Hset) by lia. apply Hf. lia.
    + exists c2. split; [exact Hc2|]. split; [lia|]. split.
      * intros j Hj. apply G2. lia.
      * intros j Hj. apply F2. lia.
Qed.

(** [for r := r0; r < r0+cnt; r++ { count[r] += delta }] *)
Lemma add_range_spec delta : forall cnt count r,
  0 <= r -> r + Z.of_nat cnt <= len count ->
  exists c', add_range cnt count r delta = Ok c' /\ len c' = len count /\
    forall k x, get count k = Ok x ->
      get c' k = Ok (if (r <=? k) && (k <? r + Z.of_nat cnt) then x + delta else x).
Proof.
  induction cnt as [|c IH]; intros count r H0 Hr.
  - exists count. cbn [add_range]. split; [reflexivity|]. split; [reflexivity|].
    intros k x G. rewrite G. f_equal.
    destruct (r <=? k) eqn:E1; destruct (k <? r + Z.of_nat 0) eqn:E2; cbn [andb]; try reflexivity.
    apply Z.leb_le in E1. apply Z.ltb_lt in E2. lia.
  - cbn [add_range]. destruct (get_in_range count r ltac:(lia)) as [x0 G0]. rewrite G0. cbn [bind].
    pose proof (set_Ok count r (x0 + delta) ltac:(lia)) as Hset. rewrite Hset. cbn [bind].
    pose proof (set_len _ _ _ _ Hset) as L1.
    destruct (IH (upd count (Z.to_nat r) (x0 + delta)) (r + 1)) as (c' & Hc' & L' & G'); try lia.
    exists c'. split; [exact Hc'|]. split; [lia|].
    intros k x G. destruct (Z.eq_dec k r) as [->|N].
    + assert (x = x0) by congruence. subst x.
      rewrite (G' r (x0 + delta)) by (apply (get_set_eq _ _ _ _ Hset)). f_equal.
      replace (r + 1 <=? r) with false by (symmetry; apply Z.leb_gt; lia).
      replace (r <=? r) with true by (symmetry; apply Z.leb_le; lia).
      replace (r <? r + Z.of_nat (S c)) with true by (symmetry; apply Z.ltb_lt; lia).
      reflexivity.
    + rewrite (G' k x) by (rewrite (get_set_neq _ _ _ _ _ Hset) by lia; exact G). f_equal.
      destruct (r + 1 <=? k) eqn:E1; destruct (r <=? k) eqn:E2;
        destruct (k <? r + 1 + Z.of_nat c) eqn:E3; destruct (k <? r + Z.of_nat (S c)) eqn:E4;
        cbn [andb]; try reflexivity; exfalso;
        rewrite ?Z.leb_le, ?Z.leb_gt, ?Z.ltb_lt, ?Z.ltb_ge in *; lia.
Qed.

(** * key-indexed counting *)
Section Count.
  Context {K : Type}.
  Variable digit : K -> res Z.      (* the model's digit function, may Panic *)
  Variable dgf : K -> Z.            (* its total version *)
  Variable off M : Z.               (* count has M+1 entries; valid digits c satisfy 0 <= c + off < M *)

  Definition bucket (c : Z) (l : list K) : list K := filter (fun s => dgf s =? c) l.
  Definition bucket_cat (order : list Z) (l : list K) : list K := flat_map (fun c => bucket c l) order.
  Definition cnt_eq (c : Z) (l : list K) : Z := Z.of_nat (length (bucket c l)).
  Definition cnt_lt (c : Z) (l : list K) : Z := Z.of_nat (length (filter (fun s => dgf s <? c) l)).
  Definition digits_ok (l : list K) : Prop :=
    forall s, In s l -> digit s = Ok (dgf s) /\ 0 <= dgf s + off < M.

  (** ** elementary facts *)
  Lemma bucket_nil c : bucket c [] = [].
  Proof. reflexivity. Qed.

  Lemma bucket_cons c s l : bucket c (s :: l) = if dgf s =? c then s :: bucket c l else bucket c l.
  Proof. reflexivity. Qed.

  Lemma bucket_app c l1 l2 : bucket c (l1 ++ l2) = bucket c l1 ++ bucket c l2.
  Proof. apply filter_app. Qed.

  Lemma In_bucket c l x : In x (bucket c l) <-> In x l /\ dgf x = c.
  Proof. unfold bucket. rewrite filter_In, Z.eqb_eq. reflexivity. Qed.

  Lemma cnt_eq_len c l : cnt_eq c l = len (bucket c l).
  Proof. reflexivity. Qed.

  Lemma cnt_eq_nil c : cnt_eq c [] = 0.
  Proof. reflexivity. Qed.

  Lemma cnt_lt_nil c : cnt_lt c [] = 0.
  Proof. reflexivity. Qed.

  Lemma cnt_eq_cons c s l : cnt_eq c (s :: l) = (if dgf s =? c then 1 else 0) + cnt_eq c l.
  Proof. unfold cnt_eq. rewrite bucket_cons. destruct (dgf s =? c); cbn [length]; lia. Qed.

  Lemma cnt_lt_cons c s l : cnt_lt c (s :: l) = (if dgf s <? c then 1 else 0) + cnt_lt c l.
  Proof. unfold cnt_lt. cbn [filter]. destruct (dgf s <? c); cbn [length]; lia. Qed.

  Lemma cnt_eq_app c l1 l2 : cnt_eq c (l1 ++ l2) = cnt_eq c l1 + cnt_eq c l2.
  Proof. unfold cnt_eq. rewrite bucket_app, app_length. lia. Qed.

  Lemma cnt_lt_app c l1 l2 : cnt_lt c (l1 ++ l2) = cnt_lt c l1 + cnt_lt c l2.
  Proof. unfold cnt_lt. rewrite filter_app, app_length. lia. Qed.

  Lemma cnt_eq_nonneg c l : 0 <= cnt_eq c l.
  Proof. unfold cnt_eq. lia. Qed.

  Lemma cnt_lt_nonneg c l : 0 <= cnt_lt c l.
  Proof. unfold cnt_lt. lia. Qed.

  Lemma cnt_lt_succ c l : cnt_lt (c + 1) l = cnt_lt c l + cnt_eq c l.
  Proof.
    induction l as [|s l IH]; [reflexivity|].
    rewrite !cnt_lt_cons, cnt_eq_cons, IH.
    destruct (dgf s <? c + 1) eqn:E1; destruct (dgf s <? c) eqn:E2; destruct (dgf s =? c) eqn:E3;
      rewrite ?Z.ltb_lt, ?Z.ltb_ge, ?Z.eqb_eq, ?Z.eqb_neq in *; lia.
  Qed.

  Lemma cnt_lt_le_len c l : cnt_lt c l <= Z.of_nat (length l).
  Proof.
    induction l as [|s l IH]; [reflexivity|].
    rewrite cnt_lt_cons. cbn [length]. destruct (dgf s <? c); lia.
  Qed.

  Lemma cnt_lt_mono c c' l : c <= c' -> cnt_lt c l <= cnt_lt c' l.
  Proof.
    intros H. induction l as [|s l IH]; [reflexivity|].
    rewrite !cnt_lt_cons.
    destruct (dgf s <? c) eqn:E1; destruct (dgf s <? c') eqn:E2;
      rewrite ?Z.ltb_lt, ?Z.ltb_ge in *; lia.
  Qed.

  Lemma cnt_eq_out c l : (forall s, In s l -> dgf s <> c) -> cnt_eq c l = 0.
  Proof.
    induction l as [|s l IH]; intros H; [reflexivity|].
    rewrite cnt_eq_cons, IH by (intros x Hx; apply H; right; exact Hx).
    pose proof (H s ltac:(left; reflexivity)) as N. apply Z.eqb_neq in N. rewrite N. reflexivity.
  Qed.

  Lemma cnt_lt_low c l : (forall s, In s l -> c <= dgf s) -> cnt_lt c l = 0.
  Proof.
    induction l as [|s l IH]; intros H; [reflexivity|].
    rewrite cnt_lt_cons, IH by (intros x Hx; apply H; right; exact Hx).
    pose proof (H s ltac:(left; reflexivity)) as N. apply Z.ltb_ge in N. rewrite N. reflexivity.
  Qed.

  Lemma cnt_lt_high c l : (forall s, In s l -> dgf s < c) -> cnt_lt c l = Z.of_nat (length l).
  Proof.
    induction l as [|s l IH]; intros H; [reflexivity|].
    rewrite cnt_lt_cons, IH by (intros x Hx; apply H; right; exact Hx).
    pose proof (H s ltac:(left; reflexivity)) as N. apply Z.ltb_lt in N. rewrite N. cbn [length]. lia.
  Qed.

  Lemma digits_ok_nil : digits_ok [].
  Proof. intros s []. Qed.

  Lemma digits_ok_cons_inv s l :
    digits_ok (s :: l) -> (digit s = Ok (dgf s) /\ 0 <= dgf s + off < M) /\ digits_ok l.
  Proof.
    intros D. split; [apply D; left; reflexivity|]. intros x Hx. apply D. right. exact Hx.
  Qed.

  Lemma digits_ok_app l1 l2 : digits_ok (l1 ++ l2) <-> digits_ok l1 /\ digits_ok l2.
  Proof.
    unfold digits_ok. split.
    - intros D. split; intros s Hs; apply D; apply in_or_app; [left | right]; exact Hs.
    - intros [D1 D2] s Hs. apply in_app_or in Hs. destruct Hs; [apply D1 | apply D2]; assumption.
  Qed.

  Lemma digits_ok_perm l l' : Permutation l l' -> digits_ok l -> digits_ok l'.
  Proof. intros P D s Hs. apply D. eapply Permutation_in; [apply Permutation_sym; exact P | exact Hs]. Qed.

  (** under [digits_ok] nothing lies below bucket [-off] or at/above bucket [M - off] *)
  Lemma cnt_lt_bot l c : digits_ok l -> c <= - off -> cnt_lt c l = 0.
  Proof. intros D H. apply cnt_lt_low. intros s Hs. destruct (D s Hs) as [_ R]. lia. Qed.

  Lemma cnt_lt_top l c : digits_ok l -> M - off <= c -> cnt_lt c l = Z.of_nat (length l).
  Proof. intros D H. apply cnt_lt_high. intros s Hs. destruct (D s Hs) as [_ R]. lia. Qed.

  Lemma cnt_eq_below l c : digits_ok l -> c < - off -> cnt_eq c l = 0.
  Proof. intros D H. apply cnt_eq_out. intros s Hs. destruct (D s Hs) as [_ R]. lia. Qed.

  Lemma cnt_eq_above l c : digits_ok l -> M - off <= c -> cnt_eq c l = 0.
  Proof. intros D H. apply cnt_eq_out. intros s Hs. destruct (D s Hs) as [_ R]. lia. Qed.

  (** ** item 1: the frequency loop *)
  Lemma count_freq_gen : forall l count,
    digits_ok l -> len count = M + 1 ->
    exists c1, count_freq digit off l count = Ok c1 /\ len c1 = M + 1 /\
      forall r x, get count r = Ok x -> get c1 r = Ok (x + cnt_eq (r - off - 1) l).
  Proof.
    induction l as [|s l IH]; intros count D L.
    - exists count. cbn [count_freq]. split; [reflexivity|]. split; [exact L|].
      intros r x G. rewrite G, cnt_eq_nil. f_equal. lia.
    - apply digits_ok_cons_inv in D. destruct D as [[Ds Rs] D].
      cbn [count_freq]. rewrite Ds. cbn [bind].
      destruct (get_in_range count (dgf s + off + 1) ltac:(lia)) as [x Gx]. rewrite Gx. cbn [bind].
      pose proof (set_Ok count (dgf s + off + 1) (x + 1) ltac:(lia)) as Hset. rewrite Hset. cbn [bind].
      destruct (IH (upd count (Z.to_nat (dgf s + off + 1)) (x + 1)) D) as (c1 & Hc1 & L1 & Hget).
      { rewrite len_upd. exact L. }
      exists c1. split; [exact Hc1|]. split; [exact L1|].
      intros r y Gy. rewrite cnt_eq_cons.
      destruct (Z.eq_dec r (dgf s + off + 1)) as [->|N].
      + assert (y = x) by congruence. subst y.
        rewrite (Hget _ (x + 1)) by (apply (get_set_eq _ _ _ _ Hset)). f_equal.
        replace (dgf s =? dgf s + off + 1 - off - 1) with true by (symmetry; apply Z.eqb_eq; lia). lia.
      + rewrite (Hget r y) by (rewrite (get_set_neq _ _ _ _ _ Hset) by lia; exact Gy). f_equal.
        replace (dgf s =? r - off - 1) with false by (symmetry; apply Z.eqb_neq; lia). lia.
  Qed.

  Lemma count_freq_spec l :
    0 <= off -> 0 <= M -> digits_ok l ->
    exists c1, count_freq digit off l (repeat 0 (Z.to_nat (M + 1))) = Ok c1 /\ len c1 = M + 1 /\
      forall r, 0 <= r <= M -> get c1 r = Ok (cnt_eq (r - off - 1) l).
  Proof.
    intros _ HM D.
    destruct (count_freq_gen l (repeat 0 (Z.to_nat (M + 1))) D) as (c1 & Hc1 & L1 & Hget).
    { rewrite len_repeat. lia. }
    exists c1. split; [exact Hc1|]. split; [exact L1|].
    intros r Hr. rewrite (Hget r 0) by (apply get_repeat; lia). f_equal.
  Qed.

  (** ** item 2: the cumulative counts *)
  Lemma cumulate_spec l c1 :
    0 <= M -> digits_ok l -> len c1 = M + 1 ->
    (forall r, 0 <= r <= M -> get c1 r = Ok (cnt_eq (r - off - 1) l)) ->
    exists c2, cumulate (Z.to_nat M) c1 0 = Ok c2 /\ len c2 = M + 1 /\
      forall r, 0 <= r <= M -> get c2 r = Ok (cnt_lt (r - off) l).
  Proof.
    intros HM D L H1.
    destruct (cumulate_gen (fun j => cnt_eq (j - off - 1) l) (fun j => cnt_lt (j - off) l)) with
      (cnt := Z.to_nat M) (count := c1) (r := 0) as (c2 & Hc2 & L2 & G2 & _).
    - intros j. cbv beta. replace (j + 1 - off - 1) with (j - off) by lia.
      replace (j + 1 - off) with (j - off + 1) by lia. rewrite cnt_lt_succ. lia.
    - lia.
    - lia.
    - intros j Hj. assert (j = 0) by lia. subst j. rewrite H1 by lia. f_equal.
      rewrite cnt_eq_below, cnt_lt_bot by (try exact D; lia). reflexivity.
    - intros j Hj. apply H1. lia.
    - exists c2. split; [exact Hc2|]. split; [lia|]. intros r Hr. apply G2. lia.
  Qed.

  (** ** item 8: [bucket_cat] is a stable sort by bucket position *)
  Lemma bucket_cat_nil_r order : bucket_cat order [] = [].
  Proof. induction order as [|c o IH]; [reflexivity|]. exact IH. Qed.

  Lemma bucket_cat_cons_l c o l : bucket_cat (c :: o) l = bucket c l ++ bucket_cat o l.
  Proof. reflexivity. Qed.

  Lemma bucket_cat_app o1 o2 l : bucket_cat (o1 ++ o2) l = bucket_cat o1 l ++ bucket_cat o2 l.
  Proof. apply flat_map_app. Qed.

  Lemma In_bucket_cat order l x : In x (bucket_cat order l) <-> In x l /\ In (dgf x) order.
  Proof.
    unfold bucket_cat. rewrite in_flat_map. split.
    - intros (c & Hc & Hx). apply In_bucket in Hx. destruct Hx as [Hx <-]. split; assumption.
    - intros [Hx Hc]. exists (dgf x). split; [exact Hc|]. apply In_bucket. split; [exact Hx | reflexivity].
  Qed.

  Lemma bucket_cat_cons_notin o s l : ~ In (dgf s) o -> bucket_cat o (s :: l) = bucket_cat o l.
  Proof.
    induction o as [|c o IH]; intros H; [reflexivity|].
    rewrite !bucket_cat_cons_l, bucket_cons, IH by (intros X; apply H; right; exact X).
    replace (dgf s =? c) with false; [reflexivity|].
    symmetry. apply Z.eqb_neq. intros E. apply H. left. symmetry. exact E.
  Qed.

  Lemma bucket_cat_cons_in o1 o2 s l :
    ~ In (dgf s) o1 -> ~ In (dgf s) o2 ->
    bucket_cat (o1 ++ dgf s :: o2) (s :: l) =
    bucket_cat o1 l ++ s :: bucket (dgf s) l ++ bucket_cat o2 l.
  Proof.
    intros H1 H2. rewrite bucket_cat_app, bucket_cat_cons_l, bucket_cons, Z.eqb_refl.
    rewrite !bucket_cat_cons_notin by assumption. reflexivity.
  Qed.

  Lemma bucket_cat_perm order l :
    NoDup order -> (forall s, In s l -> In (dgf s) order) -> Permutation l (bucket_cat order l).
  Proof.
    intros ND. induction l as [|s l IH]; intros H.
    - rewrite bucket_cat_nil_r. constructor.
    - destruct (in_split _ _ (H s ltac:(left; reflexivity))) as (o1 & o2 & E). subst order.
      pose proof (NoDup_remove_2 _ _ _ ND) as N.
      rewrite bucket_cat_cons_in by (intros X; apply N; apply in_or_app; ((left; exact X) || (right; exact X))).
      apply Permutation_cons_app.
      specialize (IH ltac:(intros x Hx; apply H; right; exact Hx)).
      rewrite bucket_cat_app, bucket_cat_cons_l in IH. exact IH.
  Qed.

  Lemma bucket_cat_length order l :
    NoDup order -> (forall s, In s l -> In (dgf s) order) -> length (bucket_cat order l) = length l.
  Proof. intros ND H. symmetry. apply Permutation_length. apply bucket_cat_perm; assumption. Qed.

  Lemma bucket_cat_sorted_gen (Rk : K -> K -> Prop) order l :
    StronglySorted Rk l ->
    StronglySorted (fun x y => before order (dgf x) (dgf y) \/ (dgf x = dgf y /\ Rk x y))
                   (bucket_cat order l).
  Proof.
    intros S. induction order as [|c o IH]; [constructor|].
    rewrite bucket_cat_cons_l. apply SS_app.
    - apply (SS_impl_In Rk); [apply SS_filter; exact S|].
      intros x y Hx Hy R. apply In_bucket in Hx. apply In_bucket in Hy. right. split; [|exact R].
      destruct Hx as [_ ->]. destruct Hy as [_ ->]. reflexivity.
    - eapply SS_impl_In; [exact IH|]. cbv beta. intros x y _ _ [B|E]; [left; apply before_cons; exact B | right; exact E].
    - intros x y Hx Hy. apply In_bucket in Hx. destruct Hx as [_ <-].
      apply In_bucket_cat in Hy. destruct Hy as [_ Hy]. left. apply before_head. exact Hy.
  Qed.

  Lemma bucket_cat_sorted (Rk : K -> K -> Prop) order l :
    NoDup order -> StronglySorted Rk l ->
    StronglySorted (fun x y => before order (dgf x) (dgf y) \/ (dgf x = dgf y /\ Rk x y))
                   (bucket_cat order l).
  Proof. intros _. apply bucket_cat_sorted_gen. Qed.
  (** ** item 3: the distribution loop for an arbitrary bucket layout *)

  (** position of the first cell of bucket [c] when buckets are laid out in the order [order]
      (for [c] not in [order]: the total length of the layout) *)
  Fixpoint start (order : list Z) (c : Z) (l : list K) : Z :=
    match order with
    | [] => 0
    | c' :: o => if c' =? c then 0 else cnt_eq c' l + start o c l
    end.

  Lemma start_nonneg order c l : 0 <= start order c l.
  Proof.
    induction order as [|a o IH]; cbn [start]; [lia|].
    destruct (a =? c); [lia|]. pose proof (cnt_eq_nonneg a l). lia.
  Qed.

  Lemma start_notin order c l : ~ In c order -> start order c l = len (bucket_cat order l).
  Proof.
    induction order as [|a o IH]; intros H; [reflexivity|].
    cbn [start]. replace (a =? c) with false by (symmetry; apply Z.eqb_neq; intros E; apply H; left; exact E).
    rewrite bucket_cat_cons_l, len_app, IH by (intros X; apply H; right; exact X). reflexivity.
  Qed.

  Lemma start_app_in o1 o2 c l : In c o1 -> start (o1 ++ o2) c l = start o1 c l.
  Proof.
    induction o1 as [|a o IH]; intros H; [destruct H|].
    cbn [app start]. destruct (a =? c) eqn:E; [reflexivity|].
    apply Z.eqb_neq in E. destruct H as [H|H]; [contradiction|]. rewrite IH by exact H. reflexivity.
  Qed.

  Lemma start_app_notin o1 o2 c l : ~ In c o1 -> start (o1 ++ o2) c l = start o1 c l + start o2 c l.
  Proof.
    induction o1 as [|a o IH]; intros H; [reflexivity|].
    cbn [app start]. replace (a =? c) with false by (symmetry; apply Z.eqb_neq; intros E; apply H; left; exact E).
    rewrite IH by (intros X; apply H; right; exact X). lia.
  Qed.

  (** the contract's reading of [start]: the length of the layout of the buckets before [c] *)
  Lemma start_split o1 o2 c l : ~ In c o1 -> start (o1 ++ c :: o2) c l = len (bucket_cat o1 l).
  Proof.
    intros H. rewrite start_app_notin by exact H. cbn [start]. rewrite Z.eqb_refl.
    rewrite start_notin by exact H. lia.
  Qed.

  Lemma start_end_le order c l : In c order -> start order c l + cnt_eq c l <= len (bucket_cat order l).
  Proof.
    induction order as [|a o IH]; intros H; [destruct H|].
    cbn [start]. rewrite bucket_cat_cons_l, len_app, <- cnt_eq_len.
    pose proof (len_nonneg (bucket_cat o l)).
    destruct (a =? c) eqn:E.
    - apply Z.eqb_eq in E. subst a. lia.
    - apply Z.eqb_neq in E. destruct H as [H|H]; [contradiction|]. specialize (IH H). lia.
  Qed.

  Lemma start_disjoint order c c' l :
    In c order -> In c' order -> c <> c' ->
    start order c l + cnt_eq c l <= start order c' l \/ start order c' l + cnt_eq c' l <= start order c l.
  Proof.
    induction order as [|a o IH]; intros H H' N; [destruct H|].
    cbn [start].
    destruct (a =? c) eqn:E; destruct (a =? c') eqn:E'; rewrite ?Z.eqb_eq, ?Z.eqb_neq in *.
    - lia.
    - subst a. pose proof (start_nonneg o c' l). left. lia.
    - subst a. pose proof (start_nonneg o c l). right. lia.
    - destruct H as [H|H]; [contradiction|]. destruct H' as [H'|H']; [contradiction|].
      destruct (IH H H' N); [left | right]; lia.
  Qed.

  (** every cell of the layout belongs to exactly one bucket's range *)
  Lemma bucket_cat_get order l i :
    NoDup order -> 0 <= i < len (bucket_cat order l) ->
    exists c k, In c order /\ 0 <= k < cnt_eq c l /\ i = start order c l + k /\
                get (bucket_cat order l) i = get (bucket c l) k.
  Proof.
    intros ND. revert i. induction order as [|a o IH]; intros i Hi.
    - cbn in Hi. lia.
    - inversion ND as [|? ? Na ND']; subst.
      rewrite bucket_cat_cons_l in *. rewrite len_app in Hi.
      destruct (Z_lt_ge_dec i (len (bucket a l))) as [Lt|Ge].
      + exists a, i. split; [left; reflexivity|]. split; [rewrite cnt_eq_len; lia|].
        split; [cbn [start]; rewrite Z.eqb_refl; lia|]. apply get_app_l. exact Lt.
      + destruct (IH ND' (i - len (bucket a l)) ltac:(lia)) as (c & k & Hc & Hk & Ei & G).
        exists c, k. split; [right; exact Hc|]. split; [exact Hk|]. split.
        * cbn [start]. replace (a =? c) with false by (symmetry; apply Z.eqb_neq; intros E; subst; contradiction).
          rewrite cnt_eq_len. lia.
        * rewrite get_app_r by lia. exact G.
  Qed.

  (** the loop for arbitrary, pairwise disjoint target ranges [p c .. p c + cnt_eq c l - 1] *)
  Lemma distribute_gen (order : list Z) : forall l (p : Z -> Z) count aux,
    digits_ok l -> (forall s, In s l -> In (dgf s) order) ->
    (forall c, In c order -> get count (c + off) = Ok (p c)) ->
    (forall c, In c order -> 0 <= p c /\ p c + cnt_eq c l <= len aux) ->
    (forall c c', In c order -> In c' order -> c <> c' ->
       p c + cnt_eq c l <= p c' \/ p c' + cnt_eq c' l <= p c) ->
    exists count' aux', distribute digit off l count aux = Ok (count', aux') /\
      len aux' = len aux /\ len count' = len count /\
      (forall c, In c order -> get count' (c + off) = Ok (p c + cnt_eq c l)) /\
      (forall r, (forall c, In c order -> r <> c + off) -> get count' r = get count r) /\
      (forall c k, In c order -> 0 <= k < cnt_eq c l -> get aux' (p c + k) = get (bucket c l) k) /\
      (forall i, (forall c, In c order -> ~ (p c <= i < p c + cnt_eq c l)) -> get aux' i = get aux i).
  Proof.
    induction l as [|s l IH]; intros p count aux D Hin Hcount Hrange Hdisj.
    - exists count, aux. cbn [distribute]. split; [reflexivity|]. split; [reflexivity|]. split; [reflexivity|].
      split; [|split; [|split]].
      + intros c Hc. rewrite cnt_eq_nil, Z.add_0_r. apply Hcount. exact Hc.
      + reflexivity.
      + intros c k _ Hk. rewrite cnt_eq_nil in Hk. lia.
      + reflexivity.
    - apply digits_ok_cons_inv in D. destruct D as [[Ds Rs] D].
      set (c0 := dgf s) in *.
      assert (In c0 order) as Hc0 by (apply Hin; left; reflexivity).
      assert (forall c, cnt_eq c (s :: l) = (if c0 =? c then 1 else 0) + cnt_eq c l) as Hcons
        by (intros c; apply cnt_eq_cons).
      pose proof (Hrange c0 Hc0) as R0. rewrite Hcons, Z.eqb_refl in R0.
      pose proof (cnt_eq_nonneg c0 l) as N0.
      cbn [distribute]. rewrite Ds. cbn [bind]. rewrite (Hcount c0 Hc0). cbn [bind].
      pose proof (set_Ok aux (p c0) s ltac:(lia)) as Hsa. rewrite Hsa. cbn [bind].
      pose proof (get_Ok_range _ _ _ (Hcount c0 Hc0)) as Rc.
      pose proof (set_Ok count (c0 + off) (p c0 + 1) Rc) as Hsc. rewrite Hsc. cbn [bind].
      set (aux1 := upd aux (Z.to_nat (p c0)) s) in *.
      set (count1 := upd count (Z.to_nat (c0 + off)) (p c0 + 1)) in *.
      pose proof (set_len _ _ _ _ Hsa) as La. pose proof (set_len _ _ _ _ Hsc) as Lc.
      set (p' := fun c => if c0 =? c then p c + 1 else p c).
      destruct (IH p' count1 aux1 D) as (count' & aux' & Hd & La' & Lc' & Hc' & Hr' & Ha' & Ho').
      { intros x Hx. apply Hin. right. exact Hx. }
      { intros c Hc. unfold p'. destruct (c0 =? c) eqn:E.
        - apply Z.eqb_eq in E. subst c. apply (get_set_eq _ _ _ _ Hsc).
        - apply Z.eqb_neq in E. rewrite (get_set_neq _ _ _ _ _ Hsc) by lia. apply Hcount. exact Hc. }
      { intros c Hc. pose proof (Hrange c Hc) as Rg. rewrite Hcons in Rg. unfold p'.
        rewrite La. destruct (c0 =? c); lia. }
      { intros c c' Hc Hc2 N. pose proof (Hdisj c c' Hc Hc2 N) as Dj. rewrite !Hcons in Dj. unfold p'.
        destruct (c0 =? c) eqn:E; destruct (c0 =? c') eqn:E2; rewrite ?Z.eqb_eq, ?Z.eqb_neq in *; lia. }
      exists count', aux'. split; [exact Hd|]. split; [lia|]. split; [lia|].
      split; [|split; [|split]].
      + intros c Hc. rewrite (Hc' c Hc), Hcons. unfold p'. f_equal. destruct (c0 =? c); lia.
      + intros r Hr. rewrite (Hr' r Hr). apply (get_set_neq _ _ _ _ _ Hsc).
        intros E. apply (Hr c0 Hc0). symmetry. exact E.
      + intros c k Hc Hk. rewrite Hcons in Hk. rewrite bucket_cons. fold c0.
        destruct (c0 =? c) eqn:E.
        * apply Z.eqb_eq in E. subst c.
          destruct (Z.eq_dec k 0) as [->|Nk].
          -- rewrite Z.add_0_r, get_cons_0. rewrite Ho'.
             ++ apply (get_set_eq _ _ _ _ Hsa).
             ++ intros c Hc2. unfold p'. destruct (c0 =? c) eqn:E2; [apply Z.eqb_eq in E2; subst c; lia|].
                apply Z.eqb_neq in E2. pose proof (Hdisj c0 c Hc0 Hc2 E2) as Dj. rewrite !Hcons in Dj.
                rewrite Z.eqb_refl in Dj. apply Z.eqb_neq in E2. rewrite E2 in Dj. lia.
          -- replace k with ((k - 1) + 1) at 2 by lia. rewrite get_cons_S by lia.
             rewrite <- (Ha' c0 (k - 1) Hc0) by lia. unfold p'. rewrite Z.eqb_refl. f_equal. lia.
        * rewrite <- (Ha' c k Hc) by lia. unfold p'. rewrite E. reflexivity.
      + intros i Hi. rewrite Ho'.
        * apply (get_set_neq _ _ _ _ _ Hsa). intros E. apply (Hi c0 Hc0). rewrite Hcons, Z.eqb_refl. lia.
        * intros c Hc Hr. apply (Hi c Hc). rewrite Hcons. unfold p' in Hr. destruct (c0 =? c); lia.
  Qed.

  Lemma distribute_spec order l count (aux : list K) :
    NoDup order -> (forall s, In s l -> In (dgf s) order) ->
    len count = M + 1 ->
    (forall c, In c order -> 0 <= c + off < M /\ get count (c + off) = Ok (start order c l)) ->
    digits_ok l -> Z.of_nat (length l) <= len aux ->
    exists count' aux', distribute digit off l count aux = Ok (count', aux') /\
      firstn (length l) aux' = bucket_cat order l /\
      skipn (length l) aux' = skipn (length l) aux /\
      len aux' = len aux /\ len count' = len count /\
      (forall c, In c order -> get count' (c + off) = Ok (start order c l + cnt_eq c l)) /\
      (forall r, (forall c, In c order -> r <> c + off) -> get count' r = get count r).
  Proof.
    intros ND Hin _ Hcount D Hlen.
    assert (len (bucket_cat order l) = Z.of_nat (length l)) as Ltot
      by (unfold len; rewrite bucket_cat_length by assumption; reflexivity).
    destruct (distribute_gen order l (fun c => start order c l) count aux D Hin)
      as (count' & aux' & Hd & La & Lc & Hc' & Hr' & Ha' & Ho').
    { intros c Hc. apply Hcount. exact Hc. }
    { intros c Hc. cbv beta. pose proof (start_nonneg order c l). pose proof (start_end_le order c l Hc). lia. }
    { intros c c' Hc Hc2 N. cbv beta. apply start_disjoint; assumption. }
    cbv beta in *.
    exists count', aux'. split; [exact Hd|]. split; [|split; [|split; [exact La|split; [exact Lc|split; [exact Hc'|exact Hr']]]]].
    - apply get_ext.
      + rewrite len_firstn by lia. lia.
      + intros i Hi. rewrite len_firstn in Hi by lia. rewrite get_firstn by lia.
        destruct (bucket_cat_get order l i ND ltac:(lia)) as (c & k & Hc & Hk & -> & G).
        rewrite G. apply Ha'; assumption.
    - apply get_ext.
      + rewrite !len_skipn by lia. lia.
      + intros i Hi. rewrite !get_skipn by lia. apply Ho'.
        intros c Hc. pose proof (start_end_le order c l Hc). lia.
  Qed.
  (** ** item 4(a): the plain layout [-off, -off+1, ..., M-off-1] *)
  Lemma start_iota_in : forall n lo c l,
    lo <= c < lo + Z.of_nat n -> start (iota lo n) c l = cnt_lt c l - cnt_lt lo l.
  Proof.
    induction n as [|n IH]; intros lo c l H; [lia|].
    rewrite iota_S. cbn [start]. destruct (lo =? c) eqn:E.
    - apply Z.eqb_eq in E. subst c. lia.
    - apply Z.eqb_neq in E. rewrite IH by lia. rewrite cnt_lt_succ. lia.
  Qed.

  Lemma start_iota_out : forall n lo c l,
    ~ (lo <= c < lo + Z.of_nat n) -> start (iota lo n) c l = cnt_lt (lo + Z.of_nat n) l - cnt_lt lo l.
  Proof.
    induction n as [|n IH]; intros lo c l H.
    - rewrite iota_0. cbn [start]. replace (lo + Z.of_nat 0) with lo by lia. lia.
    - rewrite iota_S. cbn [start].
      replace (lo =? c) with false by (symmetry; apply Z.eqb_neq; lia).
      rewrite IH by lia. rewrite cnt_lt_succ.
      replace (lo + 1 + Z.of_nat n) with (lo + Z.of_nat (S n)) by lia. lia.
  Qed.

  Lemma distribute_plain l c2 (aux : list K) :
    0 <= off -> 0 <= M -> digits_ok l -> len c2 = M + 1 ->
    (forall r, 0 <= r <= M -> get c2 r = Ok (cnt_lt (r - off) l)) ->
    Z.of_nat (length l) <= len aux ->
    exists count' aux', distribute digit off l c2 aux = Ok (count', aux') /\
      firstn (length l) aux' = bucket_cat (iota (- off) (Z.to_nat M)) l /\
      skipn (length l) aux' = skipn (length l) aux /\
      len aux' = len aux /\ len count' = M + 1 /\
      (forall r, 0 <= r < M -> get count' r = Ok (cnt_lt (r + 1 - off) l)) /\
      get count' M = Ok (Z.of_nat (length l)).
  Proof.
    intros _ HM D L H2 Hlen.
    destruct (distribute_spec (iota (- off) (Z.to_nat M)) l c2 aux)
      as (count' & aux' & Hd & Hf & Hs & La & Lc & Hc' & Hr'); try assumption.
    - apply NoDup_iota.
    - intros s Hs. apply In_iota. destruct (D s Hs). lia.
    - intros c Hc. apply In_iota in Hc. split; [lia|]. rewrite H2 by lia. f_equal.
      rewrite start_iota_in by lia. rewrite (cnt_lt_bot l (- off)) by (assumption || lia).
      replace (c + off - off) with c by lia. lia.
    - exists count', aux'. split; [exact Hd|]. split; [exact Hf|]. split; [exact Hs|].
      split; [exact La|]. split; [lia|]. split.
      + intros r Hr. replace r with ((r - off) + off) at 1 by lia.
        rewrite Hc' by (apply In_iota; lia). f_equal.
        rewrite start_iota_in by lia. rewrite (cnt_lt_bot l (- off)) by (assumption || lia).
        replace (r + 1 - off) with (r - off + 1) by lia. rewrite cnt_lt_succ. lia.
      + rewrite Hr'.
        * rewrite H2 by lia. f_equal. apply cnt_lt_top; [exact D | lia].
        * intros c Hc. apply In_iota in Hc. lia.
  Qed.

  (** ** item 4(b): the rotated layout, closed forms of its bucket starts *)
  Lemma start_rot_hi c l : 128 <= c < 256 -> start rot_order c l = cnt_lt c l - cnt_lt 128 l.
  Proof.
    intros H. unfold rot_order. rewrite start_app_in by (apply In_iota; lia).
    apply start_iota_in. lia.
  Qed.

  Lemma start_rot_lo c l :
    0 <= c < 128 -> start rot_order c l = cnt_lt 256 l - cnt_lt 128 l + (cnt_lt c l - cnt_lt 0 l).
  Proof.
    intros H. unfold rot_order. rewrite start_app_notin by (rewrite In_iota; lia).
    rewrite start_iota_out by lia. rewrite start_iota_in by lia.
    change (128 + Z.of_nat 128) with 256. reflexivity.
  Qed.
  (** ** the cells of bucket [c] in the layout *)
  Lemma bucket_cat_bucket_slice order c l :
    NoDup order -> In c order ->
    slice (bucket_cat order l) (start order c l) (length (bucket c l)) = bucket c l.
  Proof.
    intros ND Hc. apply in_split in Hc. destruct Hc as (o1 & o2 & ->).
    pose proof (NoDup_remove_2 _ _ _ ND) as N.
    rewrite start_split by (intros X; apply N; apply in_or_app; left; exact X).
    rewrite bucket_cat_app, bucket_cat_cons_l. apply slice_app_mid.
  Qed.

  (** ** the whole counting pass on the sub-range [a[lo .. lo+cnt-1]], plain layout
      (msdString with [off = 1], [M = R + 1]; msdUint and msdInt below the top byte with
      [off = 0], [M = R]) *)
  Lemma msd_pass_plain cnt a lo (aux : list K) :
    0 <= off -> 0 <= M -> 0 <= lo -> lo + Z.of_nat cnt <= len a -> Z.of_nat cnt <= len aux ->
    digits_ok (slice a lo cnt) ->
    exists c1 c2 count' aux' a',
      count_freq_idx digit off cnt a lo (repeat 0 (Z.to_nat (M + 1))) = Ok c1 /\
      cumulate (Z.to_nat M) c1 0 = Ok c2 /\
      distribute_idx digit off cnt a lo c2 aux = Ok (count', aux') /\
      copy_back cnt a aux' lo lo = Ok a' /\
      len a' = len a /\ len aux' = len aux /\
      slice a' lo cnt = bucket_cat (iota (- off) (Z.to_nat M)) (slice a lo cnt) /\
      same_outside a a' lo (lo + Z.of_nat cnt - 1) /\
      len count' = M + 1 /\
      (forall r, 0 <= r < M -> get count' r = Ok (cnt_lt (r + 1 - off) (slice a lo cnt))) /\
      get count' M = Ok (Z.of_nat cnt).
  Proof.
    intros Hoff HM H0 Ha Hx D.
    pose proof (length_slice a lo cnt H0 Ha) as Ll.
    destruct (count_freq_spec (slice a lo cnt) Hoff HM D) as (c1 & H1 & L1 & G1).
    destruct (cumulate_spec (slice a lo cnt) c1 HM D L1 G1) as (c2 & H2 & L2 & G2).
    destruct (distribute_plain (slice a lo cnt) c2 aux Hoff HM D L2 G2)
      as (count' & aux' & Hd & Hf & _ & Lx & Lc & Gc & GM); [lia|].
    destruct (copy_back_spec cnt a aux' lo H0 Ha ltac:(lia)) as (a' & Hcb & La' & Hsl & Hso).
    exists c1, c2, count', aux', a'.
    rewrite count_freq_idx_slice, distribute_idx_slice by assumption.
    rewrite Ll in *.
    split; [exact H1|]. split; [exact H2|]. split; [exact Hd|]. split; [exact Hcb|].
    split; [exact La'|]. split; [exact Lx|]. split; [rewrite Hsl; exact Hf|].
    split; [exact Hso|]. split; [exact Lc|]. split; [exact Gc | exact GM].
  Qed.
End Count.

(** * the signed-top-byte rotation ([off = 0], [M = 256]) and the whole LSD pass *)
Ltac bool_lia :=
  repeat match goal with
         | |- context [?a <=? ?b] => destruct (Z.leb_spec a b)
         | |- context [?a <? ?b] => destruct (Z.ltb_spec a b)
         end; cbn [andb]; try lia.

Section Rotate.
  Context {K : Type}.
  Variable digit : K -> res Z.
  Variable dgf : K -> Z.

  (** closed forms under [digits_ok] *)
  Lemma start_rot_hi_ok c l :
    digits_ok digit dgf 0 256 l -> 128 <= c < 256 ->
    start dgf rot_order c l = cnt_lt dgf c l - cnt_lt dgf 128 l.
  Proof. intros _. apply start_rot_hi. Qed.

  Lemma start_rot_lo_ok c l :
    digits_ok digit dgf 0 256 l -> 0 <= c < 128 ->
    start dgf rot_order c l = Z.of_nat (length l) - cnt_lt dgf 128 l + cnt_lt dgf c l.
  Proof.
    intros D H. rewrite start_rot_lo by exact H.
    rewrite (cnt_lt_top digit dgf 0 256 l 256 D) by lia.
    rewrite (cnt_lt_bot digit dgf 0 256 l 0 D) by lia. lia.
  Qed.

  (** the two [add_range] loops shared by [lsd_rotate] and [msd_rotate] *)
  Lemma rotate_loops l count :
    digits_ok digit dgf 0 256 l -> len count = 257 ->
    (forall r, 0 <= r < 256 -> get count r = Ok (cnt_lt dgf r l)) ->
    exists c3,
      (count1 <- add_range (Z.to_nat 128) count 0 (Z.of_nat (length l) - cnt_lt dgf 128 l) ;;
       add_range (Z.to_nat (256 - 128)) count1 128 (- cnt_lt dgf 128 l)) = Ok c3 /\
      len c3 = 257 /\
      (forall c, 0 <= c < 256 -> get c3 c = Ok (start dgf rot_order c l)) /\
      get c3 256 = get count 256.
  Proof.
    intros D L H.
    destruct (add_range_spec (Z.of_nat (length l) - cnt_lt dgf 128 l) (Z.to_nat 128) count 0)
      as (c' & Hc' & L' & G'); try lia.
    rewrite Hc'. cbn [bind].
    destruct (add_range_spec (- cnt_lt dgf 128 l) (Z.to_nat (256 - 128)) c' 128)
      as (c3 & Hc3 & L3 & G3); try lia.
    exists c3. split; [exact Hc3|]. split; [lia|]. split.
    - intros c Hc. rewrite (G3 c _ (G' c _ (H c Hc))). f_equal.
      destruct (Z_lt_ge_dec c 128) as [Lt|Ge].
      + rewrite (start_rot_lo_ok c l D) by lia. bool_lia.
      + rewrite (start_rot_hi_ok c l D) by lia. bool_lia.
    - destruct (get_in_range count 256 ltac:(lia)) as [x Gx]. rewrite Gx.
      rewrite (G3 256 _ (G' 256 _ Gx)). f_equal; bool_lia.
  Qed.

  Lemma lsd_rotate_spec l c2 :
    digits_ok digit dgf 0 256 l -> len c2 = 256 + 1 ->
    (forall r, 0 <= r <= 256 -> get c2 r = Ok (cnt_lt dgf (r - 0) l)) ->
    exists c3, lsd_rotate c2 = Ok c3 /\ len c3 = 257 /\
      (forall c, 0 <= c < 256 -> get c3 c = Ok (start dgf rot_order c l)) /\
      get c3 256 = Ok (Z.of_nat (length l)).
  Proof.
    intros D L H.
    assert (forall r, 0 <= r <= 256 -> get c2 r = Ok (cnt_lt dgf r l)) as H'
      by (intros r Hr; rewrite (H r Hr), Z.sub_0_r; reflexivity).
    unfold lsd_rotate. change (Z.quot R 2) with 128. change R with 256.
    rewrite (H' 256) by lia. cbn [bind]. rewrite (H' 128) by lia. cbn [bind].
    rewrite (cnt_lt_top digit dgf 0 256 l 256 D) by lia.
    destruct (rotate_loops l c2 D) as (c3 & Hc3 & L3 & G3 & G256); [lia | intros r Hr; apply H'; lia |].
    exists c3. split; [exact Hc3|]. split; [exact L3|]. split; [exact G3|].
    rewrite G256, (H' 256) by lia. f_equal. apply (cnt_lt_top digit dgf 0 256 l 256 D). lia.
  Qed.

  (** Go: [count[R] = shift1 + count[1]]: the end of bucket 0 in the rotated layout *)
  Lemma msd_rotate_spec l c2 :
    digits_ok digit dgf 0 256 l -> len c2 = 256 + 1 ->
    (forall r, 0 <= r <= 256 -> get c2 r = Ok (cnt_lt dgf (r - 0) l)) ->
    exists c3, msd_rotate c2 = Ok c3 /\ len c3 = 257 /\
      (forall c, 0 <= c < 256 -> get c3 c = Ok (start dgf rot_order c l)) /\
      get c3 256 = Ok (Z.of_nat (length l) - cnt_lt dgf 128 l + cnt_eq dgf 0 l).
  Proof.
    intros D L H.
    assert (forall r, 0 <= r <= 256 -> get c2 r = Ok (cnt_lt dgf r l)) as H'
      by (intros r Hr; rewrite (H r Hr), Z.sub_0_r; reflexivity).
    unfold msd_rotate. change (Z.quot R 2) with 128. change R with 256.
    rewrite (H' 256) by lia. cbn [bind]. rewrite (H' 128) by lia. cbn [bind].
    rewrite (H' 1) by lia. cbn [bind].
    rewrite (cnt_lt_top digit dgf 0 256 l 256 D) by lia.
    set (v := Z.of_nat (length l) - cnt_lt dgf 128 l + cnt_lt dgf 1 l).
    pose proof (set_Ok c2 256 v ltac:(lia)) as Hset. rewrite Hset. cbn [bind].
    destruct (rotate_loops l (upd c2 (Z.to_nat 256) v) D) as (c3 & Hc3 & L3 & G3 & G256).
    { rewrite len_upd. lia. }
    { intros r Hr. rewrite (get_set_neq _ _ _ _ _ Hset) by lia. apply H'. lia. }
    exists c3. split; [exact Hc3|]. split; [exact L3|]. split; [exact G3|].
    rewrite G256, (get_set_eq _ _ _ _ Hset). f_equal. unfold v.
    change 1 with (0 + 1) at 1. rewrite cnt_lt_succ.
    rewrite (cnt_lt_bot digit dgf 0 256 l 0 D) by lia. lia.
  Qed.

  Lemma distribute_rot l c3 (aux : list K) :
    digits_ok digit dgf 0 256 l -> len c3 = 257 ->
    (forall c, 0 <= c < 256 -> get c3 c = Ok (start dgf rot_order c l)) ->
    Z.of_nat (length l) <= len aux ->
    exists count' aux', distribute digit 0 l c3 aux = Ok (count', aux') /\
      firstn (length l) aux' = bucket_cat dgf rot_order l /\
      skipn (length l) aux' = skipn (length l) aux /\
      len aux' = len aux /\ len count' = 257 /\
      (forall c, 0 <= c < 256 -> get count' c = Ok (start dgf rot_order c l + cnt_eq dgf c l)) /\
      get count' 256 = get c3 256.
  Proof.
    intros D L H Hlen.
    destruct (distribute_spec digit dgf 0 256 rot_order l c3 aux)
      as (count' & aux' & Hd & Hf & Hs & La & Lc & Hc' & Hr'); try assumption.
    - apply NoDup_rot_order.
    - intros s Hs. apply In_rot_order. destruct (D s Hs). lia.
    - intros c Hc. apply In_rot_order in Hc. rewrite Z.add_0_r. split; [lia|]. apply H. exact Hc.
    - exists count', aux'. split; [exact Hd|]. split; [exact Hf|]. split; [exact Hs|].
      split; [exact La|]. split; [lia|]. split.
      + intros c Hc. rewrite <- (Z.add_0_r c) at 1. apply Hc'. apply In_rot_order. exact Hc.
      + apply Hr'. intros c Hc. apply In_rot_order in Hc. lia.
  Qed.

  (** ** item 7: one LSD pass is [bucket_cat] *)
  Lemma lsd_pass_spec (rotate : bool) l (aux : list K) :
    digits_ok digit dgf 0 256 l -> length aux = length l ->
    exists aux', lsd_pass digit rotate l aux =
                   Ok (bucket_cat dgf (if rotate then rot_order else iota 0 256) l, aux') /\
                 length aux' = length l.
  Proof.
    intros D Hlen.
    assert (len aux = Z.of_nat (length l)) as Hlen' by (unfold len; rewrite Hlen; reflexivity).
    unfold lsd_pass. change R with 256.
    destruct (count_freq_spec digit dgf 0 256 l) as (c1 & H1 & L1 & G1); [lia | lia | exact D |].
    rewrite H1. cbn [bind].
    destruct (cumulate_spec digit dgf 0 256 l c1) as (c2 & H2 & L2 & G2); [lia | exact D | exact L1 | exact G1 |].
    rewrite H2. cbn [bind].
    assert (exists count3 count' aux1,
              (if rotate then lsd_rotate c2 else Ok c2) = Ok count3 /\
              distribute digit 0 l count3 aux = Ok (count', aux1) /\
              firstn (length l) aux1 = bucket_cat dgf (if rotate then rot_order else iota 0 256) l /\
              len aux1 = len aux) as (count3 & count' & aux1 & H3 & Hd & Hf & La).
    { destruct rotate.
      - destruct (lsd_rotate_spec l c2 D L2 G2) as (c3 & H3 & L3 & G3 & _).
        destruct (distribute_rot l c3 aux D L3 G3) as (count' & aux1 & Hd & Hf & _ & La & _); [lia|].
        exists c3, count', aux1. tauto.
      - destruct (distribute_plain digit dgf 0 256 l c2 aux) as (count' & aux1 & Hd & Hf & _ & La & _);
          try assumption; try lia.
        exists c2, count', aux1. split; [reflexivity|]. split; [exact Hd|]. split; [exact Hf | exact La]. }
    rewrite H3. cbn [bind]. rewrite Hd. cbn [bind].
    destruct (copy_range_spec (length l) l aux1 0) as (a' & Hcp & La' & Hin & _); try (unfold len in *; lia).
    rewrite Hcp. cbn [bind]. exists aux1. split; [|unfold len in *; lia].
    f_equal. f_equal. rewrite <- Hf. apply get_ext.
    - rewrite len_firstn by lia. exact La'.
    - intros k Hk. rewrite get_firstn by (unfold len in *; lia). apply Hin. unfold len in *. lia.
  Qed.
  (** ** the counting pass of msdInt on the top byte (rotated layout) *)
  Lemma msd_pass_rot cnt a lo (aux : list K) :
    0 <= lo -> lo + Z.of_nat cnt <= len a -> Z.of_nat cnt <= len aux ->
    digits_ok digit dgf 0 256 (slice a lo cnt) ->
    exists c1 c2 c3 count' aux' a',
      count_freq_idx digit 0 cnt a lo (repeat 0 (Z.to_nat (256 + 1))) = Ok c1 /\
      cumulate (Z.to_nat 256) c1 0 = Ok c2 /\
      msd_rotate c2 = Ok c3 /\
      distribute_idx digit 0 cnt a lo c3 aux = Ok (count', aux') /\
      copy_back cnt a aux' lo lo = Ok a' /\
      len a' = len a /\ len aux' = len aux /\
      slice a' lo cnt = bucket_cat dgf rot_order (slice a lo cnt) /\
      same_outside a a' lo (lo + Z.of_nat cnt - 1) /\
      len count' = 257 /\
      (forall c, 0 <= c < 256 ->
         get count' c = Ok (start dgf rot_order c (slice a lo cnt) + cnt_eq dgf c (slice a lo cnt))) /\
      get count' 256 = Ok (Z.of_nat cnt - cnt_lt dgf 128 (slice a lo cnt) + cnt_eq dgf 0 (slice a lo cnt)).
  Proof.
    intros H0 Ha Hx D.
    pose proof (length_slice a lo cnt H0 Ha) as Ll.
    destruct (count_freq_spec digit dgf 0 256 (slice a lo cnt)) as (c1 & H1 & L1 & G1); [lia | lia | exact D |].
    destruct (cumulate_spec digit dgf 0 256 (slice a lo cnt) c1) as (c2 & H2 & L2 & G2);
      [lia | exact D | exact L1 | exact G1 |].
    destruct (msd_rotate_spec (slice a lo cnt) c2 D L2 G2) as (c3 & H3 & L3 & G3 & G256).
    destruct (distribute_rot (slice a lo cnt) c3 aux D L3 G3)
      as (count' & aux' & Hd & Hf & _ & Lx & Lc & Gc & GM); [lia|].
    destruct (copy_back_spec cnt a aux' lo H0 Ha ltac:(lia)) as (a' & Hcb & La' & Hsl & Hso).
    exists c1, c2, c3, count', aux', a'.
    rewrite count_freq_idx_slice, distribute_idx_slice by assumption.
    rewrite Ll in *.
    split; [exact H1|]. split; [exact H2|]. split; [exact H3|]. split; [exact Hd|]. split; [exact Hcb|].
    split; [exact La'|]. split; [exact Lx|]. split; [rewrite Hsl; exact Hf|].
    split; [exact Hso|]. split; [exact Lc|]. split; [exact Gc|]. rewrite GM. exact G256.
  Qed.
End Rotate.
