(** C07 — LSD radix sorts (lsd.go): LSDUint, LSDInt, LSDString are correct.
    The classical argument: every pass is a stable sort by one digit, stability composes. *)
From Algo.C07 Require Import ArrLemmas.
From Algo.C07 Require Import ProofsCount IntKeys StrOrder.
Open Scope Z_scope.

(* ------------------------------------------------------------------ *)
(** * generic facts *)

Lemma SS_all : forall (A : Type) (R : A -> A -> Prop) (l : list A),
  (forall x y, In x l -> In y l -> R x y) -> StronglySorted R l.
Proof.
  intros A R l. induction l as [|h l IH]; intros H.
  - constructor.
  - constructor.
    + apply IH. intros x y Hx Hy. apply H; right; assumption.
    + apply Forall_forall. intros y Hy. apply H; [left; reflexivity | right; exact Hy].
Qed.

Lemma Forall_perm : forall (A : Type) (P : A -> Prop) (l l' : list A),
  Permutation l l' -> Forall P l -> Forall P l'.
Proof.
  intros A P l l' HP HF. rewrite Forall_forall in *.
  intros x Hx. apply HF. apply (Permutation_in x (Permutation_sym HP)). exact Hx.
Qed.

(** one pass of key-indexed counting = a stable sort by the digit [dgf] *)
Lemma lsd_pass_step : forall (K : Type) (digit : K -> res Z) (dgf : K -> Z) (rotate : bool)
    (Rk R' : K -> K -> Prop) (a aux : list K),
  (forall s, In s a -> digit s = Ok (dgf s) /\ 0 <= dgf s < 256) ->
  length aux = length a ->
  StronglySorted Rk a ->
  (forall x y, In x a -> In y a ->
     before (if rotate then rot_order else iota 0 256) (dgf x) (dgf y) \/
       (dgf x = dgf y /\ Rk x y) -> R' x y) ->
  exists a' aux', lsd_pass digit rotate a aux = Ok (a', aux') /\
                  length aux' = length a' /\ Permutation a a' /\ StronglySorted R' a'.
Proof.
  intros K digit dgf rotate Rk R' a aux Hdig Hlen Hss Himp.
  assert (Hok : digits_ok digit dgf 0 256 a).
  { intros s Hs. destruct (Hdig s Hs) as [H1 H2]. split; [exact H1 | lia]. }
  destruct (lsd_pass_spec digit dgf rotate a aux Hok Hlen) as (aux' & Hrun & Hlen').
  set (order := if rotate then rot_order else iota 0 256) in *.
  assert (Hnd : NoDup order).
  { unfold order. destruct rotate; [apply NoDup_rot_order | apply NoDup_iota]. }
  assert (Hin : forall s, In s a -> In (dgf s) order).
  { intros s Hs. destruct (Hdig s Hs) as [_ Hr]. unfold order. destruct rotate.
    - apply In_rot_order. exact Hr.
    - apply In_iota. lia. }
  pose proof (bucket_cat_perm dgf order a Hnd Hin) as Hperm.
  exists (bucket_cat dgf order a), aux'.
  split; [exact Hrun |].
  split; [rewrite Hlen'; apply Permutation_length; exact Hperm |].
  split; [exact Hperm |].
  pose proof (bucket_cat_sorted dgf Rk order a Hnd Hss) as Hsorted.
  apply (SS_impl_In _ R' _ Hsorted).
  intros x y Hx Hy Hxy.
  apply Himp.
  - apply (Permutation_in x (Permutation_sym Hperm)). exact Hx.
  - apply (Permutation_in y (Permutation_sym Hperm)). exact Hy.
  - exact Hxy.
Qed.

(* ------------------------------------------------------------------ *)
(** * integers *)

(** the order reached before pass [d]: by the [d] low bytes; after the last (rotated) pass of the
    signed sort: by the biased key *)
Definition int_rel (signed : bool) (d : Z) (x y : Z) : Prop :=
  if signed && (d =? 8) then low 8 (skey x) <= low 8 (skey y) else low d x <= low d y.

Lemma int_rel_lt8 : forall signed d x y, d < 8 -> (int_rel signed d x y <-> low d x <= low d y).
Proof.
  intros signed d x y Hd. unfold int_rel.
  assert (E : (d =? 8) = false) by (apply Z.eqb_neq; lia).
  rewrite E, andb_false_r. reflexivity.
Qed.

Lemma int_rel_step : forall signed d x y, 0 <= d < 8 ->
  before (if signed && (d =? 7) then rot_order else iota 0 256) (dg d x) (dg d y) \/
    (dg d x = dg d y /\ low d x <= low d y) ->
  int_rel signed (d + 1) x y.
Proof.
  intros signed d x y Hd H.
  pose proof (dg_range d x) as Hrx. pose proof (dg_range d y) as Hry.
  destruct (signed && (d =? 7)) eqn:Eb.
  - apply andb_true_iff in Eb. destruct Eb as [Es E7].
    apply Z.eqb_eq in E7. subst d. subst signed.
    unfold int_rel. change (7 + 1 =? 8) with true. cbn [andb].
    change 8 with (7 + 1).
    apply (low_le_lex 7 (skey x) (skey y)); [lia |].
    rewrite !skey_dg7, !skey_low7.
    destruct H as [Hb | [He Hl]].
    + left. apply before_rot_order in Hb; [exact Hb | exact Hrx | exact Hry].
    + right. split; [rewrite He; reflexivity | exact Hl].
  - assert (Ef : signed && (d + 1 =? 8) = false).
    { rewrite <- Eb. f_equal.
      destruct (Z.eqb_spec (d + 1) 8) as [E1|E1]; destruct (Z.eqb_spec d 7) as [E2|E2];
        try reflexivity; lia. }
    unfold int_rel. rewrite Ef.
    apply (low_le_lex d x y); [lia |].
    destruct H as [Hb | [He Hl]].
    + left. apply before_iota in Hb. lia.
    + right. split; assumption.
Qed.

(** the loop invariant, stated with [int_rel] so that the last pass of the signed sort fits *)
Lemma lsd_int_passes_spec : forall (signed : bool) (cnt : nat) (a aux : list Z) (d : Z),
  0 <= d -> d + Z.of_nat cnt = 8 ->
  length aux = length a ->
  StronglySorted (int_rel signed d) a ->
  exists a' aux', lsd_int_passes signed cnt a aux d = Ok (a', aux') /\
                  Permutation a a' /\ StronglySorted (int_rel signed 8) a'.
Proof.
  intros signed cnt. induction cnt as [|c IH]; intros a aux d Hd Hcnt Hlen Hss.
  - exists a, aux. cbn [lsd_int_passes].
    split; [reflexivity |]. split; [apply Permutation_refl |].
    assert (E : d = 8) by lia. subst d. exact Hss.
  - cbn [lsd_int_passes].
    assert (Hd8 : d < 8) by lia.
    change (W - 1) with 7.
    destruct (lsd_pass_step Z (int_digit (BYTE_SIZE * d)) (dg d) (signed && (d =? 7))
                (fun x y => low d x <= low d y) (int_rel signed (d + 1)) a aux)
      as (a1 & aux1 & Hrun & Hlen1 & Hperm1 & Hss1).
    + intros s _. split; [apply int_digit_dg; lia | apply dg_range].
    + exact Hlen.
    + apply (SS_impl_In _ _ _ Hss). intros x y _ _ Hxy.
      apply (int_rel_lt8 signed d x y Hd8). exact Hxy.
    + intros x y _ _ Hxy. apply int_rel_step; [lia | exact Hxy].
    + rewrite Hrun. cbn [bind].
      destruct (IH a1 aux1 (d + 1)) as (a2 & aux2 & Hrun2 & Hperm2 & Hss2);
        [lia | lia | exact Hlen1 | exact Hss1 |].
      exists a2, aux2. split; [exact Hrun2 |].
      split; [eapply Permutation_trans; eassumption | exact Hss2].
Qed.

Theorem LSDUint_correct : forall a : list Z, Forall uint64 a -> sorts_to Z.le (LSDUint a) a.
Proof.
  intros a Ha. unfold LSDUint, sorts_to.
  change (Z.to_nat W) with 8%nat.
  destruct (lsd_int_passes_spec false 8 a (repeat 0 (length a)) 0)
    as (b & aux' & Hrun & Hperm & Hss).
  - lia.
  - reflexivity.
  - apply repeat_length.
  - apply SS_all. intros x y _ _. unfold int_rel. cbn [andb]. rewrite !low_0. lia.
  - exists b. rewrite Hrun. cbn [bind].
    split; [reflexivity |]. split; [exact Hperm |].
    apply StronglySorted_Sorted.
    pose proof (Forall_perm _ _ _ _ Hperm Ha) as Hb. rewrite Forall_forall in Hb.
    apply (SS_impl_In _ Z.le _ Hss).
    intros x y Hx Hy Hxy. unfold int_rel in Hxy. cbn [andb] in Hxy.
    rewrite (low_8_uint x (Hb x Hx)), (low_8_uint y (Hb y Hy)) in Hxy. exact Hxy.
Qed.

Theorem LSDInt_correct : forall a : list Z, Forall int64 a -> sorts_to Z.le (LSDInt a) a.
Proof.
  intros a Ha. unfold LSDInt, sorts_to.
  change (Z.to_nat W) with 8%nat.
  destruct (lsd_int_passes_spec true 8 a (repeat 0 (length a)) 0)
    as (b & aux' & Hrun & Hperm & Hss).
  - lia.
  - reflexivity.
  - apply repeat_length.
  - apply SS_all. intros x y _ _. unfold int_rel. change (0 =? 8) with false. cbn [andb].
    rewrite !low_0. lia.
  - exists b. rewrite Hrun. cbn [bind].
    split; [reflexivity |]. split; [exact Hperm |].
    apply StronglySorted_Sorted.
    pose proof (Forall_perm _ _ _ _ Hperm Ha) as Hb. rewrite Forall_forall in Hb.
    apply (SS_impl_In _ Z.le _ Hss).
    intros x y Hx Hy Hxy. unfold int_rel in Hxy. change (8 =? 8) with true in Hxy.
    cbn [andb] in Hxy.
    rewrite (low_8_uint _ (skey_range x (Hb x Hx))),
            (low_8_uint _ (skey_range y (Hb y Hy))) in Hxy.
    apply skey_le. exact Hxy.
Qed.

(* ------------------------------------------------------------------ *)
(** * fixed-width strings *)

Lemma lsd_str_passes_spec : forall (w : Z) (cnt : nat) (a aux : list str) (d : Z),
  Z.of_nat cnt = d + 1 -> d < w ->
  Forall is_str a -> Forall (fun s => len s = w) a ->
  length aux = length a ->
  StronglySorted (fun x y => str_le (suffix (d + 1) x) (suffix (d + 1) y)) a ->
  exists a' aux', lsd_str_passes cnt a aux d = Ok (a', aux') /\
                  Permutation a a' /\ StronglySorted str_le a'.
Proof.
  intros w cnt. induction cnt as [|c IH]; intros a aux d Hcnt Hdw Hstr Hw Hlen Hss.
  - exists a, aux. cbn [lsd_str_passes].
    split; [reflexivity |]. split; [apply Permutation_refl |].
    assert (E : d + 1 = 0) by lia. rewrite E in Hss.
    apply (SS_impl_In _ str_le _ Hss). intros x y _ _ Hxy.
    rewrite !suffix_0 in Hxy. exact Hxy.
  - cbn [lsd_str_passes].
    assert (Hd0 : 0 <= d) by lia.
    pose proof Hstr as Hstr'. pose proof Hw as Hw'.
    rewrite Forall_forall in Hstr', Hw'.
    destruct (lsd_pass_step (list Z) (fun s : list Z => get s d) (chr d) false
                (fun x y => str_le (suffix (d + 1) x) (suffix (d + 1) y))
                (fun x y => str_le (suffix d x) (suffix d y)) a aux)
      as (a1 & aux1 & Hrun & Hlen1 & Hperm1 & Hss1).
    + intros s Hs. pose proof (Hw' s Hs) as Hl. cbv beta in Hl.
      split; [apply get_chr; lia |].
      pose proof (chr_byte d s (Hstr' s Hs) ltac:(lia)) as Hb. exact Hb.
    + exact Hlen.
    + exact Hss.
    + intros x y Hx Hy Hxy.
      pose proof (Hw' x Hx) as Hlx. pose proof (Hw' y Hy) as Hly. cbv beta in Hlx, Hly.
      apply (suffix_le_lex d x y); [lia | lia |].
      destruct Hxy as [Hb | [He Hl]].
      * left. apply before_iota in Hb. lia.
      * right. split; assumption.
    + rewrite Hrun. cbn [bind].
      destruct (IH a1 aux1 (d - 1)) as (a2 & aux2 & Hrun2 & Hperm2 & Hss2).
      * lia.
      * lia.
      * exact (Forall_perm _ _ _ _ Hperm1 Hstr).
      * exact (Forall_perm _ _ _ _ Hperm1 Hw).
      * exact Hlen1.
      * replace (d - 1 + 1) with d by lia. exact Hss1.
      * exists a2, aux2. split; [exact Hrun2 |].
        split; [eapply Permutation_trans; eassumption | exact Hss2].
Qed.

Theorem LSDString_correct : forall (a : list str) (w : Z), 0 <= w ->
  Forall is_str a -> Forall (fun s => len s = w) a -> sorts_to str_le (LSDString a w) a.
Proof.
  intros a w Hw0 Hstr Hw. unfold LSDString, sorts_to.
  destruct (lsd_str_passes_spec w (Z.to_nat w) a (repeat [] (length a)) (w - 1))
    as (b & aux' & Hrun & Hperm & Hss).
  - lia.
  - lia.
  - exact Hstr.
  - exact Hw.
  - apply repeat_length.
  - replace (w - 1 + 1) with w by lia.
    apply SS_all. intros x y Hx Hy.
    rewrite Forall_forall in Hw.
    pose proof (Hw x Hx) as Hlx. pose proof (Hw y Hy) as Hly. cbv beta in Hlx, Hly.
    rewrite <- Hlx at 1. rewrite <- Hly at 1. rewrite !suffix_all. apply str_le_refl.
  - exists b. rewrite Hrun. cbn [bind].
    split; [reflexivity |]. split; [exact Hperm |].
    apply StronglySorted_Sorted. exact Hss.
Qed.
