(** C07 — radixsort/msd.go: total correctness of the MSD radix sort on strings
    ([msd_str], [MSDString]). *)
From Algo.C07 Require Import ArrLemmas StrOrder ProofsInsSel ProofsQuick ProofsCount ProofsQ3S.
Open Scope Z_scope.

Local Notation scmp := (cmp_of_less str_ltb).

(** * the counted loop [for_range] with an abstract invariant *)
Lemma for_range_inv {St : Type} (Inv : Z -> St -> Prop) (body : Z -> St -> res St) :
  forall (cnt : nat) (r : Z) (st : St),
  (forall r' st', r <= r' < r + Z.of_nat cnt -> Inv r' st' ->
     exists st'', body r' st' = Ok st'' /\ Inv (r' + 1) st'') ->
  Inv r st ->
  exists st', for_range cnt body r st = Ok st' /\ Inv (r + Z.of_nat cnt) st'.
Proof.
  induction cnt as [|c IH]; intros r st Hb Hi.
  - exists st. split; [reflexivity|]. replace (r + Z.of_nat 0) with r by lia. exact Hi.
  - cbn [for_range].
    destruct (Hb r st ltac:(lia) Hi) as (st1 & E1 & I1). rewrite E1. cbn [bind].
    destruct (IH (r + 1) st1) as (st2 & E2 & I2).
    + intros r' st' Hr' Hi'. apply Hb; [lia | exact Hi'].
    + exact I1.
    + exists st2. split; [exact E2|].
      replace (r + Z.of_nat (S c)) with (r + 1 + Z.of_nat c) by lia. exact I2.
Qed.

(** * every cell of the range holds a string whose bucket owns the cell
    ([P c] is the first index of the bucket of character [c], [P (c+1)] one past its last) *)
Section Placed.
  Variable P : Z -> Z.
  Hypothesis Pmono : forall c c', c <= c' -> P c <= P c'.
  Variable d : Z.
  Hypothesis Hd : 0 <= d.

  Definition placed (b : list str) (lo hi : Z) : Prop :=
    forall k x, lo <= k <= hi -> get b k = Ok x -> P (chr d x) <= k < P (chr d x + 1).

  Lemma placed_unique c c' k : P c <= k < P (c + 1) -> P c' <= k < P (c' + 1) -> c = c'.
  Proof.
    intros H1 H2. destruct (Z.lt_trichotomy c c') as [L|[E|G]]; [|exact E|].
    - pose proof (Pmono (c + 1) c' ltac:(lia)). lia.
    - pose proof (Pmono (c' + 1) c ltac:(lia)). lia.
  Qed.

  (** sorting one bucket in place keeps every string in its bucket *)
  Lemma placed_inplace b b' lo hi r :
    lo <= P r -> P (r + 1) - 1 <= hi ->
    inplace b b' (P r) (P (r + 1) - 1) -> placed b lo hi -> placed b' lo hi.
  Proof.
    intros H1 H2 IP PL k x Hk G.
    destruct (inplace_get _ _ _ _ _ _ IP G) as (k' & G' & [->|[K1 K2]]).
    - apply (PL k x Hk G').
    - pose proof (PL k' x ltac:(lia) G') as Q.
      assert (chr d x = r) as E by (eapply placed_unique; [exact Q | lia]).
      rewrite E. lia.
  Qed.

  (** the strings inside the cells of bucket [r] have character [r] *)
  Lemma placed_chr b lo hi r k x :
    placed b lo hi -> lo <= k <= hi -> P r <= k < P (r + 1) -> get b k = Ok x -> chr d x = r.
  Proof.
    intros PL Hk Hr G. pose proof (PL k x Hk G) as Q. eapply placed_unique; [exact Q | exact Hr].
  Qed.

  (** final combination: different buckets are ordered by their character, the sentinel
      bucket holds equal strings, the others were sorted by the recursive calls *)
  Lemma placed_sorted M b lo hi :
    Forall (good M) b -> range_all2 (same_prefix d) b lo hi -> placed b lo hi ->
    (forall c, 0 <= c < 256 -> sorted_on scmp b (P c) (P (c + 1) - 1)) ->
    sorted_on scmp b lo hi.
  Proof.
    intros G SP PL SB p q x y Hp Hpq Hq Gx Gy.
    destruct (good_get _ _ _ _ G Gx) as [Sx _]. destruct (good_get _ _ _ _ G Gy) as [Sy _].
    assert (PXY : same_prefix d x y) by (apply (SP p q x y); try lia; assumption).
    pose proof (PL p x ltac:(lia) Gx) as Qx. pose proof (PL q y ltac:(lia) Gy) as Qy.
    destruct (Z.lt_trichotomy (chr d x) (chr d y)) as [L|[E|Gt]].
    - unfold cmp_of_less. rewrite (same_prefix_lt d x y Sx Sy Hd PXY L). lia.
    - pose proof (chr_range d x Sx Hd) as Rx.
      destruct (Z.eq_dec (chr d x) (-1)) as [E1|N1].
      + assert (x = y) as -> by (apply (same_prefix_end d x y Sx Sy Hd PXY); lia).
        rewrite (cmp_refl _ str_cmp_TP). lia.
      + rewrite <- E in Qy.
        apply (SB (chr d x) ltac:(lia) p q x y); try lia; assumption.
    - pose proof (Pmono (chr d y + 1) (chr d x) ltac:(lia)). lia.
  Qed.
End Placed.

(** * the counting pass: layout and in-place character of the distribution *)
Lemma pass_placed d (L a1 : list str) lo cnt :
  0 <= lo ->
  (forall s, In s L -> -1 <= chr d s < 256) ->
  slice a1 lo cnt = bucket_cat (chr d) (iota (-1) (Z.to_nat 257)) L ->
  placed (fun c => lo + cnt_lt (chr d) c L) d a1 lo (lo + Z.of_nat cnt - 1).
Proof.
  intros H0 RC SL k x Hk G.
  assert (G' : get (bucket_cat (chr d) (iota (-1) (Z.to_nat 257)) L) (k - lo) = Ok x).
  { rewrite <- SL. rewrite get_slice by lia. replace (lo + (k - lo)) with k by lia. exact G. }
  destruct (bucket_cat_get (chr d) (iota (-1) (Z.to_nat 257)) L (k - lo) (NoDup_iota _ _))
    as (c & j & Hc & Hj & Ek & Gj).
  { eapply get_Ok_range; exact G'. }
  rewrite G' in Gj. symmetry in Gj. apply get_Ok_In in Gj. apply In_bucket in Gj.
  destruct Gj as [IxL Cx].
  apply In_iota in Hc.
  rewrite start_iota_in in Ek by exact Hc.
  rewrite (cnt_lt_low (chr d) (-1) L) in Ek by (intros s Hs; apply RC in Hs; lia).
  cbv beta. rewrite Cx. rewrite cnt_lt_succ. lia.
Qed.

Lemma pass_inplace (dgf : str -> Z) (order : list Z) (a a1 : list str) lo cnt :
  0 <= lo -> lo + Z.of_nat cnt <= len a -> len a1 = len a -> NoDup order ->
  (forall s, In s (slice a lo cnt) -> In (dgf s) order) ->
  slice a1 lo cnt = bucket_cat dgf order (slice a lo cnt) ->
  same_outside a a1 lo (lo + Z.of_nat cnt - 1) ->
  inplace a a1 lo (lo + Z.of_nat cnt - 1).
Proof.
  intros H0 Hl L1 ND DO SL SO.
  split; [exact L1|]. split; [|split; [exact SO|]].
  - assert (Ea := slice_split a lo cnt H0). assert (Ea1 := slice_split a1 lo cnt H0).
    rewrite (same_outside_firstn a a1 lo (lo + Z.of_nat cnt - 1) H0 (eq_sym L1) SO) in Ea1.
    rewrite (same_outside_skipn a a1 lo (lo + Z.of_nat cnt - 1) (Z.to_nat lo + cnt)
               ltac:(lia) (eq_sym L1) SO) in Ea1.
    rewrite SL in Ea1. rewrite Ea1. rewrite Ea at 1.
    apply Permutation_app_head, Permutation_app_tail, bucket_cat_perm; assumption.
  - intros i x Hi G.
    assert (G' : get (slice a1 lo cnt) (i - lo) = Ok x).
    { rewrite get_slice by lia. replace (lo + (i - lo)) with i by lia. exact G. }
    rewrite SL in G'. apply get_Ok_In in G'. apply In_bucket_cat in G'. destruct G' as [G' _].
    apply In_get in G'. destruct G' as [j Gj].
    pose proof (get_Ok_range _ _ _ Gj) as Rj. rewrite len_slice in Rj by lia.
    rewrite get_slice in Gj by lia. exists (lo + j). split; [lia | exact Gj].
Qed.

(** * the recursion *)
Section MSD.
  Variable M : Z.

  Lemma msd_str_spec : forall (fuel : nat) (a aux : list str) lo hi d,
    0 <= lo -> hi < len a -> lo <= hi + 1 -> len aux = len a -> 0 <= d ->
    Forall (good M) a -> range_all2 (same_prefix d) a lo hi ->
    Z.max 0 (M + 1 - d) < Z.of_nat fuel ->
    exists b aux', msd_str fuel a aux lo hi d = Ok (b, aux') /\ len aux' = len a /\
      inplace a b lo hi /\ sorted_on scmp b lo hi.
  Proof.
    induction fuel as [|f IH]; intros a aux lo hi d Hlo Hhi Hlh Lx Hd GA SP Hf; [lia|].
    cbn [msd_str]. destruct (hi <=? lo + CUTOFF) eqn:E.
    - destruct (insertion_range_correct str scmp str_ltb str_cmp_TP str_cmp_less a lo hi Hlo Hhi Hlh)
        as (b & Eb & Lb & Pb & Sb & Ob & Rb).
      rewrite Eb. cbn [bind]. exists b, aux. split; [reflexivity|]. split; [exact Lx|].
      split; [|exact Sb]. split; [exact Lb|]. split; [exact Pb|]. split; [exact Ob | exact Rb].
    - apply Z.leb_gt in E. assert (HC : 0 <= CUTOFF) by (unfold CUTOFF; lia).
      cbv zeta.
      (* the range is not empty, hence [d <= M] *)
      destruct (get_in_range a lo ltac:(lia)) as [x0 Hx0].
      destruct (good_get _ _ _ _ GA Hx0) as [_ Lx0].
      assert (DM : d <= M).
      { destruct (SP lo lo x0 x0 ltac:(lia) ltac:(lia) Hx0 Hx0) as (A & _). lia. }
      remember (Z.to_nat (hi + 1 - lo)) as cnt eqn:Ecnt.
      assert (Hcnt : lo + Z.of_nat cnt - 1 = hi) by lia.
      assert (LL : length (slice a lo cnt) = cnt) by (apply length_slice; lia).
      assert (SL : forall s, In s (slice a lo cnt) -> is_str s).
      { intros s Hs. apply slice_In in Hs. rewrite Forall_forall in GA. apply GA. exact Hs. }
      assert (RC : forall s, In s (slice a lo cnt) -> -1 <= chr d s < 256).
      { intros s Hs. apply chr_range; [apply SL; exact Hs | exact Hd]. }
      assert (DG : digits_ok (charAt d) (chr d) 1 257 (slice a lo cnt)).
      { intros s Hs. split; [apply charAt_chr; exact Hd|]. pose proof (RC s Hs). lia. }
      destruct (msd_pass_plain (charAt d) (chr d) 1 257 cnt a lo aux ltac:(lia) ltac:(lia) Hlo
                  ltac:(lia) ltac:(lia) DG)
        as (c1 & c2 & c3 & aux1 & a1 & E1 & E2 & E3 & E4 & La1 & Lx1 & S1 & O1 & Lc3 & Gc & _).
      change (Z.to_nat (R + 2)) with (Z.to_nat (257 + 1)).
      change (Z.to_nat (R + 1)) with (Z.to_nat 257).
      rewrite E1. cbn [bind]. rewrite E2. cbn [bind]. rewrite E3. cbn [bind]. rewrite E4. cbn [bind].
      change (- (1)) with (-1) in S1.
      remember (slice a lo cnt) as L eqn:EL.
      assert (Gc' : forall r, 0 <= r < 257 -> get c3 r = Ok (cnt_lt (chr d) r L)).
      { intros r Hr. rewrite (Gc r Hr). replace (r + 1 - 1) with r by lia. reflexivity. }
      clear Gc.
      assert (IP1 : inplace a a1 lo hi).
      { rewrite <- Hcnt. subst L.
        apply (pass_inplace (chr d) (iota (-1) (Z.to_nat 257))); try lia; try assumption.
        - apply NoDup_iota.
        - intros s Hs. apply In_iota. pose proof (RC s Hs). lia. }
      pose (P := fun c => lo + cnt_lt (chr d) c L).
      assert (Pmono : forall c c', c <= c' -> P c <= P c').
      { intros c c' Hc. unfold P. pose proof (cnt_lt_mono (chr d) c c' L Hc). lia. }
      assert (Plo : forall c, lo <= P c).
      { intros c. unfold P. pose proof (cnt_lt_nonneg (chr d) c L). lia. }
      assert (Phi : forall c, P c - 1 <= hi).
      { intros c. unfold P. pose proof (cnt_lt_le_len (chr d) c L). lia. }
      assert (PL1 : placed P d a1 lo hi).
      { rewrite <- Hcnt. unfold P. apply pass_placed; assumption. }
      assert (GcP : forall r, 0 <= r < 257 -> get c3 r = Ok (P r - lo)).
      { intros r Hr. rewrite (Gc' r Hr). unfold P. f_equal. lia. }
      clearbody P.
      match goal with
      | |- context [for_range ?n0 ?body0 ?r0 ?st0] =>
          destruct (for_range_inv
            (fun r (st : list str * list str) =>
               len (snd st) = len a /\ inplace a1 (fst st) lo hi /\ placed P d (fst st) lo hi /\
               (forall c, 0 <= c < r -> sorted_on scmp (fst st) (P c) (P (c + 1) - 1)))
            body0 n0 r0 st0) as ([b ax] & Eb & Lax & IPb & PLb & SBb)
      end.
      + (* one iteration *)
        intros r [b ax] Hr (Lax & IPb & PLb & SBb). cbn [fst snd] in *.
        change R with 256 in Hr.
        cbv beta iota.
        rewrite (GcP r ltac:(lia)), (GcP (r + 1) ltac:(lia)). cbn [bind].
        replace (lo + (P r - lo)) with (P r) by lia.
        replace (lo + (P (r + 1) - lo) - 1) with (P (r + 1) - 1) by lia.
        pose proof (inplace_len _ _ _ _ IPb) as Lb.
        assert (GB : Forall (good M) b).
        { eapply good_perm; [|exact GA]. eapply Permutation_trans; eapply inplace_perm; eassumption. }
        assert (SPb : range_all2 (same_prefix d) b lo hi).
        { eapply range_all2_inplace; [exact IPb | left; lia |].
          eapply range_all2_inplace; [exact IP1 | left; lia | exact SP]. }
        pose proof (Plo r) as Q1. pose proof (Phi (r + 1)) as Q2.
        pose proof (Pmono r (r + 1) ltac:(lia)) as Q3.
        destruct (IH b ax (P r) (P (r + 1) - 1) (d + 1)) as (b' & ax' & Eb' & Lax' & IPb' & Sb');
          try lia; try assumption.
        { intros i j x y Hi Hj Gx Gy.
          destruct (good_get _ _ _ _ GB Gx) as [Sx _]. destruct (good_get _ _ _ _ GB Gy) as [Sy _].
          pose proof (placed_chr P Pmono d b lo hi r i x PLb ltac:(lia) ltac:(lia) Gx) as Cx.
          pose proof (placed_chr P Pmono d b lo hi r j y PLb ltac:(lia) ltac:(lia) Gy) as Cy.
          apply same_prefix_succ; try assumption; try lia.
          apply (SPb i j x y); try lia; assumption. }
        exists (b', ax'). split; [exact Eb'|]. cbn [fst snd].
        split; [lia|]. split.
        { eapply inplace_trans; [exact IPb|]. eapply inplace_widen; [| |exact IPb']; lia. }
        split.
        { eapply (placed_inplace P Pmono d b b' lo hi r); try lia; assumption. }
        intros c Hc. destruct (Z.eq_dec c r) as [->|Nc]; [exact Sb'|].
        pose proof (Pmono (c + 1) r ltac:(lia)) as Q4.
        eapply sorted_on_inplace_out; [exact IPb' | left; lia | apply SBb; lia].
      + (* initially *)
        cbn [fst snd]. split; [lia|]. split; [apply inplace_refl|]. split; [exact PL1|].
        intros c Hc. lia.
      + cbn [fst snd] in *. change R with 256 in SBb.
        exists b, ax. split; [exact Eb|]. split; [exact Lax|].
        assert (IPab : inplace a b lo hi) by (eapply inplace_trans; eassumption).
        split; [exact IPab|].
        apply (placed_sorted P Pmono d Hd M).
        * eapply good_perm; [eapply inplace_perm; exact IPab | exact GA].
        * eapply range_all2_inplace; [exact IPab | left; lia | exact SP].
        * exact PLb.
        * intros c Hc. apply SBb. lia.
  Qed.
End MSD.

(** * the contract *)
Theorem MSDString_correct : forall a : list str, Forall is_str a -> sorts_to str_le (MSDString a) a.
Proof.
  intros a SA. unfold MSDString.
  destruct (msd_str_spec (Z.of_nat (max_len a)) (S (S (max_len a))) a (repeat [] (length a))
              0 (len a - 1) 0) as (b & ax & E & _ & IP & S); try (unfold len; lia).
  - apply len_repeat.
  - rewrite Forall_forall in *. intros x Hx. split; [apply SA; exact Hx|].
    pose proof (max_len_bound a x Hx). unfold len. lia.
  - intros i j x y _ _ _ _. apply same_prefix_0.
  - rewrite E. cbn [bind]. exists b. split; [reflexivity|].
    split; [eapply inplace_perm; eauto|].
    apply (Sorted_mono (cle scmp)).
    + intros x y H. apply str_cmp_le. exact H.
    + apply sorted_on_Sorted. rewrite (inplace_len _ _ _ _ IP). exact S.
Qed.
