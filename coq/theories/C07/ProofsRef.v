(** C07 — a reference sort (functional insertion sort) and the "equals the sorted slice" form of the
    radix-sort theorems: for an antisymmetric total order the sorted permutation is unique, so
    [sorts_to le r a] is the same as [r = Ok (ref_sort leb a)]. *)
From Algo.C07 Require Import ArrLemmas StrOrder.
Open Scope Z_scope.

Section Ref.
  Context {T : Type} (leb : T -> T -> bool) (le : T -> T -> Prop).
  Hypothesis leb_le : forall x y, leb x y = true <-> le x y.
  Hypothesis le_total : forall x y, le x y \/ le y x.
  Hypothesis le_trans : forall x y z, le x y -> le y z -> le x z.
  Hypothesis le_antisym : forall x y, le x y -> le y x -> x = y.

  Fixpoint ref_insert (x : T) (l : list T) : list T :=
    match l with
    | [] => [x]
    | y :: l' => if leb x y then x :: l else y :: ref_insert x l'
    end.

  Definition ref_sort (l : list T) : list T := fold_right ref_insert [] l.

  Lemma ref_insert_perm x l : Permutation (x :: l) (ref_insert x l).
  Proof.
    induction l as [|y l IH]; simpl; [apply Permutation_refl|].
    destruct (leb x y); [apply Permutation_refl|].
    eapply Permutation_trans; [apply perm_swap|]. apply perm_skip. exact IH.
  Qed.

  Lemma ref_insert_sorted x l : Sorted le l -> Sorted le (ref_insert x l).
  Proof.
    induction l as [|y l IH]; intros S; simpl.
    - constructor; constructor.
    - destruct (leb x y) eqn:E.
      + constructor; [exact S|]. constructor. apply leb_le. exact E.
      + inversion S as [|? ? S' H]; subst. constructor; [apply IH; exact S'|].
        assert (le y x) as Hyx.
        { destruct (le_total x y) as [L|L]; [|exact L]. apply leb_le in L. congruence. }
        destruct l as [|z l]; simpl.
        * constructor. exact Hyx.
        * destruct (leb x z); constructor; [exact Hyx|]. inversion H; subst. assumption.
  Qed.

  Lemma ref_sort_perm l : Permutation l (ref_sort l).
  Proof.
    induction l as [|x l IH]; simpl; [constructor|].
    eapply Permutation_trans; [apply perm_skip; exact IH|]. apply ref_insert_perm.
  Qed.

  Lemma ref_sort_sorted l : Sorted le (ref_sort l).
  Proof. induction l as [|x l IH]; simpl; [constructor|]. apply ref_insert_sorted. exact IH. Qed.

  Lemma sorts_to_ref_sort (r : res (list T)) (a : list T) :
    sorts_to le r a <-> r = Ok (ref_sort a).
  Proof.
    split.
    - intros (b & -> & P & S). f_equal.
      apply (sorted_perm_unique le le_trans le_antisym); [|exact S|apply ref_sort_sorted].
      eapply Permutation_trans; [apply Permutation_sym; exact P|apply ref_sort_perm].
    - intros ->. exists (ref_sort a). split; [reflexivity|]. split; [apply ref_sort_perm|apply ref_sort_sorted].
  Qed.
End Ref.

(** the two instances used by the radix sorts *)
Definition str_leb (s t : str) : bool := negb (str_ltb t s).

Lemma sorts_to_Z (r : res (list Z)) (a : list Z) :
  sorts_to Z.le r a <-> r = Ok (ref_sort Z.leb a).
Proof.
  apply sorts_to_ref_sort.
  - intros x y. apply Z.leb_le.
  - intros x y. lia.
  - intros x y z. lia.
  - intros x y. lia.
Qed.

Lemma sorts_to_str (r : res (list str)) (a : list str) :
  sorts_to str_le r a <-> r = Ok (ref_sort str_leb a).
Proof.
  apply sorts_to_ref_sort.
  - intros x y. unfold str_leb, str_le. destruct (str_ltb y x); simpl; split; congruence.
  - apply str_le_total.
  - apply str_le_trans.
  - apply str_le_antisym.
Qed.
