(** C07 — executable model of /repo/sort/*.go and /repo/radixsort/*.go (after the fix: commits
    for LSDString's byte wrap and msdUint's recursion bounds).

    Transcription conventions.
    - Go [int] is [Z] (no wrap-around below 2^62 elements); slices are lists; every slice access goes
      through [get]/[set]/[swap], which return [Panic] for an index out of range, so that a
      run-time panic of the Go code is a result value of the model and never hidden by a default.
    - [for i := lo; i < n; i++] loops whose trip count is known on entry are counted loops
      (structural recursion on the trip count, the Go index is carried along as a [Z]);
      data-dependent loops and recursions run on fuel, fuel exhaustion is [Hang].
      The fuel passed by each caller is shown (Proofs*.v) never to be exhausted.
    - comparators are [cmp : T -> T -> Z] (Go: [generic.CompareFunc[T]] returning int).
    - [make([]T, n)] needs the zero value of [T]: the functions that allocate take [zero : T].
    - RNG draws are an oracle [rnd : Z -> Z]: the draw [r.Intn(m)] of loop iteration [i]
      is [(rnd i) mod m]; theorems quantify over every [rnd].
    - machine integers of the radix sorts are [Z] ([int]: [-2^63, 2^63), [uint]: [0, 2^64));
      [(v >> s) & MASK] is [Z.land (Z.shiftr v s) MASK] (arithmetic shift, two's complement and).
    - strings are lists of bytes ([Z] in [0,256)); Go's [<] on strings is [str_ltb].
    No proofs in this file. *)
From Coq Require Export List ZArith Bool.
Export ListNotations.
Open Scope Z_scope.

Inductive res (A : Type) : Type := Ok (a : A) | Panic | Hang.
Arguments Ok {A} a.
Arguments Panic {A}.
Arguments Hang {A}.

Definition bind {A B : Type} (r : res A) (f : A -> res B) : res B :=
  match r with Ok a => f a | Panic => Panic | Hang => Hang end.

Notation "x <- e ;; f" := (bind e (fun x => f))
  (at level 61, e at next level, right associativity).
Notation "' pat <- e ;; f" := (bind e (fun pat => f))
  (at level 61, pat pattern, e at next level, right associativity).

(** * Slices *)
Section Arr.
  Context {T : Type}.

  Definition len (a : list T) : Z := Z.of_nat (length a).

  Definition get (a : list T) (i : Z) : res T :=
    if i <? 0 then Panic
    else match nth_error a (Z.to_nat i) with Some x => Ok x | None => Panic end.

  Fixpoint upd (a : list T) (i : nat) (v : T) : list T :=
    match a, i with
    | [], _ => []
    | _ :: t, O => v :: t
    | h :: t, S i' => h :: upd t i' v
    end.

  Definition set (a : list T) (i : Z) (v : T) : res (list T) :=
    if (0 <=? i) && (i <? len a) then Ok (upd a (Z.to_nat i) v) else Panic.

  (** [a[i], a[j] = a[j], a[i]] *)
  Definition swap (a : list T) (i j : Z) : res (list T) :=
    x <- get a i ;; y <- get a j ;; a1 <- set a i y ;; set a1 j x.

  (** [for k := 0; k < cnt; k++ { dst[i+k] = src[i+k] }] *)
  Fixpoint copy_range (cnt : nat) (dst src : list T) (i : Z) : res (list T) :=
    match cnt with
    | O => Ok dst
    | S c => x <- get src i ;; d' <- set dst i x ;; copy_range c d' src (i + 1)
    end.

  (** [for i := lo; i <= hi; i++ { a[i] = aux[i-lo] }] *)
  Fixpoint copy_back (cnt : nat) (a aux : list T) (lo i : Z) : res (list T) :=
    match cnt with
    | O => Ok a
    | S c => x <- get aux (i - lo) ;; a' <- set a i x ;; copy_back c a' aux lo (i + 1)
    end.

  (** sort/shuffle.go [Shuffle], radixsort/radixsort.go [shuffle] *)
  Fixpoint shuffle_loop (cnt : nat) (rnd : Z -> Z) (a : list T) (i : Z) : res (list T) :=
    match cnt with
    | O => Ok a
    | S c =>
        let r := i + (rnd i) mod (len a - i) in
        a' <- swap a i r ;; shuffle_loop c rnd a' (i + 1)
    end.

  Definition Shuffle (rnd : Z -> Z) (a : list T) : res (list T) :=
    shuffle_loop (length a) rnd a 0.
End Arr.

(** * package sort *)
Section Sorts.
  Context {T : Type}.
  Variable cmp : T -> T -> Z.

  (** ** selection.go *)
  Fixpoint sel_min (cnt : nat) (a : list T) (j mn : Z) : res Z :=
    match cnt with
    | O => Ok mn
    | S c =>
        x <- get a j ;; y <- get a mn ;;
        sel_min c a (j + 1) (if cmp x y <? 0 then j else mn)
    end.

  Fixpoint sel_outer (cnt : nat) (a : list T) (i : Z) : res (list T) :=
    match cnt with
    | O => Ok a
    | S c =>
        mn <- sel_min (Z.to_nat (len a - (i + 1))) a (i + 1) i ;;
        a' <- swap a i mn ;;
        sel_outer c a' (i + 1)
    end.

  Definition Selection (a : list T) : res (list T) := sel_outer (length a) a 0.

  (** ** insertion.go *)
  Fixpoint ins_inner (fuel : nat) (a : list T) (j : Z) : res (list T) :=
    match fuel with
    | O => Hang
    | S f =>
        if 0 <? j then
          x <- get a j ;; y <- get a (j - 1) ;;
          if cmp x y <? 0 then a' <- swap a j (j - 1) ;; ins_inner f a' (j - 1)
          else Ok a
        else Ok a
    end.

  Fixpoint ins_outer (cnt : nat) (a : list T) (i : Z) : res (list T) :=
    match cnt with
    | O => Ok a
    | S c => a' <- ins_inner (S (Z.to_nat i)) a i ;; ins_outer c a' (i + 1)
    end.

  Definition Insertion (a : list T) : res (list T) := ins_outer (length a) a 0.

  (** ** shell.go *)
  Fixpoint shell_h (fuel : nat) (n h : Z) : res Z :=
    match fuel with
    | O => Hang
    | S f => if h <? Z.quot n 3 then shell_h f n (3 * h + 1) else Ok h
    end.

  Fixpoint shell_inner (fuel : nat) (a : list T) (h j : Z) : res (list T) :=
    match fuel with
    | O => Hang
    | S f =>
        if h <=? j then
          x <- get a j ;; y <- get a (j - h) ;;
          if cmp x y <? 0 then a' <- swap a j (j - h) ;; shell_inner f a' h (j - h)
          else Ok a
        else Ok a
    end.

  Fixpoint shell_pass (cnt : nat) (a : list T) (h i : Z) : res (list T) :=
    match cnt with
    | O => Ok a
    | S c => a' <- shell_inner (S (Z.to_nat i)) a h i ;; shell_pass c a' h (i + 1)
    end.

  Fixpoint shell_outer (fuel : nat) (a : list T) (h : Z) : res (list T) :=
    match fuel with
    | O => Hang
    | S f =>
        if 1 <=? h then
          a' <- shell_pass (Z.to_nat (len a - h)) a h h ;;
          shell_outer f a' (Z.quot h 3)
        else Ok a
    end.

  Definition Shell (a : list T) : res (list T) :=
    h <- shell_h (S (length a)) (len a) 1 ;;
    shell_outer (S (Z.to_nat h)) a h.

  (** ** merge.go *)
  Fixpoint merge_loop (cnt : nat) (a aux : list T) (k i j mid hi : Z) : res (list T) :=
    match cnt with
    | O => Ok a
    | S c =>
        if mid <? i then
          x <- get aux j ;; a' <- set a k x ;; merge_loop c a' aux (k + 1) i (j + 1) mid hi
        else if hi <? j then
          x <- get aux i ;; a' <- set a k x ;; merge_loop c a' aux (k + 1) (i + 1) j mid hi
        else
          xj <- get aux j ;; xi <- get aux i ;;
          if cmp xj xi <? 0 then
            a' <- set a k xj ;; merge_loop c a' aux (k + 1) i (j + 1) mid hi
          else
            a' <- set a k xi ;; merge_loop c a' aux (k + 1) (i + 1) j mid hi
    end.

  (** [copy(aux[lo:hi+1], a[lo:hi+1])] panics unless [0 <= lo <= hi+1 <= cap]. *)
  Definition merge_run (a aux : list T) (lo mid hi : Z) : res (list T * list T) :=
    if (0 <=? lo) && (lo <=? hi + 1) && (hi + 1 <=? len a) && (hi + 1 <=? len aux) then
      aux' <- copy_range (Z.to_nat (hi + 1 - lo)) aux a lo ;;
      a' <- merge_loop (Z.to_nat (hi + 1 - lo)) a aux' lo lo (mid + 1) mid hi ;;
      Ok (a', aux')
    else Panic.

  Fixpoint merge_pass (fuel : nat) (a aux : list T) (n sz lo : Z) : res (list T * list T) :=
    match fuel with
    | O => Hang
    | S f =>
        if lo <? n - sz then
          '(a', aux') <- merge_run a aux lo (lo + sz - 1) (Z.min (lo + sz + sz - 1) (n - 1)) ;;
          merge_pass f a' aux' n sz (lo + sz + sz)
        else Ok (a, aux)
    end.

  Fixpoint merge_sizes (fuel : nat) (a aux : list T) (n sz : Z) : res (list T * list T) :=
    match fuel with
    | O => Hang
    | S f =>
        if sz <? n then
          '(a', aux') <- merge_pass (S (length a)) a aux n sz 0 ;;
          merge_sizes f a' aux' n (sz + sz)
        else Ok (a, aux)
    end.

  Definition Merge (zero : T) (a : list T) : res (list T) :=
    '(a', _) <- merge_sizes (S (length a)) a (repeat zero (length a)) (len a) 1 ;;
    Ok a'.

  Fixpoint merge_rec (fuel : nat) (a aux : list T) (lo hi : Z) : res (list T * list T) :=
    match fuel with
    | O => Hang
    | S f =>
        if hi <=? lo then Ok (a, aux)
        else
          let mid := Z.quot (lo + hi) 2 in
          '(a1, aux1) <- merge_rec f a aux lo mid ;;
          '(a2, aux2) <- merge_rec f a1 aux1 (mid + 1) hi ;;
          x <- get a2 (mid + 1) ;; y <- get a2 mid ;;
          if 0 <=? cmp x y then Ok (a2, aux2)
          else merge_run a2 aux2 lo mid hi
    end.

  Definition MergeRec (zero : T) (a : list T) : res (list T) :=
    '(a', _) <- merge_rec (S (length a)) a (repeat zero (length a)) 0 (len a - 1) ;;
    Ok a'.

  (** ** quick.go *)
  (** [for i++; i < hi && cmp(a[i], v) < 0; i++ {}] entered with the already incremented [i] *)
  Fixpoint scan_up (fuel : nat) (a : list T) (v : T) (i hi : Z) : res Z :=
    match fuel with
    | O => Hang
    | S f =>
        if i <? hi then
          x <- get a i ;; if cmp x v <? 0 then scan_up f a v (i + 1) hi else Ok i
        else Ok i
    end.

  Fixpoint scan_down (fuel : nat) (a : list T) (v : T) (j lo : Z) : res Z :=
    match fuel with
    | O => Hang
    | S f =>
        if lo <? j then
          x <- get a j ;; if 0 <? cmp x v then scan_down f a v (j - 1) lo else Ok j
        else Ok j
    end.

  Fixpoint part_loop (fuel : nat) (a : list T) (v : T) (i j lo hi : Z) : res (list T * Z) :=
    match fuel with
    | O => Hang
    | S f =>
        i' <- scan_up (S (Z.to_nat (hi - (i + 1)))) a v (i + 1) hi ;;
        j' <- scan_down (S (Z.to_nat (j - 1 - lo))) a v (j - 1) lo ;;
        if j' <=? i' then Ok (a, j')
        else a' <- swap a i' j' ;; part_loop f a' v i' j' lo hi
    end.

  Definition partition (a : list T) (lo hi : Z) : res (list T * Z) :=
    v <- get a lo ;;
    '(a', j) <- part_loop (S (Z.to_nat (hi + 1 - lo))) a v lo (hi + 1) lo hi ;;
    a'' <- swap a' lo j ;;
    Ok (a'', j).

  Fixpoint quick_rec (fuel : nat) (a : list T) (lo hi : Z) : res (list T) :=
    match fuel with
    | O => Hang
    | S f =>
        if hi <=? lo then Ok a
        else
          '(a1, j) <- partition a lo hi ;;
          a2 <- quick_rec f a1 lo (j - 1) ;;
          quick_rec f a2 (j + 1) hi
    end.

  (** the deterministic core ([VerifQuick] hook): Quick without the shuffle *)
  Definition QuickCore (a : list T) : res (list T) := quick_rec (S (length a)) a 0 (len a - 1).

  Definition Quick (rnd : Z -> Z) (a : list T) : res (list T) :=
    a' <- Shuffle rnd a ;; QuickCore a'.

  Fixpoint select_loop (fuel : nat) (a : list T) (lo hi k : Z) : res (list T * T) :=
    match fuel with
    | O => Hang
    | S f =>
        if lo <? hi then
          '(a', j) <- partition a lo hi ;;
          if j <? k then select_loop f a' (j + 1) hi k
          else if k <? j then select_loop f a' lo (j - 1) k
          else x <- get a' k ;; Ok (a', x)
        else x <- get a k ;; Ok (a, x)
    end.

  Definition SelectCore (a : list T) (k : Z) : res (list T * T) :=
    select_loop (S (length a)) a 0 (len a - 1) k.

  Definition Select (rnd : Z -> Z) (a : list T) (k : Z) : res (list T * T) :=
    a' <- Shuffle rnd a ;; SelectCore a' k.

  Fixpoint q3_loop (fuel : nat) (a : list T) (v : T) (lt i gt : Z) : res (list T * Z * Z) :=
    match fuel with
    | O => Hang
    | S f =>
        if i <=? gt then
          x <- get a i ;;
          let c := cmp x v in
          if c <? 0 then a' <- swap a lt i ;; q3_loop f a' v (lt + 1) (i + 1) gt
          else if 0 <? c then a' <- swap a i gt ;; q3_loop f a' v lt i (gt - 1)
          else q3_loop f a v lt (i + 1) gt
        else Ok (a, lt, gt)
    end.

  Fixpoint quick3 (fuel : nat) (a : list T) (lo hi : Z) : res (list T) :=
    match fuel with
    | O => Hang
    | S f =>
        if hi <=? lo then Ok a
        else
          v <- get a lo ;;
          '(a1, lt, gt) <- q3_loop (S (Z.to_nat (hi - lo))) a v lo (lo + 1) hi ;;
          a2 <- quick3 f a1 lo (lt - 1) ;;
          quick3 f a2 (gt + 1) hi
    end.

  Definition Quick3Way (a : list T) : res (list T) := quick3 (S (length a)) a 0 (len a - 1).

  (** ** heap.go *)
  Fixpoint sink (fuel : nat) (a : list T) (k n : Z) : res (list T) :=
    match fuel with
    | O => Hang
    | S f =>
        if 2 * k <=? n then
          let j := 2 * k in
          j' <- (if j <? n then
                   x <- get a j ;; y <- get a (j + 1) ;; Ok (if cmp x y <? 0 then j + 1 else j)
                 else Ok j) ;;
          xk <- get a k ;; xj <- get a j' ;;
          if 0 <=? cmp xk xj then Ok a
          else a' <- swap a k j' ;; sink f a' j' n
        else Ok a
    end.

  (** [for k := n/2; k >= 1; k-- { sink(a, k, n) }] *)
  Fixpoint heap_build (cnt : nat) (a : list T) (k n : Z) : res (list T) :=
    match cnt with
    | O => Ok a
    | S c => a' <- sink (S (length a)) a k n ;; heap_build c a' (k - 1) n
    end.

  (** [for n > 1 { swap(1, n); n--; sink(a, 1, n) }] *)
  Fixpoint heap_down (cnt : nat) (a : list T) (n : Z) : res (list T) :=
    match cnt with
    | O => Ok a
    | S c =>
        a1 <- swap a 1 n ;;
        a2 <- sink (S (length a)) a1 1 (n - 1) ;;
        heap_down c a2 (n - 1)
    end.

  Definition heap_sort (a : list T) : res (list T) :=
    let n := len a - 1 in
    a1 <- heap_build (Z.to_nat (Z.quot n 2)) a (Z.quot n 2) n ;;
    heap_down (Z.to_nat (n - 1)) a1 n.

  (** [aux := append([]T{zero}, a...); heap(aux); copy(a, aux[1:])] *)
  Definition Heap (zero : T) (a : list T) : res (list T) :=
    aux <- heap_sort (zero :: a) ;; Ok (tl aux).
End Sorts.

(** * package radixsort *)
Definition R : Z := 256.
Definition CUTOFF : Z := 15.
Definition BYTE_SIZE : Z := 8.
Definition INT_SIZE : Z := 64.
Definition W : Z := 8.          (* INT_SIZE / BYTE_SIZE *)
Definition MASK : Z := 255.     (* R - 1 *)

Definition str := list Z.

(** Go's [<] on strings: bytewise lexicographic, a proper prefix is smaller. *)
Fixpoint str_ltb (s t : str) : bool :=
  match s, t with
  | _, [] => false
  | [], _ :: _ => true
  | x :: s', y :: t' => if x <? y then true else if y <? x then false else str_ltb s' t'
  end.

Definition charAt (d : Z) (s : str) : res Z :=
  if d <? len s then get s d else Ok (-1).

(** [insertion(a, lo, hi)] of radixsort.go on an ordered type with [<] = [less] *)
Section RangeInsertion.
  Context {K : Type}.
  Variable less : K -> K -> bool.

  Fixpoint rins_inner (fuel : nat) (a : list K) (lo j : Z) : res (list K) :=
    match fuel with
    | O => Hang
    | S f =>
        if lo <? j then
          x <- get a j ;; y <- get a (j - 1) ;;
          if less x y then a' <- swap a j (j - 1) ;; rins_inner f a' lo (j - 1)
          else Ok a
        else Ok a
    end.

  Fixpoint rins_outer (cnt : nat) (a : list K) (lo i : Z) : res (list K) :=
    match cnt with
    | O => Ok a
    | S c => a' <- rins_inner (S (Z.to_nat (i - lo))) a lo i ;; rins_outer c a' lo (i + 1)
    end.

  Definition insertion_range (a : list K) (lo hi : Z) : res (list K) :=
    rins_outer (Z.to_nat (hi + 1 - lo)) a lo lo.
End RangeInsertion.

(** Key-indexed counting, shared by the LSD and MSD sorts.  [digit k] is the bucket of key [k]
    (it may panic: [s[d]] on a short string); [off] is 0 except for msdString, which reserves
    bucket 0 for the end-of-string sentinel -1 ([count[c+2]++], [count[c+1]]). *)
Section Counting.
  Context {K : Type}.
  Variable digit : K -> res Z.
  Variable off : Z.

  (** [for _, s := range a { count[digit(s)+off+1]++ }] *)
  Fixpoint count_freq (l : list K) (count : list Z) : res (list Z) :=
    match l with
    | [] => Ok count
    | s :: l' =>
        c <- digit s ;; x <- get count (c + off + 1) ;;
        count' <- set count (c + off + 1) (x + 1) ;;
        count_freq l' count'
    end.

  (** [for i := lo; i <= hi; i++ { count[digit(a[i])+off+1]++ }] *)
  Fixpoint count_freq_idx (cnt : nat) (a : list K) (i : Z) (count : list Z) : res (list Z) :=
    match cnt with
    | O => Ok count
    | S c' =>
        s <- get a i ;;
        c <- digit s ;; x <- get count (c + off + 1) ;;
        count' <- set count (c + off + 1) (x + 1) ;;
        count_freq_idx c' a (i + 1) count'
    end.

  (** [for _, s := range a { aux[count[digit(s)+off]] = s; count[digit(s)+off]++ }] *)
  Fixpoint distribute (l : list K) (count : list Z) (aux : list K) : res (list Z * list K) :=
    match l with
    | [] => Ok (count, aux)
    | s :: l' =>
        c <- digit s ;; p <- get count (c + off) ;;
        aux' <- set aux p s ;;
        count' <- set count (c + off) (p + 1) ;;
        distribute l' count' aux'
    end.

  Fixpoint distribute_idx (cnt : nat) (a : list K) (i : Z) (count : list Z) (aux : list K)
    : res (list Z * list K) :=
    match cnt with
    | O => Ok (count, aux)
    | S c' =>
        s <- get a i ;;
        c <- digit s ;; p <- get count (c + off) ;;
        aux' <- set aux p s ;;
        count' <- set count (c + off) (p + 1) ;;
        distribute_idx c' a (i + 1) count' aux'
    end.
End Counting.

(** [for r := r0; r < r0+cnt; r++ { count[r+1] += count[r] }] *)
Fixpoint cumulate (cnt : nat) (count : list Z) (r : Z) : res (list Z) :=
  match cnt with
  | O => Ok count
  | S c =>
      x <- get count (r + 1) ;; y <- get count r ;;
      count' <- set count (r + 1) (x + y) ;;
      cumulate c count' (r + 1)
  end.

(** [for r := r0; r < r0+cnt; r++ { count[r] += delta }] *)
Fixpoint add_range (cnt : nat) (count : list Z) (r delta : Z) : res (list Z) :=
  match cnt with
  | O => Ok count
  | S c => x <- get count r ;; count' <- set count r (x + delta) ;; add_range c count' (r + 1) delta
  end.

(** generic [for r := r0; r < r0+cnt; r++ { st = body r st }] used for the per-bucket recursions *)
Fixpoint for_range {St : Type} (cnt : nat) (body : Z -> St -> res St) (r : Z) (st : St) : res St :=
  match cnt with
  | O => Ok st
  | S c => st' <- body r st ;; for_range c body (r + 1) st'
  end.

(** ** lsd.go *)
(** top byte of signed integers: buckets 0x80-0xFF come before 0x00-0x7F *)
Definition lsd_rotate (count : list Z) : res (list Z) :=
  cR <- get count R ;; cH <- get count (Z.quot R 2) ;;
  let shift1 := cR - cH in
  let shift2 := cH in
  count1 <- add_range (Z.to_nat (Z.quot R 2)) count 0 shift1 ;;
  add_range (Z.to_nat (R - Z.quot R 2)) count1 (Z.quot R 2) (- shift2).

(** one pass of key-indexed counting over the whole slice (the body of the [for d] loops) *)
Definition lsd_pass {K : Type} (digit : K -> res Z) (rotate : bool) (a aux : list K)
  : res (list K * list K) :=
  count1 <- count_freq digit 0 a (repeat 0 (Z.to_nat (R + 1))) ;;
  count2 <- cumulate (Z.to_nat R) count1 0 ;;
  count3 <- (if rotate then lsd_rotate count2 else Ok count2) ;;
  '(_, aux') <- distribute digit 0 a count3 aux ;;
  a' <- copy_range (length a) a aux' 0 ;;
  Ok (a', aux').

(** [for d := w-1; d >= 0; d--]; after the fix the bucket index is [int(s[d])+1] *)
Fixpoint lsd_str_passes (cnt : nat) (a aux : list str) (d : Z) : res (list str * list str) :=
  match cnt with
  | O => Ok (a, aux)
  | S c =>
      '(a', aux') <- lsd_pass (fun s => get s d) false a aux ;;
      lsd_str_passes c a' aux' (d - 1)
  end.

Definition LSDString (a : list str) (w : Z) : res (list str) :=
  '(a', _) <- lsd_str_passes (Z.to_nat w) a (repeat [] (length a)) (w - 1) ;; Ok a'.

Definition int_digit (shift : Z) (v : Z) : res Z :=
  if shift <? 0 then Panic else Ok (Z.land (Z.shiftr v shift) MASK).

(** [for d := 0; d < W; d++] *)
Fixpoint lsd_int_passes (signed : bool) (cnt : nat) (a aux : list Z) (d : Z)
  : res (list Z * list Z) :=
  match cnt with
  | O => Ok (a, aux)
  | S c =>
      '(a', aux') <- lsd_pass (int_digit (BYTE_SIZE * d)) (signed && (d =? W - 1)) a aux ;;
      lsd_int_passes signed c a' aux' (d + 1)
  end.

Definition LSDInt (a : list Z) : res (list Z) :=
  '(a', _) <- lsd_int_passes true (Z.to_nat W) a (repeat 0 (length a)) 0 ;; Ok a'.

Definition LSDUint (a : list Z) : res (list Z) :=
  '(a', _) <- lsd_int_passes false (Z.to_nat W) a (repeat 0 (length a)) 0 ;; Ok a'.

(** ** msd.go *)
Fixpoint msd_str (fuel : nat) (a aux : list str) (lo hi d : Z) : res (list str * list str) :=
  match fuel with
  | O => Hang
  | S f =>
      if hi <=? lo + CUTOFF then a' <- insertion_range str_ltb a lo hi ;; Ok (a', aux)
      else
        let cnt := Z.to_nat (hi + 1 - lo) in
        count1 <- count_freq_idx (charAt d) 1 cnt a lo (repeat 0 (Z.to_nat (R + 2))) ;;
        count2 <- cumulate (Z.to_nat (R + 1)) count1 0 ;;
        '(count3, aux1) <- distribute_idx (charAt d) 1 cnt a lo count2 aux ;;
        a1 <- copy_back cnt a aux1 lo lo ;;
        for_range (Z.to_nat R)
          (fun r '(a, aux) =>
             c0 <- get count3 r ;; c1 <- get count3 (r + 1) ;;
             msd_str f a aux (lo + c0) (lo + c1 - 1) (d + 1))
          0 (a1, aux1)
  end.

Fixpoint max_len (a : list str) : nat :=
  match a with [] => O | s :: a' => Nat.max (length s) (max_len a') end.

Definition MSDString (a : list str) : res (list str) :=
  '(a', _) <- msd_str (S (S (max_len a))) a (repeat [] (length a)) 0 (len a - 1) 0 ;; Ok a'.

(** top byte of msdInt: the same rotation plus [count[R] = shift1 + count[1]] *)
Definition msd_rotate (count : list Z) : res (list Z) :=
  cR <- get count R ;; cH <- get count (Z.quot R 2) ;;
  let shift1 := cR - cH in
  let shift2 := cH in
  c1 <- get count 1 ;;
  count0 <- set count R (shift1 + c1) ;;
  count1 <- add_range (Z.to_nat (Z.quot R 2)) count0 0 shift1 ;;
  add_range (Z.to_nat (R - Z.quot R 2)) count1 (Z.quot R 2) (- shift2).

Fixpoint msd_int (fuel : nat) (a aux : list Z) (lo hi d : Z) : res (list Z * list Z) :=
  match fuel with
  | O => Hang
  | S f =>
      if hi <=? lo + CUTOFF then a' <- insertion_range Z.ltb a lo hi ;; Ok (a', aux)
      else
        let cnt := Z.to_nat (hi + 1 - lo) in
        let shift := INT_SIZE - BYTE_SIZE - BYTE_SIZE * d in
        count1 <- count_freq_idx (int_digit shift) 0 cnt a lo (repeat 0 (Z.to_nat (R + 1))) ;;
        count2 <- cumulate (Z.to_nat R) count1 0 ;;
        count3 <- (if d =? 0 then msd_rotate count2 else Ok count2) ;;
        '(count4, aux1) <- distribute_idx (int_digit shift) 0 cnt a lo count3 aux ;;
        a1 <- copy_back cnt a aux1 lo lo ;;
        if d =? W - 1 then Ok (a1, aux1)
        else
          st1 <- (if d =? 0 then
                    c <- get count4 (Z.quot R 2) ;;
                    if 0 <? c then msd_int f a1 aux1 lo (lo + c - 1) (d + 1) else Ok (a1, aux1)
                  else Ok (a1, aux1)) ;;
          st2 <- (if negb (d =? 0) then
                    c <- get count4 0 ;;
                    if 0 <? c then msd_int f (fst st1) (snd st1) lo (lo + c - 1) (d + 1) else Ok st1
                  else Ok st1) ;;
          for_range (Z.to_nat R)
            (fun r '(a, aux) =>
               c0 <- get count4 r ;; c1 <- get count4 (r + 1) ;;
               if c0 <? c1 then msd_int f a aux (lo + c0) (lo + c1 - 1) (d + 1) else Ok (a, aux))
            0 st2
  end.

Definition MSDInt (a : list Z) : res (list Z) :=
  '(a', _) <- msd_int (S (Z.to_nat W)) a (repeat 0 (length a)) 0 (len a - 1) 0 ;; Ok a'.

(** msdUint after the fix: bucket 0 first, at every depth, then buckets 1..R-1 *)
Fixpoint msd_uint (fuel : nat) (a aux : list Z) (lo hi d : Z) : res (list Z * list Z) :=
  match fuel with
  | O => Hang
  | S f =>
      if hi <=? lo + CUTOFF then a' <- insertion_range Z.ltb a lo hi ;; Ok (a', aux)
      else
        let cnt := Z.to_nat (hi + 1 - lo) in
        let shift := INT_SIZE - BYTE_SIZE - BYTE_SIZE * d in
        count1 <- count_freq_idx (int_digit shift) 0 cnt a lo (repeat 0 (Z.to_nat (R + 1))) ;;
        count2 <- cumulate (Z.to_nat R) count1 0 ;;
        '(count4, aux1) <- distribute_idx (int_digit shift) 0 cnt a lo count2 aux ;;
        a1 <- copy_back cnt a aux1 lo lo ;;
        if d =? W - 1 then Ok (a1, aux1)
        else
          st1 <- (c <- get count4 0 ;;
                  if 0 <? c then msd_uint f a1 aux1 lo (lo + c - 1) (d + 1) else Ok (a1, aux1)) ;;
          for_range (Z.to_nat R)
            (fun r '(a, aux) =>
               c0 <- get count4 r ;; c1 <- get count4 (r + 1) ;;
               if c0 <? c1 then msd_uint f a aux (lo + c0) (lo + c1 - 1) (d + 1) else Ok (a, aux))
            0 st1
  end.

Definition MSDUint (a : list Z) : res (list Z) :=
  '(a', _) <- msd_uint (S (Z.to_nat W)) a (repeat 0 (length a)) 0 (len a - 1) 0 ;; Ok a'.

(** ** quick.go (3-way radix quicksort) *)
Fixpoint q3s_loop (fuel : nat) (a : list str) (v d lt i gt : Z) : res (list str * Z * Z) :=
  match fuel with
  | O => Hang
  | S f =>
      if i <=? gt then
        x <- get a i ;; c <- charAt d x ;;
        if c <? v then a' <- swap a lt i ;; q3s_loop f a' v d (lt + 1) (i + 1) gt
        else if v <? c then a' <- swap a i gt ;; q3s_loop f a' v d lt i (gt - 1)
        else q3s_loop f a v d lt (i + 1) gt
      else Ok (a, lt, gt)
  end.

Fixpoint q3s (fuel : nat) (a : list str) (lo hi d : Z) : res (list str) :=
  match fuel with
  | O => Hang
  | S f =>
      if hi <=? lo + CUTOFF then insertion_range str_ltb a lo hi
      else
        x <- get a lo ;; v <- charAt d x ;;
        '(a1, lt, gt) <- q3s_loop (S (Z.to_nat (hi - lo))) a v d lo (lo + 1) hi ;;
        a2 <- q3s f a1 lo (lt - 1) d ;;
        a3 <- (if 0 <=? v then q3s f a2 lt gt (d + 1) else Ok a2) ;;
        q3s f a3 (gt + 1) hi d
  end.

(** the deterministic core ([VerifQuick3WayString] hook) *)
Definition Quick3WayStringCore (a : list str) : res (list str) :=
  q3s (S (S (length a + max_len a))) a 0 (len a - 1) 0.

Definition Quick3WayString (rnd : Z -> Z) (a : list str) : res (list str) :=
  a' <- Shuffle rnd a ;; Quick3WayStringCore a'.
