(** C07 — merge.go: [Merge] (bottom-up) and [MergeRec] (top-down) sort, total correctness. *)
From Algo.C07 Require Import ArrLemmas.
Open Scope Z_scope.

(** * half-open segments [a[i..j-1]] of a slice *)
Section Seg.
  Context {T : Type}.
  Implicit Types (a b : list T) (i j : Z).

  Definition seg a i j : list T := firstn (Z.to_nat (j - i)) (skipn (Z.to_nat i) a).

  Lemma firstn_plus (l : list T) n m : firstn (n + m) l = firstn n l ++ firstn m (skipn n l).
  Proof.
    revert l. induction n as [|n IH]; intros [|h t]; simpl; auto.
    - now rewrite firstn_nil.
    - f_equal. apply IH.
  Qed.

  Lemma skipn_plus (l : list T) n m : skipn (n + m) l = skipn m (skipn n l).
  Proof.
    revert l. induction n as [|n IH]; intros [|h t]; simpl; auto.
    now rewrite skipn_nil.
  Qed.

  Lemma nth_error_firstn_lt (l : list T) n p : (p < n)%nat -> nth_error (firstn n l) p = nth_error l p.
  Proof.
    revert l p. induction n as [|n IH]; intros [|h t] [|p] H; simpl; auto; try lia.
    apply IH. lia.
  Qed.

  Lemma nth_error_skipn' (l : list T) k p : nth_error (skipn k l) p = nth_error l (k + p).
  Proof.
    revert l. induction k as [|k IH]; intros l; simpl; auto.
    destruct l as [|h t]; simpl; auto. destruct p; reflexivity.
  Qed.

  Lemma skipn_nth_error (l : list T) k x : nth_error l k = Some x -> skipn k l = x :: skipn (S k) l.
  Proof.
    revert k. induction l as [|h t IH]; intros [|k] H; simpl in *; try discriminate.
    - inversion H. reflexivity.
    - apply IH. exact H.
  Qed.

  Lemma seg_empty a i j : j <= i -> seg a i j = [].
  Proof. intros H. unfold seg. replace (Z.to_nat (j - i)) with O by lia. reflexivity. Qed.

  Lemma seg_split a i m j : 0 <= i -> i <= m -> m <= j -> seg a i j = seg a i m ++ seg a m j.
  Proof.
    intros H0 H1 H2. unfold seg.
    replace (Z.to_nat (j - i)) with (Z.to_nat (m - i) + Z.to_nat (j - m))%nat by lia.
    rewrite firstn_plus. f_equal. f_equal.
    replace (Z.to_nat m) with (Z.to_nat i + Z.to_nat (m - i))%nat by lia.
    symmetry. apply skipn_plus.
  Qed.

  Lemma seg_full a : seg a 0 (len a) = a.
  Proof.
    unfold seg, len. replace (Z.to_nat (Z.of_nat (length a) - 0)) with (length a) by lia.
    change (Z.to_nat 0) with O. cbn [skipn]. apply firstn_all.
  Qed.

  Lemma seg_length a i j : 0 <= i -> i <= j -> j <= len a -> length (seg a i j) = Z.to_nat (j - i).
  Proof.
    unfold seg, len. intros H0 H1 H2. rewrite firstn_length, skipn_length. lia.
  Qed.

  Lemma seg_length_le a i j : (length (seg a i j) <= Z.to_nat (j - i))%nat.
  Proof. unfold seg. apply firstn_le_length. Qed.

  Lemma get_seg a i j p : 0 <= i -> 0 <= p < j - i -> get (seg a i j) p = get a (i + p).
  Proof.
    intros H0 Hp. unfold get.
    destruct (p <? 0) eqn:E1; [apply Z.ltb_lt in E1; lia|].
    destruct (i + p <? 0) eqn:E2; [apply Z.ltb_lt in E2; lia|].
    unfold seg. rewrite nth_error_firstn_lt by lia. rewrite nth_error_skipn'.
    replace (Z.to_nat (i + p)) with (Z.to_nat i + Z.to_nat p)%nat by lia. reflexivity.
  Qed.

  Lemma seg_ext a b i j :
    0 <= i -> i <= j -> j <= len a -> len b = len a ->
    (forall p, i <= p < j -> get b p = get a p) -> seg b i j = seg a i j.
  Proof.
    intros H0 H1 H2 L E. apply get_ext.
    - unfold len at 1 2. rewrite !seg_length by lia. reflexivity.
    - intros p Hp. unfold len in Hp at 1. rewrite seg_length in Hp by lia.
      rewrite !get_seg by lia. apply E. lia.
  Qed.

  Lemma In_seg a i j y : 0 <= i -> In y (seg a i j) -> exists r, i <= r < j /\ get a r = Ok y.
  Proof.
    intros H0 H. apply In_get in H. destruct H as [p Hp].
    pose proof (get_Ok_range _ _ _ Hp) as R. unfold len in R.
    pose proof (seg_length_le a i j) as L.
    exists (i + p). split; [lia|]. rewrite <- (get_seg a i j p) by lia. exact Hp.
  Qed.

  Lemma seg_In a i j r y : 0 <= i -> i <= r < j -> get a r = Ok y -> In y (seg a i j).
  Proof.
    intros H0 Hr G. apply (get_Ok_In (seg a i j) (r - i)).
    rewrite get_seg by lia. replace (i + (r - i)) with r by lia. exact G.
  Qed.

  Lemma seg_cons a i j x : get a i = Ok x -> i < j -> seg a i j = x :: seg a (i + 1) j.
  Proof.
    intros G H. apply get_Ok_iff in G. destruct G as [H0 G]. unfold seg.
    replace (Z.to_nat (j - i)) with (S (Z.to_nat (j - (i + 1)))) by lia.
    rewrite (skipn_nth_error _ _ _ G). cbn [firstn].
    replace (Z.to_nat (i + 1)) with (S (Z.to_nat i)) by lia. reflexivity.
  Qed.

  (** a change confined to [lo..hi-1] that permutes that segment permutes the slice *)
  Lemma seg_perm_whole a a' lo hi :
    0 <= lo -> lo <= hi -> hi <= len a -> len a' = len a ->
    same_outside a a' lo (hi - 1) ->
    Permutation (seg a lo hi) (seg a' lo hi) -> Permutation a a'.
  Proof.
    intros H0 H1 H2 L So P.
    assert (D : forall c : list T, len c = len a ->
              c = seg c 0 lo ++ seg c lo hi ++ seg c hi (len c)).
    { intros c Lc. rewrite <- seg_split by lia. rewrite <- seg_split by lia.
      symmetry. apply seg_full. }
    rewrite (D a eq_refl). rewrite (D a' L).
    rewrite (seg_ext a a' 0 lo) by (try lia; intros p Hp; apply So; lia).
    rewrite L.
    rewrite (seg_ext a a' hi (len a)) by (try lia; intros p Hp; apply So; lia).
    apply Permutation_app_head. apply Permutation_app_tail. exact P.
  Qed.

  (** [copy_range cnt dst src i]: [dst[i..i+cnt-1] = src[i..i+cnt-1]], nothing else changes *)
  Lemma copy_range_spec cnt : forall (dst src : list T) i,
    0 <= i -> i + Z.of_nat cnt <= len src -> i + Z.of_nat cnt <= len dst ->
    exists d, copy_range cnt dst src i = Ok d /\ len d = len dst /\
      (forall p, i <= p < i + Z.of_nat cnt -> get d p = get src p) /\
      (forall p, p < i \/ i + Z.of_nat cnt <= p -> get d p = get dst p).
  Proof.
    induction cnt as [|c IH]; intros dst src i H0 Hs Hd.
    - exists dst. cbn [copy_range]. split; [reflexivity|]. split; [reflexivity|].
      split; intros p Hp; [lia | reflexivity].
    - cbn [copy_range].
      destruct (get_in_range src i) as [x Hx]; [lia|]. rewrite Hx; cbn [bind].
      assert (Hset : set dst i x = Ok (upd dst (Z.to_nat i) x)) by (apply set_Ok; lia).
      rewrite Hset; cbn [bind].
      destruct (IH (upd dst (Z.to_nat i) x) src (i + 1)) as (d & Hd' & Ld & Hin & Hout);
        [lia | lia | rewrite len_upd; lia |].
      exists d. split; [exact Hd'|]. split; [rewrite Ld; apply len_upd|]. split.
      + intros p Hp. destruct (Z.eq_dec p i) as [->|N].
        * rewrite Hout by lia. rewrite (get_set_eq _ _ _ _ Hset). symmetry. exact Hx.
        * apply Hin. lia.
      + intros p Hp. rewrite Hout by lia. apply (get_set_neq _ _ _ _ _ Hset). lia.
  Qed.
End Seg.

(** * the merge step *)
Section Merge.
  Context {T : Type} (cmp : T -> T -> Z) (TP : TotalPreorder cmp).
  Implicit Types (a aux : list T) (i j k lo mid hi : Z).

  Lemma sorted_on_ext a b lo hi :
    (forall p, lo <= p <= hi -> get b p = get a p) -> sorted_on cmp a lo hi -> sorted_on cmp b lo hi.
  Proof.
    intros E S i j x y Hi Hij Hj Gx Gy.
    apply (S i j x y); auto; rewrite <- E by lia; assumption.
  Qed.

  Lemma sorted_on_sub a lo hi lo' hi' :
    lo <= lo' -> hi' <= hi -> sorted_on cmp a lo hi -> sorted_on cmp a lo' hi'.
  Proof. intros L H S i j x y Hi Hij Hj. apply S; lia. Qed.

  Lemma sorted_on_single a lo hi : hi <= lo -> sorted_on cmp a lo hi.
  Proof.
    intros H i j x y Hi Hij Hj Gx Gy. assert (i = j) by lia. subst j.
    assert (x = y) by congruence. subst y. rewrite (cmp_refl cmp TP). lia.
  Qed.

  Lemma sorted_on_join a lo mid hi x y :
    sorted_on cmp a lo mid -> sorted_on cmp a (mid + 1) hi ->
    get a mid = Ok y -> get a (mid + 1) = Ok x -> cmp y x <= 0 ->
    sorted_on cmp a lo hi.
  Proof.
    intros S1 S2 Gy Gx C i j u v Hi Hij Hj Gu Gv.
    destruct (Z_le_gt_dec j mid) as [Jm|Jm]; [apply (S1 i j u v); auto; lia|].
    destruct (Z_le_gt_dec (mid + 1) i) as [Im|Im]; [apply (S2 i j u v); auto; lia|].
    apply (tp_trans cmp TP u y v); [apply (S1 i mid u y); auto; lia|].
    apply (tp_trans cmp TP y x v); [exact C|]. apply (S2 (mid + 1) j x v); auto; lia.
  Qed.

  (** what one iteration of the merge loop establishes, given the result of the remaining ones *)
  Lemma merge_step_post a a1 a' k hi x (L L' : list T) :
    0 <= k -> k <= hi -> hi < len a ->
    set a k x = Ok a1 ->
    len a' = len a1 ->
    same_outside a1 a' (k + 1) hi ->
    Permutation (seg a' (k + 1) (hi + 1)) L' ->
    sorted_on cmp a' (k + 1) hi ->
    (forall y, In y L' -> cmp x y <= 0) ->
    Permutation (x :: L') L ->
    len a' = len a /\ same_outside a a' k hi /\
    Permutation (seg a' k (hi + 1)) L /\ sorted_on cmp a' k hi.
  Proof.
    intros Hk Hkh Hhi Hs Ll So P S B PL.
    assert (Gk : get a' k = Ok x).
    { rewrite So by lia. eapply get_set_eq; eauto. }
    split. { rewrite Ll. eapply set_len; eauto. }
    split. { intros p Hp. rewrite So by lia. eapply get_set_neq; eauto. lia. }
    split.
    { rewrite (seg_cons a' k (hi + 1) x Gk) by lia.
      eapply Permutation_trans; [apply perm_skip; exact P | exact PL]. }
    intros i j u v Hi Hij Hj Gu Gv.
    destruct (Z.eq_dec i k) as [->|Ni].
    - assert (u = x) by congruence. subst u.
      destruct (Z.eq_dec j k) as [->|Nj].
      + assert (v = x) by congruence. subst v. rewrite (cmp_refl cmp TP). lia.
      + apply B. eapply Permutation_in; [exact P|].
        apply (seg_In a' (k + 1) (hi + 1) j v); [lia | lia | exact Gv].
    - apply (S i j u v); try lia; assumption.
  Qed.

  Lemma merge_loop_spec cnt : forall a aux k i j mid hi,
    0 <= i -> i <= mid + 1 -> mid + 1 <= j -> j <= hi + 1 -> hi < len a -> hi < len aux ->
    k = i + j - mid - 1 -> Z.of_nat cnt = hi + 1 - k ->
    sorted_on cmp aux i mid -> sorted_on cmp aux j hi ->
    exists a', merge_loop cmp cnt a aux k i j mid hi = Ok a' /\ len a' = len a /\
      same_outside a a' k hi /\
      Permutation (seg a' k (hi + 1)) (seg aux i (mid + 1) ++ seg aux j (hi + 1)) /\
      sorted_on cmp a' k hi.
  Proof.
    induction cnt as [|c IH]; intros a aux k i j mid hi Hi Him Hmj Hjh Hha Hhx Hk Hc Si Sj.
    - exists a. cbn [merge_loop]. split; [reflexivity|]. split; [reflexivity|].
      split; [apply same_outside_refl|].
      rewrite !seg_empty by lia. split; [constructor|]. apply sorted_on_single. lia.
    - cbn [merge_loop].
      assert (Hset : forall x, set a k x = Ok (upd a (Z.to_nat k) x)) by (intros x; apply set_Ok; lia).
      assert (Hlen1 : forall x, hi < len (upd a (Z.to_nat k) x)) by (intros x; rewrite len_upd; exact Hha).
      destruct (mid <? i) eqn:E1; [apply Z.ltb_lt in E1 | apply Z.ltb_ge in E1].
      { (* left run exhausted: take aux[j] *)
        destruct (get_in_range aux j) as [x Hx]; [lia|]. rewrite Hx; cbn [bind].
        rewrite (Hset x); cbn [bind].
        assert (Sj' : sorted_on cmp aux (j + 1) hi) by (eapply sorted_on_sub; [| |exact Sj]; lia).
        destruct (IH (upd a (Z.to_nat k) x) aux (k + 1) i (j + 1) mid hi
                   ltac:(lia) ltac:(lia) ltac:(lia) ltac:(lia) (Hlen1 x) Hhx ltac:(lia) ltac:(lia) Si Sj')
          as (a' & Ha' & La & So & P & S).
        exists a'. split; [exact Ha'|].
        apply (merge_step_post a (upd a (Z.to_nat k) x) a' k hi x _ (seg aux i (mid + 1) ++ seg aux (j + 1) (hi + 1)));
          try assumption; try lia.
        - apply Hset.
        - intros y Hy. apply in_app_or in Hy. destruct Hy as [Hy|Hy];
            apply In_seg in Hy; try lia; destruct Hy as (r & Hr & Gr); [lia|].
          apply (Sj j r x y); try lia; assumption.
        - rewrite (seg_cons aux j (hi + 1) x Hx) by lia. apply Permutation_middle. }
      destruct (hi <? j) eqn:E2; [apply Z.ltb_lt in E2 | apply Z.ltb_ge in E2].
      { (* right run exhausted: take aux[i] *)
        destruct (get_in_range aux i) as [x Hx]; [lia|]. rewrite Hx; cbn [bind].
        rewrite (Hset x); cbn [bind].
        assert (Si' : sorted_on cmp aux (i + 1) mid) by (eapply sorted_on_sub; [| |exact Si]; lia).
        destruct (IH (upd a (Z.to_nat k) x) aux (k + 1) (i + 1) j mid hi
                   ltac:(lia) ltac:(lia) ltac:(lia) ltac:(lia) (Hlen1 x) Hhx ltac:(lia) ltac:(lia) Si' Sj)
          as (a' & Ha' & La & So & P & S).
        exists a'. split; [exact Ha'|].
        apply (merge_step_post a (upd a (Z.to_nat k) x) a' k hi x _ (seg aux (i + 1) (mid + 1) ++ seg aux j (hi + 1)));
          try assumption; try lia.
        - apply Hset.
        - intros y Hy. apply in_app_or in Hy. destruct Hy as [Hy|Hy];
            apply In_seg in Hy; try lia; destruct Hy as (r & Hr & Gr); [|lia].
          apply (Si i r x y); try lia; assumption.
        - rewrite (seg_cons aux i (mid + 1) x Hx) by lia. apply Permutation_refl. }
      destruct (get_in_range aux j) as [xj Hxj]; [lia|]. rewrite Hxj; cbn [bind].
      destruct (get_in_range aux i) as [xi Hxi]; [lia|]. rewrite Hxi; cbn [bind].
      destruct (cmp xj xi <? 0) eqn:E3; [apply Z.ltb_lt in E3 | apply Z.ltb_ge in E3].
      { (* aux[j] < aux[i]: take aux[j] *)
        rewrite (Hset xj); cbn [bind].
        assert (Sj' : sorted_on cmp aux (j + 1) hi) by (eapply sorted_on_sub; [| |exact Sj]; lia).
        destruct (IH (upd a (Z.to_nat k) xj) aux (k + 1) i (j + 1) mid hi
                   ltac:(lia) ltac:(lia) ltac:(lia) ltac:(lia) (Hlen1 xj) Hhx ltac:(lia) ltac:(lia) Si Sj')
          as (a' & Ha' & La & So & P & S).
        exists a'. split; [exact Ha'|].
        apply (merge_step_post a (upd a (Z.to_nat k) xj) a' k hi xj _ (seg aux i (mid + 1) ++ seg aux (j + 1) (hi + 1)));
          try assumption; try lia.
        - apply Hset.
        - intros y Hy. apply in_app_or in Hy. destruct Hy as [Hy|Hy];
            apply In_seg in Hy; try lia; destruct Hy as (r & Hr & Gr).
          + assert (cmp xi y <= 0) by (apply (Si i r xi y); try lia; assumption).
            pose proof (cmp_lt_trans_l cmp TP xj xi y E3 H). lia.
          + apply (Sj j r xj y); try lia; assumption.
        - rewrite (seg_cons aux j (hi + 1) xj Hxj) by lia. apply Permutation_middle. }
      { (* aux[i] <= aux[j]: take aux[i] *)
        rewrite (Hset xi); cbn [bind].
        assert (Si' : sorted_on cmp aux (i + 1) mid) by (eapply sorted_on_sub; [| |exact Si]; lia).
        destruct (IH (upd a (Z.to_nat k) xi) aux (k + 1) (i + 1) j mid hi
                   ltac:(lia) ltac:(lia) ltac:(lia) ltac:(lia) (Hlen1 xi) Hhx ltac:(lia) ltac:(lia) Si' Sj)
          as (a' & Ha' & La & So & P & S).
        exists a'. split; [exact Ha'|].
        apply (merge_step_post a (upd a (Z.to_nat k) xi) a' k hi xi _ (seg aux (i + 1) (mid + 1) ++ seg aux j (hi + 1)));
          try assumption; try lia.
        - apply Hset.
        - intros y Hy. apply in_app_or in Hy. destruct Hy as [Hy|Hy];
            apply In_seg in Hy; try lia; destruct Hy as (r & Hr & Gr).
          + apply (Si i r xi y); try lia; assumption.
          + assert (cmp xi xj <= 0) by (apply (cmp_nlt_ge cmp TP); lia).
            apply (tp_trans cmp TP xi xj y); [assumption|].
            apply (Sj j r xj y); try lia; assumption.
        - rewrite (seg_cons aux i (mid + 1) xi Hxi) by lia. apply Permutation_refl. }
  Qed.

  (** the spec of [merge]: two adjacent sorted runs become one, nothing else moves *)
  Lemma merge_run_spec a aux lo mid hi :
    0 <= lo -> lo <= mid + 1 -> mid <= hi -> hi < len a -> len aux = len a ->
    sorted_on cmp a lo mid -> sorted_on cmp a (mid + 1) hi ->
    exists a' aux', merge_run cmp a aux lo mid hi = Ok (a', aux') /\
      len a' = len a /\ len aux' = len a /\
      same_outside a a' lo hi /\ sorted_on cmp a' lo hi /\
      Permutation (seg a lo (hi + 1)) (seg a' lo (hi + 1)) /\ Permutation a a'.
  Proof.
    intros Hlo Hlm Hmh Hha Lx S1 S2. unfold merge_run.
    assert (C : (0 <=? lo) && (lo <=? hi + 1) && (hi + 1 <=? len a) && (hi + 1 <=? len aux) = true).
    { rewrite !andb_true_iff, !Z.leb_le. lia. }
    rewrite C.
    destruct (copy_range_spec (Z.to_nat (hi + 1 - lo)) aux a lo) as (aux' & Hc & Lx' & Hin & Hout);
      try lia.
    rewrite Hc; cbn [bind].
    rewrite Z2Nat.id in Hin by lia.
    assert (Hin' : forall p, lo <= p <= hi -> get aux' p = get a p) by (intros p Hp; apply Hin; lia).
    assert (S1' : sorted_on cmp aux' lo mid).
    { eapply sorted_on_ext; [|exact S1]. intros p Hp. apply Hin'. lia. }
    assert (S2' : sorted_on cmp aux' (mid + 1) hi).
    { eapply sorted_on_ext; [|exact S2]. intros p Hp. apply Hin'. lia. }
    destruct (merge_loop_spec (Z.to_nat (hi + 1 - lo)) a aux' lo lo (mid + 1) mid hi
                ltac:(lia) ltac:(lia) ltac:(lia) ltac:(lia) ltac:(lia) ltac:(lia) ltac:(lia) ltac:(lia) S1' S2')
      as (a' & Hm & La & So & P & S).
    rewrite Hm; cbn [bind]. exists a', aux'.
    rewrite <- seg_split in P by lia.
    rewrite (seg_ext a aux' lo (hi + 1)) in P by (try lia; intros p Hp; apply Hin'; lia).
    split; [reflexivity|]. split; [exact La|]. split; [lia|]. split; [exact So|]. split; [exact S|].
    split; [symmetry; exact P|].
    apply (seg_perm_whole a a' lo (hi + 1)); try lia.
    - replace (hi + 1 - 1) with hi by lia. exact So.
    - symmetry. exact P.
  Qed.

  (** ** top-down merge sort *)
  Lemma merge_rec_spec fuel : forall a aux lo hi,
    0 <= lo -> hi < len a -> len aux = len a -> (0 < fuel)%nat -> hi - lo < Z.of_nat fuel ->
    exists a' aux', merge_rec cmp fuel a aux lo hi = Ok (a', aux') /\
      len a' = len a /\ len aux' = len a /\
      same_outside a a' lo hi /\ Permutation a a' /\ sorted_on cmp a' lo hi.
  Proof.
    induction fuel as [|f IH]; intros a aux lo hi Hlo Hhi Lx Hf Hfu; [lia|].
    cbn [merge_rec]. destruct (hi <=? lo) eqn:E; [apply Z.leb_le in E | apply Z.leb_gt in E].
    - exists a, aux. split; [reflexivity|]. split; [reflexivity|]. split; [exact Lx|].
      split; [apply same_outside_refl|]. split; [apply Permutation_refl|].
      apply sorted_on_single. exact E.
    - cbv zeta.
      assert (Hq : Z.quot (lo + hi) 2 = (lo + hi) / 2) by (apply Z.quot_div_nonneg; lia).
      rewrite Hq. clear Hq.
      assert (Hmid : lo <= (lo + hi) / 2 < hi).
      { split; [apply Z.div_le_lower_bound; lia | apply Z.div_lt_upper_bound; lia]. }
      set (mid := (lo + hi) / 2) in *.
      destruct (IH a aux lo mid ltac:(lia) ltac:(lia) Lx ltac:(lia) ltac:(lia))
        as (a1 & x1 & H1 & La1 & Lx1 & So1 & P1 & S1).
      rewrite H1; cbn [bind].
      destruct (IH a1 x1 (mid + 1) hi ltac:(lia) ltac:(lia) ltac:(lia) ltac:(lia) ltac:(lia))
        as (a2 & x2 & H2 & La2 & Lx2 & So2 & P2 & S2).
      rewrite H2; cbn [bind].
      destruct (get_in_range a2 (mid + 1)) as [x Hx]; [lia|].
      destruct (get_in_range a2 mid) as [y Hy]; [lia|].
      rewrite Hx; cbn [bind]. rewrite Hy; cbn [bind].
      assert (S1' : sorted_on cmp a2 lo mid).
      { eapply sorted_on_ext; [|exact S1]. intros p Hp. apply So2. lia. }
      assert (So : same_outside a a2 lo hi).
      { eapply same_outside_trans; eapply same_outside_widen; try eassumption; lia. }
      destruct (0 <=? cmp x y) eqn:Ec; [apply Z.leb_le in Ec | apply Z.leb_gt in Ec].
      + exists a2, x2. split; [reflexivity|]. split; [lia|]. split; [lia|]. split; [exact So|].
        split; [eapply Permutation_trans; eassumption|].
        apply (sorted_on_join a2 lo mid hi x y S1' S2 Hy Hx).
        apply (cmp_nlt_ge cmp TP). lia.
      + destruct (merge_run_spec a2 x2 lo mid hi ltac:(lia) ltac:(lia) ltac:(lia) ltac:(lia) ltac:(lia) S1' S2)
          as (a3 & x3 & H3 & La3 & Lx3 & So3 & S3 & _ & P3).
        rewrite H3. exists a3, x3. split; [reflexivity|]. split; [lia|]. split; [lia|].
        split; [eapply same_outside_trans; eassumption|].
        split; [|exact S3].
        eapply Permutation_trans; [exact P1|]. eapply Permutation_trans; [exact P2 | exact P3].
  Qed.

  Lemma len_repeat (z : T) n : len (repeat z n) = Z.of_nat n.
  Proof. unfold len. now rewrite repeat_length. Qed.

  Theorem MergeRec_correct_ (zero : T) (a : list T) : sorts_to (cle cmp) (MergeRec cmp zero a) a.
  Proof.
    unfold MergeRec.
    destruct (merge_rec_spec (S (length a)) a (repeat zero (length a)) 0 (len a - 1))
      as (a' & aux' & H & La & _ & _ & P & S); try (rewrite ?len_repeat; unfold len; lia).
    rewrite H; cbn [bind]. exists a'. split; [reflexivity|]. split; [exact P|].
    apply sorted_on_Sorted. rewrite La. exact S.
  Qed.

  (** ** bottom-up merge sort *)
  (** every block [b*sz .. min((b+1)*sz, n) - 1] of [a] is sorted *)
  Definition blocks a (n sz : Z) : Prop :=
    forall b, 0 <= b -> sorted_on cmp a (b * sz) (Z.min (b * sz + sz - 1) (n - 1)).

  (** one pass, entered at [lo = c * 2sz]: the first [c] double blocks are merged already,
      the single blocks from [2c] on are still to be merged pairwise *)
  Lemma merge_pass_spec fuel : forall a aux n sz c lo,
    len a = n -> len aux = len a -> 1 <= sz -> 0 <= c -> lo = c * (sz + sz) ->
    Z.max 0 (n - lo) < Z.of_nat fuel ->
    (forall b, 0 <= b < c ->
       sorted_on cmp a (b * (sz + sz)) (Z.min (b * (sz + sz) + (sz + sz) - 1) (n - 1))) ->
    (forall b, 2 * c <= b -> sorted_on cmp a (b * sz) (Z.min (b * sz + sz - 1) (n - 1))) ->
    exists a' aux', merge_pass cmp fuel a aux n sz lo = Ok (a', aux') /\
      len a' = len a /\ len aux' = len a /\ Permutation a a' /\ blocks a' n (sz + sz).
  Proof.
    induction fuel as [|f IH]; intros a aux n sz c lo Ln Lx Hsz Hc Hlo Hfu P2 P1; [lia|].
    assert (Hlo0 : 0 <= lo) by (subst lo; apply Z.mul_nonneg_nonneg; lia).
    cbn [merge_pass]. destruct (lo <? n - sz) eqn:E; [apply Z.ltb_lt in E | apply Z.ltb_ge in E].
    - set (hi := Z.min (lo + sz + sz - 1) (n - 1)).
      assert (Hhi : lo + sz <= hi /\ hi <= n - 1 /\ hi <= lo + sz + sz - 1) by (subst hi; lia).
      assert (S1 : sorted_on cmp a lo (lo + sz - 1)).
      { pose proof (P1 (2 * c) ltac:(lia)) as S.
        replace (2 * c * sz) with lo in S by (subst lo; ring).
        rewrite Z.min_l in S by lia. exact S. }
      assert (S2 : sorted_on cmp a (lo + sz - 1 + 1) hi).
      { pose proof (P1 (2 * c + 1) ltac:(lia)) as S.
        replace ((2 * c + 1) * sz) with (lo + sz) in S by (subst lo; ring).
        replace (lo + sz - 1 + 1) with (lo + sz) by lia. exact S. }
      destruct (merge_run_spec a aux lo (lo + sz - 1) hi
                  ltac:(lia) ltac:(lia) ltac:(lia) ltac:(lia) Lx S1 S2)
        as (a1 & x1 & H1 & La1 & Lx1 & So1 & S1' & _ & Pm1).
      rewrite H1; cbn [bind].
      destruct (IH a1 x1 n sz (c + 1) (lo + sz + sz)) as (a' & aux' & H & La & Lx' & Pm & B);
        try lia.
      + intros b Hb. destruct (Z.eq_dec b c) as [->|N].
        * replace (c * (sz + sz)) with lo by (subst lo; ring).
          replace (lo + (sz + sz) - 1) with (lo + sz + sz - 1) by lia. exact S1'.
        * assert (Hb' : b * (sz + sz) + (sz + sz) <= lo).
          { subst lo. replace (b * (sz + sz) + (sz + sz)) with ((b + 1) * (sz + sz)) by ring.
            apply Z.mul_le_mono_nonneg_r; lia. }
          eapply sorted_on_ext; [|apply (P2 b); lia].
          intros p Hp. apply So1. lia.
      + intros b Hb.
        assert (Hb' : lo + sz + sz <= b * sz).
        { subst lo. replace (c * (sz + sz) + sz + sz) with ((2 * (c + 1)) * sz) by ring.
          apply Z.mul_le_mono_nonneg_r; lia. }
        eapply sorted_on_ext; [|apply (P1 b); lia].
        intros p Hp. apply So1. lia.
      + rewrite H. exists a', aux'. split; [reflexivity|]. split; [lia|]. split; [lia|].
        split; [eapply Permutation_trans; eassumption | exact B].
    - exists a, aux. split; [reflexivity|]. split; [reflexivity|]. split; [exact Lx|].
      split; [apply Permutation_refl|].
      intros b Hb. destruct (Z_lt_ge_dec b c) as [Lt|Ge]; [apply P2; lia|].
      assert (Hb' : lo <= b * (sz + sz)).
      { subst lo. apply Z.mul_le_mono_nonneg_r; lia. }
      pose proof (P1 (2 * b) ltac:(lia)) as S.
      replace (2 * b * sz) with (b * (sz + sz)) in S by ring.
      rewrite Z.min_r in S by lia. rewrite Z.min_r by lia. exact S.
  Qed.

  Lemma merge_sizes_spec fuel : forall a aux n sz,
    len a = n -> len aux = len a -> 1 <= sz -> Z.max 0 (n - sz) < Z.of_nat fuel ->
    blocks a n sz ->
    exists a' aux', merge_sizes cmp fuel a aux n sz = Ok (a', aux') /\
      len a' = len a /\ Permutation a a' /\ sorted_on cmp a' 0 (n - 1).
  Proof.
    induction fuel as [|f IH]; intros a aux n sz Ln Lx Hsz Hfu B; [lia|].
    cbn [merge_sizes]. destruct (sz <? n) eqn:E; [apply Z.ltb_lt in E | apply Z.ltb_ge in E].
    - destruct (merge_pass_spec (S (length a)) a aux n sz 0 0) as (a1 & x1 & H1 & La1 & Lx1 & P1 & B1);
        try lia.
      + unfold len in Ln. lia.
      + intros b Hb. apply B. lia.
      + rewrite H1; cbn [bind].
        destruct (IH a1 x1 n (sz + sz)) as (a' & aux' & H & La & P & S); try lia; try exact B1.
        rewrite H. exists a', aux'. split; [reflexivity|]. split; [lia|].
        split; [eapply Permutation_trans; eassumption | exact S].
    - exists a, aux. split; [reflexivity|]. split; [reflexivity|]. split; [apply Permutation_refl|].
      pose proof (B 0 ltac:(lia)) as S. rewrite Z.mul_0_l in S. rewrite Z.min_r in S by lia. exact S.
  Qed.

  Theorem Merge_correct_ (zero : T) (a : list T) : sorts_to (cle cmp) (Merge cmp zero a) a.
  Proof.
    unfold Merge.
    destruct (merge_sizes_spec (S (length a)) a (repeat zero (length a)) (len a) 1)
      as (a' & aux' & H & La & P & S); try (rewrite ?len_repeat; unfold len; lia).
    - intros b Hb. apply sorted_on_single. lia.
    - rewrite H; cbn [bind]. exists a'. split; [reflexivity|]. split; [exact P|].
      apply sorted_on_Sorted. rewrite La. exact S.
  Qed.
End Merge.

(** * the contract *)
Theorem Merge_correct : forall (T : Type) (cmp : T -> T -> Z), TotalPreorder cmp ->
  forall (zero : T) (a : list T), sorts_to (cle cmp) (Merge cmp zero a) a.
Proof. intros T cmp TP zero a. apply Merge_correct_. exact TP. Qed.

Theorem MergeRec_correct : forall (T : Type) (cmp : T -> T -> Z), TotalPreorder cmp ->
  forall (zero : T) (a : list T), sorts_to (cle cmp) (MergeRec cmp zero a) a.
Proof. intros T cmp TP zero a. apply MergeRec_correct_. exact TP. Qed.
