(* C07 — arithmetic library about the bytes of 64-bit integers (used by the radix sort proofs). *)
From Algo.C07 Require Import ArrLemmas.
Open Scope Z_scope.

(* ------------------------------------------------------------------ *)
(* helpers on powers of two                                            *)

Lemma pow2_pos : forall n, 0 <= n -> 0 < 2 ^ n.
Proof. intros n Hn. apply Z.pow_pos_nonneg; lia. Qed.

Lemma pow2_8 : 2 ^ 8 = 256.
Proof. reflexivity. Qed.

Lemma pow2_split : forall a b, 0 <= a -> 0 <= b -> 2 ^ (a + b) = 2 ^ a * 2 ^ b.
Proof. intros a b Ha Hb. apply Z.pow_add_r; lia. Qed.

Lemma pow8_succ : forall k, 0 <= k -> 2 ^ (8 * (k + 1)) = 2 ^ (8 * k) * 256.
Proof.
  intros k Hk. replace (8 * (k + 1)) with (8 * k + 8) by lia.
  rewrite pow2_split by lia. rewrite pow2_8. reflexivity.
Qed.

(* ------------------------------------------------------------------ *)
(* byte k of v (k = 0 least significant); floor semantics              *)

Definition dg (k : Z) (v : Z) : Z := (v / 2 ^ (8 * k)) mod 256.

Lemma int_digit_shift : forall s v, 0 <= s ->
  int_digit s v = Ok ((v / 2 ^ s) mod 256).
Proof.
  intros s v Hs. unfold int_digit, MASK.
  destruct (Z.ltb_spec s 0) as [Hlt | Hge]; [lia |].
  rewrite Z.shiftr_div_pow2 by lia.
  change 255 with (Z.ones 8).
  rewrite Z.land_ones by lia.
  rewrite pow2_8. reflexivity.
Qed.

Lemma int_digit_dg : forall k v, 0 <= k -> int_digit (BYTE_SIZE * k) v = Ok (dg k v).
Proof.
  intros k v Hk. unfold BYTE_SIZE, dg.
  apply int_digit_shift. lia.
Qed.

Lemma int_digit_msd : forall d v, 0 <= d <= 7 ->
  int_digit (INT_SIZE - BYTE_SIZE - BYTE_SIZE * d) v = Ok (dg (7 - d) v).
Proof.
  intros d v Hd. unfold INT_SIZE, BYTE_SIZE, dg.
  replace (64 - 8 - 8 * d) with (8 * (7 - d)) by lia.
  apply int_digit_shift. lia.
Qed.

Lemma dg_range : forall k v, 0 <= dg k v < 256.
Proof. intros k v. unfold dg. apply Z.mod_pos_bound. lia. Qed.

(* ------------------------------------------------------------------ *)
(* LSD view: the value of the k low bytes                              *)

Definition low (k : Z) (v : Z) : Z := v mod 2 ^ (8 * k).

Lemma low_0 : forall v, low 0 v = 0.
Proof.
  intros v. unfold low. replace (8 * 0) with 0 by lia.
  rewrite Z.pow_0_r. apply Z.mod_1_r.
Qed.

Lemma low_range : forall k v, 0 <= k -> 0 <= low k v < 2 ^ (8 * k).
Proof.
  intros k v Hk. unfold low. apply Z.mod_pos_bound. apply pow2_pos. lia.
Qed.

Lemma low_succ : forall k v, 0 <= k -> low (k + 1) v = dg k v * 2 ^ (8 * k) + low k v.
Proof.
  intros k v Hk. unfold low, dg.
  rewrite pow8_succ by lia.
  assert (Hp : 0 < 2 ^ (8 * k)) by (apply pow2_pos; lia).
  set (p := 2 ^ (8 * k)) in *.
  rewrite Z.rem_mul_r by lia. lia.
Qed.

Lemma low_le_lex : forall k u v, 0 <= k ->
  (low (k + 1) u <= low (k + 1) v <-> dg k u < dg k v \/ (dg k u = dg k v /\ low k u <= low k v)).
Proof.
  intros k u v Hk.
  rewrite !low_succ by lia.
  pose proof (low_range k u Hk) as Hlu.
  pose proof (low_range k v Hk) as Hlv.
  pose proof (dg_range k u) as Hdu.
  pose proof (dg_range k v) as Hdv.
  set (p := 2 ^ (8 * k)) in *.
  set (lu := low k u) in *. set (lv := low k v) in *.
  set (du := dg k u) in *. set (dv := dg k v) in *.
  split.
  - intros Hle.
    destruct (Z_lt_ge_dec du dv) as [Hlt | Hge]; [left; exact Hlt |].
    right.
    destruct (Z.eq_dec du dv) as [Heq | Hne].
    + split; [exact Heq |]. rewrite Heq in Hle. lia.
    + exfalso.
      assert (Hm : (dv + 1) * p <= du * p) by (apply Z.mul_le_mono_nonneg_r; lia).
      lia.
  - intros [Hlt | [Heq Hle]].
    + assert (Hm : (du + 1) * p <= dv * p) by (apply Z.mul_le_mono_nonneg_r; lia).
      lia.
    + rewrite Heq. lia.
Qed.

Lemma low_8_uint : forall v, uint64 v -> low 8 v = v.
Proof.
  intros v Hv. unfold uint64 in Hv. unfold low.
  change (8 * 8) with 64.
  apply Z.mod_small. exact Hv.
Qed.

(* ------------------------------------------------------------------ *)
(* signed integers: v |-> v + 2^63                                     *)

Definition skey (v : Z) : Z := v + 2 ^ 63.

Lemma pow2_64_63 : 2 ^ 64 = 2 ^ 63 + 2 ^ 63.
Proof.
  replace 64 with (63 + 1) by lia.
  rewrite pow2_split by lia. rewrite Z.pow_1_r. lia.
Qed.

Lemma skey_range : forall v, int64 v -> uint64 (skey v).
Proof.
  intros v Hv. unfold int64 in Hv. unfold uint64, skey.
  rewrite pow2_64_63.
  set (h := 2 ^ 63) in *. lia.
Qed.

Lemma skey_le : forall u v, skey u <= skey v <-> u <= v.
Proof. intros u v. unfold skey. set (h := 2 ^ 63). lia. Qed.

Lemma skey_dg_low : forall k v, 0 <= k < 7 -> dg k (skey v) = dg k v.
Proof.
  intros k v Hk. unfold dg, skey.
  replace 63 with ((55 - 8 * k) + 8 + 8 * k) by lia.
  rewrite (pow2_split (55 - 8 * k + 8) (8 * k)) by lia.
  rewrite (pow2_split (55 - 8 * k) 8) by lia.
  rewrite pow2_8.
  assert (Hp : 0 < 2 ^ (8 * k)) by (apply pow2_pos; lia).
  set (p := 2 ^ (8 * k)) in *.
  set (q := 2 ^ (55 - 8 * k)).
  rewrite Z_div_plus_full by lia.
  rewrite Z_mod_plus_full. reflexivity.
Qed.

Lemma pow2_63_56 : 2 ^ 63 = 128 * 2 ^ 56.
Proof.
  replace 63 with (7 + 56) by lia.
  rewrite pow2_split by lia. reflexivity.
Qed.

Lemma skey_low7 : forall v, low 7 (skey v) = low 7 v.
Proof.
  intros v. unfold low, skey.
  change (8 * 7) with 56.
  rewrite pow2_63_56.
  set (p := 2 ^ 56).
  apply Z_mod_plus_full.
Qed.

Lemma skey_dg7 : forall v, dg 7 (skey v) = (dg 7 v + 128) mod 256.
Proof.
  intros v. unfold dg, skey.
  change (8 * 7) with 56.
  rewrite pow2_63_56.
  assert (Hp : 0 < 2 ^ 56) by (apply pow2_pos; lia).
  set (p := 2 ^ 56) in *.
  rewrite Z_div_plus_full by lia.
  rewrite Zplus_mod_idemp_l. reflexivity.
Qed.

(* the bucket order used by the signed sorts: 128..255 first, then 0..127 *)
Lemma rot_mod : forall b, 0 <= b < 256 ->
  (b + 128) mod 256 = if b <? 128 then b + 128 else b - 128.
Proof.
  intros b Hb. destruct (Z.ltb_spec b 128) as [Hlt | Hge].
  - apply Z.mod_small. lia.
  - symmetry. apply (Zmod_unique (b + 128) 256 1 (b - 128)); lia.
Qed.

Lemma rot_lt : forall b c, 0 <= b < 256 -> 0 <= c < 256 ->
  ((b + 128) mod 256 < (c + 128) mod 256 <->
   (128 <= b /\ c < 128) \/ (b < c /\ (128 <= b <-> 128 <= c))).
Proof.
  intros b c Hb Hc.
  rewrite (rot_mod b Hb), (rot_mod c Hc).
  destruct (Z.ltb_spec b 128) as [Hb1 | Hb1];
    destruct (Z.ltb_spec c 128) as [Hc1 | Hc1]; lia.
Qed.

(* ------------------------------------------------------------------ *)
(* MSD view: the d high bytes of a 64-bit pattern                      *)

Definition high (d : Z) (v : Z) : Z := v / 2 ^ (64 - 8 * d).

Lemma high_0 : forall v, uint64 v -> high 0 v = 0.
Proof.
  intros v Hv. unfold uint64 in Hv. unfold high.
  replace (64 - 8 * 0) with 64 by lia.
  apply Z.div_small. exact Hv.
Qed.

Lemma high_8 : forall v, high 8 v = v.
Proof.
  intros v. unfold high. replace (64 - 8 * 8) with 0 by lia.
  rewrite Z.pow_0_r. apply Z.div_1_r.
Qed.

Lemma high_succ : forall d v, 0 <= d <= 7 -> high (d + 1) v = high d v * 256 + dg (7 - d) v.
Proof.
  intros d v Hd. unfold high, dg.
  replace (64 - 8 * (d + 1)) with (8 * (7 - d)) by lia.
  replace (64 - 8 * d) with (8 * (7 - d) + 8) by lia.
  rewrite pow2_split by lia. rewrite pow2_8.
  assert (Hq : 0 < 2 ^ (8 * (7 - d))) by (apply pow2_pos; lia).
  set (q := 2 ^ (8 * (7 - d))) in *.
  rewrite <- Z.div_div by lia.
  pose proof (Z.div_mod (v / q) 256 ltac:(lia)) as Hdm.
  lia.
Qed.

Lemma high_eq_le : forall d u v, 0 <= d <= 8 -> u <= v -> high d u <= high d v.
Proof.
  intros d u v Hd Huv. unfold high.
  apply Z.div_le_mono; [apply pow2_pos; lia | exact Huv].
Qed.

Lemma high_lt : forall d u v, 0 <= d <= 8 -> high d u < high d v -> u < v.
Proof.
  intros d u v Hd Hlt.
  destruct (Z_lt_ge_dec u v) as [Huv | Hge]; [exact Huv |].
  exfalso.
  pose proof (high_eq_le d v u Hd ltac:(lia)) as Hle. lia.
Qed.
