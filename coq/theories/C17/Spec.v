(** C17 — specification: the equivalence closure of the valid union pairs. *)
From Algo.C17 Require Import Model.
From Coq Require Import Lia.
Open Scope Z_scope.

(** [eqclos n pairs p q]: [p] and [q] are in range and linked by a chain of earlier
    unions whose two arguments were both in range (others are ignored by the code). *)
Inductive eqclos (n : nat) (pairs : list (Z * Z)) : Z -> Z -> Prop :=
| ec_refl p : is_valid n p = true -> eqclos n pairs p p
| ec_base p q : In (p, q) pairs -> is_valid n p = true -> is_valid n q = true -> eqclos n pairs p q
| ec_sym p q : eqclos n pairs p q -> eqclos n pairs q p
| ec_trans p q r : eqclos n pairs p q -> eqclos n pairs q r -> eqclos n pairs p r.

Lemma eqclos_valid n pairs p q :
  eqclos n pairs p q -> is_valid n p = true /\ is_valid n q = true.
Proof. induction 1; intuition. Qed.

Lemma eqclos_mono n pairs pairs' p q :
  incl pairs pairs' -> eqclos n pairs p q -> eqclos n pairs' p q.
Proof.
  intros Hi H; induction H.
  - now apply ec_refl.
  - apply ec_base; auto.
  - now apply ec_sym.
  - eapply ec_trans; eauto.
Qed.

(** Adding one valid pair. *)
Lemma eqclos_snoc n pairs a b p q :
  is_valid n a = true -> is_valid n b = true ->
  (eqclos n (pairs ++ [(a, b)]) p q <->
   eqclos n pairs p q \/ (eqclos n pairs p a /\ eqclos n pairs b q)
                      \/ (eqclos n pairs p b /\ eqclos n pairs a q)).
Proof.
  intros Ha Hb; split.
  - induction 1 as [p Hp | p q Hin Hp Hq | p q _ IH | p q r _ IH1 _ IH2].
    + left; now apply ec_refl.
    + apply in_app_or in Hin; destruct Hin as [Hin | [Heq | []]].
      * left; now apply ec_base.
      * inversion Heq; subst. right; left; split; now apply ec_refl.
    + destruct IH as [H | [[H1 H2] | [H1 H2]]].
      * left; now apply ec_sym.
      * right; right; split; now apply ec_sym.
      * right; left; split; now apply ec_sym.
    + destruct IH1 as [H | [[H1 H2] | [H1 H2]]], IH2 as [K | [[K1 K2] | [K1 K2]]].
      * left; eapply ec_trans; eauto.
      * right; left; split; auto. eapply ec_trans; eauto.
      * right; right; split; auto. eapply ec_trans; eauto.
      * right; left; split; auto. eapply ec_trans; eauto.
      * right; left; split; auto.
      * left. eapply ec_trans; [exact H1|]. eapply ec_trans; [|exact K2]. now apply ec_refl.
      * right; right; split; auto. eapply ec_trans; eauto.
      * left. eapply ec_trans; [exact H1|]. eapply ec_trans; [|exact K2]. now apply ec_refl.
      * right; right; split; auto.
  - intros [H | [[H1 H2] | [H1 H2]]].
    + eapply eqclos_mono; [|exact H]. apply incl_appl, incl_refl.
    + eapply ec_trans; [eapply eqclos_mono; [|exact H1]; apply incl_appl, incl_refl|].
      eapply ec_trans; [|eapply eqclos_mono; [|exact H2]; apply incl_appl, incl_refl].
      apply ec_base; auto. apply in_or_app; right; now left.
    + eapply ec_trans; [eapply eqclos_mono; [|exact H1]; apply incl_appl, incl_refl|].
      eapply ec_trans; [|eapply eqclos_mono; [|exact H2]; apply incl_appl, incl_refl].
      apply ec_sym, ec_base; auto. apply in_or_app; right; now left.
Qed.

(** Adding a pair with an out-of-range argument changes nothing. *)
Lemma eqclos_snoc_invalid n pairs a b p q :
  is_valid n a = false \/ is_valid n b = false ->
  (eqclos n (pairs ++ [(a, b)]) p q <-> eqclos n pairs p q).
Proof.
  intros Hinv; split.
  - induction 1 as [p Hp | p q Hin Hp Hq | p q _ IH | p q r _ IH1 _ IH2].
    + now apply ec_refl.
    + apply in_app_or in Hin; destruct Hin as [Hin | [Heq | []]].
      * now apply ec_base.
      * inversion Heq; subst. destruct Hinv; congruence.
    + now apply ec_sym.
    + eapply ec_trans; eauto.
  - apply eqclos_mono, incl_appl, incl_refl.
Qed.
