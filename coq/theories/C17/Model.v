(** C17 — executable model of unionfind/unionfind.go (quick-find, quick-union,
    weighted quick-union).  Transcription conventions: Go [int] is [Z]; slices are
    [list Z]; the [for p != u.root[p]] loop of [Find] runs on fuel [length root]
    and fuel exhaustion is the distinguished result [Hang]. No proofs here. *)
From Coq Require Export List ZArith Bool.
Export ListNotations.
Open Scope Z_scope.

(** result of [Find]: [(r, true)] is [Found r]; [(-1,false)] is [NotFound]. *)
Inductive fres := Found (r : Z) | NotFound | Hang.

Definition nthZ (l : list Z) (i : Z) : Z := nth (Z.to_nat i) l (-1).

Fixpoint updZ (l : list Z) (i : nat) (v : Z) : list Z :=
  match l, i with
  | [], _ => []
  | _ :: t, O => v :: t
  | h :: t, S i' => h :: updZ t i' v
  end.

Definition is_valid (len : nat) (i : Z) : bool := (0 <=? i) && (i <? Z.of_nat len).

Definition iota (n : nat) : list Z := map Z.of_nat (seq 0 n).

(** * quick-find *)
Record qf := { qf_count : Z; qf_id : list Z }.

Definition qf_new (n : nat) : qf := {| qf_count := Z.of_nat n; qf_id := iota n |}.

Definition qf_find (u : qf) (p : Z) : fres :=
  if is_valid (length (qf_id u)) p then Found (nthZ (qf_id u) p) else NotFound.

Definition qf_union (u : qf) (p q : Z) : qf :=
  if negb (is_valid (length (qf_id u)) p) || negb (is_valid (length (qf_id u)) q) then u
  else
    let pid := nthZ (qf_id u) p in
    let qid := nthZ (qf_id u) q in
    if pid =? qid then u
    else {| qf_count := qf_count u - 1;
            qf_id := map (fun x => if x =? pid then qid else x) (qf_id u) |}.

Definition qf_connected (u : qf) (p q : Z) : bool :=
  if negb (is_valid (length (qf_id u)) p) || negb (is_valid (length (qf_id u)) q) then false
  else nthZ (qf_id u) p =? nthZ (qf_id u) q.

(** * forests (shared by quick-union and weighted quick-union) *)
Fixpoint climb (fuel : nat) (root : list Z) (p : Z) : fres :=
  match fuel with
  | O => Hang
  | S f => let r := nthZ root p in if p =? r then Found p else climb f root r
  end.

(** [for p != u.root[p] { p = u.root[p] }] needs at most [len-1] iterations on an
    acyclic forest; fuel [len] leaves one unit for the final test. *)
Definition forest_find (root : list Z) (p : Z) : fres :=
  if is_valid (length root) p then climb (length root) root p else NotFound.

(** * quick-union *)
Record qu := { qu_count : Z; qu_root : list Z }.

Definition qu_new (n : nat) : qu := {| qu_count := Z.of_nat n; qu_root := iota n |}.
Definition qu_find (u : qu) (p : Z) : fres := forest_find (qu_root u) p.

Definition qu_union (u : qu) (p q : Z) : qu :=
  if negb (is_valid (length (qu_root u)) p) || negb (is_valid (length (qu_root u)) q) then u
  else
    match qu_find u p, qu_find u q with
    | Found pr, Found qr =>
        if pr =? qr then u
        else {| qu_count := qu_count u - 1; qu_root := updZ (qu_root u) (Z.to_nat pr) qr |}
    | _, _ => u   (* unreachable on reachable states: [Find] never hangs (theorem) *)
    end.

Definition fres_eqb (a b : fres) : bool :=
  match a, b with
  | Found x, Found y => x =? y
  | NotFound, NotFound => true
  | _, _ => false
  end.

Definition qu_connected (u : qu) (p q : Z) : bool :=
  if negb (is_valid (length (qu_root u)) p) || negb (is_valid (length (qu_root u)) q) then false
  else fres_eqb (qu_find u p) (qu_find u q).

(** * weighted quick-union *)
Record wqu := { wqu_count : Z; wqu_root : list Z; wqu_size : list Z }.

Definition wqu_new (n : nat) : wqu :=
  {| wqu_count := Z.of_nat n; wqu_root := iota n; wqu_size := repeat 1 n |}.
Definition wqu_find (u : wqu) (p : Z) : fres := forest_find (wqu_root u) p.

Definition wqu_union (u : wqu) (p q : Z) : wqu :=
  if negb (is_valid (length (wqu_root u)) p) || negb (is_valid (length (wqu_root u)) q) then u
  else
    match wqu_find u p, wqu_find u q with
    | Found pr, Found qr =>
        if pr =? qr then u
        else
          let sp := nthZ (wqu_size u) pr in
          let sq := nthZ (wqu_size u) qr in
          if sp <? sq then
            {| wqu_count := wqu_count u - 1;
               wqu_root := updZ (wqu_root u) (Z.to_nat pr) qr;
               wqu_size := updZ (wqu_size u) (Z.to_nat qr) (sq + sp) |}
          else
            {| wqu_count := wqu_count u - 1;
               wqu_root := updZ (wqu_root u) (Z.to_nat qr) pr;
               wqu_size := updZ (wqu_size u) (Z.to_nat pr) (sp + sq) |}
    | _, _ => u
    end.

Definition wqu_connected (u : wqu) (p q : Z) : bool :=
  if negb (is_valid (length (wqu_root u)) p) || negb (is_valid (length (wqu_root u)) q) then false
  else fres_eqb (wqu_find u p) (wqu_find u q).

(** * uniform interface used by the theorems and by the extracted driver *)
Inductive impl := QF | QU | WQU.
Inductive state := SQF (u : qf) | SQU (u : qu) | SWQU (u : wqu).

Definition new (i : impl) (n : nat) : state :=
  match i with QF => SQF (qf_new n) | QU => SQU (qu_new n) | WQU => SWQU (wqu_new n) end.
Definition union (s : state) (p q : Z) : state :=
  match s with
  | SQF u => SQF (qf_union u p q) | SQU u => SQU (qu_union u p q) | SWQU u => SWQU (wqu_union u p q)
  end.
Definition find (s : state) (p : Z) : fres :=
  match s with SQF u => qf_find u p | SQU u => qu_find u p | SWQU u => wqu_find u p end.
Definition connected (s : state) (p q : Z) : bool :=
  match s with
  | SQF u => qf_connected u p q | SQU u => qu_connected u p q | SWQU u => wqu_connected u p q
  end.
Definition count (s : state) : Z :=
  match s with SQF u => qf_count u | SQU u => qu_count u | SWQU u => wqu_count u end.
Definition len (s : state) : nat :=
  match s with
  | SQF u => length (qf_id u) | SQU u => length (qu_root u) | SWQU u => length (wqu_root u)
  end.

Definition run (i : impl) (n : nat) (ops : list (Z * Z)) : state :=
  fold_left (fun s pq => union s (fst pq) (snd pq)) ops (new i n).
