(** C17 — proofs: every reachable state of the three union-find models represents
    the equivalence closure of the unions so far. *)
From Algo.C17 Require Import Model Spec.
From Coq Require Import Lia FinFun.
Open Scope Z_scope.

(** * arrays *)
Lemma is_valid_spec n i : is_valid n i = true <-> 0 <= i < Z.of_nat n.
Proof. unfold is_valid. rewrite andb_true_iff, Z.leb_le, Z.ltb_lt. tauto. Qed.

Lemma is_valid_false n i : is_valid n i = false <-> ~ (0 <= i < Z.of_nat n).
Proof. rewrite <- is_valid_spec. destruct (is_valid n i); intuition congruence. Qed.

Lemma updZ_length l i v : length (updZ l i v) = length l.
Proof. revert i; induction l as [|h t IH]; intros [|i]; simpl; auto. Qed.

Lemma nth_updZ l i v j d :
  nth j (updZ l i v) d = if Nat.eqb j i then (if Nat.ltb i (length l) then v else d) else nth j l d.
Proof.
  revert i j; induction l as [|h t IH]; intros i j; simpl.
  - destruct (Nat.eqb j i); destruct j, i; reflexivity.
  - destruct i as [|i], j as [|j]; simpl; auto.
    rewrite IH. destruct (Nat.eqb j i); auto.
Qed.

Lemma nthZ_updZ l a v i :
  0 <= a < Z.of_nat (length l) -> 0 <= i ->
  nthZ (updZ l (Z.to_nat a) v) i = if i =? a then v else nthZ l i.
Proof.
  intros Ha Hi. unfold nthZ. rewrite nth_updZ.
  destruct (Z.eqb_spec i a) as [->|Hne].
  - rewrite Nat.eqb_refl. destruct (Nat.ltb_spec (Z.to_nat a) (length l)); auto; lia.
  - destruct (Nat.eqb_spec (Z.to_nat i) (Z.to_nat a)); auto; lia.
Qed.

Lemma nthZ_map f l i :
  0 <= i < Z.of_nat (length l) -> nthZ (map f l) i = f (nthZ l i).
Proof.
  intros Hi. unfold nthZ. rewrite (nth_indep _ _ (f (-1))) by (rewrite map_length; lia).
  apply map_nth.
Qed.

Lemma iota_length n : length (iota n) = n.
Proof. unfold iota. now rewrite map_length, seq_length. Qed.

Lemma nthZ_iota n i : 0 <= i < Z.of_nat n -> nthZ (iota n) i = i.
Proof.
  intros Hi. unfold nthZ, iota.
  rewrite (nth_indep _ _ (Z.of_nat 0)) by (rewrite map_length, seq_length; lia).
  rewrite map_nth, seq_nth by lia. lia.
Qed.

Lemma In_iota n i : In i (iota n) <-> 0 <= i < Z.of_nat n.
Proof.
  unfold iota. rewrite in_map_iff. split.
  - intros (k & <- & Hk). apply in_seq in Hk. lia.
  - intros Hi. exists (Z.to_nat i). split; [lia|]. apply in_seq. lia.
Qed.

Lemma NoDup_iota n : NoDup (iota n).
Proof.
  unfold iota. apply FinFun.Injective_map_NoDup; [|apply seq_NoDup].
  intros x y. lia.
Qed.

(** number of elements satisfying [f] when exactly one element flips from true to false *)
Lemma filter_flip_one (f g : Z -> bool) (l : list Z) a :
  NoDup l -> In a l -> f a = true -> g a = false ->
  (forall x, In x l -> x <> a -> g x = f x) ->
  length (filter f l) = S (length (filter g l)).
Proof.
  induction l as [|h t IH]; intros Hnd Hin Hfa Hga Hsame; [destruct Hin|].
  inversion Hnd as [|? ? Hnotin Hnd']; subst.
  destruct Hin as [->|Hin].
  - simpl. rewrite Hfa, Hga. simpl. f_equal. f_equal.
    apply filter_ext_in. intros x Hx. symmetry. apply Hsame; [now right|].
    intros ->. contradiction.
  - assert (h <> a) by (intros ->; contradiction).
    simpl. rewrite (Hsame h) by (simpl; auto).
    destruct (f h); simpl; rewrite (IH Hnd' Hin Hfa Hga); auto;
      intros y Hy; apply Hsame; now right.
Qed.

Lemma filter_ext_in' (f g : Z -> bool) l :
  (forall x, In x l -> f x = g x) -> filter f l = filter g l.
Proof. apply filter_ext_in. Qed.

Lemma eqclos_nil n p q : eqclos n [] p q -> p = q.
Proof. induction 1 as [| ? ? [] | |]; congruence. Qed.

(** * the abstract invariant all three implementations establish *)
Definition canonical (s : state) (r : Z) : bool := fres_eqb (find s r) (Found r).

Record Good (s : state) (n : nat) (pairs : list (Z * Z)) : Prop := {
  g_len : len s = n;
  g_invalid : forall p, is_valid n p = false -> find s p = NotFound;
  g_rep : exists rep : Z -> Z,
      (forall p, is_valid n p = true ->
                 find s p = Found (rep p) /\ is_valid n (rep p) = true /\ rep (rep p) = rep p)
      /\ (forall p q, is_valid n p = true -> is_valid n q = true ->
                      (rep p = rep q <-> eqclos n pairs p q));
  g_count : count s = Z.of_nat (length (filter (canonical s) (iota n)))
}.

(** * quick-find *)
Definition qf_fix (id : list Z) (i : Z) : bool := nthZ id i =? i.

Record InvQF (u : qf) (n : nat) (pairs : list (Z * Z)) : Prop := {
  qf_len : length (qf_id u) = n;
  qf_idem : forall i, is_valid n i = true ->
                      is_valid n (nthZ (qf_id u) i) = true /\
                      nthZ (qf_id u) (nthZ (qf_id u) i) = nthZ (qf_id u) i;
  qf_clos : forall i j, is_valid n i = true -> is_valid n j = true ->
                        (nthZ (qf_id u) i = nthZ (qf_id u) j <-> eqclos n pairs i j);
  qf_cnt : qf_count u = Z.of_nat (length (filter (qf_fix (qf_id u)) (iota n)))
}.

Lemma InvQF_init n : InvQF (qf_new n) n [].
Proof.
  split; simpl.
  - apply iota_length.
  - intros i Hi. apply is_valid_spec in Hi. rewrite !nthZ_iota by lia.
    split; auto. now apply is_valid_spec.
  - intros i j Hi Hj. pose proof Hi as Hi'; pose proof Hj as Hj'.
    apply is_valid_spec in Hi', Hj'. rewrite !nthZ_iota by lia. split.
    + intros ->. now apply ec_refl.
    + apply eqclos_nil.
  - f_equal. rewrite <- (iota_length n) at 1.
    rewrite (filter_ext_in' _ (fun _ => true)).
    + clear. induction (iota n); simpl; auto.
    + intros x Hx. apply In_iota in Hx. unfold qf_fix. rewrite nthZ_iota by lia. apply Z.eqb_refl.
Qed.

Lemma InvQF_union u n pairs p q :
  InvQF u n pairs -> InvQF (qf_union u p q) n (pairs ++ [(p, q)]).
Proof.
  intros [Hlen Hidem Hclos Hcnt]. unfold qf_union. rewrite Hlen.
  destruct (is_valid n p) eqn:Hp; simpl.
  2:{ split; auto. intros i j Hi Hj. rewrite eqclos_snoc_invalid by auto. auto. }
  destruct (is_valid n q) eqn:Hq; simpl.
  2:{ split; auto. intros i j Hi Hj. rewrite eqclos_snoc_invalid by auto. auto. }
  set (pid := nthZ (qf_id u) p). set (qid := nthZ (qf_id u) q).
  destruct (Hidem p Hp) as [Hvp Hip]. destruct (Hidem q Hq) as [Hvq Hiq].
  fold pid in Hvp, Hip. fold qid in Hvq, Hiq.
  destruct (Z.eqb_spec pid qid) as [Heq|Hne].
  { split; auto. intros i j Hi Hj. rewrite eqclos_snoc by auto.
    rewrite <- !Hclos by auto. fold pid qid. split; [tauto|].
    intros [H|[[H1 H2]|[H1 H2]]]; congruence. }
  assert (Hnth : forall i, is_valid n i = true ->
            nthZ (map (fun x => if x =? pid then qid else x) (qf_id u)) i =
            if nthZ (qf_id u) i =? pid then qid else nthZ (qf_id u) i).
  { intros i Hi. apply is_valid_spec in Hi. rewrite nthZ_map by lia. reflexivity. }
  split; simpl.
  - now rewrite map_length.
  - intros i Hi. rewrite Hnth by auto. destruct (Hidem i Hi) as [Hvi Hii].
    destruct (Z.eqb_spec (nthZ (qf_id u) i) pid).
    + split; auto. rewrite Hnth by auto. rewrite Hiq.
      destruct (Z.eqb_spec qid pid); congruence.
    + split; auto. rewrite Hnth by auto. rewrite Hii.
      destruct (Z.eqb_spec (nthZ (qf_id u) i) pid); congruence.
  - intros i j Hi Hj. rewrite !Hnth by auto. rewrite eqclos_snoc by auto.
    rewrite <- !Hclos by auto. fold pid qid.
    destruct (Z.eqb_spec (nthZ (qf_id u) i) pid), (Z.eqb_spec (nthZ (qf_id u) j) pid);
      split; intros; lia.
  - rewrite Hcnt.
    rewrite (filter_flip_one (qf_fix (qf_id u))
               (qf_fix (map (fun x => if x =? pid then qid else x) (qf_id u))) (iota n) pid).
    + lia.
    + apply NoDup_iota.
    + apply In_iota. now apply is_valid_spec.
    + unfold qf_fix. now apply Z.eqb_eq.
    + unfold qf_fix. rewrite Hnth by auto. rewrite Hip, Z.eqb_refl. apply Z.eqb_neq. congruence.
    + intros x Hx Hxp. apply In_iota in Hx. assert (Hvx : is_valid n x = true) by now apply is_valid_spec.
      unfold qf_fix. rewrite Hnth by auto.
      destruct (Z.eqb_spec (nthZ (qf_id u) x) pid) as [E|E]; auto.
      destruct (Z.eqb_spec qid x) as [E2|E2], (Z.eqb_spec (nthZ (qf_id u) x) x) as [E3|E3]; auto; try lia.
      subst x. congruence.
Qed.

Lemma InvQF_Good u n pairs : InvQF u n pairs -> Good (SQF u) n pairs.
Proof.
  intros [Hlen Hidem Hclos Hcnt]. split; simpl; auto.
  - intros p Hp. unfold qf_find. now rewrite Hlen, Hp.
  - exists (nthZ (qf_id u)). split.
    + intros p Hp. unfold qf_find. rewrite Hlen, Hp. destruct (Hidem p Hp). auto.
    + auto.
  - rewrite Hcnt. f_equal. f_equal. apply filter_ext_in'. intros x Hx.
    apply In_iota in Hx. unfold canonical, qf_fix; simpl. unfold qf_find.
    rewrite Hlen. replace (is_valid n x) with true by (symmetry; now apply is_valid_spec).
    reflexivity.
Qed.

(** * forests *)
Inductive reachn (root : list Z) : Z -> Z -> nat -> Prop :=
| rn_root r : nthZ root r = r -> reachn root r r 0
| rn_step i r k : nthZ root i <> i -> reachn root (nthZ root i) r k -> reachn root i r (S k).

Lemma reachn_root root i r k : reachn root i r k -> nthZ root r = r.
Proof. induction 1; auto. Qed.

Lemma reachn_det root i r k : reachn root i r k -> forall r' k', reachn root i r' k' -> r = r' /\ k = k'.
Proof.
  induction 1 as [r Hr | i r k Hne _ IH]; intros r' k' H'; inversion H'; subst; auto; try congruence.
  destruct (IH _ _ H0); subst; auto.
Qed.

Lemma climb_reachn root i r k : reachn root i r k -> forall fuel, (k < fuel)%nat -> climb fuel root i = Found r.
Proof.
  induction 1 as [r Hr | i r k Hne _ IH]; intros [|fuel] Hf; try lia; simpl.
  - rewrite Hr, Z.eqb_refl. reflexivity.
  - destruct (Z.eqb_spec i (nthZ root i)); [congruence|]. apply IH. lia.
Qed.

Definition isroot (root : list Z) (i : Z) : bool := nthZ root i =? i.

Record InvF (root : list Z) (cnt : Z) (n : nat) (pairs : list (Z * Z)) : Prop := {
  f_len : length root = n;
  f_closed : forall i, is_valid n i = true -> is_valid n (nthZ root i) = true;
  f_reach : forall i, is_valid n i = true ->
                      exists r k, reachn root i r k /\ Z.of_nat k + cnt <= Z.of_nat n;
  f_clos : forall i j r r' k k', is_valid n i = true -> is_valid n j = true ->
                      reachn root i r k -> reachn root j r' k' -> (r = r' <-> eqclos n pairs i j);
  f_cnt : cnt = Z.of_nat (length (filter (isroot root) (iota n)))
}.

Lemma reachn_valid root n i r k :
  (forall i, is_valid n i = true -> is_valid n (nthZ root i) = true) ->
  reachn root i r k -> is_valid n i = true -> is_valid n r = true.
Proof. intros Hc; induction 1; auto. Qed.

Lemma filter_length_pos (f : Z -> bool) l a : In a l -> f a = true -> (1 <= length (filter f l))%nat.
Proof.
  intros Hin Hf. assert (In a (filter f l)) by (apply filter_In; auto).
  destruct (filter f l); [destruct H | simpl; lia].
Qed.

Lemma InvF_find root cnt n pairs i :
  InvF root cnt n pairs -> is_valid n i = true ->
  exists r k, reachn root i r k /\ forest_find root i = Found r /\ is_valid n r = true.
Proof.
  intros [Hlen Hcl Hre Hclos Hcnt] Hi. destruct (Hre i Hi) as (r & k & Hr & Hk).
  exists r, k. split; auto.
  assert (Hvr : is_valid n r = true) by (eapply reachn_valid; eauto).
  split; auto. unfold forest_find. rewrite Hlen, Hi. apply (climb_reachn _ _ _ _ Hr).
  assert (1 <= length (filter (isroot root) (iota n)))%nat.
  { apply (filter_length_pos _ _ r).
    - apply In_iota. now apply is_valid_spec.
    - unfold isroot. apply Z.eqb_eq. eapply reachn_root; eauto. }
  lia.
Qed.

Lemma InvF_init n : InvF (iota n) (Z.of_nat n) n [].
Proof.
  assert (Hroot : forall i, is_valid n i = true -> reachn (iota n) i i 0).
  { intros i Hi. apply rn_root. apply nthZ_iota. now apply is_valid_spec. }
  split.
  - apply iota_length.
  - intros i Hi. rewrite nthZ_iota; auto. now apply is_valid_spec.
  - intros i Hi. exists i, O. split; auto. lia.
  - intros i j r r' k k' Hi Hj H1 H2.
    destruct (reachn_det _ _ _ _ H1 _ _ (Hroot i Hi)) as [-> _].
    destruct (reachn_det _ _ _ _ H2 _ _ (Hroot j Hj)) as [-> _].
    split.
    + intros ->. now apply ec_refl.
    + apply eqclos_nil.
  - f_equal. rewrite <- (iota_length n) at 1.
    rewrite (filter_ext_in' _ (fun _ => true)).
    + clear. induction (iota n); simpl; auto.
    + intros x Hx. apply In_iota in Hx. unfold isroot. rewrite nthZ_iota by lia. apply Z.eqb_refl.
Qed.

(** linking root [a] below root [b] *)
Lemma link_reachn root n a b :
  length root = n -> is_valid n a = true -> a <> b ->
  nthZ root a = a -> nthZ root b = b -> is_valid n b = true ->
  forall i r k, is_valid n i = true ->
    (forall i, is_valid n i = true -> is_valid n (nthZ root i) = true) ->
    reachn root i r k ->
    (r <> a -> reachn (updZ root (Z.to_nat a) b) i r k) /\
    (r = a -> reachn (updZ root (Z.to_nat a) b) i b (S k)).
Proof.
  intros Hlen Ha Hab Hra Hrb Hb i r k Hi Hcl H.
  assert (Hupd : forall x, is_valid n x = true ->
             nthZ (updZ root (Z.to_nat a) b) x = if x =? a then b else nthZ root x).
  { intros x Hx. apply is_valid_spec in Hx, Ha. apply nthZ_updZ; lia. }
  induction H as [r Hr | i r k Hne H IH].
  - split.
    + intros Hra'. apply rn_root. rewrite Hupd by auto.
      destruct (Z.eqb_spec r a); congruence.
    + intros ->. apply rn_step.
      * rewrite Hupd by auto. rewrite Z.eqb_refl. congruence.
      * rewrite Hupd by auto. rewrite Z.eqb_refl. apply rn_root.
        rewrite Hupd by auto. destruct (Z.eqb_spec b a); congruence.
  - assert (Hia : i <> a) by congruence.
    assert (Hn : nthZ (updZ root (Z.to_nat a) b) i = nthZ root i).
    { rewrite Hupd by auto. destruct (Z.eqb_spec i a); congruence. }
    destruct (IH (Hcl i Hi)) as [IH1 IH2].
    split; intros Hr; apply rn_step; rewrite ?Hn; auto.
Qed.

Lemma InvF_link root cnt n pairs p q a b ka kb :
  InvF root cnt n pairs ->
  is_valid n p = true -> is_valid n q = true ->
  reachn root p a ka -> reachn root q b kb -> a <> b ->
  InvF (updZ root (Z.to_nat a) b) (cnt - 1) n (pairs ++ [(p, q)]).
Proof.
  intros [Hlen Hcl Hre Hclos Hcnt] Hp Hq Hpa Hqb Hab.
  assert (Hva : is_valid n a = true) by (eapply reachn_valid; eauto).
  assert (Hvb : is_valid n b = true) by (eapply reachn_valid; eauto).
  assert (Hra : nthZ root a = a) by (eapply reachn_root; eauto).
  assert (Hrb : nthZ root b = b) by (eapply reachn_root; eauto).
  assert (Hupd : forall x, is_valid n x = true ->
             nthZ (updZ root (Z.to_nat a) b) x = if x =? a then b else nthZ root x).
  { intros x Hx. apply is_valid_spec in Hx, Hva. apply nthZ_updZ; lia. }
  assert (Hlink := fun i r k Hi => link_reachn root n a b Hlen Hva Hab Hra Hrb Hvb i r k Hi Hcl).
  assert (Hcount : length (filter (isroot root) (iota n)) =
                   S (length (filter (isroot (updZ root (Z.to_nat a) b)) (iota n)))).
  { apply (filter_flip_one _ _ _ a).
    - apply NoDup_iota.
    - apply In_iota. now apply is_valid_spec.
    - unfold isroot. now apply Z.eqb_eq.
    - unfold isroot. rewrite Hupd by auto. rewrite Z.eqb_refl. apply Z.eqb_neq; congruence.
    - intros x Hx Hxa. apply In_iota in Hx. unfold isroot. rewrite Hupd by (now apply is_valid_spec).
      destruct (Z.eqb_spec x a); congruence. }
  split.
  - now rewrite updZ_length.
  - intros i Hi. rewrite Hupd by auto. destruct (i =? a); auto.
  - intros i Hi. destruct (Hre i Hi) as (r & k & Hr & Hk).
    destruct (Hlink i r k Hi Hr) as [H1 H2].
    destruct (Z.eq_dec r a) as [->|Hne].
    + exists b, (S k). split; auto. lia.
    + exists r, k. split; auto. lia.
  - intros i j r r' k k' Hi Hj Hri Hrj.
    destruct (Hre i Hi) as (ri & ki & Hri0 & _). destruct (Hre j Hj) as (rj & kj & Hrj0 & _).
    rewrite eqclos_snoc by auto.
    rewrite <- (Hclos i j ri rj ki kj) by auto.
    rewrite <- (Hclos i p ri a ki ka) by auto.
    rewrite <- (Hclos q j b rj kb kj) by auto.
    rewrite <- (Hclos i q ri b ki kb) by auto.
    rewrite <- (Hclos p j a rj ka kj) by auto.
    destruct (Hlink i ri ki Hi Hri0) as [Hi1 Hi2]. destruct (Hlink j rj kj Hj Hrj0) as [Hj1 Hj2].
    destruct (Z.eq_dec ri a) as [Ei|Ei], (Z.eq_dec rj a) as [Ej|Ej].
    + destruct (reachn_det _ _ _ _ Hri _ _ (Hi2 Ei)) as [-> _].
      destruct (reachn_det _ _ _ _ Hrj _ _ (Hj2 Ej)) as [-> _]. split; intros; auto. lia.
    + destruct (reachn_det _ _ _ _ Hri _ _ (Hi2 Ei)) as [-> _].
      destruct (reachn_det _ _ _ _ Hrj _ _ (Hj1 Ej)) as [-> _]. lia.
    + destruct (reachn_det _ _ _ _ Hri _ _ (Hi1 Ei)) as [-> _].
      destruct (reachn_det _ _ _ _ Hrj _ _ (Hj2 Ej)) as [-> _]. lia.
    + destruct (reachn_det _ _ _ _ Hri _ _ (Hi1 Ei)) as [-> _].
      destruct (reachn_det _ _ _ _ Hrj _ _ (Hj1 Ej)) as [-> _]. lia.
  - lia.
Qed.

Lemma InvF_same root cnt n pairs p q a ka kb :
  InvF root cnt n pairs ->
  is_valid n p = true -> is_valid n q = true ->
  reachn root p a ka -> reachn root q a kb ->
  InvF root cnt n (pairs ++ [(p, q)]).
Proof.
  intros [Hlen Hcl Hre Hclos Hcnt] Hp Hq Hpa Hqa. split; auto.
  intros i j r r' k k' Hi Hj Hri Hrj. rewrite eqclos_snoc by auto.
  rewrite <- (Hclos i j r r' k k') by auto.
  rewrite <- (Hclos i p r a k ka) by auto.
  rewrite <- (Hclos q j a r' kb k') by auto.
  rewrite <- (Hclos i q r a k kb) by auto.
  rewrite <- (Hclos p j a r' ka k') by auto.
  split; [tauto|]. intros [H|[[H1 H2]|[H1 H2]]]; congruence.
Qed.

Lemma InvF_invalid root cnt n pairs p q :
  InvF root cnt n pairs -> is_valid n p = false \/ is_valid n q = false ->
  InvF root cnt n (pairs ++ [(p, q)]).
Proof.
  intros [Hlen Hcl Hre Hclos Hcnt] Hinv. split; auto.
  intros i j r r' k k' Hi Hj Hri Hrj. rewrite eqclos_snoc_invalid by auto. eauto.
Qed.

Lemma InvF_Good_gen root cnt n pairs s :
  InvF root cnt n pairs ->
  len s = n -> (forall p, find s p = forest_find root p) -> count s = cnt ->
  Good s n pairs.
Proof.
  intros HI Hl Hf Hc. pose proof HI as [Hlen Hcl Hre Hclos Hcnt]. split; auto.
  - intros p Hp. rewrite Hf. unfold forest_find. now rewrite Hlen, Hp.
  - exists (fun p => match forest_find root p with Found r => r | _ => -1 end).
    split.
    + intros p Hp. destruct (InvF_find _ _ _ _ p HI Hp) as (r & k & Hr & Hfd & Hvr).
      rewrite Hf, Hfd. split; auto. split; auto.
      destruct (InvF_find _ _ _ _ r HI Hvr) as (r2 & k2 & Hr2 & Hfd2 & _).
      rewrite Hfd2. assert (Hrr : reachn root r r 0) by (apply rn_root; eapply reachn_root; eauto).
      now destruct (reachn_det _ _ _ _ Hr2 _ _ Hrr).
    + intros p q Hp Hq.
      destruct (InvF_find _ _ _ _ p HI Hp) as (r & k & Hr & Hfd & Hvr).
      destruct (InvF_find _ _ _ _ q HI Hq) as (r' & k' & Hr' & Hfd' & Hvr').
      rewrite Hfd, Hfd'. eauto.
  - rewrite Hc, Hcnt. f_equal. f_equal. apply filter_ext_in'. intros x Hx.
    apply In_iota in Hx. assert (Hvx : is_valid n x = true) by now apply is_valid_spec.
    unfold canonical. rewrite Hf.
    destruct (InvF_find _ _ _ _ x HI Hvx) as (r & k & Hr & Hfd & Hvr). rewrite Hfd. simpl.
    unfold isroot. destruct (Z.eqb_spec (nthZ root x) x) as [E|E].
    + assert (Hxx : reachn root x x 0) by now apply rn_root.
      destruct (reachn_det _ _ _ _ Hr _ _ Hxx) as [-> _]. symmetry; apply Z.eqb_refl.
    + destruct (Z.eqb_spec r x) as [->|]; auto. exfalso; apply E. eapply reachn_root; eauto.
Qed.

(** * quick-union *)
Definition InvQU (u : qu) n pairs := InvF (qu_root u) (qu_count u) n pairs.

Lemma InvQU_union u n pairs p q :
  InvQU u n pairs -> InvQU (qu_union u p q) n (pairs ++ [(p, q)]).
Proof.
  unfold InvQU. intros HI. pose proof HI as [Hlen _ _ _ _]. unfold qu_union. rewrite Hlen.
  destruct (is_valid n p) eqn:Hp; simpl; [|apply InvF_invalid; auto].
  destruct (is_valid n q) eqn:Hq; simpl; [|apply InvF_invalid; auto].
  destruct (InvF_find _ _ _ _ p HI Hp) as (a & ka & Ha & Hfa & _).
  destruct (InvF_find _ _ _ _ q HI Hq) as (b & kb & Hb & Hfb & _).
  unfold qu_find. rewrite Hfa, Hfb.
  destruct (Z.eqb_spec a b) as [->|Hab].
  - eapply InvF_same; eauto.
  - simpl. eapply InvF_link; eauto.
Qed.

(** * weighted quick-union *)
Definition InvWQU (u : wqu) n pairs := InvF (wqu_root u) (wqu_count u) n pairs.

Lemma eqclos_swap_last n pairs p q i j :
  eqclos n (pairs ++ [(q, p)]) i j -> eqclos n (pairs ++ [(p, q)]) i j.
Proof.
  induction 1 as [x Hx | x y Hin Hx Hy | x y _ IH | x y z _ IH1 _ IH2].
  - now apply ec_refl.
  - apply in_app_or in Hin. destruct Hin as [Hin|[Heq|[]]].
    + apply ec_base; auto. apply in_or_app; now left.
    + inversion Heq; subst. apply ec_sym, ec_base; auto. apply in_or_app; right; now left.
  - now apply ec_sym.
  - eapply ec_trans; eauto.
Qed.

Lemma InvF_swap_last root cnt n pairs p q :
  InvF root cnt n (pairs ++ [(q, p)]) -> InvF root cnt n (pairs ++ [(p, q)]).
Proof.
  intros [Hlen Hcl Hre Hclos Hcnt]. split; auto.
  intros i j r r' k k' Hi Hj Hri Hrj. rewrite (Hclos i j r r' k k') by auto.
  split; apply eqclos_swap_last.
Qed.

Lemma InvWQU_union u n pairs p q :
  InvWQU u n pairs -> InvWQU (wqu_union u p q) n (pairs ++ [(p, q)]).
Proof.
  unfold InvWQU. intros HI. pose proof HI as [Hlen _ _ _ _]. unfold wqu_union. rewrite Hlen.
  destruct (is_valid n p) eqn:Hp; simpl; [|apply InvF_invalid; auto].
  destruct (is_valid n q) eqn:Hq; simpl; [|apply InvF_invalid; auto].
  destruct (InvF_find _ _ _ _ p HI Hp) as (a & ka & Ha & Hfa & _).
  destruct (InvF_find _ _ _ _ q HI Hq) as (b & kb & Hb & Hfb & _).
  unfold wqu_find. rewrite Hfa, Hfb.
  destruct (Z.eqb_spec a b) as [->|Hab].
  - eapply InvF_same; eauto.
  - destruct (_ <? _); simpl.
    + eapply InvF_link; eauto.
    + apply InvF_swap_last. eapply InvF_link; eauto.
Qed.

(** * all reachable states *)
Definition Inv (s : state) n pairs : Prop :=
  match s with SQF u => InvQF u n pairs | SQU u => InvQU u n pairs | SWQU u => InvWQU u n pairs end.

Lemma Inv_new i n : Inv (new i n) n [].
Proof. destruct i; simpl; [apply InvQF_init | apply InvF_init | apply InvF_init]. Qed.

Lemma Inv_union s n pairs p q : Inv s n pairs -> Inv (union s p q) n (pairs ++ [(p, q)]).
Proof.
  destruct s; simpl; [apply InvQF_union | apply InvQU_union | apply InvWQU_union].
Qed.

Lemma Inv_fold ops : forall s n pre, Inv s n pre ->
  Inv (fold_left (fun s pq => union s (fst pq) (snd pq)) ops s) n (pre ++ ops).
Proof.
  induction ops as [|[p q] ops IH]; intros s n pre H; simpl.
  - now rewrite app_nil_r.
  - replace (pre ++ (p, q) :: ops) with ((pre ++ [(p, q)]) ++ ops) by (rewrite <- app_assoc; reflexivity).
    apply IH. now apply Inv_union.
Qed.

Lemma Inv_run i n ops : Inv (run i n ops) n ops.
Proof. unfold run. apply (Inv_fold ops (new i n) n []). apply Inv_new. Qed.

Lemma Inv_Good s n pairs : Inv s n pairs -> Good s n pairs.
Proof.
  destruct s; simpl; intros H.
  - now apply InvQF_Good.
  - eapply InvF_Good_gen; eauto. apply H.
  - eapply InvF_Good_gen; eauto. apply H.
Qed.

Lemma Good_run i n ops : Good (run i n ops) n ops.
Proof. apply Inv_Good, Inv_run. Qed.

(** * consequences stated on the public operations *)
Lemma Good_connected s n pairs p q :
  Inv s n pairs -> (connected s p q = true <-> eqclos n pairs p q).
Proof.
  intros HI. pose proof (Inv_Good _ _ _ HI) as [Hlen Hinv (rep & Hrep & Hcl) _].
  assert (Hc : connected s p q =
               if negb (is_valid n p) || negb (is_valid n q) then false
               else fres_eqb (find s p) (find s q)).
  { destruct s; simpl in *; unfold qf_connected, qu_connected, wqu_connected; rewrite Hlen; auto.
    unfold qf_find. rewrite Hlen.
    destruct (is_valid n p), (is_valid n q); simpl; auto. }
  rewrite Hc. destruct (is_valid n p) eqn:Hp; simpl.
  2:{ split; [discriminate|]. intros H. apply eqclos_valid in H. destruct H; congruence. }
  destruct (is_valid n q) eqn:Hq; simpl.
  2:{ split; [discriminate|]. intros H. apply eqclos_valid in H. destruct H; congruence. }
  destruct (Hrep p Hp) as (-> & _ & _). destruct (Hrep q Hq) as (-> & _ & _). simpl.
  rewrite Z.eqb_eq. auto.
Qed.

Lemma union_invalid_noop s p q :
  is_valid (len s) p = false \/ is_valid (len s) q = false -> union s p q = s.
Proof.
  destruct s as [u|u|u]; simpl; intros H;
    unfold qf_union, qu_union, wqu_union;
    destruct H as [-> | ->]; simpl; rewrite ?orb_true_r; reflexivity.
Qed.
