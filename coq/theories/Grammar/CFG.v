(** Shared base for C08–C12: context-free grammars, derivations, generated language.
    Generic in the types of terminals and non-terminals.  Semantics depend only on the
    production list and the start symbol; [terms]/[nonterms] mirror the Go struct fields. *)
From Coq Require Export List Relations Relation_Operators Operators_Properties.
Export ListNotations.

Section CFG.
  Context {T N : Type}.

  Inductive symbol := Tm (a : T) | Nt (A : N).
  Definition sentential := list symbol.
  Record production := mkProd { head : N; body : sentential }.
  Record grammar := mkGrammar {
    terms : list T; nonterms : list N; prods : list production; start : N }.

  (** one rewriting step anywhere in the sentential form *)
  Inductive step (G : grammar) : sentential -> sentential -> Prop :=
  | step_intro u v p : In p (prods G) -> step G (u ++ Nt (head p) :: v) (u ++ body p ++ v).

  Definition derives (G : grammar) : sentential -> sentential -> Prop :=
    clos_refl_trans sentential (step G).

  (** the language: terminal strings derivable from the start symbol *)
  Definition L (G : grammar) (w : list T) : Prop := derives G [Nt (start G)] (map Tm w).

  Lemma derives_refl G a : derives G a a.
  Proof. apply rt_refl. Qed.

  Lemma derives_trans G a b c : derives G a b -> derives G b c -> derives G a c.
  Proof. intros; eapply rt_trans; eauto. Qed.

  Lemma derives_step G a b : step G a b -> derives G a b.
  Proof. intros; now apply rt_step. Qed.

  Lemma derives_prod G p : In p (prods G) -> derives G [Nt (head p)] (body p).
  Proof.
    intros Hp. apply rt_step. pose proof (step_intro G [] [] p Hp) as H.
    simpl in H. now rewrite app_nil_r in H.
  Qed.

  Lemma step_ctx G u v a b : step G a b -> step G (u ++ a ++ v) (u ++ b ++ v).
  Proof.
    intros [u' v' p Hp].
    replace (u ++ (u' ++ Nt (head p) :: v') ++ v) with ((u ++ u') ++ Nt (head p) :: (v' ++ v))
      by (rewrite <- !app_assoc; reflexivity).
    replace (u ++ (u' ++ body p ++ v') ++ v) with ((u ++ u') ++ body p ++ (v' ++ v))
      by (rewrite <- !app_assoc; reflexivity).
    now constructor.
  Qed.

  Lemma derives_ctx G u v a b : derives G a b -> derives G (u ++ a ++ v) (u ++ b ++ v).
  Proof.
    induction 1 as [a b H | a | a b c _ IH1 _ IH2].
    - apply rt_step. now apply step_ctx.
    - apply rt_refl.
    - eapply rt_trans; eauto.
  Qed.

  Lemma derives_app G a a' b b' : derives G a a' -> derives G b b' -> derives G (a ++ b) (a' ++ b').
  Proof.
    intros Ha Hb. apply derives_trans with (a' ++ b).
    - pose proof (derives_ctx G [] b a a' Ha) as H. exact H.
    - pose proof (derives_ctx G a' [] b b' Hb) as H. now rewrite !app_nil_r in H.
  Qed.

  Lemma derives_cons G s a a' : derives G a a' -> derives G (s :: a) (s :: a').
  Proof. intros H. apply (derives_app G [s] [s] a a'); [apply rt_refl | exact H]. Qed.

  (** derivations with an explicit length, handy for inductions on derivations *)
  Inductive derivesN (G : grammar) : nat -> sentential -> sentential -> Prop :=
  | dn_refl a : derivesN G 0 a a
  | dn_step n a b c : step G a b -> derivesN G n b c -> derivesN G (S n) a c.

  Lemma derivesN_derives G n a b : derivesN G n a b -> derives G a b.
  Proof. induction 1; [apply rt_refl | eapply rt_trans; [apply rt_step|]; eauto]. Qed.

  Lemma derivesN_trans G n m a b c : derivesN G n a b -> derivesN G m b c -> derivesN G (n + m) a c.
  Proof. induction 1; simpl; auto. intros. econstructor; eauto. Qed.

  Lemma derives_derivesN G a b : derives G a b -> exists n, derivesN G n a b.
  Proof.
    induction 1 as [a b H | a | a b c _ [n IH1] _ [m IH2]].
    - exists 1. econstructor; eauto. constructor.
    - exists 0. constructor.
    - exists (n + m). eapply derivesN_trans; eauto.
  Qed.
End CFG.

Arguments symbol : clear implicits.
Arguments sentential : clear implicits.
Arguments production : clear implicits.
Arguments grammar : clear implicits.
