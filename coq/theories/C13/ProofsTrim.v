(** C13 — the executable predicate [dtrim] (what the correspondence check evaluates before it
    compares Minimize's state count with the Myhill–Nerode count) implies the hypotheses of the
    minimality theorem: every state is reachable and co-reachable. *)
From Coq Require Import ZArith List Bool Lia.
From Algo.C13 Require Import Model Spec Lemmas ProofsNFA ProofsDFA ProofsElim ProofsSubset ProofsSubsetTerm
  ProofsMinQuot ProofsMinRound ProofsMinimal.
Import ListNotations.
Open Scope Z_scope.

Lemma wl_sound : forall succ p stack0 C0 C (R : Z -> Prop),
  (forall x, In x C0 -> R x) -> (forall x, In x stack0 -> In x C0) ->
  (forall x y, R x -> In y (succ x) -> R y) ->
  run_loop p (wl_step succ) (stack0, C0) = Ok C -> forall x, In x C -> R x.
Proof.
  intros succ p stack0 C0 C R H0 Hs Hcl H.
  apply (run_loop_inv (wl_step succ)
           (fun st => (forall x, In x (snd st) -> R x) /\ (forall x, In x (fst st) -> In x (snd st)))
           (fun C => forall x, In x C -> R x)) with (p := p) (s := (stack0, C0)); [|split; auto|exact H].
  intros [st C1] [Ha Hb]. unfold wl_step. simpl in *. destruct st as [|t rest]; [exact Ha|].
  destruct (push_new_fold (succ t) rest C1) as [H1 H2]. split.
  - intros x Hx. apply H1 in Hx. destruct Hx as [Hx|Hx]; [auto|]. apply (Hcl t x); [apply Ha, Hb; now left | exact Hx].
  - intros x Hx. apply H2 in Hx. apply H1. destruct Hx as [Hx|[Hx _]]; [left; apply Hb; now right | now right].
Qed.

Lemma aget_map_val {V W} (g : V -> W) : forall (l : list (Z * V)) k,
  aget k (map (fun e => (fst e, g (snd e))) l) = option_map g (aget k l).
Proof.
  induction l as [|[k' v] r IH]; intros k; simpl; [reflexivity|]. destruct (k =? k'); [reflexivity | apply IH].
Qed.

Lemma fadj_succ : forall d s y, dwf d -> In y (aget_or [] s (fadj d)) -> exists a, dedge d s a y.
Proof.
  intros d s y [W1 W2] H. unfold aget_or in H.
  change (fadj d) with (map (fun e : Z * list (Z * Z) => (fst e, (fun row : list (Z * Z) => sof (map snd row)) (snd e))) (dtrans d)) in H.
  rewrite (aget_map_val (fun row : list (Z * Z) => sof (map snd row))) in H.
  destruct (aget s (dtrans d)) as [row|] eqn:E; simpl in H; [|destruct H].
  apply (proj1 (In_sof _ _)) in H. apply in_map_iff in H. destruct H as [[a y'] [<- Hin]]. exists a, row. split; [exact E|].
  apply In_aget; [|exact Hin]. apply ksorted_NoDup. apply (aget_Forall _ _ _ _ W2 E).
Qed.

Lemma dpath_snoc : forall d s u x a y, dpath d s u x -> dedge d x a y -> dpath d s (u ++ [a]) y.
Proof.
  intros d s u x a y Hp He. induction Hp as [s|s b t x w Hb Hp IH]; simpl.
  - econstructor; [exact He | constructor].
  - econstructor; [exact Hb | now apply IH].
Qed.

Lemma radj_succ : forall d t s, In s (aget_or [] t (radj d)) ->
  (t = -1 /\ In s (dfinal d)) \/ (t <> -1 /\ exists a, In (s, (a, t)) (entries (dtrans d))).
Proof.
  intros d t s H. rewrite radj_eq in H. unfold aget_or at 1 in H. destruct (Z.eq_dec (-1) t) as [<-|Hne].
  - rewrite aget_aput_eq in H. now left.
  - rewrite aget_aput_ne in H by exact Hne. right. split; [congruence|].
    apply (radj_fold (entries (dtrans d)) [] t s) in H. destruct H as [[]|H]. exact H.
Qed.

Theorem dtrim_sound : forall d, dwf d -> dfa_ok d -> dtrim d = true -> all_reachable d /\ all_coreachable d.
Proof.
  intros d Hwf Hok H. unfold dtrim in H.
  destruct (reachable_states d) as [r|] eqn:Er; [|discriminate].
  destruct (run_loop _ (reach_step (radj d)) ([-1], [-1])) as [c|] eqn:Ec; [|discriminate].
  rewrite forallb_forall in H.
  unfold reachable_states in Er.
  assert (Hr : forall x, In x r -> exists u, dpath d (dstart d) u x).
  { apply (wl_sound (fun s => aget_or [] s (fadj d)) (pos_of_len (dstates d) + pos_of_len (dstates d) + 3)%positive [dstart d] [dstart d] r); auto.
    - intros x [<-|[]]. exists []. constructor.
    - intros x y [u Hu] Hy. destruct (fadj_succ d x y Hwf Hy) as [a He]. exists (u ++ [a]). eapply dpath_snoc; eauto. }
  assert (Hc : forall x, In x c -> x = -1 \/ exists w, acc_from d x w = true).
  { apply (wl_sound (fun s => aget_or [] s (radj d)) (pos_of_len (dstates d) + pos_of_len (dstates d) + 3)%positive [-1] [-1] c); auto.
    - intros x [<-|[]]. now left.
    - intros t s Ht Hs. right. apply radj_succ in Hs. destruct Hs as [[-> Hf]|[Hne [a Hin]]].
      + exists []. unfold acc_from. simpl. now apply smem_In.
      + destruct Ht as [->|[w Hw]]; [congruence|].
        assert (He : dedge d s a t) by (now apply dedge_entries).
        exists (a :: w). rewrite acc_from_cons. replace (dnext d s a) with t; [exact Hw|].
        symmetry. apply dnext_dedge; auto. }
  split.
  - intros x Hx. specialize (H x Hx). apply andb_true_iff in H. destruct H as [H1 _]. apply smem_In in H1. now apply Hr.
  - intros x Hx. specialize (H x Hx). apply andb_true_iff in H. destruct H as [_ H2]. apply smem_In in H2.
    destruct (Hc x H2) as [->|Hw]; [|exact Hw]. exfalso.
    apply (dstates_char d (-1) Hwf) in Hx. destruct Hok as (O1 & O2 & O3).
    destruct Hx as [Hx|[Hx|(s & a & t & He & [Hx|Hx])]].
    + lia.
    + rewrite Forall_forall in O2. specialize (O2 _ Hx). lia.
    + destruct (O3 _ _ _ He). lia.
    + destruct (O3 _ _ _ He). lia.
Qed.

(** the minimality theorem with the executable precondition *)
Theorem minimize_minimal_trim : forall d m, dwf d -> dfa_ok d -> dtrim d = true -> minimize d = Ok m ->
  forall D', dfa_ok D' -> (forall w, daccept D' w = daccept d w) ->
    (length (dstates m) <= length (dstates D'))%nat.
Proof.
  intros d m Hwf Hok Ht Hm. destruct (dtrim_sound d Hwf Hok Ht) as [Hr Hc].
  now apply (minimize_minimal d m Hwf Hok Hr Hc Hm).
Qed.
