(** C13 — the subset construction (ToDFA, and the middle block of CombineDFA): the DFA state
    reached on a word is the ε-closed set of NFA states reached on that word. *)
From Coq Require Import ZArith List Bool Lia Sorted.
From Algo.C13 Require Import Model Spec Lemmas ProofsNFA ProofsDFA.
Import ListNotations.
Open Scope Z_scope.

(** ** sorted sets have no duplicates *)
Definition ssorted (l : list Z) : Prop := StronglySorted Z.lt l.

Lemma ssorted_NoDup : forall l, ssorted l -> NoDup l.
Proof.
  induction l as [|x r IH]; intros H; constructor.
  - inversion H as [|? ? _ Hall]; subst. intros Hin. rewrite Forall_forall in Hall. specialize (Hall _ Hin). lia.
  - inversion H; subst. auto.
Qed.

Lemma ssorted_sadd : forall x l, ssorted l -> ssorted (sadd x l).
Proof.
  unfold ssorted. intros x l. induction l as [|y r IH]; simpl; intros H.
  - repeat constructor.
  - inversion H as [|? ? Hr Hall]; subst. destruct (x <? y) eqn:E1.
    + apply Z.ltb_lt in E1. constructor; [exact H|]. constructor; [exact E1|].
      rewrite Forall_forall in *. intros z Hz. specialize (Hall z Hz). lia.
    + destruct (x =? y) eqn:E2; [exact H|]. apply Z.ltb_ge in E1. apply Z.eqb_neq in E2.
      constructor; [now apply IH|]. rewrite Forall_forall in *. intros z Hz. apply In_sadd in Hz.
      destruct Hz as [->|Hz]; [lia | now apply Hall].
Qed.

Lemma ssorted_sadd_all : forall xs l, ssorted l -> ssorted (sadd_all xs l).
Proof.
  unfold sadd_all. induction xs as [|x r IH]; intros l H; simpl; [exact H|]. apply IH. now apply ssorted_sadd.
Qed.

Lemma ssorted_sof : forall l, ssorted (sof l).
Proof. intros. apply ssorted_sadd_all. constructor. Qed.

Lemma ssorted_nmove : forall n T a, ssorted (nmove n T a).
Proof.
  intros n T a. unfold nmove.
  assert (G : forall T acc, ssorted acc ->
     ssorted (fold_left (fun acc s => match nnext n s a with Some nx => sunion acc nx | None => acc end) T acc)).
  { induction T0 as [|s r IH]; intros acc H; simpl; [exact H|]. apply IH.
    destruct (nnext n s a); [apply ssorted_sadd_all|]; exact H. }
  apply G. constructor.
Qed.

Lemma push_new_sorted : forall us st C, ssorted C -> ssorted (snd (fold_left push_new us (st, C))).
Proof.
  induction us as [|u r IH]; intros st C H; simpl; [exact H|].
  rewrite push_new_step. destruct (smem u C); apply IH; [exact H | now apply ssorted_sadd].
Qed.

Lemma eclose_sorted : forall n T C, ssorted T -> eclose n T = Ok C -> ssorted C.
Proof.
  intros n T C HT H. unfold eclose in H.
  apply (run_loop_inv (eclose_step n) (fun st => ssorted (snd st)) ssorted) with (s := (rev T, T)) (p := eclose_fuel n T); auto.
  intros [st C0] Hs. rewrite eclose_step_eq. simpl in *. destruct st as [|t rest]; [exact Hs|].
  now apply push_new_sorted.
Qed.

(** ** set equality *)
Definition seteq (a b : list Z) : Prop := forall x, In x a <-> In x b.

Lemma seteq_refl : forall a, seteq a a.
Proof. intros a x. reflexivity. Qed.
Lemma seteq_sym : forall a b, seteq a b -> seteq b a.
Proof. intros a b H x. symmetry. apply H. Qed.
Lemma seteq_trans : forall a b c, seteq a b -> seteq b c -> seteq a c.
Proof. intros a b c H1 H2 x. rewrite (H1 x). apply H2. Qed.

Lemma sequal_seteq : forall a b, NoDup a -> sequal a b = true -> seteq a b.
Proof.
  intros a b Hnd H. unfold sequal in H. apply andb_true_iff in H. destruct H as [Hl Hall].
  apply Nat.eqb_eq in Hl. rewrite forallb_forall in Hall.
  assert (Hincl : incl a b) by (intros x Hx; apply smem_In; now apply Hall).
  intros x. split; [apply Hincl|]. apply (NoDup_length_incl Hnd); [lia | exact Hincl].
Qed.

Lemma seteq_sequal : forall a b, NoDup a -> NoDup b -> seteq a b -> sequal a b = true.
Proof.
  intros a b Ha Hb H. unfold sequal. apply andb_true_iff. split.
  - apply Nat.eqb_eq. apply Nat.le_antisymm; apply NoDup_incl_length; auto; intros x Hx; now apply H.
  - apply forallb_forall. intros x Hx. apply smem_In. now apply H.
Qed.

Lemma nmove_seteq : forall n a T T', seteq T T' -> seteq (nmove n T a) (nmove n T' a).
Proof.
  intros n a T T' H x. rewrite !In_nmove. split; intros [s [Hs He]]; exists s; split; auto; now apply H.
Qed.

Lemma eclose_seteq : forall n T T' C C', seteq T T' -> eclose n T = Ok C -> eclose n T' = Ok C' -> seteq C C'.
Proof.
  intros n T T' C C' H E1 E2 x.
  destruct (eclose_ok n T) as [C1 [F1 [_ G1]]]. destruct (eclose_ok n T') as [C2 [F2 [_ G2]]].
  rewrite E1 in F1. rewrite E2 in F2. inversion F1; inversion F2; subst.
  rewrite G1, G2. split; intros [s [Hs Hr]]; exists s; split; auto; now apply H.
Qed.

Lemma nrun_seteq : forall n w T T' S, seteq T T' -> nrun n T w = Ok S ->
  exists S', nrun n T' w = Ok S' /\ seteq S S'.
Proof.
  intros n. induction w as [|a w IH]; intros T T' S H E; simpl in *.
  - inversion E; subst. eauto.
  - destruct (eclose n (nmove n T a)) as [U|] eqn:E1; [|discriminate]. simpl in E.
    destruct (eclose_ok n (nmove n T' a)) as [U' [E2 _]]. rewrite E2. simpl.
    eapply IH; [|exact E]. eapply eclose_seteq; [|exact E1|exact E2]. now apply nmove_seteq.
Qed.

Lemma nrun_nil_set : forall n w, word_ok w -> nrun n [] w = Ok [].
Proof.
  intros n. induction w as [|a w IH]; intros Hw; simpl; [reflexivity|].
  inversion Hw; subst.
  assert (Hm : nmove n [] a = []) by reflexivity. rewrite Hm.
  destruct (eclose_ok n []) as [C [E [_ H]]]. rewrite E. simpl.
  assert (C = []).
  { destruct C as [|x r]; [reflexivity|]. destruct (proj1 (H x) (or_introl eq_refl)) as [s [[] _]]. }
  subst. now apply IH.
Qed.

(** ** symbols() contains every non-ε label *)
Lemma nsymbols_eq : forall n,
  nsymbols n = fold_left (fun sy (sx : Z * (Z * list Z)) => if fst (snd sx) =? E then sy else sadd (fst (snd sx)) sy)
                 (entries (ntrans n)) [].
Proof.
  intros n. unfold nsymbols.
  exact (fold_nested (fun sy (s : Z) (x : Z * list Z) => if fst x =? E then sy else sadd (fst x) sy) (ntrans n) []).
Qed.

Lemma nsymbols_fold : forall l init x,
  In x (fold_left (fun sy (sx : Z * (Z * list Z)) => if fst (snd sx) =? E then sy else sadd (fst (snd sx)) sy) l init)
  <-> In x init \/ (x <> E /\ exists s nx, In (s, (x, nx)) l).
Proof.
  induction l as [|[s [a nx]] r IH]; intros init x; simpl.
  - split; [auto|]. intros [H|[_ [s [nx []]]]]. exact H.
  - rewrite IH. destruct (Z.eqb_spec a E) as [->|Hne].
    + split.
      * intros [H|[Hx [s' [nx' H]]]]; [auto|]. right. split; [exact Hx|]. eauto.
      * intros [H|[Hx [s' [nx' [H|H]]]]]; [auto| |].
        -- inversion H; subst. congruence.
        -- right. eauto.
    + rewrite In_sadd. split.
      * intros [[->|H]|[Hx [s' [nx' H]]]]; [|auto|].
        -- right. split; [exact Hne|]. eauto.
        -- right. split; [exact Hx|]. eauto.
      * intros [H|[Hx [s' [nx' [H|H]]]]]; [auto| |].
        -- inversion H; subst. auto.
        -- right. eauto.
Qed.

Lemma nedge_symbol : forall n s a t, nedge n s a t -> a <> E -> In a (nsymbols n).
Proof.
  intros n s a t He Ha. apply nedge_entry in He. destruct He as [l [H1 _]].
  rewrite nsymbols_eq. apply nsymbols_fold. right. split; [exact Ha|]. eauto.
Qed.

Lemma nmove_no_symbol : forall n T a, a <> E -> ~ In a (nsymbols n) -> nmove n T a = [].
Proof.
  intros n T a Ha Hn. destruct (nmove n T a) as [|x r] eqn:Em; [reflexivity|].
  assert (Hx : In x (nmove n T a)) by (rewrite Em; now left).
  apply In_nmove in Hx. destruct Hx as [s [_ He]]. exfalso. apply Hn. eapply nedge_symbol; eauto.
Qed.

(** ** the worklist loop *)
Definition sym_step (n : nfa) (T : list Z) (front : nat) (acc : option (list (list Z) * dfa)) (a : Z)
  : option (list (list Z) * dfa) :=
  match acc with
  | None => None
  | Some (ds', d') =>
      match eclose n (nmove n T a) with
      | Hang => None
      | Ok U =>
          let j := index_of U ds' 0 in
          if j =? -1
          then Some (ds' ++ [U], dadd d' (Z.of_nat front) a (Z.of_nat (length ds')))
          else Some (ds', dadd d' (Z.of_nat front) a j)
      end
  end.

Lemma subset_step_eq : forall n syms ds front d,
  subset_step n syms ((ds, front), d) =
  match nth_error ds front with
  | None => Done (Some (ds, d))
  | Some T => match fold_left (sym_step n T front) syms (Some (ds, d)) with
              | None => Done None
              | Some (ds', d') => More ((ds', S front), d')
              end
  end.
Proof. reflexivity. Qed.

Lemma index_of_spec : forall U l i, 0 <= i ->
  index_of U l i = -1 \/
  exists k V, index_of U l i = i + Z.of_nat k /\ nth_error l k = Some V /\ sequal V U = true.
Proof.
  intros U. induction l as [|V r IH]; intros i Hi; simpl; [now left|].
  destruct (sequal V U) eqn:E.
  - right. exists O, V. simpl. split; [lia|]. auto.
  - destruct (IH (i + 1)) as [H|[k [V' [H1 [H2 H3]]]]]; [lia | now left |].
    right. exists (S k), V'. simpl. split; [lia|]. auto.
Qed.

Section Subset.
  Variables (n : nfa) (syms : list Z) (S0 : list Z).

  Definition edge_ok (ds : list (list Z)) (d : dfa) (k : nat) (a : Z) (T : list Z) : Prop :=
    exists k' V U, dedge d (Z.of_nat k) a (Z.of_nat k') /\ nth_error ds k' = Some V /\
                   eclose n (nmove n T a) = Ok U /\ seteq V U.

  Record sinv (ds : list (list Z)) (front : nat) (d : dfa) : Prop := {
    si_front : (front <= length ds)%nat;
    si_first : nth_error ds 0 = Some S0;
    si_sorted : Forall ssorted ds;
    si_start : dstart d = 0;
    si_wf : dwf d;
    si_edges : forall i a j, dedge d i a j ->
       (exists k, i = Z.of_nat k /\ (k < front)%nat) /\ In a syms /\
       (exists k', j = Z.of_nat k' /\ (k' < length ds)%nat);
    si_done : forall k a T, (k < front)%nat -> In a syms -> nth_error ds k = Some T -> edge_ok ds d k a T }.

  (** state of the inner loop over the symbols, for the Dstate [T] at index [front] *)
  Record iinv (ds0 : list (list Z)) (front : nat) (T : list Z) (done : list Z)
              (ds : list (list Z)) (d : dfa) : Prop := {
    ii_ext : exists extra, ds = ds0 ++ extra;
    ii_sorted : Forall ssorted ds;
    ii_start : dstart d = 0;
    ii_wf : dwf d;
    ii_edges : forall i a j, dedge d i a j ->
       In a syms /\ (exists k', j = Z.of_nat k' /\ (k' < length ds)%nat) /\
       ((exists k, i = Z.of_nat k /\ (k < front)%nat) \/ (i = Z.of_nat front /\ In a done));
    ii_old : forall k a T', (k < front)%nat -> In a syms -> nth_error ds0 k = Some T' -> edge_ok ds d k a T';
    ii_new : forall a, In a done -> edge_ok ds d front a T }.

  Lemma nth_error_ext {A} : forall (l e : list A) k x, nth_error l k = Some x -> nth_error (l ++ e) k = Some x.
  Proof.
    intros l e k x H. rewrite nth_error_app1; [exact H|]. apply nth_error_Some. congruence.
  Qed.

  Lemma edge_ok_ext : forall ds e d k a T, edge_ok ds d k a T -> edge_ok (ds ++ e) d k a T.
  Proof.
    intros ds e d k a T (k' & V & U & H1 & H2 & H3 & H4). exists k', V, U.
    split; [exact H1|]. split; [now apply nth_error_ext|]. auto.
  Qed.

  Lemma sym_fold : forall ds0 front T, (forall a, In a syms -> True) ->
    forall rest done ds d, (forall a, In a rest -> In a syms) -> ssorted T ->
    iinv ds0 front T done ds d ->
    exists ds' d', fold_left (sym_step n T front) rest (Some (ds, d)) = Some (ds', d') /\
                   iinv ds0 front T (done ++ rest) ds' d'.
  Proof.
    intros ds0 front T _. induction rest as [|a r IH]; intros done ds d Hsub HT Hinv; cbn [fold_left].
    - exists ds, d. rewrite app_nil_r. auto.
    - destruct (eclose_ok n (nmove n T a)) as [U [EU _]].
      assert (HsU : ssorted U) by (eapply eclose_sorted; [apply ssorted_nmove | exact EU]).
      assert (Hstep : exists ds1 d1, sym_step n T front (Some (ds, d)) a = Some (ds1, d1) /\
                                     iinv ds0 front T (done ++ [a]) ds1 d1).
      { unfold sym_step. rewrite EU. destruct Hinv as [[extra Hext] Hso Hst Hwf Hed Hold Hnew].
        destruct (index_of_spec U ds 0 (Z.le_refl 0)) as [Hj|[k [V [Hj [Hk HV]]]]].
        - rewrite Hj. simpl. eexists. eexists. split; [reflexivity|]. split.
          + exists (extra ++ [U]). rewrite Hext. now rewrite app_assoc.
          + apply Forall_app. split; [exact Hso | constructor; [exact HsU | constructor]].
          + exact Hst.
          + now apply dwf_dadd.
          + intros i b j He. apply dedge_dadd in He. rewrite app_length. simpl.
            destruct He as [(-> & -> & ->)|[_ He]].
            * split; [apply Hsub; now left|]. split; [exists (length ds); split; [reflexivity | lia]|].
              right. split; [reflexivity|]. apply in_or_app. right. now left.
            * destruct (Hed _ _ _ He) as (H1 & (k' & -> & H2) & H3). split; [exact H1|].
              split; [exists k'; split; [reflexivity | lia]|].
              destruct H3 as [H3|[H3 H4]]; [now left|]. right. split; [exact H3|]. apply in_or_app. now left.
          + intros k b T' Hk Hb HT'. apply edge_ok_ext.
            destruct (Hold k b T' Hk Hb HT') as (k' & V & U' & H1 & H2 & H3 & H4).
            exists k', V, U'. split; [|auto]. apply dedge_dadd. right. split; [|exact H1].
            intros [H _]. apply Nat2Z.inj in H. lia.
          + intros b Hb. apply in_app_or in Hb. destruct (Z.eq_dec b a) as [->|Hne].
            * exists (length ds), U, U. split; [apply dedge_dadd; left; auto|].
              split; [rewrite nth_error_app2 by lia; now rewrite Nat.sub_diag|]. split; [exact EU | apply seteq_refl].
            * destruct Hb as [Hb|[Hb|[]]]; [|congruence]. apply edge_ok_ext.
              destruct (Hnew b Hb) as (k' & V & U' & H1 & H2 & H3 & H4).
              exists k', V, U'. split; [|auto]. apply dedge_dadd. right. split; [|exact H1]. intros [_ H]. congruence.
        - rewrite Hj. simpl.
          assert (Hkl : (k < length ds)%nat) by (apply nth_error_Some; congruence).
          assert (Hneq : (Z.of_nat k =? -1) = false) by (apply Z.eqb_neq; lia). rewrite Hneq.
          assert (HVU : seteq V U).
          { apply sequal_seteq; [|exact HV]. apply ssorted_NoDup. rewrite Forall_forall in Hso. apply Hso.
            eapply nth_error_In; eauto. }
          eexists. eexists. split; [reflexivity|]. split.
          + exists extra. exact Hext.
          + exact Hso.
          + exact Hst.
          + now apply dwf_dadd.
          + intros i b j He. apply dedge_dadd in He.
            destruct He as [(-> & -> & ->)|[_ He]].
            * split; [apply Hsub; now left|]. split; [exists k; split; [reflexivity | exact Hkl]|].
              right. split; [reflexivity|]. apply in_or_app. right. now left.
            * destruct (Hed _ _ _ He) as (H1 & H2 & H3). split; [exact H1|]. split; [exact H2|].
              destruct H3 as [H3|[H3 H4]]; [now left|]. right. split; [exact H3|]. apply in_or_app. now left.
          + intros k0 b T' Hk0 Hb HT'.
            destruct (Hold k0 b T' Hk0 Hb HT') as (k' & V' & U' & H1 & H2 & H3 & H4).
            exists k', V', U'. split; [|auto]. apply dedge_dadd. right. split; [|exact H1].
            intros [H _]. apply Nat2Z.inj in H. lia.
          + intros b Hb. apply in_app_or in Hb. destruct (Z.eq_dec b a) as [->|Hne].
            * exists k, V, U. split; [apply dedge_dadd; left; auto|]. auto.
            * destruct Hb as [Hb|[Hb|[]]]; [|congruence].
              destruct (Hnew b Hb) as (k' & V' & U' & H1 & H2 & H3 & H4).
              exists k', V', U'. split; [|auto]. apply dedge_dadd. right. split; [|exact H1]. intros [_ H]. congruence. }
      destruct Hstep as (ds1 & d1 & E1 & Hinv1). rewrite E1.
      destruct (IH (done ++ [a]) ds1 d1) as (ds' & d' & E2 & Hinv2); auto.
      { intros b Hb. apply Hsub. now right. }
      exists ds', d'. split; [exact E2|]. now rewrite <- app_assoc in Hinv2.
  Qed.

  Lemma subset_step_inv : forall st, sinv (fst (fst st)) (snd (fst st)) (snd st) ->
    match subset_step n syms st with
    | More st' => sinv (fst (fst st')) (snd (fst st')) (snd st')
    | Done r => exists ds d, r = Some (ds, d) /\ sinv ds (length ds) d
    end.
  Proof.
    intros [[ds front] d] Hinv. simpl in Hinv. rewrite subset_step_eq.
    destruct (nth_error ds front) as [T|] eqn:ET.
    - destruct Hinv as [Hf H0 Hso Hst Hwf Hed Hdone].
      assert (HT : ssorted T) by (rewrite Forall_forall in Hso; apply Hso; eapply nth_error_In; eauto).
      assert (Hi : iinv ds front T [] ds d).
      { split; auto.
        - exists []. now rewrite app_nil_r.
        - intros i a j He. destruct (Hed _ _ _ He) as (H1 & H2 & H3). auto.
        - intros a []. }
      destruct (sym_fold ds front T (fun _ _ => I) syms [] ds d (fun a H => H) HT Hi) as (ds' & d' & E & Hi').
      rewrite E. simpl in *. destruct Hi' as [[extra Hext] Hso' Hst' Hwf' Hed' Hold' Hnew'].
      assert (Hlt : (front < length ds)%nat) by (apply nth_error_Some; congruence).
      split; auto.
      + subst ds'. rewrite app_length. lia.
      + subst ds'. now apply nth_error_ext.
      + intros i a j He. destruct (Hed' _ _ _ He) as (H1 & H2 & H3). split; [|auto].
        destruct H3 as [[k [-> Hk]]|[-> _]]; [exists k; split; [reflexivity | lia] | exists front; split; [reflexivity | lia]].
      + intros k a T' Hk Ha HT'. destruct (Nat.eq_dec k front) as [->|Hne].
        * assert (T' = T). { subst ds'. rewrite nth_error_app1 in HT' by lia. congruence. } subst T'. now apply Hnew'.
        * apply Hold'; [lia | exact Ha|]. subst ds'. rewrite nth_error_app1 in HT' by lia. exact HT'.
    - exists ds, d. split; [reflexivity|]. apply nth_error_None in ET.
      destruct Hinv as [Hf H0 Hso Hst Hwf Hed Hdone]. assert (front = length ds) by lia. subst front.
      split; auto.
  Qed.
End Subset.

(** ** from the loop invariant to the language *)
Lemma final_indices_spec : forall nf ds i acc x,
  In x (final_indices nf ds i acc) <->
  In x acc \/ exists k V, x = i + Z.of_nat k /\ nth_error ds k = Some V /\ existsb (fun f => smem f V) nf = true.
Proof.
  intros nf. induction ds as [|V r IH]; intros i acc x; simpl.
  - split; [auto|]. intros [H|[k [V [_ [H _]]]]]; [exact H|]. destruct k; discriminate.
  - rewrite IH. destruct (existsb (fun f => smem f V) nf) eqn:E.
    + rewrite In_sadd. split.
      * intros [[->|H]|[k [V' [H1 [H2 H3]]]]]; [|auto|].
        -- right. exists O, V. simpl. split; [lia|]. auto.
        -- right. exists (S k), V'. simpl. split; [lia|]. auto.
      * intros [H|[k [V' [H1 [H2 H3]]]]]; [auto|]. destruct k as [|k]; simpl in H2.
        -- left. left. lia.
        -- right. exists k, V'. split; [lia|]. auto.
    + split.
      * intros [H|[k [V' [H1 [H2 H3]]]]]; [auto|]. right. exists (S k), V'. simpl. split; [lia|]. auto.
      * intros [H|[k [V' [H1 [H2 H3]]]]]; [auto|]. destruct k as [|k]; simpl in H2.
        -- inversion H2; subst. congruence.
        -- right. exists k, V'. split; [lia|]. auto.
Qed.

Lemma sinv_transfer : forall n syms S0 ds front d D,
  dtrans D = dtrans d -> dstart D = dstart d -> sinv n syms S0 ds front d -> sinv n syms S0 ds front D.
Proof.
  intros n syms S0 ds front d D Ht Hs [H1 H2 H3 H4 H5 H6 H7].
  assert (He : forall i a j, dedge D i a j <-> dedge d i a j) by (intros; unfold dedge; now rewrite Ht).
  split; auto.
  - congruence.
  - unfold dwf in *. now rewrite Ht.
  - intros i a j H. apply H6. now apply He.
  - intros k a T Hk Ha HT. destruct (H7 k a T Hk Ha HT) as (k' & V & U & G1 & G2). exists k', V, U.
    split; [now apply He | exact G2].
Qed.

Lemma seteq_nil : forall l, seteq [] l -> l = [].
Proof. intros [|x r] H; [reflexivity|]. destruct (proj2 (H x) (or_introl eq_refl)). Qed.

Section Sim.
  Variables (n : nfa) (S0 : list Z) (ds : list (list Z)) (D : dfa).
  Hypothesis Hinv : sinv n (nsymbols n) S0 ds (length ds) D.
  Hypothesis Hfin : dfinal D = final_indices (nfinal n) ds 0 [].

  Lemma sub_dfa_ok : dfa_ok D.
  Proof.
    destruct Hinv as [H1 H2 H3 H4 H5 H6 H7]. split; [rewrite H4; lia|]. split.
    - rewrite Hfin. apply Forall_forall. intros x Hx. apply final_indices_spec in Hx.
      destruct Hx as [[]|[k [V [-> _]]]]. lia.
    - intros s a t He. destruct (H6 _ _ _ He) as ([k [-> _]] & _ & [k' [-> _]]). lia.
  Qed.

  Lemma sub_sim : forall w, word_ok w -> forall k T, nth_error ds k = Some T ->
    exists S', nrun n T w = Ok S' /\
      ((exists k' V, drun D (Z.of_nat k) w = Z.of_nat k' /\ nth_error ds k' = Some V /\ seteq V S') \/
       (drun D (Z.of_nat k) w = -1 /\ S' = [])).
  Proof.
    pose proof sub_dfa_ok as Hok. destruct Hinv as [H1 H2 H3 H4 H5 H6 H7].
    induction w as [|a w IH]; intros Hw k T HT.
    - exists T. split; [reflexivity|]. left. exists k, T. split; [reflexivity|]. split; [exact HT | apply seteq_refl].
    - inversion Hw as [|? ? Ha Hw']; subst. simpl.
      unfold drun. simpl. fold (drun D (dnext D (Z.of_nat k) a) w).
      destruct (in_dec Z.eq_dec a (nsymbols n)) as [Hin|Hnin].
      + assert (Hk : (k < length ds)%nat) by (apply nth_error_Some; congruence).
        destruct (H7 k a T Hk Hin HT) as (k' & V & U & G1 & G2 & G3 & G4).
        rewrite G3. simpl.
        assert (Hn : dnext D (Z.of_nat k) a = Z.of_nat k') by (apply dnext_dedge; [lia | exact G1]).
        rewrite Hn. destruct (IH Hw' k' V G2) as [S1 [E1 Hc]].
        destruct (nrun_seteq n w V U S1 G4 E1) as [S2 [E2 Heq]].
        exists S2. split; [exact E2|]. destruct Hc as [(k2 & V2 & C1 & C2 & C3)|[C1 C2]].
        * left. exists k2, V2. split; [exact C1|]. split; [exact C2|]. eapply seteq_trans; eauto.
        * right. split; [exact C1|]. subst S1. now apply seteq_nil.
      + rewrite (nmove_no_symbol n T a Ha Hnin).
        destruct (eclose_ok n []) as [C [EC [_ HC]]]. rewrite EC. simpl.
        assert (C = []).
        { destruct C as [|x r]; [reflexivity|]. destruct (proj1 (HC x) (or_introl eq_refl)) as [s [[] _]]. }
        subst C. rewrite nrun_nil_set by exact Hw'. exists []. split; [reflexivity|]. right. split; [|reflexivity].
        assert (Hn : dnext D (Z.of_nat k) a = -1).
        { destruct (Z.eq_dec (dnext D (Z.of_nat k) a) (-1)) as [E|E]; [exact E|].
          exfalso. apply Hnin. assert (He : dedge D (Z.of_nat k) a (dnext D (Z.of_nat k) a)) by (apply dnext_dedge; auto).
          now destruct (H6 _ _ _ He) as (_ & G & _). }
        rewrite Hn. now apply drun_dead.
  Qed.

  Theorem sub_accept : eclose n (sof [nstart n]) = Ok S0 -> forall w, word_ok w ->
    naccept n w = Ok (daccept D w).
  Proof.
    intros E0 w Hw. unfold naccept. rewrite E0. simpl.
    destruct Hinv as [H1 H2 H3 H4 H5 H6 H7].
    destruct (sub_sim w Hw O S0 H2) as [S' [E1 Hc]]. rewrite E1. simpl. f_equal.
    unfold daccept. rewrite H4. change 0 with (Z.of_nat 0). apply Bool.eq_true_iff_eq.
    rewrite smem_In, Hfin, final_indices_spec, existsb_exists.
    destruct Hc as [(k' & V & C1 & C2 & C3)|[C1 C2]].
    - rewrite C1. split.
      + intros [s [Hs Hf]]. apply smem_In in Hf. right. exists k', V. split; [lia|]. split; [exact C2|].
        apply existsb_exists. exists s. split; [exact Hf|]. apply smem_In. now apply C3.
      + intros [[]|[k2 [V2 [G1 [G2 G3]]]]]. assert (k2 = k') by lia. subst k2.
        assert (V2 = V) by congruence. subst V2. apply existsb_exists in G3. destruct G3 as [f [Hf Hm]].
        apply smem_In in Hm. exists f. split; [now apply C3 | now apply smem_In].
    - rewrite C1, C2. split.
      + intros [s [[] _]].
      + intros [[]|[k2 [V2 [G1 _]]]]. lia.
  Qed.
End Sim.

Lemma subset_construct_inv : forall n ds D, subset_construct n = Ok (ds, D) ->
  exists S0, eclose n (sof [nstart n]) = Ok S0 /\ sinv n (nsymbols n) S0 ds (length ds) D /\
             dfinal D = final_indices (nfinal n) ds 0 [].
Proof.
  intros n ds D H. unfold subset_construct in H.
  destruct (eclose n (sof [nstart n])) as [S0|] eqn:E0; [|discriminate]. simpl in H.
  destruct (run_loop (subset_fuel n) (subset_step n (nsymbols n)) ([S0], O, new_dfa 0 [])) as [r|] eqn:ER; [|discriminate].
  destruct r as [[ds' d]|]; [|discriminate]. inversion H; subst. clear H.
  exists S0. split; [reflexivity|].
  pose proof (run_loop_inv (subset_step n (nsymbols n))
     (fun st => sinv n (nsymbols n) S0 (fst (fst st)) (snd (fst st)) (snd st))
     (fun r => exists ds d, r = Some (ds, d) /\ sinv n (nsymbols n) S0 ds (length ds) d)
     (subset_step_inv n (nsymbols n) S0) (subset_fuel n) ([S0], O, new_dfa 0 []) (Some (ds, d))) as HP.
  destruct HP as (ds2 & d2 & Heq & Hinv); [|exact ER|].
  - simpl. split; simpl; auto.
    + constructor; [|constructor]. eapply eclose_sorted; [apply ssorted_sof | exact E0].
    + apply dwf_new.
    + intros i a j He. exfalso. eapply no_edge_empty_d. exact He.
    + intros k a T Hk. lia.
  - inversion Heq; subst. split; [|reflexivity]. eapply sinv_transfer; [| |exact Hinv]; reflexivity.
Qed.

(** partial correctness of ToDFA: whenever the subset construction returns, the DFA accepts
    exactly the words the NFA accepts *)
Theorem todfa_accept : forall n D w, todfa n = Ok D -> word_ok w -> naccept n w = Ok (daccept D w).
Proof.
  intros n D w H Hw. unfold todfa in H. destruct (subset_construct n) as [[ds D']|] eqn:E; [|discriminate].
  simpl in H. inversion H; subst. destruct (subset_construct_inv n ds D E) as (S0 & E0 & Hinv & Hfin).
  eapply sub_accept; eauto.
Qed.

Lemma todfa_ok_wf : forall n D, todfa n = Ok D -> dfa_ok D /\ dwf D /\ dfa_noeps D.
Proof.
  intros n D H. unfold todfa in H. destruct (subset_construct n) as [[ds D']|] eqn:E; [|discriminate].
  simpl in H. inversion H; subst. destruct (subset_construct_inv n ds D E) as (S0 & E0 & Hinv & Hfin).
  split; [eapply sub_dfa_ok; eauto|]. split; [apply (si_wf _ _ _ _ _ _ Hinv)|].
  intros s a t He. destruct (si_edges _ _ _ _ _ _ Hinv _ _ _ He) as (_ & Ha & _).
  rewrite nsymbols_eq in Ha. apply nsymbols_fold in Ha. destruct Ha as [[]|[Hne _]]. exact Hne.
Qed.
