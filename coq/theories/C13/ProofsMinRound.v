(** C13 — Minimize, part 2: one round of partition refinement; the partition on which the loop
    stops is good and stable. *)
From Coq Require Import ZArith List Bool Lia Sorted.
From Algo.C13 Require Import Model Spec Lemmas ProofsNFA ProofsDFA ProofsElim ProofsSubset ProofsSubsetTerm ProofsMinQuot.
Import ListNotations.
Open Scope Z_scope.

(** ** signatures *)
Definition sig (p : partition) (d : dfa) (s : Z) : list (Z * Z) :=
  fold_left (fun gs at_ => let rep := prep p (snd at_) in if rep =? -1 then gs else aput (fst at_) rep gs)
    (aget_or [] s (dtrans d)) [].

Lemma build_group_trans_eq : forall p d G,
  build_group_trans p d G = fold_left (fun gt s => aput s (sig p d s) gt) G [].
Proof. reflexivity. Qed.

Definition sigeq (a b : list (Z * Z)) : bool := aequal Z.eqb a b.

Lemma aincl_get : forall (a b : list (Z * Z)) k v, aincl Z.eqb a b = true -> aget k a = Some v -> aget k b = Some v.
Proof.
  intros a b k v H Hg. unfold aincl in H. rewrite forallb_forall in H. apply aget_In in Hg.
  specialize (H _ Hg). simpl in H. destruct (aget k b) as [v'|]; [|discriminate]. apply Z.eqb_eq in H. now subst.
Qed.

Lemma aincl_of_get : forall (a b : list (Z * Z)), NoDup (map fst a) ->
  (forall k v, aget k a = Some v -> aget k b = Some v) -> aincl Z.eqb a b = true.
Proof.
  intros a b Hnd H. unfold aincl. apply forallb_forall. intros [k v] Hin. simpl.
  rewrite (H k v (In_aget k v a Hnd Hin)). apply Z.eqb_refl.
Qed.

Lemma sigeq_get : forall a b k v, sigeq a b = true -> (aget k a = Some v <-> aget k b = Some v).
Proof.
  intros a b k v H. unfold sigeq, aequal in H. apply andb_true_iff in H. destruct H as [H1 H2].
  split; eapply aincl_get; eauto.
Qed.

Lemma sigeq_refl : forall a, NoDup (map fst a) -> sigeq a a = true.
Proof. intros a H. unfold sigeq, aequal. rewrite (aincl_of_get a a H); auto. Qed.

Lemma sigeq_sym : forall a b, sigeq a b = sigeq b a.
Proof. intros. unfold sigeq, aequal. apply andb_comm. Qed.

Lemma sigeq_trans : forall a b c, NoDup (map fst a) -> NoDup (map fst c) ->
  sigeq a b = true -> sigeq b c = true -> sigeq a c = true.
Proof.
  intros a b c Ha Hc H1 H2. unfold sigeq, aequal. apply andb_true_iff. split; apply aincl_of_get; auto; intros k v Hg.
  - apply (sigeq_get b c k v H2). now apply (sigeq_get a b k v H1).
  - apply (sigeq_get a b k v H1). now apply (sigeq_get b c k v H2).
Qed.

Lemma sig_fold_sorted : forall p row acc, ksorted acc ->
  ksorted (fold_left (fun gs (at_ : Z * Z) => let rep := prep p (snd at_) in if rep =? -1 then gs else aput (fst at_) rep gs) row acc).
Proof.
  intros p. induction row as [|e r IH]; intros acc H; simpl; [exact H|].
  apply IH. destruct (prep p (snd e) =? -1); [exact H | now apply ksorted_aput].
Qed.

Lemma sig_sorted : forall p d s, ksorted (sig p d s).
Proof. intros. unfold sig. apply sig_fold_sorted. constructor. Qed.

Lemma sig_nodup : forall p d s, NoDup (map fst (sig p d s)).
Proof. intros. apply ksorted_NoDup, sig_sorted. Qed.

Lemma sig_fold_get : forall p row acc a, NoDup (map fst row) ->
  (forall b t, In (b, t) row -> prep p t <> -1) ->
  aget a (fold_left (fun gs (at_ : Z * Z) => let rep := prep p (snd at_) in if rep =? -1 then gs else aput (fst at_) rep gs) row acc)
  = match aget a row with Some t => Some (prep p t) | None => aget a acc end.
Proof.
  intros p. induction row as [|[b t] r IH]; intros acc a Hnd Hrep; simpl; [reflexivity|].
  inversion Hnd as [|? ? Hni Hnd']; subst.
  assert (Hbt : (prep p t =? -1) = false) by (apply Z.eqb_neq; apply (Hrep b t); now left).
  rewrite Hbt. rewrite IH; [|exact Hnd'|intros; eapply Hrep; right; eauto].
  destruct (Z.eqb_spec a b) as [->|Hne].
  - destruct (aget b r) as [t'|] eqn:E.
    + exfalso. apply Hni. apply aget_In in E. apply in_map_iff. exists (b, t'). auto.
    + apply aget_aput_eq.
  - destruct (aget a r); [reflexivity|]. apply aget_aput_ne. congruence.
Qed.

Lemma sig_get : forall p d s a r, dwf d -> pgood d p ->
  (aget a (sig p d s) = Some r <-> exists t, dedge d s a t /\ prep p t = r).
Proof.
  intros p d s a r [W1 W2] Hg. unfold sig, aget_or, dedge.
  destruct (aget s (dtrans d)) as [row|] eqn:E.
  - rewrite sig_fold_get.
    + simpl. split.
      * destruct (aget a row) as [t|] eqn:E2; [|discriminate]. intros H. inversion H; subst. exists t. split; [eauto|reflexivity].
      * intros [t [[row' [H1 H2]] H3]]. inversion H1; subst row'. now rewrite H2, H3.
    + apply ksorted_NoDup. apply (aget_Forall _ _ _ _ W2 E).
    + intros b t Hin. assert (He : dedge d s b t).
      { exists row. split; [exact E|]. apply In_aget; [|exact Hin]. apply ksorted_NoDup. apply (aget_Forall _ _ _ _ W2 E). }
      destruct (prep_state d p t Hg (proj2 (dedge_in_dstates d s b t He))) as (_ & _ & _ & H). lia.
  - simpl. split; [discriminate|]. intros [t [[row [H1 _]] _]]. discriminate.
Qed.

Lemma bgt_fold_get : forall p d G acc s,
  aget s (fold_left (fun gt s => aput s (sig p d s) gt) G acc) =
  if in_dec Z.eq_dec s G then Some (sig p d s) else aget s acc.
Proof.
  intros p d. induction G as [|x r IH]; intros acc s; simpl; [reflexivity|]. rewrite IH.
  destruct (in_dec Z.eq_dec s r) as [Hin|Hnin].
  - destruct (Z.eq_dec x s); reflexivity.
  - destruct (Z.eq_dec x s) as [->|Hne]; [apply aget_aput_eq | now apply aget_aput_ne].
Qed.

Lemma bgt_sorted : forall p d G, ksorted (build_group_trans p d G).
Proof.
  intros p d G. rewrite build_group_trans_eq.
  assert (H : forall G acc, ksorted acc -> ksorted (fold_left (fun gt s => aput s (sig p d s) gt) G acc)).
  { induction G0 as [|x r IH]; intros acc Ha; simpl; [exact Ha|]. apply IH. now apply ksorted_aput. }
  apply H. constructor.
Qed.

Lemma bgt_In : forall p d G s sg, In (s, sg) (build_group_trans p d G) <-> In s G /\ sg = sig p d s.
Proof.
  intros p d G s sg. split.
  - intros H. apply In_aget in H; [|apply ksorted_NoDup, bgt_sorted].
    rewrite build_group_trans_eq, bgt_fold_get in H. destruct (in_dec Z.eq_dec s G); [|discriminate].
    inversion H. auto.
  - intros [H ->]. apply aget_In. rewrite build_group_trans_eq, bgt_fold_get.
    destruct (in_dec Z.eq_dec s G); [reflexivity | contradiction].
Qed.

(** ** the inner loop of PartitionAndAddGroups *)
Lemma class_fold : forall sg0 l H0 x,
  In x (fold_left (fun H (tq : Z * list (Z * Z)) =>
          if aequal Z.eqb sg0 (snd tq) && negb (smem (fst tq) H) then sadd (fst tq) H else H) l H0)
  <-> In x H0 \/ exists sg, In (x, sg) l /\ sigeq sg0 sg = true.
Proof.
  intros sg0. induction l as [|[y sgy] r IH]; intros H0 x; simpl.
  - split; [auto|]. intros [H|[sg [[] _]]]. exact H.
  - rewrite IH. fold (sigeq sg0 sgy). destruct (sigeq sg0 sgy) eqn:E; simpl.
    + destruct (smem y H0) eqn:Em; simpl.
      * apply smem_In in Em. split.
        -- intros [H|[sg [H1 H2]]]; [auto | right; eauto].
        -- intros [H|[sg [[H1|H1] H2]]]; [auto | inversion H1; subst; auto | right; eauto].
      * rewrite In_sadd. split.
        -- intros [[->|H]|[sg [H1 H2]]]; [right; exists sgy; auto | auto | right; eauto].
        -- intros [H|[sg [[H1|H1] H2]]]; [auto | inversion H1; subst; auto | right; eauto].
    + split.
      * intros [H|[sg [H1 H2]]]; [auto | right; eauto].
      * intros [H|[sg [[H1|H1] H2]]]; [auto | inversion H1; subst; congruence | right; eauto].
Qed.

Lemma class_fold_nodup : forall sg0 l H0, ssorted H0 ->
  ssorted (fold_left (fun H (tq : Z * list (Z * Z)) =>
          if aequal Z.eqb sg0 (snd tq) && negb (smem (fst tq) H) then sadd (fst tq) H else H) l H0).
Proof.
  intros sg0. induction l as [|e r IH]; intros H0 Hs; simpl; [exact Hs|].
  apply IH. destruct (aequal Z.eqb sg0 (snd e) && negb (smem (fst e) H0)); [now apply ssorted_sadd | exact Hs].
Qed.

(** ** PartitionAndAddGroups *)
Definition class_of (gt : list (Z * list (Z * Z))) (st : Z * list (Z * Z)) : list Z :=
  fold_left (fun H (tq : Z * list (Z * Z)) =>
     if aequal Z.eqb (snd st) (snd tq) && negb (smem (fst tq) H) then sadd (fst tq) H else H) (tl gt) [fst st].

Definition paa_step (gt : list (Z * list (Z * Z))) (q : partition) (st : Z * list (Z * Z)) : partition :=
  if prep q (fst st) =? -1 then padd q (class_of gt st) else q.

Lemma partition_and_add_eq : forall p gt, partition_and_add p gt = fold_left (paa_step gt) gt p.
Proof. reflexivity. Qed.

Lemma prep_none : forall q s, prep q s = -1 -> (forall H r, In (H, r) (pgroups q) -> 0 <= r) ->
  forall H r, In (H, r) (pgroups q) -> ~ In s H.
Proof.
  intros q s Hp Hr H r Hin Hs. unfold prep in Hp.
  destruct (find (fun g => smem s (fst g)) (pgroups q)) as [[H' r']|] eqn:E.
  - apply find_some in E. destruct E as [E1 _]. simpl in Hp. subst r'. specialize (Hr _ _ E1). lia.
  - pose proof (find_none _ _ E (H, r) Hin) as Hn. simpl in Hn. apply smem_false in Hn. auto.
Qed.

Lemma prep_found : forall q s, prep q s <> -1 -> exists H r, In (H, r) (pgroups q) /\ In s H.
Proof.
  intros q s Hp. unfold prep in Hp.
  destruct (find (fun g => smem s (fst g)) (pgroups q)) as [[H' r']|] eqn:E; [|congruence].
  apply find_some in E. destruct E as [E1 E2]. simpl in E2. apply smem_In in E2. eauto.
Qed.

Lemma entry_eq_dec : forall a b : list Z * Z, {a = b} + {a <> b}.
Proof. decide equality; [apply Z.eq_dec | apply (list_eq_dec Z.eq_dec)]. Qed.

(** description of the partition under construction in one round *)
Record qinv (p : partition) (d : dfa) (done cdone : list (list Z * Z)) (q : partition) : Prop := {
  q_desc : forall H r, In (H, r) (pgroups q) ->
     NoDup H /\ exists G rg s0, In (G, rg) done /\ In s0 H /\
                forall x, In x H -> In x G /\ sigeq (sig p d s0) (sig p d x) = true;
  q_disj : forall H r H' r' x, In (H, r) (pgroups q) -> In (H', r') (pgroups q) ->
     In x H -> In x H' -> H = H' /\ r = r';
  q_reps : forall H r, In (H, r) (pgroups q) -> 0 <= r < pnext q;
  q_inj : forall H r H' r', In (H, r) (pgroups q) -> In (H', r') (pgroups q) -> r = r' -> H = H';
  q_next : 0 <= pnext q;
  q_cover : forall G rg x, In (G, rg) cdone -> In x G -> exists H r, In (H, r) (pgroups q) /\ In x H;
  q_full : forall H r, In (H, r) (pgroups q) ->
     exists G rg s0, In (G, rg) done /\ In s0 H /\ In s0 G /\
       forall x sg, In (x, sg) (tl (build_group_trans p d G)) -> sigeq (sig p d s0) sg = true -> In x H;
  q_nodup : NoDup (map snd (pgroups q));
  q_len : pnext q = Z.of_nat (length (pgroups q)) }.

Lemma padd_groups : forall q H, (forall H' r', In (H', r') (pgroups q) -> sequal H' H = false) ->
  pgroups (padd q H) = pgroups q ++ [(H, pnext q)] /\ pnext (padd q H) = pnext q + 1.
Proof.
  intros q H Hn. unfold padd. simpl. split; [|reflexivity].
  destruct (existsb (fun g => sequal (fst g) H) (pgroups q)) eqn:E; [|reflexivity].
  apply existsb_exists in E. destruct E as [[H' r'] [Hin Hs]]. simpl in Hs. rewrite (Hn _ _ Hin) in Hs. discriminate.
Qed.

Section Round.
  Variables (p : partition) (d : dfa).
  Hypothesis Hwf : dwf d.
  Hypothesis Hg : pgood d p.

  Section OneGroup.
    Variables (G : list Z) (rg : Z) (done : list (list Z * Z)).
    Hypothesis HG : In (G, rg) (pgroups p).
    Hypothesis Hdone : forall G' r', In (G', r') done -> In (G', r') (pgroups p).
    Let gt := build_group_trans p d G.

    (** invariant of the loop over the entries of [gt]: [pre] already handled *)
    Record ginv (q0 : partition) (pre : list (Z * list (Z * Z))) (q : partition) : Prop := {
      g_inv : qinv p d ((G, rg) :: done) done q;
      g_old : forall e, In e (pgroups q0) -> In e (pgroups q);
      g_pre : forall s, In s (map fst pre) -> exists H r, In (H, r) (pgroups q) /\ In s H;
      g_full : forall H r, In (H, r) (pgroups q) -> ~ In (H, r) (pgroups q0) ->
               exists s0, In s0 (map fst pre) /\ In s0 H /\
                          forall x sg, In (x, sg) (tl gt) -> sigeq (sig p d s0) sg = true -> In x H;
      g_donecover : forall G' r' x, In (G', r') done -> In x G' ->
                    exists H r, In (H, r) (pgroups q0) /\ In x H;
      g_olddesc : forall H r, In (H, r) (pgroups q0) -> exists G' r', In (G', r') done /\ forall x, In x H -> In x G' }.

    Lemma paa_fold : forall rest pre q0 q, gt = pre ++ rest -> ginv q0 pre q ->
      ginv q0 (pre ++ rest) (fold_left (paa_step gt) rest q).
    Proof.
      induction rest as [|[s sg] rest IH]; intros pre q0 q Hgt Hinv; simpl.
      - now rewrite app_nil_r.
      - replace (pre ++ (s, sg) :: rest) with ((pre ++ [(s, sg)]) ++ rest) by (now rewrite <- app_assoc).
        apply IH; [now rewrite <- app_assoc|].
        assert (Hsin : In (s, sg) gt) by (rewrite Hgt; apply in_or_app; right; now left).
        apply bgt_In in Hsin. destruct Hsin as [HsG ->].
        destruct Hinv as [[D1 D2 D3 D4 D5 D6 D7 D8 D9] Hold Hpre Hfull Hdc Hod].
        unfold paa_step. simpl. destruct (prep q s =? -1) eqn:Ep.
        + apply Z.eqb_eq in Ep.
          assert (Hnone : forall H r, In (H, r) (pgroups q) -> ~ In s H).
          { apply (prep_none q s Ep). intros H r Hin. apply (D3 H r Hin). }
          set (Hc := class_of gt (s, sig p d s)).
          assert (HcIn : forall x, In x Hc <-> x = s \/ exists sgx, In (x, sgx) (tl gt) /\ sigeq (sig p d s) sgx = true).
          { intros x. unfold Hc, class_of. simpl. rewrite class_fold. simpl. intuition. }
          assert (HcG : forall x, In x Hc -> In x G /\ sigeq (sig p d s) (sig p d x) = true).
          { intros x Hx. apply HcIn in Hx. destruct Hx as [->|[sgx [Hin Hse]]].
            - split; [exact HsG | apply sigeq_refl, sig_nodup].
            - assert (Hin' : In (x, sgx) gt) by (destruct gt; [destruct Hin | now right]).
              apply bgt_In in Hin'. destruct Hin' as [HxG ->]. auto. }
          assert (HcND : NoDup Hc).
          { apply ssorted_NoDup. unfold Hc, class_of. apply class_fold_nodup. repeat constructor. }
          assert (Hfresh : forall H' r', In (H', r') (pgroups q) -> sequal H' Hc = false).
          { intros H' r' Hin. destruct (sequal H' Hc) eqn:Es; [|reflexivity]. exfalso.
            apply (Hnone H' r' Hin). destruct (D1 H' r' Hin) as [Hnd _].
            apply (sequal_seteq H' Hc Hnd Es). apply HcIn. now left. }
          destruct (padd_groups q Hc Hfresh) as [Eg En].
          (* the new class is disjoint from every existing group *)
          assert (Hdisj : forall H1 r1 x, In (H1, r1) (pgroups q) -> In x H1 -> ~ In x Hc).
          { intros H1 r1 x Hin1 Hx1 Hxc. destruct (HcG x Hxc) as [HxG Hsx].
            destruct (in_dec entry_eq_dec (H1, r1) (pgroups q0)) as [Hq0|Hq0].
            - (* an old group lies in a finished p-group; x in G too: G finished, so s is covered *)
              destruct (Hod H1 r1 Hq0) as (G' & r' & Hd' & Hsub).
              destruct (pg_disj d p Hg G rg G' r' x HG (Hdone _ _ Hd') HxG (Hsub x Hx1)) as [<- <-].
              destruct (Hdc G rg s Hd' HsG) as (H2 & r2 & Hin2 & Hs2).
              apply (Hnone H2 r2 (Hold _ Hin2) Hs2).
            - destruct (Hfull H1 r1 Hin1 Hq0) as (s0 & Hs0pre & Hs0 & Hall).
              destruct (D1 H1 r1 Hin1) as (_ & G1 & rg1 & s1 & _ & Hs1 & Hdesc).
              assert (E1 : sigeq (sig p d s0) (sig p d s) = true).
              { apply (sigeq_trans _ (sig p d x)); try apply sig_nodup.
                - apply (sigeq_trans _ (sig p d s1)); try apply sig_nodup.
                  + rewrite sigeq_sym. apply (Hdesc s0 Hs0).
                  + apply (Hdesc x Hx1).
                - rewrite sigeq_sym. exact Hsx. }
              apply (Hnone H1 r1 Hin1). apply (Hall s (sig p d s)); [|exact E1].
              (* s is not the first entry of gt since pre is not empty *)
              rewrite Hgt. destruct pre as [|e0 pre']; [destruct Hs0pre|]. simpl. apply in_or_app. right. now left. }
          split.
          * split.
            -- intros H r Hin. rewrite Eg in Hin. apply in_app_or in Hin. destruct Hin as [Hin|[Hin|[]]].
               ++ apply (D1 H r Hin).
               ++ inversion Hin; subst. split; [exact HcND|]. exists G, rg, s. split; [now left|].
                  split; [apply HcIn; now left | exact HcG].
            -- intros H r H' r' x Hin Hin' Hx Hx'. rewrite Eg in Hin, Hin'.
               apply in_app_or in Hin. apply in_app_or in Hin'.
               destruct Hin as [Hin|[Hin|[]]]; destruct Hin' as [Hin'|[Hin'|[]]].
               ++ eapply D2; eauto.
               ++ inversion Hin'; subst. exfalso. eapply Hdisj; eauto.
               ++ inversion Hin; subst. exfalso. eapply Hdisj; eauto.
               ++ inversion Hin; inversion Hin'; subst. auto.
            -- intros H r Hin. rewrite Eg in Hin. rewrite En. apply in_app_or in Hin. destruct Hin as [Hin|[Hin|[]]].
               ++ specialize (D3 H r Hin). lia.
               ++ inversion Hin; subst. lia.
            -- intros H r H' r' Hin Hin' Hr. rewrite Eg in Hin, Hin'.
               apply in_app_or in Hin. apply in_app_or in Hin'.
               destruct Hin as [Hin|[Hin|[]]]; destruct Hin' as [Hin'|[Hin'|[]]].
               ++ eapply D4; eauto.
               ++ inversion Hin'; subst. specialize (D3 H _ Hin). lia.
               ++ inversion Hin; subst. specialize (D3 H' _ Hin'). lia.
               ++ inversion Hin; inversion Hin'; subst. reflexivity.
            -- rewrite En. lia.
            -- intros G' rg' x Hd Hx. destruct (D6 G' rg' x Hd Hx) as (H & r & Hin & HxH).
               exists H, r. split; [rewrite Eg; apply in_or_app; now left | exact HxH].
            -- intros H r Hin. rewrite Eg in Hin. apply in_app_or in Hin. destruct Hin as [Hin|[Hin|[]]].
               ++ apply (D7 H r Hin).
               ++ inversion Hin; subst. exists G, rg, s. split; [now left|]. split; [apply HcIn; now left|].
                  split; [exact HsG|]. intros x sgx Hx Hse. apply HcIn. right. eauto.
            -- rewrite Eg, map_app. simpl. apply NoDup_snoc; [exact D8|]. intros Hin. apply in_map_iff in Hin.
               destruct Hin as [[H' r'] [Hr' Hin']]. simpl in Hr'. subst r'. specialize (D3 H' _ Hin'). lia.
            -- rewrite Eg, En, app_length, D9. simpl. lia.
          * intros e He. rewrite Eg. apply in_or_app. left. now apply Hold.
          * intros s' Hs'. rewrite map_app in Hs'. apply in_app_or in Hs'. destruct Hs' as [Hs'|[<-|[]]].
            -- destruct (Hpre s' Hs') as (H & r & Hin & HsH). exists H, r. split; [rewrite Eg; apply in_or_app; now left | exact HsH].
            -- exists Hc, (pnext q). split; [rewrite Eg; apply in_or_app; right; now left | apply HcIn; now left].
          * intros H r Hin Hn0. rewrite Eg in Hin. apply in_app_or in Hin. destruct Hin as [Hin|[Hin|[]]].
            -- destruct (Hfull H r Hin Hn0) as (s0 & Hs0 & Hs0H & Hall). exists s0.
               split; [rewrite map_app; apply in_or_app; now left|]. auto.
            -- inversion Hin; subst. exists s. split; [rewrite map_app; apply in_or_app; right; now left|].
               split; [apply HcIn; now left|]. intros x sgx Hx Hse. apply HcIn. right. eauto.
          * exact Hdc.
          * exact Hod.
        + apply Z.eqb_neq in Ep. split; auto.
          * split; auto.
          * intros s' Hs'. rewrite map_app in Hs'. apply in_app_or in Hs'. destruct Hs' as [Hs'|[<-|[]]]; [now apply Hpre|].
            now apply prep_found.
          * intros H r Hin Hn0. destruct (Hfull H r Hin Hn0) as (s0 & Hs0 & Hs0H & Hall). exists s0.
            split; [rewrite map_app; apply in_or_app; now left|]. auto.
    Qed.
  End OneGroup.
End Round.

Section Round2.
  Variables (p : partition) (d : dfa).
  Hypothesis Hwf : dwf d.
  Hypothesis Hg : pgood d p.

  Definition round_step (acc : partition) (G : list Z * Z) : partition :=
    partition_and_add acc (build_group_trans p d (fst G)).

  Lemma qinv_mono : forall done q G rg, qinv p d done done q -> qinv p d ((G, rg) :: done) done q.
  Proof.
    intros done q G rg [D1 D2 D3 D4 D5 D6 D7 D8 D9]. split; auto.
    - intros H r Hin. destruct (D1 H r Hin) as [Hnd (G' & rg' & s0 & Hd & Hs & Hall)].
      split; [exact Hnd|]. exists G', rg', s0. split; [now right|]. auto.
    - intros H r Hin. destruct (D7 H r Hin) as (G' & rg' & s0 & Hd & Hrest).
      exists G', rg', s0. split; [now right | exact Hrest].
  Qed.

  Lemma round_fold : forall rest done q,
    (forall e, In e rest -> In e (pgroups p)) -> (forall e, In e done -> In e (pgroups p)) ->
    qinv p d done done q ->
    qinv p d (rev rest ++ done) (rev rest ++ done) (fold_left round_step rest q).
  Proof.
    induction rest as [|[G rg] rest IH]; intros done q Hr Hd Hinv; simpl; [exact Hinv|].
    rewrite <- app_assoc. simpl. apply IH.
    - intros e He. apply Hr. now right.
    - intros e [<-|He]; [apply Hr; now left | now apply Hd].
    - assert (HG : In (G, rg) (pgroups p)) by (apply Hr; now left).
      assert (Hd' : forall G' r', In (G', r') done -> In (G', r') (pgroups p)) by (intros; now apply Hd).
      pose proof (paa_fold p d Hg G rg done HG Hd' (build_group_trans p d G) [] q q eq_refl) as HP.
      simpl in HP. unfold round_step. simpl. rewrite partition_and_add_eq.
      assert (Hinit : ginv p d G rg done q [] q).
      { split.
        - now apply qinv_mono.
        - auto.
        - intros s [].
        - intros H r Hin Hn. contradiction.
        - intros G' r' x Hin Hx. apply (q_cover _ _ _ _ _ Hinv G' r' x Hin Hx).
        - intros H r Hin. destruct (q_desc _ _ _ _ _ Hinv H r Hin) as [_ (G' & rg' & s0 & Hdn & _ & Hall)].
          exists G', rg'. split; [exact Hdn|]. intros x Hx. apply (Hall x Hx). }
      specialize (HP Hinit). destruct HP as [[D1 D2 D3 D4 D5 D6 D7 D8 D9] Hold Hpre Hfull Hdc Hod].
      split; auto. intros G' rg' x [Hin|Hin] Hx.
      + inversion Hin; subst. apply Hpre. apply in_map_iff. exists (x, sig p d x). split; [reflexivity|].
        apply bgt_In. auto.
      + eapply D6; eauto.
  Qed.

  Definition round : partition := fold_left round_step (pgroups p) pnew.

  Lemma qinv_pnew : qinv p d [] [] pnew.
  Proof. split; simpl; try contradiction; try lia; try constructor; intros; contradiction. Qed.

  Lemma round_inv : qinv p d (rev (pgroups p)) (rev (pgroups p)) round.
  Proof.
    pose proof (round_fold (pgroups p) [] pnew (fun e H => H) (fun e (H : In e []) => False_ind _ H) qinv_pnew) as H.
    now rewrite app_nil_r in H.
  Qed.

  Lemma round_good : pgood d round.
  Proof.
    destruct round_inv as [D1 D2 D3 D4 D5 D6 D7 D8 D9]. split.
    - intros x Hx. destruct (pg_cover d p Hg x Hx) as (G & r & Hin & HxG).
      apply (D6 G r x); [now apply -> in_rev | exact HxG].
    - exact D2.
    - intros H r x y Hin Hx Hy. destruct (D1 H r Hin) as [_ (G & rg & s0 & Hd & _ & Hall)].
      apply in_rev in Hd. apply (pg_homog d p Hg G rg x y Hd); [apply (Hall x Hx) | apply (Hall y Hy)].
    - exact D4.
    - exact D3.
    - intros H r x Hin Hx. destruct (D1 H r Hin) as [_ (G & rg & s0 & Hd & _ & Hall)].
      apply in_rev in Hd. apply (pg_sub d p Hg G rg x Hd). apply (Hall x Hx).
    - exact D8.
  Qed.

  Lemma round_stable : pequal round p = true -> pstable d p.
  Proof.
    intros He. unfold pequal in He. apply andb_true_iff in He. destruct He as [He _].
    apply andb_true_iff in He. destruct He as [_ He]. rewrite forallb_forall in He.
    destruct round_inv as [D1 D2 D3 D4 D5 D6 D7 D8 D9].
    intros G r x y a t HG Hx Hy Hedge.
    destruct (D6 G r x (proj1 (in_rev _ _) HG) Hx) as (H & rh & HinH & HxH).
    destruct (D1 H rh HinH) as [_ (G1 & rg1 & s0 & Hd1 & Hs0 & Hall)]. apply in_rev in Hd1.
    destruct (pg_disj d p Hg G r G1 rg1 x HG Hd1 Hx (proj1 (Hall x HxH))) as [<- <-].
    (* the group H of the refined partition equals, as a set, a group of p, which must be G *)
    specialize (He (H, rh) HinH). simpl in He. apply existsb_exists in He. destruct He as [[G2 r2] [HG2 Hse]].
    simpl in Hse. unfold sequal in Hse. apply andb_true_iff in Hse. destruct Hse as [Hlen Hsub].
    apply Nat.eqb_eq in Hlen. rewrite forallb_forall in Hsub.
    assert (HyH : In y H).
    { destruct G2 as [|z G2'].
      - destruct H; [destruct HxH | discriminate].
      - assert (HzH : In z H) by (apply smem_In, Hsub; now left).
        destruct (pg_disj d p Hg G r (z :: G2') r2 z HG HG2 (proj1 (Hall z HzH)) (or_introl eq_refl)) as [HGeq _].
        subst G. apply smem_In, Hsub. exact Hy. }
    (* x and y carry the signature of s0 *)
    assert (Exy : sigeq (sig p d x) (sig p d y) = true).
    { apply (sigeq_trans _ (sig p d s0)); try apply sig_nodup.
      - rewrite sigeq_sym. apply (Hall x HxH).
      - apply (Hall y HyH). }
    assert (Hgx : aget a (sig p d x) = Some (prep p t)) by (apply sig_get; eauto).
    apply (sigeq_get _ _ a (prep p t) Exy) in Hgx. apply sig_get in Hgx; auto.
  Qed.
End Round2.

(** ** the loop *)
Lemma initial_partition_groups : forall d,
  pgroups (padd (padd pnew (sdiff (dstates d) (dfinal d))) (dfinal d)) = [(sdiff (dstates d) (dfinal d), 0); (dfinal d, 1)] /\
  pnext (padd (padd pnew (sdiff (dstates d) (dfinal d))) (dfinal d)) = 2.
Proof.
  intros d. set (NF := sdiff (dstates d) (dfinal d)). set (F := dfinal d).
  assert (E1 : pgroups (padd pnew NF) = [(NF, 0)] /\ pnext (padd pnew NF) = 1).
  { destruct (padd_groups pnew NF) as [H1 H2]; [intros H' r' []|]. simpl in *. auto. }
  destruct E1 as [E1 E1n].
  assert (Hne : sequal NF F = false).
  { destruct (sequal NF F) eqn:E; [|reflexivity]. exfalso.
    unfold sequal in E. apply andb_true_iff in E. destruct E as [Hl Hs]. apply Nat.eqb_eq in Hl.
    rewrite forallb_forall in Hs.
    assert (HNF : NF = []).
    { destruct NF as [|z r] eqn:EN; [reflexivity|]. exfalso.
      assert (Hz : In z (sdiff (dstates d) (dfinal d))) by (fold NF; rewrite EN; now left).
      apply In_sdiff in Hz. destruct Hz as [_ Hz]. apply Hz. apply smem_In, Hs. now left. }
    rewrite HNF in Hl. simpl in Hl. destruct F as [|f r] eqn:EF; [|discriminate].
    assert (Hst : In (dstart d) NF).
    { apply In_sdiff. split; [apply dstart_in_dstates|]. fold F. rewrite EF. intros []. }
    rewrite HNF in Hst. destruct Hst. }
  destruct (padd_groups (padd pnew NF) F) as [H1 H2].
  - intros H' r' Hin. rewrite E1 in Hin. destruct Hin as [Hin|[]]. inversion Hin; subst. exact Hne.
  - rewrite E1, E1n in *. simpl in *. auto.
Qed.

Lemma initial_partition_good : forall d,
  pgood d (padd (padd pnew (sdiff (dstates d) (dfinal d))) (dfinal d)).
Proof.
  intros d. set (NF := sdiff (dstates d) (dfinal d)). set (F := dfinal d).
  assert (E1 : pgroups (padd pnew NF) = [(NF, 0)] /\ pnext (padd pnew NF) = 1).
  { destruct (padd_groups pnew NF) as [H1 H2]; [intros H' r' []|]. simpl in *. auto. }
  destruct E1 as [E1 E1n].
  assert (Hne : sequal NF F = false).
  { destruct (sequal NF F) eqn:E; [|reflexivity]. exfalso.
    unfold sequal in E. apply andb_true_iff in E. destruct E as [Hl Hs]. apply Nat.eqb_eq in Hl.
    rewrite forallb_forall in Hs.
    assert (HNF : NF = []).
    { destruct NF as [|z r] eqn:EN; [reflexivity|]. exfalso.
      assert (Hz : In z (sdiff (dstates d) (dfinal d))) by (fold NF; rewrite EN; now left).
      apply In_sdiff in Hz. destruct Hz as [_ Hz]. apply Hz. apply smem_In, Hs. now left. }
    rewrite HNF in Hl. simpl in Hl. destruct F as [|f r] eqn:EF; [|discriminate].
    assert (Hst : In (dstart d) NF).
    { apply In_sdiff. split; [apply dstart_in_dstates|]. fold F. rewrite EF. intros []. }
    rewrite HNF in Hst. destruct Hst. }
  assert (E2 : pgroups (padd (padd pnew NF) F) = [(NF, 0); (F, 1)] /\ pnext (padd (padd pnew NF) F) = 2).
  { destruct (padd_groups (padd pnew NF) F) as [H1 H2].
    - intros H' r' Hin. rewrite E1 in Hin. destruct Hin as [Hin|[]]. inversion Hin; subst. exact Hne.
    - rewrite E1, E1n in *. simpl in *. auto. }
  destruct E2 as [E2 E2n]. split; rewrite ?E2, ?E2n.
  - intros x Hx. destruct (in_dec Z.eq_dec x F) as [HF|HF].
    + exists F, 1. split; [right; now left | exact HF].
    + exists NF, 0. split; [now left|]. apply In_sdiff. auto.
  - intros G r G' r' x [H|[H|[]]] [H'|[H'|[]]] Hx Hx'; inversion H; inversion H'; subst; auto; exfalso.
    + apply In_sdiff in Hx. tauto.
    + apply In_sdiff in Hx'. tauto.
  - intros G r x y [H|[H|[]]] Hx Hy; inversion H; subst.
    + apply In_sdiff in Hx, Hy. tauto.
    + tauto.
  - intros G r G' r' [H|[H|[]]] [H'|[H'|[]]] Hr; inversion H; inversion H'; subst; auto; lia.
  - intros G r [H|[H|[]]]; inversion H; subst; lia.
  - intros G r x [H|[H|[]]] Hx; inversion H; subst.
    + apply In_sdiff in Hx. tauto.
    + now apply dfinal_in_dstates.
  - simpl. constructor; [intros [H|[]]; discriminate|]. constructor; [intros []|constructor].
Qed.

Lemma refine_step_eq : forall d p, refine_step d p = if pequal (round p d) p then Done p else More (round p d).
Proof. reflexivity. Qed.

Theorem minimize_partition_spec : forall d p, dwf d -> minimize_partition d = Ok p -> pgood d p /\ pstable d p.
Proof.
  intros d p Hwf H. unfold minimize_partition in H.
  apply (run_loop_inv (refine_step d) (pgood d) (fun p => pgood d p /\ pstable d p)) in H; auto.
  - intros q Hq. rewrite refine_step_eq. destruct (pequal (round q d) q) eqn:E.
    + split; [exact Hq|]. now apply round_stable.
    + now apply round_good.
  - apply initial_partition_good.
Qed.

(** Minimize preserves the language whenever the refinement loop returns. *)
Theorem minimize_accept : forall d m, dwf d -> dfa_ok d -> minimize d = Ok m ->
  dwf m /\ dfa_ok m /\ forall w, daccept m w = daccept d w.
Proof.
  intros d m Hwf Hok H. unfold minimize in H. destruct (minimize_partition d) as [p|] eqn:E; [|discriminate].
  simpl in H. inversion H; subst. destruct (minimize_partition_spec d p Hwf E) as [Hg Hs].
  split; [now apply min_wf|]. split; [now apply min_ok|]. intros w. now apply quotient_accept.
Qed.
