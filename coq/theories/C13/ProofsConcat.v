(** C13 — Concat on the domain where its start/final merging is sound (the complement of the
    D13a signature): no operand has an accepting start state, and no operand with a transition
    into its start state follows an operand with a transition out of a final state. *)
From Coq Require Import ZArith List Bool Lia.
From Algo.C13 Require Import Model Spec Lemmas ProofsNFA ProofsDFA ProofsSM ProofsUnion.
Import ListNotations.
Open Scope Z_scope.

(** ** one more operand: the abstract step *)
Section Step.
  Variables (C C' B : nfa) (F F' : list Z) (L : Z) (M : Z -> option Z).
  Let st := nstart B.

  Definition img (s x : Z) : Prop := (s = st /\ In x F) \/ (s <> st /\ M s = Some x).

  Hypothesis Hbound : forall x a y, nedge C x a y -> x <= L /\ y <= L.
  Hypothesis HFb : forall x, In x F -> x <= L.
  Hypothesis H0 : 0 <= L.
  Hypothesis Hfresh : forall s v, M s = Some v -> L < v.
  Hypothesis Minj : forall s s' v, M s = Some v -> M s' = Some v -> s = s'.
  Hypothesis Hdef : forall s a t, nedge B s a t -> (s <> st -> exists x, M s = Some x) /\ (t <> st -> exists y, M t = Some y).
  Hypothesis Hedges : forall x a y, nedge C' x a y <-> nedge C x a y \/ exists s t, nedge B s a t /\ img s x /\ img t y.
  Hypothesis HF' : forall y, In y F' <-> exists f, In f (nfinal B) /\ M f = Some y.
  Hypothesis S1 : ~ In st (nfinal B).
  Hypothesis Safe : (forall s a, ~ nedge B s a st) \/ (forall x a y, In x F -> ~ nedge C x a y).

  Variable P : lang.
  Hypothesis I1 : forall w, (exists x, In x F /\ npath C 0 w x) <-> P w.

  Lemma old_path : forall x w y, npath C x w y -> npath C' x w y.
  Proof.
    intros x w y H. induction H as [s|s t u w He Hp IH|s a t u w Ha He Hp IH].
    - constructor.
    - eapply np_eps; [apply Hedges; left; exact He | exact IH].
    - eapply np_sym; [exact Ha | apply Hedges; left; exact He | exact IH].
  Qed.

  (** lifting a path of B, entering at a fixed state x0 of F *)
  Lemma c_lift : forall x0, In x0 F -> forall s w t, npath B s w t ->
    forall xs, ((s = st /\ xs = x0) \/ (s <> st /\ M s = Some xs)) ->
    exists xt, ((t = st /\ xt = x0) \/ (t <> st /\ M t = Some xt)) /\ npath C' xs w xt.
  Proof.
    intros x0 Hx0 s w t Hp.
    assert (Himg : forall s xs, ((s = st /\ xs = x0) \/ (s <> st /\ M s = Some xs)) -> img s xs).
    { intros s0 xs [[-> ->]|[H1 H2]]; [left; auto | right; auto]. }
    induction Hp as [s|s t u w He Hp IH|s a t u w Ha He Hp IH]; intros xs Hs.
    - exists xs. split; [exact Hs | constructor].
    - assert (Hxt : exists xt, (t = st /\ xt = x0) \/ (t <> st /\ M t = Some xt)).
      { destruct (Z.eq_dec t st) as [->|Hne]; [exists x0; auto|]. destruct (Hdef _ _ _ He) as [_ H]. destruct (H Hne) as [y Hy]. exists y. auto. }
      destruct Hxt as [xt Hxt]. destruct (IH xt Hxt) as [xu [Hu Hpu]]. exists xu. split; [exact Hu|].
      eapply np_eps; [|exact Hpu]. apply Hedges. right. exists s, t. auto.
    - assert (Hxt : exists xt, (t = st /\ xt = x0) \/ (t <> st /\ M t = Some xt)).
      { destruct (Z.eq_dec t st) as [->|Hne]; [exists x0; auto|]. destruct (Hdef _ _ _ He) as [_ H]. destruct (H Hne) as [y Hy]. exists y. auto. }
      destruct Hxt as [xt Hxt]. destruct (IH xt Hxt) as [xu [Hu Hpu]]. exists xu. split; [exact Hu|].
      eapply np_sym; [exact Ha| |exact Hpu]. apply Hedges. right. exists s, t. auto.
  Qed.

  Definition fsinks : Prop := forall x a y, In x F -> ~ nedge C x a y.

  (** once inside the image of B, a path to a new state is the image of a path of B *)
  Lemma c_inside : forall x w y, npath C' x w y -> L < y ->
    forall s, img s x -> (L < x \/ fsinks) -> exists ty, M ty = Some y /\ npath B s w ty.
  Proof.
    intros x w y Hp. induction Hp as [x|x x' y w He Hp IH|x a x' y w Ha He Hp IH]; intros Hy s Hs Hc.
    - destruct Hs as [[-> Hx]|[Hne Hm]]; [apply HFb in Hx; lia|]. exists s. split; [exact Hm | constructor].
    - apply Hedges in He. destruct He as [He|(s' & t' & He & Hs' & Ht')].
      + exfalso. destruct Hc as [Hc|Hc].
        * destruct (Hbound _ _ _ He). lia.
        * destruct Hs as [[_ Hx]|[_ Hm]]; [eapply Hc; eauto|]. apply Hfresh in Hm. destruct (Hbound _ _ _ He). lia.
      + assert (s' = s).
        { destruct Hs as [[-> Hx]|[Hne Hm]]; destruct Hs' as [[-> Hx']|[Hne' Hm']]; auto.
          - apply Hfresh in Hm'. apply HFb in Hx. lia.
          - apply Hfresh in Hm. apply HFb in Hx'. lia.
          - eapply Minj; eauto. }
        subst s'.
        assert (Hc' : L < x' \/ fsinks).
        { destruct Ht' as [[-> Hx']|[_ Hm]]; [|left; now apply Hfresh in Hm].
          right. destruct Safe as [Hns|Hfs]; [exfalso; eapply Hns; eauto | exact Hfs]. }
        destruct (IH Hy t' Ht' Hc') as [ty [Hty Hpt]]. exists ty. split; [exact Hty|]. eapply np_eps; eauto.
    - apply Hedges in He. destruct He as [He|(s' & t' & He & Hs' & Ht')].
      + exfalso. destruct Hc as [Hc|Hc].
        * destruct (Hbound _ _ _ He). lia.
        * destruct Hs as [[_ Hx]|[_ Hm]]; [eapply Hc; eauto|]. apply Hfresh in Hm. destruct (Hbound _ _ _ He). lia.
      + assert (s' = s).
        { destruct Hs as [[-> Hx]|[Hne Hm]]; destruct Hs' as [[-> Hx']|[Hne' Hm']]; auto.
          - apply Hfresh in Hm'. apply HFb in Hx. lia.
          - apply Hfresh in Hm. apply HFb in Hx'. lia.
          - eapply Minj; eauto. }
        subst s'.
        assert (Hc' : L < x' \/ fsinks).
        { destruct Ht' as [[-> Hx']|[_ Hm]]; [|left; now apply Hfresh in Hm].
          right. destruct Safe as [Hns|Hfs]; [exfalso; eapply Hns; eauto | exact Hfs]. }
        destruct (IH Hy t' Ht' Hc') as [ty [Hty Hpt]]. exists ty. split; [exact Hty|]. eapply np_sym; eauto.
  Qed.

  (** a path from an old state to a new one first runs in C up to a state of F, then inside B *)
  Lemma c_split : forall x w y, npath C' x w y -> x <= L -> L < y ->
    exists u v x', w = u ++ v /\ In x' F /\ npath C x u x' /\ exists ty, M ty = Some y /\ npath B st v ty.
  Proof.
    intros x w y Hp. induction Hp as [x|x x' y w He Hp IH|x a x' y w Ha He Hp IH]; intros Hx Hy.
    - lia.
    - apply Hedges in He. destruct He as [He|(s' & t' & He & Hs' & Ht')].
      + destruct (IH (proj2 (Hbound _ _ _ He)) Hy) as (u & v & x0 & -> & Hx0 & Hpu & Hrest).
        exists u, v, x0. split; [reflexivity|]. split; [exact Hx0|]. split; [eapply np_eps; eauto | exact Hrest].
      + destruct Hs' as [[-> HxF]|[_ Hm]]; [|apply Hfresh in Hm; lia].
        assert (Hc' : L < x' \/ fsinks).
        { destruct Ht' as [[-> Hx']|[_ Hm]]; [|left; now apply Hfresh in Hm].
          right. destruct Safe as [Hns|Hfs]; [exfalso; eapply Hns; eauto | exact Hfs]. }
        destruct (c_inside _ _ _ Hp Hy t' Ht' Hc') as [ty [Hty Hpt]].
        exists [], w, x. split; [reflexivity|]. split; [exact HxF|]. split; [constructor|].
        exists ty. split; [exact Hty|]. eapply np_eps; eauto.
    - apply Hedges in He. destruct He as [He|(s' & t' & He & Hs' & Ht')].
      + destruct (IH (proj2 (Hbound _ _ _ He)) Hy) as (u & v & x0 & -> & Hx0 & Hpu & Hrest).
        exists (a :: u), v, x0. split; [reflexivity|]. split; [exact Hx0|]. split; [eapply np_sym; eauto | exact Hrest].
      + destruct Hs' as [[-> HxF]|[_ Hm]]; [|apply Hfresh in Hm; lia].
        assert (Hc' : L < x' \/ fsinks).
        { destruct Ht' as [[-> Hx']|[_ Hm]]; [|left; now apply Hfresh in Hm].
          right. destruct Safe as [Hns|Hfs]; [exfalso; eapply Hns; eauto | exact Hfs]. }
        destruct (c_inside _ _ _ Hp Hy t' Ht' Hc') as [ty [Hty Hpt]].
        exists [], (a :: w), x. split; [reflexivity|]. split; [exact HxF|]. split; [constructor|].
        exists ty. split; [exact Hty|]. eapply np_sym; eauto.
  Qed.

  Theorem step_lang : forall w, (exists y, In y F' /\ npath C' 0 w y) <->
    exists u v, w = u ++ v /\ P u /\ nlang B v.
  Proof.
    intros w. split.
    - intros [y [Hy Hp]]. apply HF' in Hy. destruct Hy as [f [Hf Hm]].
      destruct (c_split _ _ _ Hp H0 (Hfresh _ _ Hm)) as (u & v & x' & -> & Hx' & Hpu & ty & Hty & Hpv).
      exists u, v. split; [reflexivity|]. split; [apply I1; eauto|].
      assert (ty = f) by (eapply Minj; eauto). subst ty. exists f. auto.
    - intros (u & v & -> & Hu & f & Hf & Hpv). apply I1 in Hu. destruct Hu as [x0 [Hx0 Hpu]].
      destruct (c_lift x0 Hx0 _ _ _ Hpv x0 (or_introl (conj eq_refl eq_refl))) as [xt [Hxt Hpt]].
      destruct Hxt as [[-> _]|[Hne Hm]]; [contradiction|].
      exists xt. split; [apply HF'; eauto|]. eapply npath_app; [apply old_path; exact Hpu | exact Hpt].
  Qed.

  Lemma step_sinks : (forall f a t, In f (nfinal B) -> ~ nedge B f a t) ->
    forall y a z, In y F' -> ~ nedge C' y a z.
  Proof.
    intros Hno y a z Hy He. apply HF' in Hy. destruct Hy as [f [Hf Hm]]. apply Hedges in He.
    destruct He as [He|(s & t & He & Hs & _)].
    - destruct (Hbound _ _ _ He). apply Hfresh in Hm. lia.
    - destruct Hs as [[_ Hx]|[_ Hm']]; [apply HFb in Hx; apply Hfresh in Hm; lia|].
      assert (s = f) by (eapply Minj; eauto). subst s. eapply Hno; eauto.
  Qed.
End Step.

(** ** the loops of Concat *)
Definition ct_step (id st : Z) (fin : list Z) (ml : smgr * list Z) (t : Z) : smgr * list Z :=
  if t =? st then (fst ml, snd ml ++ fin) else let '(m', tq) := goc (fst ml) id t in (m', snd ml ++ [tq]).

Definition crow_step (id st : Z) (fin sp : list Z) (mn2 : smgr * nfa) (an : Z * list Z) : smgr * nfa :=
  let '(m2, nextp) := fold_left (ct_step id st fin) (snd an) (fst mn2, []) in
  (m2, fold_left (fun c s' => nadd c s' (fst an) nextp) sp (snd mn2)).

Definition ctable_step (id st : Z) (fin : list Z) (mn : smgr * nfa) (e : Z * list (Z * list Z)) : smgr * nfa :=
  let '(m1, sp) := if fst e =? st then (fst mn, fin) else let '(m', ss) := goc (fst mn) id (fst e) in (m', [ss]) in
  fold_left (crow_step id st fin sp) (snd e) (m1, snd mn).

Lemma concat_one_eq : forall m c fin id n,
  concat_one ((((m, c), fin), id)) n =
  (let mn' := fold_left (ctable_step id (nstart n) fin) (ntrans n) (m, c) in
   let '(m3, fin') := goc_list (fst mn') id (nfinal n) in
   (((m3, snd mn'), fin'), id + 1)).
Proof. reflexivity. Qed.

Definition cimg (m : smgr) (id st : Z) (fin : list Z) (s x : Z) : Prop :=
  (s = st /\ In x fin) \/ (s <> st /\ sm_find m id s = Some x).

(** values created for operand [id] are new *)
Definition grows (id : Z) (m m' : smgr) : Prop :=
  sm_last m <= sm_last m' /\
  forall id' s' v', sm_find m' id' s' = Some v' -> sm_find m id' s' = Some v' \/ (id' = id /\ sm_last m < v').

Lemma grows_refl : forall id m, grows id m m.
Proof. intros. split; [lia | auto]. Qed.

Lemma grows_trans : forall id a b c, grows id a b -> grows id b c -> grows id a c.
Proof.
  intros id a b c [L1 H1] [L2 H2]. split; [lia|]. intros id' s' v' Hv.
  destruct (H2 _ _ _ Hv) as [Hb|[-> Hlt]]; [|right; split; [reflexivity | lia]].
  destruct (H1 _ _ _ Hb) as [Ha|[-> Hlt]]; [now left | right; auto].
Qed.

Lemma goc_grows : forall lo m id s m' v, sm_ok lo m -> goc m id s = (m', v) -> grows id m m'.
Proof.
  intros lo m id s m' v Hok H. unfold goc in H. destruct (sm_find m id s) as [t|] eqn:E.
  - inversion H; subst. apply grows_refl.
  - inversion H; subst. clear H. destruct m as [last mp]. simpl in *. split; [simpl; lia|].
    intros id' s' v'. rewrite sm_find_cons. destruct ((id =? id') && (s =? s')) eqn:Eb.
    + intros Hv. inversion Hv; subst. apply andb_true_iff in Eb. rewrite !Z.eqb_eq in Eb. right. split; [intuition|simpl; lia].
    + intros Hv. left. exact Hv.
Qed.

Lemma ct_fold : forall lo id st fin nx m pre m' out, sm_ok lo m ->
  fold_left (ct_step id st fin) nx (m, pre) = (m', out) ->
  sm_ok lo m' /\ sm_ext m m' /\ grows id m m' /\
  (forall y, In y out <-> In y pre \/ exists t, In t nx /\ cimg m' id st fin t y) /\
  (forall t, In t nx -> t <> st -> exists y, sm_find m' id t = Some y).
Proof.
  intros lo id st fin. induction nx as [|t nx IH]; intros m pre m' out Hok H; simpl in H.
  - inversion H; subst. split; [exact Hok|]. split; [apply sm_ext_refl|]. split; [apply grows_refl|]. split.
    + intros y. split; [auto|]. intros [Hy|[t [[] _]]]. exact Hy.
    + intros t [].
  - unfold ct_step at 2 in H. simpl in H. destruct (Z.eqb_spec t st) as [->|Hne].
    + destruct (IH m (pre ++ fin) m' out Hok H) as (K1 & K2 & K3 & K4 & K5).
      split; [exact K1|]. split; [exact K2|]. split; [exact K3|]. split.
      * intros y. rewrite K4, in_app_iff. split.
        -- intros [[Hy|Hy]|[t [Ht Hy]]]; [auto | right; exists st; split; [now left | left; auto] | right; exists t; split; [now right | exact Hy]].
        -- intros [Hy|[t [[->|Ht] Hy]]]; [auto | | right; eauto].
           destruct Hy as [[_ Hy]|[Hn _]]; [auto | congruence].
      * intros t [->|Ht] Hn; [congruence | now apply K5].
    + destruct (goc m id t) as [m1 tq] eqn:Eg.
      destruct (goc_spec lo m id t m1 tq Hok Eg) as (Hok1 & Hext1 & Hf1 & _).
      pose proof (goc_grows lo m id t m1 tq Hok Eg) as Hg1.
      destruct (IH m1 (pre ++ [tq]) m' out Hok1 H) as (K1 & K2 & K3 & K4 & K5).
      split; [exact K1|]. split; [eapply sm_ext_trans; eauto|]. split; [eapply grows_trans; eauto|]. split.
      * intros y. rewrite K4, in_app_iff. simpl. split.
        -- intros [[Hy|[<-|[]]]|[t' [Ht' Hy]]]; [auto| |right; exists t'; split; [now right | exact Hy]].
           right. exists t. split; [now left|]. right. split; [exact Hne | now apply K2].
        -- intros [Hy|[t' [[->|Ht'] Hy]]]; [auto| |right; eauto].
           destruct Hy as [[Heq _]|[_ Hy]]; [congruence|]. left. right. left. apply K2 in Hf1. congruence.
      * intros t' [->|Ht'] Hn; [exists tq; now apply K2 | now apply K5].
Qed.

Lemma sp_fold_edges : forall a nextp sp c x a' y,
  nedge (fold_left (fun c s' => nadd c s' a nextp) sp c) x a' y <->
  nedge c x a' y \/ (In x sp /\ a' = a /\ In y nextp).
Proof.
  intros a nextp. induction sp as [|s sp IH]; intros c x a' y; simpl.
  - intuition.
  - rewrite IH, nedge_nadd. intuition (subst; auto).
Qed.

Lemma sp_fold_misc : forall a nextp sp c,
  let c' := fold_left (fun c s' => nadd c s' a nextp) sp c in
  nstart c' = nstart c /\ nfinal c' = nfinal c /\ (nwf c -> nwf c').
Proof.
  intros a nextp. induction sp as [|s sp IH]; intros c; simpl; [auto|].
  destruct (IH (nadd c s a nextp)) as (H1 & H2 & H3). split; [exact H1|]. split; [exact H2|].
  intros Hw. apply H3. now apply nwf_nadd.
Qed.

Section ConcatLoops.
  Variables (lo id st : Z) (fin : list Z).

  Lemma crow_fold : forall sp row m c m' c', sm_ok lo m ->
    fold_left (crow_step id st fin sp) row (m, c) = (m', c') ->
    sm_ok lo m' /\ sm_ext m m' /\ grows id m m' /\ nstart c' = nstart c /\ nfinal c' = nfinal c /\ (nwf c -> nwf c') /\
    (forall x a y, nedge c' x a y <-> nedge c x a y \/
        (In x sp /\ exists nx t, In (a, nx) row /\ In t nx /\ cimg m' id st fin t y)) /\
    (forall a nx t, In (a, nx) row -> In t nx -> t <> st -> exists y, sm_find m' id t = Some y).
  Proof.
    intros sp. induction row as [|[a0 nx0] row IH]; intros m c m' c' Hok H; simpl in H.
    - inversion H; subst. split; [exact Hok|]. split; [apply sm_ext_refl|]. split; [apply grows_refl|].
      split; [reflexivity|]. split; [reflexivity|]. split; [auto|]. split.
      + intros x a y. split; [auto|]. intros [Hx|[_ (nx & t & [] & _)]]. exact Hx.
      + intros a nx t [].
    - unfold crow_step at 2 in H. simpl in H.
      destruct (fold_left (ct_step id st fin) nx0 (m, [])) as [m1 nextp] eqn:Ec.
      destruct (ct_fold lo id st fin nx0 m [] m1 nextp Hok Ec) as (Hok1 & Hext1 & Hg1 & Hout1 & Hdef1).
      destruct (sp_fold_misc a0 nextp sp c) as (Ms & Mf & Mw).
      destruct (IH m1 _ m' c' Hok1 H) as (K1 & K2 & K3 & K4 & K5 & K6 & K7 & K8).
      split; [exact K1|]. split; [eapply sm_ext_trans; eauto|]. split; [eapply grows_trans; eauto|].
      split; [congruence|]. split; [congruence|]. split; [auto|]. split.
      + intros x a y. rewrite K7, sp_fold_edges. split.
        * intros [[Hx|(Hx & -> & Hy)]|[Hx (nx & t & Hin & Ht & Hy)]]; [auto| |].
          -- right. split; [exact Hx|]. apply Hout1 in Hy. destruct Hy as [[]|[t [Ht Hy]]].
             exists nx0, t. split; [now left|]. split; [exact Ht|].
             destruct Hy as [Hy|[Hn Hy]]; [left; exact Hy | right; split; [exact Hn | now apply K2]].
          -- right. split; [exact Hx|]. exists nx, t. split; [now right|]. auto.
        * intros [Hx|[Hx (nx & t & [Hin|Hin] & Ht & Hy)]]; [auto| |].
          -- inversion Hin; subst. left. right. split; [exact Hx|]. split; [reflexivity|].
             apply Hout1. right. exists t. split; [exact Ht|].
             destruct Hy as [Hy|[Hn Hy]]; [left; exact Hy|]. right. split; [exact Hn|].
             destruct (Hdef1 t Ht Hn) as [y' Hy']. pose proof (K2 _ _ _ Hy'). congruence.
          -- right. split; [exact Hx|]. exists nx, t. auto.
      + intros a nx t [Hin|Hin] Ht Hn.
        * inversion Hin; subst. destruct (Hdef1 t Ht Hn) as [y Hy]. exists y. now apply K2.
        * eapply K8; eauto.
  Qed.

  Definition cmapped (m : smgr) (tr : list (Z * list (Z * list Z))) (x a y : Z) : Prop :=
    exists s row nx t, In (s, row) tr /\ In (a, nx) row /\ In t nx /\ cimg m id st fin s x /\ cimg m id st fin t y.

  Lemma ctable_fold : forall tr m c m' c', sm_ok lo m ->
    fold_left (ctable_step id st fin) tr (m, c) = (m', c') ->
    sm_ok lo m' /\ sm_ext m m' /\ grows id m m' /\ nstart c' = nstart c /\ nfinal c' = nfinal c /\ (nwf c -> nwf c') /\
    (forall x a y, nedge c' x a y <-> nedge c x a y \/ cmapped m' tr x a y) /\
    (forall s row, In (s, row) tr -> (s <> st -> exists x, sm_find m' id s = Some x) /\
        forall a nx t, In (a, nx) row -> In t nx -> t <> st -> exists y, sm_find m' id t = Some y).
  Proof.
    induction tr as [|[s0 row0] tr IH]; intros m c m' c' Hok H; simpl in H.
    - inversion H; subst. split; [exact Hok|]. split; [apply sm_ext_refl|]. split; [apply grows_refl|].
      split; [reflexivity|]. split; [reflexivity|]. split; [auto|]. split.
      + intros x a y. split; [auto|]. intros [Hx|(s & row & nx & t & [] & _)]. exact Hx.
      + intros s row [].
    - unfold ctable_step at 2 in H. simpl in H.
      (* the sources of this row *)
      assert (Hsp : exists m1 sp, (if s0 =? st then (m, fin) else let '(m', ss) := goc m id s0 in (m', [ss])) = (m1, sp) /\
                sm_ok lo m1 /\ sm_ext m m1 /\ grows id m m1 /\
                (forall mm, sm_ext m1 mm -> forall x, In x sp <-> cimg mm id st fin s0 x) /\
                (s0 <> st -> exists x, sm_find m1 id s0 = Some x)).
      { destruct (Z.eqb_spec s0 st) as [->|Hne].
        - exists m, fin. split; [reflexivity|]. split; [exact Hok|]. split; [apply sm_ext_refl|]. split; [apply grows_refl|]. split.
          + intros mm _ x. unfold cimg. split; [auto|]. intros [[_ Hx]|[Hn _]]; [exact Hx | congruence].
          + congruence.
        - destruct (goc m id s0) as [m1 ss] eqn:Eg. exists m1, [ss].
          destruct (goc_spec lo m id s0 m1 ss Hok Eg) as (Hok1 & Hext1 & Hf1 & _).
          split; [reflexivity|]. split; [exact Hok1|]. split; [exact Hext1|]. split; [eapply goc_grows; eauto|]. split.
          + intros mm Hmm x. unfold cimg. simpl. split.
            * intros [<-|[]]. right. split; [exact Hne | now apply Hmm].
            * intros [[Heq _]|[_ Hx]]; [congruence|]. left. apply Hmm in Hf1. congruence.
          + intros _. eauto. }
      destruct Hsp as (m1 & sp & Esp & Hok1 & Hext1 & Hg1 & Hspx & Hs0def). rewrite Esp in H.
      destruct (fold_left (crow_step id st fin sp) row0 (m1, c)) as [m2 c2] eqn:Er.
      destruct (crow_fold sp row0 m1 c m2 c2 Hok1 Er) as (Hok2 & Hext2 & Hg2 & Hs2 & Hf2 & Hw2 & He2 & Hd2).
      destruct (IH m2 c2 m' c' Hok2 H) as (K1 & K2 & K3 & K4 & K5 & K6 & K7 & K8).
      split; [exact K1|]. split; [eapply sm_ext_trans; [eapply sm_ext_trans|]; eauto|].
      split; [eapply grows_trans; [eapply grows_trans|]; eauto|].
      split; [congruence|]. split; [congruence|]. split; [auto|]. split.
      + intros x a y. rewrite K7, He2. split.
        * intros [[Hx|[Hx (nx & t & Hin & Ht & Hy)]]|(s & row & nx & t & Hin & Ha & Ht & Hx & Hy)]; [auto| |].
          -- right. exists s0, row0, nx, t. split; [now left|]. split; [exact Hin|]. split; [exact Ht|].
             split; [apply (Hspx m' (sm_ext_trans _ _ _ Hext2 K2)); exact Hx|].
             destruct Hy as [Hy|[Hn Hy]]; [left; exact Hy | right; split; [exact Hn | now apply K2]].
          -- right. exists s, row, nx, t. split; [now right|]. auto.
        * intros [Hx|(s & row & nx & t & [Hin|Hin] & Ha & Ht & Hx & Hy)]; [auto| |].
          -- inversion Hin; subst. left. right. split; [apply (Hspx m' (sm_ext_trans _ _ _ Hext2 K2)); exact Hx|].
             exists nx, t. split; [exact Ha|]. split; [exact Ht|].
             destruct Hy as [Hy|[Hn Hy]]; [left; exact Hy|]. right. split; [exact Hn|].
             destruct (Hd2 a nx t Ha Ht Hn) as [y' Hy']. pose proof (K2 _ _ _ Hy'). congruence.
          -- right. exists s, row, nx, t. auto.
      + intros s row [Hin|Hin].
        * inversion Hin; subst. split.
          -- intros Hn. destruct (Hs0def Hn) as [x Hx]. exists x. apply K2, Hext2. exact Hx.
          -- intros a nx t Ha Ht Hn. destruct (Hd2 a nx t Ha Ht Hn) as [y Hy]. exists y. now apply K2.
        * now apply K8.
  Qed.
End ConcatLoops.

(** ** concatenation of languages, from the left *)
Lemma l_concat_snoc : forall ls (l : lang) w,
  l_concat (ls ++ [l]) w <-> exists u v, w = u ++ v /\ l_concat ls u /\ l v.
Proof.
  induction ls as [|l0 ls IH]; intros l w; simpl.
  - split.
    + intros (u & v & -> & Hu & ->). exists [], u. rewrite app_nil_r. auto.
    + intros (u & v & -> & -> & Hv). exists v, []. rewrite app_nil_r. auto.
  - split.
    + intros (u & v & -> & Hu & Hv). apply IH in Hv. destruct Hv as (v1 & v2 & -> & Hv1 & Hv2).
      exists (u ++ v1), v2. split; [now rewrite app_assoc|]. split; [|exact Hv2]. exists u, v1. auto.
    + intros (u & v & -> & (u1 & u2 & -> & Hu1 & Hu2) & Hv).
      exists u1, (u2 ++ v). split; [now rewrite app_assoc|]. split; [exact Hu1|]. apply IH. exists u2, v. auto.
Qed.

Definition out_free (B : nfa) : Prop := forall f a t, In f (nfinal B) -> ~ nedge B f a t.
Definition no_into_start (B : nfa) : Prop := forall s a, ~ nedge B s a (nstart B).

(** the sound domain of Concat: the complement of the D13a signature *)
Fixpoint csafe (prev_out_free : Prop) (ns : list nfa) : Prop :=
  match ns with
  | [] => True
  | B :: r => ~ In (nstart B) (nfinal B) /\ (prev_out_free \/ no_into_start B) /\ csafe (out_free B) r
  end.

Record cinv (done : list nfa) (Q : Prop) (m : smgr) (c : nfa) (fin : list Z) (id : Z) : Prop := {
  ci_ok : sm_ok 0 m;
  ci_start : nstart c = 0;
  ci_bound : forall x a y, nedge c x a y -> x <= sm_last m /\ y <= sm_last m;
  ci_fin : forall x, In x fin -> x <= sm_last m;
  ci_last : 0 <= sm_last m;
  ci_ids : forall id' s' v', sm_find m id' s' = Some v' -> id' < id;
  ci_lang : forall w, (exists x, In x fin /\ npath c 0 w x) <-> l_concat (map nlang done) w;
  ci_sinks : Q -> forall x a y, In x fin -> ~ nedge c x a y }.

Lemma goc_list_grows : forall lo id l m pre m' out, sm_ok lo m ->
  fold_left (goc_list_step id) l (m, pre) = (m', out) -> grows id m m'.
Proof.
  intros lo id. induction l as [|t l IH]; intros m pre m' out Hok H; simpl in H.
  - inversion H; subst. apply grows_refl.
  - unfold goc_list_step at 2 in H. simpl in H. destruct (goc m id t) as [m1 tq] eqn:Eg.
    destruct (goc_spec lo m id t m1 tq Hok Eg) as (Hok1 & _).
    eapply grows_trans; [eapply goc_grows; eauto | eapply IH; eauto].
Qed.

Lemma concat_one_spec : forall done Q m c fin id B m' c' fin' id',
  nwf B -> cinv done Q m c fin id ->
  ~ In (nstart B) (nfinal B) -> (Q \/ no_into_start B) ->
  concat_one ((((m, c), fin), id)) B = ((((m', c'), fin'), id')) ->
  cinv (done ++ [B]) (out_free B) m' c' fin' id'.
Proof.
  intros done Q m c fin id B m' c' fin' id' HwB [I1 I2 I3 I4 I5 I6 I7 I8] HS1 HSafe H.
  rewrite concat_one_eq in H.
  destruct (fold_left (ctable_step id (nstart B) fin) (ntrans B) (m, c)) as [m1 c1] eqn:Et. simpl in H.
  destruct (ctable_fold 0 id (nstart B) fin (ntrans B) m c m1 c1 I1 Et) as (T1 & T2 & T3 & T4 & T5 & _ & T7 & T8).
  rewrite goc_list_eq in H. destruct (fold_left (goc_list_step id) (nfinal B) (m1, [])) as [m3 fl] eqn:Eg.
  inversion H; subst m' c' fin' id'. clear H.
  destruct (goc_list_fold 0 id (nfinal B) m1 [] m3 fl T1 Eg) as (G1 & G2 & G3 & G4 & _).
  pose proof (goc_list_grows 0 id (nfinal B) m1 [] m3 fl T1 Eg) as G5.
  pose proof (grows_trans id m m1 m3 T3 G5) as [GL Gdom].
  set (st := nstart B). set (M := fun s => sm_find m3 id s). set (L := sm_last m).
  assert (Hfresh : forall s v, M s = Some v -> L < v).
  { intros s v Hv. destruct (Gdom _ _ _ Hv) as [Hold|[_ Hlt]]; [apply I6 in Hold; lia | exact Hlt]. }
  assert (Minj : forall s s' v, M s = Some v -> M s' = Some v -> s = s').
  { intros s s' v H1 H2. now destruct (ok_inj _ _ G1 _ _ _ _ _ H1 H2). }
  assert (Hdef : forall s a t, nedge B s a t -> (s <> st -> exists x, M s = Some x) /\ (t <> st -> exists y, M t = Some y)).
  { intros s a t He. apply nedge_entries in He; [|exact HwB]. destruct He as [nx [He Ht]].
    apply In_entries in He. destruct He as [row [Hr Ha]]. destruct (T8 s row Hr) as [D1 D2]. split.
    - intros Hn. destruct (D1 Hn) as [x Hx]. exists x. now apply G2.
    - intros Hn. destruct (D2 a nx t Ha Ht Hn) as [y Hy]. exists y. now apply G2. }
  assert (Himg : forall s x, (exists a t, nedge B s a t \/ nedge B t a s) -> (cimg m1 id st fin s x <-> img B fin M s x)).
  { intros s x (a & t & He). unfold cimg, img. fold st. split.
    - intros [H|[Hn Hx]]; [left; exact H | right; split; [exact Hn | now apply G2]].
    - intros [H|[Hn Hx]]; [left; exact H|]. right. split; [exact Hn|].
      assert (Hd : exists x', sm_find m1 id s = Some x').
      { destruct He as [He|He]; apply nedge_entries in He; try exact HwB; destruct He as [nx [He Ht]];
          apply In_entries in He; destruct He as [row [Hr Ha]].
        - destruct (T8 s row Hr) as [D1 _]. now apply D1.
        - destruct (T8 t row Hr) as [_ D2]. eapply D2; eauto. }
      destruct Hd as [x' Hx']. pose proof (G2 _ _ _ Hx'). unfold M in Hx. congruence. }
  assert (Hedges : forall x a y, nedge c1 x a y <-> nedge c x a y \/ exists s t, nedge B s a t /\ img B fin M s x /\ img B fin M t y).
  { intros x a y. rewrite T7. unfold cmapped. split.
    - intros [Hx|(s & row & nx & t & Hr & Ha & Ht & Hs & Hy)]; [auto|]. right. exists s, t.
      assert (He : nedge B s a t) by (apply nedge_entries; [exact HwB|]; exists nx; split; [apply In_entries; eauto | exact Ht]).
      split; [exact He|]. split; [apply Himg; eauto | apply Himg; eauto].
    - intros [Hx|(s & t & He & Hs & Hy)]; [auto|]. right.
      pose proof He as He'. apply nedge_entries in He'; [|exact HwB]. destruct He' as [nx [Hin Ht]].
      apply In_entries in Hin. destruct Hin as [row [Hr Ha]]. exists s, row, nx, t.
      split; [exact Hr|]. split; [exact Ha|]. split; [exact Ht|]. split; [apply Himg; eauto | apply Himg; eauto]. }
  assert (HF' : forall y, In y fl <-> exists f, In f (nfinal B) /\ M f = Some y).
  { intros y. rewrite G3. simpl. intuition. }
  assert (Safe : (forall s a, ~ nedge B s a st) \/ (forall x a y, In x fin -> ~ nedge c x a y)).
  { destruct HSafe as [HQ|Hn]; [right; now apply I8 | left; exact Hn]. }
  split.
  - exact G1.
  - congruence.
  - intros x a y He. apply Hedges in He. destruct He as [He|(s & t & He & Hs & Hy)].
    + destruct (I3 _ _ _ He). lia.
    + assert (Hb : forall s x, img B fin M s x -> x <= sm_last m3).
      { intros s0 x0 [[_ Hx]|[_ Hx]]; [apply I4 in Hx; lia | apply (ok_range _ _ G1) in Hx; lia]. }
      split; eapply Hb; eauto.
  - intros x Hx. apply HF' in Hx. destruct Hx as [f [_ Hx]]. apply (ok_range _ _ G1) in Hx. lia.
  - lia.
  - intros id' s' v' Hv. destruct (Gdom _ _ _ Hv) as [Hold|[-> _]]; [apply I6 in Hold; lia | lia].
  - intros w. rewrite map_app. simpl. rewrite l_concat_snoc.
    apply (step_lang c c1 B fin fl L M I3 I4 I5 Hfresh Minj Hdef Hedges HF' HS1 Safe (l_concat (map nlang done)) I7 w).
  - intros Hof x a y Hx. apply (step_sinks c c1 B fin fl L M I3 I4 Hfresh Minj Hedges HF' Hof x a y Hx).
Qed.

Lemma concat_fold : forall ns done Q m c fin id m' c' fin' id',
  Forall nwf ns -> cinv done Q m c fin id -> csafe Q ns ->
  fold_left concat_one ns ((((m, c), fin), id)) = ((((m', c'), fin'), id')) ->
  exists Q', cinv (done ++ ns) Q' m' c' fin' id'.
Proof.
  induction ns as [|B ns IH]; intros done Q m c fin id m' c' fin' id' Hwf Hinv Hsafe H; simpl in H.
  - inversion H; subst. exists Q. now rewrite app_nil_r.
  - inversion Hwf as [|? ? HwB Hwr]; subst. destruct Hsafe as (S1 & S2 & S3).
    destruct (concat_one (m, c, fin, id) B) as [[[m1 c1] fin1] id1] eqn:E1.
    pose proof (concat_one_spec done Q m c fin id B m1 c1 fin1 id1 HwB Hinv S1 S2 E1) as Hinv1.
    destruct (IH (done ++ [B]) (out_free B) m1 c1 fin1 id1 m' c' fin' id' Hwr Hinv1 S3 H) as [Q' HQ'].
    exists Q'. now rewrite <- app_assoc in HQ'.
Qed.

Lemma cinv_init : cinv [] True (sm_new 0) (new_nfa 0 [0]) [0] 0.
Proof.
  split.
  - apply sm_ok_new.
  - reflexivity.
  - intros x a y He. exfalso. eapply no_edge_empty_n. exact He.
  - intros x [<-|[]]. simpl. lia.
  - simpl. lia.
  - intros id' s' v' H. unfold sm_find in H. simpl in H. discriminate.
  - intros w. simpl. split.
    + intros [x [[<-|[]] Hp]]. inversion Hp; subst; auto; exfalso; eapply no_edge_empty_n; eauto.
    + intros ->. exists 0. split; [now left | constructor].
  - intros _ x a y _ He. eapply no_edge_empty_n. exact He.
Qed.

(** On its sound domain Concat accepts exactly the concatenation of the operand languages. *)
Theorem nconcat_lang : forall ns w, Forall nwf ns -> csafe True ns ->
  (nlang (nconcat ns) w <-> l_concat (map nlang ns) w).
Proof.
  intros ns w Hwf Hsafe. unfold nconcat.
  destruct (fold_left concat_one ns (sm_new 0, new_nfa 0 [0], [0], 0)) as [[[m' c'] fin'] id'] eqn:E. simpl.
  destruct (concat_fold ns [] True _ _ _ _ m' c' fin' id' Hwf cinv_init Hsafe E) as [Q' [I1 I2 I3 I4 I5 I6 I7 I8]].
  simpl in I7. rewrite <- I7. unfold nlang. simpl. rewrite I2.
  assert (Hp : forall x w y, npath (mkNFA 0 (sof fin') (ntrans c')) x w y <-> npath c' x w y).
  { intros x w0 y. split; apply npath_ext; intros s a t He; exact He. }
  split.
  - intros [f [Hf Hpf]]. apply (proj1 (In_sof _ _)) in Hf. exists f. split; [exact Hf | now apply Hp].
  - intros [f [Hf Hpf]]. exists f. split; [now apply In_sof | now apply Hp].
Qed.

Lemma word_ok_app' : forall u v, word_ok (u ++ v) <-> word_ok u /\ word_ok v.
Proof. intros. unfold word_ok. apply Forall_app. Qed.

Lemma l_concat_ext_ok : forall (ls1 ls2 : list lang) w, word_ok w ->
  Forall2 (fun l1 l2 : lang => forall u, word_ok u -> l1 u -> l2 u) ls1 ls2 ->
  l_concat ls1 w -> l_concat ls2 w.
Proof.
  intros ls1 ls2 w Hw H. revert w Hw. induction H as [|l1 l2 r1 r2 Hl Hr IH]; intros w Hw; simpl; [auto|].
  intros (u & v & -> & Hu & Hv). apply word_ok_app' in Hw. destruct Hw as [Hwu Hwv]. exists u, v. auto.
Qed.

Theorem nconcat_accept : forall ns w, Forall nwf ns -> csafe True ns -> word_ok w ->
  exists b, naccept (nconcat ns) w = Ok b /\
            (b = true <-> l_concat (map (fun n u => naccept n u = Ok true) ns) w).
Proof.
  intros ns w Hwf Hsafe Hw. destruct (naccept_ok (nconcat ns) w Hw) as [b [E H]]. exists b. split; [exact E|].
  rewrite H, nconcat_lang by assumption. split; apply l_concat_ext_ok; auto.
  - clear. induction ns as [|n ns IH]; simpl; constructor; auto.
    intros u Hu Hl. destruct (naccept_ok n u Hu) as [b' [E' H']]. rewrite E'. f_equal. now apply H'.
  - clear. induction ns as [|n ns IH]; simpl; constructor; auto.
    intros u Hu Hl. destruct (naccept_ok n u Hu) as [b' [E' H']]. rewrite E' in Hl. inversion Hl; subst. now apply H'.
Qed.
