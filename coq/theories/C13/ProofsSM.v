(** C13 — the stateManager (GetOrCreateState) and the transition-copy loop shared by Star,
    Union and CombineDFA. *)
From Coq Require Import ZArith List Bool Lia.
From Algo.C13 Require Import Model Spec Lemmas ProofsNFA ProofsDFA.
Import ListNotations.
Open Scope Z_scope.

Record sm_ok (lo : Z) (m : smgr) : Prop := {
  ok_range : forall id s v, sm_find m id s = Some v -> lo < v <= sm_last m;
  ok_inj : forall id s id' s' v, sm_find m id s = Some v -> sm_find m id' s' = Some v -> id = id' /\ s = s';
  ok_lo : lo <= sm_last m }.

Definition sm_ext (m m' : smgr) : Prop :=
  forall id s v, sm_find m id s = Some v -> sm_find m' id s = Some v.

Lemma sm_ext_refl : forall m, sm_ext m m.
Proof. intros m id s v H. exact H. Qed.
Lemma sm_ext_trans : forall a b c, sm_ext a b -> sm_ext b c -> sm_ext a c.
Proof. intros a b c H1 H2 id s v H. auto. Qed.

Lemma sm_ok_new : forall lo, sm_ok lo (sm_new lo).
Proof. intros lo. split; simpl; try discriminate; try lia. Qed.

Lemma sm_find_cons : forall l mp id s v id' s',
  sm_find (mkSM l (((id, s), v) :: mp)) id' s' =
  if (id =? id') && (s =? s') then Some v else sm_find (mkSM l mp) id' s'.
Proof.
  intros. unfold sm_find. simpl. destruct ((id =? id') && (s =? s')); reflexivity.
Qed.

Lemma sm_find_last : forall l l' mp id s, sm_find (mkSM l mp) id s = sm_find (mkSM l' mp) id s.
Proof. reflexivity. Qed.

Lemma goc_spec : forall lo m id s m' v, sm_ok lo m -> goc m id s = (m', v) ->
  sm_ok lo m' /\ sm_ext m m' /\ sm_find m' id s = Some v /\
  (forall id' s' v', sm_find m' id' s' = Some v' -> sm_find m id' s' = Some v' \/ (id' = id /\ s' = s)).
Proof.
  intros lo m id s m' v Hok H. unfold goc in H. destruct (sm_find m id s) as [t|] eqn:E.
  - inversion H; subst. split; [exact Hok|]. split; [apply sm_ext_refl|]. split; [exact E|]. intros; now left.
  - inversion H; subst. clear H. destruct m as [last mp]. simpl in *.
    assert (Hf : forall id' s', sm_find (mkSM (last + 1) (((id, s), last + 1) :: mp)) id' s' =
                 if (id =? id') && (s =? s') then Some (last + 1) else sm_find (mkSM last mp) id' s').
    { intros. rewrite sm_find_cons. reflexivity. }
    split; [|split; [|split]].
    + destruct Hok as [Hr Hi Hl]. split; simpl.
      * intros id' s' v'. rewrite Hf. destruct ((id =? id') && (s =? s')).
        -- intros H; inversion H; subst. simpl in Hl. lia.
        -- intros H. apply Hr in H. simpl in H. lia.
      * intros i1 s1 i2 s2 v'. rewrite !Hf.
        destruct ((id =? i1) && (s =? s1)) eqn:E1; destruct ((id =? i2) && (s =? s2)) eqn:E2; intros H1 H2.
        -- apply andb_true_iff in E1, E2. rewrite !Z.eqb_eq in E1, E2. intuition congruence.
        -- inversion H1; subst. apply Hr in H2. simpl in H2. lia.
        -- inversion H2; subst. apply Hr in H1. simpl in H1. lia.
        -- eapply Hi; eauto.
      * simpl in Hl. lia.
    + intros id' s' v' H. rewrite Hf. destruct ((id =? id') && (s =? s')) eqn:E1; [|exact H].
      apply andb_true_iff in E1. rewrite !Z.eqb_eq in E1. destruct E1; subst. congruence.
    + rewrite Hf, !Z.eqb_refl. reflexivity.
    + intros id' s' v'. rewrite Hf. destruct ((id =? id') && (s =? s')) eqn:E1; [|auto].
      apply andb_true_iff in E1. rewrite !Z.eqb_eq in E1. intuition.
Qed.

Definition goc_list_step (id : Z) (ml : smgr * list Z) (t : Z) : smgr * list Z :=
  let '(m', tq) := goc (fst ml) id t in (m', snd ml ++ [tq]).

Lemma goc_list_eq : forall m id l, goc_list m id l = fold_left (goc_list_step id) l (m, []).
Proof. reflexivity. Qed.

Lemma goc_list_fold : forall lo id l m pre m' out, sm_ok lo m ->
  fold_left (goc_list_step id) l (m, pre) = (m', out) ->
  sm_ok lo m' /\ sm_ext m m' /\
  (forall y, In y out <-> In y pre \/ exists t, In t l /\ sm_find m' id t = Some y) /\
  (forall t, In t l -> exists y, sm_find m' id t = Some y) /\
  (forall id' s' v', sm_find m' id' s' = Some v' -> sm_find m id' s' = Some v' \/ (id' = id /\ In s' l)).
Proof.
  intros lo id. induction l as [|t r IH]; intros m pre m' out Hok H; simpl in H.
  - inversion H; subst. split; [exact Hok|]. split; [apply sm_ext_refl|]. split; [|split].
    + intros y. split; [auto|]. intros [Hy|[t [[] _]]]. exact Hy.
    + intros t [].
    + intros; now left.
  - unfold goc_list_step at 2 in H. simpl in H. destruct (goc m id t) as [m1 tq] eqn:Eg.
    destruct (goc_spec lo m id t m1 tq Hok Eg) as (Hok1 & Hext1 & Hf1 & Hdom1).
    destruct (IH m1 (pre ++ [tq]) m' out Hok1 H) as (Hok2 & Hext2 & Hout & Hdef & Hdom2).
    split; [exact Hok2|]. split; [eapply sm_ext_trans; eauto|]. split; [|split].
    + intros y. rewrite Hout, in_app_iff. simpl. split.
      * intros [[Hy|[Hy|[]]]|[t' [Ht' Hy]]]; [auto| |].
        -- subst. right. exists t. split; [now left|]. apply Hext2. exact Hf1.
        -- right. exists t'. split; [now right | exact Hy].
      * intros [Hy|[t' [[->|Ht'] Hy]]]; [auto| |].
        -- left. right. left. apply Hext2 in Hf1. congruence.
        -- right. eauto.
    + intros t' [->|Ht']; [exists tq; apply Hext2; exact Hf1 | now apply Hdef].
    + intros id' s' v' Hv. apply Hdom2 in Hv. destruct Hv as [Hv|[-> Hin]].
      * apply Hdom1 in Hv. destruct Hv as [Hv|[-> ->]]; [auto | right; split; [reflexivity | now left]].
      * right. split; [reflexivity | now right].
Qed.

(** ** copy_trans *)
Definition row_step (id ss : Z) (mn2 : smgr * nfa) (an : Z * list Z) : smgr * nfa :=
  let '(m2, next) := goc_list (fst mn2) id (snd an) in (m2, nadd (snd mn2) ss (fst an) next).

Lemma copy_row : forall lo id ss row m u m' u', sm_ok lo m ->
  fold_left (row_step id ss) row (m, u) = (m', u') ->
  sm_ok lo m' /\ sm_ext m m' /\ nstart u' = nstart u /\ nfinal u' = nfinal u /\ (nwf u -> nwf u') /\
  (forall x a y, nedge u' x a y <-> nedge u x a y \/
      (x = ss /\ exists nx t, In (a, nx) row /\ In t nx /\ sm_find m' id t = Some y)) /\
  (forall a nx t, In (a, nx) row -> In t nx -> exists y, sm_find m' id t = Some y) /\
  (forall id' s' v', sm_find m' id' s' = Some v' -> sm_find m id' s' = Some v' \/
      (id' = id /\ exists a nx, In (a, nx) row /\ In s' nx)).
Proof.
  intros lo id ss. induction row as [|[a0 nx0] r IH]; intros m u m' u' Hok H; simpl in H.
  - inversion H; subst. split; [exact Hok|]. split; [apply sm_ext_refl|].
    split; [reflexivity|]. split; [reflexivity|]. split; [auto|]. split; [|split].
    + intros x a y. split; [auto|]. intros [Hx|[_ [nx [t [[] _]]]]]. exact Hx.
    + intros a nx t [].
    + intros; now left.
  - unfold row_step at 2 in H. simpl in H. rewrite goc_list_eq in H.
    destruct (fold_left (goc_list_step id) nx0 (m, [])) as [m1 next] eqn:Eg.
    destruct (goc_list_fold lo id nx0 m [] m1 next Hok Eg) as (Hok1 & Hext1 & Hout1 & Hdef1 & Hdom1).
    destruct (IH m1 (nadd u ss a0 next) m' u' Hok1 H) as (Hok2 & Hext2 & Hs & Hf & Hw & He & Hdef2 & Hdom2).
    split; [exact Hok2|]. split; [eapply sm_ext_trans; eauto|].
    split; [exact Hs|]. split; [exact Hf|]. split; [intros; apply Hw; now apply nwf_nadd|].
    split; [|split].
    + intros x a y. rewrite He, nedge_nadd. split.
      * intros [[Hx|(-> & -> & Hy)]|[-> [nx [t [Hin [Ht Hy]]]]]]; [auto| |].
        -- right. split; [reflexivity|]. apply Hout1 in Hy. destruct Hy as [[]|[t [Ht Hy]]].
           exists nx0, t. split; [now left|]. split; [exact Ht|]. apply Hext2. exact Hy.
        -- right. split; [reflexivity|]. exists nx, t. split; [now right|]. auto.
      * intros [Hx|[-> [nx [t [[Hin|Hin] [Ht Hy]]]]]]; [auto| |].
        -- inversion Hin; subst. left. right. split; [reflexivity|]. split; [reflexivity|].
           apply Hout1. right. exists t. split; [exact Ht|].
           destruct (Hdef1 t Ht) as [y' Hy']. pose proof (Hext2 _ _ _ Hy') as Hy''. congruence.
        -- right. split; [reflexivity|]. exists nx, t. auto.
    + intros a nx t [Hin|Hin] Ht.
      * inversion Hin; subst. destruct (Hdef1 t Ht) as [y Hy]. exists y. apply Hext2. exact Hy.
      * eapply Hdef2; eauto.
    + intros id' s' v' Hv. apply Hdom2 in Hv. destruct Hv as [Hv|[-> [a [nx [Hin Hs']]]]].
      * apply Hdom1 in Hv. destruct Hv as [Hv|[-> Hs']]; [auto|].
        right. split; [reflexivity|]. exists a0, nx0. split; [now left | exact Hs'].
      * right. split; [reflexivity|]. exists a, nx. split; [now right | exact Hs'].
Qed.

Definition table_step (id : Z) (mn : smgr * nfa) (e : Z * list (Z * list Z)) : smgr * nfa :=
  let '(m1, ss) := goc (fst mn) id (fst e) in
  fold_left (row_step id ss) (snd e) (m1, snd mn).

Lemma copy_trans_eq : forall id src acc, copy_trans id src acc = fold_left (table_step id) (ntrans src) acc.
Proof. reflexivity. Qed.

(** the image of an edge relation under the manager's map for operand [id] *)
Definition mapped_edge (m : smgr) (id : Z) (tr : list (Z * list (Z * list Z))) (x a y : Z) : Prop :=
  exists s row nx t, In (s, row) tr /\ In (a, nx) row /\ In t nx /\
                     sm_find m id s = Some x /\ sm_find m id t = Some y.

Lemma copy_table : forall lo id tr m u m' u', sm_ok lo m ->
  fold_left (table_step id) tr (m, u) = (m', u') ->
  sm_ok lo m' /\ sm_ext m m' /\ nstart u' = nstart u /\ nfinal u' = nfinal u /\ (nwf u -> nwf u') /\
  (forall x a y, nedge u' x a y <-> nedge u x a y \/ mapped_edge m' id tr x a y) /\
  (forall s row, In (s, row) tr -> (exists x, sm_find m' id s = Some x) /\
      forall a nx t, In (a, nx) row -> In t nx -> exists y, sm_find m' id t = Some y) /\
  (forall id' s' v', sm_find m' id' s' = Some v' -> sm_find m id' s' = Some v' \/ id' = id).
Proof.
  intros lo id. induction tr as [|[s0 row0] r IH]; intros m u m' u' Hok H; simpl in H.
  - inversion H; subst. split; [exact Hok|]. split; [apply sm_ext_refl|].
    split; [reflexivity|]. split; [reflexivity|]. split; [auto|]. split; [|split].
    + intros x a y. split; [auto|]. intros [Hx|(s & row & nx & t & [] & _)]. exact Hx.
    + intros s row [].
    + intros; now left.
  - unfold table_step at 2 in H. simpl in H. destruct (goc m id s0) as [m1 ss] eqn:Eg.
    destruct (goc_spec lo m id s0 m1 ss Hok Eg) as (Hok1 & Hext1 & Hf1 & Hdom1).
    destruct (fold_left (row_step id ss) row0 (m1, u)) as [m2 u2] eqn:Er.
    destruct (copy_row lo id ss row0 m1 u m2 u2 Hok1 Er) as (Hok2 & Hext2 & Hs2 & Hfi2 & Hw2 & He2 & Hdef2 & Hdom2).
    destruct (IH m2 u2 m' u' Hok2 H) as (Hok3 & Hext3 & Hs3 & Hfi3 & Hw3 & He3 & Hdef3 & Hdom3).
    split; [exact Hok3|]. split; [eapply sm_ext_trans; [eapply sm_ext_trans|]; eauto|].
    split; [congruence|]. split; [congruence|]. split; [auto|]. split; [|split].
    + intros x a y. rewrite He3, He2. split.
      * intros [[Hx|[-> (nx & t & Hin & Ht & Hy)]]|(s & row & nx & t & Hin & Ha & Ht & Hx & Hy)]; [auto| |].
        -- right. exists s0, row0, nx, t. split; [now left|]. split; [exact Hin|]. split; [exact Ht|].
           split; [apply Hext3, Hext2; exact Hf1 | apply Hext3; exact Hy].
        -- right. exists s, row, nx, t. split; [now right|]. auto.
      * intros [Hx|(s & row & nx & t & [Hin|Hin] & Ha & Ht & Hx & Hy)]; [auto| |].
        -- inversion Hin; subst. left. right.
           assert (x = ss) by (apply Hext2, Hext3 in Hf1; congruence). subst x.
           split; [reflexivity|]. exists nx, t. split; [exact Ha|]. split; [exact Ht|].
           destruct (Hdef2 a nx t Ha Ht) as [y' Hy']. pose proof (Hext3 _ _ _ Hy'). congruence.
        -- right. exists s, row, nx, t. auto.
    + intros s row [Hin|Hin].
      * inversion Hin; subst. split; [exists ss; apply Hext3, Hext2; exact Hf1|].
        intros a nx t Ha Ht. destruct (Hdef2 a nx t Ha Ht) as [y Hy]. exists y. now apply Hext3.
      * now apply Hdef3.
    + intros id' s' v' Hv. apply Hdom3 in Hv. destruct Hv as [Hv|Hv]; [|now right].
      apply Hdom2 in Hv. destruct Hv as [Hv|[-> _]]; [|now right].
      apply Hdom1 in Hv. destruct Hv as [Hv|[-> _]]; [now left | now right].
Qed.
