(** C13 — the executable NFA.Accept (ε-closure worklist, move) decides the path semantics. *)
From Coq Require Import ZArith List Bool Lia.
From Algo.C13 Require Import Model Spec Lemmas.
Import ListNotations.
Open Scope Z_scope.

(** ** ε-reachability and paths *)
Inductive eps_star (n : nfa) : Z -> Z -> Prop :=
| es_refl : forall s, eps_star n s s
| es_step : forall s t u, nedge n s E t -> eps_star n t u -> eps_star n s u.

Lemma eps_star_trans : forall n s t u, eps_star n s t -> eps_star n t u -> eps_star n s u.
Proof. intros n s t u H. induction H; intros; eauto using eps_star. Qed.

Lemma eps_star_snoc : forall n s t u, eps_star n s t -> nedge n t E u -> eps_star n s u.
Proof. intros. eapply eps_star_trans; eauto using eps_star. Qed.

Lemma npath_eps_l : forall n s t w u, eps_star n s t -> npath n t w u -> npath n s w u.
Proof. intros n s t w u H. induction H; intros; eauto using npath. Qed.

Lemma npath_nil : forall n s u, npath n s [] u <-> eps_star n s u.
Proof.
  intros n s u. split.
  - intros H. remember [] as w eqn:Ew. induction H; try discriminate; eauto using eps_star.
  - intros H. induction H; eauto using npath.
Qed.

Lemma npath_app : forall n s w1 t w2 u, npath n s w1 t -> npath n t w2 u -> npath n s (w1 ++ w2) u.
Proof. intros n s w1 t w2 u H. induction H; intros; simpl; eauto using npath. Qed.

Lemma npath_snoc_eps : forall n s w t u, npath n s w t -> nedge n t E u -> npath n s w u.
Proof.
  intros n s w t u H He. rewrite <- (app_nil_r w). eapply npath_app; eauto.
  apply npath_nil. eauto using eps_star.
Qed.

(** ** states() contains every endpoint *)
Lemma nstates_fold_mono : forall l init x,
  In x init ->
  In x (fold_left (fun st (sx : Z * (Z * list Z)) => sunion (sadd (fst sx) st) (snd (snd sx))) l init).
Proof.
  induction l as [|e r IH]; intros init x H; simpl; [exact H|].
  apply IH. apply In_sunion. left. apply In_sadd. now right.
Qed.

Lemma nstates_fold_in : forall l init s a nx,
  In (s, (a, nx)) l ->
  forall x, (x = s \/ In x nx) ->
  In x (fold_left (fun st (sx : Z * (Z * list Z)) => sunion (sadd (fst sx) st) (snd (snd sx))) l init).
Proof.
  induction l as [|e r IH]; intros init s a nx Hin x Hx; simpl; [contradiction|].
  destruct Hin as [->|Hin].
  - apply nstates_fold_mono. simpl. apply In_sunion. destruct Hx as [->|Hx].
    + left. apply In_sadd. now left.
    + now right.
  - eapply IH; eauto.
Qed.

Lemma nstates_eq : forall n,
  nstates n = fold_left (fun st (sx : Z * (Z * list Z)) => sunion (sadd (fst sx) st) (snd (snd sx)))
                (entries (ntrans n)) (sunion (sof [nstart n]) (nfinal n)).
Proof.
  intros n. unfold nstates.
  exact (fold_nested (fun st s (x : Z * list Z) => sunion (sadd s st) (snd x)) (ntrans n) _).
Qed.

Lemma nedge_entry : forall n s a t, nedge n s a t -> exists l, In (s, (a, l)) (entries (ntrans n)) /\ In t l.
Proof.
  intros n s a t. unfold nedge, nnext_l, nnext.
  destruct (aget s (ntrans n)) as [row|] eqn:E1; [|simpl; contradiction].
  destruct (aget a row) as [l|] eqn:E2; [|simpl; contradiction].
  intros H. exists l. split; [|exact H]. apply In_entries. exists row. split; now apply aget_In.
Qed.

Lemma nedge_in_nstates : forall n s a t, nedge n s a t -> In s (nstates n) /\ In t (nstates n).
Proof.
  intros n s a t H. apply nedge_entry in H. destruct H as [l [H1 H2]]. rewrite nstates_eq.
  split; eapply nstates_fold_in; eauto.
Qed.

Lemma nstart_in_nstates : forall n, In (nstart n) (nstates n).
Proof.
  intros. rewrite nstates_eq. apply nstates_fold_mono. apply In_sunion. left. apply In_sof. now left.
Qed.

Lemma nfinal_in_nstates : forall n f, In f (nfinal n) -> In f (nstates n).
Proof.
  intros. rewrite nstates_eq. apply nstates_fold_mono. apply In_sunion. now right.
Qed.

(** ** counting unmarked elements *)
Definition unm (U C : list Z) : nat := length (filter (fun x => negb (smem x C)) U).

Lemma unm_sadd_le : forall U C u, (unm U (sadd u C) <= unm U C)%nat.
Proof.
  intros U C u. unfold unm. induction U as [|x r IH]; simpl; [lia|].
  destruct (smem x (sadd u C)) eqn:E1; destruct (smem x C) eqn:E2; simpl; try lia.
  apply smem_In in E2. apply smem_false in E1. exfalso. apply E1. apply In_sadd. now right.
Qed.

Lemma unm_sadd_lt : forall U C u, In u U -> ~ In u C -> (unm U (sadd u C) < unm U C)%nat.
Proof.
  intros U C u. unfold unm. induction U as [|x r IH]; simpl; intros Hin Hn; [contradiction|].
  pose proof (unm_sadd_le r C u) as Hle. unfold unm in Hle.
  destruct Hin as [->|Hin].
  - assert (E1 : smem u (sadd u C) = true) by (apply smem_In, In_sadd; now left).
    assert (E2 : smem u C = false) by (now apply smem_false).
    rewrite E1, E2. simpl. lia.
  - specialize (IH Hin Hn).
    destruct (smem x (sadd u C)) eqn:E1; destruct (smem x C) eqn:E2; simpl; try lia.
    apply smem_In in E2. apply smem_false in E1. exfalso. apply E1. apply In_sadd. now right.
Qed.

Lemma unm_le_length : forall U C, (unm U C <= length U)%nat.
Proof.
  intros. unfold unm. induction U as [|x r IH]; simpl; [lia|].
  destruct (negb (smem x C)); simpl; lia.
Qed.

(** ** the inner loop of the worklist algorithms: add and push every unseen successor *)
Definition push_new (sc : list Z * list Z) (u : Z) : list Z * list Z :=
  if smem u (snd sc) then sc else (u :: fst sc, sadd u (snd sc)).

Lemma push_new_step : forall st C u,
  push_new (st, C) u = if smem u C then (st, C) else (u :: st, sadd u C).
Proof. reflexivity. Qed.

Lemma push_new_fold : forall us st C,
  (forall x, In x (snd (fold_left push_new us (st, C))) <-> In x C \/ In x us) /\
  (forall x, In x (fst (fold_left push_new us (st, C))) <-> In x st \/ (In x us /\ ~ In x C)).
Proof.
  induction us as [|u r IH]; intros st C; simpl.
  - split; intros x; intuition.
  - rewrite push_new_step. destruct (smem u C) eqn:E.
    + apply smem_In in E. destruct (IH st C) as [H1 H2]. split; intros x.
      * rewrite H1. intuition. subst. auto.
      * rewrite H2. intuition. subst. contradiction.
    + apply smem_false in E. destruct (IH (u :: st) (sadd u C)) as [H1 H2]. split; intros x.
      * rewrite H1, In_sadd. intuition.
      * rewrite H2, In_sadd. simpl.
        destruct (Z.eq_dec x u) as [->|Hne]; intuition.
Qed.

Lemma push_new_measure : forall U us st C,
  (forall u, In u us -> In u U) ->
  (length (fst (fold_left push_new us (st, C))) + unm U (snd (fold_left push_new us (st, C)))
   <= length st + unm U C)%nat.
Proof.
  intros U. induction us as [|u r IH]; intros st C HU; simpl; [lia|].
  rewrite push_new_step. destruct (smem u C) eqn:E.
  - apply IH. intros; apply HU; now right.
  - apply smem_false in E.
    assert (Hlt : (unm U (sadd u C) < unm U C)%nat) by (apply unm_sadd_lt; [apply HU; now left | exact E]).
    specialize (IH (u :: st) (sadd u C) (fun v Hv => HU v (or_intror Hv))). simpl in IH. lia.
Qed.

(** ** ε-closure *)
Definition eclosed (n : nfa) (C : list Z) : Prop := forall s t, In s C -> nedge n s E t -> In t C.

Lemma eclose_step_eq : forall n st,
  eclose_step n st = match fst st with
                     | [] => Done (snd st)
                     | t :: rest => More (fold_left push_new (nnext_l n t E) (rest, snd st))
                     end.
Proof. reflexivity. Qed.

Theorem eclose_ok : forall n T,
  exists C, eclose n T = Ok C /\ eclosed n C /\
            (forall x, In x C <-> exists s, In s T /\ eps_star n s x).
Proof.
  intros n T.
  set (Inv := fun st : list Z * list Z =>
     (forall x, In x T -> In x (snd st)) /\
     (forall x, In x (snd st) -> exists s, In s T /\ eps_star n s x) /\
     (forall x, In x (fst st) -> In x (snd st)) /\
     (forall x, In x (snd st) -> ~ In x (fst st) -> forall t, nedge n x E t -> In t (snd st))).
  set (Post := fun C : list Z =>
     (forall x, In x T -> In x C) /\ (forall x, In x C -> exists s, In s T /\ eps_star n s x) /\ eclosed n C).
  assert (Hstep : forall st, Inv st -> match eclose_step n st with More s' => Inv s' | Done r => Post r end).
  { intros [st C] (Ha & Hb & Hc & Hd). rewrite eclose_step_eq. simpl in *.
    destruct st as [|t rest].
    - repeat split; auto. intros s t Hs He. eapply Hd; eauto.
    - destruct (push_new_fold (nnext_l n t E) rest C) as [H1 H2].
      repeat split.
      + intros x Hx. apply H1. left. auto.
      + intros x Hx. apply H1 in Hx. destruct Hx as [Hx|Hx]; [auto|].
        destruct (Hb t) as [s [Hs1 Hs2]]; [apply Hc; now left|].
        exists s. split; [exact Hs1|]. eapply eps_star_snoc; eauto.
      + intros x Hx. apply H2 in Hx. apply H1. destruct Hx as [Hx|[Hx _]]; [|now right].
        left. apply Hc. now right.
      + intros x Hx Hnx u Hu. apply H1.
        destruct (Z.eq_dec x t) as [->|Hne]; [now right|].
        destruct (in_dec Z.eq_dec x C) as [Hc'|Hc'].
        * left. apply (Hd x Hc'); [|exact Hu]. intros [Heq|Hin]; [congruence|].
          apply Hnx. apply H2. now left.
        * exfalso. apply Hnx. apply H2. right. split; [|exact Hc'].
          apply H1 in Hx. destruct Hx; [contradiction|assumption]. }
  assert (Hterm : exists C, eclose n T = Ok C).
  { unfold eclose. apply (run_loop_term (eclose_step n)
       (fun st => (length (fst st) + unm (nstates n) (snd st))%nat)).
    - intros [st C] s'. rewrite eclose_step_eq. simpl. destruct st as [|t rest]; [discriminate|].
      intros H. inversion H; subst. clear H.
      pose proof (push_new_measure (nstates n) (nnext_l n t E) rest C) as Hm. simpl in Hm.
      assert (HU : forall u, In u (nnext_l n t E) -> In u (nstates n)).
      { intros u Hu. apply (nedge_in_nstates n t E u Hu). }
      specialize (Hm HU). simpl. lia.
    - simpl. unfold eclose_fuel. rewrite !Pos2Nat.inj_add, !pos_of_len_nat, rev_length.
      pose proof (unm_le_length (nstates n) T). change (Pos.to_nat 1) with 1%nat. lia. }
  destruct Hterm as [C HC]. exists C. split; [exact HC|].
  assert (HP : Post C).
  { unfold eclose in HC. apply (run_loop_inv (eclose_step n) Inv Post Hstep _ _ _) in HC; [exact HC|].
    unfold Inv. simpl. repeat split.
    - auto.
    - intros x Hx. exists x. split; [exact Hx | constructor].
    - intros x Hx. now apply in_rev.
    - intros x Hx Hn. exfalso. apply Hn. now apply -> in_rev. }
  destruct HP as (Ha & Hb & Hc). split; [exact Hc|].
  intros x. split; [apply Hb|].
  intros [s [Hs Hr]]. apply Ha in Hs. clear Ha Hb. induction Hr; [exact Hs|].
  apply IHHr. eapply Hc; eauto.
Qed.

(** ** move *)
Lemma nnext_nedge : forall n s a t, nedge n s a t <-> exists nx, nnext n s a = Some nx /\ In t nx.
Proof.
  intros. unfold nedge, nnext_l. destruct (nnext n s a) as [nx|]; split.
  - intros H. eauto.
  - intros [nx' [H1 H2]]. inversion H1; subst. exact H2.
  - simpl. contradiction.
  - intros [nx' [H1 _]]. discriminate.
Qed.

Lemma nmove_fold : forall n a T acc x,
  In x (fold_left (fun acc s => match nnext n s a with Some nx => sunion acc nx | None => acc end) T acc)
  <-> In x acc \/ exists s, In s T /\ nedge n s a x.
Proof.
  intros n a. induction T as [|s r IH]; intros acc x; simpl.
  - split; [auto|]. intros [H|[s [[] _]]]. exact H.
  - rewrite IH. split.
    + intros [H|[s' [H1 H2]]].
      * destruct (nnext n s a) as [nx|] eqn:En; [|auto].
        apply In_sunion in H. destruct H as [H|H]; [auto|].
        right. exists s. split; [now left|]. apply nnext_nedge. eauto.
      * right. exists s'. auto.
    + intros [H|[s' [[->|H1] H2]]].
      * left. destruct (nnext n s a); [apply In_sunion|]; auto.
      * left. apply nnext_nedge in H2. destruct H2 as [nx [E1 E2]]. rewrite E1. apply In_sunion. now right.
      * right. eauto.
Qed.

Lemma In_nmove : forall n T a x, In x (nmove n T a) <-> exists s, In s T /\ nedge n s a x.
Proof.
  intros. unfold nmove. rewrite nmove_fold. simpl. intuition.
Qed.

(** ** Accept *)
Lemma npath_cons_inv : forall n S a w s u,
  eclosed n S -> In s S -> npath n s (a :: w) u ->
  exists s' t, In s' S /\ a <> E /\ nedge n s' a t /\ npath n t w u.
Proof.
  intros n S a w s u Hcl Hs Hp. remember (a :: w) as w' eqn:Ew. revert Hs.
  induction Hp as [s|s t u w' He Hp IH|s a' t u w' Ha He Hp IH]; intros Hs; try discriminate.
  - apply IH; [exact Ew|]. eapply Hcl; eauto.
  - inversion Ew; subst. eauto 6.
Qed.

Lemma nrun_ok : forall n w S, word_ok w -> eclosed n S ->
  exists S', nrun n S w = Ok S' /\ eclosed n S' /\
             forall u, In u S' <-> exists s, In s S /\ npath n s w u.
Proof.
  intros n. induction w as [|a w IH]; intros S Hw Hcl; simpl.
  - exists S. split; [reflexivity|]. split; [exact Hcl|]. intros u. split.
    + intros H. exists u. split; [exact H | constructor].
    + intros [s [Hs Hp]]. apply npath_nil in Hp. induction Hp; [exact Hs|]. apply IHHp. eapply Hcl; eauto.
  - inversion Hw as [|? ? Ha Hw']; subst.
    destruct (eclose_ok n (nmove n S a)) as [S1 [E1 [Hcl1 H1]]]. rewrite E1. simpl.
    destruct (IH S1 Hw' Hcl1) as [S' [E2 [Hcl2 H2]]]. exists S'. split; [exact E2|]. split; [exact Hcl2|].
    intros u. rewrite H2. split.
    + intros [s1 [Hs1 Hp]]. apply H1 in Hs1. destruct Hs1 as [t [Ht Hr]].
      apply In_nmove in Ht. destruct Ht as [s [Hs He]]. exists s. split; [exact Hs|].
      eapply np_sym; eauto. eapply npath_eps_l; eauto.
    + intros [s [Hs Hp]].
      destruct (npath_cons_inv n S a w s u Hcl Hs Hp) as [s' [t [Hs' [_ [He Hp']]]]].
      exists t. split; [|exact Hp']. apply H1. exists t. split; [|constructor].
      apply In_nmove. eauto.
Qed.

(** NFA.Accept terminates and decides the path language. *)
Theorem naccept_ok : forall n w, word_ok w ->
  exists b, naccept n w = Ok b /\ (b = true <-> nlang n w).
Proof.
  intros n w Hw. unfold naccept.
  destruct (eclose_ok n (sof [nstart n])) as [S0 [E0 [Hcl0 H0]]]. rewrite E0. simpl.
  destruct (nrun_ok n w S0 Hw Hcl0) as [S [E1 [_ H1]]]. rewrite E1. simpl.
  eexists. split; [reflexivity|]. rewrite existsb_exists. unfold nlang. split.
  - intros [f [Hf Hm]]. apply smem_In in Hm. exists f. split; [exact Hm|].
    apply H1 in Hf. destruct Hf as [s [Hs Hp]]. apply H0 in Hs. destruct Hs as [s0 [Hs0 Hr]].
    apply In_sof in Hs0. destruct Hs0 as [<-|[]]. eapply npath_eps_l; eauto.
  - intros [f [Hf Hp]]. exists f. split; [|now apply smem_In].
    apply H1. exists (nstart n). split; [|exact Hp]. apply H0. exists (nstart n). split; [|constructor].
    apply In_sof. now left.
Qed.

(** two NFAs with the same path language are accepted alike by the executable Accept *)
Lemma naccept_ext : forall n1 n2 w, word_ok w -> (nlang n1 w <-> nlang n2 w) -> naccept n1 w = naccept n2 w.
Proof.
  intros n1 n2 w Hw H. destruct (naccept_ok n1 w Hw) as [b1 [E1 H1]]. destruct (naccept_ok n2 w Hw) as [b2 [E2 H2]].
  rewrite E1, E2. f_equal. destruct b1, b2; try reflexivity; intuition congruence.
Qed.
