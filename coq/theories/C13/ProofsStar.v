(** C13 — Star computes the Kleene closure. *)
From Coq Require Import ZArith List Bool Lia.
From Algo.C13 Require Import Model Spec Lemmas ProofsNFA ProofsDFA ProofsSM ProofsUnion.
Import ListNotations.
Open Scope Z_scope.

Definition sshape (m : smgr) (n : nfa) (ss x a y : Z) : Prop :=
  (exists s t, nedge n s a t /\ sm_find m 0 s = Some x /\ sm_find m 0 t = Some y) \/
  (x = 0 /\ a = E /\ (y = ss \/ y = 1)) \/
  (a = E /\ (y = ss \/ y = 1) /\ exists f, In f (nfinal n) /\ sm_find m 0 f = Some x).

Lemma nstar_eq : forall n,
  nstar n =
  (let '(m1, st1) := fold_left (table_step 0) (ntrans n) (sm_new 1, new_nfa 0 [1]) in
   let '(m2, ss) := goc m1 0 (nstart n) in
   snd (fold_left (link_step 0 [ss; 1]) (nfinal n) (m2, nadd (nadd st1 0 E [ss]) 0 E [1]))).
Proof.
  intros. unfold nstar. rewrite copy_trans_eq.
  destruct (fold_left (table_step 0) (ntrans n) (sm_new 1, new_nfa 0 [1])) as [m1 st1].
  destruct (goc m1 0 (nstart n)) as [m2 ss]. reflexivity.
Qed.

Lemma nstar_spec : forall n, nwf n ->
  exists m ss, sm_ok 1 m /\ defined_on m 0 n /\ sm_find m 0 (nstart n) = Some ss /\
    nwf (nstar n) /\ nstart (nstar n) = 0 /\ nfinal (nstar n) = [1] /\
    forall x a y, nedge (nstar n) x a y <-> sshape m n ss x a y.
Proof.
  intros n Hwn. rewrite nstar_eq.
  destruct (fold_left (table_step 0) (ntrans n) (sm_new 1, new_nfa 0 [1])) as [m1 u1] eqn:E1.
  destruct (copy_table 1 0 (ntrans n) _ _ m1 u1 (sm_ok_new 1) E1) as (Hok1 & Hext1 & Hs1 & Hf1 & Hw1 & He1 & Hd1 & _).
  destruct (goc m1 0 (nstart n)) as [m2 ss] eqn:E2.
  destruct (goc_spec 1 m1 0 (nstart n) m2 ss Hok1 E2) as (Hok2 & Hext2 & Hfs & _).
  destruct (fold_left (link_step 0 [ss; 1]) (nfinal n) (m2, nadd (nadd u1 0 E [ss]) 0 E [1])) as [m3 u3] eqn:E3.
  destruct (final_links 1 0 [ss; 1] (nfinal n) m2 _ m3 u3 Hok2 E3) as (Hok3 & Hext3 & Hs3 & Hf3 & Hw3 & He3 & Hd3 & _).
  simpl.
  assert (Hdn : defined_on m3 0 n).
  { split; [|split].
    - intros s a t He. apply nedge_entries in He; [|exact Hwn]. destruct He as [nx [He Ht]].
      apply In_entries in He. destruct He as [row [Hr Ha]].
      destruct (Hd1 s row Hr) as [[x Hx] Hd]. destruct (Hd a nx t Ha Ht) as [y Hy].
      split; [exists x | exists y]; apply Hext3, Hext2; assumption.
    - exists ss. now apply Hext3.
    - exact Hd3. }
  exists m3, ss. split; [exact Hok3|]. split; [exact Hdn|]. split; [now apply Hext3|].
  split; [apply Hw3, nwf_nadd, nwf_nadd, Hw1, nwf_new|].
  split; [rewrite Hs3; simpl; exact Hs1|]. split; [rewrite Hf3; simpl; exact Hf1|].
  intros x a y. rewrite He3, !nedge_nadd, He1. unfold sshape. split.
  - intros [[[[Hu|Hm]|(-> & -> & [<-|[]])]|(-> & -> & [<-|[]])]|(-> & Hy & f & Hf & Hx)].
    + exfalso. eapply no_edge_empty_n. exact Hu.
    + apply mapped_edge_iff in Hm; [|exact Hwn]. destruct Hm as (s & t & H1 & H2 & H3).
      left. exists s, t. split; [exact H1|]. split; apply Hext3, Hext2; assumption.
    + right. left. auto.
    + right. left. auto.
    + right. right. split; [reflexivity|]. split; [|eauto]. simpl in Hy. intuition.
  - intros [(s & t & H1 & H2 & H3)|[(-> & -> & [->| ->])|(-> & Hy & f & Hf & Hx)]].
    + left. left. left. right. apply mapped_edge_iff; [exact Hwn|]. exists s, t. split; [exact H1|].
      apply nedge_entries in H1; [|exact Hwn]. destruct H1 as [nx [He Ht]].
      apply In_entries in He. destruct He as [row [Hr Ha]].
      destruct (Hd1 s row Hr) as [[x' Hx'] Hd]. destruct (Hd a nx t Ha Ht) as [y' Hy'].
      pose proof (Hext3 _ _ _ (Hext2 _ _ _ Hx')). pose proof (Hext3 _ _ _ (Hext2 _ _ _ Hy')).
      split; congruence.
    + left. left. right. simpl. auto.
    + left. right. simpl. auto.
    + right. split; [reflexivity|]. split; [simpl; intuition | eauto].
Qed.

Section StarLang.
  Variables (S : nfa) (m : smgr) (n : nfa) (ss : Z).
  Hypothesis Hok : sm_ok 1 m.
  Hypothesis Hdef : defined_on m 0 n.
  Hypothesis Hss : sm_find m 0 (nstart n) = Some ss.
  Hypothesis Hstart : nstart S = 0.
  Hypothesis Hfinal : nfinal S = [1].
  Hypothesis Hedges : forall x a y, nedge S x a y <-> sshape m n ss x a y.

  Let gt1 : forall i s x, sm_find m i s = Some x -> 1 < x.
  Proof. intros i s x H. apply (ok_range _ _ Hok) in H. lia. Qed.

  Lemma s_no_edge_from_1 : forall a y, ~ nedge S 1 a y.
  Proof.
    intros a y H. apply Hedges in H.
    destruct H as [(s & t & _ & H & _)|[(H & _)|(_ & _ & f & _ & H)]]; try apply gt1 in H; lia.
  Qed.

  Lemma s_path_from_1 : forall w z, npath S 1 w z -> w = [] /\ z = 1.
  Proof.
    intros w z H. remember 1 as x eqn:Ex. destruct H; subst; auto; exfalso; eapply s_no_edge_from_1; eauto.
  Qed.

  Lemma s_lift : forall s w t, npath n s w t ->
    forall x, sm_find m 0 s = Some x -> exists y, sm_find m 0 t = Some y /\ npath S x w y.
  Proof.
    intros s w t Hp. destruct Hdef as (D1 & _ & _).
    induction Hp as [s|s t u w He Hp IH|s a t u w Ha He Hp IH]; intros x Hx.
    - exists x. split; [exact Hx | constructor].
    - destruct (D1 _ _ _ He) as [_ [y Hy]]. destruct (IH y Hy) as [z [Hz Hpz]].
      exists z. split; [exact Hz|]. eapply np_eps; [|exact Hpz]. apply Hedges. left. exists s, t. auto.
    - destruct (D1 _ _ _ He) as [_ [y Hy]]. destruct (IH y Hy) as [z [Hz Hpz]].
      exists z. split; [exact Hz|]. eapply np_sym; [exact Ha| |exact Hpz]. apply Hedges. left. exists s, t. auto.
  Qed.

  Lemma s_unlift : forall x w z, npath S x w z -> z = 1 ->
    forall s, sm_find m 0 s = Some x ->
    exists u v, w = u ++ v /\ (exists f, In f (nfinal n) /\ npath n s u f) /\ l_star (nlang n) v.
  Proof.
    intros x w z Hp. induction Hp as [x|x t u w He Hp IH|x a t u w Ha He Hp IH]; intros Hz s Hx.
    - subst. apply gt1 in Hx. lia.
    - apply Hedges in He. destruct He as [(s' & t' & H1 & H2 & H3)|[(H & _)|(_ & Hy & f & Hf & H2)]].
      + destruct (ok_inj _ _ Hok _ _ _ _ _ H2 Hx) as [_ ->].
        destruct (IH Hz t' H3) as (u1 & v1 & -> & (f & Hf & Hpf) & Hst).
        exists u1, v1. split; [reflexivity|]. split; [|exact Hst]. exists f. split; [exact Hf|]. eapply np_eps; eauto.
      + subst. apply gt1 in Hx. lia.
      + destruct (ok_inj _ _ Hok _ _ _ _ _ H2 Hx) as [_ ->]. destruct Hy as [->| ->].
        * destruct (IH Hz (nstart n) Hss) as (u1 & v1 & -> & (f' & Hf' & Hpf') & Hst).
          exists [], (u1 ++ v1). split; [reflexivity|]. split; [exists s; split; [exact Hf | constructor]|].
          apply ls_app; [|exact Hst]. exists f'. auto.
        * apply s_path_from_1 in Hp. destruct Hp as [-> _].
          exists [], []. split; [reflexivity|]. split; [exists s; split; [exact Hf | constructor] | constructor].
    - apply Hedges in He. destruct He as [(s' & t' & H1 & H2 & H3)|[(_ & H & _)|(H & _)]]; try contradiction.
      destruct (ok_inj _ _ Hok _ _ _ _ _ H2 Hx) as [_ ->].
      destruct (IH Hz t' H3) as (u1 & v1 & -> & (f & Hf & Hpf) & Hst).
      exists (a :: u1), v1. split; [reflexivity|]. split; [|exact Hst]. exists f. split; [exact Hf|]. eapply np_sym; eauto.
  Qed.

  Lemma s_star_path : forall w, l_star (nlang n) w ->
    forall x, (x = 0 \/ exists f, In f (nfinal n) /\ sm_find m 0 f = Some x) -> npath S x w 1.
  Proof.
    intros w Hst. induction Hst as [|u v Hu Hv IH]; intros x Hx.
    - eapply np_eps; [|constructor]. apply Hedges. destruct Hx as [->|Hx].
      + right. left. auto.
      + right. right. auto.
    - destruct Hu as [f [Hf Hp]]. destruct (s_lift _ _ _ Hp ss Hss) as [y [Hy Hpy]].
      apply (np_eps S x ss 1 (u ++ v)).
      + apply Hedges. destruct Hx as [->|Hx]; [right; left; auto | right; right; auto].
      + eapply npath_app; [exact Hpy|]. apply IH. right. eauto.
  Qed.

  Theorem star_shape_lang : forall w, nlang S w <-> l_star (nlang n) w.
  Proof.
    intros w. split.
    - unfold nlang at 1. rewrite Hstart, Hfinal. intros [f [[<-|[]] Hp]].
      inversion Hp as [s E1 E2|s t u w' He Hp' E1 E2 E3|s a t u w' Ha He Hp' E1 E2 E3]; subst.
      + apply Hedges in He. destruct He as [(s' & t' & _ & H & _)|[(_ & _ & Hy)|(_ & _ & f & _ & H)]].
        * apply gt1 in H. lia.
        * destruct Hy as [->| ->].
          -- destruct (s_unlift _ _ _ Hp' eq_refl (nstart n) Hss) as (u1 & v1 & -> & (f & Hf & Hpf) & Hst).
             apply ls_app; [|exact Hst]. exists f. auto.
          -- apply s_path_from_1 in Hp'. destruct Hp' as [-> _]. constructor.
        * apply gt1 in H. lia.
      + apply Hedges in He. destruct He as [(s' & t' & _ & H & _)|[(_ & H & _)|(H & _)]]; try contradiction.
        apply gt1 in H. lia.
    - intros Hst. exists 1. rewrite Hstart, Hfinal. split; [now left|]. apply s_star_path; auto.
  Qed.
End StarLang.

Theorem nstar_lang : forall n w, nwf n -> (nlang (nstar n) w <-> l_star (nlang n) w).
Proof.
  intros n w Hw. destruct (nstar_spec n Hw) as (m & ss & H1 & H2 & H3 & H4 & H5 & H6 & H7).
  exact (star_shape_lang (nstar n) m n ss H1 H2 H3 H5 H6 H7 w).
Qed.

Lemma nstar_wf : forall n, nwf n -> nwf (nstar n).
Proof. intros n Hw. destruct (nstar_spec n Hw) as (m & ss & _ & _ & _ & H4 & _). exact H4. Qed.

(** the Kleene closure of the accepted language, phrased with the executable Accept *)
Definition acc_lang (n : nfa) : lang := fun w => naccept n w = Ok true.

Lemma l_star_ext : forall (l1 l2 : lang), (forall w, l1 w -> l2 w) -> forall w, l_star l1 w -> l_star l2 w.
Proof. intros l1 l2 H w Hs. induction Hs; constructor; auto. Qed.

Lemma word_ok_app : forall u v, word_ok (u ++ v) <-> word_ok u /\ word_ok v.
Proof. intros. unfold word_ok. apply Forall_app. Qed.

Lemma l_star_ok : forall (l : lang) w, word_ok w -> l_star l w -> l_star (fun u => word_ok u /\ l u) w.
Proof.
  intros l w Hw Hs. induction Hs as [|u v Hu Hv IH]; [constructor|].
  apply word_ok_app in Hw. destruct Hw as [Hwu Hwv]. constructor; auto.
Qed.

Theorem nstar_accept : forall n w, nwf n -> word_ok w ->
  exists b, naccept (nstar n) w = Ok b /\ (b = true <-> l_star (acc_lang n) w).
Proof.
  intros n w Hwf Hw. destruct (naccept_ok (nstar n) w Hw) as [b [E H]]. exists b. split; [exact E|].
  rewrite H, nstar_lang by exact Hwf. split.
  - intros Hs. apply (l_star_ok _ _ Hw) in Hs. eapply l_star_ext; [|exact Hs].
    intros u [Hu Hl]. unfold acc_lang. destruct (naccept_ok n u Hu) as [b' [E' H']]. rewrite E'. f_equal. now apply H'.
  - intros Hs. apply (l_star_ok _ _ Hw) in Hs. eapply l_star_ext; [|exact Hs].
    intros u [Hu Hl]. unfold acc_lang in Hl. destruct (naccept_ok n u Hu) as [b' [E' H']].
    rewrite E' in Hl. inversion Hl; subst. now apply H'.
Qed.
