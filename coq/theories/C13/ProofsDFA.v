(** C13 — DFA.Accept against the path semantics; Clone (both kinds) and ToNFA preserve the language. *)
From Coq Require Import ZArith List Bool Lia.
From Algo.C13 Require Import Model Spec Lemmas ProofsNFA.
Import ListNotations.
Open Scope Z_scope.

(** ** languages depend only on edges, start and final states *)
Lemma npath_ext : forall n1 n2, (forall s a t, nedge n1 s a t -> nedge n2 s a t) ->
  forall s w u, npath n1 s w u -> npath n2 s w u.
Proof. intros n1 n2 H s w u Hp. induction Hp; eauto using npath. Qed.

Lemma nlang_ext : forall n1 n2 w,
  (forall s a t, nedge n1 s a t <-> nedge n2 s a t) -> nstart n1 = nstart n2 ->
  (forall f, In f (nfinal n1) <-> In f (nfinal n2)) -> (nlang n1 w <-> nlang n2 w).
Proof.
  intros n1 n2 w He Hs Hf. unfold nlang. rewrite Hs. split; intros [f [H1 H2]]; exists f; split.
  - now apply Hf.
  - eapply npath_ext; [|exact H2]. intros; now apply He.
  - now apply Hf.
  - eapply npath_ext; [|exact H2]. intros; now apply He.
Qed.

Lemma dnext_ext : forall d1 d2, (forall s a t, dedge d1 s a t <-> dedge d2 s a t) ->
  forall s a, dnext d1 s a = dnext d2 s a.
Proof.
  intros d1 d2 H s a.
  assert (G : forall d t, dedge d s a t -> dnext d s a = t).
  { intros d t [row [E1 E2]]. unfold dnext. now rewrite E1, E2. }
  assert (N : forall d, (forall t, ~ dedge d s a t) -> dnext d s a = -1).
  { intros d Hn. unfold dnext. destruct (aget s (dtrans d)) as [row|] eqn:E1; [|reflexivity].
    destruct (aget a row) as [t|] eqn:E2; [|reflexivity]. exfalso. apply (Hn t). exists row. auto. }
  destruct (aget s (dtrans d1)) as [row|] eqn:E1.
  - destruct (aget a row) as [t|] eqn:E2.
    + assert (Hd : dedge d1 s a t) by (exists row; auto).
      rewrite (G d1 t Hd). symmetry. apply G. now apply H.
    + rewrite (N d1), (N d2); [reflexivity| |].
      * intros t Ht. apply H in Ht. destruct Ht as [r [F1 F2]]. congruence.
      * intros t [r [F1 F2]]. congruence.
  - rewrite (N d1), (N d2); [reflexivity| |].
    + intros t Ht. apply H in Ht. destruct Ht as [r [F1 F2]]. congruence.
    + intros t [r [F1 F2]]. congruence.
Qed.

Lemma daccept_ext : forall d1 d2 w,
  (forall s a t, dedge d1 s a t <-> dedge d2 s a t) -> dstart d1 = dstart d2 ->
  (forall f, In f (dfinal d1) <-> In f (dfinal d2)) -> daccept d1 w = daccept d2 w.
Proof.
  intros d1 d2 w He Hs Hf. unfold daccept. rewrite Hs.
  assert (Hr : forall w s, drun d1 s w = drun d2 s w).
  { induction w0 as [|a r IH]; intros s; simpl; [reflexivity|]. unfold drun in *. simpl.
    rewrite (dnext_ext d1 d2 He). apply IH. }
  rewrite Hr. apply Bool.eq_true_iff_eq. rewrite !smem_In. apply Hf.
Qed.

(** ** DFA.Accept = path semantics when -1 is not a state *)
Lemma dnext_dead : forall d a, dfa_ok d -> dnext d (-1) a = -1.
Proof.
  intros d a (_ & _ & Hok). unfold dnext.
  destruct (aget (-1) (dtrans d)) as [row|] eqn:E1; [|reflexivity].
  destruct (aget a row) as [t|] eqn:E2; [|reflexivity].
  destruct (Hok (-1) a t) as [H _]; [exists row; auto | lia].
Qed.

Lemma drun_dead : forall d w, dfa_ok d -> drun d (-1) w = -1.
Proof.
  intros d w Hok. induction w as [|a r IH]; [reflexivity|].
  unfold drun in *. simpl. rewrite dnext_dead by exact Hok. exact IH.
Qed.

Lemma drun_dpath : forall d, dfa_ok d -> forall w s u, drun d s w = u -> u <> -1 -> dpath d s w u.
Proof.
  intros d Hok. induction w as [|a r IH]; intros s u Hr Hu.
  - simpl in Hr. subst. constructor.
  - unfold drun in Hr. simpl in Hr. fold (drun d (dnext d s a) r) in Hr.
    destruct (Z.eq_dec (dnext d s a) (-1)) as [Hd|Hd].
    + rewrite Hd, drun_dead in Hr by exact Hok. congruence.
    + econstructor; [|apply IH; eauto]. apply dnext_dedge; [exact Hd | reflexivity].
Qed.

Lemma dpath_drun : forall d, dfa_ok d -> forall s w u, dpath d s w u -> drun d s w = u.
Proof.
  intros d (_ & _ & Hok) s w u Hp. induction Hp as [s|s a t u w He Hp IH]; [reflexivity|].
  unfold drun. simpl. fold (drun d (dnext d s a) w).
  assert (Ht : dnext d s a = t).
  { apply dnext_dedge; [|exact He]. destruct (Hok _ _ _ He). lia. }
  rewrite Ht. exact IH.
Qed.

Theorem daccept_ok : forall d w, dfa_ok d -> (daccept d w = true <-> dlang d w).
Proof.
  intros d w Hok. unfold daccept, dlang. rewrite smem_In. split.
  - intros H. exists (drun d (dstart d) w). split; [exact H|].
    apply drun_dpath; [exact Hok | reflexivity|].
    destruct Hok as (_ & Hf & _). rewrite Forall_forall in Hf. specialize (Hf _ H). lia.
  - intros [f [Hf Hp]]. apply dpath_drun in Hp; [|exact Hok]. now rewrite Hp.
Qed.

(** ** folds of Add *)
Lemma nedge_fold_nadd : forall l init s a t,
  nedge (fold_left (fun acc (sx : Z * (Z * list Z)) => nadd acc (fst sx) (fst (snd sx)) (snd (snd sx))) l init) s a t
  <-> nedge init s a t \/ exists nx, In (s, (a, nx)) l /\ In t nx.
Proof.
  induction l as [|[s0 [a0 nx0]] r IH]; intros init s a t; simpl.
  - split; [auto|]. intros [H|[nx [[] _]]]. exact H.
  - rewrite IH, nedge_nadd. split.
    + intros [[H|(-> & -> & H)]|[nx [H1 H2]]]; [auto| |].
      * right. exists nx0. auto.
      * right. exists nx. auto.
    + intros [H|[nx [[H1|H1] H2]]]; [auto| |].
      * inversion H1; subst. left. right. auto.
      * right. eauto.
Qed.

Lemma fold_nadd_start_final : forall l init,
  let r := fold_left (fun acc (sx : Z * (Z * list Z)) => nadd acc (fst sx) (fst (snd sx)) (snd (snd sx))) l init in
  nstart r = nstart init /\ nfinal r = nfinal init /\ (nwf init -> nwf r).
Proof.
  induction l as [|e r IH]; intros init; simpl; [auto|].
  destruct (IH (nadd init (fst e) (fst (snd e)) (snd (snd e)))) as (H1 & H2 & H3).
  split; [exact H1|]. split; [exact H2|]. intros Hw. apply H3. now apply nwf_nadd.
Qed.

Definition efun (l : list (Z * (Z * Z))) : Prop :=
  forall s a t t', In (s, (a, t)) l -> In (s, (a, t')) l -> t = t'.

Lemma key_dec : forall (l : list (Z * (Z * Z))) s a,
  {t | In (s, (a, t)) l} + {forall t, ~ In (s, (a, t)) l}.
Proof.
  induction l as [|[s0 [a0 t0]] r IH]; intros s a.
  - right. intros t [].
  - destruct (Z.eq_dec s s0) as [->|Hs]; [destruct (Z.eq_dec a a0) as [->|Ha]|].
    + left. exists t0. now left.
    + destruct (IH s0 a) as [[t Ht]|Hn]; [left; exists t; now right|].
      right. intros t [H|H]; [inversion H; congruence | eapply Hn; eauto].
    + destruct (IH s a) as [[t Ht]|Hn]; [left; exists t; now right|].
      right. intros t [H|H]; [inversion H; congruence | eapply Hn; eauto].
Qed.

Lemma dedge_fold_dadd : forall l init s a t, efun l ->
  (dedge (fold_left (fun acc (sx : Z * (Z * Z)) => dadd acc (fst sx) (fst (snd sx)) (snd (snd sx))) l init) s a t
   <-> In (s, (a, t)) l \/ (dedge init s a t /\ forall t', ~ In (s, (a, t')) l)).
Proof.
  induction l as [|[s0 [a0 t0]] r IH]; intros init s a t Hf; simpl.
  - split; [intros H; right; split; auto|]. intros [[]|[H _]]. exact H.
  - assert (Hfr : efun r) by (intros x y z z' H1 H2; eapply Hf; right; eauto).
    rewrite (IH _ s a t Hfr), dedge_dadd. split.
    + intros [H|[[(-> & -> & ->)|[Hk Hd]] Hn]]; [left; now right | left; now left |].
      right. split; [exact Hd|]. intros t' [H|H]; [inversion H; subst; apply Hk; auto | eapply Hn; eauto].
    + intros [[H|H]|[Hd Hn]].
      * inversion H; subst. destruct (key_dec r s a) as [[t' Ht']|Hn].
        -- left. assert (t = t') by (eapply Hf; [now left | right; exact Ht']). now subst.
        -- right. split; [left; auto | exact Hn].
      * left. exact H.
      * right. split.
        -- right. split; [|exact Hd]. intros [-> ->]. apply (Hn t0). now left.
        -- intros t' H. apply (Hn t'). now right.
Qed.

Lemma fold_dadd_start_final : forall l init,
  let r := fold_left (fun acc (sx : Z * (Z * Z)) => dadd acc (fst sx) (fst (snd sx)) (snd (snd sx))) l init in
  dstart r = dstart init /\ dfinal r = dfinal init /\ (dwf init -> dwf r).
Proof.
  induction l as [|e r IH]; intros init; simpl; [auto|].
  destruct (IH (dadd init (fst e) (fst (snd e)) (snd (snd e)))) as (H1 & H2 & H3).
  split; [exact H1|]. split; [exact H2|]. intros Hw. apply H3. now apply dwf_dadd.
Qed.

Lemma efun_entries : forall d, dwf d -> efun (entries (dtrans d)).
Proof.
  intros d Hw s a t t' H1 H2. apply dedge_entries in H1; [|exact Hw]. apply dedge_entries in H2; [|exact Hw].
  eapply dedge_fun; eauto.
Qed.

Lemma no_edge_empty_n : forall s f x a t, ~ nedge (mkNFA s f []) x a t.
Proof. intros. unfold nedge, nnext_l, nnext. simpl. auto. Qed.
Lemma no_edge_empty_d : forall s f x a t, ~ dedge (mkDFA s f []) x a t.
Proof. intros s f x a t [row [H _]]. simpl in H. discriminate. Qed.

(** ** Clone *)
Lemma nclone_eq : forall n,
  nclone n = fold_left (fun acc (sx : Z * (Z * list Z)) => nadd acc (fst sx) (fst (snd sx)) (snd (snd sx)))
               (entries (ntrans n)) (mkNFA (nstart n) (nfinal n) []).
Proof.
  intros. unfold nclone.
  exact (fold_nested (fun acc s (x : Z * list Z) => nadd acc s (fst x) (snd x)) (ntrans n) _).
Qed.

Lemma nclone_spec : forall n, nwf n ->
  nstart (nclone n) = nstart n /\ nfinal (nclone n) = nfinal n /\ nwf (nclone n) /\
  forall s a t, nedge (nclone n) s a t <-> nedge n s a t.
Proof.
  intros n Hw. rewrite nclone_eq.
  destruct (fold_nadd_start_final (entries (ntrans n)) (mkNFA (nstart n) (nfinal n) [])) as (H1 & H2 & H3).
  split; [exact H1|]. split; [exact H2|]. split; [apply H3, nwf_empty|].
  intros s a t. rewrite nedge_fold_nadd. split.
  - intros [H|H]; [exfalso; eapply no_edge_empty_n; eauto|]. now apply nedge_entries.
  - intros H. right. now apply nedge_entries.
Qed.

Theorem nclone_accept : forall n w, nwf n -> word_ok w -> naccept (nclone n) w = naccept n w.
Proof.
  intros n w Hw Hok. destruct (nclone_spec n Hw) as (H1 & H2 & _ & H4).
  apply naccept_ext; [exact Hok|]. apply nlang_ext; auto. intros f. now rewrite H2.
Qed.

Lemma dclone_eq : forall d,
  dclone d = fold_left (fun acc (sx : Z * (Z * Z)) => dadd acc (fst sx) (fst (snd sx)) (snd (snd sx)))
               (entries (dtrans d)) (mkDFA (dstart d) (dfinal d) []).
Proof.
  intros. unfold dclone.
  exact (fold_nested (fun acc s (x : Z * Z) => dadd acc s (fst x) (snd x)) (dtrans d) _).
Qed.

Lemma dclone_spec : forall d, dwf d ->
  dstart (dclone d) = dstart d /\ dfinal (dclone d) = dfinal d /\ dwf (dclone d) /\
  forall s a t, dedge (dclone d) s a t <-> dedge d s a t.
Proof.
  intros d Hw. rewrite dclone_eq.
  destruct (fold_dadd_start_final (entries (dtrans d)) (mkDFA (dstart d) (dfinal d) [])) as (H1 & H2 & H3).
  split; [exact H1|]. split; [exact H2|]. split; [apply H3, dwf_empty|].
  intros s a t. rewrite dedge_fold_dadd by (now apply efun_entries). split.
  - intros [H|[H _]]; [now apply dedge_entries | exfalso; eapply no_edge_empty_d; eauto].
  - intros H. left. now apply dedge_entries.
Qed.

Theorem dclone_accept : forall d w, dwf d -> daccept (dclone d) w = daccept d w.
Proof.
  intros d w Hw. destruct (dclone_spec d Hw) as (H1 & H2 & _ & H4).
  apply daccept_ext; auto. intros f. now rewrite H2.
Qed.

(** ** ToNFA *)
Lemma tonfa_eq : forall d,
  tonfa d = fold_left (fun acc (sx : Z * (Z * list Z)) => nadd acc (fst sx) (fst (snd sx)) (snd (snd sx)))
              (map (fun sx : Z * (Z * Z) => (fst sx, (fst (snd sx), [snd (snd sx)]))) (entries (dtrans d)))
              (mkNFA (dstart d) (dfinal d) []).
Proof.
  intros. unfold tonfa.
  rewrite (fold_nested (fun acc s (x : Z * Z) => nadd acc s (fst x) [snd x]) (dtrans d) _).
  generalize (mkNFA (dstart d) (dfinal d) []). induction (entries (dtrans d)) as [|e r IH]; intros i; simpl; [reflexivity|].
  apply IH.
Qed.

Lemma tonfa_spec : forall d, dwf d ->
  nstart (tonfa d) = dstart d /\ nfinal (tonfa d) = dfinal d /\ nwf (tonfa d) /\
  forall s a t, nedge (tonfa d) s a t <-> dedge d s a t.
Proof.
  intros d Hw. rewrite tonfa_eq.
  destruct (fold_nadd_start_final
              (map (fun sx : Z * (Z * Z) => (fst sx, (fst (snd sx), [snd (snd sx)]))) (entries (dtrans d)))
              (mkNFA (dstart d) (dfinal d) [])) as (H1 & H2 & H3).
  split; [exact H1|]. split; [exact H2|]. split; [apply H3, nwf_empty|].
  intros s a t. rewrite nedge_fold_nadd. split.
  - intros [H|[nx [H Ht]]]; [exfalso; eapply no_edge_empty_n; eauto|].
    apply in_map_iff in H. destruct H as [[s0 [a0 t0]] [He Hin]]. simpl in He. inversion He; subst.
    destruct Ht as [<-|[]]. now apply dedge_entries.
  - intros H. right. exists [t]. split; [|now left].
    apply in_map_iff. exists (s, (a, t)). split; [reflexivity|]. now apply dedge_entries.
Qed.

Lemma tonfa_paths : forall d, dwf d -> dfa_noeps d ->
  forall s w u, npath (tonfa d) s w u <-> dpath d s w u.
Proof.
  intros d Hw Hne s w u. destruct (tonfa_spec d Hw) as (_ & _ & _ & He). split.
  - intros Hp. induction Hp as [s|s t u w H Hp IH|s a t u w Ha H Hp IH].
    + constructor.
    + apply He in H. exfalso. eapply Hne; eauto.
    + apply He in H. econstructor; eauto.
  - intros Hp. induction Hp as [s|s a t u w H Hp IH]; [constructor|].
    apply (np_sym _ s a t u w); [eapply Hne; eauto | apply (proj2 (He s a t) H) | exact IH].
Qed.

Theorem tonfa_lang : forall d w, dwf d -> dfa_noeps d -> (nlang (tonfa d) w <-> dlang d w).
Proof.
  intros d w Hw Hne. destruct (tonfa_spec d Hw) as (H1 & H2 & _ & _). unfold nlang, dlang.
  rewrite H1, H2. split; intros [f [Hf Hp]]; exists f; (split; [exact Hf|]); now apply tonfa_paths.
Qed.

Theorem tonfa_accept : forall d w, dwf d -> dfa_ok d -> dfa_noeps d -> word_ok w ->
  naccept (tonfa d) w = Ok (daccept d w).
Proof.
  intros d w Hw Hok Hne Hwo. destruct (naccept_ok (tonfa d) w Hwo) as [b [E H]]. rewrite E. f_equal.
  apply Bool.eq_true_iff_eq. rewrite H, tonfa_lang, daccept_ok by assumption. reflexivity.
Qed.
