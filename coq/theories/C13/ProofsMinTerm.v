(** C13 — the refinement loop of Minimize stops within its fuel. *)
From Coq Require Import ZArith List Bool Lia.
From Algo.C13 Require Import Model Spec Lemmas ProofsNFA ProofsDFA ProofsElim ProofsSubset ProofsSubsetTerm
  ProofsMinQuot ProofsMinRound ProofsMinimal.
Import ListNotations.
Open Scope Z_scope.

Lemma filter_len_le {A} (f g : A -> bool) : forall l,
  (forall z, In z l -> f z = true -> g z = true) -> (length (filter f l) <= length (filter g l))%nat.
Proof.
  induction l as [|z r IH]; intros H; simpl; [lia|].
  assert (IH' : (length (filter f r) <= length (filter g r))%nat) by (apply IH; intros; apply H; auto; now right).
  destruct (f z) eqn:Ef; destruct (g z) eqn:Eg; simpl; try lia.
  rewrite (H z (or_introl eq_refl) Ef) in Eg. discriminate.
Qed.

Lemma filter_len_lt {A} (f g : A -> bool) : forall l z0,
  (forall z, In z l -> f z = true -> g z = true) -> In z0 l -> g z0 = true -> f z0 = false ->
  (length (filter f l) < length (filter g l))%nat.
Proof.
  induction l as [|z r IH]; intros z0 H Hin Hg Hf; [destruct Hin|]. simpl.
  assert (Hle : (length (filter f r) <= length (filter g r))%nat) by (apply filter_len_le; intros; apply H; auto; now right).
  destruct Hin as [->|Hin].
  - rewrite Hg, Hf. simpl. lia.
  - assert (IH' : (length (filter f r) < length (filter g r))%nat) by (eapply IH; eauto; intros; apply H; auto; now right).
    destruct (f z) eqn:Ef; destruct (g z) eqn:Eg; simpl; try lia.
    rewrite (H z (or_introl eq_refl) Ef) in Eg. discriminate.
Qed.

Definition pairs (d : dfa) : list (Z * Z) := list_prod (dstates d) (dstates d).
Definition same (p : partition) (xy : Z * Z) : bool := prep p (fst xy) =? prep p (snd xy).
Definition Ecount (d : dfa) (p : partition) : nat := length (filter (same p) (pairs d)).
Definition has_empty (p : partition) : bool :=
  existsb (fun g : list Z * Z => match fst g with [] => true | _ => false end) (pgroups p).
Definition mu (d : dfa) (p : partition) : nat := (2 * Ecount d p + (if has_empty p then 1 else 0))%nat.

Record preg (d : dfa) (p : partition) : Prop := {
  pr_good : pgood d p;
  pr_nodup : forall G r, In (G, r) (pgroups p) -> NoDup G;
  pr_len : pnext p = Z.of_nat (length (pgroups p)) }.

Section Term.
  Variables (d : dfa) (p : partition).
  Hypothesis Hreg : preg d p.
  Let Hg := pr_good d p Hreg.
  Let pn := round p d.
  Let Hgn : pgood d pn := round_good p d Hg.

  Lemma refines : forall x y, In x (dstates d) -> In y (dstates d) -> prep pn x = prep pn y -> prep p x = prep p y.
  Proof.
    intros x y Hx Hy He. destruct (round_inv p d Hg) as [D1 D2 D3 D4 D5 D6 D7 D8 D9].
    destruct (prep_state d pn x Hgn Hx) as (H & HH & HxH & _). destruct (prep_state d pn y Hgn Hy) as (H' & HH' & HyH' & _).
    rewrite <- He in HH'. assert (H' = H) by (eapply D4; eauto). subst H'.
    destruct (D1 H _ HH) as [_ (G & rg & s0 & Hd & _ & Hall)]. apply in_rev in Hd.
    rewrite (prep_in d p x G rg Hg Hd (proj1 (Hall x HxH))), (prep_in d p y G rg Hg Hd (proj1 (Hall y HyH'))). reflexivity.
  Qed.

  Lemma round_no_empty : has_empty pn = false.
  Proof.
    destruct (has_empty pn) eqn:E; [|reflexivity]. exfalso.
    unfold has_empty in E. apply existsb_exists in E. destruct E as [[H r] [Hin He]]. simpl in He.
    destruct (round_inv p d Hg) as [D1 D2 D3 D4 D5 D6 D7 D8 D9].
    destruct (D7 H r Hin) as (_ & _ & s0 & _ & Hs0 & _). destruct H; [destruct Hs0 | discriminate].
  Qed.

  Lemma same_pequal : has_empty p = false ->
    (forall x y, In x (dstates d) -> In y (dstates d) -> prep p x = prep p y -> prep pn x = prep pn y) ->
    pequal pn p = true.
  Proof.
    intros Hne Hsame. destruct (round_inv p d Hg) as [D1 D2 D3 D4 D5 D6 D7 D8 D9].
    assert (Hnonempty : forall G r, In (G, r) (pgroups p) -> exists x, In x G).
    { intros G r HG. destruct G as [|x G']; [|exists x; now left]. exfalso.
      assert (has_empty p = true); [|congruence]. apply existsb_exists. exists ([], r). auto. }
    assert (Hsub : forall H r, In (H, r) (pgroups pn) ->
              exists G rg s0, In (G, rg) (pgroups p) /\ In s0 H /\ forall x, In x H -> In x G).
    { intros H r Hin. destruct (D1 H r Hin) as [_ (G & rg & s0 & Hd & Hs0 & Hall)]. apply in_rev in Hd.
      exists G, rg, s0. split; [exact Hd|]. split; [exact Hs0|]. intros x Hx. apply (Hall x Hx). }
    assert (HstG : forall G rg x, In (G, rg) (pgroups p) -> In x G -> In x (dstates d)).
    { intros; eapply (pg_sub d p Hg); eauto. }
    assert (L1 : (length (pgroups pn) <= length (pgroups p))%nat).
    { apply (inj_count (fun (h g : list Z * Z) => In g (pgroups p) /\ exists x, In x (fst h) /\ In x (fst g))).
      - eapply NoDup_map_inv. exact D8.
      - intros [H r] Hin. destruct (Hsub H r Hin) as (G & rg & s0 & HG & Hs0 & Hall).
        exists (G, rg). split; [exact HG|]. split; [exact HG|]. exists s0. simpl. auto.
      - intros [H1 r1] [H2 r2] [G rg] Hin1 Hin2 [HG [x1 [Hx1 Hx1G]]] [_ [x2 [Hx2 Hx2G]]]. simpl in *.
        assert (E1 : prep pn x1 = r1) by (eapply prep_in; eauto).
        assert (E2 : prep pn x2 = r2) by (eapply prep_in; eauto).
        assert (E3 : prep pn x1 = prep pn x2).
        { apply Hsame; try (eapply HstG; eauto).
          rewrite (prep_in d p x1 G rg Hg HG Hx1G), (prep_in d p x2 G rg Hg HG Hx2G). reflexivity. }
        assert (Hr : r1 = r2) by congruence. assert (H1 = H2) by (apply (D4 H1 r1 H2 r2 Hin1 Hin2 Hr)). congruence. }
    assert (L2 : (length (pgroups p) <= length (pgroups pn))%nat).
    { apply (inj_count (fun (g h : list Z * Z) => In h (pgroups pn) /\ exists x, In x (fst g) /\ In x (fst h))).
      - eapply NoDup_map_inv. exact (pg_nodup d p Hg).
      - intros [G rg] HG. destruct (Hnonempty G rg HG) as [x Hx].
        destruct (D6 G rg x (proj1 (in_rev _ _) HG) Hx) as (H & r & HH & HxH).
        exists (H, r). split; [exact HH|]. split; [exact HH|]. exists x. auto.
      - intros [G1 rg1] [G2 rg2] [H r] HG1 HG2 [HH [x1 [Hx1 Hx1H]]] [_ [x2 [Hx2 Hx2H]]]. simpl in *.
        destruct (Hsub H r HH) as (G & rg & s0 & HG & _ & Hall).
        destruct (pg_disj d p Hg G1 rg1 G rg x1 HG1 HG Hx1 (Hall x1 Hx1H)) as [-> ->].
        destruct (pg_disj d p Hg G2 rg2 G rg x2 HG2 HG Hx2 (Hall x2 Hx2H)) as [-> ->]. reflexivity. }
    unfold pequal. apply andb_true_iff. split; [apply andb_true_iff; split|].
    - apply Nat.eqb_eq. lia.
    - apply forallb_forall. intros [H r] Hin. simpl. apply existsb_exists.
      destruct (Hsub H r Hin) as (G & rg & s0 & HG & Hs0 & Hall). exists (G, rg). split; [exact HG|]. simpl.
      apply seteq_sequal; [apply (pr_nodup d p Hreg G rg HG) | apply (D1 H r Hin)|].
      intros x. split; [|apply Hall]. intros HxG.
      assert (E3 : prep pn x = prep pn s0).
      { apply Hsame; try (eapply HstG; eauto).
        rewrite (prep_in d p x G rg Hg HG HxG), (prep_in d p s0 G rg Hg HG (Hall s0 Hs0)). reflexivity. }
      rewrite (prep_in d pn s0 H r Hgn Hin Hs0) in E3.
      destruct (prep_state d pn x Hgn (HstG G rg x HG HxG)) as (H2 & HH2 & HxH2 & _). rewrite E3 in HH2.
      assert (H2 = H) by (eapply D4; eauto). now subst H2.
    - apply Z.eqb_eq. unfold pn in *. rewrite D9, (pr_len d p Hreg). f_equal. lia.
  Qed.

  Lemma round_reg : preg d pn.
  Proof.
    destruct (round_inv p d Hg) as [D1 D2 D3 D4 D5 D6 D7 D8 D9]. split; [exact Hgn| |exact D9].
    intros H r Hin. apply (D1 H r Hin).
  Qed.

  Lemma forallb_false {A} (f : A -> bool) : forall l, forallb f l = false -> exists z, In z l /\ f z = false.
  Proof.
    induction l as [|z r IH]; simpl; intros H; [discriminate|]. apply andb_false_iff in H.
    destruct H as [H|H]; [exists z; auto|]. destruct (IH H) as [z' [H1 H2]]. exists z'. auto.
  Qed.

  Lemma round_decreases : pequal pn p = false -> (mu d pn < mu d p)%nat.
  Proof.
    intros Hneq. unfold mu. rewrite round_no_empty.
    assert (Hle : (Ecount d pn <= Ecount d p)%nat).
    { apply filter_len_le. intros [x y] Hin Hs. apply in_prod_iff in Hin. unfold same in *. simpl in *.
      apply Z.eqb_eq in Hs. apply Z.eqb_eq. now apply refines. }
    destruct (has_empty p) eqn:Ee; [lia|].
    destruct (forallb (fun xy => implb (same p xy) (same pn xy)) (pairs d)) eqn:Ef.
    - exfalso. rewrite same_pequal in Hneq; [discriminate | exact Ee|].
      intros x y Hx Hy Hs. rewrite forallb_forall in Ef.
      specialize (Ef (x, y) (proj2 (in_prod_iff _ _ x y) (conj Hx Hy))). unfold same in Ef. simpl in Ef.
      rewrite Hs, Z.eqb_refl in Ef. simpl in Ef. now apply Z.eqb_eq.
    - destruct (forallb_false _ _ Ef) as [[x y] [Hin Himp]].
      assert (Hlt : (Ecount d pn < Ecount d p)%nat).
      { apply (filter_len_lt (same pn) (same p) (pairs d) (x, y)); auto.
        - intros [x' y'] Hin' Hs. apply in_prod_iff in Hin'. unfold same in *. simpl in *.
          apply Z.eqb_eq in Hs. apply Z.eqb_eq. now apply refines.
        - destruct (same p (x, y)); [reflexivity|]. simpl in Himp. discriminate.
        - destruct (same p (x, y)); destruct (same pn (x, y)); simpl in Himp; congruence. }
      lia.
  Qed.
End Term.

Lemma NoDup_sremove : forall x l, NoDup l -> NoDup (sremove x l).
Proof. intros. unfold sremove. now apply NoDup_filter. Qed.

Lemma NoDup_sdiff : forall b a, NoDup a -> NoDup (sdiff a b).
Proof.
  unfold sdiff. induction b as [|y r IH]; intros a H; simpl; [exact H|]. apply IH. now apply NoDup_sremove.
Qed.

Theorem minimize_partition_total : forall d, NoDup (dfinal d) -> exists p, minimize_partition d = Ok p.
Proof.
  intros d Hnd. unfold minimize_partition.
  apply (run_loop_term_inv (refine_step d) (preg d) (mu d)).
  - intros p Hreg. rewrite refine_step_eq. destruct (pequal (round p d) p) eqn:E; [exact I|].
    split; [now apply round_reg | now apply round_decreases].
  - destruct (initial_partition_groups d) as [Eg En]. split.
    + apply initial_partition_good.
    + intros G r Hin. rewrite Eg in Hin. destruct Hin as [Hin|[Hin|[]]]; inversion Hin; subst; [|exact Hnd].
      apply NoDup_sdiff. apply ssorted_NoDup, dstates_sorted.
    + rewrite Eg, En. reflexivity.
  - unfold mu, minimize_fuel.
    assert (HE : (Ecount d (padd (padd pnew (sdiff (dstates d) (dfinal d))) (dfinal d)) <= length (dstates d) * length (dstates d))%nat).
    { unfold Ecount. etransitivity; [apply (filter_len_le _ (fun _ => true)); auto|].
      assert (Hall : forall (l : list (Z * Z)), filter (fun _ => true) l = l) by (induction l as [|z r IH]; simpl; congruence).
      rewrite Hall. unfold pairs. now rewrite prod_length. }
    rewrite Pos2Nat.inj_add, !Pos2Nat.inj_mul, pos_of_len_nat.
    change (Pos.to_nat 2) with 2%nat. change (Pos.to_nat 3) with 3%nat.
    destruct (has_empty _); nia.
Qed.

(** Minimize terminates and accepts w iff the original does. *)
Theorem minimize_ok : forall d, dwf d -> dfa_ok d -> NoDup (dfinal d) ->
  exists m, minimize d = Ok m /\ dwf m /\ dfa_ok m /\ forall w, daccept m w = daccept d w.
Proof.
  intros d Hwf Hok Hnd. destruct (minimize_partition_total d Hnd) as [p Hp].
  exists (minimize_finish d p). assert (Hm : minimize d = Ok (minimize_finish d p)) by (unfold minimize; now rewrite Hp).
  split; [exact Hm|]. now apply minimize_accept.
Qed.

Lemma dbuild_final_nodup : forall s f adds, NoDup (dfinal (dbuild s f adds)).
Proof.
  intros s f adds. unfold dbuild.
  assert (G : forall adds d, dfinal (fold_left (fun d e => dadd d (fst (fst e)) (snd (fst e)) (snd e)) adds d) = dfinal d).
  { induction adds0 as [|e r IH]; intros d; simpl; [reflexivity|]. now rewrite IH. }
  rewrite G. simpl. apply ssorted_NoDup, ssorted_sof.
Qed.
