(** C13 — Minimize of a trim DFA has the fewest states of any equivalent DFA. *)
From Coq Require Import ZArith List Bool Lia.
From Algo.C13 Require Import Model Spec Lemmas ProofsNFA ProofsDFA ProofsElim ProofsSubset ProofsSubsetTerm
  ProofsMinQuot ProofsMinRound.
Import ListNotations.
Open Scope Z_scope.

(** acceptance from an arbitrary state *)
Definition acc_from (d : dfa) (x : Z) (w : list Z) : bool := smem (drun d x w) (dfinal d).

Lemma acc_from_start : forall d w, acc_from d (dstart d) w = daccept d w.
Proof. reflexivity. Qed.

Lemma acc_from_cons : forall d x a w, acc_from d x (a :: w) = acc_from d (dnext d x a) w.
Proof. reflexivity. Qed.

Lemma acc_from_dead : forall d w, dfa_ok d -> acc_from d (-1) w = false.
Proof.
  intros d w Hok. unfold acc_from. rewrite drun_dead by exact Hok. apply smem_false.
  destruct Hok as (_ & Hf & _). rewrite Forall_forall in Hf. intros H. specialize (Hf _ H). lia.
Qed.

Lemma acc_from_ok : forall d x w, dfa_ok d -> 0 <= x ->
  (acc_from d x w = true <-> exists f, In f (dfinal d) /\ dpath d x w f).
Proof.
  intros d x w Hok Hx. unfold acc_from. rewrite smem_In. split.
  - intros H. exists (drun d x w). split; [exact H|]. apply drun_dpath; [exact Hok | reflexivity|].
    destruct Hok as (_ & Hf & _). rewrite Forall_forall in Hf. specialize (Hf _ H). lia.
  - intros [f [Hf Hp]]. apply dpath_drun in Hp; [|exact Hok]. now rewrite Hp.
Qed.

Lemma drun_app : forall d x u v, drun d x (u ++ v) = drun d (drun d x u) v.
Proof. intros. unfold drun. apply fold_left_app. Qed.

(** ** same signature, same new group *)
Lemma round_same : forall p d, dwf d -> pgood d p ->
  forall G rg x y H r H' r', In (G, rg) (pgroups p) -> In x G -> In y G ->
    sigeq (sig p d x) (sig p d y) = true ->
    In (H, r) (pgroups (round p d)) -> In (H', r') (pgroups (round p d)) -> In x H -> In y H' ->
    H = H' /\ r = r'.
Proof.
  intros p d Hwf Hg G rg x y H r H' r' HG Hx Hy Hxy HinH HinH' HxH HyH'.
  destruct (round_inv p d Hg) as [D1 D2 D3 D4 D5 D6 D7 D8 D9].
  assert (Hcre : forall K rk z, In (K, rk) (pgroups (round p d)) -> In z K -> In z G ->
     exists s1, In s1 K /\ In s1 G /\ sigeq (sig p d s1) (sig p d z) = true /\
       forall u sg, In (u, sg) (tl (build_group_trans p d G)) -> sigeq (sig p d s1) sg = true -> In u K).
  { intros K rk z HinK HzK HzG.
    destruct (D1 K rk HinK) as [_ (Ga & rga & s0 & Hda & Hs0 & Hall)]. apply in_rev in Hda.
    destruct (pg_disj d p Hg G rg Ga rga z HG Hda HzG (proj1 (Hall z HzK))) as [<- <-].
    destruct (D7 K rk HinK) as (Gb & rgb & s1 & Hdb & Hs1K & Hs1G & Hfull). apply in_rev in Hdb.
    destruct (pg_disj d p Hg G rg Gb rgb s1 HG Hdb (proj1 (Hall s1 Hs1K)) Hs1G) as [<- <-].
    exists s1. split; [exact Hs1K|]. split; [exact Hs1G|]. split; [|exact Hfull].
    apply (sigeq_trans _ (sig p d s0)); try apply sig_nodup.
    - rewrite sigeq_sym. apply (Hall s1 Hs1K).
    - apply (Hall z HzK). }
  destruct (Hcre H r x HinH HxH Hx) as (s1 & Hs1H & Hs1G & Es1 & Hfull1).
  destruct (Hcre H' r' y HinH' HyH' Hy) as (s2 & Hs2H & Hs2G & Es2 & Hfull2).
  assert (E12 : sigeq (sig p d s1) (sig p d s2) = true).
  { apply (sigeq_trans _ (sig p d x)); try apply sig_nodup; [exact Es1|].
    apply (sigeq_trans _ (sig p d y)); try apply sig_nodup; [exact Hxy|]. now rewrite sigeq_sym. }
  assert (Hg1 : In (s1, sig p d s1) (build_group_trans p d G)) by (apply bgt_In; auto).
  assert (Hg2 : In (s2, sig p d s2) (build_group_trans p d G)) by (apply bgt_In; auto).
  destruct (build_group_trans p d G) as [|e0 gt'] eqn:Egt; [destruct Hg1|]. simpl in *.
  destruct Hg2 as [Hg2|Hg2].
  - destruct Hg1 as [Hg1|Hg1].
    + (* both creators are the first entry *)
      assert (s1 = s2) by congruence. subst s2. eapply D2; eauto.
    + assert (In s1 H') by (apply (Hfull2 s1 (sig p d s1) Hg1); now rewrite sigeq_sym).
      eapply D2; eauto.
  - assert (In s2 H) by (apply (Hfull1 s2 (sig p d s2) Hg2); exact E12).
    eapply D2; eauto.
Qed.

(** ** groups of the refined partition separate only distinguishable states *)
Definition pdist (d : dfa) (p : partition) : Prop :=
  forall x y, In x (dstates d) -> In y (dstates d) -> prep p x <> prep p y ->
    exists w, acc_from d x w <> acc_from d y w.

Definition all_coreachable (d : dfa) : Prop :=
  forall x, In x (dstates d) -> exists w, acc_from d x w = true.

Lemma sigeq_false : forall a b, NoDup (map fst a) -> NoDup (map fst b) -> sigeq a b = false ->
  exists k, aget k a <> aget k b.
Proof.
  intros a b Ha Hb H. unfold sigeq, aequal in H. apply andb_false_iff in H.
  assert (G : forall a b, NoDup (map fst a) -> aincl Z.eqb a b = false -> exists k, aget k a <> aget k b).
  { intros a0 b0 Ha0 Hf. unfold aincl in Hf.
    assert (Hex : exists kv, In kv a0 /\ (match aget (fst kv) b0 with Some v' => snd kv =? v' | None => false end) = false).
    { clear Ha0. induction a0 as [|e r IH]; simpl in Hf; [discriminate|]. apply andb_false_iff in Hf.
      destruct Hf as [Hf|Hf]; [exists e; split; [now left | exact Hf]|].
      destruct (IH Hf) as [kv [H1 H2]]. exists kv. split; [now right | exact H2]. }
    destruct Hex as [[k v] [Hin Hf']]. simpl in Hf'. exists k. rewrite (In_aget k v a0 Ha0 Hin).
    destruct (aget k b0) as [v'|]; [|discriminate]. apply Z.eqb_neq in Hf'. congruence. }
  destruct H as [H|H]; [now apply G|]. destruct (G b a Hb H) as [k Hk]. exists k. congruence.
Qed.

Lemma pdist_init : forall d, pdist d (padd (padd pnew (sdiff (dstates d) (dfinal d))) (dfinal d)).
Proof.
  intros d x y Hx Hy Hne. pose proof (initial_partition_good d) as Hg.
  destruct (initial_partition_groups d) as [Eg _].
  exists []. unfold acc_from. simpl. intros Heq. apply Hne.
  assert (Hfin : In x (dfinal d) <-> In y (dfinal d)) by (rewrite <- !smem_In, Heq; reflexivity).
  destruct (in_dec Z.eq_dec x (dfinal d)) as [Hxf|Hxf].
  - rewrite (prep_in d _ x (dfinal d) 1 Hg), (prep_in d _ y (dfinal d) 1 Hg); auto; try tauto; rewrite Eg; right; now left.
  - rewrite (prep_in d _ x (sdiff (dstates d) (dfinal d)) 0 Hg), (prep_in d _ y (sdiff (dstates d) (dfinal d)) 0 Hg); auto;
      try (rewrite Eg; now left); apply In_sdiff; tauto.
Qed.

Lemma dnext_edge_or_dead : forall d x a, dnext d x a = -1 \/ dedge d x a (dnext d x a).
Proof.
  intros d x a. destruct (Z.eq_dec (dnext d x a) (-1)) as [H|H]; [now left|]. right. now apply dnext_dedge.
Qed.

Lemma pdist_round : forall p d, dwf d -> dfa_ok d -> pgood d p -> all_coreachable d -> pdist d p -> pdist d (round p d).
Proof.
  intros p d Hwf Hok Hg Hco Hd x y Hx Hy Hne.
  pose proof (round_good p d Hg) as Hg'.
  destruct (Z.eq_dec (prep p x) (prep p y)) as [Hsame|Hdiff]; [|now apply Hd].
  destruct (prep_state d p x Hg Hx) as (G & HG & HxG & _). destruct (prep_state d p y Hg Hy) as (G' & HG' & HyG' & _).
  rewrite <- Hsame in HG'. assert (G' = G) by (eapply (pg_reps d p Hg); eauto). subst G'.
  destruct (prep_state d _ x Hg' Hx) as (H & HH & HxH & _). destruct (prep_state d _ y Hg' Hy) as (H' & HH' & HyH' & _).
  destruct (sigeq (sig p d x) (sig p d y)) eqn:Es.
  - exfalso. apply Hne. eapply (round_same p d Hwf Hg G _ x y H _ H' _); eauto.
  - destruct (sigeq_false _ _ (sig_nodup p d x) (sig_nodup p d y) Es) as [a Ha].
    assert (Hcase : forall u v, In u (dstates d) -> In v (dstates d) ->
        forall r1, aget a (sig p d u) = Some r1 -> aget a (sig p d v) <> Some r1 ->
        exists w, acc_from d u w <> acc_from d v w).
    { intros u v Hu Hv r1 Hr1 Hr2. apply sig_get in Hr1; auto. destruct Hr1 as [t1 [He1 Hp1]].
      assert (Hn1 : dnext d u a = t1).
      { apply dnext_dedge; [|exact He1]. destruct Hok as (_ & _ & O). destruct (O _ _ _ He1). lia. }
      destruct (dnext_edge_or_dead d v a) as [Hdead|He2].
      - destruct (Hco t1 (proj2 (dedge_in_dstates d u a t1 He1))) as [w Hw]. exists (a :: w).
        rewrite !acc_from_cons, Hn1, Hdead, Hw, acc_from_dead by exact Hok. discriminate.
      - set (t2 := dnext d v a) in *.
        assert (Hp2 : prep p t2 <> r1).
        { intros Heq. apply Hr2. apply sig_get; auto. exists t2. auto. }
        destruct (Hd t1 t2 (proj2 (dedge_in_dstates d u a t1 He1)) (proj2 (dedge_in_dstates d v a t2 He2))) as [w Hw]; [congruence|].
        exists (a :: w). rewrite !acc_from_cons, Hn1. exact Hw. }
    destruct (aget a (sig p d x)) as [r1|] eqn:E1.
    + apply (Hcase x y Hx Hy r1 E1). congruence.
    + destruct (aget a (sig p d y)) as [r2|] eqn:E2; [|congruence].
      destruct (Hcase y x Hy Hx r2 E2) as [w Hw]; [congruence|]. exists w. congruence.
Qed.

(** ** no empty group survives *)
Lemma inj_count {A B} (R : A -> B -> Prop) : forall (l1 : list A) (l2 : list B),
  NoDup l1 -> (forall a, In a l1 -> exists b, In b l2 /\ R a b) ->
  (forall a a' b, In a l1 -> In a' l1 -> R a b -> R a' b -> a = a') ->
  (length l1 <= length l2)%nat.
Proof.
  induction l1 as [|a l1 IH]; intros l2 Hnd Hex Hinj; simpl; [lia|].
  inversion Hnd as [|? ? Hni Hnd']; subst.
  destruct (Hex a (or_introl eq_refl)) as [b [Hb HR]].
  apply in_split in Hb. destruct Hb as [la [lb ->]].
  assert (length l1 <= length (la ++ lb))%nat.
  { apply IH; [exact Hnd'| |].
    - intros a' Ha'. destruct (Hex a' (or_intror Ha')) as [b' [Hb' HR']].
      exists b'. split; [|exact HR']. apply in_app_or in Hb'. apply in_or_app.
      destruct Hb' as [Hb'|[Hb'|Hb']]; [now left| |now right].
      subst b'. exfalso. apply Hni. rewrite (Hinj a a' b); auto. now left. now right.
    - intros a1 a2 b0 H1 H2. apply Hinj; now right. }
  rewrite app_length in *. simpl. lia.
Qed.

Lemma done_nonempty : forall p d, pgood d p -> pequal (round p d) p = true ->
  forall G r, In (G, r) (pgroups p) -> G <> [].
Proof.
  intros p d Hg He G r HG HGe. subst G.
  unfold pequal in He. apply andb_true_iff in He. destruct He as [He _].
  apply andb_true_iff in He. destruct He as [Hlen Hall]. apply Nat.eqb_eq in Hlen. rewrite forallb_forall in Hall.
  destruct (round_inv p d Hg) as [D1 D2 D3 D4 D5 D6 D7 D8 D9].
  apply in_split in HG. destruct HG as [la [lb Hsplit]].
  assert (Hle : (length (pgroups (round p d)) <= length (la ++ lb))%nat).
  { apply (inj_count (fun (h : list Z * Z) (g : list Z * Z) => sequal (fst g) (fst h) = true /\ fst g <> [])).
    - eapply NoDup_map_inv. exact D8.
    - intros [H rh] Hin. specialize (Hall _ Hin). simpl in Hall. apply existsb_exists in Hall.
      destruct Hall as [[G' r'] [HG' Hse]]. simpl in Hse.
      assert (HG'ne : G' <> []).
      { intros ->. destruct (D7 H rh Hin) as (_ & _ & s0 & _ & Hs0 & _). unfold sequal in Hse. simpl in Hse.
        destruct H; [destruct Hs0 | discriminate]. }
      exists (G', r'). split; [|split; assumption]. rewrite Hsplit in HG'. apply in_app_or in HG'. apply in_or_app.
      destruct HG' as [HG'|[HG'|HG']]; [now left | inversion HG'; congruence | now right].
    - intros [H1 r1] [H2 r2] [G' r'] Hin1 Hin2 [Hs1 Hn1] [Hs2 _]. simpl in *.
      destruct G' as [|z G'']; [congruence|].
      assert (Hz1 : In z H1).
      { unfold sequal in Hs1. apply andb_true_iff in Hs1. destruct Hs1 as [_ Hs1]. rewrite forallb_forall in Hs1.
        apply smem_In, Hs1. now left. }
      assert (Hz2 : In z H2).
      { unfold sequal in Hs2. apply andb_true_iff in Hs2. destruct Hs2 as [_ Hs2]. rewrite forallb_forall in Hs2.
        apply smem_In, Hs2. now left. }
      destruct (D2 H1 r1 H2 r2 z Hin1 Hin2 Hz1 Hz2) as [-> ->]. reflexivity. }
  rewrite Hlen, Hsplit, !app_length in Hle. simpl in Hle. lia.
Qed.

(** ** the loop, with the distinguishability invariant *)
Theorem minimize_partition_spec2 : forall d p, dwf d -> dfa_ok d -> all_coreachable d ->
  minimize_partition d = Ok p ->
  pgood d p /\ pstable d p /\ pdist d p /\ (forall G r, In (G, r) (pgroups p) -> G <> []).
Proof.
  intros d p Hwf Hok Hco H. unfold minimize_partition in H.
  apply (run_loop_inv (refine_step d) (fun p => pgood d p /\ pdist d p)
           (fun p => pgood d p /\ pstable d p /\ pdist d p /\ (forall G r, In (G, r) (pgroups p) -> G <> []))) in H; auto.
  - intros q [Hq Hdq]. rewrite refine_step_eq. destruct (pequal (round q d) q) eqn:E.
    + split; [exact Hq|]. split; [now apply round_stable|]. split; [exact Hdq|]. now apply (done_nonempty q d).
    + split; [now apply round_good | now apply pdist_round].
  - split; [apply initial_partition_good | apply pdist_init].
Qed.

Lemma dstates_sorted : forall d, ssorted (dstates d).
Proof.
  intros d. rewrite dstates_eq.
  assert (G : forall l init, ssorted init ->
     ssorted (fold_left (fun st (sx : Z * (Z * Z)) => sadd (snd (snd sx)) (sadd (fst sx) st)) l init)).
  { induction l as [|e r IH]; intros init Hi; simpl; [exact Hi|]. apply IH. now apply ssorted_sadd, ssorted_sadd. }
  apply G. unfold sunion. apply ssorted_sadd_all, ssorted_sof.
Qed.

Lemma dstates_char : forall d x, dwf d ->
  (In x (dstates d) <-> x = dstart d \/ In x (dfinal d) \/ exists s a t, dedge d s a t /\ (x = s \/ x = t)).
Proof.
  intros d x Hwf. rewrite dstates_eq, dstates_fold, In_sunion, In_sof. simpl. split.
  - intros [[[H|[]]|H]|(s & a & t & H1 & H2)]; [auto | auto |].
    right. right. exists s, a, t. split; [now apply dedge_entries | exact H2].
  - intros [H|[H|(s & a & t & H1 & H2)]]; [auto | auto |].
    right. exists s, a, t. split; [now apply dedge_entries | exact H2].
Qed.

Lemma drun_in_dstates : forall d x u, dfa_ok d -> In x (dstates d) -> drun d x u <> -1 -> In (drun d x u) (dstates d).
Proof.
  intros d x u Hok Hx Hne. assert (Hp : dpath d x u (drun d x u)) by (apply drun_dpath; auto).
  clear Hne. induction Hp as [x|x a t y w He Hp IH]; [exact Hx|]. apply IH. apply (dedge_in_dstates d x a t He).
Qed.

Definition all_reachable (d : dfa) : Prop :=
  forall x, In x (dstates d) -> exists u, dpath d (dstart d) u x.

Section Minimal.
  Variables (d : dfa) (p : partition).
  Hypothesis Hwf : dwf d.
  Hypothesis Hok : dfa_ok d.
  Hypothesis Hreach : all_reachable d.
  Hypothesis Hco : all_coreachable d.
  Hypothesis Hg : pgood d p.
  Hypothesis Hst : pstable d p.
  Hypothesis Hdist : pdist d p.
  Hypothesis Hne : forall G r, In (G, r) (pgroups p) -> G <> [].

  Let M := minimize_finish d p.
  Let HokM : dfa_ok M := min_ok d p Hwf Hg.
  Let HwfM : dwf M := min_wf d p.

  Lemma m_states : forall g, In g (dstates M) -> exists x, In x (dstates d) /\ prep p x = g.
  Proof.
    intros g Hgin. apply (dstates_char M g HwfM) in Hgin. destruct Hgin as [->|[Hf|(s & a & t & He & Hc)]].
    - exists (dstart d). split; [apply dstart_in_dstates | symmetry; apply (min_start d p)].
    - apply (min_final d p) in Hf. destruct Hf as [f [Hf ->]]. exists f. split; [now apply dfinal_in_dstates | reflexivity].
    - apply (min_edges d p Hwf Hg) in He. destruct He as (G & t0 & HG & He0 & ->). destruct Hc as [->| ->].
      + destruct G as [|x G'] eqn:EG; [exfalso; eapply Hne; eauto|].
        exists x. split; [eapply (pg_sub d p Hg); eauto; now left | eapply prep_in; eauto; now left].
      + exists t0. split; [apply (dedge_in_dstates d _ a t0 He0) | reflexivity].
  Qed.

  Lemma m_acc_from : forall x w, In x (dstates d) -> acc_from M (prep p x) w = acc_from d x w.
  Proof.
    intros x w Hx. destruct (prep_state d p x Hg Hx) as (G & HG & HxG & Hnn).
    assert (Hx0 : 0 <= x).
    { apply (dstates_char d x Hwf) in Hx. destruct Hok as (O1 & O2 & O3).
      destruct Hx as [->|[Hf|(s & a & t & He & [->| ->])]]; [exact O1| |apply (O3 _ _ _ He)|apply (O3 _ _ _ He)].
      rewrite Forall_forall in O2. now apply O2. }
    apply Bool.eq_true_iff_eq. rewrite (acc_from_ok M _ w HokM Hnn), (acc_from_ok d x w Hok Hx0). split.
    - intros [y [Hy Hp]]. apply (min_final d p) in Hy. destruct Hy as [f' [Hf' ->]].
      destruct (q_path_bwd d p Hwf Hg Hst _ _ _ Hp x Hx eq_refl) as (f & Hpf & Hrf & Hfs).
      exists f. split; [|exact Hpf].
      destruct (prep_state d p f Hg Hfs) as (Gf & Hin & HfG & _).
      destruct (prep_state d p f' Hg (dfinal_in_dstates d f' Hf')) as (G' & Hin' & HfG' & _).
      rewrite Hrf in Hin. assert (Gf = G') by (eapply (pg_reps d p Hg); eauto). subst G'.
      apply (pg_homog d p Hg Gf _ f' f Hin' HfG' HfG). exact Hf'.
    - intros [f [Hf Hp]]. exists (prep p f). split; [apply (min_final d p); eauto|].
      now apply (q_path_fwd d p Hwf Hg Hst).
  Qed.

  Theorem minimal_count : forall D', dfa_ok D' -> (forall w, daccept D' w = daccept d w) ->
    (length (dstates M) <= length (dstates D'))%nat.
  Proof.
    intros D' HokD' Heq.
    assert (HeqM : forall w, daccept D' w = daccept M w) by (intros w; rewrite Heq; symmetry; now apply quotient_accept).
    apply (inj_count (fun g h => exists u, dpath M (dstart M) u g /\ drun D' (dstart D') u = h)).
    - apply ssorted_NoDup, dstates_sorted.
    - intros g Hgin. destruct (m_states g Hgin) as [x [Hx <-]]. destruct (Hreach x Hx) as [u Hu].
      assert (HuM : dpath M (dstart M) u (prep p x)).
      { replace (dstart M) with (prep p (dstart d)) by (symmetry; apply (min_start d p)).
        apply (q_path_fwd d p Hwf Hg Hst); [exact Hu | apply dstart_in_dstates]. }
      exists (drun D' (dstart D') u). split; [|eauto].
      apply drun_in_dstates; [exact HokD' | apply dstart_in_dstates|].
      destruct (Hco x Hx) as [v Hv]. intros Hdead.
      assert (Hacc : daccept D' (u ++ v) = true).
      { rewrite HeqM. unfold daccept. rewrite drun_app, (dpath_drun M HokM _ _ _ HuM).
        fold (acc_from M (prep p x) v). now rewrite m_acc_from. }
      unfold daccept in Hacc. rewrite drun_app, Hdead in Hacc. fold (acc_from D' (-1) v) in Hacc.
      rewrite acc_from_dead in Hacc by exact HokD'. discriminate.
    - intros g g' h Hgin Hgin' [u [Hu Hh]] [u' [Hu' Hh']].
      destruct (m_states g Hgin) as [x [Hx Hrx]]. destruct (m_states g' Hgin') as [x' [Hx' Hrx']].
      destruct (Z.eq_dec g g') as [|Hneq]; [assumption|]. exfalso.
      destruct (Hdist x x' Hx Hx') as [v Hv]; [congruence|]. apply Hv.
      rewrite <- (m_acc_from x v Hx), <- (m_acc_from x' v Hx'), Hrx, Hrx'.
      assert (E1 : daccept M (u ++ v) = acc_from M g v).
      { unfold daccept, acc_from. now rewrite drun_app, (dpath_drun M HokM _ _ _ Hu). }
      assert (E2 : daccept M (u' ++ v) = acc_from M g' v).
      { unfold daccept, acc_from. now rewrite drun_app, (dpath_drun M HokM _ _ _ Hu'). }
      rewrite <- E1, <- E2, <- !HeqM. unfold daccept. now rewrite !drun_app, Hh, Hh'.
  Qed.
End Minimal.

(** Minimize of a DFA without unreachable or dead states has the fewest states of any DFA
    accepting the same language. *)
Theorem minimize_minimal : forall d m, dwf d -> dfa_ok d -> all_reachable d -> all_coreachable d ->
  minimize d = Ok m ->
  forall D', dfa_ok D' -> (forall w, daccept D' w = daccept d w) ->
    (length (dstates m) <= length (dstates D'))%nat.
Proof.
  intros d m Hwf Hok Hr Hc H D' HokD' Heq. unfold minimize in H.
  destruct (minimize_partition d) as [p|] eqn:E; [|discriminate]. simpl in H. inversion H; subst.
  destruct (minimize_partition_spec2 d p Hwf Hok Hc E) as (Hg & Hst & Hd & Hne).
  now apply (minimal_count d p Hwf Hok Hr Hc Hg Hst Hd Hne).
Qed.
