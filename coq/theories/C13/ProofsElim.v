(** C13 — EliminateDeadStates preserves the language. *)
From Coq Require Import ZArith List Bool Lia.
From Algo.C13 Require Import Model Spec Lemmas ProofsNFA ProofsDFA.
Import ListNotations.
Open Scope Z_scope.

(** ** generic worklist closure (the shape shared by εClosure, the dfs of EliminateDeadStates
    and the reachability used by the trim predicate) *)
Definition wl_step (succ : Z -> list Z) (st : list Z * list Z) : step_res (list Z * list Z) (list Z) :=
  match fst st with
  | [] => Done (snd st)
  | t :: rest => More (fold_left push_new (succ t) (rest, snd st))
  end.

Lemma reach_step_wl : forall adj st, reach_step adj st = wl_step (fun s => aget_or [] s adj) st.
Proof. reflexivity. Qed.

Lemma wl_closed : forall succ p stack0 C0 C,
  (forall x, In x stack0 -> In x C0) ->
  (forall x, In x C0 -> ~ In x stack0 -> forall y, In y (succ x) -> In y C0) ->
  run_loop p (wl_step succ) (stack0, C0) = Ok C ->
  (forall x, In x C0 -> In x C) /\ (forall x y, In x C -> In y (succ x) -> In y C).
Proof.
  intros succ p stack0 C0 C Hs Hc H.
  set (Inv := fun st : list Z * list Z =>
     (forall x, In x C0 -> In x (snd st)) /\
     (forall x, In x (fst st) -> In x (snd st)) /\
     (forall x, In x (snd st) -> ~ In x (fst st) -> forall y, In y (succ x) -> In y (snd st))).
  apply (run_loop_inv (wl_step succ) Inv
           (fun C => (forall x, In x C0 -> In x C) /\ (forall x y, In x C -> In y (succ x) -> In y C)))
    with (p := p) (s := (stack0, C0)); [|split; [auto | split; auto]|exact H].
  intros [st C1] (Ha & Hb & Hd). unfold wl_step. simpl in *. destruct st as [|t rest].
  - split; [exact Ha|]. intros x y Hx Hy. eapply Hd; eauto.
  - destruct (push_new_fold (succ t) rest C1) as [H1 H2]. split; [|split].
    + intros x Hx. apply H1. left. auto.
    + intros x Hx. apply H2 in Hx. apply H1. destruct Hx as [Hx|[Hx _]]; [|now right]. left. apply Hb. now right.
    + intros x Hx Hnx y Hy. apply H1.
      destruct (Z.eq_dec x t) as [->|Hne]; [now right|].
      destruct (in_dec Z.eq_dec x C1) as [Hc'|Hc'].
      * left. apply (Hd x Hc'); [|exact Hy]. intros [Heq|Hin]; [congruence|]. apply Hnx. apply H2. now left.
      * exfalso. apply Hnx. apply H2. right. split; [|exact Hc'].
        apply H1 in Hx. destruct Hx; [contradiction|assumption].
Qed.

Lemma wl_term : forall succ U p stack0 C0,
  (forall x y, In y (succ x) -> In y U) ->
  (length stack0 + unm U C0 < Pos.to_nat p)%nat ->
  exists C, run_loop p (wl_step succ) (stack0, C0) = Ok C.
Proof.
  intros succ U p stack0 C0 HU Hm.
  apply (run_loop_term (wl_step succ) (fun st => (length (fst st) + unm U (snd st))%nat)); [|exact Hm].
  intros [st C] s'. unfold wl_step. simpl. destruct st as [|t rest]; [discriminate|].
  intros H. inversion H; subst. clear H.
  pose proof (push_new_measure U (succ t) rest C (HU t)) as Hp. simpl. lia.
Qed.

(** ** states() of a DFA contains every endpoint and every final state *)
Lemma dstates_eq : forall d,
  dstates d = fold_left (fun st (sx : Z * (Z * Z)) => sadd (snd (snd sx)) (sadd (fst sx) st))
                (entries (dtrans d)) (sunion (sof [dstart d]) (dfinal d)).
Proof.
  intros d. unfold dstates.
  exact (fold_nested (fun st (s : Z) (x : Z * Z) => sadd (snd x) (sadd s st)) (dtrans d) _).
Qed.

Lemma dstates_fold : forall l init x,
  In x (fold_left (fun st (sx : Z * (Z * Z)) => sadd (snd (snd sx)) (sadd (fst sx) st)) l init)
  <-> In x init \/ exists s a t, In (s, (a, t)) l /\ (x = s \/ x = t).
Proof.
  induction l as [|[s0 [a0 t0]] r IH]; intros init x; simpl.
  - split; [auto|]. intros [H|(s & a & t & [] & _)]. exact H.
  - rewrite IH, !In_sadd. split.
    + intros [[->|[->|H]]|(s & a & t & H1 & H2)]; [| |auto|].
      * right. exists s0, a0, t0. auto.
      * right. exists s0, a0, t0. auto.
      * right. exists s, a, t. auto.
    + intros [H|(s & a & t & [H1|H1] & H2)]; [auto| |].
      * inversion H1; subst. left. destruct H2 as [->| ->]; auto.
      * right. exists s, a, t. auto.
Qed.

Lemma dedge_in_dstates : forall d s a t, dedge d s a t -> In s (dstates d) /\ In t (dstates d).
Proof.
  intros d s a t [row [H1 H2]]. rewrite dstates_eq.
  assert (Hin : In (s, (a, t)) (entries (dtrans d))) by (apply In_entries; exists row; split; now apply aget_In).
  split; apply dstates_fold; right; exists s, a, t; auto.
Qed.

Lemma dfinal_in_dstates : forall d f, In f (dfinal d) -> In f (dstates d).
Proof. intros. rewrite dstates_eq. apply dstates_fold. left. apply In_sunion. now right. Qed.

Lemma dstart_in_dstates : forall d, In (dstart d) (dstates d).
Proof. intros. rewrite dstates_eq. apply dstates_fold. left. apply In_sunion. left. apply In_sof. now left. Qed.

(** ** the reversed graph *)
Lemma radj_eq : forall d,
  radj d = aput (-1) (dfinal d)
             (fold_left (fun adj (sx : Z * (Z * Z)) =>
                 aput (snd (snd sx)) (sadd (fst sx) (aget_or [] (snd (snd sx)) adj)) adj) (entries (dtrans d)) []).
Proof.
  intros d. unfold radj. f_equal.
  exact (fold_nested (fun adj (s : Z) (x : Z * Z) => aput (snd x) (sadd s (aget_or [] (snd x) adj)) adj) (dtrans d) []).
Qed.

Lemma radj_fold : forall l adj t s,
  In s (aget_or [] t (fold_left (fun adj (sx : Z * (Z * Z)) =>
           aput (snd (snd sx)) (sadd (fst sx) (aget_or [] (snd (snd sx)) adj)) adj) l adj))
  <-> In s (aget_or [] t adj) \/ exists a, In (s, (a, t)) l.
Proof.
  induction l as [|[s0 [a0 t0]] r IH]; intros adj t s; simpl.
  - split; [auto|]. intros [H|[a []]]. exact H.
  - rewrite IH. unfold aget_or at 1. destruct (Z.eq_dec t0 t) as [->|Hne].
    + rewrite aget_aput_eq, In_sadd. split.
      * intros [[->|H]|[a H]]; [right; exists a0; now left | auto | right; exists a; now right].
      * intros [H|[a [H|H]]]; [auto | inversion H; subst; auto | right; eauto].
    + rewrite aget_aput_ne by exact Hne. fold (aget_or [] t adj). split.
      * intros [H|[a H]]; [auto | right; exists a; now right].
      * intros [H|[a [H|H]]]; [auto | inversion H; congruence | right; eauto].
Qed.

Lemma radj_values : forall d t s, In s (aget_or [] t (radj d)) -> In s (dstates d).
Proof.
  intros d t s. rewrite radj_eq. unfold aget_or at 1. destruct (Z.eq_dec (-1) t) as [<-|Hne].
  - rewrite aget_aput_eq. apply dfinal_in_dstates.
  - rewrite aget_aput_ne by exact Hne.
    intros H. apply (radj_fold (entries (dtrans d)) [] t s) in H. destruct H as [[]|[a H]].
    rewrite dstates_eq. apply dstates_fold. right. exists s, a, t. auto.
Qed.

Lemma radj_final : forall d f, In f (dfinal d) -> In f (aget_or [] (-1) (radj d)).
Proof. intros d f H. rewrite radj_eq. unfold aget_or. now rewrite aget_aput_eq. Qed.

Lemma radj_edge : forall d s a t, dedge d s a t -> t <> -1 -> In s (aget_or [] t (radj d)).
Proof.
  intros d s a t [row [H1 H2]] Ht. rewrite radj_eq. unfold aget_or at 1. rewrite aget_aput_ne by congruence.
  apply (radj_fold (entries (dtrans d)) [] t s). right. exists a. apply In_entries. exists row. split; now apply aget_In.
Qed.

(** ** dead states *)
Definition coreachable (d : dfa) (x : Z) : Prop := exists w f, dpath d x w f /\ In f (dfinal d).

Lemma dead_states_ok : forall d, dfa_ok d ->
  exists deads, dead_states d = Ok deads /\ forall x, coreachable d x -> ~ In x deads.
Proof.
  intros d Hok. unfold dead_states.
  destruct (wl_term (fun s => aget_or [] s (radj d)) (dstates d)
              (pos_of_len (dstates d) + pos_of_len (dstates d) + 3)%positive [-1] [-1]) as [V HV].
  - intros x y Hy. eapply radj_values; eauto.
  - rewrite !Pos2Nat.inj_add, !pos_of_len_nat. pose proof (unm_le_length (dstates d) [-1]). simpl. lia.
  - assert (HV' : run_loop (pos_of_len (dstates d) + pos_of_len (dstates d) + 3) (reach_step (radj d)) ([-1], [-1]) = Ok V) by exact HV.
    rewrite HV'. simpl. eexists. split; [reflexivity|].
    destruct (wl_closed _ _ _ _ _ (fun x H => H) (fun x H1 H2 => False_ind _ (H2 H1)) HV) as [Hinit Hcl].
    intros x (w & f & Hp & Hf) Hin. apply (proj1 (In_sof _ _)) in Hin. apply filter_In in Hin. destruct Hin as [_ Hnv].
    apply negb_true_iff in Hnv. apply smem_false in Hnv. apply Hnv. clear Hnv.
    destruct Hok as (_ & _ & Hedge).
    induction Hp as [x|x a t u w He Hp IH].
    + apply (Hcl (-1)); [apply Hinit; now left | now apply radj_final].
    + apply (Hcl t); [now apply IH|]. eapply radj_edge; [exact He|]. destruct (Hedge _ _ _ He). lia.
Qed.

(** ** the filtered copy *)
Lemma fold_filter_dadd : forall (c : Z * (Z * Z) -> bool) l init,
  fold_left (fun acc sx => if c sx then dadd acc (fst sx) (fst (snd sx)) (snd (snd sx)) else acc) l init =
  fold_left (fun acc (sx : Z * (Z * Z)) => dadd acc (fst sx) (fst (snd sx)) (snd (snd sx))) (filter c l) init.
Proof.
  intros c. induction l as [|e r IH]; intros init; simpl; [reflexivity|].
  destruct (c e); simpl; apply IH.
Qed.

Lemma elim_dead_eq : forall d deads,
  fold_left (fun acc e =>
     fold_left (fun acc2 at_ =>
        if negb (smem (fst e) deads) && negb (smem (snd at_) deads)
        then dadd acc2 (fst e) (fst at_) (snd at_) else acc2) (snd e) acc)
    (dtrans d) (mkDFA (dstart d) (dfinal d) []) =
  fold_left (fun acc (sx : Z * (Z * Z)) => dadd acc (fst sx) (fst (snd sx)) (snd (snd sx)))
    (filter (fun sx => negb (smem (fst sx) deads) && negb (smem (snd (snd sx)) deads)) (entries (dtrans d)))
    (mkDFA (dstart d) (dfinal d) []).
Proof.
  intros d deads.
  rewrite (fold_nested (fun acc (s : Z) (x : Z * Z) =>
             if negb (smem s deads) && negb (smem (snd x) deads) then dadd acc s (fst x) (snd x) else acc) (dtrans d) _).
  apply (fold_filter_dadd (fun sx => negb (smem (fst sx) deads) && negb (smem (snd (snd sx)) deads))).
Qed.

Theorem elim_dead_ok : forall d, dwf d -> dfa_ok d ->
  exists r, elim_dead d = Ok r /\ dwf r /\ dfa_ok r /\ dstart r = dstart d /\ dfinal r = dfinal d /\
            (forall s a t, dedge r s a t -> dedge d s a t) /\
            forall w, daccept r w = daccept d w.
Proof.
  intros d Hw Hok. unfold elim_dead. destruct (dead_states_ok d Hok) as [deads [E Hdead]]. rewrite E. simpl.
  eexists. split; [reflexivity|]. rewrite elim_dead_eq.
  set (c := fun sx : Z * (Z * Z) => negb (smem (fst sx) deads) && negb (smem (snd (snd sx)) deads)).
  destruct (fold_dadd_start_final (filter c (entries (dtrans d))) (mkDFA (dstart d) (dfinal d) [])) as (H1 & H2 & H3).
  remember (fold_left (fun acc (sx : Z * (Z * Z)) => dadd acc (fst sx) (fst (snd sx)) (snd (snd sx)))
              (filter c (entries (dtrans d))) (mkDFA (dstart d) (dfinal d) [])) as r eqn:Er.
  assert (Hef : efun (filter c (entries (dtrans d)))).
  { intros s a t t' G1 G2. apply filter_In in G1, G2. eapply (efun_entries d Hw); [apply G1 | apply G2]. }
  assert (He : forall s a t, dedge r s a t <-> dedge d s a t /\ ~ In s deads /\ ~ In t deads).
  { intros s a t. rewrite Er. rewrite dedge_fold_dadd by exact Hef. rewrite filter_In. unfold c. simpl.
    rewrite andb_true_iff, !negb_true_iff, !smem_false, <- dedge_entries by exact Hw. split.
    - intros [G|[G _]]; [tauto | exfalso; eapply no_edge_empty_d; eauto].
    - intros G. left. tauto. }
  assert (Hokr : dfa_ok r).
  { destruct Hok as (O1 & O2 & O3). split; [rewrite H1; exact O1|]. split; [rewrite H2; exact O2|].
    intros s a t G. apply He in G. apply (O3 s a t). tauto. }
  split; [apply H3, dwf_empty|]. split; [exact Hokr|]. split; [exact H1|]. split; [exact H2|].
  split; [intros s a t G; apply He in G; tauto|].
  intros w. apply Bool.eq_true_iff_eq. rewrite !daccept_ok by assumption. unfold dlang. rewrite H1, H2. simpl.
  assert (P1 : forall x w f, dpath r x w f -> dpath d x w f).
  { intros x w0 f Hp. induction Hp as [x|x a t u w1 G Hp IH]; [constructor|].
    apply (proj1 (He _ _ _)) in G. econstructor; [apply G | exact IH]. }
  assert (P2 : forall x w f, dpath d x w f -> In f (dfinal d) -> dpath r x w f).
  { intros x w0 f Hp Hf. induction Hp as [x|x a t u w1 G Hp IH]; [constructor|].
    econstructor; [|apply IH; exact Hf]. apply (proj2 (He _ _ _)). split; [exact G|].
    split; apply Hdead; [exists (a :: w1), u | exists w1, u]; split; auto. econstructor; eauto. }
  split; intros [f [Hf Hp]]; exists f; (split; [exact Hf|]); auto.
Qed.
