(** C13 — executable model of /repo/automata (automata.go, nfa.go, dfa.go, partition.go).

    States and symbols are Go ints / runes: [Z].  The containers used by the Go code iterate
    deterministically (red-black tables in key order, sorted sets in order, stable sets and the
    soft queue in insertion order), so they are mirrored by sorted association lists and sorted
    duplicate-free lists, state numbers included.

    Loops without a structural argument (ε-closure worklist, subset construction, partition
    refinement, reverse reachability, BFS renumbering) run on binary fuel ([iter_pos]); fuel
    exhaustion is the value [Hang], never a default.  No proofs in this file. *)
From Coq Require Import ZArith List Bool.
Import ListNotations.
Open Scope Z_scope.

Inductive res (A : Type) : Type := Ok (a : A) | Hang.
Arguments Ok {A} a.
Arguments Hang {A}.

Definition rbind {A B} (r : res A) (f : A -> res B) : res B :=
  match r with Ok a => f a | Hang => Hang end.

(** ** Binary fuel *)
Inductive step_res (S R : Type) : Type := More (s : S) | Done (r : R).
Arguments More {S R} s.
Arguments Done {S R} r.

(** [iter_pos p f s] applies [f] at most [p] times, stopping at the first [Done]. *)
Fixpoint iter_pos {S R} (p : positive) (f : S -> step_res S R) (s : S) : step_res S R :=
  match p with
  | xH => f s
  | xO p' => match iter_pos p' f s with
             | Done r => Done r
             | More s' => iter_pos p' f s'
             end
  | xI p' => match f s with
             | Done r => Done r
             | More s1 => match iter_pos p' f s1 with
                          | Done r => Done r
                          | More s2 => iter_pos p' f s2
                          end
             end
  end.

Definition run_loop {S R} (fuel : positive) (f : S -> step_res S R) (s : S) : res R :=
  match iter_pos fuel f s with Done r => Ok r | More _ => Hang end.

(** ** Sorted sets of states / symbols (set.NewSorted) *)
Fixpoint sadd (x : Z) (l : list Z) : list Z :=
  match l with
  | [] => [x]
  | y :: r => if x <? y then x :: l else if x =? y then l else y :: sadd x r
  end.

Definition smem (x : Z) (l : list Z) : bool := existsb (Z.eqb x) l.
Definition sadd_all (xs : list Z) (l : list Z) : list Z := fold_left (fun acc x => sadd x acc) xs l.
Definition sunion (a b : list Z) : list Z := sadd_all b a.
Definition sof (l : list Z) : list Z := sadd_all l [].
Definition sremove (x : Z) (l : list Z) : list Z := filter (fun y => negb (x =? y)) l.
Definition sdiff (a b : list Z) : list Z := fold_left (fun acc x => sremove x acc) b a.
Definition sequal (a b : list Z) : bool :=
  Nat.eqb (length a) (length b) && forallb (fun x => smem x b) a.

(** ** Sorted association lists (symboltable.NewRedBlack observed through Get/Put/All) *)
Fixpoint aget {V} (k : Z) (l : list (Z * V)) : option V :=
  match l with
  | [] => None
  | (k', v) :: r => if k =? k' then Some v else aget k r
  end.

Fixpoint aput {V} (k : Z) (v : V) (l : list (Z * V)) : list (Z * V) :=
  match l with
  | [] => [(k, v)]
  | (k', v') :: r =>
      if k <? k' then (k, v) :: l else if k =? k' then (k, v) :: r else (k', v') :: aput k v r
  end.

Definition aget_or {V} (d : V) (k : Z) (l : list (Z * V)) : V :=
  match aget k l with Some v => v | None => d end.

(** redBlack.Equal: mutual inclusion with a value equality *)
Definition aincl {V} (eqv : V -> V -> bool) (a b : list (Z * V)) : bool :=
  forallb (fun kv => match aget (fst kv) b with Some v' => eqv (snd kv) v' | None => false end) a.
Definition aequal {V} (eqv : V -> V -> bool) (a b : list (Z * V)) : bool :=
  aincl eqv a b && aincl eqv b a.

(** ** Automata *)
Definition E : Z := 0.

Record nfa := mkNFA { nstart : Z; nfinal : list Z; ntrans : list (Z * list (Z * list Z)) }.
Record dfa := mkDFA { dstart : Z; dfinal : list Z; dtrans : list (Z * list (Z * Z)) }.

Definition new_nfa (start : Z) (final : list Z) : nfa := mkNFA start (sof final) [].
Definition new_dfa (start : Z) (final : list Z) : dfa := mkDFA start (sof final) [].

(** NFA.Add *)
Definition nadd (n : nfa) (s a : Z) (next : list Z) : nfa :=
  let strans := aget_or [] s (ntrans n) in
  let states := aget_or [] a strans in
  mkNFA (nstart n) (nfinal n) (aput s (aput a (sadd_all next states) strans) (ntrans n)).

(** DFA.Add *)
Definition dadd (d : dfa) (s a t : Z) : dfa :=
  let strans := aget_or [] s (dtrans d) in
  mkDFA (dstart d) (dfinal d) (aput s (aput a t strans) (dtrans d)).

(** NFA.next; [None] is Go's nil *)
Definition nnext (n : nfa) (s a : Z) : option (list Z) :=
  match aget s (ntrans n) with Some strans => aget a strans | None => None end.
Definition nnext_l (n : nfa) (s a : Z) : list Z :=
  match nnext n s a with Some l => l | None => [] end.

(** DFA.Next; -1 when there is no transition *)
Definition dnext (d : dfa) (s a : Z) : Z :=
  match aget s (dtrans d) with
  | Some strans => match aget a strans with Some t => t | None => -1 end
  | None => -1
  end.

(** states() / symbols() *)
Definition nstates (n : nfa) : list Z :=
  fold_left (fun st e =>
     fold_left (fun st2 an => sunion (sadd (fst e) st2) (snd an)) (snd e) st)
    (ntrans n) (sunion (sof [nstart n]) (nfinal n)).

Definition nsymbols (n : nfa) : list Z :=
  fold_left (fun sy e =>
     fold_left (fun sy2 an => if fst an =? E then sy2 else sadd (fst an) sy2) (snd e) sy)
    (ntrans n) [].

Definition dstates (d : dfa) : list Z :=
  fold_left (fun st e =>
     fold_left (fun st2 at_ => sadd (snd at_) (sadd (fst e) st2)) (snd e) st)
    (dtrans d) (sunion (sof [dstart d]) (dfinal d)).

Definition dsymbols (d : dfa) : list Z :=
  fold_left (fun sy e => fold_left (fun sy2 at_ => sadd (fst at_) sy2) (snd e) sy) (dtrans d) [].

Definition pos_of_len {A} (l : list A) : positive := Pos.of_succ_nat (length l).

(** εClosure: closure := T.Clone(); push all of T; pop t, add/push every unseen ε-successor. *)
Definition eclose_step (n : nfa) (st : list Z * list Z) : step_res (list Z * list Z) (list Z) :=
  match fst st with
  | [] => Done (snd st)
  | t :: rest =>
      More (fold_left (fun sc u =>
                 if smem u (snd sc) then sc else (u :: fst sc, sadd u (snd sc)))
              (nnext_l n t E) (rest, snd st))
  end.

Definition eclose_fuel (n : nfa) (T : list Z) : positive :=
  (pos_of_len T + pos_of_len (nstates n) + 1)%positive.

Definition eclose (n : nfa) (T : list Z) : res (list Z) :=
  run_loop (eclose_fuel n T) (eclose_step n) (rev T, T).

(** move *)
Definition nmove (n : nfa) (T : list Z) (a : Z) : list Z :=
  fold_left (fun acc s => match nnext n s a with Some nx => sunion acc nx | None => acc end) T [].

(** NFA.Accept *)
Fixpoint nrun (n : nfa) (S : list Z) (w : list Z) : res (list Z) :=
  match w with
  | [] => Ok S
  | a :: w' => rbind (eclose n (nmove n S a)) (fun S' => nrun n S' w')
  end.

Definition naccept (n : nfa) (w : list Z) : res bool :=
  rbind (eclose n (sof [nstart n])) (fun S0 =>
  rbind (nrun n S0 w) (fun S => Ok (existsb (fun s => smem s (nfinal n)) S))).

(** DFA.Accept *)
Definition drun (d : dfa) (s : Z) (w : list Z) : Z := fold_left (dnext d) w s.
Definition daccept (d : dfa) (w : list Z) : bool := smem (drun d (dstart d) w) (dfinal d).

(** Clone *)
Definition nclone (n : nfa) : nfa :=
  fold_left (fun acc e => fold_left (fun acc2 an => nadd acc2 (fst e) (fst an) (snd an)) (snd e) acc)
    (ntrans n) (mkNFA (nstart n) (nfinal n) []).

Definition dclone (d : dfa) : dfa :=
  fold_left (fun acc e => fold_left (fun acc2 at_ => dadd acc2 (fst e) (fst at_) (snd at_)) (snd e) acc)
    (dtrans d) (mkDFA (dstart d) (dfinal d) []).

(** DFA.ToNFA *)
Definition tonfa (d : dfa) : nfa :=
  fold_left (fun acc e => fold_left (fun acc2 at_ => nadd acc2 (fst e) (fst at_) [snd at_]) (snd e) acc)
    (dtrans d) (mkNFA (dstart d) (dfinal d) []).

(** ** stateManager *)
Record smgr := mkSM { sm_last : Z; sm_map : list ((Z * Z) * Z) }.
Definition sm_new (last : Z) : smgr := mkSM last [].
Definition sm_find (m : smgr) (id s : Z) : option Z :=
  match find (fun e => (fst (fst e) =? id) && (snd (fst e) =? s)) (sm_map m) with
  | Some e => Some (snd e)
  | None => None
  end.
Definition goc (m : smgr) (id s : Z) : smgr * Z :=
  match sm_find m id s with
  | Some t => (m, t)
  | None => let l := sm_last m + 1 in (mkSM l (((id, s), l) :: sm_map m), l)
  end.

(** map a list of states through GetOrCreateState, in order *)
Definition goc_list (m : smgr) (id : Z) (l : list Z) : smgr * list Z :=
  fold_left (fun ml t => let '(m', tq) := goc (fst ml) id t in (m', snd ml ++ [tq])) l (m, []).

(** the transition-copy loop shared verbatim by Star, Union and CombineDFA *)
Definition copy_trans (id : Z) (src : nfa) (acc : smgr * nfa) : smgr * nfa :=
  fold_left (fun mn e =>
     let '(m1, ss) := goc (fst mn) id (fst e) in
     fold_left (fun mn2 an =>
        let '(m2, next) := goc_list (fst mn2) id (snd an) in
        (m2, nadd (snd mn2) ss (fst an) next)) (snd e) (m1, snd mn))
    (ntrans src) acc.

(** NFA.Star *)
Definition nstar (n : nfa) : nfa :=
  let start := 0 in let final := 1 in
  let '(m1, st1) := copy_trans 0 n (sm_new final, new_nfa start [final]) in
  let '(m2, ss) := goc m1 0 (nstart n) in
  let st2 := nadd (nadd st1 start E [ss]) start E [final] in
  snd (fold_left (fun mn f =>
         let '(m', ff) := goc (fst mn) 0 f in
         (m', nadd (nadd (snd mn) ff E [ss]) ff E [final])) (nfinal n) (m2, st2)).

(** NFA.Union (receiver first) *)
Definition union_one (final : Z) (acc : (smgr * nfa) * Z) (n : nfa) : (smgr * nfa) * Z :=
  let id := snd acc in
  let '(m1, u1) := copy_trans id n (fst acc) in
  let '(m2, ss) := goc m1 id (nstart n) in
  let u2 := nadd u1 0 E [ss] in
  (fold_left (fun mn f =>
      let '(m', ff) := goc (fst mn) id f in (m', nadd (snd mn) ff E [final])) (nfinal n) (m2, u2),
   id + 1).

Definition nunion (ns : list nfa) : nfa :=
  snd (fst (fold_left (union_one 1) ns ((sm_new 1, new_nfa 0 [1]), 0))).

(** NFA.Concat, with the start/final merging as written *)
Definition concat_one (acc : ((smgr * nfa) * list Z) * Z) (n : nfa) : ((smgr * nfa) * list Z) * Z :=
  let id := snd acc in
  let final := snd (fst acc) in
  let mn' :=
    fold_left (fun mn e =>
       let s := fst e in
       let '(m1, sp) := if s =? nstart n then (fst mn, final)
                        else let '(m', ss) := goc (fst mn) id s in (m', [ss]) in
       fold_left (fun mn2 an =>
          let '(m2, nextp) :=
             fold_left (fun ml t =>
                 if t =? nstart n then (fst ml, snd ml ++ final)
                 else let '(m', tq) := goc (fst ml) id t in (m', snd ml ++ [tq]))
               (snd an) (fst mn2, []) in
          (m2, fold_left (fun c s' => nadd c s' (fst an) nextp) sp (snd mn2)))
         (snd e) (m1, snd mn))
      (ntrans n) (fst (fst acc)) in
  let '(m3, final') := goc_list (fst mn') id (nfinal n) in
  (((m3, snd mn'), final'), id + 1).

Definition nconcat (ns : list nfa) : nfa :=
  let r := fold_left concat_one ns (((sm_new 0, new_nfa 0 [0]), [0]), 0) in
  let c := snd (fst (fst r)) in
  mkNFA (nstart c) (sof (snd (fst r))) (ntrans c).

(** ** Subset construction (ToDFA and the middle block of CombineDFA) *)
Fixpoint index_of (U : list Z) (l : list (list Z)) (i : Z) : Z :=
  match l with
  | [] => -1
  | V :: r => if sequal V U then i else index_of U r (i + 1)
  end.

(** loop state: all Dstates values so far, index of the front, the DFA under construction.
    [None] as a result = an inner ε-closure ran out of fuel. *)
Definition subset_state : Type := (list (list Z) * nat) * dfa.

Definition subset_step (n : nfa) (syms : list Z) (st : subset_state)
  : step_res subset_state (option (list (list Z) * dfa)) :=
  let '((ds, front), d) := st in
  match nth_error ds front with
  | None => Done (Some (ds, d))
  | Some T =>
      let r :=
        fold_left (fun acc a =>
           match acc with
           | None => None
           | Some (ds', d') =>
               match eclose n (nmove n T a) with
               | Hang => None
               | Ok U =>
                   let j := index_of U ds' 0 in
                   if j =? -1
                   then Some (ds' ++ [U], dadd d' (Z.of_nat front) a (Z.of_nat (length ds')))
                   else Some (ds', dadd d' (Z.of_nat front) a j)
               end
           end) syms (Some (ds, d)) in
      match r with
      | None => Done None
      | Some (ds', d') => More ((ds', S front), d')
      end
  end.

Definition subset_fuel (n : nfa) : positive :=
  (Pos.pow 2 (pos_of_len (nstates n)) + 1)%positive.

Fixpoint final_indices (nf : list Z) (ds : list (list Z)) (i : Z) (acc : list Z) : list Z :=
  match ds with
  | [] => acc
  | X :: r => final_indices nf r (i + 1) (if existsb (fun f => smem f X) nf then sadd i acc else acc)
  end.

Definition subset_construct (n : nfa) : res (list (list Z) * dfa) :=
  rbind (eclose n (sof [nstart n])) (fun S0 =>
  match run_loop (subset_fuel n) (subset_step n (nsymbols n)) (([S0], O), new_dfa 0 []) with
  | Hang => Hang
  | Ok None => Hang
  | Ok (Some (ds, d)) => Ok (ds, mkDFA (dstart d) (final_indices (nfinal n) ds 0 []) (dtrans d))
  end).

Definition todfa (n : nfa) : res dfa := rbind (subset_construct n) (fun r => Ok (snd r)).

(** ** Minimize (partition.go) *)
Record partition := mkP { pgroups : list (list Z * Z); pnext : Z }.
Definition pnew : partition := mkP [] 0.

(** partition.Add for one group: the stable set ignores a group whose state set is already present *)
Definition padd (p : partition) (sts : list Z) : partition :=
  mkP (if existsb (fun g => sequal (fst g) sts) (pgroups p) then pgroups p
       else pgroups p ++ [(sts, pnext p)])
      (pnext p + 1).

Definition prep (p : partition) (s : Z) : Z :=
  match find (fun g => smem s (fst g)) (pgroups p) with Some g => snd g | None => -1 end.

Definition pequal (p q : partition) : bool :=
  Nat.eqb (length (pgroups p)) (length (pgroups q))
  && forallb (fun g => existsb (fun h => sequal (fst h) (fst g)) (pgroups q)) (pgroups p)
  && (pnext p =? pnext q).

Definition build_group_trans (p : partition) (d : dfa) (G : list Z) : list (Z * list (Z * Z)) :=
  fold_left (fun gt s =>
     aput s (fold_left (fun gs at_ =>
                let rep := prep p (snd at_) in
                if rep =? -1 then gs else aput (fst at_) rep gs)
              (aget_or [] s (dtrans d)) []) gt) G [].

Definition partition_and_add (p : partition) (gt : list (Z * list (Z * Z))) : partition :=
  fold_left (fun p' st =>
     if prep p' (fst st) =? -1
     then padd p' (fold_left (fun H tq =>
                      if aequal Z.eqb (snd st) (snd tq) && negb (smem (fst tq) H)
                      then sadd (fst tq) H else H) (tl gt) [fst st])
     else p') gt p.

Definition refine_step (d : dfa) (p : partition) : step_res partition partition :=
  let pn := fold_left (fun acc G => partition_and_add acc (build_group_trans p d (fst G)))
              (pgroups p) pnew in
  if pequal pn p then Done p else More pn.

(* every round that does not stop separates at least one pair of states (or drops an empty
   initial group), so 2|Q|^2+1 rounds are enough; the Go loop is unbounded *)
Definition minimize_fuel (d : dfa) : positive :=
  (2 * pos_of_len (dstates d) * pos_of_len (dstates d) + 3)%positive.

Definition minimize_finish (d : dfa) (p : partition) : dfa :=
  let start := prep p (dstart d) in
  let final := sof (map (prep p) (dfinal d)) in
  fold_left (fun acc G =>
     let s := hd 0 (fst G) in
     match aget s (dtrans d) with
     | Some v => fold_left (fun acc2 at_ => dadd acc2 (snd G) (fst at_) (prep p (snd at_))) v acc
     | None => acc
     end) (pgroups p) (mkDFA start final []).

Definition minimize_partition (d : dfa) : res partition :=
  let F := dfinal d in
  let NF := sdiff (dstates d) F in
  run_loop (minimize_fuel d) (refine_step d) (padd (padd pnew NF) F).

Definition minimize (d : dfa) : res dfa :=
  rbind (minimize_partition d) (fun p => Ok (minimize_finish d p)).

(** ** EliminateDeadStates: reverse reachability from the final states through the virtual
    node -1.  The Go code recurses (dfs); the visited set does not depend on the order, so the
    model uses an explicit stack on fuel. *)
Definition radj (d : dfa) : list (Z * list Z) :=
  aput (-1) (dfinal d)
    (fold_left (fun adj e =>
        fold_left (fun adj2 at_ => aput (snd at_) (sadd (fst e) (aget_or [] (snd at_) adj2)) adj2)
          (snd e) adj) (dtrans d) []).

Definition reach_step (adj : list (Z * list Z)) (st : list Z * list Z)
  : step_res (list Z * list Z) (list Z) :=
  match fst st with
  | [] => Done (snd st)
  | s :: rest =>
      More (fold_left (fun sv t => if smem t (snd sv) then sv else (t :: fst sv, sadd t (snd sv)))
              (aget_or [] s adj) (rest, snd st))
  end.

Definition dead_states (d : dfa) : res (list Z) :=
  let adj := radj d in
  rbind (run_loop (pos_of_len (dstates d) + pos_of_len (dstates d) + 3)%positive
           (reach_step adj) ([-1], [-1]))
        (fun visited => Ok (sof (filter (fun s => negb (smem s visited)) (map fst adj)))).

Definition elim_dead (d : dfa) : res dfa :=
  rbind (dead_states d) (fun deads =>
  Ok (fold_left (fun acc e =>
        fold_left (fun acc2 at_ =>
           if negb (smem (fst e) deads) && negb (smem (snd at_) deads)
           then dadd acc2 (fst e) (fst at_) (snd at_) else acc2) (snd e) acc)
       (dtrans d) (mkDFA (dstart d) (dfinal d) []))).

(** ** ReindexStates: BFS from the start state on a FIFO queue (list.NewQueue(64) after the
    repair of the block-boundary defect D18 is a plain FIFO), numbering states in visit order. *)
Definition bfs_state : Type := (list Z * list Z) * smgr.

Definition bfs_step (d : dfa) (st : bfs_state) : step_res bfs_state smgr :=
  let '((queue, visited), m) := st in
  match queue with
  | [] => Done m
  | s :: rest =>
      More (fold_left (fun st2 at_ =>
               let '((q, v), m') := st2 in
               let t := snd at_ in
               if smem t v then st2 else ((q ++ [t], sadd t v), fst (goc m' 0 t)))
             (aget_or [] s (dtrans d)) ((rest, visited), m))
  end.

Definition reindex_with (d : dfa) : res (smgr * dfa) :=
  let m0 := fst (goc (sm_new (-1)) 0 (dstart d)) in
  rbind (run_loop (pos_of_len (dstates d) + 2)%positive (bfs_step d) (([dstart d], [dstart d]), m0))
    (fun m1 =>
       let '(m2, start) := goc m1 0 (dstart d) in
       let '(m3, fin) := fold_left (fun mf f => let '(m', ff) := goc (fst mf) 0 f in (m', sadd ff (snd mf)))
                           (dfinal d) (m2, []) in
       Ok (fold_left (fun md e =>
             let '(ma, ss) := goc (fst md) 0 (fst e) in
             fold_left (fun md2 at_ =>
                let '(mb, tq) := goc (fst md2) 0 (snd at_) in
                (mb, dadd (snd md2) ss (fst at_) tq)) (snd e) (ma, snd md))
            (dtrans d) (m3, mkDFA start fin []))).

Definition reindex (d : dfa) : res dfa := rbind (reindex_with d) (fun r => Ok (snd r)).

(** ** CombineDFA *)
Definition combine_one (acc : ((smgr * nfa) * list (list Z)) * Z) (n : nfa)
  : ((smgr * nfa) * list (list Z)) * Z :=
  let id := snd acc in
  let fm := snd (fst acc) in
  let '(m1, u1) := copy_trans id n (fst (fst acc)) in
  let '(m2, ss) := goc m1 id (nstart n) in
  let u2 := nadd u1 0 E [ss] in
  let r := fold_left (fun mnf f =>
              let '(m', ff) := goc (fst (fst mnf)) id f in
              ((m', nadd (snd (fst mnf)) ff E [1]), snd mnf ++ [ff])) (nfinal n) ((m2, u2), []) in
  (((fst r), fm ++ [snd r]), id + 1).

Fixpoint indices_containing (f : Z) (ds : list (list Z)) (i : Z) (acc : list Z) : list Z :=
  match ds with
  | [] => acc
  | X :: r => indices_containing f r (i + 1) (if smem f X then sadd i acc else acc)
  end.

Definition combine_dfa (dl : list dfa) : res (dfa * list (list Z)) :=
  let ns := map tonfa dl in
  let r := fold_left combine_one ns (((sm_new 1, new_nfa 0 [1]), []), 0) in
  let union := snd (fst (fst r)) in
  let fm0 := snd (fst r) in
  rbind (subset_construct union) (fun dsd =>
  let '(ds, combined) := dsd in
  let fm1 := map (fun states => fold_left (fun acc f => indices_containing f ds 0 acc) states []) fm0 in
  rbind (elim_dead combined) (fun combined' =>
  rbind (reindex_with combined') (fun mr =>
  let '(m, reindexed) := mr in
  let fm2 := snd (fold_left (fun mf states =>
                 let '(m', mapped) := fold_left (fun ma f => let '(m'', ff) := goc (fst ma) 0 f in (m'', sadd ff (snd ma)))
                                        states (fst mf, []) in
                 (m', snd mf ++ [mapped])) fm1 (m, [])) in
  Ok (reindexed, fm2)))).

(** ** Equal / Isomorphic *)
Definition nequal (a b : nfa) : bool :=
  (nstart a =? nstart b) && sequal (nfinal a) (nfinal b)
  && aequal (aequal sequal) (ntrans a) (ntrans b).

Definition dequal (a b : dfa) : bool :=
  (dstart a =? dstart b) && sequal (dfinal a) (dfinal b)
  && aequal (aequal Z.eqb) (dtrans a) (dtrans b).

Fixpoint insert_sorted (x : Z) (l : list Z) : list Z :=
  match l with
  | [] => [x]
  | y :: r => if x <=? y then x :: l else y :: insert_sorted x r
  end.
Definition sort_z (l : list Z) : list Z := fold_right insert_sorted [] l.

Definition bump (s : Z) (deg : list (Z * Z)) : list (Z * Z) := aput s (aget_or 0 s deg + 1) deg.

(** getSortedDegreeSequence: one count per endpoint occurrence, only states with a transition *)
Definition ndegrees (n : nfa) : list Z :=
  sort_z (map snd
    (fold_left (fun dg e => fold_left (fun dg2 an =>
        fold_left (fun dg3 t => bump t (bump (fst e) dg3)) (snd an) dg2) (snd e) dg) (ntrans n) [])).

Definition ddegrees (d : dfa) : list Z :=
  sort_z (map snd
    (fold_left (fun dg e => fold_left (fun dg2 at_ => bump (snd at_) (bump (fst e) dg2)) (snd e) dg)
       (dtrans d) [])).

Definition list_eqb (a b : list Z) : bool :=
  Nat.eqb (length a) (length b) && forallb (fun xy => fst xy =? snd xy) (combine a b).

Fixpoint set_nth (l : list Z) (i : nat) (x : Z) : list Z :=
  match l, i with
  | [], _ => []
  | _ :: r, O => x :: r
  | y :: r, S i' => y :: set_nth r i' x
  end.
Definition swap (l : list Z) (i j : nat) : list Z :=
  set_nth (set_nth l i (nth j l 0)) j (nth i l 0).

(** generatePermutations(states, start, start+k, yield); the result is "continue". *)
Fixpoint genperm (k : nat) (l : list Z) (start : nat) (yield : list Z -> bool) : bool :=
  match k with
  | O => yield l
  | S k' =>
      forallb (fun i => genperm k' (swap l start i) (S start) yield) (seq start (S (S k')))
  end.

Definition gen_permutations (l : list Z) (yield : list Z -> bool) : bool :=
  match l with
  | [] => true
  | _ :: r => genperm (length r) l O yield
  end.

Definition bij_of (from to : list Z) (s : Z) : Z := aget_or 0 s (combine from to).

Definition npermute (n : nfa) (f : Z -> Z) : nfa :=
  fold_left (fun acc e => fold_left (fun acc2 an => nadd acc2 (f (fst e)) (fst an) (map f (snd an))) (snd e) acc)
    (ntrans n) (new_nfa (f (nstart n)) (map f (nfinal n))).

Definition dpermute (d : dfa) (f : Z -> Z) : dfa :=
  fold_left (fun acc e => fold_left (fun acc2 at_ => dadd acc2 (f (fst e)) (fst at_) (f (snd at_))) (snd e) acc)
    (dtrans d) (new_dfa (f (dstart d)) (map f (dfinal d))).

Definition nisomorphic (a b : nfa) : bool :=
  if negb (Nat.eqb (length (nfinal a)) (length (nfinal b))) then false else
  let s1 := nstates a in let s2 := nstates b in
  if negb (Nat.eqb (length s1) (length s2)) then false else
  if negb (sequal (nsymbols a) (nsymbols b)) then false else
  if negb (list_eqb (ndegrees a) (ndegrees b)) then false else
  negb (gen_permutations s2 (fun perm => negb (nequal (npermute a (bij_of s1 perm)) b))).

Definition disomorphic (a b : dfa) : bool :=
  if negb (Nat.eqb (length (dfinal a)) (length (dfinal b))) then false else
  let s1 := dstates a in let s2 := dstates b in
  if negb (Nat.eqb (length s1) (length s2)) then false else
  if negb (sequal (dsymbols a) (dsymbols b)) then false else
  if negb (list_eqb (ddegrees a) (ddegrees b)) then false else
  negb (gen_permutations s2 (fun perm => negb (dequal (dpermute a (bij_of s1 perm)) b))).

(** ** Builders used by the driver and by the theorems' "constructible through the API" *)
Definition nbuild (start : Z) (final : list Z) (adds : list ((Z * Z) * list Z)) : nfa :=
  fold_left (fun n e => nadd n (fst (fst e)) (snd (fst e)) (snd e)) adds (new_nfa start final).
Definition dbuild (start : Z) (final : list Z) (adds : list ((Z * Z) * Z)) : dfa :=
  fold_left (fun d e => dadd d (fst (fst e)) (snd (fst e)) (snd e)) adds (new_dfa start final).

(** ** Executable reference for the Myhill–Nerode count of a DFA whose states are all
    reachable and co-reachable: the number of distinct residual languages, each residual being
    tabulated on every word shorter than the number of states (enough to separate states). *)
Fixpoint words_upto (sy : list Z) (k : nat) : list (list Z) :=
  match k with
  | O => [[]]
  | S k' => [] :: flat_map (fun a => map (cons a) (words_upto sy k')) sy
  end.

Definition residual (d : dfa) (ws : list (list Z)) (s : Z) : list bool :=
  map (fun w => smem (drun d s w) (dfinal d)) ws.

Fixpoint dedupe_b (l : list (list bool)) : list (list bool) :=
  match l with
  | [] => []
  | x :: r => if existsb (fun y => forallb (fun p => Bool.eqb (fst p) (snd p)) (combine x y)) (dedupe_b r)
              then dedupe_b r else x :: dedupe_b r
  end.

Definition mn_count (d : dfa) : nat :=
  let ws := words_upto (dsymbols d) (length (dstates d)) in
  length (dedupe_b (map (residual d ws) (dstates d))).

(** reachable from the start state (forward) *)
Definition fadj (d : dfa) : list (Z * list Z) := map (fun e => (fst e, sof (map snd (snd e)))) (dtrans d).
Definition reachable_states (d : dfa) : res (list Z) :=
  run_loop (pos_of_len (dstates d) + pos_of_len (dstates d) + 3)%positive
    (reach_step (fadj d)) ([dstart d], [dstart d]).

(** all states reachable and co-reachable ("no unreachable or dead states") *)
Definition dtrim (d : dfa) : bool :=
  match reachable_states d, run_loop (pos_of_len (dstates d) + pos_of_len (dstates d) + 3)%positive
                              (reach_step (radj d)) ([-1], [-1]) with
  | Ok r, Ok c => forallb (fun s => smem s r && smem s c) (dstates d)
  | _, _ => false
  end.
