(** C13 — CombineDFA accepts the union of the operand languages and its final-state map is exact. *)
From Coq Require Import ZArith List Bool Lia.
From Algo.C13 Require Import Model Spec Lemmas ProofsNFA ProofsDFA ProofsSM ProofsUnion
  ProofsSubset ProofsSubsetTerm ProofsElim ProofsReindex.
Import ListNotations.
Open Scope Z_scope.

(** ** the union block: Union plus the record of the mapped final states *)
Definition clink_step (id : Z) (mnf : (smgr * nfa) * list Z) (f : Z) : (smgr * nfa) * list Z :=
  let '(m', ff) := goc (fst (fst mnf)) id f in
  ((m', nadd (snd (fst mnf)) ff E [1]), snd mnf ++ [ff]).

Lemma combine_one_eq : forall m u fm id n,
  combine_one ((((m, u), fm), id)) n =
  (let '(m1, u1) := fold_left (table_step id) (ntrans n) (m, u) in
   let '(m2, ss) := goc m1 id (nstart n) in
   let r := fold_left (clink_step id) (nfinal n) ((m2, nadd u1 0 E [ss]), []) in
   ((fst r, fm ++ [snd r]), id + 1)).
Proof.
  intros. unfold combine_one. simpl. rewrite copy_trans_eq.
  destruct (fold_left (table_step id) (ntrans n) (m, u)) as [m1 u1].
  destruct (goc m1 id (nstart n)) as [m2 ss]. reflexivity.
Qed.

Lemma clink_step_eq : forall id m u acc f,
  clink_step id ((m, u), acc) f = let '(m', ff) := goc m id f in ((m', nadd u ff E [1]), acc ++ [ff]).
Proof. reflexivity. Qed.

Lemma clink_fold : forall id fs m u acc,
  fst (fold_left (clink_step id) fs ((m, u), acc)) = fold_left (link_step id [1]) fs (m, u).
Proof.
  intros id. induction fs as [|f fs IH]; intros m u acc; cbn [fold_left]; [reflexivity|].
  rewrite clink_step_eq. unfold link_step at 2. simpl. destruct (goc m id f) as [m' ff]. simpl. apply IH.
Qed.

Lemma clink_list : forall lo id fs m u acc, sm_ok lo m ->
  forall y, In y (snd (fold_left (clink_step id) fs ((m, u), acc))) <->
            In y acc \/ exists f, In f fs /\ sm_find (fst (fst (fold_left (clink_step id) fs ((m, u), acc)))) id f = Some y.
Proof.
  intros lo id. induction fs as [|f fs IH]; intros m u acc Hok y; cbn [fold_left].
  - simpl. split; [auto|]. intros [H|[f [[] _]]]. exact H.
  - rewrite clink_step_eq. destruct (goc m id f) as [m1 ff] eqn:Eg.
    destruct (goc_spec lo m id f m1 ff Hok Eg) as (Hok1 & Hext1 & Hf1 & _).
    rewrite (IH m1 _ (acc ++ [ff]) Hok1 y). rewrite in_app_iff. simpl.
    set (mf := fst (fst (fold_left (clink_step id) fs (m1, nadd u ff E [1], acc ++ [ff])))).
    assert (Hext : sm_ext m1 mf).
    { unfold mf. rewrite clink_fold.
      destruct (fold_left (link_step id [1]) fs (m1, nadd u ff E [1])) as [m' u'] eqn:El.
      destruct (final_links lo id [1] fs m1 _ m' u' Hok1 El) as (_ & H & _). exact H. }
    split.
    + intros [[H|[->|[]]]|[f' [H1 H2]]]; [auto| |].
      * right. exists f. split; [now left | now apply Hext].
      * right. exists f'. auto.
    + intros [H|[f' [[->|H1] H2]]]; [auto| |].
      * left. right. left. apply Hext in Hf1. congruence.
      * right. eauto.
Qed.

Lemma combine_one_union : forall m u fm id n,
  let r := combine_one ((((m, u), fm), id)) n in
  (fst (fst r), snd r) = union_one 1 ((m, u), id) n /\
  exists ffs, snd (fst r) = fm ++ [ffs] /\
     (sm_ok 1 m -> forall y, In y ffs <-> exists f, In f (nfinal n) /\ sm_find (fst (fst (fst r))) id f = Some y).
Proof.
  intros m u fm id n. rewrite combine_one_eq, union_one_eq.
  destruct (fold_left (table_step id) (ntrans n) (m, u)) as [m1 u1] eqn:E1.
  destruct (goc m1 id (nstart n)) as [m2 ss] eqn:E2. simpl. split.
  - rewrite clink_fold. reflexivity.
  - eexists. split; [reflexivity|]. intros Hok y.
    destruct (copy_table 1 id (ntrans n) m u m1 u1 Hok E1) as (Hok1 & _).
    destruct (goc_spec 1 m1 id (nstart n) m2 ss Hok1 E2) as (Hok2 & _).
    rewrite (clink_list 1 id (nfinal n) m2 _ [] Hok2 y). simpl. intuition.
Qed.

(** positions: operand k of the list gets id [id + k] *)
Lemma combine_fold : forall ns m u fm id ins m' u' fm' id',
  Forall nwf ns -> uinv m u id ins ->
  fold_left combine_one ns ((((m, u), fm), id)) = ((((m', u'), fm'), id')) ->
  exists ins', uinv m' u' id' ins' /\ sm_ext m m' /\
    (forall e, In e ins -> In e ins') /\
    (forall k n, nth_error ns k = Some n -> In (id + Z.of_nat k, n) ins') /\
    (forall i n, In (i, n) ins' -> In (i, n) ins \/ exists k, i = id + Z.of_nat k /\ nth_error ns k = Some n) /\
    length fm' = (length fm + length ns)%nat /\
    (forall k, (k < length fm)%nat -> nth_error fm' k = nth_error fm k) /\
    (forall k n, nth_error ns k = Some n -> exists ffs, nth_error fm' (length fm + k) = Some ffs /\
        forall y, In y ffs <-> exists f, In f (nfinal n) /\ sm_find m' (id + Z.of_nat k) f = Some y).
Proof.
  induction ns as [|n ns IH]; intros m u fm id ins m' u' fm' id' Hwf Hinv H; simpl in H.
  - inversion H; subst. exists ins. split; [exact Hinv|]. split; [apply sm_ext_refl|]. split; [auto|].
    split; [intros k n Hk; destruct k; discriminate|]. split; [auto|]. split; [simpl; lia|]. split; [auto|].
    intros k n Hk; destruct k; discriminate.
  - inversion Hwf as [|? ? Hwn Hwr]; subst.
    destruct (combine_one_union m u fm id n) as [Hu (ffs & Hfm & Hffs)].
    destruct (combine_one (m, u, fm, id) n) as [[[m1 u1] fm1] id1] eqn:E1. simpl in Hu, Hfm, Hffs.
    destruct Hinv as [I1 I2 I3 I4 I5 I6 I7 I8].
    destruct (union_one_spec m u id n ins m1 u1 id1 I1 Hwn I2 I5 I6 (eq_sym Hu)) as (J1 & J2 & J3 & J4 & J5 & J6 & J7 & J8).
    assert (Hinv1 : uinv m1 u1 id1 ((id, n) :: ins)).
    { split; auto; try congruence.
      - intros i n0 [Hin|Hin]; [inversion Hin; subst; lia|]. apply I7 in Hin. lia.
      - simpl. constructor; [|exact I8]. intros Hin. apply in_map_iff in Hin.
        destruct Hin as [[i n0] [Hi Hin]]. simpl in Hi. subst i. apply I7 in Hin. lia. }
    destruct (IH m1 u1 fm1 id1 _ m' u' fm' id' Hwr Hinv1 H) as (ins' & K1 & K2 & K3 & K4 & K5 & K6 & K7 & K8).
    subst id1 fm1. exists ins'. split; [exact K1|]. split; [eapply sm_ext_trans; eauto|].
    split; [intros e He; apply K3; now right|]. split; [|split; [|split; [|split]]].
    + intros k n0 Hk. destruct k as [|k]; simpl in Hk.
      * inversion Hk; subst. apply K3. left. f_equal. lia.
      * replace (id + Z.of_nat (S k)) with (id + 1 + Z.of_nat k) by lia. now apply K4.
    + intros i n0 Hin. apply K5 in Hin. destruct Hin as [[Hin|Hin]|[k [-> Hk]]].
      * inversion Hin; subst. right. exists O. split; [lia | reflexivity].
      * now left.
      * right. exists (S k). split; [lia | exact Hk].
    + rewrite K6, app_length. simpl. lia.
    + intros k Hk. rewrite K7 by (rewrite app_length; simpl; lia). now apply nth_error_app1.
    + intros k n0 Hk. destruct k as [|k]; simpl in Hk.
      * inversion Hk; subst. exists ffs. split.
        -- rewrite K7 by (rewrite app_length; simpl; lia). rewrite Nat.add_0_r, nth_error_app2 by lia.
           now rewrite Nat.sub_diag.
        -- intros y. rewrite (Hffs I1 y). replace (id + Z.of_nat 0) with id by lia.
           split; intros [f [Hf Hy]]; exists f; (split; [exact Hf|]).
           ++ now apply K2.
           ++ destruct (J7 id n0 (or_introl eq_refl)) as (_ & _ & D3). destruct (D3 f Hf) as [y' Hy'].
              pose proof (K2 _ _ _ Hy'). congruence.
      * destruct (K8 k n0 Hk) as [ffs' [Hn Hy]]. exists ffs'. split.
        -- rewrite app_length in Hn. simpl in Hn. replace (length fm + S k)%nat with (length fm + 1 + k)%nat by lia. exact Hn.
        -- replace (id + Z.of_nat (S k)) with (id + 1 + Z.of_nat k) by lia. exact Hy.
Qed.

(** ** which mapped states are reached on a word *)
Section UnionReach.
  Variables (U : nfa) (m : smgr) (ins : list (Z * nfa)).
  Hypothesis Hok : sm_ok 1 m.
  Hypothesis Hdef : udef m ins.
  Hypothesis Hnd : NoDup (map fst ins).
  Hypothesis Hstart : nstart U = 0.
  Hypothesis Hfinal : nfinal U = [1].
  Hypothesis Hedges : forall x a y, nedge U x a y <-> ushape m ins x a y.

  Lemma unlift2 : forall x w z, npath U x w z ->
    forall i n s j t, In (i, n) ins -> sm_find m i s = Some x -> sm_find m j t = Some z ->
    i = j /\ npath n s w t.
  Proof.
    intros x w z Hp. induction Hp as [x|x x' z w He Hp IH|x a x' z w Ha He Hp IH]; intros i n s j t Hin Hx Hz.
    - destruct (ok_inj _ _ Hok _ _ _ _ _ Hx Hz) as [-> ->]. split; [reflexivity | constructor].
    - apply Hedges in He.
      destruct He as [(i' & n' & s' & t' & H1 & H2 & H3 & H4)|[(i' & n' & _ & H & _)|(i' & n' & f & H1 & H2 & _ & H3 & H4)]].
      + destruct (ok_inj _ _ Hok _ _ _ _ _ H3 Hx) as [-> ->].
        assert (n' = n) by (eapply nodup_fst_fun; eauto). subst n'.
        destruct (IH i n t' j t Hin H4 Hz) as [-> Hpt]. split; [reflexivity|]. eapply np_eps; eauto.
      + apply (img_gt1 m Hok) in Hx. lia.
      + subst x'. apply (path_from_1 U m ins Hok Hfinal Hedges) in Hp. destruct Hp as [_ ->].
        apply (img_gt1 m Hok) in Hz. lia.
    - apply Hedges in He.
      destruct He as [(i' & n' & s' & t' & H1 & H2 & H3 & H4)|[(i' & n' & _ & H & _)|(i' & n' & f & _ & _ & H & _)]].
      + destruct (ok_inj _ _ Hok _ _ _ _ _ H3 Hx) as [-> ->].
        assert (n' = n) by (eapply nodup_fst_fun; eauto). subst n'.
        destruct (IH i n t' j t Hin H4 Hz) as [-> Hpt]. split; [reflexivity|]. eapply np_sym; eauto.
      + apply (img_gt1 m Hok) in Hx. lia.
      + contradiction.
  Qed.

  Lemma reach_mapped : forall i n f y w, In (i, n) ins -> sm_find m i f = Some y ->
    (npath U 0 w y <-> npath n (nstart n) w f).
  Proof.
    intros i n f y w Hin Hy. split.
    - intros Hp. inversion Hp as [s E1 E2|s t u w' He Hp' E1 E2 E3|s a t u w' Ha He Hp' E1 E2 E3]; subst.
      + apply (img_gt1 m Hok) in Hy. lia.
      + apply Hedges in He.
        destruct He as [(i' & n' & s' & t' & _ & _ & H & _)|[(i' & n' & H1 & _ & _ & H2)|(i' & n' & f' & _ & _ & _ & H & _)]].
        * apply (img_gt1 m Hok) in H. lia.
        * destruct (unlift2 _ _ _ Hp' i' n' (nstart n') i f H1 H2 Hy) as [-> Hpn].
          assert (n' = n) by (eapply nodup_fst_fun; eauto). now subst n'.
        * apply (img_gt1 m Hok) in H. lia.
      + apply Hedges in He.
        destruct He as [(i' & n' & s' & t' & _ & _ & H & _)|[(i' & n' & _ & _ & H & _)|(i' & n' & f' & _ & _ & H & _)]];
          try contradiction. apply (img_gt1 m Hok) in H. lia.
    - intros Hp. destruct (Hdef i n Hin) as (_ & [x Hx] & _).
      destruct (lift_path U m ins Hdef Hedges i n Hin _ _ _ Hp x Hx) as [y' [Hy' Hpy]].
      assert (y' = y) by congruence. subst y'.
      apply (np_eps U 0 x y w); [|exact Hpy]. apply Hedges. right. left. exists i, n. auto.
  Qed.
End UnionReach.

Lemma indices_containing_spec : forall f ds i acc x,
  In x (indices_containing f ds i acc) <->
  In x acc \/ exists k V, x = i + Z.of_nat k /\ nth_error ds k = Some V /\ In f V.
Proof.
  intros f. induction ds as [|V r IH]; intros i acc x; simpl.
  - split; [auto|]. intros [H|[k [V [_ [H _]]]]]; [exact H|]. destruct k; discriminate.
  - rewrite IH. destruct (smem f V) eqn:E.
    + apply smem_In in E. rewrite In_sadd. split.
      * intros [[->|H]|[k [V' [H1 [H2 H3]]]]]; [|auto|].
        -- right. exists O, V. simpl. split; [lia|]. auto.
        -- right. exists (S k), V'. simpl. split; [lia|]. auto.
      * intros [H|[k [V' [H1 [H2 H3]]]]]; [auto|]. destruct k as [|k]; simpl in H2.
        -- left. left. lia.
        -- right. exists k, V'. split; [lia|]. auto.
    + apply smem_false in E. split.
      * intros [H|[k [V' [H1 [H2 H3]]]]]; [auto|]. right. exists (S k), V'. simpl. split; [lia|]. auto.
      * intros [H|[k [V' [H1 [H2 H3]]]]]; [auto|]. destruct k as [|k]; simpl in H2.
        -- inversion H2; subst. contradiction.
        -- right. exists k, V'. split; [lia|]. auto.
Qed.

Lemma fm1_spec : forall ds states x,
  In x (fold_left (fun acc f => indices_containing f ds 0 acc) states []) <->
  exists f k V, In f states /\ x = Z.of_nat k /\ nth_error ds k = Some V /\ In f V.
Proof.
  intros ds states x.
  assert (G : forall states acc, In x (fold_left (fun acc f => indices_containing f ds 0 acc) states acc) <->
                In x acc \/ exists f k V, In f states /\ x = Z.of_nat k /\ nth_error ds k = Some V /\ In f V).
  { induction states0 as [|f r IH]; intros acc; simpl.
    - split; [auto|]. intros [H|(f & k & V & [] & _)]. exact H.
    - rewrite IH, indices_containing_spec. split.
      + intros [[H|(k & V & H1 & H2 & H3)]|(f' & k & V & H1 & H2)]; [auto| |].
        * right. exists f, k, V. split; [now left|]. split; [lia|]. auto.
        * right. exists f', k, V. split; [now right|]. auto.
      + intros [H|(f' & k & V & [->|H1] & H2 & H3 & H4)]; [auto| |].
        * left. right. exists k, V. split; [lia|]. auto.
        * right. exists f', k, V. auto. }
  rewrite G. simpl. intuition.
Qed.

(** ** mapping the final-state map through the renumbering *)
Definition fm2_step (mf : smgr * list (list Z)) (states : list Z) : smgr * list (list Z) :=
  let '(m', mapped) := fold_left fin_step states (fst mf, []) in (m', snd mf ++ [mapped]).

Lemma fm2_fold : forall fm1 m acc, sm_ok (-1) m ->
  let r := fold_left fm2_step fm1 (m, acc) in
  sm_ok (-1) (fst r) /\ sm_ext m (fst r) /\ length (snd r) = (length acc + length fm1)%nat /\
  (forall k, (k < length acc)%nat -> nth_error (snd r) k = nth_error acc k) /\
  forall k states, nth_error fm1 k = Some states ->
    exists mapped, nth_error (snd r) (length acc + k) = Some mapped /\
      forall y, In y mapped <-> exists f, In f states /\ sm_find (fst r) 0 f = Some y.
Proof.
  induction fm1 as [|st fm1 IH]; intros m acc Hok; cbn [fold_left].
  - simpl. split; [exact Hok|]. split; [apply sm_ext_refl|]. split; [lia|]. split; [auto|].
    intros k states Hk. destruct k; discriminate.
  - destruct (rename_finals st m [] Hok) as (m1 & mapped & E & Hok1 & Hext1 & Hin1 & Hdef1).
    assert (Est : fm2_step (m, acc) st = (m1, acc ++ [mapped])) by (unfold fm2_step; simpl; now rewrite E).
    rewrite Est.
    destruct (IH m1 (acc ++ [mapped]) Hok1) as (K1 & K2 & K3 & K4 & K5).
    set (r := fold_left fm2_step fm1 (m1, acc ++ [mapped])) in *.
    split; [exact K1|]. split; [eapply sm_ext_trans; eauto|]. split; [rewrite K3, app_length; simpl; lia|]. split.
    + intros k Hk. rewrite K4 by (rewrite app_length; simpl; lia). now apply nth_error_app1.
    + intros k states Hk. destruct k as [|k]; simpl in Hk.
      * inversion Hk; subst. exists mapped. split.
        -- rewrite K4 by (rewrite app_length; simpl; lia). rewrite Nat.add_0_r, nth_error_app2 by lia. now rewrite Nat.sub_diag.
        -- intros y. rewrite Hin1. split.
           ++ intros [[]|[f [H1 H2]]]. exists f. split; [exact H1 | now apply K2].
           ++ intros [f [H1 H2]]. right. exists f. split; [exact H1|].
              destruct (Hdef1 f H1) as [y' Hy']. pose proof (K2 _ _ _ Hy'). congruence.
      * destruct (K5 k states Hk) as [mp [Hn Hy]]. exists mp. split; [|exact Hy].
        rewrite app_length in Hn. simpl in Hn. replace (length acc + S k)%nat with (length acc + 1 + k)%nat by lia. exact Hn.
Qed.

Lemma combine_dfa_eq : forall dl,
  combine_dfa dl =
  (let r := fold_left combine_one (map tonfa dl) (((sm_new 1, new_nfa 0 [1]), []), 0) in
   rbind (subset_construct (snd (fst (fst r)))) (fun dsd =>
   let fm1 := map (fun states => fold_left (fun acc f => indices_containing f (fst dsd) 0 acc) states []) (snd (fst r)) in
   rbind (elim_dead (snd dsd)) (fun combined' =>
   rbind (reindex_with combined') (fun mr =>
   Ok (snd mr, snd (fold_left fm2_step fm1 (fst mr, []))))))).
Proof.
  intros dl. unfold combine_dfa. simpl.
  destruct (subset_construct _) as [[ds combined]|]; [|reflexivity]. simpl.
  destruct (elim_dead combined) as [c'|]; [|reflexivity]. simpl.
  destruct (reindex_with c') as [[m r]|]; reflexivity.
Qed.

Definition good_dfa (d : dfa) : Prop := dwf d /\ dfa_ok d /\ dfa_noeps d.

Lemma nth_error_map_inv {A B} (f : A -> B) : forall l k y, nth_error (map f l) k = Some y ->
  exists x, nth_error l k = Some x /\ f x = y.
Proof.
  induction l as [|a l IH]; intros k y H; destruct k; simpl in *; try discriminate.
  - inversion H. eauto.
  - now apply IH.
Qed.

Lemma existsb_accept : forall dl w, existsb (fun d => daccept d w) dl = true <-> exists d, In d dl /\ daccept d w = true.
Proof. intros. apply existsb_exists. Qed.

Theorem combine_ok : forall dl, Forall good_dfa dl ->
  exists R fm, combine_dfa dl = Ok (R, fm) /\ dwf R /\ dfa_ok R /\ length fm = length dl /\
    forall w, word_ok w ->
      daccept R w = existsb (fun d => daccept d w) dl /\
      forall k d, nth_error dl k = Some d ->
        exists fk, nth_error fm k = Some fk /\ (In (drun R (dstart R) w) fk <-> daccept d w = true).
Proof.
  intros dl Hgood. rewrite combine_dfa_eq.
  set (ns := map tonfa dl).
  assert (Hnwf : Forall nwf ns).
  { unfold ns. apply Forall_forall. intros n Hn. apply in_map_iff in Hn. destruct Hn as [d [<- Hd]].
    rewrite Forall_forall in Hgood. destruct (Hgood d Hd) as (Hw & _). apply (tonfa_spec d Hw). }
  destruct (fold_left combine_one ns (((sm_new 1, new_nfa 0 [1]), []), 0)) as [[[mU U] fm0] idU] eqn:EU.
  destruct (combine_fold ns _ _ _ _ _ mU U fm0 idU Hnwf uinv_init EU)
    as (ins & [I1 I2 I3 I4 I5 I6 I7 I8] & _ & _ & Kpos & Kins & Klen & _ & Kfm).
  cbn [fst snd].
  destruct (subset_construct_total U) as [[ds C] EC]. rewrite EC. cbn [rbind fst snd].
  destruct (subset_construct_inv U ds C EC) as (S0 & ES0 & Hsinv & HfinC).
  pose proof (sub_dfa_ok U S0 ds C Hsinv HfinC) as HokC.
  pose proof (si_wf _ _ _ _ _ _ Hsinv) as HwfC.
  destruct (elim_dead_ok C HwfC HokC) as (C' & EC' & HwfC' & HokC' & HsC' & HfC' & HsubC' & HlangC'). rewrite EC'. cbn [rbind].
  destruct (reindex_with_spec C' HwfC' HokC') as (m2 & R & ER & Hok2 & HwfR & HokR & HedR & HdefR & HstR & HfinR & HfdefR & _ & HlangR).
  rewrite ER. cbn [rbind fst snd].
  set (fm1 := map (fun states => fold_left (fun acc f => indices_containing f ds 0 acc) states []) fm0).
  destruct (fm2_fold fm1 m2 [] Hok2) as (F1 & F2 & F3 & _ & F5).
  set (rf := fold_left fm2_step fm1 (m2, [])) in *.
  exists R, (snd rf). split; [reflexivity|]. split; [exact HwfR|]. split; [exact HokR|].
  assert (Hlen : length (snd rf) = length dl).
  { rewrite F3. unfold fm1. rewrite map_length, Klen. unfold ns. rewrite map_length. simpl. lia. }
  split; [exact Hlen|]. intros w Hw.
  (* operands as NFAs *)
  assert (Hopnd : forall k d, nth_error dl k = Some d ->
            In (Z.of_nat k, tonfa d) ins /\ good_dfa d /\ (nlang (tonfa d) w <-> daccept d w = true)).
  { intros k d Hk. assert (Hd : In d dl) by (eapply nth_error_In; eauto).
    rewrite Forall_forall in Hgood. pose proof (Hgood d Hd) as Hgd. destruct Hgd as (G1 & G2 & G3).
    split; [|split; [exact (conj G1 (conj G2 G3))|]].
    - replace (Z.of_nat k) with (0 + Z.of_nat k) by lia. apply Kpos. unfold ns. now apply map_nth_error.
    - rewrite tonfa_lang, daccept_ok by assumption. reflexivity. }
  (* the language of the union automaton *)
  assert (HlangU : nlang U w <-> exists d, In d dl /\ daccept d w = true).
  { rewrite (union_shape_lang U mU ins I1 I5 I8 I3 I4 I6 w). split.
    - intros (i & n & Hin & Hl). apply Kins in Hin. destruct Hin as [[]|[k [-> Hk]]].
      unfold ns in Hk. apply nth_error_map_inv in Hk. destruct Hk as [d [Hk <-]].
      exists d. split; [eapply nth_error_In; eauto|]. now apply (Hopnd k d Hk).
    - intros (d & Hd & Ha). apply In_nth_error in Hd. destruct Hd as [k Hk].
      exists (Z.of_nat k), (tonfa d). destruct (Hopnd k d Hk) as (H1 & _ & H3). split; [exact H1 | now apply H3]. }
  assert (HaccC : daccept C w = true <-> exists d, In d dl /\ daccept d w = true).
  { rewrite <- HlangU. destruct (naccept_ok U w Hw) as [b [Eb Hb]].
    pose proof (sub_accept U S0 ds C Hsinv HfinC ES0 w Hw) as Hs. rewrite Eb in Hs. inversion Hs; subst. exact Hb. }
  split.
  - apply Bool.eq_true_iff_eq. rewrite HlangR, HlangC', HaccC, existsb_accept. reflexivity.
  - intros k d Hk. destruct (Hopnd k d Hk) as (Hin & (Gw & Gok & Gne) & Hld).
    assert (Hkn : nth_error ns k = Some (tonfa d)) by (unfold ns; now apply map_nth_error).
    destruct (Kfm k (tonfa d) Hkn) as [ffs [Hffs Hffs_in]]. simpl in Hffs.
    assert (Hfm1k : nth_error fm1 k = Some (fold_left (fun acc f => indices_containing f ds 0 acc) ffs [])).
    { unfold fm1. exact (map_nth_error (fun states => fold_left (fun acc f => indices_containing f ds 0 acc) states []) k fm0 Hffs). }
    destruct (F5 k _ Hfm1k) as [mapped [Hmk Hmapped]]. simpl in Hmk.
    exists mapped. split; [exact Hmk|].
    (* states of the union automaton reached on w *)
    destruct (sub_sim U S0 ds C Hsinv HfinC w Hw O S0 (si_first _ _ _ _ _ _ Hsinv)) as [S' [ES' Hcase]].
    destruct (eclose_ok U (sof [nstart U])) as [S0' [ES0' [Hcl0 HS0]]]. rewrite ES0 in ES0'. inversion ES0'; subst S0'.
    destruct (nrun_ok U w S0 Hw Hcl0) as [S'' [ES'' [_ HS']]]. rewrite ES' in ES''. inversion ES''; subst S''.
    assert (Hreach : forall u, In u S' <-> npath U 0 w u).
    { intros u. rewrite HS'. split.
      - intros [s [Hs Hp]]. apply HS0 in Hs. destruct Hs as [s0 [Hs0 Hr]]. apply In_sof in Hs0.
        rewrite I3 in Hs0. destruct Hs0 as [<-|[]]. eapply npath_eps_l; eauto.
      - intros Hp. exists 0. split; [|exact Hp]. apply HS0. exists 0. split; [apply In_sof; rewrite I3; now left | constructor]. }
    assert (HfinalsK : (exists f, In f ffs /\ In f S') <-> daccept d w = true).
    { rewrite <- Hld. split.
      - intros [y [Hy HyS]]. apply Hffs_in in Hy. destruct Hy as [f [Hf Hy]]. replace (0 + Z.of_nat k) with (Z.of_nat k) in Hy by lia.
        exists f. split; [exact Hf|]. apply (reach_mapped U mU ins I1 I5 I8 I4 I6 (Z.of_nat k) (tonfa d) f y w Hin Hy). now apply Hreach.
      - intros [f [Hf Hp]]. destruct (I5 _ _ Hin) as (_ & _ & D3). destruct (D3 f Hf) as [y Hy].
        exists y. split.
        + apply Hffs_in. exists f. split; [exact Hf|]. replace (0 + Z.of_nat k) with (Z.of_nat k) by lia. exact Hy.
        + apply Hreach. now apply (reach_mapped U mU ins I1 I5 I8 I4 I6 (Z.of_nat k) (tonfa d) f y w Hin Hy). }
    (* exactness at the subset-construction DFA *)
    assert (HexC : In (drun C (dstart C) w) (fold_left (fun acc f => indices_containing f ds 0 acc) ffs []) <-> daccept d w = true).
    { rewrite (si_start _ _ _ _ _ _ Hsinv). change 0 with (Z.of_nat 0). rewrite fm1_spec, <- HfinalsK.
      destruct Hcase as [(k' & V & C1 & C2 & C3)|[C1 C2]].
      - rewrite C1. split.
        + intros (f & k2 & V2 & H1 & H2 & H3 & H4). assert (k2 = k') by lia. subst k2.
          assert (V2 = V) by congruence. subst V2. exists f. split; [exact H1 | now apply C3].
        + intros [f [H1 H2]]. exists f, k', V. split; [exact H1|]. split; [reflexivity|]. split; [exact C2 | now apply C3].
      - rewrite C1, C2. split.
        + intros (f & k2 & V2 & _ & H2 & _). lia.
        + intros [f [_ []]]. }
    (* through EliminateDeadStates *)
    assert (HE2 : drun C' (dstart C') w <> -1 -> drun C' (dstart C') w = drun C (dstart C) w).
    { intros Hne. rewrite <- HsC'. symmetry. apply (dpath_drun C HokC).
      assert (Hp : dpath C' (dstart C') w (drun C' (dstart C') w)) by (apply drun_dpath; auto).
      clear - Hp HsubC'. induction Hp; econstructor; eauto. }
    assert (HexC' : In (drun C' (dstart C') w) (fold_left (fun acc f => indices_containing f ds 0 acc) ffs []) <-> daccept d w = true).
    { split.
      - intros Hin'. assert (Hne : drun C' (dstart C') w <> -1).
        { apply fm1_spec in Hin'. destruct Hin' as (f & k2 & V2 & _ & H2 & _). lia. }
        rewrite (HE2 Hne) in Hin'. now apply HexC.
      - intros Ha. assert (HaC : daccept C' w = true).
        { rewrite HlangC'. apply HaccC. exists d. split; [eapply nth_error_In; eauto | exact Ha]. }
        assert (Hne : drun C' (dstart C') w <> -1).
        { unfold daccept in HaC. apply smem_In in HaC. destruct HokC' as (_ & Hf & _). rewrite Forall_forall in Hf.
          specialize (Hf _ HaC). lia. }
        rewrite (HE2 Hne). now apply HexC. }
    (* through the renumbering *)
    rewrite Hmapped, <- HexC'. split.
    + intros [x [Hx Hy]].
      assert (Hne : drun R (dstart R) w <> -1) by (apply (ok_range _ _ F1) in Hy; lia).
      assert (Hp : dpath R (dstart R) w (drun R (dstart R) w)) by (apply drun_dpath; auto).
      destruct (ren_bwd C' R m2 Hok2 HedR _ _ _ Hp (dstart C') HstR) as [f [Hf Hpf]].
      apply (dpath_drun C' HokC') in Hpf. rewrite Hpf.
      destruct (ok_inj _ _ F1 _ _ _ _ _ Hy (F2 _ _ _ Hf)) as [_ ->]. exact Hx.
    + intros Hx. exists (drun C' (dstart C') w). split; [exact Hx|].
      assert (Hne : drun C' (dstart C') w <> -1).
      { apply fm1_spec in Hx. destruct Hx as (f & k2 & V2 & _ & H2 & _). lia. }
      assert (Hp : dpath C' (dstart C') w (drun C' (dstart C') w)) by (apply drun_dpath; auto).
      destruct (ren_fwd C' R m2 HedR HdefR _ _ _ Hp (dstart R) HstR) as [y [Hy Hpy]].
      apply (dpath_drun R HokR) in Hpy. rewrite Hpy. now apply F2.
Qed.
