(** C13 — basic facts about the containers of the model: binary-fuel loops, sorted sets,
    association lists, Add on automata, nested folds over transition tables. *)
From Coq Require Import ZArith List Bool Lia Sorted.
From Algo.C13 Require Import Model Spec.
Import ListNotations.
Open Scope Z_scope.

(** ** Loops on binary fuel *)
Section Loops.
  Context {S R : Type}.
  Variable f : S -> step_res S R.

  Lemma iter_pos_inv (Inv : S -> Prop) (Post : R -> Prop) :
    (forall s, Inv s -> match f s with More s' => Inv s' | Done r => Post r end) ->
    forall p s, Inv s -> match iter_pos p f s with More s' => Inv s' | Done r => Post r end.
  Proof.
    intros Hstep. induction p as [p IH | p IH |]; intros s Hs; simpl.
    - pose proof (Hstep s Hs) as H1. destruct (f s) as [s1|r]; [|exact H1].
      pose proof (IH s1 H1) as H2. destruct (iter_pos p f s1) as [s2|r]; [|exact H2].
      apply IH. exact H2.
    - pose proof (IH s Hs) as H1. destruct (iter_pos p f s) as [s1|r]; [|exact H1].
      apply IH. exact H1.
    - apply Hstep. exact Hs.
  Qed.

  Variable m : S -> nat.
  Hypothesis Hdec : forall s s', f s = More s' -> (m s' < m s)%nat.

  Lemma iter_pos_more : forall p s s', iter_pos p f s = More s' -> (m s' + Pos.to_nat p <= m s)%nat.
  Proof.
    induction p as [p IH | p IH |]; intros s s' H; simpl in H.
    - destruct (f s) as [s1|r] eqn:E1; [|discriminate].
      destruct (iter_pos p f s1) as [s2|r] eqn:E2; [|discriminate].
      apply Hdec in E1. apply IH in E2. apply IH in H. rewrite Pos2Nat.inj_xI. lia.
    - destruct (iter_pos p f s) as [s1|r] eqn:E1; [|discriminate].
      apply IH in E1. apply IH in H. rewrite Pos2Nat.inj_xO. lia.
    - apply Hdec in H. change (Pos.to_nat 1) with 1%nat. lia.
  Qed.

  Lemma iter_pos_term : forall p s, (m s < Pos.to_nat p)%nat -> exists r, iter_pos p f s = Done r.
  Proof.
    intros p s H. destruct (iter_pos p f s) as [s'|r] eqn:E; [|eauto].
    apply iter_pos_more in E. lia.
  Qed.
End Loops.

Lemma run_loop_inv {S R} (f : S -> step_res S R) (Inv : S -> Prop) (Post : R -> Prop) :
  (forall s, Inv s -> match f s with More s' => Inv s' | Done r => Post r end) ->
  forall p s r, Inv s -> run_loop p f s = Ok r -> Post r.
Proof.
  intros Hstep p s r Hs H. unfold run_loop in H.
  pose proof (iter_pos_inv f Inv Post Hstep p s Hs) as Hi.
  destruct (iter_pos p f s); [discriminate|]. inversion H; subst. exact Hi.
Qed.

Lemma run_loop_term {S R} (f : S -> step_res S R) (m : S -> nat) :
  (forall s s', f s = More s' -> (m s' < m s)%nat) ->
  forall p s, (m s < Pos.to_nat p)%nat -> exists r, run_loop p f s = Ok r.
Proof.
  intros Hd p s H. destruct (iter_pos_term f m Hd p s H) as [r Hr].
  exists r. unfold run_loop. now rewrite Hr.
Qed.

(** invariant-restricted termination: the measure only has to decrease on states satisfying Inv *)
Lemma run_loop_term_inv {S R} (f : S -> step_res S R) (Inv : S -> Prop) (m : S -> nat) :
  (forall s, Inv s -> match f s with More s' => Inv s' /\ (m s' < m s)%nat | Done _ => True end) ->
  forall p s, Inv s -> (m s < Pos.to_nat p)%nat -> exists r, run_loop p f s = Ok r.
Proof.
  intros Hstep.
  assert (Hmore : forall p s s', Inv s -> iter_pos p f s = More s' -> Inv s' /\ (m s' + Pos.to_nat p <= m s)%nat).
  { induction p as [p IH | p IH |]; intros s s' Hs H; simpl in H.
    - destruct (f s) as [s1|r] eqn:E1; [|discriminate].
      pose proof (Hstep s Hs) as H1. rewrite E1 in H1. destruct H1 as [I1 D1].
      destruct (iter_pos p f s1) as [s2|r] eqn:E2; [|discriminate].
      destruct (IH _ _ I1 E2) as [I2 D2]. destruct (IH _ _ I2 H) as [I3 D3].
      split; [exact I3|]. rewrite Pos2Nat.inj_xI. lia.
    - destruct (iter_pos p f s) as [s1|r] eqn:E1; [|discriminate].
      destruct (IH _ _ Hs E1) as [I1 D1]. destruct (IH _ _ I1 H) as [I2 D2].
      split; [exact I2|]. rewrite Pos2Nat.inj_xO. lia.
    - pose proof (Hstep s Hs) as H1. rewrite H in H1. destruct H1 as [I1 D1].
      split; [exact I1|]. change (Pos.to_nat 1) with 1%nat. lia. }
  intros p s Hs Hm. unfold run_loop.
  destruct (iter_pos p f s) as [s'|r] eqn:E; [|eauto].
  destruct (Hmore _ _ _ Hs E) as [_ D]. lia.
Qed.

Lemma pos_of_len_nat {A} (l : list A) : Pos.to_nat (pos_of_len l) = Datatypes.S (length l).
Proof. unfold pos_of_len. apply SuccNat2Pos.id_succ. Qed.

(** ** Sorted sets *)
Lemma In_sadd : forall x y l, In x (sadd y l) <-> x = y \/ In x l.
Proof.
  intros x y l. induction l as [|z r IH]; simpl.
  - intuition.
  - destruct (y <? z) eqn:E1; simpl; [intuition|].
    destruct (y =? z) eqn:E2; simpl.
    + apply Z.eqb_eq in E2. subst. intuition.
    + rewrite IH. intuition.
Qed.

Lemma smem_In : forall x l, smem x l = true <-> In x l.
Proof.
  intros x l. unfold smem. rewrite existsb_exists. split.
  - intros [y [Hy He]]. apply Z.eqb_eq in He. now subst.
  - intros H. exists x. split; [exact H | apply Z.eqb_refl].
Qed.

Lemma smem_false : forall x l, smem x l = false <-> ~ In x l.
Proof.
  intros x l. rewrite <- smem_In. destruct (smem x l); intuition congruence.
Qed.

Lemma In_sadd_all : forall xs l x, In x (sadd_all xs l) <-> In x xs \/ In x l.
Proof.
  unfold sadd_all. induction xs as [|y r IH]; intros l x; simpl.
  - intuition.
  - rewrite IH, In_sadd. intuition.
Qed.

Lemma In_sunion : forall a b x, In x (sunion a b) <-> In x a \/ In x b.
Proof. intros. unfold sunion. rewrite In_sadd_all. intuition. Qed.

Lemma In_sof : forall l x, In x (sof l) <-> In x l.
Proof. intros. unfold sof. rewrite In_sadd_all. simpl. intuition. Qed.

Lemma In_sremove : forall x y l, In x (sremove y l) <-> In x l /\ x <> y.
Proof.
  intros. unfold sremove. rewrite filter_In. rewrite negb_true_iff, Z.eqb_neq. intuition.
Qed.

Lemma In_sdiff : forall b a x, In x (sdiff a b) <-> In x a /\ ~ In x b.
Proof.
  unfold sdiff. induction b as [|y r IH]; intros a x; simpl.
  - intuition.
  - rewrite IH, In_sremove. intuition.
Qed.

(** ** Association lists *)
Lemma aget_aput_eq {V} : forall k (v : V) l, aget k (aput k v l) = Some v.
Proof.
  intros k v l. induction l as [|[k' v'] r IH]; simpl.
  - now rewrite Z.eqb_refl.
  - destruct (k <? k') eqn:E1; simpl; [now rewrite Z.eqb_refl|].
    destruct (k =? k') eqn:E2; simpl; [now rewrite Z.eqb_refl|].
    rewrite E2. exact IH.
Qed.

Lemma aget_aput_ne {V} : forall k k' (v : V) l, k <> k' -> aget k' (aput k v l) = aget k' l.
Proof.
  intros k k' v l Hne. induction l as [|[k2 v2] r IH]; simpl.
  - destruct (k' =? k) eqn:E; [apply Z.eqb_eq in E; congruence | reflexivity].
  - destruct (k <? k2) eqn:E1; simpl.
    + destruct (k' =? k) eqn:E; [apply Z.eqb_eq in E; congruence | reflexivity].
    + destruct (k =? k2) eqn:E2; simpl.
      * apply Z.eqb_eq in E2. subst k2.
        destruct (k' =? k) eqn:E; [apply Z.eqb_eq in E; congruence | reflexivity].
      * destruct (k' =? k2); [reflexivity | exact IH].
Qed.

Lemma aget_In {V} : forall k (v : V) l, aget k l = Some v -> In (k, v) l.
Proof.
  intros k v l. induction l as [|[k' v'] r IH]; simpl; [discriminate|].
  destruct (k =? k') eqn:E.
  - apply Z.eqb_eq in E. intros H. inversion H; subst. now left.
  - intros H. right. now apply IH.
Qed.

Lemma In_aget {V} : forall k (v : V) l, NoDup (map fst l) -> In (k, v) l -> aget k l = Some v.
Proof.
  intros k v l. induction l as [|[k' v'] r IH]; simpl; intros Hnd Hin; [contradiction|].
  inversion Hnd as [|? ? Hni Hnd']; subst.
  destruct Hin as [H|H].
  - inversion H; subst. now rewrite Z.eqb_refl.
  - destruct (k =? k') eqn:E.
    + apply Z.eqb_eq in E. subst. exfalso. apply Hni. apply in_map_iff. exists (k', v). auto.
    + now apply IH.
Qed.

(** keys strictly increasing *)
Definition ksorted {V} (l : list (Z * V)) : Prop := StronglySorted Z.lt (map fst l).

Lemma ksorted_NoDup {V} : forall l : list (Z * V), ksorted l -> NoDup (map fst l).
Proof.
  intros l. unfold ksorted. induction (map fst l) as [|x r IH]; intros H; constructor.
  - inversion H as [|? ? _ Hall]; subst. intros Hin.
    rewrite Forall_forall in Hall. specialize (Hall _ Hin). lia.
  - inversion H; subst. auto.
Qed.

Lemma aput_keys {V} : forall k (v : V) l x, In x (map fst (aput k v l)) <-> x = k \/ In x (map fst l).
Proof.
  intros k v l x. induction l as [|[k' v'] r IH]; simpl.
  - intuition.
  - destruct (k <? k') eqn:E1; simpl; [intuition|].
    destruct (k =? k') eqn:E2; simpl.
    + apply Z.eqb_eq in E2. subst. intuition.
    + rewrite IH. intuition.
Qed.

Lemma ksorted_aput {V} : forall k (v : V) l, ksorted l -> ksorted (aput k v l).
Proof.
  unfold ksorted. intros k v l. induction l as [|[k' v'] r IH]; simpl; intros H.
  - repeat constructor.
  - inversion H as [|? ? Hr Hall]; subst.
    destruct (k <? k') eqn:E1; simpl.
    + apply Z.ltb_lt in E1. constructor; [exact H|].
      constructor; [exact E1|]. rewrite Forall_forall in *. intros x Hx. specialize (Hall x Hx). lia.
    + destruct (k =? k') eqn:E2; simpl.
      * apply Z.eqb_eq in E2. subst. constructor; assumption.
      * apply Z.ltb_ge in E1. apply Z.eqb_neq in E2.
        constructor; [apply IH; exact Hr|].
        rewrite Forall_forall in *. intros x Hx. apply aput_keys in Hx.
        destruct Hx as [->|Hx]; [lia | now apply Hall].
Qed.

(** ** Well-formed tables (what NewNFA/NewDFA + Add build) *)
Definition nwf (n : nfa) : Prop :=
  ksorted (ntrans n) /\ Forall (fun e => ksorted (snd e)) (ntrans n).
Definition dwf (d : dfa) : Prop :=
  ksorted (dtrans d) /\ Forall (fun e => ksorted (snd e)) (dtrans d).

Lemma Forall_aput {V} (P : Z * V -> Prop) : forall k v l, P (k, v) -> Forall P l -> Forall P (aput k v l).
Proof.
  intros k v l Hp. induction l as [|[k' v'] r IH]; simpl; intros H.
  - constructor; auto.
  - inversion H; subst. destruct (k <? k'); [constructor; auto|].
    destruct (k =? k'); constructor; auto.
Qed.

Lemma aget_Forall {V} (P : Z * V -> Prop) : forall k v l, Forall P l -> aget k l = Some v -> P (k, v).
Proof.
  intros k v l H Hg. apply aget_In in Hg. rewrite Forall_forall in H. now apply H.
Qed.

Lemma nwf_new : forall s f, nwf (new_nfa s f).
Proof. intros. split; simpl; constructor. Qed.
Lemma dwf_new : forall s f, dwf (new_dfa s f).
Proof. intros. split; simpl; constructor. Qed.
Lemma nwf_empty : forall s f, nwf (mkNFA s f []).
Proof. intros. split; simpl; constructor. Qed.
Lemma dwf_empty : forall s f, dwf (mkDFA s f []).
Proof. intros. split; simpl; constructor. Qed.

Lemma nwf_nadd : forall n s a nx, nwf n -> nwf (nadd n s a nx).
Proof.
  intros n s a nx [H1 H2]. unfold nadd, nwf; simpl. split.
  - now apply ksorted_aput.
  - apply Forall_aput; [|exact H2]. simpl. apply ksorted_aput.
    unfold aget_or. destruct (aget s (ntrans n)) eqn:E.
    + apply (aget_Forall _ _ _ _ H2 E).
    + constructor.
Qed.

Lemma dwf_dadd : forall d s a t, dwf d -> dwf (dadd d s a t).
Proof.
  intros d s a t [H1 H2]. unfold dadd, dwf; simpl. split.
  - now apply ksorted_aput.
  - apply Forall_aput; [|exact H2]. simpl. apply ksorted_aput.
    unfold aget_or. destruct (aget s (dtrans d)) eqn:E.
    + apply (aget_Forall _ _ _ _ H2 E).
    + constructor.
Qed.

(** ** Add and the edge relations *)
Lemma nnext_l_nadd : forall n s a nx s' a',
  nnext_l (nadd n s a nx) s' a' =
  if (s' =? s) && (a' =? a) then sadd_all nx (nnext_l n s a) else nnext_l n s' a'.
Proof.
  intros. unfold nnext_l, nnext, nadd; simpl.
  destruct (s' =? s) eqn:Es; simpl.
  - apply Z.eqb_eq in Es. subst s'. rewrite aget_aput_eq.
    destruct (a' =? a) eqn:Ea.
    + apply Z.eqb_eq in Ea. subst a'. rewrite aget_aput_eq.
      unfold aget_or. destruct (aget s (ntrans n)) as [row|]; simpl; [|reflexivity].
      destruct (aget a row); reflexivity.
    + apply Z.eqb_neq in Ea. rewrite aget_aput_ne by congruence.
      unfold aget_or. destruct (aget s (ntrans n)) as [row|]; simpl; reflexivity.
  - apply Z.eqb_neq in Es. rewrite aget_aput_ne by congruence. reflexivity.
Qed.

Lemma nedge_nadd : forall n s a nx s' a' t,
  nedge (nadd n s a nx) s' a' t <-> nedge n s' a' t \/ (s' = s /\ a' = a /\ In t nx).
Proof.
  intros. unfold nedge. rewrite nnext_l_nadd.
  destruct (Z.eqb_spec s' s) as [->|Hs]; destruct (Z.eqb_spec a' a) as [->|Ha]; simpl.
  - rewrite In_sadd_all. intuition.
  - intuition.
  - intuition.
  - intuition.
Qed.

Lemma nstart_nadd : forall n s a nx, nstart (nadd n s a nx) = nstart n.
Proof. reflexivity. Qed.
Lemma nfinal_nadd : forall n s a nx, nfinal (nadd n s a nx) = nfinal n.
Proof. reflexivity. Qed.

Lemma dedge_dadd : forall d s a t s' a' t',
  dedge (dadd d s a t) s' a' t' <->
  (s' = s /\ a' = a /\ t' = t) \/ (~ (s' = s /\ a' = a) /\ dedge d s' a' t').
Proof.
  intros. unfold dedge, dadd; simpl.
  destruct (Z.eq_dec s' s) as [->|Hs].
  - rewrite aget_aput_eq. destruct (Z.eq_dec a' a) as [->|Ha].
    + split.
      * intros [row [H1 H2]]. inversion H1; subst. rewrite aget_aput_eq in H2. inversion H2. auto.
      * intros [[_ [_ ->]]|[Hn _]]; [|exfalso; auto].
        eexists. split; [reflexivity|]. apply aget_aput_eq.
    + split.
      * intros [row [H1 H2]]. inversion H1; subst. rewrite aget_aput_ne in H2 by congruence.
        right. split; [intuition|]. unfold aget_or in H2.
        destruct (aget s (dtrans d)) as [row|] eqn:E; [|discriminate]. exists row. auto.
      * intros [[_ [Hx _]]|[_ [row [H1 H2]]]]; [congruence|].
        eexists. split; [reflexivity|]. rewrite aget_aput_ne by congruence.
        unfold aget_or. rewrite H1. exact H2.
  - rewrite aget_aput_ne by congruence. split.
    + intros H. right. split; [intuition|exact H].
    + intros [[Hx _]|[_ H]]; [congruence|exact H].
Qed.

Lemma dedge_fun : forall d s a t t', dedge d s a t -> dedge d s a t' -> t = t'.
Proof.
  intros d s a t t' [r1 [H1 H2]] [r2 [H3 H4]]. congruence.
Qed.

Lemma dnext_dedge : forall d s a t, t <> -1 -> (dnext d s a = t <-> dedge d s a t).
Proof.
  intros d s a t Ht. unfold dnext, dedge. split.
  - destruct (aget s (dtrans d)) as [row|]; [|congruence].
    destruct (aget a row) as [t'|] eqn:E; [|congruence]. intros ->. eauto.
  - intros [row [H1 H2]]. now rewrite H1, H2.
Qed.

(** ** Nested folds over a transition table = a fold over its flat list of entries *)
Definition entries {V} (tr : list (Z * list (Z * V))) : list (Z * (Z * V)) :=
  flat_map (fun e => map (pair (fst e)) (snd e)) tr.

Lemma fold_nested {V A} (g : A -> Z -> Z * V -> A) : forall tr init,
  fold_left (fun acc e => fold_left (fun acc2 x => g acc2 (fst e) x) (snd e) acc) tr init =
  fold_left (fun acc sx => g acc (fst sx) (snd sx)) (entries tr) init.
Proof.
  induction tr as [|e r IH]; intros init; simpl; [reflexivity|].
  unfold entries in *. simpl. rewrite fold_left_app, IH. f_equal.
  generalize init. induction (snd e) as [|x xs IHx]; intros i; simpl; [reflexivity|]. apply IHx.
Qed.

Lemma In_entries {V} : forall (tr : list (Z * list (Z * V))) s a v,
  In (s, (a, v)) (entries tr) <-> exists row, In (s, row) tr /\ In (a, v) row.
Proof.
  intros. unfold entries. rewrite in_flat_map. split.
  - intros [[s' row] [H1 H2]]. simpl in H2. apply in_map_iff in H2. destruct H2 as [[a' v'] [H2 H3]].
    inversion H2; subst. eauto.
  - intros [row [H1 H2]]. exists (s, row). split; [exact H1|]. simpl. apply in_map_iff. exists (a, v). auto.
Qed.

Lemma In_entries_aget {V} : forall (tr : list (Z * list (Z * V))) s a v,
  ksorted tr -> Forall (fun e => ksorted (snd e)) tr ->
  (In (s, (a, v)) (entries tr) <-> exists row, aget s tr = Some row /\ aget a row = Some v).
Proof.
  intros tr s a v H1 H2. rewrite In_entries. split.
  - intros [row [Hr Ha]]. exists row. split.
    + apply In_aget; [now apply ksorted_NoDup | exact Hr].
    + apply In_aget; [|exact Ha]. apply ksorted_NoDup.
      rewrite Forall_forall in H2. apply (H2 _ Hr).
  - intros [row [Hr Ha]]. exists row. split; now apply aget_In.
Qed.

Lemma nedge_entries : forall n s a t, nwf n ->
  (nedge n s a t <-> exists l, In (s, (a, l)) (entries (ntrans n)) /\ In t l).
Proof.
  intros n s a t [H1 H2]. unfold nedge, nnext_l, nnext. split.
  - destruct (aget s (ntrans n)) as [row|] eqn:E1; [|simpl; contradiction].
    destruct (aget a row) as [l|] eqn:E2; [|simpl; contradiction].
    intros Hin. exists l. split; [|exact Hin]. apply In_entries_aget; eauto.
  - intros [l [Hin Ht]]. apply In_entries_aget in Hin; auto. destruct Hin as [row [E1 E2]].
    now rewrite E1, E2.
Qed.

Lemma dedge_entries : forall d s a t, dwf d ->
  (dedge d s a t <-> In (s, (a, t)) (entries (dtrans d))).
Proof.
  intros d s a t [H1 H2]. unfold dedge. symmetry. now apply In_entries_aget.
Qed.

(** ** everything built through NewNFA/NewDFA + Add is well-formed *)
Lemma nwf_nbuild : forall s f adds, nwf (nbuild s f adds).
Proof.
  intros s f adds. unfold nbuild. generalize (nwf_new s f). generalize (new_nfa s f).
  induction adds as [|e r IH]; intros n Hn; simpl; [exact Hn|]. apply IH. now apply nwf_nadd.
Qed.

Lemma dwf_dbuild : forall s f adds, dwf (dbuild s f adds).
Proof.
  intros s f adds. unfold dbuild. generalize (dwf_new s f). generalize (new_dfa s f).
  induction adds as [|e r IH]; intros n Hn; simpl; [exact Hn|]. apply IH. now apply dwf_dadd.
Qed.
