(** C13 — ReindexStates renames the states by an injective map and so preserves the language. *)
From Coq Require Import ZArith List Bool Lia.
From Algo.C13 Require Import Model Spec Lemmas ProofsNFA ProofsDFA ProofsSM ProofsElim ProofsSubset.
Import ListNotations.
Open Scope Z_scope.

(** ** a DFA renamed by a state manager *)
Definition renamed_edges (m : smgr) (P : Z -> Z -> Z -> Prop) (acc : dfa) : Prop :=
  forall x a y, dedge acc x a y <-> exists s t, P s a t /\ sm_find m 0 s = Some x /\ sm_find m 0 t = Some y.

Definition all_defined (m : smgr) (P : Z -> Z -> Z -> Prop) : Prop :=
  forall s a t, P s a t -> (exists x, sm_find m 0 s = Some x) /\ (exists y, sm_find m 0 t = Some y).

Record rinv (d : dfa) (l : list (Z * (Z * Z))) (m : smgr) (acc : dfa) : Prop := {
  ri_ok : sm_ok (-1) m;
  ri_edges : renamed_edges m (fun s a t => In (s, (a, t)) l) acc;
  ri_def : all_defined m (fun s a t => In (s, (a, t)) l);
  ri_wf : dwf acc;
  ri_src : forall s a t, In (s, (a, t)) l -> dedge d s a t }.

Definition drow_step (ss : Z) (md2 : smgr * dfa) (at_ : Z * Z) : smgr * dfa :=
  let '(mb, tq) := goc (fst md2) 0 (snd at_) in (mb, dadd (snd md2) ss (fst at_) tq).

Definition dtable_step (md : smgr * dfa) (e : Z * list (Z * Z)) : smgr * dfa :=
  let '(ma, ss) := goc (fst md) 0 (fst e) in fold_left (drow_step ss) (snd e) (ma, snd md).

Lemma rename_row : forall d s ss row l m acc,
  rinv d l m acc -> sm_find m 0 s = Some ss -> (forall a t, In (a, t) row -> dedge d s a t) ->
  exists m' acc', fold_left (drow_step ss) row (m, acc) = (m', acc') /\
    rinv d (l ++ map (pair s) row) m' acc' /\ sm_ext m m' /\
    dstart acc' = dstart acc /\ dfinal acc' = dfinal acc.
Proof.
  intros d s ss. induction row as [|[a t] row IH]; intros l m acc Hinv Hss Hrow; simpl.
  - exists m, acc. rewrite app_nil_r. split; [reflexivity|]. split; [exact Hinv|]. split; [apply sm_ext_refl | auto].
  - unfold drow_step at 2. simpl. destruct (goc m 0 t) as [m1 tq] eqn:Eg.
    destruct Hinv as [Hok He Hd Hw Hsrc].
    destruct (goc_spec (-1) m 0 t m1 tq Hok Eg) as (Hok1 & Hext1 & Hf1 & Hdom1).
    assert (Hinv1 : rinv d (l ++ [(s, (a, t))]) m1 (dadd acc ss a tq)).
    { split.
      - exact Hok1.
      - intros x b y. rewrite dedge_dadd. split.
        + intros [(-> & -> & ->)|[Hn Hacc]].
          * exists s, t. split; [apply in_or_app; right; now left|]. split; [now apply Hext1 | exact Hf1].
          * apply He in Hacc. destruct Hacc as (s1 & t1 & H1 & H2 & H3).
            exists s1, t1. split; [apply in_or_app; now left|]. split; now apply Hext1.
        + intros (s1 & t1 & Hin & H2 & H3). apply in_app_or in Hin.
          assert (Hcase : (s1 = s /\ b = a /\ t1 = t) \/ In (s1, (b, t1)) l).
          { destruct Hin as [Hin|[Hin|[]]]; [now right | inversion Hin; now left]. }
          destruct Hcase as [(-> & -> & ->)|Hin'].
          * left. apply Hext1 in Hss. split; [congruence|]. split; [reflexivity | congruence].
          * destruct (Hd _ _ _ Hin') as [[x' Hx'] [y' Hy']].
            assert (x' = x) by (apply Hext1 in Hx'; congruence). assert (y' = y) by (apply Hext1 in Hy'; congruence). subst x' y'.
            destruct (Z.eq_dec x ss) as [->|Hne]; [destruct (Z.eq_dec b a) as [->|Hne]|].
            -- (* same source and symbol: the source edge is the same one *)
               destruct (ok_inj _ _ Hok _ _ _ _ _ Hx' Hss) as [_ ->].
               assert (t1 = t) by (eapply dedge_fun; [apply Hsrc; exact Hin' | apply Hrow; now left]). subst t1.
               left. split; [reflexivity|]. split; [reflexivity|]. congruence.
            -- right. split; [intros [_ H]; congruence|]. apply He. exists s1, t1. auto.
            -- right. split; [intros [H _]; congruence|]. apply He. exists s1, t1. auto.
      - intros s1 b t1 Hin. apply in_app_or in Hin. destruct Hin as [Hin|[Hin|[]]].
        + destruct (Hd _ _ _ Hin) as [[x Hx] [y Hy]]. split; [exists x | exists y]; now apply Hext1.
        + inversion Hin; subst. split; [exists ss; now apply Hext1 | exists tq; exact Hf1].
      - now apply dwf_dadd.
      - intros s1 b t1 Hin. apply in_app_or in Hin. destruct Hin as [Hin|[Hin|[]]]; [now apply Hsrc|].
        inversion Hin; subst. apply Hrow. now left. }
    destruct (IH (l ++ [(s, (a, t))]) m1 (dadd acc ss a tq) Hinv1 (Hext1 _ _ _ Hss)) as (m' & acc' & E & Hinv' & Hext' & Hs' & Hf').
    { intros b t' Hin. apply Hrow. now right. }
    exists m', acc'. split; [exact E|]. rewrite <- app_assoc in Hinv'. simpl in Hinv'.
    split; [exact Hinv'|]. split; [eapply sm_ext_trans; eauto|]. simpl in *. auto.
Qed.

Lemma rename_table : forall d tr l m acc,
  rinv d l m acc -> (forall s row a t, In (s, row) tr -> In (a, t) row -> dedge d s a t) ->
  exists m' acc', fold_left dtable_step tr (m, acc) = (m', acc') /\
    rinv d (l ++ entries tr) m' acc' /\ sm_ext m m' /\
    dstart acc' = dstart acc /\ dfinal acc' = dfinal acc.
Proof.
  intros d. induction tr as [|[s row] tr IH]; intros l m acc Hinv Htr; simpl.
  - exists m, acc. unfold entries. simpl. rewrite app_nil_r. split; [reflexivity|]. split; [exact Hinv|].
    split; [apply sm_ext_refl | auto].
  - unfold dtable_step at 2. simpl. destruct (goc m 0 s) as [m1 ss] eqn:Eg.
    destruct (goc_spec (-1) m 0 s m1 ss (ri_ok _ _ _ _ Hinv) Eg) as (Hok1 & Hext1 & Hf1 & _).
    assert (Hinv1 : rinv d l m1 acc).
    { destruct Hinv as [Hok He Hd Hw Hsrc]. split; auto.
      - intros x a y. rewrite (He x a y). split; intros (s1 & t1 & H1 & H2 & H3); exists s1, t1.
        + split; [exact H1|]. split; now apply Hext1.
        + destruct (Hd _ _ _ H1) as [[x' Hx'] [y' Hy']].
          pose proof (Hext1 _ _ _ Hx'). pose proof (Hext1 _ _ _ Hy'). split; [exact H1|]. split; congruence.
      - intros s1 a t1 Hin. destruct (Hd _ _ _ Hin) as [[x Hx] [y Hy]]. split; [exists x | exists y]; now apply Hext1. }
    destruct (rename_row d s ss row l m1 acc Hinv1 Hf1) as (m2 & acc2 & E2 & Hinv2 & Hext2 & Hs2 & Hfi2).
    { intros a t Hin. eapply Htr; [now left | exact Hin]. }
    rewrite E2.
    destruct (IH (l ++ map (pair s) row) m2 acc2 Hinv2) as (m' & acc' & E & Hinv' & Hext' & Hs' & Hf').
    { intros s' row' a t Hin Ha. eapply Htr; [right; exact Hin | exact Ha]. }
    exists m', acc'. split; [exact E|]. unfold entries in *. simpl. rewrite app_assoc.
    split; [exact Hinv'|]. split; [eapply sm_ext_trans; [eapply sm_ext_trans|]; eauto|]. split; congruence.
Qed.

(** ** the loop over the final states *)
Definition fin_step (mf : smgr * list Z) (f : Z) : smgr * list Z :=
  let '(m', ff) := goc (fst mf) 0 f in (m', sadd ff (snd mf)).

Lemma rename_finals : forall fs m acc, sm_ok (-1) m ->
  exists m' acc', fold_left fin_step fs (m, acc) = (m', acc') /\ sm_ok (-1) m' /\ sm_ext m m' /\
    (forall y, In y acc' <-> In y acc \/ exists f, In f fs /\ sm_find m' 0 f = Some y) /\
    (forall f, In f fs -> exists y, sm_find m' 0 f = Some y).
Proof.
  induction fs as [|f fs IH]; intros m acc Hok; simpl.
  - exists m, acc. split; [reflexivity|]. split; [exact Hok|]. split; [apply sm_ext_refl|]. split.
    + intros y. split; [auto|]. intros [H|[f [[] _]]]. exact H.
    + intros f [].
  - unfold fin_step at 2. simpl. destruct (goc m 0 f) as [m1 ff] eqn:Eg.
    destruct (goc_spec (-1) m 0 f m1 ff Hok Eg) as (Hok1 & Hext1 & Hf1 & _).
    destruct (IH m1 (sadd ff acc) Hok1) as (m' & acc' & E & Hok' & Hext' & Hin' & Hdef').
    exists m', acc'. split; [exact E|]. split; [exact Hok'|]. split; [eapply sm_ext_trans; eauto|]. split.
    + intros y. rewrite Hin', In_sadd. split.
      * intros [[->|H]|[f' [H1 H2]]]; [right; exists f; split; [now left | now apply Hext'] | auto | right; exists f'; auto].
      * intros [H|[f' [[->|H1] H2]]]; [auto | left; left; apply Hext' in Hf1; congruence | right; eauto].
    + intros f' [->|H]; [exists ff; now apply Hext' | now apply Hdef'].
Qed.

(** ** language of a renamed DFA *)
Section Renamed.
  Variables (d r : dfa) (m : smgr).
  Hypothesis Hokm : sm_ok (-1) m.
  Hypothesis Hokd : dfa_ok d.
  Hypothesis Hedges : forall x a y, dedge r x a y <-> exists s t, dedge d s a t /\ sm_find m 0 s = Some x /\ sm_find m 0 t = Some y.
  Hypothesis Hdef : forall s a t, dedge d s a t -> (exists x, sm_find m 0 s = Some x) /\ (exists y, sm_find m 0 t = Some y).
  Hypothesis Hstart : sm_find m 0 (dstart d) = Some (dstart r).
  Hypothesis Hfinal : forall y, In y (dfinal r) <-> exists f, In f (dfinal d) /\ sm_find m 0 f = Some y.

  Lemma ren_ok : dfa_ok r.
  Proof.
    split; [|split].
    - apply (ok_range _ _ Hokm) in Hstart. lia.
    - apply Forall_forall. intros y Hy. apply Hfinal in Hy. destruct Hy as [f [_ Hf]]. apply (ok_range _ _ Hokm) in Hf. lia.
    - intros x a y He. apply Hedges in He. destruct He as (s & t & _ & H1 & H2).
      apply (ok_range _ _ Hokm) in H1, H2. lia.
  Qed.

  Lemma ren_fwd : forall s w f, dpath d s w f -> forall x, sm_find m 0 s = Some x ->
    exists y, sm_find m 0 f = Some y /\ dpath r x w y.
  Proof.
    intros s w f Hp. induction Hp as [s|s a t u w He Hp IH]; intros x Hx.
    - exists x. split; [exact Hx | constructor].
    - destruct (Hdef _ _ _ He) as [_ [y Hy]]. destruct (IH y Hy) as [z [Hz Hpz]].
      exists z. split; [exact Hz|]. econstructor; [|exact Hpz]. apply Hedges. exists s, t. auto.
  Qed.

  Lemma ren_bwd : forall x w y, dpath r x w y -> forall s, sm_find m 0 s = Some x ->
    exists f, sm_find m 0 f = Some y /\ dpath d s w f.
  Proof.
    intros x w y Hp. induction Hp as [x|x a x' y w He Hp IH]; intros s Hx.
    - exists s. split; [exact Hx | constructor].
    - apply Hedges in He. destruct He as (s1 & t1 & He & H1 & H2).
      destruct (ok_inj _ _ Hokm _ _ _ _ _ H1 Hx) as [_ ->].
      destruct (IH t1 H2) as [f [Hf Hpf]]. exists f. split; [exact Hf|]. econstructor; eauto.
  Qed.

  Theorem renamed_accept : forall w, daccept r w = daccept d w.
  Proof.
    intros w. apply Bool.eq_true_iff_eq. rewrite (daccept_ok r w ren_ok), (daccept_ok d w Hokd). unfold dlang. split.
    - intros [y [Hy Hp]]. apply Hfinal in Hy. destruct Hy as [f0 [Hf0 Hy]].
      destruct (ren_bwd _ _ _ Hp (dstart d) Hstart) as [f [Hf Hpf]].
      destruct (ok_inj _ _ Hokm _ _ _ _ _ Hf Hy) as [_ ->]. eauto.
    - intros [f [Hf Hp]]. destruct (ren_fwd _ _ _ Hp (dstart r) Hstart) as [y [Hy Hpy]].
      exists y. split; [apply Hfinal; eauto | exact Hpy].
  Qed.
End Renamed.

(** ** the BFS that fixes the numbering *)
Definition bfs_inner (st2 : bfs_state) (at_ : Z * Z) : bfs_state :=
  let '((q, v), m') := st2 in
  let t := snd at_ in
  if smem t v then st2 else ((q ++ [t], sadd t v), fst (goc m' 0 t)).

Lemma bfs_step_eq : forall d queue visited m,
  bfs_step d ((queue, visited), m) =
  match queue with
  | [] => Done m
  | s :: rest => More (fold_left bfs_inner (aget_or [] s (dtrans d)) ((rest, visited), m))
  end.
Proof. reflexivity. Qed.

Lemma bfs_inner_fold : forall U row q v m, sm_ok (-1) m -> (forall a t, In (a, t) row -> In t U) ->
  sm_ok (-1) (snd (fold_left bfs_inner row ((q, v), m))) /\
  (length (fst (fst (fold_left bfs_inner row ((q, v), m)))) + unm U (snd (fst (fold_left bfs_inner row ((q, v), m))))
   <= length q + unm U v)%nat.
Proof.
  intros U. induction row as [|[a t] row IH]; intros q v m Hok HU; simpl; [split; [exact Hok | lia]|].
  destruct (smem t v) eqn:E.
  - apply IH; [exact Hok | intros; eapply HU; right; eauto].
  - apply smem_false in E. destruct (goc m 0 t) as [m1 tq] eqn:Eg. simpl.
    destruct (goc_spec (-1) m 0 t m1 tq Hok Eg) as (Hok1 & _).
    destruct (IH (q ++ [t]) (sadd t v) m1 Hok1) as [H1 H2]; [intros; eapply HU; right; eauto|].
    split; [exact H1|]. rewrite app_length in H2. simpl in H2.
    assert (unm U (sadd t v) < unm U v)%nat by (apply unm_sadd_lt; [eapply HU; now left | exact E]). lia.
Qed.

Lemma bfs_total : forall d m0, sm_ok (-1) m0 ->
  exists m1, run_loop (pos_of_len (dstates d) + 2)%positive (bfs_step d) (([dstart d], [dstart d]), m0) = Ok m1 /\
             sm_ok (-1) m1.
Proof.
  intros d m0 Hok.
  assert (HU : forall s a t, In (a, t) (aget_or [] s (dtrans d)) -> In t (dstates d)).
  { intros s a t Hin. unfold aget_or in Hin. destruct (aget s (dtrans d)) as [row|] eqn:E; [|destruct Hin].
    rewrite dstates_eq. apply dstates_fold. right. exists s, a, t. split; [|now right].
    apply In_entries. exists row. split; [now apply aget_In | exact Hin]. }
  destruct (run_loop_term_inv (bfs_step d) (fun st => sm_ok (-1) (snd st))
             (fun st => (length (fst (fst st)) + unm (dstates d) (snd (fst st)))%nat))
    with (p := (pos_of_len (dstates d) + 2)%positive) (s := (([dstart d], [dstart d]), m0)) as [m1 Hm1].
  - intros [[queue visited] m] Hm. rewrite bfs_step_eq. destruct queue as [|s rest]; [exact I|].
    simpl in Hm. destruct (bfs_inner_fold (dstates d) (aget_or [] s (dtrans d)) rest visited m Hm (HU s)) as [H1 H2].
    split; [exact H1|]. simpl. lia.
  - exact Hok.
  - simpl. rewrite Pos2Nat.inj_add, pos_of_len_nat. pose proof (unm_le_length (dstates d) [dstart d]).
    change (Pos.to_nat 2) with 2%nat.
    assert (unm (dstates d) [dstart d] < length (dstates d))%nat; [|lia].
    pose proof (unm_sadd_lt (dstates d) [] (dstart d) (dstart_in_dstates d) (fun H => H)) as Hlt.
    pose proof (unm_le_length (dstates d) []). simpl in Hlt. lia.
  - exists m1. split; [exact Hm1|].
    apply (run_loop_inv (bfs_step d) (fun st => sm_ok (-1) (snd st)) (sm_ok (-1))) in Hm1; auto.
    intros [[queue visited] m] Hm. rewrite bfs_step_eq. destruct queue as [|s rest]; [exact Hm|].
    simpl in Hm. apply (bfs_inner_fold (dstates d) (aget_or [] s (dtrans d)) rest visited m Hm (HU s)).
Qed.

Lemma fin_fold_sorted : forall fs m acc m' acc', ssorted acc -> fold_left fin_step fs (m, acc) = (m', acc') -> ssorted acc'.
Proof.
  induction fs as [|f fs IH]; intros m acc0 m' acc' Ha H; simpl in H; [inversion H; subst; exact Ha|].
  unfold fin_step at 2 in H. simpl in H. destruct (goc m 0 f) as [mm ff]. eapply IH; [|exact H]. now apply ssorted_sadd.
Qed.

Lemma reindex_with_eq : forall d,
  reindex_with d =
  rbind (run_loop (pos_of_len (dstates d) + 2)%positive (bfs_step d)
           (([dstart d], [dstart d]), fst (goc (sm_new (-1)) 0 (dstart d))))
    (fun m1 =>
       let '(m2, start) := goc m1 0 (dstart d) in
       let '(m3, fin) := fold_left fin_step (dfinal d) (m2, []) in
       Ok (fold_left dtable_step (dtrans d) (m3, mkDFA start fin []))).
Proof. reflexivity. Qed.

Theorem reindex_with_spec : forall d, dwf d -> dfa_ok d ->
  exists m r, reindex_with d = Ok (m, r) /\ sm_ok (-1) m /\ dwf r /\ dfa_ok r /\
    (forall x a y, dedge r x a y <-> exists s t, dedge d s a t /\ sm_find m 0 s = Some x /\ sm_find m 0 t = Some y) /\
    (forall s a t, dedge d s a t -> (exists x, sm_find m 0 s = Some x) /\ (exists y, sm_find m 0 t = Some y)) /\
    sm_find m 0 (dstart d) = Some (dstart r) /\
    (forall y, In y (dfinal r) <-> exists f, In f (dfinal d) /\ sm_find m 0 f = Some y) /\
    (forall f, In f (dfinal d) -> exists y, sm_find m 0 f = Some y) /\
    ssorted (dfinal r) /\
    forall w, daccept r w = daccept d w.
Proof.
  intros d Hwf Hok. rewrite reindex_with_eq.
  destruct (goc (sm_new (-1)) 0 (dstart d)) as [m0 s0] eqn:E0.
  destruct (goc_spec (-1) _ 0 (dstart d) m0 s0 (sm_ok_new (-1)) E0) as (Hok0 & _).
  destruct (bfs_total d m0 Hok0) as [m1 [E1 Hok1]]. simpl. rewrite E1. simpl.
  destruct (goc m1 0 (dstart d)) as [m2 start] eqn:E2.
  destruct (goc_spec (-1) m1 0 (dstart d) m2 start Hok1 E2) as (Hok2 & Hext2 & Hf2 & _).
  destruct (rename_finals (dfinal d) m2 [] Hok2) as (m3 & fin & E3 & Hok3 & Hext3 & Hfin & Hfdef). rewrite E3.
  assert (Hinv0 : rinv d [] m3 (mkDFA start fin [])).
  { split; auto.
    - intros x a y. split; [intros H; exfalso; eapply no_edge_empty_d; eauto | intros (s & t & [] & _)].
    - intros s a t [].
    - apply dwf_empty.
    - intros s a t []. }
  destruct (rename_table d (dtrans d) [] m3 _ Hinv0) as (m4 & r & E4 & Hinv4 & Hext4 & Hs4 & Hf4).
  { intros s row a t H1 H2. apply dedge_entries; [exact Hwf|]. apply In_entries. eauto. }
  rewrite E4. simpl in *. destruct Hinv4 as [Hok4 He4 Hd4 Hw4 Hsrc4].
  assert (Hedges : forall x a y, dedge r x a y <-> exists s t, dedge d s a t /\ sm_find m4 0 s = Some x /\ sm_find m4 0 t = Some y).
  { intros x a y. rewrite (He4 x a y). split; intros (s & t & H1 & H2); exists s, t; (split; [|exact H2]).
    - now apply dedge_entries.
    - now apply dedge_entries. }
  assert (Hdef : forall s a t, dedge d s a t -> (exists x, sm_find m4 0 s = Some x) /\ (exists y, sm_find m4 0 t = Some y)).
  { intros s a t He. apply (Hd4 s a t). now apply dedge_entries. }
  assert (Hstart : sm_find m4 0 (dstart d) = Some (dstart r)) by (rewrite Hs4; apply Hext4, Hext3; exact Hf2).
  assert (Hfinal : forall y, In y (dfinal r) <-> exists f, In f (dfinal d) /\ sm_find m4 0 f = Some y).
  { intros y. rewrite Hf4, Hfin. split.
    - intros [[]|[f [H1 H2]]]. exists f. split; [exact H1 | now apply Hext4].
    - intros [f [H1 H2]]. right. exists f. split; [exact H1|].
      destruct (Hfdef f H1) as [y' Hy']. pose proof (Hext4 _ _ _ Hy'). congruence. }
  exists m4, r. split; [reflexivity|]. split; [exact Hok4|]. split; [exact Hw4|].
  split; [eapply ren_ok; eauto|]. split; [exact Hedges|]. split; [exact Hdef|]. split; [exact Hstart|].
  split; [exact Hfinal|]. split.
  - intros f Hf. destruct (Hfdef f Hf) as [y Hy]. exists y. now apply Hext4.
  - split.
    + rewrite Hf4. eapply fin_fold_sorted; [|exact E3]. constructor.
    + eapply renamed_accept; eauto.
Qed.

Theorem reindex_ok : forall d, dwf d -> dfa_ok d ->
  exists r, reindex d = Ok r /\ dwf r /\ dfa_ok r /\ forall w, daccept r w = daccept d w.
Proof.
  intros d Hwf Hok. destruct (reindex_with_spec d Hwf Hok) as (m & r & E & _ & H1 & H2 & _ & _ & _ & _ & _ & _ & H3).
  exists r. unfold reindex. rewrite E. simpl. auto.
Qed.
