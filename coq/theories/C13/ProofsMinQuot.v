(** C13 — Minimize, part 1: the quotient of a DFA by a stable partition accepts the same language. *)
From Coq Require Import ZArith List Bool Lia.
From Algo.C13 Require Import Model Spec Lemmas ProofsNFA ProofsDFA ProofsElim.
Import ListNotations.
Open Scope Z_scope.

(** a good partition of the states of [d] *)
Record pgood (d : dfa) (p : partition) : Prop := {
  pg_cover : forall x, In x (dstates d) -> exists G r, In (G, r) (pgroups p) /\ In x G;
  pg_disj : forall G r G' r' x, In (G, r) (pgroups p) -> In (G', r') (pgroups p) ->
            In x G -> In x G' -> G = G' /\ r = r';
  pg_homog : forall G r x y, In (G, r) (pgroups p) -> In x G -> In y G ->
             (In x (dfinal d) <-> In y (dfinal d));
  pg_reps : forall G r G' r', In (G, r) (pgroups p) -> In (G', r') (pgroups p) -> r = r' -> G = G';
  pg_nonneg : forall G r, In (G, r) (pgroups p) -> 0 <= r < pnext p;
  pg_sub : forall G r x, In (G, r) (pgroups p) -> In x G -> In x (dstates d);
  pg_nodup : NoDup (map snd (pgroups p)) }.

(** two states of one group move, on every symbol, into one group *)
Definition pstable (d : dfa) (p : partition) : Prop :=
  forall G r x y a t, In (G, r) (pgroups p) -> In x G -> In y G -> dedge d x a t ->
    exists t', dedge d y a t' /\ prep p t' = prep p t.

Lemma prep_in : forall d p x G r, pgood d p -> In (G, r) (pgroups p) -> In x G -> prep p x = r.
Proof.
  intros d p x G r Hg Hin Hx. unfold prep.
  destruct (find (fun g => smem x (fst g)) (pgroups p)) as [[G' r']|] eqn:E.
  - apply find_some in E. destruct E as [E1 E2]. simpl in *. apply smem_In in E2.
    destruct (pg_disj d p Hg G r G' r' x Hin E1 Hx E2) as [_ ->]. reflexivity.
  - exfalso. pose proof (find_none _ _ E (G, r) Hin) as Hn. simpl in Hn. apply smem_false in Hn. auto.
Qed.

Lemma prep_some : forall p x r, prep p x = r -> r <> -1 \/ (exists G, In (G, r) (pgroups p) /\ In x G) ->
  exists G, In (G, r) (pgroups p) /\ In x G.
Proof.
  intros p x r H Hc. unfold prep in H.
  destruct (find (fun g => smem x (fst g)) (pgroups p)) as [[G' r']|] eqn:E.
  - apply find_some in E. destruct E as [E1 E2]. simpl in *. apply smem_In in E2. subst r'. eauto.
  - destruct Hc as [Hc|Hc]; [congruence | exact Hc].
Qed.

Lemma prep_state : forall d p x, pgood d p -> In x (dstates d) ->
  exists G, In (G, prep p x) (pgroups p) /\ In x G /\ 0 <= prep p x.
Proof.
  intros d p x Hg Hx. destruct (pg_cover d p Hg x Hx) as (G & r & Hin & HxG).
  rewrite (prep_in d p x G r Hg Hin HxG). exists G. split; [exact Hin|]. split; [exact HxG|].
  apply (pg_nonneg d p Hg G r Hin).
Qed.

(** ** the quotient automaton *)
Definition qentries (d : dfa) (p : partition) : list (Z * (Z * Z)) :=
  flat_map (fun G => map (fun at_ : Z * Z => (snd G, (fst at_, prep p (snd at_))))
                        (aget_or [] (hd 0 (fst G)) (dtrans d))) (pgroups p).

Lemma minimize_finish_eq : forall d p,
  minimize_finish d p =
  fold_left (fun acc (sx : Z * (Z * Z)) => dadd acc (fst sx) (fst (snd sx)) (snd (snd sx)))
    (qentries d p) (mkDFA (prep p (dstart d)) (sof (map (prep p) (dfinal d))) []).
Proof.
  intros d p. unfold minimize_finish, qentries.
  generalize (mkDFA (prep p (dstart d)) (sof (map (prep p) (dfinal d))) []).
  induction (pgroups p) as [|G r IH]; intros init; simpl; [reflexivity|].
  rewrite fold_left_app, <- IH. f_equal.
  unfold aget_or. destruct (aget (hd 0 (fst G)) (dtrans d)) as [row|]; [|reflexivity].
  generalize init. induction row as [|e row' IHr]; intros i; simpl; [reflexivity|]. apply IHr.
Qed.

Section Quotient.
  Variables (d : dfa) (p : partition).
  Hypothesis Hwf : dwf d.
  Hypothesis Hok : dfa_ok d.
  Hypothesis Hg : pgood d p.
  Hypothesis Hst : pstable d p.

  Let m := minimize_finish d p.

  Lemma In_qentries : forall g a y, In (g, (a, y)) (qentries d p) <->
    exists G t, In (G, g) (pgroups p) /\ dedge d (hd 0 G) a t /\ y = prep p t.
  Proof.
    intros g a y. unfold qentries. rewrite in_flat_map. split.
    - intros [[G g'] [Hin Hm]]. simpl in Hm. apply in_map_iff in Hm. destruct Hm as [[a' t] [He Hr]].
      simpl in He. inversion He; subst. exists G, t. split; [exact Hin|]. split; [|reflexivity].
      unfold aget_or in Hr. destruct (aget (hd 0 G) (dtrans d)) as [row|] eqn:E; [|destruct Hr].
      exists row. split; [exact E|]. apply In_aget; [|exact Hr]. apply ksorted_NoDup.
      destruct Hwf as [_ H2]. apply (aget_Forall _ _ _ _ H2 E).
    - intros (G & t & Hin & [row [E1 E2]] & ->). exists (G, g). split; [exact Hin|]. simpl.
      apply in_map_iff. exists (a, t). split; [reflexivity|]. unfold aget_or. rewrite E1. now apply aget_In.
  Qed.

  Lemma qentries_efun : efun (qentries d p).
  Proof.
    intros g a y y' H1 H2. apply In_qentries in H1, H2.
    destruct H1 as (G & t & Hin & He & ->). destruct H2 as (G' & t' & Hin' & He' & ->).
    assert (G = G') by (eapply (pg_reps d p Hg); eauto). subst G'.
    now rewrite (dedge_fun _ _ _ _ _ He He').
  Qed.

  Lemma min_edges : forall g a y, dedge m g a y <->
    exists G t, In (G, g) (pgroups p) /\ dedge d (hd 0 G) a t /\ y = prep p t.
  Proof.
    intros g a y. unfold m. rewrite minimize_finish_eq, dedge_fold_dadd by apply qentries_efun.
    rewrite In_qentries. split; [|auto]. intros [H|[H _]]; [exact H|]. exfalso. eapply no_edge_empty_d; eauto.
  Qed.

  Lemma min_start : dstart m = prep p (dstart d).
  Proof.
    unfold m. rewrite minimize_finish_eq.
    destruct (fold_dadd_start_final (qentries d p) (mkDFA (prep p (dstart d)) (sof (map (prep p) (dfinal d))) [])) as (H & _).
    exact H.
  Qed.

  Lemma min_final : forall y, In y (dfinal m) <-> exists f, In f (dfinal d) /\ y = prep p f.
  Proof.
    intros y. unfold m. rewrite minimize_finish_eq.
    destruct (fold_dadd_start_final (qentries d p) (mkDFA (prep p (dstart d)) (sof (map (prep p) (dfinal d))) [])) as (_ & H & _).
    rewrite H. simpl. rewrite In_sof, in_map_iff. split; intros [f Hf]; exists f; intuition.
  Qed.

  Lemma min_wf : dwf m.
  Proof.
    unfold m. rewrite minimize_finish_eq.
    destruct (fold_dadd_start_final (qentries d p) (mkDFA (prep p (dstart d)) (sof (map (prep p) (dfinal d))) [])) as (_ & _ & H).
    apply H, dwf_empty.
  Qed.

  Lemma hd_in : forall (G : list Z) x, In x G -> In (hd 0 G) G.
  Proof. intros [|y r] x H; [destruct H | now left]. Qed.

  Lemma q_fwd : forall x a t, In x (dstates d) -> dedge d x a t -> dedge m (prep p x) a (prep p t).
  Proof.
    intros x a t Hx He. destruct (prep_state d p x Hg Hx) as (G & Hin & HxG & _).
    apply min_edges. destruct (Hst G _ x (hd 0 G) a t Hin HxG (hd_in G x HxG) He) as [t' [He' Hr]].
    exists G, t'. auto.
  Qed.

  Lemma q_bwd : forall x a y, In x (dstates d) -> dedge m (prep p x) a y ->
    exists t, dedge d x a t /\ prep p t = y.
  Proof.
    intros x a y Hx He. destruct (prep_state d p x Hg Hx) as (G & Hin & HxG & _).
    apply min_edges in He. destruct He as (G' & t0 & Hin' & He0 & ->).
    assert (G' = G) by (eapply (pg_reps d p Hg); eauto). subst G'.
    destruct (Hst G _ (hd 0 G) x a t0 Hin (hd_in G x HxG) HxG He0) as [t [He Hr]]. eauto.
  Qed.

  Lemma q_path_fwd : forall x w f, dpath d x w f -> In x (dstates d) -> dpath m (prep p x) w (prep p f).
  Proof.
    intros x w f Hp. induction Hp as [x|x a t u w He Hp IH]; intros Hx; [constructor|].
    econstructor; [apply q_fwd; eauto|]. apply IH. apply (dedge_in_dstates d x a t He).
  Qed.

  Lemma q_path_bwd : forall g w y, dpath m g w y -> forall x, In x (dstates d) -> prep p x = g ->
    exists f, dpath d x w f /\ prep p f = y /\ In f (dstates d).
  Proof.
    intros g w y Hp. induction Hp as [g|g a g' y w He Hp IH]; intros x Hx Hr.
    - exists x. split; [constructor|]. auto.
    - subst g. destruct (q_bwd x a g' Hx He) as [t [Het Hrt]].
      destruct (IH t (proj2 (dedge_in_dstates d x a t Het)) Hrt) as (f & Hpf & Hrf & Hfs).
      exists f. split; [econstructor; eauto|]. auto.
  Qed.

  Lemma min_ok : dfa_ok m.
  Proof.
    split; [|split].
    - rewrite min_start. destruct (prep_state d p (dstart d) Hg (dstart_in_dstates d)) as (_ & _ & _ & H). exact H.
    - apply Forall_forall. intros y Hy. apply min_final in Hy. destruct Hy as [f [Hf ->]].
      destruct (prep_state d p f Hg (dfinal_in_dstates d f Hf)) as (_ & _ & _ & H). exact H.
    - intros g a y He. apply min_edges in He. destruct He as (G & t & Hin & He & ->). split.
      + apply (pg_nonneg d p Hg G g Hin).
      + destruct (prep_state d p t Hg (proj2 (dedge_in_dstates d _ a t He))) as (_ & _ & _ & H). exact H.
  Qed.

  Theorem quotient_accept : forall w, daccept m w = daccept d w.
  Proof.
    intros w. apply Bool.eq_true_iff_eq. rewrite (daccept_ok m w min_ok), (daccept_ok d w Hok).
    unfold dlang. rewrite min_start. split.
    - intros [y [Hy Hp]]. apply min_final in Hy. destruct Hy as [f' [Hf' ->]].
      destruct (q_path_bwd _ _ _ Hp (dstart d) (dstart_in_dstates d) eq_refl) as (f & Hpf & Hrf & Hfs).
      exists f. split; [|exact Hpf].
      destruct (prep_state d p f Hg Hfs) as (G & Hin & HfG & _).
      destruct (prep_state d p f' Hg (dfinal_in_dstates d f' Hf')) as (G' & Hin' & HfG' & _).
      rewrite Hrf in Hin. assert (G = G') by (eapply (pg_reps d p Hg); eauto). subst G'.
      apply (pg_homog d p Hg G _ f' f Hin' HfG' HfG). exact Hf'.
    - intros [f [Hf Hp]]. exists (prep p f). split; [apply min_final; eauto|].
      apply q_path_fwd; [exact Hp | apply dstart_in_dstates].
  Qed.
End Quotient.
