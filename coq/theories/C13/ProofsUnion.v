(** C13 — Union and Star compute the union and the Kleene closure. *)
From Coq Require Import ZArith List Bool Lia.
From Algo.C13 Require Import Model Spec Lemmas ProofsNFA ProofsDFA ProofsSM.
Import ListNotations.
Open Scope Z_scope.

(** ** the loop over the final states: ε-links from each mapped final state to fixed targets *)
Definition link_step (id : Z) (tgs : list Z) (mn : smgr * nfa) (f : Z) : smgr * nfa :=
  let '(m', ff) := goc (fst mn) id f in
  (m', fold_left (fun u t => nadd u ff E [t]) tgs (snd mn)).

Lemma links_edges : forall tgs u ff x a y,
  nedge (fold_left (fun u t => nadd u ff E [t]) tgs u) x a y <->
  nedge u x a y \/ (x = ff /\ a = E /\ In y tgs).
Proof.
  induction tgs as [|t r IH]; intros u ff x a y; simpl.
  - intuition.
  - rewrite IH, nedge_nadd. simpl. intuition.
Qed.

Lemma links_misc : forall tgs u ff,
  let u' := fold_left (fun u t => nadd u ff E [t]) tgs u in
  nstart u' = nstart u /\ nfinal u' = nfinal u /\ (nwf u -> nwf u').
Proof.
  induction tgs as [|t r IH]; intros u ff; simpl; [auto|].
  destruct (IH (nadd u ff E [t]) ff) as (H1 & H2 & H3).
  split; [exact H1|]. split; [exact H2|]. intros Hw. apply H3. now apply nwf_nadd.
Qed.

Lemma final_links : forall lo id tgs fs m u m' u', sm_ok lo m ->
  fold_left (link_step id tgs) fs (m, u) = (m', u') ->
  sm_ok lo m' /\ sm_ext m m' /\ nstart u' = nstart u /\ nfinal u' = nfinal u /\ (nwf u -> nwf u') /\
  (forall x a y, nedge u' x a y <-> nedge u x a y \/
      (a = E /\ In y tgs /\ exists f, In f fs /\ sm_find m' id f = Some x)) /\
  (forall f, In f fs -> exists x, sm_find m' id f = Some x) /\
  (forall id' s' v', sm_find m' id' s' = Some v' -> sm_find m id' s' = Some v' \/ id' = id).
Proof.
  intros lo id tgs. induction fs as [|f r IH]; intros m u m' u' Hok H; simpl in H.
  - inversion H; subst. split; [exact Hok|]. split; [apply sm_ext_refl|].
    split; [reflexivity|]. split; [reflexivity|]. split; [auto|]. split; [|split].
    + intros x a y. split; [auto|]. intros [Hx|(_ & _ & f & [] & _)]. exact Hx.
    + intros f [].
    + intros; now left.
  - unfold link_step at 2 in H. simpl in H. destruct (goc m id f) as [m1 ff] eqn:Eg.
    destruct (goc_spec lo m id f m1 ff Hok Eg) as (Hok1 & Hext1 & Hf1 & Hdom1).
    destruct (links_misc tgs u ff) as (Ls & Lf & Lw).
    destruct (IH m1 _ m' u' Hok1 H) as (Hok2 & Hext2 & Hs & Hfi & Hw & He & Hdef & Hdom).
    split; [exact Hok2|]. split; [eapply sm_ext_trans; eauto|].
    split; [congruence|]. split; [congruence|]. split; [auto|]. split; [|split].
    + intros x a y. rewrite He, links_edges. split.
      * intros [[Hx|(-> & -> & Hy)]|(-> & Hy & f' & Hin & Hx)]; [auto| |].
        -- right. split; [reflexivity|]. split; [exact Hy|]. exists f. split; [now left | now apply Hext2].
        -- right. split; [reflexivity|]. split; [exact Hy|]. exists f'. split; [now right | exact Hx].
      * intros [Hx|(-> & Hy & f' & [->|Hin] & Hx)]; [auto| |].
        -- left. right. apply Hext2 in Hf1. split; [congruence|]. auto.
        -- right. split; [reflexivity|]. split; [exact Hy|]. eauto.
    + intros f' [->|Hin]; [exists ff; now apply Hext2 | now apply Hdef].
    + intros id' s' v' Hv. apply Hdom in Hv. destruct Hv as [Hv|Hv]; [|now right].
      apply Hdom1 in Hv. destruct Hv as [Hv|[-> _]]; [now left | now right].
Qed.

(** ** the shape of a union automaton with respect to a manager *)
Definition defined_on (m : smgr) (i : Z) (n : nfa) : Prop :=
  (forall s a t, nedge n s a t -> (exists x, sm_find m i s = Some x) /\ (exists y, sm_find m i t = Some y)) /\
  (exists x, sm_find m i (nstart n) = Some x) /\
  (forall f, In f (nfinal n) -> exists x, sm_find m i f = Some x).

Definition ushape (m : smgr) (ins : list (Z * nfa)) (x a y : Z) : Prop :=
  (exists i n s t, In (i, n) ins /\ nedge n s a t /\ sm_find m i s = Some x /\ sm_find m i t = Some y) \/
  (exists i n, In (i, n) ins /\ x = 0 /\ a = E /\ sm_find m i (nstart n) = Some y) \/
  (exists i n f, In (i, n) ins /\ In f (nfinal n) /\ a = E /\ sm_find m i f = Some x /\ y = 1).

Definition udef (m : smgr) (ins : list (Z * nfa)) : Prop :=
  forall i n, In (i, n) ins -> defined_on m i n.

Lemma defined_on_ext : forall m m' i n, sm_ext m m' -> defined_on m i n -> defined_on m' i n.
Proof.
  intros m m' i n Hext (H1 & H2 & H3). split; [|split].
  - intros s a t He. destruct (H1 s a t He) as [[x Hx] [y Hy]]. split; eauto.
  - destruct H2 as [x Hx]. eauto.
  - intros f Hf. destruct (H3 f Hf) as [x Hx]. eauto.
Qed.

Lemma ushape_ext : forall m m' ins x a y, sm_ext m m' -> udef m ins ->
  (ushape m ins x a y <-> ushape m' ins x a y).
Proof.
  intros m m' ins x a y Hext Hdef. unfold ushape. split.
  - intros [(i & n & s & t & H1 & H2 & H3 & H4)|[(i & n & H1 & H2 & H3 & H4)|(i & n & f & H1 & H2 & H3 & H4 & H5)]].
    + left. exists i, n, s, t. auto.
    + right. left. exists i, n. auto.
    + right. right. exists i, n, f. auto 6.
  - intros [(i & n & s & t & H1 & H2 & H3 & H4)|[(i & n & H1 & H2 & H3 & H4)|(i & n & f & H1 & H2 & H3 & H4 & H5)]].
    + left. exists i, n, s, t. destruct (Hdef i n H1) as (D1 & _ & _).
      destruct (D1 s a t H2) as [[x' Hx'] [y' Hy']].
      pose proof (Hext _ _ _ Hx'). pose proof (Hext _ _ _ Hy').
      repeat split; auto; congruence.
    + right. left. exists i, n. destruct (Hdef i n H1) as (_ & [y' Hy'] & _).
      pose proof (Hext _ _ _ Hy'). repeat split; auto; congruence.
    + right. right. exists i, n, f. destruct (Hdef i n H1) as (_ & _ & D3).
      destruct (D3 f H2) as [x' Hx']. pose proof (Hext _ _ _ Hx'). repeat split; auto; congruence.
Qed.

(** ** one operand of Union *)
Lemma union_one_eq : forall m u id n,
  union_one 1 ((m, u), id) n =
  (let '(m1, u1) := fold_left (table_step id) (ntrans n) (m, u) in
   let '(m2, ss) := goc m1 id (nstart n) in
   fold_left (link_step id [1]) (nfinal n) (m2, nadd u1 0 E [ss]), id + 1).
Proof.
  intros. unfold union_one. simpl. rewrite copy_trans_eq.
  destruct (fold_left (table_step id) (ntrans n) (m, u)) as [m1 u1].
  destruct (goc m1 id (nstart n)) as [m2 ss]. reflexivity.
Qed.

Lemma mapped_edge_iff : forall m id n x a y, nwf n ->
  (mapped_edge m id (ntrans n) x a y <->
   exists s t, nedge n s a t /\ sm_find m id s = Some x /\ sm_find m id t = Some y).
Proof.
  intros m id n x a y Hw. unfold mapped_edge. split.
  - intros (s & row & nx & t & H1 & H2 & H3 & H4 & H5). exists s, t. split; [|auto].
    apply nedge_entries; [exact Hw|]. exists nx. split; [|exact H3]. apply In_entries. eauto.
  - intros (s & t & H1 & H2 & H3). apply nedge_entries in H1; [|exact Hw].
    destruct H1 as [nx [H1 H4]]. apply In_entries in H1. destruct H1 as [row [H1 H5]].
    exists s, row, nx, t. auto 6.
Qed.

Lemma union_one_spec : forall m u id n ins m' u' id',
  sm_ok 1 m -> nwf n -> nwf u -> udef m ins ->
  (forall x a y, nedge u x a y <-> ushape m ins x a y) ->
  union_one 1 ((m, u), id) n = ((m', u'), id') ->
  sm_ok 1 m' /\ sm_ext m m' /\ nwf u' /\ nstart u' = nstart u /\ nfinal u' = nfinal u /\ id' = id + 1 /\
  udef m' ((id, n) :: ins) /\
  (forall x a y, nedge u' x a y <-> ushape m' ((id, n) :: ins) x a y).
Proof.
  intros m u id n ins m' u' id' Hok Hwn Hwu Hdef Hedges H. rewrite union_one_eq in H.
  destruct (fold_left (table_step id) (ntrans n) (m, u)) as [m1 u1] eqn:E1.
  destruct (copy_table 1 id (ntrans n) m u m1 u1 Hok E1) as (Hok1 & Hext1 & Hs1 & Hf1 & Hw1 & He1 & Hd1 & _).
  destruct (goc m1 id (nstart n)) as [m2 ss] eqn:E2.
  destruct (goc_spec 1 m1 id (nstart n) m2 ss Hok1 E2) as (Hok2 & Hext2 & Hfs & _).
  inversion H as [[H0 Hid]]. clear H. rename H0 into H.
  destruct (final_links 1 id [1] (nfinal n) m2 (nadd u1 0 E [ss]) m' u' Hok2 H)
    as (Hok3 & Hext3 & Hs3 & Hf3 & Hw3 & He3 & Hd3 & _).
  assert (Hext : sm_ext m m') by (eapply sm_ext_trans; [eapply sm_ext_trans|]; eauto).
  assert (Hdn : defined_on m' id n).
  { split; [|split].
    - intros s a t He. apply nedge_entries in He; [|exact Hwn]. destruct He as [nx [He Ht]].
      apply In_entries in He. destruct He as [row [Hr Ha]].
      destruct (Hd1 s row Hr) as [[x Hx] Hd]. destruct (Hd a nx t Ha Ht) as [y Hy].
      split; [exists x | exists y]; apply Hext3, Hext2; assumption.
    - exists ss. now apply Hext3.
    - exact Hd3. }
  split; [exact Hok3|]. split; [exact Hext|]. split; [apply Hw3, nwf_nadd, Hw1, Hwu|].
  split; [rewrite Hs3; simpl; exact Hs1|]. split; [rewrite Hf3; simpl; exact Hf1|]. split; [reflexivity|].
  split.
  - intros i n0 [Hin|Hin]; [inversion Hin; subst; exact Hdn|].
    eapply defined_on_ext; [exact Hext | now apply Hdef].
  - intros x a y. rewrite He3, nedge_nadd, He1, Hedges.
    rewrite (ushape_ext m m' ins x a y Hext Hdef). unfold ushape. split.
    + intros [[[Hu|Hm]|(-> & -> & [<-|[]])]|(-> & [<-|[]] & f & Hf & Hx)].
      * destruct Hu as [(i & n0 & s & t & H1 & H2)|[(i & n0 & H1 & H2)|(i & n0 & f & H1 & H2)]].
        -- left. exists i, n0, s, t. split; [now right | exact H2].
        -- right. left. exists i, n0. split; [now right | exact H2].
        -- right. right. exists i, n0, f. split; [now right | exact H2].
      * apply mapped_edge_iff in Hm; [|exact Hwn]. destruct Hm as (s & t & H1 & H2 & H3).
        left. exists id, n, s, t. split; [now left|]. split; [exact H1|].
        split; apply Hext3, Hext2; assumption.
      * right. left. exists id, n. split; [now left|]. repeat split. now apply Hext3.
      * right. right. exists id, n, f. split; [now left|]. auto.
    + intros [(i & n0 & s & t & [Hin|Hin] & H2 & H3 & H4)|[(i & n0 & [Hin|Hin] & H2 & H3 & H4)|(i & n0 & f & [Hin|Hin] & H2 & H3 & H4 & H5)]].
      * inversion Hin; subst. left. left. right. apply mapped_edge_iff; [exact Hwn|].
        exists s, t. split; [exact H2|].
        destruct Hdn as (D1 & _ & _). apply nedge_entries in H2; [|exact Hwn]. destruct H2 as [nx [He Ht]].
        apply In_entries in He. destruct He as [row [Hr Ha]].
        destruct (Hd1 s row Hr) as [[x' Hx'] Hd]. destruct (Hd a nx t Ha Ht) as [y' Hy'].
        pose proof (Hext3 _ _ _ (Hext2 _ _ _ Hx')). pose proof (Hext3 _ _ _ (Hext2 _ _ _ Hy')).
        split; congruence.
      * left. left. left. left. exists i, n0, s, t. auto.
      * inversion Hin; subst. left. right. split; [reflexivity|]. split; [reflexivity|].
        left. apply Hext3 in Hfs. congruence.
      * left. left. left. right. left. exists i, n0. auto.
      * inversion Hin; subst. right. split; [reflexivity|]. split; [now left|]. exists f. auto.
      * left. left. left. right. right. exists i, n0, f. auto 6.
Qed.

(** ** the language of a union-shaped automaton *)
Lemma nodup_fst_fun {A} : forall (l : list (Z * A)) i a b,
  NoDup (map fst l) -> In (i, a) l -> In (i, b) l -> a = b.
Proof.
  induction l as [|[j c] r IH]; intros i a b Hnd Ha Hb; simpl in *; [contradiction|].
  inversion Hnd as [|? ? Hni Hnd']; subst.
  destruct Ha as [Ha|Ha]; destruct Hb as [Hb|Hb].
  - congruence.
  - inversion Ha; subst. exfalso. apply Hni. apply in_map_iff. exists (i, b). auto.
  - inversion Hb; subst. exfalso. apply Hni. apply in_map_iff. exists (i, a). auto.
  - eapply IH; eauto.
Qed.

Section UnionLang.
  Variables (U : nfa) (m : smgr) (ins : list (Z * nfa)).
  Hypothesis Hok : sm_ok 1 m.
  Hypothesis Hdef : udef m ins.
  Hypothesis Hnd : NoDup (map fst ins).
  Hypothesis Hstart : nstart U = 0.
  Hypothesis Hfinal : nfinal U = [1].
  Hypothesis Hedges : forall x a y, nedge U x a y <-> ushape m ins x a y.

  Lemma img_gt1 : forall i s x, sm_find m i s = Some x -> 1 < x.
  Proof. intros i s x H. apply (ok_range _ _ Hok) in H. lia. Qed.

  Lemma no_edge_from_1 : forall a y, ~ nedge U 1 a y.
  Proof.
    intros a y H. apply Hedges in H.
    destruct H as [(i & n & s & t & _ & _ & H & _)|[(i & n & _ & H & _)|(i & n & f & _ & _ & _ & H & _)]].
    - apply img_gt1 in H. lia.
    - lia.
    - apply img_gt1 in H. lia.
  Qed.

  Lemma path_from_1 : forall w z, npath U 1 w z -> w = [] /\ z = 1.
  Proof.
    intros w z H. remember 1 as x eqn:Ex. destruct H; subst; auto; exfalso; eapply no_edge_from_1; eauto.
  Qed.

  Lemma lift_path : forall i n, In (i, n) ins -> forall s w t, npath n s w t ->
    forall x, sm_find m i s = Some x -> exists y, sm_find m i t = Some y /\ npath U x w y.
  Proof.
    intros i n Hin s w t Hp. destruct (Hdef i n Hin) as (D1 & _ & _).
    induction Hp as [s|s t u w He Hp IH|s a t u w Ha He Hp IH]; intros x Hx.
    - exists x. split; [exact Hx | constructor].
    - destruct (D1 _ _ _ He) as [_ [y Hy]]. destruct (IH y Hy) as [z [Hz Hpz]].
      exists z. split; [exact Hz|]. eapply np_eps; [|exact Hpz].
      apply Hedges. left. exists i, n, s, t. auto.
    - destruct (D1 _ _ _ He) as [_ [y Hy]]. destruct (IH y Hy) as [z [Hz Hpz]].
      exists z. split; [exact Hz|]. eapply np_sym; [exact Ha| |exact Hpz].
      apply Hedges. left. exists i, n, s, t. auto.
  Qed.

  Lemma unlift_path : forall x w z, npath U x w z -> z = 1 ->
    forall i n s, In (i, n) ins -> sm_find m i s = Some x ->
    exists f, In f (nfinal n) /\ npath n s w f.
  Proof.
    intros x w z Hp. induction Hp as [x|x t u w He Hp IH|x a t u w Ha He Hp IH]; intros Hz i n s Hin Hx.
    - subst. apply img_gt1 in Hx. lia.
    - apply Hedges in He.
      destruct He as [(i' & n' & s' & t' & H1 & H2 & H3 & H4)|[(i' & n' & _ & H & _)|(i' & n' & f & H1 & H2 & _ & H3 & H4)]].
      + destruct (ok_inj _ _ Hok _ _ _ _ _ H3 Hx) as [-> ->].
        assert (n' = n) by (eapply nodup_fst_fun; eauto). subst n'.
        destruct (IH Hz i n t' Hin H4) as [f [Hf Hpf]]. exists f. split; [exact Hf|]. eapply np_eps; eauto.
      + apply img_gt1 in Hx. lia.
      + destruct (ok_inj _ _ Hok _ _ _ _ _ H3 Hx) as [-> ->].
        assert (n' = n) by (eapply nodup_fst_fun; eauto). subst n' t.
        apply path_from_1 in Hp. destruct Hp as [-> _]. exists s. split; [exact H2 | constructor].
    - apply Hedges in He.
      destruct He as [(i' & n' & s' & t' & H1 & H2 & H3 & H4)|[(i' & n' & _ & H & _)|(i' & n' & f & _ & _ & H & _)]].
      + destruct (ok_inj _ _ Hok _ _ _ _ _ H3 Hx) as [-> ->].
        assert (n' = n) by (eapply nodup_fst_fun; eauto). subst n'.
        destruct (IH Hz i n t' Hin H4) as [f [Hf Hpf]]. exists f. split; [exact Hf|]. eapply np_sym; eauto.
      + apply img_gt1 in Hx. lia.
      + contradiction.
  Qed.

  Theorem union_shape_lang : forall w, nlang U w <-> exists i n, In (i, n) ins /\ nlang n w.
  Proof.
    intros w. unfold nlang at 1. rewrite Hstart, Hfinal. split.
    - intros [f [[<-|[]] Hp]]. inversion Hp as [s E1 E2|s t u w' He Hp' E1 E2 E3|s a t u w' Ha He Hp' E1 E2 E3]; subst.
      + apply Hedges in He.
        destruct He as [(i & n & s & t' & _ & _ & H & _)|[(i & n & H1 & _ & _ & H2)|(i & n & f & _ & _ & _ & H & _)]].
        * apply img_gt1 in H. lia.
        * exists i, n. split; [exact H1|]. apply (unlift_path _ _ _ Hp' eq_refl i n (nstart n) H1 H2).
        * apply img_gt1 in H. lia.
      + apply Hedges in He.
        destruct He as [(i & n & s & t' & _ & _ & H & _)|[(i & n & _ & _ & H & _)|(i & n & f & _ & _ & H & _)]].
        * apply img_gt1 in H. lia.
        * contradiction.
        * contradiction.
    - intros (i & n & Hin & f & Hf & Hp). exists 1. split; [now left|].
      destruct (Hdef i n Hin) as (_ & [x Hx] & _).
      destruct (lift_path i n Hin _ _ _ Hp x Hx) as [y [Hy Hpy]].
      apply (np_eps U 0 x 1 w); [apply Hedges; right; left; exists i, n; repeat split; assumption|].
      apply (npath_snoc_eps U x w y 1 Hpy). apply Hedges. right. right. exists i, n, f. repeat split; assumption.
  Qed.
End UnionLang.

(** ** the fold over the operands *)
Record uinv (m : smgr) (u : nfa) (id : Z) (ins : list (Z * nfa)) : Prop := {
  ui_ok : sm_ok 1 m;
  ui_wf : nwf u;
  ui_start : nstart u = 0;
  ui_final : nfinal u = [1];
  ui_def : udef m ins;
  ui_edges : forall x a y, nedge u x a y <-> ushape m ins x a y;
  ui_ids : forall i n, In (i, n) ins -> i < id;
  ui_nd : NoDup (map fst ins) }.

Lemma union_fold : forall ns m u id ins m' u' id',
  Forall nwf ns -> uinv m u id ins ->
  fold_left (union_one 1) ns ((m, u), id) = ((m', u'), id') ->
  exists ins', uinv m' u' id' ins' /\ (forall n, In n (map snd ins') <-> In n ns \/ In n (map snd ins)).
Proof.
  induction ns as [|n r IH]; intros m u id ins m' u' id' Hwf Hinv H; simpl in H.
  - inversion H; subst. exists ins. split; [exact Hinv|]. intros n. simpl. intuition.
  - inversion Hwf as [|? ? Hwn Hwr]; subst. destruct Hinv as [I1 I2 I3 I4 I5 I6 I7 I8].
    destruct (union_one 1 ((m, u), id) n) as [[m1 u1] id1] eqn:E1.
    destruct (union_one_spec m u id n ins m1 u1 id1 I1 Hwn I2 I5 I6 E1) as (J1 & J2 & J3 & J4 & J5 & J6 & J7 & J8).
    assert (Hinv1 : uinv m1 u1 id1 ((id, n) :: ins)).
    { split; auto; try congruence.
      - intros i n0 [Hin|Hin]; [inversion Hin; subst; lia|]. apply I7 in Hin. lia.
      - simpl. constructor; [|exact I8]. intros Hin. apply in_map_iff in Hin.
        destruct Hin as [[i n0] [Hi Hin]]. simpl in Hi. subst i. apply I7 in Hin. lia. }
    destruct (IH m1 u1 id1 _ m' u' id' Hwr Hinv1 H) as [ins' [K1 K2]].
    exists ins'. split; [exact K1|]. intros n0. rewrite K2. simpl. intuition.
Qed.

Lemma uinv_init : uinv (sm_new 1) (new_nfa 0 [1]) 0 [].
Proof.
  split.
  - apply sm_ok_new.
  - apply nwf_new.
  - reflexivity.
  - reflexivity.
  - intros i n [].
  - intros x a y. split.
    + intros H. exfalso. eapply no_edge_empty_n. exact H.
    + intros [(i & n & s & t & [] & _)|[(i & n & [] & _)|(i & n & f & [] & _)]].
  - intros i n [].
  - constructor.
Qed.

(** Union accepts exactly the union of the operand languages (receiver first). *)
Theorem nunion_lang : forall ns w, Forall nwf ns ->
  (nlang (nunion ns) w <-> exists n, In n ns /\ nlang n w).
Proof.
  intros ns w Hwf. unfold nunion.
  destruct (fold_left (union_one 1) ns (sm_new 1, new_nfa 0 [1], 0)) as [[m' u'] id'] eqn:E. simpl.
  destruct (union_fold ns _ _ _ _ m' u' id' Hwf uinv_init E) as [ins' [[I1 I2 I3 I4 I5 I6 I7 I8] K]].
  rewrite (union_shape_lang u' m' ins' I1 I5 I8 I3 I4 I6 w). split.
  - intros (i & n & Hin & Hl). exists n. split; [|exact Hl].
    assert (In n (map snd ins')) by (apply in_map_iff; exists (i, n); auto).
    apply K in H. destruct H as [H|[]]. exact H.
  - intros (n & Hin & Hl). assert (In n (map snd ins')) by (apply K; now left).
    apply in_map_iff in H. destruct H as [[i n0] [Hn Hin']]. simpl in Hn. subst n0. eauto.
Qed.

Lemma nunion_wf : forall ns, Forall nwf ns -> nwf (nunion ns).
Proof.
  intros ns Hwf. unfold nunion.
  destruct (fold_left (union_one 1) ns (sm_new 1, new_nfa 0 [1], 0)) as [[m' u'] id'] eqn:E. simpl.
  destruct (union_fold ns _ _ _ _ m' u' id' Hwf uinv_init E) as [ins' [[I1 I2 I3 I4 I5 I6 I7 I8] K]]. exact I2.
Qed.

Theorem nunion_accept : forall ns w, Forall nwf ns -> word_ok w ->
  exists b, naccept (nunion ns) w = Ok b /\
            (b = true <-> exists n, In n ns /\ naccept n w = Ok true).
Proof.
  intros ns w Hwf Hw. destruct (naccept_ok (nunion ns) w Hw) as [b [E H]]. exists b. split; [exact E|].
  rewrite H, nunion_lang by exact Hwf. split.
  - intros (n & Hin & Hl). exists n. split; [exact Hin|].
    destruct (naccept_ok n w Hw) as [b' [E' H']]. rewrite E'. f_equal. now apply H'.
  - intros (n & Hin & Ha). exists n. split; [exact Hin|].
    destruct (naccept_ok n w Hw) as [b' [E' H']]. rewrite E' in Ha. inversion Ha; subst. now apply H'.
Qed.
