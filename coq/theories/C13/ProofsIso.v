(** C13 — Isomorphic answers true for a DFA and its copy renamed by an injective map. *)
From Coq Require Import ZArith List Bool Lia Sorted Permutation.
From Algo.C13 Require Import Model Spec Lemmas ProofsNFA ProofsDFA ProofsElim ProofsSubset ProofsSubsetTerm
  ProofsMinimal.
Import ListNotations.
Open Scope Z_scope.

(** ** the permutation search visits every permutation *)
Lemma set_nth_length : forall l i x, length (set_nth l i x) = length l.
Proof. induction l as [|y r IH]; intros [|i] x; simpl; auto. Qed.

Lemma nth_set_nth_eq : forall l i x dflt, (i < length l)%nat -> nth i (set_nth l i x) dflt = x.
Proof.
  induction l as [|y r IH]; intros i x dflt H; simpl in H; [lia|].
  destruct i as [|i]; simpl; [reflexivity|]. apply IH. lia.
Qed.

Lemma nth_set_nth_ne : forall l i j x dflt, i <> j -> nth j (set_nth l i x) dflt = nth j l dflt.
Proof.
  induction l as [|y r IH]; intros i j x dflt H; simpl; [reflexivity|].
  destruct i as [|i]; destruct j as [|j]; simpl; try reflexivity; try congruence. apply IH. congruence.
Qed.

Lemma swap_length : forall l i j, length (swap l i j) = length l.
Proof. intros. unfold swap. now rewrite !set_nth_length. Qed.

Lemma nth_swap : forall l i j k, (i < length l)%nat -> (j < length l)%nat ->
  nth k (swap l i j) 0 = if Nat.eqb k j then nth i l 0 else if Nat.eqb k i then nth j l 0 else nth k l 0.
Proof.
  intros l i j k Hi Hj. unfold swap.
  destruct (Nat.eqb_spec k j) as [->|Hkj].
  - apply nth_set_nth_eq. now rewrite set_nth_length.
  - rewrite nth_set_nth_ne by congruence. destruct (Nat.eqb_spec k i) as [->|Hki].
    + now apply nth_set_nth_eq.
    + apply nth_set_nth_ne. congruence.
Qed.

Lemma list_ext_nth : forall (l l' : list Z), length l = length l' ->
  (forall k, (k < length l)%nat -> nth k l 0 = nth k l' 0) -> l = l'.
Proof.
  induction l as [|x r IH]; intros [|y r'] Hl H; simpl in *; try discriminate; [reflexivity|].
  f_equal; [apply (H O); lia|]. apply IH; [lia|]. intros k Hk. apply (H (S k)). lia.
Qed.

Lemma skipn_nth_cons : forall (l : list Z) k, (k < length l)%nat -> skipn k l = nth k l 0 :: skipn (S k) l.
Proof.
  induction l as [|x r IH]; intros [|k] H; simpl in *; try lia; auto. apply IH. lia.
Qed.

Lemma In_skipn_nth : forall (l : list Z) start x, In x (skipn start l) <->
  exists i, (start <= i < length l)%nat /\ nth i l 0 = x.
Proof.
  induction l as [|y r IH]; intros start x.
  - rewrite skipn_nil. simpl. split; [contradiction|]. intros [i [Hi _]]. lia.
  - destruct start as [|start].
    + simpl. split.
      * intros [->|H]; [exists O; split; [lia | reflexivity]|].
        apply (IH O x) in H. destruct H as [i [Hi Hn]]. exists (S i). split; [lia | exact Hn].
      * intros [[|i] [Hi Hn]]; [now left|]. right. apply (IH O x). exists i. split; [lia | exact Hn].
    + simpl. rewrite IH. split.
      * intros [i [Hi Hn]]. exists (S i). split; [lia | exact Hn].
      * intros [[|i] [Hi Hn]]; [lia|]. exists i. split; [lia | exact Hn].
Qed.

Lemma NoDup_nth_Z : forall l : list Z, NoDup l <->
  forall i j, (i < length l)%nat -> (j < length l)%nat -> nth i l 0 = nth j l 0 -> i = j.
Proof. intros l. apply NoDup_nth. Qed.

Lemma NoDup_swap : forall l i j, (i < length l)%nat -> (j < length l)%nat -> NoDup l -> NoDup (swap l i j).
Proof.
  intros l i j Hi Hj Hnd. apply NoDup_nth_Z. rewrite swap_length. intros a b Ha Hb.
  rewrite !nth_swap by assumption. pose proof (proj1 (NoDup_nth_Z l) Hnd) as Hinj.
  destruct (Nat.eqb_spec a j); destruct (Nat.eqb_spec b j); destruct (Nat.eqb_spec a i); destruct (Nat.eqb_spec b i);
    subst; intros He; try reflexivity; try (apply Hinj in He; lia); try lia.
Qed.

Lemma NoDup_skipn_Z : forall (l : list Z) k, NoDup l -> NoDup (skipn k l).
Proof.
  induction l as [|x r IH]; intros [|k] H; simpl; auto. inversion H; subst. now apply IH.
Qed.

Lemma swap_suffix_elems : forall l start i x, (start <= i < length l)%nat ->
  (In x (skipn start (swap l start i)) <-> In x (skipn start l)).
Proof.
  intros l start i x Hi. rewrite !In_skipn_nth, swap_length. split.
  - intros [k [Hk Hn]]. rewrite nth_swap in Hn by lia.
    destruct (Nat.eqb_spec k i); [exists start; split; [lia | exact Hn]|].
    destruct (Nat.eqb_spec k start); [exists i; split; [lia | exact Hn] | exists k; split; [lia | exact Hn]].
  - intros [k [Hk Hn]].
    destruct (Nat.eq_dec k start) as [->|Hks]; [|destruct (Nat.eq_dec k i) as [->|Hki]].
    + exists i. split; [lia|]. rewrite nth_swap by lia. now rewrite Nat.eqb_refl.
    + exists start. split; [lia|]. rewrite nth_swap by lia.
      destruct (Nat.eqb_spec start i); [lia|]. now rewrite Nat.eqb_refl.
    + exists k. split; [lia|]. rewrite nth_swap by lia.
      destruct (Nat.eqb_spec k i); [lia|]. destruct (Nat.eqb_spec k start); [lia | exact Hn].
Qed.

(** [target] agrees with [l] before [start], and from [start] on holds the same elements *)
Definition reachable_from (l target : list Z) (start : nat) : Prop :=
  length target = length l /\
  (forall k, (k < start)%nat -> nth k target 0 = nth k l 0) /\
  (forall x, In x (skipn start l) <-> In x (skipn start target)).

Lemma genperm_S : forall k l start yield,
  genperm (S k) l start yield = forallb (fun i => genperm k (swap l start i) (S start) yield) (seq start (S (S k))).
Proof. reflexivity. Qed.

Lemma genperm_complete : forall k l start target yield,
  NoDup l -> NoDup target ->
  length l = (start + S k)%nat -> reachable_from l target start -> yield target = false ->
  genperm k l start yield = false.
Proof.
  induction k as [|k IH]; intros l start target yield Hndl Hndt Hlen (Htl & Hpre & Hel) Hy.
  - simpl. assert (target = l); [|now subst].
    apply list_ext_nth; [exact Htl|]. intros j Hj. rewrite Htl in Hj.
    destruct (Nat.lt_ge_cases j start) as [Hlt|Hge]; [now apply Hpre|].
    assert (j = start) by lia. subst j.
    assert (Hin : In (nth start target 0) (skipn start l)).
    { apply Hel. apply In_skipn_nth. exists start. split; [lia | reflexivity]. }
    apply In_skipn_nth in Hin. destruct Hin as [i [Hi Hn]]. assert (i = start) by lia. subst i. congruence.
  - rewrite genperm_S. apply not_true_is_false. intros Hall. rewrite forallb_forall in Hall.
    assert (Hin : In (nth start target 0) (skipn start l)).
    { apply Hel. apply In_skipn_nth. exists start. split; [lia | reflexivity]. }
    apply In_skipn_nth in Hin. destruct Hin as [i [Hi Hni]].
    assert (Hsw : nth start (swap l start i) 0 = nth start target 0).
    { rewrite nth_swap by lia. destruct (Nat.eqb_spec start i) as [<-|Hne]; [exact Hni|]. now rewrite Nat.eqb_refl. }
    assert (Hrec : genperm k (swap l start i) (S start) yield = false).
    { apply (IH (swap l start i) (S start) target yield); auto.
      - apply NoDup_swap; [lia | lia | exact Hndl].
      - rewrite swap_length. lia.
      - split; [now rewrite swap_length|]. split.
        + intros j Hj. destruct (Nat.eq_dec j start) as [->|Hjs]; [now rewrite Hsw|].
          rewrite nth_swap by lia. destruct (Nat.eqb_spec j i); [lia|].
          destruct (Nat.eqb_spec j start); [lia | apply Hpre; lia].
        + intros x.
          assert (Hs1 : skipn start (swap l start i) = nth start target 0 :: skipn (S start) (swap l start i)).
          { rewrite <- Hsw. apply skipn_nth_cons. rewrite swap_length. lia. }
          assert (Hs2 : skipn start target = nth start target 0 :: skipn (S start) target) by (apply skipn_nth_cons; lia).
          assert (Hnd1 : NoDup (skipn start (swap l start i))) by (apply NoDup_skipn_Z, NoDup_swap; [lia | lia | exact Hndl]).
          assert (Hnd2 : NoDup (skipn start target)) by (now apply NoDup_skipn_Z).
          rewrite Hs1 in Hnd1. rewrite Hs2 in Hnd2. inversion Hnd1; inversion Hnd2; subst.
          pose proof (swap_suffix_elems l start i x Hi) as Hse. rewrite Hs1 in Hse.
          pose proof (Hel x) as Hex. rewrite Hs2 in Hex. simpl in Hse, Hex. split; intros Hx.
          * assert (Hc : nth start target 0 = x \/ In x (skipn (S start) target)) by (apply Hex, Hse; now right).
            destruct Hc as [<-|Hc]; [contradiction | exact Hc].
          * assert (Hc : nth start target 0 = x \/ In x (skipn (S start) (swap l start i))) by (apply Hse, Hex; now right).
            destruct Hc as [<-|Hc]; [contradiction | exact Hc]. }
    specialize (Hall i). rewrite Hrec in Hall. discriminate Hall. apply in_seq. lia.
Qed.

Theorem gen_permutations_complete : forall l target yield,
  l <> [] -> NoDup l -> NoDup target -> length target = length l -> (forall x, In x l <-> In x target) ->
  yield target = false -> gen_permutations l yield = false.
Proof.
  intros l target yield Hne Hl Ht Hlen Hel Hy. unfold gen_permutations. destruct l as [|x r]; [congruence|].
  apply (genperm_complete (length r) (x :: r) O target yield); auto.
  split; [exact Hlen|]. split; [intros k Hk; lia|]. exact Hel.
Qed.

(** ** sorting *)
Lemma insert_sorted_perm : forall x l, Permutation (x :: l) (insert_sorted x l).
Proof.
  intros x l. induction l as [|y r IH]; simpl; [apply Permutation_refl|].
  destruct (x <=? y); [apply Permutation_refl|].
  eapply Permutation_trans; [apply perm_swap|]. now apply perm_skip.
Qed.

Lemma sort_z_perm : forall l, Permutation l (sort_z l).
Proof.
  induction l as [|x r IH]; simpl; [constructor|].
  eapply Permutation_trans; [apply perm_skip; exact IH | apply insert_sorted_perm].
Qed.

Lemma insert_sorted_sorted : forall x l, StronglySorted Z.le l -> StronglySorted Z.le (insert_sorted x l).
Proof.
  intros x l. induction l as [|y r IH]; simpl; intros H; [repeat constructor|].
  inversion H as [|? ? Hr Hall]; subst. destruct (x <=? y) eqn:E.
  - apply Z.leb_le in E. constructor; [exact H|]. constructor; [exact E|].
    rewrite Forall_forall in *. intros z Hz. specialize (Hall z Hz). lia.
  - apply Z.leb_gt in E. constructor; [now apply IH|].
    rewrite Forall_forall in *. intros z Hz.
    apply (Permutation_in z (Permutation_sym (insert_sorted_perm x r))) in Hz.
    destruct Hz as [->|Hz]; [lia | now apply Hall].
Qed.

Lemma sort_z_sorted : forall l, StronglySorted Z.le (sort_z l).
Proof. induction l as [|x r IH]; simpl; [constructor | now apply insert_sorted_sorted]. Qed.

Lemma sorted_perm_eq : forall l1 l2, StronglySorted Z.le l1 -> StronglySorted Z.le l2 -> Permutation l1 l2 -> l1 = l2.
Proof.
  induction l1 as [|x1 r1 IH]; intros l2 H1 H2 Hp.
  - apply Permutation_nil in Hp. now subst.
  - destruct l2 as [|x2 r2]; [apply Permutation_sym, Permutation_nil in Hp; discriminate|].
    inversion H1 as [|? ? Hr1 Ha1]; inversion H2 as [|? ? Hr2 Ha2]; subst.
    rewrite Forall_forall in Ha1, Ha2.
    assert (x1 = x2).
    { assert (I2 : In x2 (x1 :: r1)) by (eapply Permutation_in; [apply Permutation_sym; exact Hp | now left]).
      assert (I1 : In x1 (x2 :: r2)) by (eapply Permutation_in; [exact Hp | now left]).
      destruct I2 as [->|I2]; [reflexivity|]. destruct I1 as [->|I1]; [reflexivity|].
      specialize (Ha1 _ I2). specialize (Ha2 _ I1). lia. }
    subst x2. f_equal. apply IH; auto. eapply Permutation_cons_inv; eauto.
Qed.

Lemma sort_z_perm_eq : forall l1 l2, Permutation l1 l2 -> sort_z l1 = sort_z l2.
Proof.
  intros l1 l2 Hp. apply sorted_perm_eq; try apply sort_z_sorted.
  eapply Permutation_trans; [apply Permutation_sym, sort_z_perm|].
  eapply Permutation_trans; [exact Hp | apply sort_z_perm].
Qed.

Lemma list_eqb_refl : forall l, list_eqb l l = true.
Proof.
  intros l. unfold list_eqb. rewrite Nat.eqb_refl. simpl.
  induction l as [|x r IH]; simpl; [reflexivity|]. now rewrite Z.eqb_refl.
Qed.

(** ** degree tables *)
Definition cnt (x : Z) (ks : list Z) : nat := count_occ Z.eq_dec ks x.

Lemma bump_get : forall k dg x, aget_or 0 x (bump k dg) = aget_or 0 x dg + (if Z.eq_dec k x then 1 else 0).
Proof.
  intros k dg x. unfold bump, aget_or. destruct (Z.eq_dec k x) as [->|Hne].
  - now rewrite aget_aput_eq.
  - rewrite aget_aput_ne by exact Hne. lia.
Qed.

Lemma bump_fold_get : forall ks dg x,
  aget_or 0 x (fold_left (fun dg k => bump k dg) ks dg) = aget_or 0 x dg + Z.of_nat (cnt x ks).
Proof.
  induction ks as [|k r IH]; intros dg x; simpl; [lia|].
  rewrite IH, bump_get. unfold cnt. simpl. destruct (Z.eq_dec k x); lia.
Qed.

Lemma bump_fold_keys : forall ks dg x,
  In x (map fst (fold_left (fun dg k => bump k dg) ks dg)) <-> In x (map fst dg) \/ In x ks.
Proof.
  induction ks as [|k r IH]; intros dg x; simpl; [intuition|].
  rewrite IH. unfold bump. rewrite aput_keys. intuition.
Qed.

Lemma bump_fold_sorted : forall ks dg, ksorted dg -> ksorted (fold_left (fun dg k => bump k dg) ks dg).
Proof.
  induction ks as [|k r IH]; intros dg H; simpl; [exact H|]. apply IH. unfold bump. now apply ksorted_aput.
Qed.

Lemma aget_or_In : forall (l : list (Z * Z)) x v, NoDup (map fst l) -> In (x, v) l -> aget_or 0 x l = v.
Proof. intros l x v Hnd Hin. unfold aget_or. now rewrite (In_aget x v l Hnd Hin). Qed.

Lemma In_keys_aget : forall (l : list (Z * Z)) x, In x (map fst l) -> exists v, In (x, v) l.
Proof. intros l x H. apply in_map_iff in H. destruct H as [[k v] [<- Hin]]. eauto. Qed.

Lemma degtable_In : forall ks x v,
  In (x, v) (fold_left (fun dg k => bump k dg) ks []) <-> In x ks /\ v = Z.of_nat (cnt x ks).
Proof.
  intros ks x v. set (T := fold_left (fun dg k => bump k dg) ks []).
  assert (Hs : ksorted T) by (apply bump_fold_sorted; constructor).
  pose proof (ksorted_NoDup T Hs) as Hnd. split.
  - intros Hin. assert (Hk : In x (map fst T)) by (apply in_map_iff; exists (x, v); auto).
    apply bump_fold_keys in Hk. destruct Hk as [[]|Hk]. split; [exact Hk|].
    rewrite <- (aget_or_In T x v Hnd Hin). unfold T. rewrite bump_fold_get. unfold aget_or. simpl. lia.
  - intros [Hk ->]. assert (Hk' : In x (map fst T)) by (apply bump_fold_keys; now right).
    destruct (In_keys_aget T x Hk') as [v Hv]. rewrite <- (aget_or_In T x v Hnd Hv) in Hv.
    unfold T in Hv at 1. rewrite bump_fold_get in Hv. unfold aget_or in Hv at 1. simpl in Hv. exact Hv.
Qed.

Lemma cnt_map_inj : forall (f : Z -> Z) ks x, (forall y, In y ks -> f y = f x -> y = x) ->
  cnt (f x) (map f ks) = cnt x ks.
Proof.
  intros f. induction ks as [|k r IH]; intros x Hinj; simpl; [reflexivity|]. unfold cnt in *. simpl.
  destruct (Z.eq_dec (f k) (f x)) as [E|E]; destruct (Z.eq_dec k x) as [E'|E'].
  - f_equal. apply IH. intros; apply Hinj; auto. now right.
  - exfalso. apply E'. apply Hinj; auto. now left.
  - subst. congruence.
  - apply IH. intros; apply Hinj; auto. now right.
Qed.

Lemma cnt_perm : forall x l l', Permutation l l' -> cnt x l = cnt x l'.
Proof. intros x l l' H. unfold cnt. now apply Permutation_count_occ. Qed.

(** the sorted degree sequence only depends on the multiset of endpoints up to an injective renaming *)
Lemma degrees_renamed : forall (f : Z -> Z) ka kb,
  (forall x y, In x ka -> In y ka -> f x = f y -> x = y) -> Permutation kb (map f ka) ->
  sort_z (map snd (fold_left (fun dg k => bump k dg) ka [])) =
  sort_z (map snd (fold_left (fun dg k => bump k dg) kb [])).
Proof.
  intros f ka kb Hinj Hp. apply sort_z_perm_eq.
  set (Ta := fold_left (fun dg k => bump k dg) ka []). set (Tb := fold_left (fun dg k => bump k dg) kb []).
  assert (Hpe : Permutation (map (fun e : Z * Z => (f (fst e), snd e)) Ta) Tb).
  { apply NoDup_Permutation.
    - (* keys f x are distinct *)
      assert (Hk : NoDup (map fst Ta)) by (apply ksorted_NoDup, bump_fold_sorted; constructor).
      assert (Hsub : forall e, In e Ta -> In (fst e) ka).
      { intros [x v] He. apply degtable_In in He. apply He. }
      clear - Hk Hsub Hinj. induction Ta as [|[x v] r IH]; simpl; [constructor|]. inversion Hk; subst.
      constructor.
      + intros Hin. apply in_map_iff in Hin. destruct Hin as [[x' v'] [He Hin]]. simpl in He. inversion He; subst.
        assert (x' = x); [|subst].
        { apply Hinj; [apply (Hsub (x', v)); now right | apply (Hsub (x, v)); now left | auto]. }
        apply H1. apply in_map_iff. exists (x, v). auto.
      + apply IH; auto. intros e He. apply Hsub. now right.
    - eapply NoDup_map_inv. apply ksorted_NoDup, bump_fold_sorted. constructor.
    - intros [y v]. rewrite in_map_iff. unfold Tb. rewrite degtable_In. split.
      + intros [[x v'] [He Hin]]. simpl in He. inversion He; subst. apply degtable_In in Hin. destruct Hin as [Hx ->].
        split; [eapply Permutation_in; [apply Permutation_sym; exact Hp | now apply in_map]|].
        f_equal. rewrite (cnt_perm _ _ _ Hp). symmetry. apply cnt_map_inj. intros z Hz. now apply Hinj.
      + intros [Hy ->]. apply (Permutation_in _ Hp) in Hy. apply in_map_iff in Hy. destruct Hy as [x [<- Hx]].
        exists (x, Z.of_nat (cnt x ka)). split.
        * simpl. f_equal. f_equal. rewrite (cnt_perm _ _ _ Hp). symmetry. apply cnt_map_inj. intros z Hz. now apply Hinj.
        * apply degtable_In. auto. }
  eapply Permutation_trans; [|apply Permutation_map; exact Hpe]. rewrite map_map. simpl. apply Permutation_refl.
Qed.

(** ** the renamed copy of a DFA *)
Definition ren3 (f : Z -> Z) (e : Z * (Z * Z)) : Z * (Z * Z) := (f (fst e), (fst (snd e), f (snd (snd e)))).

Lemma dpermute_eq : forall d f,
  dpermute d f = fold_left (fun acc (sx : Z * (Z * Z)) => dadd acc (fst sx) (fst (snd sx)) (snd (snd sx)))
                   (map (ren3 f) (entries (dtrans d))) (new_dfa (f (dstart d)) (map f (dfinal d))).
Proof.
  intros d f. unfold dpermute.
  rewrite (fold_nested (fun acc (s : Z) (x : Z * Z) => dadd acc (f s) (fst x) (f (snd x))) (dtrans d) _).
  generalize (new_dfa (f (dstart d)) (map f (dfinal d))).
  induction (entries (dtrans d)) as [|e r IH]; intros i; simpl; [reflexivity|]. apply IH.
Qed.

Definition inj_on (f : Z -> Z) (l : list Z) : Prop := forall x y, In x l -> In y l -> f x = f y -> x = y.

Lemma dpermute_ext : forall d f g, (forall x, In x (dstates d) -> f x = g x) -> dpermute d f = dpermute d g.
Proof.
  intros d f g H. rewrite !dpermute_eq. f_equal.
  - apply map_ext_in. intros [s [c t]] Hin. unfold ren3. simpl.
    assert (He : In s (dstates d) /\ In t (dstates d)).
    { rewrite dstates_eq. split; apply dstates_fold; right; exists s, c, t; auto. }
    destruct He as [H1 H2]. now rewrite (H s H1), (H t H2).
  - rewrite (H (dstart d) (dstart_in_dstates d)). f_equal. apply map_ext_in. intros x Hx.
    apply H. now apply dfinal_in_dstates.
Qed.

Section Renamed.
  Variables (d : dfa) (f : Z -> Z).
  Hypothesis Hwf : dwf d.
  Hypothesis Hinj : inj_on f (dstates d).
  Hypothesis Hfnd : NoDup (dfinal d).
  Let b := dpermute d f.

  Lemma ren_efun : efun (map (ren3 f) (entries (dtrans d))).
  Proof.
    intros x c y y' H1 H2. apply in_map_iff in H1, H2.
    destruct H1 as [[s1 [c1 t1]] [E1 I1]]. destruct H2 as [[s2 [c2 t2]] [E2 I2]]. unfold ren3 in *. simpl in *.
    inversion E1; inversion E2; subst. apply dedge_entries in I1, I2; try exact Hwf.
    assert (s1 = s2) by (apply Hinj; auto; apply (dedge_in_dstates d _ _ _ I1) || apply (dedge_in_dstates d _ _ _ I2)).
    subst s2. now rewrite (dedge_fun _ _ _ _ _ I1 I2).
  Qed.

  Lemma ren_spec : dwf b /\ dstart b = f (dstart d) /\ dfinal b = sof (map f (dfinal d)) /\
    forall x c y, dedge b x c y <-> exists s t, dedge d s c t /\ x = f s /\ y = f t.
  Proof.
    unfold b. rewrite dpermute_eq.
    destruct (fold_dadd_start_final (map (ren3 f) (entries (dtrans d))) (new_dfa (f (dstart d)) (map f (dfinal d)))) as (H1 & H2 & H3).
    split; [apply H3, dwf_new|]. split; [exact H1|]. split; [exact H2|].
    intros x c y. rewrite dedge_fold_dadd by apply ren_efun. rewrite in_map_iff. split.
    - intros [[[s [c' t]] [E I]]|[H _]].
      + unfold ren3 in E. simpl in E. inversion E; subst. exists s, t. split; [now apply dedge_entries | auto].
      + exfalso. eapply no_edge_empty_d. exact H.
    - intros (s & t & He & -> & ->). left. exists (s, (c, t)). split; [reflexivity | now apply dedge_entries].
  Qed.

  Lemma ren_states : forall y, In y (dstates b) <-> exists x, In x (dstates d) /\ y = f x.
  Proof.
    destruct ren_spec as (Hwb & Hsb & Hfb & Heb). intros y.
    rewrite (dstates_char b y Hwb), Hsb, Hfb, In_sof, in_map_iff. split.
    - intros [->|[[x [<- Hx]]|(s & c & t & He & Hc)]].
      + exists (dstart d). split; [apply dstart_in_dstates | reflexivity].
      + exists x. split; [now apply dfinal_in_dstates | reflexivity].
      + apply Heb in He. destruct He as (s0 & t0 & He0 & -> & ->). destruct Hc as [->| ->].
        * exists s0. split; [apply (dedge_in_dstates d _ _ _ He0) | reflexivity].
        * exists t0. split; [apply (dedge_in_dstates d _ _ _ He0) | reflexivity].
    - intros [x [Hx ->]]. apply (dstates_char d x Hwf) in Hx. destruct Hx as [->|[Hx|(s & c & t & He & Hc)]].
      + now left.
      + right. left. exists x. auto.
      + right. right. exists (f s), c, (f t). split; [apply Heb; exists s, t; auto|]. destruct Hc as [->| ->]; auto.
  Qed.

  Lemma NoDup_map_inj_on : forall l, (forall x, In x l -> In x (dstates d)) -> NoDup l -> NoDup (map f l).
  Proof.
    induction l as [|x r IH]; intros Hsub Hnd; simpl; [constructor|]. inversion Hnd; subst. constructor.
    - intros Hin. apply in_map_iff in Hin. destruct Hin as [y [Hy Hin]].
      assert (y = x) by (apply Hinj; auto; apply Hsub; [now right | now left]). subst. contradiction.
    - apply IH; auto. intros; apply Hsub; now right.
  Qed.

  Lemma same_length_by_sets : forall (l l' : list Z), NoDup l -> NoDup l' -> (forall x, In x l <-> In x l') -> length l = length l'.
  Proof.
    intros l l' H1 H2 H. apply Nat.le_antisymm; apply NoDup_incl_length; auto; intros x Hx; now apply H.
  Qed.

  Lemma ren_states_length : length (dstates b) = length (dstates d).
  Proof.
    rewrite <- (map_length f (dstates d)). apply same_length_by_sets.
    - apply ssorted_NoDup, dstates_sorted.
    - apply NoDup_map_inj_on; [auto | apply ssorted_NoDup, dstates_sorted].
    - intros y. rewrite ren_states, in_map_iff. split; intros [x [H1 H2]]; exists x; auto.
  Qed.

  Lemma ren_final_length : length (dfinal b) = length (dfinal d).
  Proof.
    destruct ren_spec as (_ & _ & Hfb & _). rewrite Hfb, <- (map_length f (dfinal d)). apply same_length_by_sets.
    - apply ssorted_NoDup, ssorted_sof.
    - apply NoDup_map_inj_on; [intros; now apply dfinal_in_dstates | exact Hfnd].
    - intros y. apply In_sof.
  Qed.
End Renamed.

Lemma dsymbols_eq : forall d,
  dsymbols d = fold_left (fun sy (sx : Z * (Z * Z)) => sadd (fst (snd sx)) sy) (entries (dtrans d)) [].
Proof.
  intros d. unfold dsymbols.
  exact (fold_nested (fun sy (s : Z) (x : Z * Z) => sadd (fst x) sy) (dtrans d) []).
Qed.

Lemma dsymbols_spec : forall d c, dwf d -> (In c (dsymbols d) <-> exists s t, dedge d s c t).
Proof.
  intros d c Hwf. rewrite dsymbols_eq.
  assert (G : forall l init, In c (fold_left (fun sy (sx : Z * (Z * Z)) => sadd (fst (snd sx)) sy) l init) <->
                In c init \/ exists s t, In (s, (c, t)) l).
  { induction l as [|[s [c' t]] r IH]; intros init; simpl.
    - split; [auto|]. intros [H|[s [t []]]]. exact H.
    - rewrite IH, In_sadd. split.
      + intros [[->|H]|[s' [t' H]]]; [right; exists s, t; now left | auto | right; exists s', t'; now right].
      + intros [H|[s' [t' [H|H]]]]; [auto | inversion H; subst; auto | right; eauto]. }
  rewrite G. simpl. split.
  - intros [[]|[s [t H]]]. exists s, t. now apply dedge_entries.
  - intros [s [t H]]. right. exists s, t. now apply dedge_entries.
Qed.

Lemma dsymbols_sorted : forall d, ssorted (dsymbols d).
Proof.
  intros d. rewrite dsymbols_eq.
  assert (G : forall l init, ssorted init -> ssorted (fold_left (fun sy (sx : Z * (Z * Z)) => sadd (fst (snd sx)) sy) l init)).
  { induction l as [|e r IH]; intros init Hi; simpl; [exact Hi|]. apply IH. now apply ssorted_sadd. }
  apply G. constructor.
Qed.

(** ** Equal is reflexive on well-formed automata *)
Lemma aincl_refl {V} (eqv : V -> V -> bool) : forall l : list (Z * V),
  NoDup (map fst l) -> (forall k v, In (k, v) l -> eqv v v = true) -> aincl eqv l l = true.
Proof.
  intros l Hnd Hr. unfold aincl. apply forallb_forall. intros [k v] Hin. simpl.
  rewrite (In_aget k v l Hnd Hin). eapply Hr; eauto.
Qed.

Lemma dequal_refl : forall d, dwf d -> NoDup (dfinal d) -> dequal d d = true.
Proof.
  intros d [H1 H2] Hf. unfold dequal. rewrite Z.eqb_refl. simpl.
  rewrite (seteq_sequal _ _ Hf Hf (seteq_refl _)). simpl.
  unfold aequal. assert (Hi : aincl (fun a b => aincl Z.eqb a b && aincl Z.eqb b a) (dtrans d) (dtrans d) = true).
  { apply aincl_refl; [now apply ksorted_NoDup|]. intros s row Hin.
    rewrite Forall_forall in H2. specialize (H2 _ Hin). simpl in H2.
    assert (aincl Z.eqb row row = true) by (apply aincl_refl; [now apply ksorted_NoDup | intros; apply Z.eqb_refl]).
    now rewrite H. }
  now rewrite Hi.
Qed.

(** ** entries of a well-formed table are pairwise different; endpoints *)
Lemma NoDup_app_intro {A} : forall l1 l2 : list A, NoDup l1 -> NoDup l2 -> (forall x, In x l1 -> ~ In x l2) -> NoDup (l1 ++ l2).
Proof.
  induction l1 as [|x r IH]; intros l2 H1 H2 Hd; simpl; [exact H2|]. inversion H1; subst. constructor.
  - intros Hin. apply in_app_or in Hin. destruct Hin as [Hin|Hin]; [contradiction|]. apply (Hd x); auto. now left.
  - apply IH; auto. intros y Hy. apply Hd. now right.
Qed.

Lemma entries_NoDup {V} : forall tr : list (Z * list (Z * V)),
  ksorted tr -> Forall (fun e => ksorted (snd e)) tr -> NoDup (entries tr).
Proof.
  induction tr as [|[s row] r IH]; intros Hk Hr; unfold entries; simpl; [constructor|].
  inversion Hr as [|? ? Hrow Hr']; subst. simpl in Hrow.
  assert (Hk' : ksorted r) by (unfold ksorted in *; simpl in Hk; inversion Hk; assumption).
  apply NoDup_app_intro.
  - apply ksorted_NoDup in Hrow. clear - Hrow. induction row as [|[c v] row IH]; simpl; [constructor|].
    simpl in Hrow. inversion Hrow; subst. constructor; [|now apply IH].
    intros Hin. apply in_map_iff in Hin. destruct Hin as [[c' v'] [He Hin]]. inversion He; subst.
    apply H1. apply in_map_iff. exists (c, v). auto.
  - now apply IH.
  - intros [s' [c v]] Hin1 Hin2. apply in_map_iff in Hin1. destruct Hin1 as [[c' v'] [He _]]. inversion He; subst.
    fold (entries r) in Hin2. apply In_entries in Hin2. destruct Hin2 as [row' [Hin2 _]].
    apply ksorted_NoDup in Hk. simpl in Hk. inversion Hk; subst. apply H1. apply in_map_iff. exists (s', row'). auto.
Qed.

Lemma Permutation_flat_map {A B} (g : A -> list B) : forall l l', Permutation l l' -> Permutation (flat_map g l) (flat_map g l').
Proof.
  intros l l' H. induction H; simpl.
  - constructor.
  - now apply Permutation_app_head.
  - rewrite !app_assoc. apply Permutation_app_tail. apply Permutation_app_comm.
  - eapply Permutation_trans; eauto.
Qed.

Definition ends1 (sx : Z * (Z * Z)) : list Z := [fst sx; snd (snd sx)].
Definition dends (d : dfa) : list Z := flat_map ends1 (entries (dtrans d)).

Lemma ddegrees_eq : forall d, ddegrees d = sort_z (map snd (fold_left (fun dg k => bump k dg) (dends d) [])).
Proof.
  intros d. unfold ddegrees, dends. f_equal. f_equal.
  rewrite (fold_nested (fun dg (s : Z) (x : Z * Z) => bump (snd x) (bump s dg)) (dtrans d) []).
  generalize (@nil (Z * Z)). induction (entries (dtrans d)) as [|e r IH]; intros dg; simpl; [reflexivity|]. apply IH.
Qed.

Lemma dends_in_states : forall d x, In x (dends d) -> In x (dstates d).
Proof.
  intros d x H. unfold dends in H. apply in_flat_map in H. destruct H as [[s [c t]] [Hin Hx]].
  rewrite dstates_eq. apply dstates_fold. right. exists s, c, t. split; [exact Hin|].
  simpl in Hx. destruct Hx as [<-|[<-|[]]]; auto.
Qed.

Lemma bij_of_map : forall (f : Z -> Z) l x, NoDup l -> In x l -> bij_of l (map f l) x = f x.
Proof.
  intros f l x Hnd Hin. unfold bij_of, aget_or.
  assert (Hk : map fst (combine l (map f l)) = l).
  { clear. induction l as [|y r IH]; simpl; [reflexivity|]. now rewrite IH. }
  assert (Hi : In (x, f x) (combine l (map f l))).
  { clear - Hin. induction l as [|y r IH]; simpl in *; [contradiction|]. destruct Hin as [->|Hin]; [now left | right; auto]. }
  rewrite (In_aget x (f x) _); [reflexivity | now rewrite Hk | exact Hi].
Qed.

(** Isomorphic is true for a DFA and its copy renamed by a map that is injective on its states. *)
Theorem disomorphic_renamed : forall d f, dwf d -> NoDup (dfinal d) -> inj_on f (dstates d) ->
  disomorphic d (dpermute d f) = true.
Proof.
  intros d f Hwf Hfnd Hinj. set (b := dpermute d f).
  destruct (ren_spec d f Hwf Hinj) as (Hwb & Hsb & Hfb & Heb). fold b in Hwb, Hsb, Hfb, Heb.
  pose proof (ren_final_length d f Hwf Hinj Hfnd) as HLf. pose proof (ren_states_length d f Hwf Hinj) as HLs.
  fold b in HLf, HLs. unfold disomorphic. fold b.
  rewrite HLf, Nat.eqb_refl. simpl. rewrite HLs, Nat.eqb_refl. simpl.
  assert (Hsym : sequal (dsymbols d) (dsymbols b) = true).
  { apply seteq_sequal; try (apply ssorted_NoDup, dsymbols_sorted). intros c.
    rewrite (dsymbols_spec d c Hwf), (dsymbols_spec b c Hwb). split.
    - intros [s [t He]]. exists (f s), (f t). apply Heb. exists s, t. auto.
    - intros [x [y He]]. apply Heb in He. destruct He as (s & t & He & _). eauto. }
  rewrite Hsym. simpl.
  assert (Hdeg : list_eqb (ddegrees d) (ddegrees b) = true).
  { rewrite !ddegrees_eq. rewrite (degrees_renamed f (dends d) (dends b)); [apply list_eqb_refl| |].
    - intros x y Hx Hy. apply Hinj; now apply dends_in_states.
    - unfold dends. replace (map f (flat_map ends1 (entries (dtrans d)))) with (flat_map ends1 (map (ren3 f) (entries (dtrans d)))).
      + apply Permutation_flat_map. apply NoDup_Permutation.
        * destruct Hwb as [W1 W2]. now apply entries_NoDup.
        * destruct Hwf as [W1 W2]. pose proof (entries_NoDup _ W1 W2) as Hnd.
          assert (Hsub : forall e, In e (entries (dtrans d)) -> In (fst e) (dstates d) /\ In (snd (snd e)) (dstates d)).
          { intros [s [c t]] He. apply (dedge_in_dstates d s c t). apply dedge_entries; [split; assumption | exact He]. }
          clear - Hnd Hsub Hinj. induction (entries (dtrans d)) as [|e r IH]; simpl; [constructor|]. inversion Hnd; subst.
          constructor; [|apply IH; auto; intros; apply Hsub; now right].
          intros Hin. apply in_map_iff in Hin. destruct Hin as [e' [He Hin]]. apply H1.
          destruct e as [s [c t]], e' as [s' [c' t']]. unfold ren3 in He. simpl in He. inversion He; subst.
          destruct (Hsub (s, (c, t)) (or_introl eq_refl)) as [A1 A2]. destruct (Hsub (s', (c, t')) (or_intror Hin)) as [B1 B2].
          simpl in *. rewrite <- (Hinj s' s B1 A1 H0), <- (Hinj t' t B2 A2 H4). exact Hin.
        * intros [x [c y]]. rewrite <- (dedge_entries b x c y Hwb), Heb, in_map_iff. split.
          -- intros (s & t & He & -> & ->). exists (s, (c, t)). split; [reflexivity | now apply dedge_entries].
          -- intros [[s [c' t]] [E I]]. unfold ren3 in E. simpl in E. inversion E; subst.
             exists s, t. split; [now apply dedge_entries | auto].
      + induction (entries (dtrans d)) as [|e r IH]; simpl; [reflexivity|]. now rewrite IH. }
  rewrite Hdeg. simpl.
  (* the search finds the bijection f *)
  apply negb_true_iff.
  apply (gen_permutations_complete (dstates b) (map f (dstates d))).
  - pose proof (dstart_in_dstates b). destruct (dstates b); [contradiction | discriminate].
  - apply ssorted_NoDup, dstates_sorted.
  - apply (NoDup_map_inj_on d f Hinj); [auto | apply ssorted_NoDup, dstates_sorted].
  - rewrite map_length. symmetry. exact HLs.
  - intros y. unfold b. rewrite (ren_states d f Hwf Hinj y), in_map_iff. split; intros [x [H1 H2]]; exists x; auto.
  - apply negb_false_iff.
    assert (E : dpermute d (bij_of (dstates d) (map f (dstates d))) = b).
    { apply dpermute_ext. intros x Hx. apply bij_of_map; [apply ssorted_NoDup, dstates_sorted | exact Hx]. }
    rewrite E. apply dequal_refl; [exact Hwb|]. rewrite Hfb. apply ssorted_NoDup, ssorted_sof.
Qed.
