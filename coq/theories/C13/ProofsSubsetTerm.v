(** C13 — the subset construction terminates within its fuel: the Dstates are pairwise different
    subsets of the NFA's states, so there are at most 2^|Q| of them. *)
From Coq Require Import ZArith List Bool Lia Sorted.
From Algo.C13 Require Import Model Spec Lemmas ProofsNFA ProofsDFA ProofsSubset.
Import ListNotations.
Open Scope Z_scope.

(** ** counting bit vectors *)
Fixpoint all_bvs (k : nat) : list (list bool) :=
  match k with
  | O => [[]]
  | S k' => map (cons true) (all_bvs k') ++ map (cons false) (all_bvs k')
  end.

Lemma all_bvs_length : forall k, length (all_bvs k) = (2 ^ k)%nat.
Proof.
  induction k as [|k IH]; simpl; [reflexivity|]. rewrite app_length, !map_length, IH. lia.
Qed.

Lemma all_bvs_in : forall v, In v (all_bvs (length v)).
Proof.
  induction v as [|b r IH]; simpl; [now left|]. apply in_or_app.
  destruct b; [left | right]; apply in_map; exact IH.
Qed.

Definition charvec (U V : list Z) : list bool := map (fun u => smem u V) U.

Lemma charvec_seteq : forall U V V', incl V U -> incl V' U -> charvec U V = charvec U V' -> seteq V V'.
Proof.
  intros U V V' H1 H2 H.
  assert (G : forall u, In u U -> smem u V = smem u V').
  { unfold charvec in H. clear H1 H2. induction U as [|y r IH]; intros u Hu; [contradiction|].
    simpl in H. inversion H. destruct Hu as [->|Hu]; auto. }
  intros x. split; intros Hx.
  - apply smem_In. rewrite <- G by auto. now apply smem_In.
  - apply smem_In. rewrite G by auto. now apply smem_In.
Qed.

Lemma bounded_count : forall U (ds : list (list Z)),
  NoDup (map (charvec U) ds) -> (length ds <= 2 ^ length U)%nat.
Proof.
  intros U ds Hnd. rewrite <- (map_length (charvec U) ds), <- all_bvs_length.
  apply NoDup_incl_length; [exact Hnd|]. intros v Hv. apply in_map_iff in Hv. destruct Hv as [V [<- _]].
  replace (length U) with (length (charvec U V)) by (unfold charvec; apply map_length). apply all_bvs_in.
Qed.

Lemma index_of_none : forall U l i, index_of U l i = -1 -> 0 <= i -> forall V, In V l -> sequal V U = false.
Proof.
  intros U. induction l as [|V r IH]; intros i H Hi V' Hin; [contradiction|]. simpl in H.
  destruct (sequal V U) eqn:E; [lia|]. destruct Hin as [<-|Hin]; [exact E|]. eapply IH; eauto. lia.
Qed.

(** ** Dstates are subsets of states() *)
Lemma eclose_incl : forall n T C, incl T (nstates n) -> eclose n T = Ok C -> incl C (nstates n).
Proof.
  intros n T C HT E x Hx. destruct (eclose_ok n T) as [C' [E' [_ H]]]. rewrite E in E'. inversion E'; subst C'.
  apply H in Hx. destruct Hx as [s [Hs Hr]]. apply HT in Hs. clear H E E'.
  induction Hr as [s|s t u He Hr IH]; [exact Hs|]. apply IH. apply (nedge_in_nstates n s E t He).
Qed.

Lemma nmove_incl : forall n T a, incl (nmove n T a) (nstates n).
Proof.
  intros n T a x Hx. apply In_nmove in Hx. destruct Hx as [s [_ He]]. apply (nedge_in_nstates n s a x He).
Qed.

Record tinv (n : nfa) (ds : list (list Z)) : Prop := {
  ti_incl : Forall (fun V => incl V (nstates n)) ds;
  ti_sorted : Forall ssorted ds;
  ti_nodup : NoDup (map (charvec (nstates n)) ds) }.

Lemma NoDup_snoc {A} : forall (l : list A) x, NoDup l -> ~ In x l -> NoDup (l ++ [x]).
Proof.
  induction l as [|y r IH]; intros x Hnd Hn; simpl.
  - constructor; [intros []|constructor].
  - inversion Hnd; subst. constructor.
    + intros Hin. apply in_app_or in Hin. destruct Hin as [Hin|[->|[]]]; [contradiction|]. apply Hn. now left.
    + apply IH; [assumption|]. intros Hin. apply Hn. now right.
Qed.

Lemma sym_fold_tinv : forall n T front rest ds d,
  tinv n ds ->
  exists ds' d', fold_left (sym_step n T front) rest (Some (ds, d)) = Some (ds', d') /\ tinv n ds' /\
                 (length ds <= length ds')%nat.
Proof.
  intros n T front. induction rest as [|a r IH]; intros ds d Hinv; cbn [fold_left].
  - exists ds, d. auto.
  - destruct (eclose_ok n (nmove n T a)) as [U [EU _]].
    assert (HsU : ssorted U) by (eapply eclose_sorted; [apply ssorted_nmove | exact EU]).
    assert (HiU : incl U (nstates n)) by (eapply eclose_incl; [apply nmove_incl | exact EU]).
    unfold sym_step at 2. rewrite EU. destruct (index_of U ds 0 =? -1) eqn:Ej.
    + apply Z.eqb_eq in Ej. pose proof (index_of_none U ds 0 Ej (Z.le_refl 0)) as Hnone.
      destruct Hinv as [H1 H2 H3].
      destruct (IH (ds ++ [U]) (dadd d (Z.of_nat front) a (Z.of_nat (length ds)))) as (ds' & d' & E & Hi & Hl).
      { split.
        - apply Forall_app. split; [exact H1 | constructor; [exact HiU | constructor]].
        - apply Forall_app. split; [exact H2 | constructor; [exact HsU | constructor]].
        - rewrite map_app. simpl. apply NoDup_snoc; [exact H3|]. intros Hin. apply in_map_iff in Hin.
          destruct Hin as [V [Hc HV]]. rewrite Forall_forall in H1, H2.
          assert (Hse : seteq V U) by (apply (charvec_seteq (nstates n)); auto).
          assert (sequal V U = true) by (apply seteq_sequal; auto using ssorted_NoDup).
          rewrite (Hnone V HV) in H. discriminate. }
      exists ds', d'. split; [exact E|]. split; [exact Hi|]. rewrite app_length in Hl. simpl in Hl. lia.
    + apply IH. exact Hinv.
Qed.

Theorem subset_construct_total : forall n, exists r, subset_construct n = Ok r.
Proof.
  intros n. unfold subset_construct.
  destruct (eclose_ok n (sof [nstart n])) as [S0 [E0 _]]. rewrite E0. simpl.
  set (q := length (nstates n)).
  assert (Hterm : exists r, run_loop (subset_fuel n) (subset_step n (nsymbols n)) ([S0], O, new_dfa 0 []) = Ok r
                            /\ r <> None).
  { assert (Hstep : forall st, tinv n (fst (fst st)) ->
        match subset_step n (nsymbols n) st with
        | More st' => tinv n (fst (fst st')) /\ (2 ^ q + 1 - snd (fst st') < 2 ^ q + 1 - snd (fst st))%nat
        | Done r => r <> None
        end).
    { intros [[ds front] d] Hinv. simpl in Hinv. rewrite subset_step_eq.
      destruct (nth_error ds front) as [T|] eqn:ET; [|discriminate].
      destruct (sym_fold_tinv n T front (nsymbols n) ds d Hinv) as (ds' & d' & E & Hi & Hl). rewrite E. simpl.
      split; [exact Hi|]. assert (Hf : (front < length ds)%nat) by (apply nth_error_Some; congruence).
      pose proof (bounded_count (nstates n) ds (ti_nodup _ _ Hinv)). fold q in H. lia. }
    assert (Hinit : tinv n [S0]).
    { split.
      - constructor; [|constructor]. eapply eclose_incl; [|exact E0]. intros x Hx. apply In_sof in Hx.
        destruct Hx as [<-|[]]. apply nstart_in_nstates.
      - constructor; [|constructor]. eapply eclose_sorted; [apply ssorted_sof | exact E0].
      - simpl. constructor; [intros []|constructor]. }
    destruct (run_loop_term_inv (subset_step n (nsymbols n)) (fun st => tinv n (fst (fst st)))
               (fun st => (2 ^ q + 1 - snd (fst st))%nat)) with (p := subset_fuel n) (s := ([S0], O, new_dfa 0 []))
      as [r Hr].
    - intros st Hst. specialize (Hstep st Hst). destruct (subset_step n (nsymbols n) st); [exact Hstep | exact I].
    - exact Hinit.
    - simpl. unfold subset_fuel. rewrite Pos2Nat.inj_add, Pos2Nat.inj_pow, pos_of_len_nat. fold q.
      change (Pos.to_nat 2) with 2%nat. change (Pos.to_nat 1) with 1%nat.
      rewrite Nat.pow_succ_r'. pose proof (Nat.pow_nonzero 2 q). lia.
    - exists r. split; [exact Hr|].
      apply (run_loop_inv (subset_step n (nsymbols n)) (fun st => tinv n (fst (fst st))) (fun r => r <> None))
        with (p := subset_fuel n) (s := ([S0], O, new_dfa 0 [])); auto.
      intros st Hst. specialize (Hstep st Hst). destruct (subset_step n (nsymbols n) st); [tauto | exact Hstep]. }
  destruct Hterm as [r [Hr Hne]]. rewrite Hr. destruct r as [[ds d]|]; [eauto | congruence].
Qed.

(** ToDFA terminates on every NFA and the DFA accepts w iff the NFA does. *)
Theorem todfa_total_accept : forall n, exists D, todfa n = Ok D /\ dfa_ok D /\ dwf D /\ dfa_noeps D /\
  forall w, word_ok w -> naccept n w = Ok (daccept D w).
Proof.
  intros n. destruct (subset_construct_total n) as [[ds D] H].
  assert (HD : todfa n = Ok D) by (unfold todfa; rewrite H; reflexivity).
  exists D. split; [exact HD|]. destruct (todfa_ok_wf n D HD) as (H1 & H2 & H3).
  split; [exact H1|]. split; [exact H2|]. split; [exact H3|]. intros w Hw. now apply todfa_accept.
Qed.
