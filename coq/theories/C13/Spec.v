(** C13 — specification: languages of automata by paths, independent of the executable
    Accept functions, and the language operations the combinators are supposed to compute. *)
From Coq Require Import ZArith List Bool.
From Algo.C13 Require Import Model.
Import ListNotations.
Open Scope Z_scope.

Definition word := list Z.
Definition lang := word -> Prop.

(** Input words never contain ε (symbol 0): "E is never a member of an input alphabet". *)
Definition word_ok (w : word) : Prop := Forall (fun a => a <> E) w.

(** ** NFA semantics by paths *)
Definition nedge (n : nfa) (s a t : Z) : Prop := In t (nnext_l n s a).

Inductive npath (n : nfa) : Z -> word -> Z -> Prop :=
| np_refl : forall s, npath n s [] s
| np_eps : forall s t u w, nedge n s E t -> npath n t w u -> npath n s w u
| np_sym : forall s a t u w, a <> E -> nedge n s a t -> npath n t w u -> npath n s (a :: w) u.

Definition nlang (n : nfa) : lang :=
  fun w => exists f, In f (nfinal n) /\ npath n (nstart n) w f.

(** ** DFA semantics by runs of defined transitions *)
Definition dedge (d : dfa) (s a t : Z) : Prop :=
  exists row, aget s (dtrans d) = Some row /\ aget a row = Some t.

Inductive dpath (d : dfa) : Z -> word -> Z -> Prop :=
| dp_refl : forall s, dpath d s [] s
| dp_step : forall s a t u w, dedge d s a t -> dpath d t w u -> dpath d s (a :: w) u.

Definition dlang (d : dfa) : lang :=
  fun w => exists f, In f (dfinal d) /\ dpath d (dstart d) w f.

(** The executable DFA.Accept follows missing transitions to state -1; it coincides with
    [dlang] when -1 is not a state, which is what [dfa_ok] says: ids are non-negative. *)
Definition dfa_ok (d : dfa) : Prop :=
  0 <= dstart d /\ Forall (fun f => 0 <= f) (dfinal d) /\
  forall s a t, dedge d s a t -> 0 <= s /\ 0 <= t.

(** DFA symbols are input symbols, so ε (0) is excluded when a DFA is turned into an NFA. *)
Definition dfa_noeps (d : dfa) : Prop := forall s a t, dedge d s a t -> a <> E.

(** ** Language operations *)
Definition l_union (ls : list lang) : lang := fun w => exists l, In l ls /\ l w.
Fixpoint l_concat (ls : list lang) : lang :=
  match ls with
  | [] => fun w => w = []
  | l :: r => fun w => exists u v, w = u ++ v /\ l u /\ l_concat r v
  end.
Inductive l_star (l : lang) : lang :=
| ls_nil : l_star l []
| ls_app : forall u v, l u -> l_star l v -> l_star l (u ++ v).
