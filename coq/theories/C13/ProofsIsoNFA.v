(** C13 — Isomorphic answers true for an NFA and its copy renamed by an injective map. *)
From Coq Require Import ZArith List Bool Lia Sorted Permutation.
From Algo.C13 Require Import Model Spec Lemmas ProofsNFA ProofsDFA ProofsElim ProofsSubset ProofsSubsetTerm
  ProofsMinimal ProofsIso.
Import ListNotations.
Open Scope Z_scope.

(** ** table keys and target sets *)
Definition nkey (n : nfa) (s a : Z) : Prop := exists nx, nnext n s a = Some nx.
Definition nsorted (n : nfa) : Prop := forall s a nx, nnext n s a = Some nx -> ssorted nx.

Lemma nnext_nadd : forall n s a nx s' a',
  nnext (nadd n s a nx) s' a' =
  if (s' =? s) && (a' =? a) then Some (sadd_all nx (nnext_l n s a)) else nnext n s' a'.
Proof.
  intros. unfold nnext_l, nnext, nadd; simpl.
  destruct (Z.eqb_spec s' s) as [->|Hs]; simpl.
  - rewrite aget_aput_eq. destruct (Z.eqb_spec a' a) as [->|Ha].
    + rewrite aget_aput_eq. unfold aget_or. destruct (aget s (ntrans n)) as [row|]; simpl; [|reflexivity].
      destruct (aget a row); reflexivity.
    + rewrite aget_aput_ne by congruence. unfold aget_or. destruct (aget s (ntrans n)); reflexivity.
  - rewrite aget_aput_ne by congruence. reflexivity.
Qed.

Lemma nkey_nadd : forall n s a nx s' a', nkey (nadd n s a nx) s' a' <-> nkey n s' a' \/ (s' = s /\ a' = a).
Proof.
  intros. unfold nkey. rewrite nnext_nadd.
  destruct (Z.eqb_spec s' s) as [->|Hs]; destruct (Z.eqb_spec a' a) as [->|Ha]; simpl; split; try tauto; eauto; intuition.
Qed.

Lemma nsorted_nadd : forall n s a nx, nsorted n -> nsorted (nadd n s a nx).
Proof.
  intros n s a nx H s' a' l. rewrite nnext_nadd.
  destruct ((s' =? s) && (a' =? a)); [|apply H]. intros E. inversion E; subst. apply ssorted_sadd_all.
  unfold nnext_l. destruct (nnext n s a) as [l|] eqn:E'; [eapply H; eauto | constructor].
Qed.

Lemma entries_nnext : forall n s a nx, nwf n -> (In (s, (a, nx)) (entries (ntrans n)) <-> nnext n s a = Some nx).
Proof.
  intros n s a nx [H1 H2]. rewrite (In_entries_aget (ntrans n) s a nx H1 H2). unfold nnext. split.
  - intros [row [E1 E2]]. now rewrite E1.
  - destruct (aget s (ntrans n)) as [row|]; [|discriminate]. eauto.
Qed.

Definition nren (f : Z -> Z) (e : Z * (Z * list Z)) : Z * (Z * list Z) := (f (fst e), (fst (snd e), map f (snd (snd e)))).

Lemma npermute_eq : forall n f,
  npermute n f = fold_left (fun acc (sx : Z * (Z * list Z)) => nadd acc (fst sx) (fst (snd sx)) (snd (snd sx)))
                   (map (nren f) (entries (ntrans n))) (new_nfa (f (nstart n)) (map f (nfinal n))).
Proof.
  intros n f. unfold npermute.
  rewrite (fold_nested (fun acc (s : Z) (x : Z * list Z) => nadd acc (f s) (fst x) (map f (snd x))) (ntrans n) _).
  generalize (new_nfa (f (nstart n)) (map f (nfinal n))).
  induction (entries (ntrans n)) as [|e r IH]; intros i; simpl; [reflexivity|]. apply IH.
Qed.

Lemma nkey_fold : forall l init s a,
  nkey (fold_left (fun acc (sx : Z * (Z * list Z)) => nadd acc (fst sx) (fst (snd sx)) (snd (snd sx))) l init) s a
  <-> nkey init s a \/ exists nx, In (s, (a, nx)) l.
Proof.
  induction l as [|[s0 [a0 nx0]] r IH]; intros init s a; simpl.
  - split; [auto|]. intros [H|[nx []]]. exact H.
  - rewrite IH, nkey_nadd. split.
    + intros [[H|[-> ->]]|[nx H]]; [auto | right; exists nx0; now left | right; exists nx; now right].
    + intros [H|[nx [H|H]]]; [auto | inversion H; subst; auto | right; eauto].
Qed.

Lemma nsorted_fold : forall l init, nsorted init ->
  nsorted (fold_left (fun acc (sx : Z * (Z * list Z)) => nadd acc (fst sx) (fst (snd sx)) (snd (snd sx))) l init).
Proof.
  induction l as [|e r IH]; intros init H; simpl; [exact H|]. apply IH. now apply nsorted_nadd.
Qed.

Lemma nsorted_new : forall s f, nsorted (new_nfa s f).
Proof. intros s f x a nx H. unfold nnext in H. simpl in H. discriminate. Qed.

Lemma nsorted_nbuild : forall s f adds, nsorted (nbuild s f adds).
Proof.
  intros s f adds. unfold nbuild. generalize (nsorted_new s f). generalize (new_nfa s f).
  induction adds as [|e r IH]; intros n Hn; simpl; [exact Hn|]. apply IH. now apply nsorted_nadd.
Qed.

(** ** states() and symbols(), exactly *)
Lemma nstates_fold_iff : forall l init x,
  In x (fold_left (fun st (sx : Z * (Z * list Z)) => sunion (sadd (fst sx) st) (snd (snd sx))) l init)
  <-> In x init \/ exists s a nx, In (s, (a, nx)) l /\ (x = s \/ In x nx).
Proof.
  induction l as [|[s0 [a0 nx0]] r IH]; intros init x; simpl.
  - split; [auto|]. intros [H|(s & a & nx & [] & _)]. exact H.
  - rewrite IH, In_sunion, In_sadd. split.
    + intros [[[->|H]|H]|(s & a & nx & H1 & H2)]; [| auto | |].
      * right. exists s0, a0, nx0. auto.
      * right. exists s0, a0, nx0. auto.
      * right. exists s, a, nx. auto.
    + intros [H|(s & a & nx & [H1|H1] & H2)]; [auto | |].
      * inversion H1; subst. left. destruct H2 as [->|H2]; auto.
      * right. exists s, a, nx. auto.
Qed.

Lemma nstates_char : forall n x, nwf n ->
  (In x (nstates n) <-> x = nstart n \/ In x (nfinal n) \/ (exists a, nkey n x a) \/ exists s a, nedge n s a x).
Proof.
  intros n x Hwf. rewrite nstates_eq, nstates_fold_iff, In_sunion, In_sof. simpl. split.
  - intros [[[H|[]]|H]|(s & a & nx & H1 & H2)]; [auto | auto |].
    apply entries_nnext in H1; [|exact Hwf]. destruct H2 as [->|H2].
    + right. right. left. exists a, nx. exact H1.
    + right. right. right. exists s, a. apply nnext_nedge. eauto.
  - intros [H|[H|[[a [nx H]]|[s [a H]]]]]; [auto | auto | |].
    + right. exists x, a, nx. split; [now apply entries_nnext | now left].
    + apply nnext_nedge in H. destruct H as [nx [H1 H2]]. right. exists s, a, nx. split; [now apply entries_nnext | now right].
Qed.

Lemma nstates_sorted : forall n, ssorted (nstates n).
Proof.
  intros n. rewrite nstates_eq.
  assert (G : forall l init, ssorted init ->
     ssorted (fold_left (fun st (sx : Z * (Z * list Z)) => sunion (sadd (fst sx) st) (snd (snd sx))) l init)).
  { induction l as [|e r IH]; intros init Hi; simpl; [exact Hi|]. apply IH. unfold sunion. now apply ssorted_sadd_all, ssorted_sadd. }
  apply G. unfold sunion. apply ssorted_sadd_all, ssorted_sof.
Qed.

Lemma nsymbols_char : forall n c, nwf n -> (In c (nsymbols n) <-> c <> E /\ exists s, nkey n s c).
Proof.
  intros n c Hwf. rewrite nsymbols_eq, nsymbols_fold. simpl. split.
  - intros [[]|[Hc [s [nx H]]]]. split; [exact Hc|]. exists s, nx. now apply entries_nnext.
  - intros [Hc [s [nx H]]]. right. split; [exact Hc|]. exists s, nx. now apply entries_nnext.
Qed.

Lemma nsymbols_sorted : forall n, ssorted (nsymbols n).
Proof.
  intros n. rewrite nsymbols_eq.
  assert (G : forall l init, ssorted init ->
     ssorted (fold_left (fun sy (sx : Z * (Z * list Z)) => if fst (snd sx) =? E then sy else sadd (fst (snd sx)) sy) l init)).
  { induction l as [|e r IH]; intros init Hi; simpl; [exact Hi|]. apply IH. destruct (fst (snd e) =? E); [exact Hi | now apply ssorted_sadd]. }
  apply G. constructor.
Qed.

(** ** the renamed copy *)
Section RenamedN.
  Variables (n : nfa) (f : Z -> Z).
  Hypothesis Hwf : nwf n.
  Hypothesis Hinj : inj_on f (nstates n).
  Let b := npermute n f.

  Lemma nren_spec : nwf b /\ nsorted b /\ nstart b = f (nstart n) /\ nfinal b = sof (map f (nfinal n)) /\
    (forall x c y, nedge b x c y <-> exists s t, nedge n s c t /\ x = f s /\ y = f t) /\
    (forall x c, nkey b x c <-> exists s, nkey n s c /\ x = f s).
  Proof.
    unfold b. rewrite npermute_eq.
    destruct (fold_nadd_start_final (map (nren f) (entries (ntrans n))) (new_nfa (f (nstart n)) (map f (nfinal n)))) as (H1 & H2 & H3).
    split; [apply H3, nwf_new|]. split; [apply nsorted_fold, nsorted_new|]. split; [exact H1|]. split; [exact H2|]. split.
    - intros x c y. rewrite nedge_fold_nadd. split.
      + intros [H|[nx [Hin Hy]]]; [exfalso; eapply no_edge_empty_n; exact H|].
        apply in_map_iff in Hin. destruct Hin as [[s [c' nx']] [E I]]. unfold nren in E. simpl in E. inversion E; subst.
        apply in_map_iff in Hy. destruct Hy as [t [<- Ht]]. exists s, t. split; [|auto].
        apply nnext_nedge. exists nx'. split; [now apply entries_nnext | exact Ht].
      + intros (s & t & He & -> & ->). right. apply nnext_nedge in He. destruct He as [nx [E1 E2]].
        exists (map f nx). split; [|now apply in_map]. apply in_map_iff. exists (s, (c, nx)). split; [reflexivity | now apply entries_nnext].
    - intros x c. rewrite nkey_fold. split.
      + intros [[nx H]|[nx Hin]]; [unfold nnext in H; simpl in H; discriminate|].
        apply in_map_iff in Hin. destruct Hin as [[s [c' nx']] [E I]]. unfold nren in E. simpl in E. inversion E; subst.
        exists s. split; [exists nx'; now apply entries_nnext | reflexivity].
      + intros [s [[nx H] ->]]. right. exists (map f nx). apply in_map_iff. exists (s, (c, nx)). split; [reflexivity | now apply entries_nnext].
  Qed.

  Lemma nren_states : forall y, In y (nstates b) <-> exists x, In x (nstates n) /\ y = f x.
  Proof.
    destruct nren_spec as (Hwb & _ & Hsb & Hfb & Heb & Hkb). intros y.
    rewrite (nstates_char b y Hwb), Hsb, Hfb, In_sof, in_map_iff. split.
    - intros [->|[[x [<- Hx]]|[[c Hk]|[x [c He]]]]].
      + exists (nstart n). split; [apply nstart_in_nstates | reflexivity].
      + exists x. split; [now apply nfinal_in_nstates | reflexivity].
      + apply Hkb in Hk. destruct Hk as [s [Hk ->]]. exists s. split; [|reflexivity].
        apply nstates_char; [exact Hwf|]. right. right. left. eauto.
      + apply Heb in He. destruct He as (s & t & He & -> & ->). exists t. split; [apply (nedge_in_nstates n s c t He) | reflexivity].
    - intros [x [Hx ->]]. apply (nstates_char n x Hwf) in Hx. destruct Hx as [->|[Hx|[[c Hk]|[s [c He]]]]].
      + now left.
      + right. left. exists x. auto.
      + right. right. left. exists c. apply Hkb. eauto.
      + right. right. right. exists (f s), c. apply Heb. exists s, x. auto.
  Qed.
End RenamedN.

(** ** flat edge list and endpoints *)
Definition nflat1 (sx : Z * (Z * list Z)) : list (Z * (Z * Z)) := map (fun t => (fst sx, (fst (snd sx), t))) (snd (snd sx)).
Definition nflat (n : nfa) : list (Z * (Z * Z)) := flat_map nflat1 (entries (ntrans n)).

Lemma In_nflat : forall n s c t, nwf n -> (In (s, (c, t)) (nflat n) <-> nedge n s c t).
Proof.
  intros n s c t Hwf. unfold nflat. rewrite in_flat_map, nnext_nedge. split.
  - intros [[s' [c' nx]] [Hin Ht]]. unfold nflat1 in Ht. simpl in Ht. apply in_map_iff in Ht.
    destruct Ht as [t' [E Ht]]. inversion E; subst. exists nx. split; [now apply entries_nnext | exact Ht].
  - intros [nx [H1 H2]]. exists (s, (c, nx)). split; [now apply entries_nnext|].
    unfold nflat1. simpl. apply in_map_iff. eauto.
Qed.

Lemma nflat_NoDup : forall n, nwf n -> nsorted n -> NoDup (nflat n).
Proof.
  intros n Hwf Hso. unfold nflat.
  assert (Hnd : NoDup (entries (ntrans n))) by (destruct Hwf; now apply entries_NoDup).
  assert (Hent : forall e, In e (entries (ntrans n)) -> nnext n (fst e) (fst (snd e)) = Some (snd (snd e))).
  { intros [s [c nx]] He. now apply entries_nnext. }
  induction (entries (ntrans n)) as [|[s [c nx]] r IH]; simpl; [constructor|]. inversion Hnd; subst.
  apply NoDup_app_intro.
  - unfold nflat1. simpl. assert (Hs : NoDup nx).
    { apply ssorted_NoDup. apply (Hso s c nx). apply (Hent (s, (c, nx))). now left. }
    clear - Hs. induction nx as [|t nx IH]; simpl; [constructor|]. inversion Hs; subst. constructor; [|now apply IH].
    intros Hin. apply in_map_iff in Hin. destruct Hin as [t' [E Hin]]. inversion E; subst. contradiction.
  - apply IH; auto. intros e He. apply Hent. now right.
  - intros [s1 [c1 t1]] H1' H2'. unfold nflat1 in H1'. simpl in H1'. apply in_map_iff in H1'.
    destruct H1' as [t' [E _]]. inversion E; subst.
    apply in_flat_map in H2'. destruct H2' as [[s2 [c2 nx2]] [Hin2 Ht2]]. unfold nflat1 in Ht2. simpl in Ht2.
    apply in_map_iff in Ht2. destruct Ht2 as [t'' [E2 _]]. inversion E2; subst.
    pose proof (Hent (s1, (c1, nx)) (or_introl eq_refl)) as E3. pose proof (Hent (s1, (c1, nx2)) (or_intror Hin2)) as E4.
    simpl in E3, E4. assert (nx2 = nx) by congruence. subst nx2. contradiction.
Qed.

Definition nends (n : nfa) : list Z := flat_map ends1 (nflat n).

Lemma ndegrees_eq : forall n, ndegrees n = sort_z (map snd (fold_left (fun dg k => bump k dg) (nends n) [])).
Proof.
  intros n. unfold ndegrees, nends, nflat. f_equal. f_equal.
  rewrite (fold_nested (fun dg (s : Z) (x : Z * list Z) => fold_left (fun dg3 t => bump t (bump s dg3)) (snd x) dg) (ntrans n) []).
  generalize (@nil (Z * Z)). induction (entries (ntrans n)) as [|[s [c nx]] r IH]; intros dg; simpl; [reflexivity|].
  rewrite flat_map_app, fold_left_app, <- IH. f_equal. unfold nflat1. simpl.
  clear. revert dg. induction nx as [|t nx IH]; intros dg; simpl; [reflexivity|]. apply IH.
Qed.

Lemma nends_in_states : forall n x, nwf n -> In x (nends n) -> In x (nstates n).
Proof.
  intros n x Hwf H. unfold nends in H. apply in_flat_map in H. destruct H as [[s [c t]] [Hin Hx]].
  apply In_nflat in Hin; [|exact Hwf]. destruct (nedge_in_nstates n s c t Hin) as [H1 H2].
  simpl in Hx. destruct Hx as [<-|[<-|[]]]; auto.
Qed.

(** ** Equal is reflexive; the permuted copy only depends on the values on the states *)
Lemma nequal_refl : forall n, nwf n -> nsorted n -> NoDup (nfinal n) -> nequal n n = true.
Proof.
  intros n Hwf Hso Hf. pose proof Hwf as [H1 H2]. unfold nequal. rewrite Z.eqb_refl. simpl.
  rewrite (seteq_sequal _ _ Hf Hf (seteq_refl _)). simpl.
  unfold aequal.
  assert (Hi : aincl (fun a b => aincl sequal a b && aincl sequal b a) (ntrans n) (ntrans n) = true).
  { apply aincl_refl; [now apply ksorted_NoDup|]. intros s row Hin.
    assert (Hrow : ksorted row) by (rewrite Forall_forall in H2; apply (H2 _ Hin)).
    assert (aincl sequal row row = true).
    { apply aincl_refl; [now apply ksorted_NoDup|]. intros c nx Hc.
      assert (Hnx : NoDup nx).
      { apply ssorted_NoDup. apply (Hso s c nx). apply entries_nnext; [exact Hwf|]. apply In_entries. eauto. }
      apply seteq_sequal; auto. apply seteq_refl. }
    now rewrite H. }
  now rewrite Hi.
Qed.

Lemma npermute_ext : forall n f g, (forall x, In x (nstates n) -> f x = g x) -> npermute n f = npermute n g.
Proof.
  intros n f g H. rewrite !npermute_eq. f_equal.
  - apply map_ext_in. intros [s [c nx]] Hin. unfold nren. simpl.
    assert (Hs : In s (nstates n)) by (rewrite nstates_eq; apply nstates_fold_iff; right; exists s, c, nx; auto).
    rewrite (H s Hs). f_equal. f_equal. apply map_ext_in. intros t Ht. apply H.
    rewrite nstates_eq. apply nstates_fold_iff. right. exists s, c, nx. auto.
  - rewrite (H (nstart n) (nstart_in_nstates n)). f_equal. apply map_ext_in. intros x Hx.
    apply H. now apply nfinal_in_nstates.
Qed.

Lemma NoDup_map_inj_on_gen : forall (f : Z -> Z) (U l : list Z), inj_on f U -> (forall x, In x l -> In x U) -> NoDup l -> NoDup (map f l).
Proof.
  intros f U. induction l as [|x r IH]; intros Hinj Hsub Hnd; simpl; [constructor|]. inversion Hnd; subst. constructor.
  - intros Hin. apply in_map_iff in Hin. destruct Hin as [y [Hy Hin]].
    assert (y = x) by (apply Hinj; auto; apply Hsub; [now right | now left]). subst. contradiction.
  - apply IH; auto. intros; apply Hsub; now right.
Qed.

Lemma same_length_sets : forall (l l' : list Z), NoDup l -> NoDup l' -> (forall x, In x l <-> In x l') -> length l = length l'.
Proof.
  intros l l' H1 H2 H. apply Nat.le_antisymm; apply NoDup_incl_length; auto; intros x Hx; now apply H.
Qed.

(** Isomorphic is true for an NFA and its copy renamed by a map that is injective on its states. *)
Theorem nisomorphic_renamed : forall n f, nwf n -> nsorted n -> NoDup (nfinal n) -> inj_on f (nstates n) ->
  nisomorphic n (npermute n f) = true.
Proof.
  intros n f Hwf Hso Hfnd Hinj. set (b := npermute n f).
  destruct (nren_spec n f Hwf) as (Hwb & Hsob & Hsb & Hfb & Heb & Hkb). fold b in Hwb, Hsob, Hsb, Hfb, Heb, Hkb.
  assert (HLs : length (nstates b) = length (nstates n)).
  { rewrite <- (map_length f (nstates n)). apply same_length_sets.
    - apply ssorted_NoDup, nstates_sorted.
    - apply (NoDup_map_inj_on_gen f (nstates n)); auto. apply ssorted_NoDup, nstates_sorted.
    - intros y. unfold b. rewrite (nren_states n f Hwf y), in_map_iff. split; intros [x [H1 H2]]; exists x; auto. }
  assert (HLf : length (nfinal b) = length (nfinal n)).
  { rewrite Hfb, <- (map_length f (nfinal n)). apply same_length_sets.
    - apply ssorted_NoDup, ssorted_sof.
    - apply (NoDup_map_inj_on_gen f (nstates n)); auto. intros; now apply nfinal_in_nstates.
    - intros y. apply In_sof. }
  unfold nisomorphic. fold b. rewrite HLf, Nat.eqb_refl. simpl. rewrite HLs, Nat.eqb_refl. simpl.
  assert (Hsym : sequal (nsymbols n) (nsymbols b) = true).
  { apply seteq_sequal; try (apply ssorted_NoDup, nsymbols_sorted). intros c.
    rewrite (nsymbols_char n c Hwf), (nsymbols_char b c Hwb). split; intros [Hc [s Hk]]; (split; [exact Hc|]).
    - exists (f s). apply Hkb. eauto.
    - apply Hkb in Hk. destruct Hk as [s0 [Hk _]]. eauto. }
  rewrite Hsym. simpl.
  assert (Hdeg : list_eqb (ndegrees n) (ndegrees b) = true).
  { rewrite !ndegrees_eq. rewrite (degrees_renamed f (nends n) (nends b)); [apply list_eqb_refl| |].
    - intros x y Hx Hy. apply Hinj; now apply nends_in_states.
    - unfold nends. replace (map f (flat_map ends1 (nflat n))) with (flat_map ends1 (map (ren3 f) (nflat n))).
      + apply Permutation_flat_map. apply NoDup_Permutation.
        * now apply nflat_NoDup.
        * pose proof (nflat_NoDup n Hwf Hso) as Hnd.
          assert (Hsub : forall e, In e (nflat n) -> In (fst e) (nstates n) /\ In (snd (snd e)) (nstates n)).
          { intros [s [c t]] He. apply (nedge_in_nstates n s c t). now apply In_nflat. }
          clear - Hnd Hsub Hinj. induction (nflat n) as [|e r IH]; simpl; [constructor|]. inversion Hnd; subst.
          constructor; [|apply IH; auto; intros; apply Hsub; now right].
          intros Hin. apply in_map_iff in Hin. destruct Hin as [e' [He Hin]]. apply H1.
          destruct e as [s [c t]], e' as [s' [c' t']]. unfold ren3 in He. simpl in He. inversion He; subst.
          destruct (Hsub (s, (c, t)) (or_introl eq_refl)) as [A1 A2]. destruct (Hsub (s', (c, t')) (or_intror Hin)) as [B1 B2].
          simpl in *. rewrite <- (Hinj s' s B1 A1 H0), <- (Hinj t' t B2 A2 H4). exact Hin.
        * intros [x [c y]]. rewrite (In_nflat b x c y Hwb), Heb, in_map_iff. split.
          -- intros (s & t & He & -> & ->). exists (s, (c, t)). split; [reflexivity | now apply In_nflat].
          -- intros [[s [c' t]] [E I]]. unfold ren3 in E. simpl in E. inversion E; subst.
             exists s, t. split; [now apply In_nflat | auto].
      + induction (nflat n) as [|e r IH]; simpl; [reflexivity|]. now rewrite IH. }
  rewrite Hdeg. simpl. apply negb_true_iff.
  apply (gen_permutations_complete (nstates b) (map f (nstates n))).
  - pose proof (nstart_in_nstates b). destruct (nstates b); [contradiction | discriminate].
  - apply ssorted_NoDup, nstates_sorted.
  - apply (NoDup_map_inj_on_gen f (nstates n)); auto. apply ssorted_NoDup, nstates_sorted.
  - rewrite map_length. symmetry. exact HLs.
  - intros y. unfold b. rewrite (nren_states n f Hwf y), in_map_iff. split; intros [x [H1 H2]]; exists x; auto.
  - apply negb_false_iff.
    assert (E : npermute n (bij_of (nstates n) (map f (nstates n))) = b).
    { apply npermute_ext. intros x Hx. apply bij_of_map; [apply ssorted_NoDup, nstates_sorted | exact Hx]. }
    rewrite E. apply nequal_refl; [exact Hwb | exact Hsob|]. rewrite Hfb. apply ssorted_NoDup, ssorted_sof.
Qed.

Lemma nbuild_final_nodup : forall s f adds, NoDup (nfinal (nbuild s f adds)).
Proof.
  intros s f adds. unfold nbuild.
  assert (G : forall adds n, nfinal (fold_left (fun n e => nadd n (fst (fst e)) (snd (fst e)) (snd e)) adds n) = nfinal n).
  { induction adds0 as [|e r IH]; intros n; simpl; [reflexivity|]. now rewrite IH. }
  rewrite G. simpl. apply ssorted_NoDup, ssorted_sof.
Qed.
