(** C05 — the degree bound of the indexed Fibonacci heap: a node of degree d whose children
    obey the mark discipline roots a tree of at least F(d+2) entries, and F(d+2) <= n puts d
    below maxDegree n, so that [roots[x.degree]] of consolidate never leaves the slice. *)
From Algo.C05 Require Import Base ModelFib Spec ProofsBin ProofsTree ProofsBinom ProofsFib.
From Coq Require Import Lia Permutation.
Open Scope Z_scope.

(** * Fibonacci and Lucas numbers *)
Fixpoint fibp (n : nat) : Z * Z :=   (* (F n, F (n+1)) *)
  match n with O => (0, 1) | S n' => let '(a, b) := fibp n' in (b, a + b) end.
Definition fibn (n : nat) : Z := fst (fibp n).

Lemma fibn_0 : fibn 0 = 0. Proof. reflexivity. Qed.
Lemma fibn_1 : fibn 1 = 1. Proof. reflexivity. Qed.
Lemma fibn_SS n : fibn (S (S n)) = fibn n + fibn (S n).
Proof. unfold fibn. cbn [fibp]. destruct (fibp n) as (a, b). reflexivity. Qed.

Lemma fibn_nonneg n : 0 <= fibn n /\ 0 <= fibn (S n).
Proof. induction n as [|n (A & B)]; [rewrite fibn_0, fibn_1; lia|]. rewrite fibn_SS. lia. Qed.

Lemma fibn_pos n : 0 < fibn (S n).
Proof.
  induction n as [|n IH]; [rewrite fibn_1; lia|]. rewrite fibn_SS. pose proof (fibn_nonneg n). lia.
Qed.

Lemma fibn_mono_S n : fibn (S n) <= fibn (S (S n)).
Proof. rewrite fibn_SS. pose proof (fibn_nonneg n). lia. Qed.

Lemma fibn_mono a b : (1 <= a <= b)%nat -> fibn a <= fibn b.
Proof.
  intros (A & B). induction B as [|b B IH]; [lia|].
  destruct b as [|b]; [lia|]. pose proof (fibn_mono_S b). lia.
Qed.

Lemma fibn_ge n : Z.of_nat n + 1 <= fibn (n + 2).
Proof.
  induction n as [|n IH]; [cbn; lia|]. replace (S n + 2)%nat with (S (S (n + 1))) by lia. rewrite fibn_SS.
  replace (S (n + 1)) with (n + 2)%nat by lia. pose proof (fibn_pos n). replace (n + 1)%nat with (S n) by lia. lia.
Qed.

(** the loop of [max_degree]: (l0, f0) = (L d, F d), (l1, f1) = (L (d+1), F (d+1)) *)
Definition lucn (n : nat) : Z := match n with O => 2 | S n' => fibn n' + fibn (S (S n')) end.

Lemma lucn_SS n : lucn (S (S n)) = lucn n + lucn (S n).
Proof.
  destruct n as [|n]; [reflexivity|]. cbn [lucn]. rewrite !fibn_SS. lia.
Qed.

(** 2 F(d+2) - L(d) = 3 F(d) *)
Lemma luc_fib_id d : 2 * fibn (d + 2) - lucn d = 3 * fibn d.
Proof.
  assert (G : forall d, 2 * fibn (d + 2) - lucn d = 3 * fibn d /\ 2 * fibn (S d + 2) - lucn (S d) = 3 * fibn (S d)).
  { induction d0 as [|d0 (A & B)]; [split; reflexivity|]. split; [exact B|].
    replace (S (S d0) + 2)%nat with (S (S (d0 + 2))) by lia. rewrite fibn_SS, lucn_SS, (fibn_SS d0).
    replace (S (d0 + 2)) with (S d0 + 2)%nat by lia. lia. }
  apply G.
Qed.

Lemma phi_pow_le_fib d n : fibn (d + 2) <= n -> phi_pow_le (lucn d) (fibn d) n = true.
Proof.
  intros H. unfold phi_pow_le. pose proof (luc_fib_id d) as I. pose proof (fibn_nonneg d) as (P & _).
  apply andb_true_intro. split; [lia|]. apply Z.leb_le.
  assert (3 * fibn d <= 2 * n - lucn d) by lia.
  assert (5 * fibn d * fibn d <= (3 * fibn d) * (3 * fibn d)) by nia.
  assert ((3 * fibn d) * (3 * fibn d) <= (2 * n - lucn d) * (2 * n - lucn d)) by nia. lia.
Qed.

Lemma max_degree_go_lb n : forall fuel d,
  (forall d', (d' <= d + fuel)%nat -> (d' <= d + fuel)%nat) ->
  forall k, (k <= fuel)%nat -> fibn (d + k + 2) <= n ->
  Z.of_nat (d + k) + 1 <=
  max_degree_go fuel (Z.of_nat d) (lucn d) (fibn d) (lucn (S d)) (fibn (S d)) n.
Proof.
  induction fuel as [|f IH]; intros d _ k Hk Hn.
  - assert (k = 0)%nat by lia. subst. cbn [max_degree_go]. lia.
  - cbn [max_degree_go]. destruct k as [|k].
    + destruct (phi_pow_le (lucn (S d)) (fibn (S d)) n).
      * specialize (IH (S d) (fun _ x => x) 0%nat ltac:(lia)).
        replace (S d + 0 + 2)%nat with (S (d + 0 + 2)) in IH by lia.
        (* not needed: the value only grows *)
        assert (Z.of_nat d + 1 <= max_degree_go f (Z.of_nat d + 1) (lucn (S d)) (fibn (S d)) (lucn d + lucn (S d)) (fibn d + fibn (S d)) n).
        { clear. generalize (Z.of_nat d + 1) (lucn (S d)) (fibn (S d)) (lucn d + lucn (S d)) (fibn d + fibn (S d)).
          induction f as [|f IHf]; intros z a b c e; cbn [max_degree_go]; [lia|].
          destruct (phi_pow_le c e n); [|lia]. specialize (IHf (z + 1) c e (a + c) (b + e)). lia. }
        replace (d + 0)%nat with d by lia. lia.
      * replace (d + 0)%nat with d by lia. lia.
    + assert (Hs : fibn (S d + 2) <= n).
      { eapply Z.le_trans; [|exact Hn]. apply fibn_mono. lia. }
      rewrite (phi_pow_le_fib (S d) n Hs).
      specialize (IH (S d) (fun _ x => x) k ltac:(lia)).
      replace (S d + k + 2)%nat with (d + S k + 2)%nat in IH by lia. specialize (IH Hn).
      rewrite <- lucn_SS, <- fibn_SS. replace (Z.of_nat d + 1) with (Z.of_nat (S d)) by lia.
      replace (d + S k)%nat with (S d + k)%nat by lia. exact IH.
Qed.

Lemma max_degree_lb d n : fibn (d + 2) <= n -> Z.of_nat d < max_degree n.
Proof.
  intros H. unfold max_degree.
  assert (Hd : (d <= Z.to_nat n)%nat).
  { pose proof (fibn_ge d). lia. }
  pose proof (max_degree_go_lb n (Z.to_nat n) 0%nat (fun _ x => x) d Hd) as L.
  cbn [Nat.add] in L. specialize (L H). change (Z.of_nat 0) with 0 in L.
  change (lucn 0) with 2 in L. change (fibn 0) with 0 in L. change (lucn 1) with 1 in L. change (fibn 1) with 1 in L. lia.
Qed.

(** * the degree discipline *)
Fixpoint chain_len (t : bt) : nat := match t with Leaf => O | Nd _ _ _ _ sib => S (chain_len sib) end.

Lemma chain_len_to_list t : chain_len t = length (to_list t).
Proof. induction t as [|c d m ch _ sib IH]; cbn; auto. Qed.

(** a child list: each child has degree + [mark] >= number of older siblings; degrees are
    the numbers of children *)
Fixpoint fibch (t : bt) : Prop :=
  match t with
  | Leaf => True
  | Nd _ d m ch sib =>
      d = Z.of_nat (chain_len ch) /\ Z.of_nat (chain_len sib) <= d + (if m then 1 else 0) /\
      fibch ch /\ fibch sib
  end.

Definition rdeg (r : rt) : Prop := rt_d r = Z.of_nat (chain_len (rt_ch r)) /\ fibch (rt_ch r).

Lemma fibch_size t : fibch t -> fibn (chain_len t + 2) - 1 <= Z.of_nat (length (contents t)).
Proof.
  induction t as [|c d m ch IHc sib IHs]; intros H; [cbn; lia|].
  cbn [fibch] in H. destruct H as (D & Rk & Hc & Hs). specialize (IHc Hc). specialize (IHs Hs).
  cbn [chain_len contents length]. rewrite app_length.
  set (s := chain_len sib) in *. set (k := chain_len ch) in *.
  replace (S s + 2)%nat with (S (S (s + 1))) by lia. rewrite fibn_SS.
  replace (S (s + 1)) with (s + 2)%nat by lia.
  destruct s as [|s'].
  - cbn. pose proof (fibn_nonneg (k + 2)). lia.
  - (* k >= s' *)
    assert (Hk : (s' <= k)%nat) by (destruct m; lia).
    assert (fibn (S s' + 1) <= fibn (k + 2)) by (apply fibn_mono; lia). lia.
Qed.

Lemma rdeg_size r : rdeg r -> fibn (Z.to_nat (rt_d r) + 2) <= Z.of_nat (length (rcont r)).
Proof.
  intros (D & H). rewrite D, Nat2Z.id. unfold rcont. cbn [length]. pose proof (fibch_size _ H). lia.
Qed.

Lemma lcontents_length_ge l r : In r l -> (length (rcont r) <= length (lcontents l))%nat.
Proof.
  induction l as [|a l IH]; intros H; [destruct H|].
  change (lcontents (a :: l)) with (rcont a ++ lcontents l). rewrite app_length.
  destruct H as [->|H]; [lia|]. specialize (IH H). lia.
Qed.

(** the table of consolidate is long enough for every root *)
Lemma deg_in_range l r n :
  Forall rdeg l -> In r l -> Z.of_nat (length (lcontents l)) <= n -> 0 <= rt_d r < max_degree n.
Proof.
  intros F Hr Hn. rewrite Forall_forall in F. pose proof (F r Hr) as RD.
  pose proof (rdeg_size r RD) as S. pose proof (lcontents_length_ge l r Hr) as G.
  destruct RD as (D & _). split; [lia|].
  replace (rt_d r) with (Z.of_nat (Z.to_nat (rt_d r))) by lia. apply max_degree_lb. lia.
Qed.

Fixpoint fibroot (t : bt) : Prop :=
  match t with
  | Leaf => True
  | Nd _ d _ ch sib => d = Z.of_nat (chain_len ch) /\ fibch ch /\ fibroot sib
  end.

Lemma fibroot_forall t : fibroot t <-> Forall rdeg (to_list t).
Proof.
  induction t as [|c d m ch _ sib IH]; cbn [fibroot to_list]; [split; auto|].
  rewrite IH. split.
  - intros (A & B & C). constructor; auto. split; auto.
  - intros H. inversion H as [|? ? (A & B) C]; subst. auto.
Qed.

Lemma fibch_fibroot t : fibch t -> fibroot t.
Proof. induction t as [|c d m ch _ sib IH]; cbn [fibch fibroot]; auto. intros (A & _ & B & C). auto. Qed.

Lemma cc_deg x : forall t root t' cuts lost,
  cc root x t = Some (t', cuts, lost) ->
  (if root then fibroot t else fibch t) ->
  (if root then fibroot t' else fibch t') /\ Forall rdeg cuts /\
  (lost = true -> chain_len t = S (chain_len t')) /\ (lost = false -> chain_len t' = chain_len t).
Proof.
  induction t as [|c d m ch IHc sib IHs]; intros root t' cuts lost H HF; cbn [cc] in H; [discriminate|].
  destruct (c_idx c =? x) eqn:E.
  - destruct root.
    + inversion H; subst. split; [exact HF|]. split; [constructor|]. split; [discriminate | reflexivity].
    + inversion H; subst. cbn [fibch] in HF. destruct HF as (D & Rk & Hc & Hs).
      split; [exact Hs|]. split; [constructor; [split; auto | constructor]|]. split; [reflexivity | discriminate].
  - assert (HH : d = Z.of_nat (chain_len ch) /\ fibch ch /\
                 (if root then fibroot sib else fibch sib) /\
                 (root = false -> Z.of_nat (chain_len sib) <= d + (if m then 1 else 0))).
    { destruct root; cbn [fibch fibroot] in HF; intuition discriminate. }
    destruct HH as (D & Hc & Hs & Rk).
    destruct (cc false x ch) as [[[ch' cuts0] lost0]|] eqn:CC.
    + destruct (IHc false _ _ _ CC Hc) as (Hc' & F0 & L1 & L0).
      destruct lost0.
      * specialize (L1 eq_refl).
        destruct (negb m || root) eqn:MR.
        -- inversion H; subst. split; [|split; [exact F0|split; [discriminate | reflexivity]]].
           destruct root; cbn [fibch fibroot]; [split; [lia|auto]|].
           rewrite orb_false_r in MR. destruct m; [discriminate|]. cbn [negb].
           specialize (Rk eq_refl). repeat split; auto; lia.
        -- inversion H; subst. destruct root; [rewrite orb_true_r in MR; discriminate|].
           split; [exact Hs|]. split; [|split; [reflexivity | discriminate]].
           apply Forall_app. split; [exact F0|]. constructor; [|constructor]. split; cbn [rt_d rt_ch fst snd]; [lia | exact Hc'].
      * specialize (L0 eq_refl). inversion H; subst.
        split; [|split; [exact F0|split; [discriminate | reflexivity]]].
        destruct root; cbn [fibch fibroot]; rewrite L0; auto.
    + destruct (cc root x sib) as [[[sib' cuts0] lost0]|] eqn:CS; [|discriminate]. inversion H; subst.
      destruct (IHs root _ _ _ CS Hs) as (Hs' & F0 & L1 & L0).
      split; [|split; [exact F0|]].
      * destruct root; cbn [fibch fibroot]; [auto|]. specialize (Rk eq_refl).
        repeat split; auto. destruct lost; [specialize (L1 eq_refl) | specialize (L0 eq_refl)]; lia.
      * cbn [chain_len]. split; intros El; [rewrite (L1 El) | rewrite (L0 El)]; reflexivity.
Qed.

(** * consolidate never panics and never runs out of fuel *)
Lemma ring_remove_length x l r : ring_find x l = Some r -> length l = S (length (ring_remove x l)).
Proof.
  induction l as [|a l IH]; cbn [ring_find ring_remove]; [discriminate|]. destruct (rt_idx a =? x); [reflexivity|].
  intros H. cbn [length]. now rewrite (IH H).
Qed.

Lemma ring_update_length x f l : length (ring_update x f l) = length l.
Proof. induction l as [|a l IH]; cbn [ring_update]; [reflexivity|]. destruct (rt_idx a =? x); cbn; auto. Qed.

Lemma ring_find_update_other x z f l :
  (forall r, rt_idx (f r) = rt_idx r) -> z <> x -> ring_find z (ring_update x f l) = ring_find z l.
Proof.
  intros Hf N. induction l as [|a l IH]; cbn [ring_update ring_find]; [reflexivity|].
  destruct (rt_idx a =? x) eqn:E; cbn [ring_find].
  - rewrite Hf. destruct (rt_idx a =? z) eqn:E2; [lia | reflexivity].
  - destruct (rt_idx a =? z); auto.
Qed.

Section Total.
Variable cmp : Z -> Z -> Z.
Hypothesis TP : TotalPreorder cmp.
Variable n : Z.

(** every table entry is a root of the ring with exactly that degree *)
Definition TV (l : list rt) (roots : list (option Z)) : Prop :=
  forall d y, getR roots d = Ok (Some y) -> exists ry, ring_find y l = Some ry /\ rt_d ry = d.

Definition Sized (l : list rt) (roots : list (option Z)) : Prop :=
  Z.of_nat (length roots) = max_degree n /\ Z.of_nat (length (lcontents l)) <= n.

Lemma link_deg rx ry : rdeg rx -> rdeg ry -> rt_d rx = rt_d ry ->
  rdeg (rt_c ry, rt_d ry + 1, rt_m ry, nd_of rx (rt_ch ry)).
Proof.
  intros (Dx & Fx) (Dy & Fy) E. split; cbn [rt_d rt_ch fst snd nd_of chain_len fibch]; [lia|].
  repeat split; auto. destruct (rt_m rx); lia.
Qed.

Lemma getR_in_range {A} (l : list A) i : 0 <= i < Z.of_nat (length l) -> exists v, getR l i = Ok v.
Proof.
  intros H. unfold getR. destruct (i <? 0) eqn:E; [lia|].
  destruct (nth_error l (Z.to_nat i)) eqn:N; [eauto|]. apply nth_error_None in N. lia.
Qed.

Lemma setR_length {A} (l l' : list A) i v : setR l i v = Ok l' -> length l' = length l.
Proof.
  unfold setR. destruct ((i <? 0) || (Z.of_nat (length l) <=? i)); [discriminate|]. intros H. inversion H. apply length_upd.
Qed.

Lemma perm_len {A} (l1 l2 : list A) : Permutation l1 l2 -> length l1 = length l2.
Proof. apply Permutation_length. Qed.

Lemma cons_inner_total : forall fuel l roots x linked,
  (length l < fuel)%nat -> Good cmp l -> Forall rdeg l -> TV l roots -> Sized l roots -> In x (labels l) ->
  exists l1 roots1 x1 linked1,
    cons_inner cmp fuel l roots x linked = Ok (l1, roots1, x1, linked1) /\
    Forall rdeg l1 /\ TV l1 roots1 /\ Sized l1 roots1 /\ (length l1 <= length l)%nat /\
    (linked = false -> linked1 = true -> (length l1 < length l)%nat).
Proof.
  induction fuel as [|f IH]; intros l roots x linked Hf G FD T (SZ1 & SZ2) Hx; [lia|].
  cbn [cons_inner]. destruct (ring_find_some _ _ Hx) as (rx & Fx). rewrite Fx.
  destruct (ring_find_in _ _ _ Fx) as (Inx & Ex).
  pose proof (deg_in_range l rx n FD Inx SZ2) as RG. rewrite <- SZ1 in RG.
  destruct (getR_in_range roots (rt_d rx) RG) as (y & Gy). rewrite Gy. cbn [bind].
  destruct y as [yl|].
  2:{ exists l, roots, x, linked. repeat split; auto; try lia. intros ->. discriminate. }
  destruct (yl =? x) eqn:Eyx.
  { exists l, roots, x, linked. repeat split; auto; try lia. intros ->. discriminate. }
  rewrite setR_ok by lia. cbn [bind].
  destruct (T _ _ Gy) as (ry & Fy & Dy). rewrite Fy.
  destruct (ring_find_in _ _ _ Fy) as (Iny & Ey).
  assert (Nxy : x <> yl) by lia.
  rewrite Forall_forall in FD. pose proof (FD rx Inx) as RDx. pose proof (FD ry Iny) as RDy.
  set (roots' := upd roots (Z.to_nat (rt_d rx)) None).
  assert (SR : setR roots (rt_d rx) None = Ok roots') by (apply setR_ok; lia).
  (* common facts about a link of a under b *)
  assert (LK : forall a b ra rb, a <> b -> ring_find a l = Some ra -> ring_find b l = Some rb ->
               rt_d ra = rt_d rx -> rt_d rb = rt_d rx -> cmp (rkey rb) (rkey ra) <= 0 ->
               let l2 := ring_update b (fun r => (rt_c r, rt_d r + 1, rt_m r, nd_of ra (rt_ch r))) (ring_remove a l) in
               Good cmp l2 /\ Forall rdeg l2 /\ TV l2 roots' /\ Sized l2 roots' /\ In b (labels l2) /\ length l = S (length l2)).
  { intros a b ra rb Nab Fa Fb Da Db Cab l2.
    destruct (link_good cmp l a b ra rb G Nab Fa Fb Cab) as (G2 & P2 & M2 & F2). fold l2 in G2, P2, M2, F2.
    destruct (ring_find_in _ _ _ Fa) as (Ina & Ea). destruct (ring_find_in _ _ _ Fb) as (Inb & Eb).
    assert (Fb' : ring_find b (ring_remove a l) = Some rb) by (rewrite ring_find_remove_other; auto).
    pose proof (ring_update_perm b (fun r => (rt_c r, rt_d r + 1, rt_m r, nd_of ra (rt_ch r))) _ _ Fb') as PU. fold l2 in PU.
    pose proof (ring_remove_perm _ _ _ Fa) as PA. pose proof (ring_remove_perm _ _ _ Fb') as PB.
    split; [exact G2|]. split; [|split; [|split; [|split]]].
    - eapply Permutation_Forall; [apply Permutation_sym, PU|]. constructor.
      + apply link_deg; [apply FD; auto | apply FD; auto | lia].
      + apply Forall_forall. intros r Hr. apply FD. eapply Permutation_in; [apply Permutation_sym, PA|]. right.
        eapply Permutation_in; [apply Permutation_sym, PB|]. now right.
    - intros d z Gz. destruct (Z.eq_dec d (rt_d rx)) as [->|Nd].
      + rewrite (getR_setR_same _ _ _ _ SR) in Gz. discriminate.
      + rewrite (getR_setR_other _ _ _ _ _ SR) in Gz by lia. destruct (T _ _ Gz) as (rz & Fz & Dz).
        assert (z <> a) by (intros ->; rewrite Fa in Fz; inversion Fz; subst; lia).
        assert (z <> b) by (intros ->; rewrite Fb in Fz; inversion Fz; subst; lia).
        exists rz. split; [|exact Dz]. unfold l2. rewrite ring_find_update_other by (auto; intros; reflexivity).
        rewrite ring_find_remove_other; auto.
    - split; [unfold roots'; rewrite length_upd; exact SZ1|]. rewrite (perm_len _ _ P2). exact SZ2.
    - apply M2; [auto|]. unfold labels. rewrite <- Eb. now apply in_map.
    - unfold l2. rewrite ring_update_length. apply (ring_remove_length _ _ _ Fa). }
  destruct (cmp (c_key (rt_c rx)) (c_key (rt_c ry)) >? 0) eqn:C.
  - assert (Cle : cmp (rkey ry) (rkey rx) <= 0).
    { apply (cmp_lt_le cmp), (cmp_gt_lt cmp TP). unfold rkey. lia. }
    destruct (LK x yl rx ry Nxy Fx Fy eq_refl Dy Cle) as (G2 & D2 & T2 & S2 & I2 & L2).
    match type of L2 with length l = S (length ?l2) =>
      destruct (IH l2 roots' yl true ltac:(lia) G2 D2 T2 S2 I2) as (l1 & r1 & x1 & k1 & E1 & D1 & T1 & S1 & Le1 & _) end.
    exists l1, r1, x1, k1. split; [exact E1|]. repeat split; auto; try apply S1; lia.
  - assert (Cle : cmp (rkey rx) (rkey ry) <= 0) by (unfold rkey; lia).
    destruct (LK yl x ry rx ltac:(lia) Fy Fx Dy eq_refl Cle) as (G2 & D2 & T2 & S2 & I2 & L2).
    match type of L2 with length l = S (length ?l2) =>
      destruct (IH l2 roots' x true ltac:(lia) G2 D2 T2 S2 I2) as (l1 & r1 & x1 & k1 & E1 & D1 & T1 & S1 & Le1 & _) end.
    exists l1, r1, x1, k1. split; [exact E1|]. repeat split; auto; try apply S1; lia.
Qed.

Lemma TV_register l roots roots2 x rx :
  TV l roots -> ring_find x l = Some rx -> setR roots (rt_d rx) (Some x) = Ok roots2 -> TV l roots2.
Proof.
  intros T Fx SR d y Gy. destruct (Z.eq_dec d (rt_d rx)) as [->|Nd].
  - rewrite (getR_setR_same _ _ _ _ SR) in Gy. inversion Gy; subst y. eauto.
  - rewrite (getR_setR_other _ _ _ _ _ SR) in Gy by lia. now apply T.
Qed.

Lemma cons_outer_total (L0 : nat) : forall fuel l roots curr stop,
  Good cmp l -> Forall rdeg l -> TV l roots -> Sized l roots -> (length l <= L0)%nat ->
  (exists A B pre c post, l = A ++ B /\ B ++ A = pre ++ c :: post /\ hd_label (pre ++ c :: post) 0 = stop /\
                          rt_idx c = curr /\ (length l * S L0 + (length l - length pre) < fuel)%nat) ->
  exists l1 roots1, cons_outer cmp fuel l roots curr stop = Ok (l1, roots1) /\
                    Forall rdeg l1 /\ TV l1 roots1 /\ Sized l1 roots1.
Proof.
  induction fuel as [|f IH]; intros l roots curr stop G FD T SZ HL INV; [destruct INV as (?&?&?&?&?&?&?&?&?&?); lia|].
  destruct INV as (A & B & pre & c & post & EL & ER & HS & Ec & MS).
  pose proof (labels_nodup _ (proj2 G)) as NL.
  assert (Inc : In c l).
  { rewrite EL. eapply Permutation_in; [apply Permutation_app_comm|]. rewrite ER. apply in_or_app. right. now left. }
  assert (Hcurr : In curr (labels l)) by (unfold labels; rewrite <- Ec; now apply in_map).
  cbn [cons_outer].
  destruct (cons_inner_total (S (length l)) l roots curr false ltac:(lia) G FD T SZ Hcurr)
    as (l' & roots' & x & linked & CI & FD' & T' & SZ' & Le' & Lt').
  rewrite CI. cbn [bind].
  destruct (cons_inner_spec cmp TP _ _ _ _ _ _ _ _ _ CI G) as (G' & P' & (rx1 & Fx1 & EX) & LK).
  rewrite Fx1.
  destruct (ring_find_in _ _ _ Fx1) as (Inx & Ex1).
  pose proof (deg_in_range l' rx1 n FD' Inx (proj2 SZ')) as RG. rewrite <- (proj1 SZ') in RG.
  rewrite setR_ok by lia. cbn [bind].
  set (roots2 := upd roots' (Z.to_nat (rt_d rx1)) (Some x)).
  assert (SR : setR roots' (rt_d rx1) (Some x) = Ok roots2) by (apply setR_ok; lia).
  pose proof (TV_register _ _ _ _ _ T' Fx1 SR) as T2.
  assert (SZ2 : Sized l' roots2) by (split; [unfold roots2; rewrite length_upd; apply SZ' | apply SZ']).
  pose proof (labels_nodup _ (proj2 G')) as NL'.
  destruct linked.
  - (* a link happened *)
    specialize (Lt' eq_refl eq_refl).
    apply in_split in Inx. destruct Inx as (A' & B' & EL').
    assert (NA : ~ In x (labels A')).
    { rewrite EL', labels_app in NL'. destruct (NoDup_app_inv _ _ NL') as (_ & _ & D). intros X. apply (D x X). cbn. left. exact Ex1. }
    rewrite EL'. rewrite (ring_next_split x A' rx1 B' NA Ex1). rewrite <- EL'.
    destruct ((match B' with [] => hd_label A' x | b :: _ => rt_idx b end) =? x) eqn:TST; [eauto 10|].
    apply IH; auto; [lia|].
    destruct (B' ++ A') as [|c' post'] eqn:EBA.
    { exfalso. apply app_eq_nil in EBA. destruct EBA as (-> & ->). cbn in TST. lia. }
    exists A', (rx1 :: B'), [rx1], c', post'. split; [exact EL'|]. split; [cbn; now rewrite EBA|].
    split; [cbn; exact Ex1|]. split.
    + destruct B' as [|b B'']; cbn [app] in EBA.
      * destruct A' as [|a A'']; [discriminate|]. inversion EBA; subst. reflexivity.
      * inversion EBA; subst. reflexivity.
    + cbn [length]. assert (length l' * S L0 + S L0 <= length l * S L0)%nat by nia. lia.
  - (* no link *)
    destruct (LK eq_refl) as (-> & -> & -> & _). clear LK.
    assert (NR : NoDup (labels (pre ++ c :: post))).
    { rewrite <- ER. rewrite EL in NL. unfold labels in *. eapply Permutation_NoDup; [|exact NL].
      apply Permutation_map, Permutation_app_comm. }
    assert (Erc : rx1 = c).
    { pose proof (ring_find_unique curr l c NL Inc Ec) as U. congruence. }
    subst rx1.
    assert (Npre : ~ In curr (labels pre)).
    { rewrite labels_app in NR. destruct (NoDup_app_inv _ _ NR) as (_ & _ & D). intros X. apply (D curr X). cbn. left. exact Ec. }
    assert (ENX : ring_next curr l = Some (match post with b :: _ => rt_idx b | [] => hd_label pre curr end)).
    { rewrite EL. rewrite ring_next_rot; [|rewrite <- EL; exact NL|rewrite <- EL; exact Hcurr].
      rewrite ER. apply (ring_next_split curr pre c post Npre Ec). }
    rewrite ENX.
    destruct ((match post with b :: _ => rt_idx b | [] => hd_label pre curr end) =? stop) eqn:TST; [eauto 10|].
    destruct post as [|b post'].
    + exfalso. destruct pre as [|p pre']; cbn [hd_label app] in *; lia.
    + apply IH; auto.
      exists A, B, (pre ++ [c]), b, post'. split; [exact EL|]. split; [rewrite ER, <- app_assoc; reflexivity|].
      split; [rewrite <- HS; destruct pre; reflexivity|]. split; [reflexivity|].
      assert (LP : (length pre + S (S (length post')) = length l)%nat).
      { assert (Hab : length (A ++ B) = length (B ++ A)) by (rewrite !app_length; lia).
        rewrite EL, Hab, ER, app_length. cbn [length]. lia. }
      rewrite app_length. cbn [length]. lia.
Qed.

Lemma pick_roots_total l : forall roots e ekey,
  (forall y, In (Some y) roots -> exists ry, ring_find y l = Some ry) ->
  exists e', pick_roots cmp l e ekey roots = Ok e'.
Proof.
  induction roots as [|o roots IH]; intros e ekey H; cbn [pick_roots]; [eauto|].
  destruct o as [r|].
  - destruct (H r ltac:(now left)) as (ry & ->).
    destruct (cmp ekey (c_key (rt_c ry)) <=? 0); apply IH; intros y Hy; apply H; now right.
  - apply IH. intros y Hy. apply H. now right.
Qed.

Lemma In_getR {A} (l : list A) v : In v l -> exists d, getR l d = Ok v.
Proof.
  intros H. destruct (In_nth_error _ _ H) as (k & E). exists (Z.of_nat k). unfold getR.
  destruct (Z.of_nat k <? 0) eqn:N; [apply Z.ltb_lt in N; lia|]. now rewrite Nat2Z.id, E.
Qed.

Lemma consolidate_total l :
  l <> [] -> Good cmp l -> Forall rdeg l -> Z.of_nat (length (lcontents l)) <= n ->
  exists l2, consolidate cmp n l = Ok l2 /\ Forall rdeg l2.
Proof.
  intros NE G FD SZ. unfold consolidate. destruct l as [|r0 t]; [congruence|].
  assert (N1 : 1 <= n).
  { change (lcontents (r0 :: t)) with (rcont r0 ++ lcontents t) in SZ. rewrite app_length in SZ. unfold rcont in SZ. cbn [length] in SZ. lia. }
  assert (MD : 0 < max_degree n) by (apply (max_degree_lb 0 n); cbn; lia).
  set (roots := repeat None (Z.to_nat (max_degree n))).
  assert (T0 : TV (r0 :: t) roots).
  { intros d y Gy. apply getR_in in Gy. unfold roots in Gy. apply repeat_spec in Gy. discriminate. }
  assert (S0 : Sized (r0 :: t) roots) by (split; [unfold roots; rewrite repeat_length; lia | exact SZ]).
  destruct (cons_outer_total (length (r0 :: t)) (S (S (length (r0 :: t)) * S (length (r0 :: t)))) (r0 :: t) roots
              (rt_idx r0) (rt_idx r0) G FD T0 S0 ltac:(lia)) as (l1 & roots1 & CO & FD1 & T1 & S1).
  { exists [], (r0 :: t), [], r0, t. cbn [app length]. rewrite app_nil_r. repeat split; auto. nia. }
  fold roots. rewrite CO. cbn [bind].
  assert (INV0 : exists A B pre c post, r0 :: t = A ++ B /\ B ++ A = pre ++ c :: post /\
                   hd_label (pre ++ c :: post) 0 = rt_idx r0 /\ rt_idx c = rt_idx r0 /\ Forall (reg roots) pre).
  { exists [], (r0 :: t), [], r0, t. cbn [app]. rewrite app_nil_r. repeat split; auto. }
  destruct (cons_outer_spec cmp TP _ _ _ _ _ _ _ CO G INV0) as (G1 & P1 & F1).
  destruct l1 as [|e0 t1].
  { exfalso. apply Permutation_length in P1. cbn in P1.
    change (lcontents (r0 :: t)) with (rcont r0 ++ lcontents t) in P1. rewrite app_length in P1. unfold rcont in P1. cbn in P1. lia. }
  destruct (pick_roots_total (e0 :: t1) roots1 (rt_idx e0) (c_key (rt_c e0))) as (e & PR).
  { intros y Hy. destruct (In_getR _ _ Hy) as (d & Gd). destruct (T1 _ _ Gd) as (ry & Fy & _). eauto. }
  rewrite PR. cbn [bind].
  assert (E0 : exists re, ring_find (rt_idx e0) (e0 :: t1) = Some re /\ rkey re = c_key (rt_c e0)).
  { exists e0. split; [|reflexivity]. cbn [ring_find]. now rewrite Z.eqb_refl. }
  destruct (pick_roots_spec cmp TP _ _ _ _ _ PR E0) as (re & Fe & _).
  destruct (ring_find_in _ _ _ Fe) as (Ire & Ere).
  destruct (rotate_to_some e (e0 :: t1)) as (l2 & RT).
  { unfold labels. rewrite <- Ere. now apply in_map. }
  rewrite RT. exists l2. split; [reflexivity|].
  eapply Permutation_Forall; [apply Permutation_sym, (rotate_to_perm _ _ _ RT) | exact FD1].
Qed.

End Total.

(** * every operation of the model returns [Ok] *)
Section Ops.
Variable cmp : Z -> Z -> Z.
Hypothesis TP : TotalPreorder cmp.
Hypothesis cmp_eq0 : forall a b, cmp a b = 0 -> a = b.

(** degrees are child counts obeying the mark discipline, and n counts the entries *)
Definition InvT (h : ifib) : Prop :=
  Forall rdeg (to_list (f_ring h)) /\ f_n h = Z.of_nat (length (contents (f_ring h))).

Lemma cc_label x : forall t root t' cuts lost,
  cc root x t = Some (t', cuts, lost) ->
  In x (labels cuts) \/ (root = true /\ In x (labels (to_list t'))).
Proof.
  induction t as [|c d m ch IHc sib IHs]; intros root t' cuts lost H; cbn [cc] in H; [discriminate|].
  destruct (c_idx c =? x) eqn:E.
  - destruct root; inversion H; subst.
    + right. split; auto. cbn. left. unfold rt_idx. cbn. lia.
    + left. cbn. left. unfold rt_idx. cbn. lia.
  - destruct (cc false x ch) as [[[ch' cuts0] lost0]|] eqn:CC.
    + destruct (IHc false _ _ _ CC) as [L|(Ab & _)]; [|discriminate].
      destruct lost0; [destruct (negb m || root)|]; inversion H; subst; left; auto.
      rewrite labels_app. apply in_or_app. now left.
    + destruct (cc root x sib) as [[[sib' cuts0] lost0]|] eqn:CS; [|discriminate]. inversion H; subst.
      destruct (IHs root _ _ _ CS) as [L|(Rt & L)]; [now left|]. right. split; auto. cbn. now right.
Qed.

Lemma set_key_shape i k : forall t,
  chain_len (set_key i k t) = chain_len t /\ (fibch t -> fibch (set_key i k t)) /\ (fibroot t -> fibroot (set_key i k t)).
Proof.
  induction t as [|c d m ch (L1 & C1 & R1) sib (L2 & C2 & R2)]; [cbn; auto|].
  cbn [set_key]. destruct (c_idx c =? i); cbn [chain_len fibch fibroot]; [auto|].
  rewrite L1, L2. repeat split; intuition.
Qed.

Lemma finish_delete_total h m rest r :
  Rep (f_ring h) (f_nodes h) (f_n h) m -> Good cmp (r :: rest) -> Forall rdeg (r :: rest) ->
  Permutation (lcontents (r :: rest)) (contents (f_ring h)) ->
  f_n h = Z.of_nat (length (contents (f_ring h))) ->
  exists h', finish_delete cmp h rest r = Ok h' /\ InvT h'.
Proof.
  intros R (FR & ND) FD P SZ. unfold finish_delete.
  set (l := meld rest (to_list (rt_ch r))).
  assert (PL : Permutation (rt_c r :: lcontents l) (lcontents (r :: rest))).
  { unfold l. rewrite (lcontents_perm _ _ (meld_perm _ _)), lcontents_app, contents_to_list.
    rewrite lcontents_cons. clear. perm. }
  inversion FR as [|? ? Rr Frest]; subst. inversion FD as [|? ? Dr Drest]; subst.
  assert (GL : Good cmp l).
  { split.
    - unfold l. eapply Permutation_Forall; [apply Permutation_sym, meld_perm|]. apply Forall_app. split; [exact Frest|].
      eapply ho_rok; exact Rr.
    - assert (N : NoDup (map c_idx (rt_c r :: lcontents l))).
      { eapply Permutation_NoDup; [apply Permutation_sym, Permutation_map, PL | exact ND]. }
      cbn [map] in N. now apply NoDup_cons_iff in N as (_ & N). }
  assert (DL : Forall rdeg l).
  { unfold l. eapply Permutation_Forall; [apply Permutation_sym, meld_perm|]. apply Forall_app. split; [exact Drest|].
    apply fibroot_forall, fibch_fibroot. apply Dr. }
  assert (Hc : In (rt_c r) (contents (f_ring h))).
  { eapply Permutation_in; [exact P|]. rewrite lcontents_cons. now left. }
  destruct (Rep_in _ _ _ _ _ R Hc) as (Ri & _).
  assert (NL : length (f_nodes h) = length m) by (destruct R as (A & _); rewrite A; apply map_length).
  rewrite setR_ok by (unfold rt_idx; lia). cbn [bind].
  assert (LEN : Z.of_nat (length (lcontents l)) = f_n h - 1).
  { rewrite SZ. rewrite <- (Permutation_length P), <- (Permutation_length PL). cbn [length]. lia. }
  destruct l as [|a l0] eqn:El.
  - eexists. split; [reflexivity|]. split; cbn [f_ring f_nodes f_n to_list contents length]; [constructor|].
    cbn in LEN. lia.
  - destruct (consolidate_total cmp TP (f_n h - 1) (a :: l0) ltac:(discriminate) GL DL ltac:(lia)) as (l2 & CS & D2).
    rewrite CS. cbn [bind]. eexists. split; [reflexivity|].
    destruct (consolidate_spec cmp TP _ _ _ CS GL) as (_ & P2 & _).
    split; cbn [f_ring f_nodes f_n]; [now rewrite to_of|].
    rewrite contents_of_list, (Permutation_length P2). lia.
Qed.

Lemma Good_of_InvF h m : InvF cmp h m -> Good cmp (to_list (f_ring h)).
Proof.
  intros (R & F & _). split; [exact F|]. destruct R as (_ & _ & ND & _). unfold idxs in ND. now rewrite contents_to_list.
Qed.

Lemma delete_total h m : InvF cmp h m -> InvT h -> exists h' r, ifib_delete cmp h = Ok (h', r) /\ InvT h'.
Proof.
  intros I T. pose proof T as (D & SZ). pose proof I as (R & _). unfold ifib_delete.
  pose proof (Good_of_InvF _ _ I) as G.
  destruct (to_list (f_ring h)) as [|e rest] eqn:E; [eexists _, _; split; [reflexivity | exact T]|].
  assert (P : Permutation (lcontents (e :: rest)) (contents (f_ring h))) by (rewrite <- E, contents_to_list; reflexivity).
  destruct (finish_delete_total h m rest e R G D P SZ) as (h1 & FDl & T1). rewrite FDl. cbn [bind]. eauto.
Qed.

Lemma insert_total h m i k v : InvF cmp h m -> InvT h -> exists h' r, ifib_insert cmp h i k v = Ok (h', r) /\ InvT h'.
Proof.
  intros I (D & SZ). pose proof (nodes_len_F _ _ _ I) as NL. unfold ifib_insert.
  rewrite (contains_index_F _ _ _ _ I), NL.
  destruct ((i <? 0) || (Z.of_nat (length m) <=? i)) eqn:OOR; cbn [orb]; [eexists _, _; split; [reflexivity | split; assumption]|].
  destruct (is_some (aget m i)); [eexists _, _; split; [reflexivity | split; assumption]|].
  rewrite setR_ok by lia. cbn [bind]. eexists _, _. split; [reflexivity|].
  set (nn := ((i, k, v), 0, false, Leaf) : rt).
  assert (Dn : rdeg nn) by (split; cbn; auto).
  destruct (to_list (f_ring h)) as [|e t] eqn:E.
  - split; cbn [f_ring f_nodes f_n of_list to_list]; [repeat constructor; auto|].
    rewrite SZ, <- (contents_to_list (f_ring h)), E. cbn. lia.
  - assert (Len : Z.of_nat (length (lcontents (e :: t))) = f_n h) by (rewrite <- E, contents_to_list; lia).
    destruct (cmp (c_key (rt_c e)) k <=? 0).
    + split; cbn [f_ring f_nodes f_n]; [rewrite to_of; change (e :: t ++ [nn]) with ((e :: t) ++ [nn]); apply Forall_app; split; auto|].
      change (e :: t ++ [nn]) with ((e :: t) ++ [nn]). rewrite contents_of_list, lcontents_app, app_length, lcontents_single. cbn [length contents nn rt_ch snd]. lia.
    + split; cbn [f_ring f_nodes f_n]; [rewrite to_of; constructor; auto|].
      rewrite contents_of_list. change (nn :: e :: t) with ([nn] ++ (e :: t)). rewrite lcontents_app, app_length, lcontents_single.
      cbn [length contents nn rt_ch snd]. lia.
Qed.

Lemma delete_index_total h m i :
  InvF cmp h m -> InvT h -> exists h' r, ifib_delete_index cmp h i = Ok (h', r) /\ InvT h'.
Proof.
  intros I (D & SZ). pose proof I as (R & F & X). unfold ifib_delete_index.
  rewrite (contains_index_F _ _ _ _ I).
  destruct (aget m i) as [kv|] eqn:G; cbn [is_some negb]; [|eexists _, _; split; [reflexivity | split; assumption]].
  destruct (Rep_lookup _ _ _ _ _ _ R G) as (Ri & L & Hc).
  pose proof R as (_ & _ & ND & _).
  pose proof (in_contents_idxs _ _ Hc) as INi. cbn [c_idx fst] in INi.
  destruct (cc_some i _ true INi) as ([[t' cuts] lost] & CC).
  unfold cut_and_cascade. rewrite CC. cbn [bind].
  assert (CC' : cut_and_cascade i (f_ring h) = Ok (to_list t' ++ cuts)) by (unfold cut_and_cascade; now rewrite CC).
  destruct (cut_and_cascade_spec cmp _ _ _ CC' ND (ho_hoP cmp i None _ (InvF_ho _ _ _ I))) as (GL & PL & _).
  destruct (cc_deg i _ true _ _ _ CC (proj2 (fibroot_forall _) D)) as (D' & DC & _).
  assert (DL : Forall rdeg (to_list t' ++ cuts)) by (apply Forall_app; split; [now apply fibroot_forall | exact DC]).
  assert (Li : In i (labels (to_list t' ++ cuts))).
  { rewrite labels_app. apply in_or_app. destruct (cc_label i _ _ _ _ _ CC) as [Y|(_ & Y)]; auto. }
  destruct (ring_find_some _ _ Li) as (r0 & RF). rewrite RF.
  pose proof (ring_remove_perm _ _ _ RF) as PR.
  assert (G1 : Good cmp (r0 :: ring_remove i (to_list t' ++ cuts))) by (eapply Good_perm; eauto).
  assert (D1 : Forall rdeg (r0 :: ring_remove i (to_list t' ++ cuts))) by (eapply Permutation_Forall; eauto).
  assert (P1 : Permutation (lcontents (r0 :: ring_remove i (to_list t' ++ cuts))) (contents (f_ring h))).
  { rewrite <- PL. apply lcontents_perm. now apply Permutation_sym. }
  destruct (finish_delete_total h m _ r0 R G1 D1 P1 SZ) as (h1 & FDl & T1). rewrite FDl. cbn [bind]. eauto.
Qed.

Lemma cc_root_lost x : forall t t' cuts lost, cc true x t = Some (t', cuts, lost) -> lost = false.
Proof.
  induction t as [|c d m ch IHc sib IHs]; intros t' cuts lost H; cbn [cc] in H; [discriminate|].
  destruct (c_idx c =? x); [inversion H; reflexivity|].
  destruct (cc false x ch) as [[[ch' cuts0] lost0]|].
  - destruct lost0; [rewrite orb_true_r in H|]; inversion H; reflexivity.
  - destruct (cc true x sib) as [[[sib' cuts0] lost0]|] eqn:CS; [|discriminate]. inversion H; subst. eauto.
Qed.

Lemma parent_none_root x : forall t pc, parent_of x pc t = Some None -> pc = None /\ In x (labels (to_list t)).
Proof.
  induction t as [|c d m ch IHc sib IHs]; intros pc H; cbn [parent_of] in H; [discriminate|].
  destruct (c_idx c =? x) eqn:E.
  - inversion H. split; auto. cbn. left. unfold rt_idx. cbn. lia.
  - destruct (parent_of x (Some c) ch) as [r|] eqn:PC.
    + inversion H; subst r. destruct (IHc _ PC). discriminate.
    + destruct (IHs _ H) as (A & B). split; auto. cbn. now right.
Qed.

Lemma parent_in x : forall t pc p, parent_of x pc t = Some (Some p) -> pc = Some p \/ In p (contents t).
Proof.
  induction t as [|c d m ch IHc sib IHs]; intros pc p H; cbn [parent_of] in H; [discriminate|].
  destruct (c_idx c =? x) eqn:E; [inversion H; now left|].
  destruct (parent_of x (Some c) ch) as [r|] eqn:PC.
  - inversion H; subst r. destruct (IHc _ _ PC) as [Y|Y].
    + inversion Y; subst. right. now left.
    + right. cbn [contents]. right. apply in_or_app. now left.
  - destruct (IHs _ _ H) as [Y|Y]; [now left|]. right. cbn [contents]. right. apply in_or_app. now right.
Qed.

Lemma labels_set_key i k t : labels (to_list (set_key i k t)) = labels (to_list t).
Proof.
  induction t as [|c d m ch _ sib IH]; [reflexivity|]. cbn [set_key].
  destruct (c_idx c =? i); cbn [to_list labels map]; [reflexivity|]. unfold labels in IH. now rewrite IH.
Qed.

Lemma change_key_total h m i k :
  InvF cmp h m -> InvT h -> exists h' r, ifib_change_key cmp h i k = Ok (h', r) /\ InvT h'.
Proof.
  intros I T. pose proof T as (D & SZ). pose proof I as (R & F & X). unfold ifib_change_key.
  rewrite (contains_index_F _ _ _ _ I).
  destruct (aget m i) as [kv|] eqn:G; cbn [is_some negb]; [|eexists _, _; split; [reflexivity | exact T]].
  destruct (Rep_lookup _ _ _ _ _ _ R G) as (Ri & L & Hc). rewrite L.
  pose proof R as (_ & _ & ND & _).
  pose proof (in_contents_idxs _ _ Hc) as INi. cbn [c_idx fst] in INi.
  destruct (parent_isin i _ None INi) as (pc & PO). rewrite PO. cbn [c_key c_val fst snd].
  destruct (cmp k (fst kv) <? 0) eqn:Cd.
  - assert (Ck : cmp k (fst kv) <= 0) by lia.
    destruct (set_key_facts i k _ _ _ ND Hc) as (IE & CI).
    set (t1 := set_key i k (f_ring h)) in *.
    assert (ND1 : NoDup (idxs t1)) by now rewrite IE.
    assert (IN1 : In i (idxs t1)) by now rewrite IE.
    assert (FR1 : fibroot t1) by (apply set_key_shape, fibroot_forall, D).
    assert (HP1 : hoP cmp i None t1) by (eapply set_key_hoP; eauto; apply (InvF_ho _ _ _ I)).
    assert (LEN1 : length (contents t1) = length (contents (f_ring h))).
    { unfold t1. rewrite contents_set_key by exact ND. apply map_length. }
    (* the list after the optional cut *)
    assert (LL : exists l, (match pc with
                            | Some p => if cmp (c_key p) k >? 0 then cut_and_cascade i t1 else Ok (to_list t1)
                            | None => Ok (to_list t1)
                            end) = Ok l /\ Forall rdeg l /\ Permutation (lcontents l) (contents t1) /\ l <> [] /\
                           (In i (labels l) \/ exists p, pc = Some p /\ cmp (c_key p) k <= 0 /\ l = to_list t1)).
    { assert (NoCut : (pc = None \/ exists p, pc = Some p /\ cmp (c_key p) k <= 0) ->
                      Forall rdeg (to_list t1) /\ Permutation (lcontents (to_list t1)) (contents t1) /\ to_list t1 <> [] /\
                      (In i (labels (to_list t1)) \/ exists p, pc = Some p /\ cmp (c_key p) k <= 0 /\ to_list t1 = to_list t1)).
      { intros Hpc. split; [now apply fibroot_forall|]. split; [now rewrite contents_to_list|]. split.
        - destruct t1; [destruct IN1 | discriminate].
        - destruct Hpc as [->|(p & -> & Cp)]; [left | right; eauto].
          unfold t1. rewrite labels_set_key. apply (parent_none_root i _ None PO). }
      destruct pc as [p|].
      - destruct (cmp (c_key p) k >? 0) eqn:Cp.
        + destruct (cc_some i t1 true IN1) as ([[t' cuts] lost] & CC).
          assert (CC' : cut_and_cascade i t1 = Ok (to_list t' ++ cuts)) by (unfold cut_and_cascade; now rewrite CC).
          exists (to_list t' ++ cuts). split; [exact CC'|].
          destruct (cut_and_cascade_spec cmp _ _ _ CC' ND1 HP1) as (_ & PL & _).
          destruct (cc_deg i _ true _ _ _ CC FR1) as (D' & DC & _ & L0).
          pose proof (cc_root_lost _ _ _ _ _ CC) as ->. specialize (L0 eq_refl).
          split; [apply Forall_app; split; [now apply fibroot_forall | exact DC]|]. split; [exact PL|]. split.
          * intros E0. apply app_eq_nil in E0. destruct E0 as (E0 & _).
            rewrite chain_len_to_list, E0 in L0. destruct t1; [destruct IN1 | cbn in L0; lia].
          * left. rewrite labels_app. apply in_or_app. destruct (cc_label i _ _ _ _ _ CC) as [Y|(_ & Y)]; auto.
        + exists (to_list t1). split; [reflexivity|]. apply NoCut. right. exists p. split; [reflexivity | lia].
      - exists (to_list t1). split; [reflexivity|]. apply NoCut. now left. }
    destruct LL as (l & EL & DL & PL & NE & Li). rewrite EL. cbn [bind].
    destruct l as [|e lt]; [congruence|].
    assert (LENl : Z.of_nat (length (lcontents (e :: lt))) = f_n h).
    { rewrite (Permutation_length PL), LEN1. lia. }
    destruct (cmp (c_key (rt_c e)) k <=? 0) eqn:Ce.
    + eexists _, _. split; [reflexivity|]. split; cbn [f_ring f_n]; [now rewrite to_of|].
      now rewrite contents_of_list.
    + (* h.ext = n: n is a root *)
      assert (Lab : In i (labels (e :: lt))).
      { destruct Li as [Y|(p & Ep & Cp & El)]; [exact Y|]. exfalso.
        (* the head bounds the parent's key, which bounds the new key *)
        destruct (f_ring h) as [|c0 d0 m0 ch0 sib0] eqn:ER; [destruct Hc|].
        pose proof (head_min_all cmp TP (Nd c0 d0 m0 ch0 sib0) (c0, d0, m0, ch0) (to_list sib0) eq_refl) as HM.
        pose proof (InvF_ho _ _ _ I) as HO. try rewrite ER in HO. try rewrite ER in X. specialize (HM X HO).
        change (rkey (c0, d0, m0, ch0)) with (c_key c0) in HM.
        subst pc. cbn [parent_of] in PO. destruct (c_idx c0 =? i) eqn:E0; [discriminate|].
        assert (Ee : rt_c e = c0).
        { unfold t1 in El. cbn [set_key] in El. rewrite E0 in El. cbn [to_list] in El. inversion El. reflexivity. }
        assert (Hp : In p (contents (Nd c0 d0 m0 ch0 sib0))).
        { assert (PO' : parent_of i None (Nd c0 d0 m0 ch0 sib0) = Some (Some p)) by (cbn [parent_of]; rewrite E0; exact PO).
          destruct (parent_in _ _ _ _ PO') as [Y|Y]; [discriminate | exact Y]. }
        specialize (HM p Hp). rewrite Ee in Ce.
        assert (cmp (c_key c0) k <= 0) by (eapply (cmp_tr cmp TP); eauto). lia. }
      destruct (rotate_to_some i _ Lab) as (l' & RT). rewrite RT.
      pose proof (rotate_to_perm _ _ _ RT) as PM.
      eexists _, _. split; [reflexivity|]. split; cbn [f_ring f_n].
      * rewrite to_of. eapply Permutation_Forall; [apply Permutation_sym, PM | exact DL].
      * rewrite contents_of_list, (Permutation_length (lcontents_perm _ _ PM)). lia.
  - destruct (cmp k (fst kv) >? 0) eqn:Ci.
    + destruct (delete_index_total h m i I T) as (h1 & r1 & DI & T1). rewrite DI. cbn [bind].
      destruct (delete_index_spec_F cmp TP _ _ _ _ _ I DI) as (m1 & _ & I1).
      destruct (insert_total h1 m1 i k (snd kv) I1 T1) as (h2 & r2 & IN & T2). rewrite IN. cbn [bind].
      eexists _, _. split; [reflexivity | exact T2].
    + eexists _, _. split; [reflexivity | exact T].
Qed.

Lemma InvT_new (cap : nat) : InvT (ifib_new cap).
Proof. split; cbn; [constructor | reflexivity]. Qed.

Lemma step_total_F h m o : InvF cmp h m -> InvT h -> exists h' r, ifib_step cmp h o = Ok (h', r) /\ InvT h'.
Proof.
  intros I T. pose proof I as (R & F & X).
  destruct o as [i k v | i k | | i | | | i | i | k | v | | ]; cbn [ifib_step].
  - apply (insert_total _ _ _ _ _ I T).
  - apply (change_key_total _ _ _ _ I T).
  - apply (delete_total _ _ I T).
  - apply (delete_index_total _ _ _ I T).
  - eexists _, _. split; [reflexivity|]. split; cbn; [constructor | reflexivity].
  - eexists _, _. split; [reflexivity | exact T].
  - unfold ifib_peek_index. rewrite (contains_index_F _ _ _ _ I).
    destruct (aget m i) as [kv|] eqn:G; cbn [is_some negb].
    + destruct (Rep_lookup _ _ _ _ _ _ R G) as (_ & L & _). rewrite L. cbn [bind]. eexists _, _. split; [reflexivity | exact T].
    + cbn [bind]. eexists _, _. split; [reflexivity | exact T].
  - eexists _, _. split; [reflexivity | exact T].
  - rewrite (scan_rep (fun k' _ => cmp k' k =? 0) _ _ _ _ R). cbn [bind]. eexists _, _. split; [reflexivity | exact T].
  - rewrite (scan_rep (fun _ v' => v' =? v) _ _ _ _ R). cbn [bind]. eexists _, _. split; [reflexivity | exact T].
  - eexists _, _. split; [reflexivity | exact T].
  - eexists _, _. split; [reflexivity | exact T].
Qed.

End Ops.
