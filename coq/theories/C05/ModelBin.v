(** C05 — model of heap/indexed_binary.go (after the fixes of D05a/D05b).
    [heap] (1-based, length cap+1), [pos] (length cap, -1 = absent) and [kvs] (length cap,
    nil = [None]) are lists; every slice access is checked ([getR]/[setR] give [Panic]). *)
From Algo.C05 Require Export Base.
Open Scope Z_scope.

Record ibin := { b_n : Z; b_heap : list Z; b_pos : list Z; b_kvs : list (option (Z * Z)) }.

Definition ibin_new (cap : nat) : ibin :=
  {| b_n := 0; b_heap := repeat 0 (S cap); b_pos := repeat (-1) cap; b_kvs := repeat None cap |}.

Section WithCmp.
Variable cmp : Z -> Z -> Z.

(** kvs[i].Key — nil dereference is a panic *)
Definition key_at (h : ibin) (i : Z) : res Z :=
  o <- getR (b_kvs h) i ;; match o with Some kv => Ok (fst kv) | None => Panic end.

(** compare(a, b): i, j := heap[a], heap[b]; cmpKey(kvs[i].Key, kvs[j].Key) *)
Definition compare (h : ibin) (a b : Z) : res Z :=
  i <- getR (b_heap h) a ;; j <- getR (b_heap h) b ;;
  ki <- key_at h i ;; kj <- key_at h j ;; Ok (cmp ki kj).

(** swap(i, j): heap[i], heap[j] = heap[j], heap[i]; pos[heap[i]], pos[heap[j]] = i, j *)
Definition swap (h : ibin) (i j : Z) : res ibin :=
  hi <- getR (b_heap h) i ;; hj <- getR (b_heap h) j ;;
  hp1 <- setR (b_heap h) i hj ;; hp2 <- setR hp1 j hi ;;
  (* index expressions heap[i], heap[j] are evaluated before the assignments *)
  a <- getR hp2 i ;; b <- getR hp2 j ;;
  p1 <- setR (b_pos h) a i ;; p2 <- setR p1 b j ;;
  Ok {| b_n := b_n h; b_heap := hp2; b_pos := p2; b_kvs := b_kvs h |}.

(** for ; k > 1 && compare(k/2, k) > 0; k /= 2 { swap(k, k/2) } *)
Fixpoint promote (fuel : nat) (h : ibin) (k : Z) : res ibin :=
  match fuel with
  | O => Hang
  | S f =>
      if k >? 1 then
        c <- compare h (k / 2) k ;;
        if c >? 0 then h' <- swap h k (k / 2) ;; promote f h' (k / 2) else Ok h
      else Ok h
  end.

(** for j := 2*k; j <= n; k, j = j, 2*j { if j < n && compare(j+1, j) < 0 { j++ };
      if compare(k, j) < 0 { break }; swap(k, j) } *)
Fixpoint demote (fuel : nat) (h : ibin) (k : Z) : res ibin :=
  match fuel with
  | O => Hang
  | S f =>
      let j := 2 * k in
      if j <=? b_n h then
        j' <- (if j <? b_n h then c <- compare h (j + 1) j ;; Ok (if c <? 0 then j + 1 else j) else Ok j) ;;
        c <- compare h k j' ;;
        if c <? 0 then Ok h else h' <- swap h k j' ;; demote f h' j'
      else Ok h
  end.

Definition fuel_of (h : ibin) : nat := S (length (b_heap h)).

(** ContainsIndex: 0 <= i && i < len(kvs) && pos[i] != -1 *)
Definition contains_index (h : ibin) (i : Z) : res bool :=
  if (0 <=? i) && (i <? Z.of_nat (length (b_kvs h))) then p <- getR (b_pos h) i ;; Ok (negb (p =? -1))
  else Ok false.

Definition ibin_insert (h : ibin) (i k v : Z) : res (ibin * out) :=
  (* i < 0 || i >= len(kvs) || ContainsIndex(i) *)
  held <- (if (i <? 0) || (Z.of_nat (length (b_kvs h)) <=? i) then Ok true else contains_index h i) ;;
  if held then Ok (h, OBool false)
  else
    let n := b_n h + 1 in
    hp <- setR (b_heap h) n i ;;
    ps <- setR (b_pos h) i n ;;
    kv <- setR (b_kvs h) i (Some (k, v)) ;;
    h' <- promote (fuel_of h) {| b_n := n; b_heap := hp; b_pos := ps; b_kvs := kv |} n ;;
    Ok (h', OBool true).

Definition ibin_change_key (h : ibin) (i k : Z) : res (ibin * out) :=
  held <- contains_index h i ;;
  if negb held then Ok (h, OBool false)
  else
    o <- getR (b_kvs h) i ;;
    match o with
    | None => Panic
    | Some kv =>
        kvs <- setR (b_kvs h) i (Some (k, snd kv)) ;;
        let h1 := {| b_n := b_n h; b_heap := b_heap h; b_pos := b_pos h; b_kvs := kvs |} in
        p <- getR (b_pos h1) i ;;
        h2 <- promote (fuel_of h) h1 p ;;
        p' <- getR (b_pos h2) i ;;
        h3 <- demote (fuel_of h) h2 p' ;;
        Ok (h3, OBool true)
    end.

(** pos[i] = -1; kvs[i] = nil *)
Definition clear (h : ibin) (i : Z) : res ibin :=
  ps <- setR (b_pos h) i (-1) ;; kv <- setR (b_kvs h) i None ;;
  Ok {| b_n := b_n h; b_heap := b_heap h; b_pos := ps; b_kvs := kv |}.

Definition with_n (h : ibin) (n : Z) : ibin :=
  {| b_n := n; b_heap := b_heap h; b_pos := b_pos h; b_kvs := b_kvs h |}.

Definition ibin_delete (h : ibin) : res (ibin * out) :=
  if b_n h =? 0 then Ok (h, ONoEntry)
  else
    i <- getR (b_heap h) 1 ;;
    o <- getR (b_kvs h) i ;;
    h1 <- swap h 1 (b_n h) ;;
    h2 <- demote (fuel_of h) (with_n h1 (b_n h - 1)) 1 ;;
    h3 <- clear h2 i ;;
    match o with Some kv => Ok (h3, OEntry i (fst kv) (snd kv)) | None => Panic end.

Definition ibin_delete_index (h : ibin) (i : Z) : res (ibin * out) :=
  held <- contains_index h i ;;
  if negb held then Ok (h, ONoKV)
  else
    k <- getR (b_pos h) i ;;
    o <- getR (b_kvs h) i ;;
    h1 <- swap h k (b_n h) ;;
    h2 <- promote (fuel_of h) (with_n h1 (b_n h - 1)) k ;;
    h3 <- demote (fuel_of h) h2 k ;;
    h4 <- clear h3 i ;;
    match o with Some kv => Ok (h4, OKV (fst kv) (snd kv)) | None => Panic end.

Definition ibin_delete_all (h : ibin) : ibin :=
  {| b_n := 0; b_heap := repeat 0 (length (b_heap h)); b_pos := repeat (-1) (length (b_pos h));
     b_kvs := repeat None (length (b_kvs h)) |}.

Definition ibin_peek (h : ibin) : res out :=
  if b_n h =? 0 then Ok ONoEntry
  else
    i <- getR (b_heap h) 1 ;;
    o <- getR (b_kvs h) i ;;
    match o with Some kv => Ok (OEntry i (fst kv) (snd kv)) | None => Panic end.

Definition ibin_peek_index (h : ibin) (i : Z) : res out :=
  held <- contains_index h i ;;
  if negb held then Ok ONoKV
  else o <- getR (b_kvs h) i ;; match o with Some kv => Ok (OKV (fst kv) (snd kv)) | None => Panic end.

(** for i := 0; i < len(kvs); i++ { if kvs[i] != nil && test(kvs[i]) { return true } } *)
Definition ibin_contains_key (h : ibin) (k : Z) : bool :=
  existsb (fun o => match o with Some kv => cmp (fst kv) k =? 0 | None => false end) (b_kvs h).
Definition ibin_contains_value (h : ibin) (v : Z) : bool :=
  existsb (fun o => match o with Some kv => snd kv =? v | None => false end) (b_kvs h).

Definition ibin_step (h : ibin) (o : op) : res (ibin * out) :=
  match o with
  | Insert i k v => ibin_insert h i k v
  | ChangeKey i k => ibin_change_key h i k
  | Delete => ibin_delete h
  | DeleteIndex i => ibin_delete_index h i
  | DeleteAll => Ok (ibin_delete_all h, OUnit)
  | Peek => r <- ibin_peek h ;; Ok (h, r)
  | PeekIndex i => r <- ibin_peek_index h i ;; Ok (h, r)
  | ContainsIndex i => b <- contains_index h i ;; Ok (h, OBool b)
  | ContainsKey k => Ok (h, OBool (ibin_contains_key h k))
  | ContainsValue v => Ok (h, OBool (ibin_contains_value h v))
  | Size => Ok (h, OInt (b_n h))
  | IsEmpty => Ok (h, OBool (b_n h =? 0))
  end.

End WithCmp.

(** Hook dump: (n, heap[1..n], pos, held flags). *)
Definition ibin_dump (h : ibin) : Z * list Z * list Z * list bool :=
  (b_n h, firstn (Z.to_nat (b_n h)) (tl (b_heap h)), b_pos h,
   map (fun o => match o with Some _ => true | None => false end) (b_kvs h)).
