(** C05 — from per-operation refinement to whole histories. *)
From Algo.C05 Require Import Model Spec ProofsBin.
From Coq Require Import Lia.
Open Scope Z_scope.

Section Generic.
Variable cmp : Z -> Z -> Z.
Variable R : state -> amap -> Prop.
Hypothesis step_ok : forall s m o, R s m ->
  exists s' r m', step cmp s o = Ok (s', r) /\ spec_step cmp m o r = Some m' /\ R s' m'.

Lemma run_from_valid : forall ops s m, R s m ->
  exists outs, run_from cmp s ops = Ok outs /\ length outs = length ops /\
               valid_trace cmp m (combine ops outs).
Proof.
  induction ops as [|o ops IH]; intros s m H.
  - exists []. repeat split.
  - destruct (step_ok s m o H) as (s' & r & m' & E & S & H').
    destruct (IH s' m' H') as (outs & E' & L & V).
    exists (r :: outs). cbn [run_from]. rewrite E. cbn [bind]. rewrite E'. cbn [bind].
    split; [reflexivity|]. split; [cbn; lia|]. cbn [combine valid_trace]. now rewrite S.
Qed.
End Generic.

(** * indexed binary heap *)
Definition R_bin cmp (cap : nat) (s : state) (m : amap) : Prop :=
  exists h, s = SBin h /\ Inv cmp (Z.of_nat cap) h /\ b_kvs h = m.

Lemma ibin_simulates cmp : TotalPreorder cmp ->
  forall (cap : nat) (ops : list op),
    exists outs, run cmp IBin cap ops = Ok outs /\ length outs = length ops /\
                 valid_trace cmp (empty_map cap) (combine ops outs).
Proof.
  intros TP cap ops. unfold run. apply (run_from_valid cmp (R_bin cmp cap)).
  - intros s m o (h & -> & I & <-).
    destruct (step_spec cmp TP cap h o I) as (h' & r & E & I' & S).
    exists (SBin h'), r, (b_kvs h'). cbn [step]. rewrite E. cbn [bind].
    split; [reflexivity|]. split; [exact S|]. exists h'. auto.
  - exists (ibin_new cap). split; [reflexivity|]. split; [apply Inv_new | reflexivity].
Qed.

(** * indexed binomial heap *)
From Algo.C05 Require Import ProofsBinom.

Definition R_binom cmp (s : state) (m : amap) : Prop :=
  exists h, s = SBinom h /\ InvB cmp h m.

Lemma ibinom_simulates cmp : TotalPreorder cmp ->
  forall (cap : nat) (ops : list op),
    exists outs, run cmp IBinom cap ops = Ok outs /\ length outs = length ops /\
                 valid_trace cmp (empty_map cap) (combine ops outs).
Proof.
  intros TP cap ops. unfold run. apply (run_from_valid cmp (R_binom cmp)).
  - intros s m o (h & -> & I).
    destruct (step_spec_B cmp TP h m o I) as (h' & r & m' & E & S & I').
    exists (SBinom h'), r, m'. cbn [step]. rewrite E. cbn [bind].
    split; [reflexivity|]. split; [exact S|]. exists h'. auto.
  - exists (ibinom_new cap). split; [reflexivity|]. split; cbn; [apply ProofsTree.Rep_empty | exact I].
Qed.
