(** C05 — from per-operation refinement to whole histories. *)
From Algo.C05 Require Import Model Spec ProofsBin.
From Coq Require Import Lia.
Open Scope Z_scope.

Section Generic.
Variable cmp : Z -> Z -> Z.
Variable R : state -> amap -> Prop.
Hypothesis step_ok : forall s m o, R s m ->
  exists s' r m', step cmp s o = Ok (s', r) /\ spec_step cmp m o r = Some m' /\ R s' m'.

Lemma run_from_valid : forall ops s m, R s m ->
  exists outs, run_from cmp s ops = Ok outs /\ length outs = length ops /\
               valid_trace cmp m (combine ops outs).
Proof.
  induction ops as [|o ops IH]; intros s m H.
  - exists []. repeat split.
  - destruct (step_ok s m o H) as (s' & r & m' & E & S & H').
    destruct (IH s' m' H') as (outs & E' & L & V).
    exists (r :: outs). cbn [run_from]. rewrite E. cbn [bind]. rewrite E'. cbn [bind].
    split; [reflexivity|]. split; [cbn; lia|]. cbn [combine valid_trace]. now rewrite S.
Qed.
End Generic.

(** * indexed binary heap *)
Definition R_bin cmp (cap : nat) (s : state) (m : amap) : Prop :=
  exists h, s = SBin h /\ Inv cmp (Z.of_nat cap) h /\ b_kvs h = m.

Lemma ibin_simulates cmp : TotalPreorder cmp ->
  forall (cap : nat) (ops : list op),
    exists outs, run cmp IBin cap ops = Ok outs /\ length outs = length ops /\
                 valid_trace cmp (empty_map cap) (combine ops outs).
Proof.
  intros TP cap ops. unfold run. apply (run_from_valid cmp (R_bin cmp cap)).
  - intros s m o (h & -> & I & <-).
    destruct (step_spec cmp TP cap h o I) as (h' & r & E & I' & S).
    exists (SBin h'), r, (b_kvs h'). cbn [step]. rewrite E. cbn [bind].
    split; [reflexivity|]. split; [exact S|]. exists h'. auto.
  - exists (ibin_new cap). split; [reflexivity|]. split; [apply Inv_new | reflexivity].
Qed.

(** * indexed binomial heap *)
From Algo.C05 Require Import ProofsBinom.

Definition R_binom cmp (s : state) (m : amap) : Prop :=
  exists h, s = SBinom h /\ InvB cmp h m.

Lemma ibinom_simulates cmp : TotalPreorder cmp ->
  forall (cap : nat) (ops : list op),
    exists outs, run cmp IBinom cap ops = Ok outs /\ length outs = length ops /\
                 valid_trace cmp (empty_map cap) (combine ops outs).
Proof.
  intros TP cap ops. unfold run. apply (run_from_valid cmp (R_binom cmp)).
  - intros s m o (h & -> & I).
    destruct (step_spec_B cmp TP h m o I) as (h' & r & m' & E & S & I').
    exists (SBinom h'), r, m'. cbn [step]. rewrite E. cbn [bind].
    split; [reflexivity|]. split; [exact S|]. exists h'. auto.
  - exists (ibinom_new cap). split; [reflexivity|]. split; cbn; [apply ProofsTree.Rep_empty | exact I].
Qed.

(** * indexed Fibonacci heap: every run that ends [Ok] is a valid trace *)
From Algo.C05 Require Import ProofsFib.

Lemma run_from_valid_partial cmp (R : state -> amap -> Prop) :
  (forall s m o s' r, R s m -> step cmp s o = Ok (s', r) ->
                      exists m', spec_step cmp m o r = Some m' /\ R s' m') ->
  forall ops s m outs, R s m -> run_from cmp s ops = Ok outs ->
    length outs = length ops /\ valid_trace cmp m (combine ops outs).
Proof.
  intros ST. induction ops as [|o ops IH]; intros s m outs H E; cbn [run_from] in E.
  - inversion E. split; [reflexivity | exact I].
  - destruct (step cmp s o) as [[s' r]| |] eqn:E1; cbn [bind] in E; try discriminate.
    destruct (run_from cmp s' ops) as [rs| |] eqn:E2; cbn [bind] in E; try discriminate.
    inversion E; subst outs. destruct (ST _ _ _ _ _ H E1) as (m' & S & H').
    destruct (IH _ _ _ H' E2) as (L & V). split; [cbn; lia|]. cbn [combine valid_trace]. now rewrite S.
Qed.

Definition R_fib cmp (s : state) (m : amap) : Prop := exists h, s = SFib h /\ InvF cmp h m.

Lemma ifib_partial cmp : TotalOrder cmp ->
  forall (cap : nat) (ops : list op) (outs : list out),
    run cmp IFib cap ops = Ok outs ->
    length outs = length ops /\ valid_trace cmp (empty_map cap) (combine ops outs).
Proof.
  intros TO cap ops outs. unfold run. apply (run_from_valid_partial cmp (R_fib cmp)).
  - intros s m o s' r (h & -> & I) E. cbn [step] in E.
    destruct (ifib_step cmp h o) as [[h' r']| |] eqn:E1; cbn [bind] in E; try discriminate. inversion E; subst s' r'.
    destruct (step_spec_F cmp (to_pre _ TO) (cmp_eq _ TO) h m o h' r I E1) as (m' & S & I').
    exists m'. split; [exact S|]. exists h'. auto.
  - exists (ifib_new cap). split; [reflexivity | apply InvF_new].
Qed.

(** * the comparators the harness uses are total orders *)
Lemma TO_of_sign (cmp : Z -> Z -> Z) :
  (forall a b, Z.sgn (cmp a b) = Z.sgn (a - b)) -> TotalOrder cmp.
Proof.
  intros S. split; [split|].
  - intros a b. rewrite !S. lia.
  - intros a b c H1 H2. pose proof (S a b). pose proof (S b c). pose proof (S a c). lia.
  - intros a b H. pose proof (S a b). lia.
Qed.

Lemma TO_of_rsign (cmp : Z -> Z -> Z) :
  (forall a b, Z.sgn (cmp a b) = Z.sgn (b - a)) -> TotalOrder cmp.
Proof.
  intros S. split; [split|].
  - intros a b. rewrite !S. lia.
  - intros a b c H1 H2. pose proof (S a b). pose proof (S b c). pose proof (S a c). lia.
  - intros a b H. pose proof (S a b). lia.
Qed.

Lemma cmp_min_sign a b : Z.sgn (cmp_min a b) = Z.sgn (a - b).
Proof. unfold cmp_min. destruct (Z.compare_spec a b); lia. Qed.

Lemma harness_comparators :
  TotalOrder cmp_min /\ TotalOrder cmp_max /\ TotalOrder cmp_sub /\ TotalOrder cmp_sub3 /\ TotalOrder cmp_rsub.
Proof.
  repeat split; try apply to_pre.
  all: try (apply TO_of_sign; intros a b; first [apply cmp_min_sign | unfold cmp_sub, cmp_sub3; lia]).
  all: try (apply TO_of_rsign; intros a b; first [unfold cmp_max; apply cmp_min_sign | unfold cmp_rsub; lia]).
Qed.

(** * indexed Fibonacci heap: the full statement *)
From Algo.C05 Require Import ProofsFibDeg.

Definition R_fib_full cmp (s : state) (m : amap) : Prop :=
  exists h, s = SFib h /\ InvF cmp h m /\ InvT h.

Lemma ifib_simulates cmp : TotalOrder cmp ->
  forall (cap : nat) (ops : list op),
    exists outs, run cmp IFib cap ops = Ok outs /\ length outs = length ops /\
                 valid_trace cmp (empty_map cap) (combine ops outs).
Proof.
  intros TO cap ops. unfold run. apply (run_from_valid cmp (R_fib_full cmp)).
  - intros s m o (h & -> & I & T).
    destruct (step_total_F cmp (to_pre _ TO) (cmp_eq _ TO) h m o I T) as (h' & r & E & T').
    destruct (step_spec_F cmp (to_pre _ TO) (cmp_eq _ TO) h m o h' r I E) as (m' & S & I').
    exists (SFib h'), r, m'. cbn [step]. rewrite E. cbn [bind].
    split; [reflexivity|]. split; [exact S|]. exists h'. auto.
  - exists (ifib_new cap). split; [reflexivity|]. split; [apply InvF_new | apply InvT_new].
Qed.
