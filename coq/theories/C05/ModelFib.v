(** C05 — model of heap/indexed_fibonacci.go (after the fixes of D05a/D05b).

    A circular doubly linked ring is the sibling chain read from its entry pointer: the root
    ring from [h.ext], a child ring from [parent.child] ([d] = degree, [m] = mark).  Nodes of
    this heap never exchange contents, so the index label identifies the node; [nodes] is
    reduced to its non-nil flags.  Ring surgery, as lists read from the entry pointer:
      insert(head, n) keeping head      = l ++ [n]        (used with the result ignored)
      insert(head, n) returning n       = n :: l          (link: parent.child = insert(...))
      cut(head, n)                      = l without n     (entry moves to n.next if n was the entry)
      meld(h1, h2)                      = l1 ++ tl l2 ++ [hd l2]
    [roots[x.degree]] in consolidate is a checked slice access ([Panic] if the degree bound
    fails); the restart loop of consolidate runs on fuel ([Hang]). *)
From Algo.C05 Require Export Base.
Open Scope Z_scope.

Record ifib := { f_n : Z; f_ring : bt; f_nodes : list bool }.

Definition ifib_new (cap : nat) : ifib :=
  {| f_n := 0; f_ring := Leaf; f_nodes := repeat false cap |}.

(** maxDegree: int(log(n)/log(phi)) + 1 = 1 + max { d | phi^d <= n }, computed exactly:
    2 phi^d = L_d + F_d sqrt 5 (Lucas / Fibonacci numbers). *)
Definition phi_pow_le (ld fd n : Z) : bool :=
  (ld <=? 2 * n) && (5 * fd * fd <=? (2 * n - ld) * (2 * n - ld)).
Fixpoint max_degree_go (fuel : nat) (d l0 f0 l1 f1 n : Z) : Z :=
  (* (l0, f0) = (L_d, F_d), (l1, f1) = (L_{d+1}, F_{d+1}); phi^d <= n is known *)
  match fuel with
  | O => d + 1
  | S f => if phi_pow_le l1 f1 n then max_degree_go f (d + 1) l1 f1 (l0 + l1) (f0 + f1) n else d + 1
  end.
Definition max_degree (n : Z) : Z := max_degree_go (Z.to_nat n) 0 2 0 1 1 n.

(** ring helpers (lists of trees read from the entry pointer) *)
Definition rt_idx (r : rt) : Z := c_idx (rt_c r).
Definition nd_of (r : rt) (sib : bt) : bt := Nd (rt_c r) (rt_d r) (rt_m r) (rt_ch r) sib.

Fixpoint ring_find (x : Z) (l : list rt) : option rt :=
  match l with [] => None | r :: t => if rt_idx r =? x then Some r else ring_find x t end.
Fixpoint ring_remove (x : Z) (l : list rt) : list rt :=
  match l with [] => [] | r :: t => if rt_idx r =? x then t else r :: ring_remove x t end.
Fixpoint ring_update (x : Z) (f : rt -> rt) (l : list rt) : list rt :=
  match l with [] => [] | r :: t => if rt_idx r =? x then f r :: t else r :: ring_update x f t end.
(** label after [x], wrapping to [first] *)
Fixpoint ring_next_go (x first : Z) (l : list rt) : option Z :=
  match l with
  | [] => None
  | r :: t => if rt_idx r =? x then Some (match t with r' :: _ => rt_idx r' | [] => first end)
              else ring_next_go x first t
  end.
Definition ring_next (x : Z) (l : list rt) : option Z :=
  match l with [] => None | r :: _ => ring_next_go x (rt_idx r) l end.
(** the ring read from [x] *)
Fixpoint rotate_go (x : Z) (l acc : list rt) : option (list rt) :=
  match l with
  | [] => None
  | r :: t => if rt_idx r =? x then Some (l ++ rev acc) else rotate_go x t (r :: acc)
  end.
Definition rotate_to (x : Z) (l : list rt) : option (list rt) := rotate_go x l [].

Definition meld (l1 l2 : list rt) : list rt :=
  match l1, l2 with
  | [], _ => l2
  | _, [] => l1
  | _, h2 :: t2 => l1 ++ t2 ++ [h2]
  end.

(** cutAndCascade(n) for the node carrying index [x], one pass over the forest.
    [cc root x t] = (new chain, trees cut out in the order they are appended to the root
    ring, whether a direct member of this chain was cut out).  [root] tells whether [t] is
    the root ring (n.parent == nil: return). *)
Fixpoint cc (root : bool) (x : Z) (t : bt) : option (bt * list rt * bool) :=
  match t with
  | Leaf => None
  | Nd c d m ch sib =>
      if c_idx c =? x then
        if root then Some (t, [], false) else Some (sib, [(c, d, m, ch)], true)
      else
        match cc false x ch with
        | Some (ch', cuts, lost) =>
            if lost then
              (* parent.degree--; parent.mark = !parent.mark; if !parent.mark { cutAndCascade(parent) } *)
              let d' := d - 1 in
              let m' := negb m in
              if m' || root then Some (Nd c d' m' ch' sib, cuts, false)
              else Some (sib, cuts ++ [(c, d', m', ch')], true)
            else Some (Nd c d m ch' sib, cuts, false)
        | None =>
            match cc root x sib with
            | Some (sib', cuts, lost) => Some (Nd c d m ch sib', cuts, lost)
            | None => None
            end
        end
  end.

Definition cut_and_cascade (x : Z) (ring : bt) : res (list rt) :=
  match cc true x ring with
  | Some (ring', cuts, _) => Ok (to_list ring' ++ cuts)
  | None => Panic
  end.

Section WithCmp.
Variable cmp : Z -> Z -> Z.

(** the inner loop of consolidate for the current root [x]:
    for y := roots[x.degree]; y != nil && y != x; y = roots[x.degree] { ... } *)
Fixpoint cons_inner (fuel : nat) (l : list rt) (roots : list (option Z)) (x : Z) (linked : bool)
  : res (list rt * list (option Z) * Z * bool) :=
  match fuel with
  | O => Hang
  | S f =>
      match ring_find x l with
      | None => Panic
      | Some rx =>
          y <- getR roots (rt_d rx) ;;
          match y with
          | None => Ok (l, roots, x, linked)
          | Some yl =>
              if yl =? x then Ok (l, roots, x, linked)
              else
                roots' <- setR roots (rt_d rx) None ;;
                match ring_find yl l with
                | None => Panic
                | Some ry =>
                    if cmp (c_key (rt_c rx)) (c_key (rt_c ry)) >? 0 then
                      (* h.ext = cut(h.ext, x); link(x, y); x = y *)
                      let l1 := ring_remove x l in
                      let l2 := ring_update yl (fun r => (rt_c r, rt_d r + 1, rt_m r, nd_of rx (rt_ch r))) l1 in
                      cons_inner f l2 roots' yl true
                    else
                      (* h.ext = cut(h.ext, y); link(y, x) *)
                      let l1 := ring_remove yl l in
                      let l2 := ring_update x (fun r => (rt_c r, rt_d r + 1, rt_m r, nd_of ry (rt_ch r))) l1 in
                      cons_inner f l2 roots' x true
                end
          end
      end
  end.

(** for stop, curr := h.ext, h.ext; ; { x := curr; <inner>; roots[x.degree] = x;
      if curr = curr.next; curr == stop { break } }   with  stop, curr = x, x  after every link *)
Fixpoint cons_outer (fuel : nat) (l : list rt) (roots : list (option Z)) (curr stop : Z)
  : res (list rt * list (option Z)) :=
  match fuel with
  | O => Hang
  | S f =>
      '(l1, roots1, x, linked) <- cons_inner (S (length l)) l roots curr false ;;
      let stop' := if linked then x else stop in
      match ring_find x l1 with
      | None => Panic
      | Some rx =>
          roots2 <- setR roots1 (rt_d rx) (Some x) ;;
          match ring_next x l1 with
          | None => Panic
          | Some nx => if nx =? stop' then Ok (l1, roots2) else cons_outer f l1 roots2 nx stop'
          end
      end
  end.

(** for _, r := range roots { if r != nil { h.ext = pickExt(h.ext, r) } } *)
Fixpoint pick_roots (l : list rt) (e : Z) (ekey : Z) (roots : list (option Z)) : res Z :=
  match roots with
  | [] => Ok e
  | None :: t => pick_roots l e ekey t
  | Some r :: t =>
      match ring_find r l with
      | None => Panic
      | Some rr => if cmp ekey (c_key (rt_c rr)) <=? 0 then pick_roots l e ekey t
                   else pick_roots l r (c_key (rt_c rr)) t
      end
  end.

(** consolidate on a non-empty ring [l] (read from h.ext) of a heap with [n] entries *)
Definition consolidate (n : Z) (l : list rt) : res (list rt) :=
  match l with
  | [] => Panic
  | r0 :: _ =>
      let maxd := max_degree n in
      let roots := repeat None (Z.to_nat maxd) in
      let fuel := S (S (length l) * S (length l)) in
      '(l1, roots1) <- cons_outer fuel l roots (rt_idx r0) (rt_idx r0) ;;
      match l1 with
      | [] => Panic
      | e0 :: _ =>
          e <- pick_roots l1 (rt_idx e0) (c_key (rt_c e0)) roots1 ;;
          match rotate_to e l1 with Some l2 => Ok l2 | None => Panic end
      end
  end.

Definition contains_index (h : ifib) (i : Z) : bool :=
  (0 <=? i) && (i <? Z.of_nat (length (f_nodes h))) && nth (Z.to_nat i) (f_nodes h) false.

Definition ifib_insert (h : ifib) (i k v : Z) : res (ifib * out) :=
  if (i <? 0) || (Z.of_nat (length (f_nodes h)) <=? i) || contains_index h i then Ok (h, OBool false)
  else
    let n : rt := ((i, k, v), 0, false, Leaf) in
    (* h.insert(h.ext, n); h.ext = h.pickExt(h.ext, n) *)
    let ring :=
      match to_list (f_ring h) with
      | [] => [n]
      | e :: t => if cmp (c_key (rt_c e)) k <=? 0 then (e :: t) ++ [n] else n :: e :: t
      end in
    nodes <- setR (f_nodes h) i true ;;
    Ok ({| f_n := f_n h + 1; f_ring := of_list ring; f_nodes := nodes |}, OBool true).

(** the common tail of Delete and DeleteIndex once the victim [r] is off the root ring [rest] *)
Definition finish_delete (h : ifib) (rest : list rt) (r : rt) : res ifib :=
  let l := meld rest (to_list (rt_ch r)) in
  nodes <- setR (f_nodes h) (rt_idx r) false ;;
  let n := f_n h - 1 in
  match l with
  | [] => Ok {| f_n := n; f_ring := Leaf; f_nodes := nodes |}
  | _ => l' <- consolidate n l ;; Ok {| f_n := n; f_ring := of_list l'; f_nodes := nodes |}
  end.

Definition ifib_delete (h : ifib) : res (ifib * out) :=
  match to_list (f_ring h) with
  | [] => Ok (h, ONoEntry)
  | e :: rest =>
      h' <- finish_delete h rest e ;;
      Ok (h', OEntry (rt_idx e) (c_key (rt_c e)) (c_val (rt_c e)))
  end.

Definition ifib_delete_index (h : ifib) (i : Z) : res (ifib * out) :=
  if negb (contains_index h i) then Ok (h, ONoKV)
  else
    l <- cut_and_cascade i (f_ring h) ;;
    match ring_find i l with
    | None => Panic
    | Some r =>
        h' <- finish_delete h (ring_remove i l) r ;;
        Ok (h', OKV (c_key (rt_c r)) (c_val (rt_c r)))
    end.

Definition ifib_change_key (h : ifib) (i k : Z) : res (ifib * out) :=
  if negb (contains_index h i) then Ok (h, OBool false)
  else
    match lookup i (f_ring h), parent_of i None (f_ring h) with
    | Some c, Some pc =>
        let cm := cmp k (c_key c) in
        if cm <? 0 then
          (* decrease: n.key = key; cut if the parent's key is now larger; h.ext = pickExt(h.ext, n) *)
          let t1 := set_key i k (f_ring h) in
          l <- match pc with
               | Some p => if cmp (c_key p) k >? 0 then cut_and_cascade i t1 else Ok (to_list t1)
               | None => Ok (to_list t1)
               end ;;
          match l with
          | [] => Panic
          | e :: _ =>
              if cmp (c_key (rt_c e)) k <=? 0 then
                Ok ({| f_n := f_n h; f_ring := of_list l; f_nodes := f_nodes h |}, OBool true)
              else
                (* h.ext = n: n must be a root, otherwise the root ring is lost *)
                match rotate_to i l with
                | Some l' => Ok ({| f_n := f_n h; f_ring := of_list l'; f_nodes := f_nodes h |}, OBool true)
                | None => Panic
                end
          end
        else if cm >? 0 then
          (* increase: h.DeleteIndex(i); h.Insert(i, key, n.val) *)
          '(h1, _) <- ifib_delete_index h i ;;
          '(h2, _) <- ifib_insert h1 i k (c_val c) ;;
          Ok (h2, OBool true)
        else Ok (h, OBool true)
    | _, _ => Panic
    end.

Definition ifib_delete_all (h : ifib) : ifib :=
  {| f_n := 0; f_ring := Leaf; f_nodes := repeat false (length (f_nodes h)) |}.

Definition ifib_peek (h : ifib) : out :=
  match f_ring h with
  | Leaf => ONoEntry
  | Nd c _ _ _ _ => OEntry (c_idx c) (c_key c) (c_val c)
  end.

Definition ifib_peek_index (h : ifib) (i : Z) : res out :=
  if negb (contains_index h i) then Ok ONoKV
  else match lookup i (f_ring h) with
       | Some c => Ok (OKV (c_key c) (c_val c))
       | None => Panic
       end.

Definition ifib_step (h : ifib) (o : op) : res (ifib * out) :=
  match o with
  | Insert i k v => ifib_insert h i k v
  | ChangeKey i k => ifib_change_key h i k
  | Delete => ifib_delete h
  | DeleteIndex i => ifib_delete_index h i
  | DeleteAll => Ok (ifib_delete_all h, OUnit)
  | Peek => Ok (h, ifib_peek h)
  | PeekIndex i => r <- ifib_peek_index h i ;; Ok (h, r)
  | ContainsIndex i => Ok (h, OBool (contains_index h i))
  | ContainsKey k => b <- scan (fun c => cmp (c_key c) k =? 0) (f_ring h) (f_nodes h) 0 ;; Ok (h, OBool b)
  | ContainsValue v => b <- scan (fun c => c_val c =? v) (f_ring h) (f_nodes h) 0 ;; Ok (h, OBool b)
  | Size => Ok (h, OInt (f_n h))
  | IsEmpty => Ok (h, OBool (match f_ring h with Leaf => true | _ => false end))
  end.

End WithCmp.
