(** C05 — specification: a partial map index -> (key, value) with a capacity, and the
    results each operation of [heap.IndexedHeap] may return from it.  The specification is
    executable ([spec_step] is also extracted and used as referee by the driver). *)
From Algo.C05 Require Import Base.
From Coq Require Import Lia.
Open Scope Z_scope.

(** comparator laws: [cmp] is the three-way comparison of a total preorder *)
Record TotalPreorder (cmp : Z -> Z -> Z) : Prop := {
  cmp_antisym : forall a b, Z.sgn (cmp a b) = - Z.sgn (cmp b a);
  cmp_trans : forall a b c, cmp a b <= 0 -> cmp b c <= 0 -> cmp a c <= 0
}.
(** ... of a total order: equivalent keys are equal (needed by the Fibonacci ChangeKey, which
    leaves an equivalent key in place) *)
Record TotalOrder (cmp : Z -> Z -> Z) : Prop := {
  to_pre :> TotalPreorder cmp;
  cmp_eq : forall a b, cmp a b = 0 -> a = b
}.

(** abstract state: slot [i] is [Some (key, val)] when index [i] is held; the length is the capacity *)
Definition amap := list (option (Z * Z)).

Definition empty_map (cap : nat) : amap := repeat None cap.

Definition aget (m : amap) (i : Z) : option (Z * Z) :=
  if in_range m i then nth (Z.to_nat i) m None else None.
Definition aset (m : amap) (i : Z) (o : option (Z * Z)) : amap := upd m (Z.to_nat i) o.

Definition is_some {A} (o : option A) : bool := match o with Some _ => true | None => false end.

Definition held_count (m : amap) : Z := Z.of_nat (length (filter is_some m)).

(** [k] is extremal: no held key comes strictly before it *)
Definition extremal (cmp : Z -> Z -> Z) (m : amap) (k : Z) : bool :=
  forallb (fun o => match o with Some kv => cmp k (fst kv) <=? 0 | None => true end) m.

Definition has_key (cmp : Z -> Z -> Z) (m : amap) (k : Z) : bool :=
  existsb (fun o => match o with Some kv => cmp (fst kv) k =? 0 | None => false end) m.
Definition has_val (m : amap) (v : Z) : bool :=
  existsb (fun o => match o with Some kv => snd kv =? v | None => false end) m.

(** entry [i] is held with exactly key [k] and value [v] *)
Definition holds (m : amap) (i k v : Z) : bool :=
  match aget m i with Some kv => (fst kv =? k) && (snd kv =? v) | None => false end.

Definition guard {A} (b : bool) (a : A) : option A := if b then Some a else None.

(** [spec_step cmp m o r = Some m']: from map [m], operation [o] may return [r], and the map
    afterwards is [m'].  [None]: the property forbids this result. *)
Definition spec_step (cmp : Z -> Z -> Z) (m : amap) (o : op) (r : out) : option amap :=
  match o, r with
  | Insert i k v, OBool b =>
      (* succeeds iff the index is in range and free *)
      if in_range m i && negb (is_some (aget m i))
      then guard b (aset m i (Some (k, v))) else guard (negb b) m
  | ChangeKey i k, OBool b =>
      (* succeeds iff the index is held; the value is kept *)
      match aget m i with
      | Some kv => guard b (aset m i (Some (k, snd kv)))
      | None => guard (negb b) m
      end
  | Delete, OEntry i k v =>
      (* any held index whose current key is extremal, with its key and value; it is removed *)
      guard (holds m i k v && extremal cmp m k) (aset m i None)
  | Delete, ONoEntry => guard (held_count m =? 0) m
  | DeleteIndex i, OKV k v => guard (holds m i k v) (aset m i None)
  | DeleteIndex i, ONoKV => guard (negb (is_some (aget m i))) m
  | DeleteAll, OUnit => Some (repeat None (length m))
  | Peek, OEntry i k v => guard (holds m i k v && extremal cmp m k) m
  | Peek, ONoEntry => guard (held_count m =? 0) m
  | PeekIndex i, OKV k v => guard (holds m i k v) m
  | PeekIndex i, ONoKV => guard (negb (is_some (aget m i))) m
  | ContainsIndex i, OBool b => guard (Bool.eqb b (is_some (aget m i))) m
  | ContainsKey k, OBool b => guard (Bool.eqb b (has_key cmp m k)) m
  | ContainsValue v, OBool b => guard (Bool.eqb b (has_val m v)) m
  | Size, OInt n => guard (n =? held_count m) m
  | IsEmpty, OBool b => guard (Bool.eqb b (held_count m =? 0)) m
  | _, _ => None
  end.

(** a history of (operation, observed result) pairs is valid from [m] *)
Fixpoint valid_trace (cmp : Z -> Z -> Z) (m : amap) (tr : list (op * out)) : Prop :=
  match tr with
  | [] => True
  | (o, r) :: t => match spec_step cmp m o r with
                   | Some m' => valid_trace cmp m' t
                   | None => False
                   end
  end.
