(** C05 — facts about LCRS forests shared by the binomial and Fibonacci proofs: entries,
    lookup by index label, heap order, and the representation invariant that ties a forest
    and the [nodes] flags to the abstract index map. *)
From Algo.C05 Require Import Base Spec ProofsBin.
From Coq Require Import Lia Permutation.
Open Scope Z_scope.

(** * contents and lookup *)
Definition idxs (t : bt) : list Z := map c_idx (contents t).

Lemma lookup_in i t c : lookup i t = Some c -> In c (contents t) /\ c_idx c = i.
Proof.
  revert c; induction t as [|c0 d m ch IHc sib IHs]; intros c H; cbn [lookup contents] in *; [discriminate|].
  destruct (c_idx c0 =? i) eqn:E.
  - inversion H; subst. split; [now left | lia].
  - destruct (lookup i ch) as [r|] eqn:L.
    + inversion H; subst. destruct (IHc _ eq_refl). split; auto. right. apply in_or_app; auto.
    + destruct (IHs _ H). split; auto. right. apply in_or_app; auto.
Qed.

Lemma lookup_none i t : lookup i t = None -> forall c, In c (contents t) -> c_idx c <> i.
Proof.
  induction t as [|c0 d m ch IHc sib IHs]; intros H c Hc; cbn [lookup contents] in *; [contradiction|].
  destruct (c_idx c0 =? i) eqn:E; [discriminate|].
  destruct (lookup i ch) eqn:L; [discriminate|].
  destruct Hc as [<- | Hc]; [lia|]. apply in_app_or in Hc. destruct Hc; auto.
Qed.

Lemma lookup_some_iff i t : (exists c, In c (contents t) /\ c_idx c = i) -> exists c, lookup i t = Some c.
Proof.
  intros (c & Hc & E). destruct (lookup i t) eqn:L; eauto.
  exfalso. eapply lookup_none; eauto.
Qed.

Lemma NoDup_idx_inj t c1 c2 :
  NoDup (idxs t) -> In c1 (contents t) -> In c2 (contents t) -> c_idx c1 = c_idx c2 -> c1 = c2.
Proof.
  unfold idxs. generalize (contents t) as l. induction l as [|a l IH]; intros ND H1 H2 E; [contradiction|].
  cbn [map] in ND. inversion ND as [|? ? NI ND']; subst.
  destruct H1 as [<-|H1], H2 as [<-|H2]; auto.
  - exfalso. apply NI. rewrite E. now apply in_map.
  - exfalso. apply NI. rewrite <- E. now apply in_map.
Qed.

Lemma lookup_unique t c : NoDup (idxs t) -> In c (contents t) -> lookup (c_idx c) t = Some c.
Proof.
  intros ND Hc. destruct (lookup_some_iff (c_idx c) t) as (c' & L); [eauto|].
  destruct (lookup_in _ _ _ L) as (Hc' & E). rewrite L. f_equal. eapply NoDup_idx_inj; eauto.
Qed.

Lemma NoDup_app_inv {A} (l1 l2 : list A) :
  NoDup (l1 ++ l2) -> NoDup l1 /\ NoDup l2 /\ (forall x, In x l1 -> ~ In x l2).
Proof.
  induction l1 as [|a l1 IH]; cbn [app]; intros H.
  - repeat split; auto. constructor.
  - inversion H as [|? ? NI ND]; subst. destruct (IH ND) as (N1 & N2 & D).
    repeat split; auto.
    + constructor; auto. intros X. apply NI, in_or_app; auto.
    + intros x [<-|Hx] X; [apply NI, in_or_app; auto | eapply D; eauto].
Qed.

Lemma NoDup_app_intro {A} (l1 l2 : list A) :
  NoDup l1 -> NoDup l2 -> (forall x, In x l1 -> ~ In x l2) -> NoDup (l1 ++ l2).
Proof.
  induction l1 as [|a l1 IH]; cbn [app]; intros N1 N2 D; auto.
  inversion N1; subst. constructor.
  - intros X. apply in_app_or in X. destruct X; auto. eapply D; eauto. now left.
  - apply IH; auto. intros x Hx. apply D. now right.
Qed.

Lemma idxs_nd_cons c d m ch sib :
  NoDup (idxs (Nd c d m ch sib)) ->
  NoDup (idxs ch) /\ NoDup (idxs sib) /\ ~ In (c_idx c) (idxs ch) /\ ~ In (c_idx c) (idxs sib) /\
  (forall x, In x (idxs ch) -> ~ In x (idxs sib)).
Proof.
  unfold idxs. cbn [contents map]. rewrite map_app. intros ND. inversion ND as [|? ? NI ND']; subst.
  destruct (NoDup_app_inv _ _ ND') as (NC & NS & DJ).
  repeat split; auto; intros HH; apply NI, in_or_app; auto.
Qed.

Lemma in_idxs x t : In x (idxs t) <-> exists c, In c (contents t) /\ c_idx c = x.
Proof.
  unfold idxs. rewrite in_map_iff. split; intros (c & A & B); eauto.
Qed.

Lemma lookup_notin x t : ~ In x (idxs t) -> lookup x t = None.
Proof.
  intros H. destruct (lookup x t) eqn:L; auto. exfalso. apply H.
  destruct (lookup_in _ _ _ L). apply in_idxs; eauto.
Qed.

Lemma lookup_isin x t : In x (idxs t) -> exists c, lookup x t = Some c.
Proof. intros H. apply lookup_some_iff. now apply in_idxs. Qed.

(** * a decision procedure for permutations of concatenations (count occurrences, then lia) *)
Definition cdec : forall a b : content, {a = b} + {a <> b}.
Proof. decide equality; [apply Z.eq_dec | decide equality; apply Z.eq_dec]. Defined.

Lemma count_cons_app c l x : count_occ cdec (c :: l) x = (count_occ cdec [c] x + count_occ cdec l x)%nat.
Proof. change (c :: l) with ([c] ++ l). apply count_occ_app. Qed.

Ltac perm_hyps x :=
  repeat match goal with
         | H : Permutation ?a ?b |- _ =>
             let H' := fresh "PC" in pose proof (proj1 (Permutation_count_occ cdec a b) H x) as H'; clear H
         end.
Ltac perm_norm :=
  repeat (rewrite count_occ_app in *
          || match goal with
             | |- context [count_occ cdec (?c :: ?l) ?x] =>
                 lazymatch l with nil => fail | _ => rewrite (count_cons_app c l x) end
             | H : context [count_occ cdec (?c :: ?l) ?x] |- _ =>
                 lazymatch l with nil => fail | _ => rewrite (count_cons_app c l x) in H end
             end).
Ltac perm :=
  apply (proj2 (Permutation_count_occ cdec _ _));
  let x := fresh "x" in intros x; perm_hyps x; perm_norm;
  change (count_occ cdec [] x) with 0%nat in *; lia.

(** * the representation invariant: forest + flags vs. the abstract map *)
Definition mget (m : amap) (i : Z) : option (Z * Z) := nth (Z.to_nat i) m None.

Definition Rep (t : bt) (nodes : list bool) (n : Z) (m : amap) : Prop :=
  nodes = map is_some m /\ n = held_count m /\ NoDup (idxs t) /\
  (forall c, In c (contents t) <->
             (0 <= c_idx c < Z.of_nat (length m) /\ mget m (c_idx c) = Some (c_key c, c_val c))).

Lemma Rep_perm t t' nodes n m :
  Permutation (contents t) (contents t') -> Rep t nodes n m -> Rep t' nodes n m.
Proof.
  intros P (A & B & ND & M). split; [auto|]. split; [auto|]. split.
  - unfold idxs in *. eapply Permutation_NoDup; [apply Permutation_map, P | exact ND].
  - intros c. split.
    + intros H. apply M. eapply Permutation_in; [apply Permutation_sym, P | exact H].
    + intros H. eapply Permutation_in; [exact P|]. now apply M.
Qed.

Lemma aget_mget (m : amap) i : 0 <= i < Z.of_nat (length m) -> aget m i = mget m i.
Proof.
  intros R. unfold aget, mget, in_range.
  destruct (0 <=? i) eqn:A; [|lia]. destruct (i <? Z.of_nat (length m)) eqn:B; [|lia]. reflexivity.
Qed.

Lemma aget_oor (m : amap) i : ~ 0 <= i < Z.of_nat (length m) -> aget m i = None.
Proof.
  intros R. unfold aget, in_range.
  destruct (0 <=? i) eqn:A; destruct (i <? Z.of_nat (length m)) eqn:B; cbn; auto. lia.
Qed.

Lemma mget_upd_same (m : amap) i o : 0 <= i < Z.of_nat (length m) -> mget (upd m (Z.to_nat i) o) i = o.
Proof. intros R. unfold mget. apply nth_upd_same. lia. Qed.

Lemma mget_upd_other (m : amap) i j o : 0 <= i -> 0 <= j -> i <> j -> mget (upd m (Z.to_nat i) o) j = mget m j.
Proof. intros A B N. unfold mget. apply nth_upd_other. lia. Qed.

Lemma map_upd {A B} (f : A -> B) l i v : map f (upd l i v) = upd (map f l) i (f v).
Proof. revert i; induction l; intros [|i]; cbn; auto. now rewrite IHl. Qed.

(** the [nodes] flag test of the three models *)
Lemma flag_spec (m : amap) i :
  (0 <=? i) && (i <? Z.of_nat (length (map is_some m))) && nth (Z.to_nat i) (map is_some m) false
  = is_some (aget m i).
Proof.
  rewrite map_length. destruct ((0 <=? i) && (i <? Z.of_nat (length m))) eqn:R.
  - rewrite aget_mget by lia. unfold mget. cbn [andb].
    change false with (is_some (@None (Z * Z))). now rewrite map_nth.
  - rewrite aget_oor by lia. reflexivity.
Qed.

Lemma Rep_in t nodes n m c : Rep t nodes n m -> In c (contents t) ->
  0 <= c_idx c < Z.of_nat (length m) /\ aget m (c_idx c) = Some (c_key c, c_val c).
Proof. intros (_ & _ & _ & M) H. apply M in H. destruct H as (R & G). split; auto. now rewrite aget_mget. Qed.

Lemma Rep_lookup t nodes n m i kv : Rep t nodes n m -> aget m i = Some kv ->
  0 <= i < Z.of_nat (length m) /\ lookup i t = Some (i, fst kv, snd kv) /\ In (i, fst kv, snd kv) (contents t).
Proof.
  intros R G. pose proof R as (_ & _ & ND & M).
  assert (Ri : 0 <= i < Z.of_nat (length m)).
  { destruct (Z.le_gt_cases 0 i), (Z.lt_ge_cases i (Z.of_nat (length m))); try lia; rewrite aget_oor in G by lia; discriminate. }
  rewrite aget_mget in G by auto.
  assert (H : In (i, fst kv, snd kv) (contents t)).
  { apply M. cbn. split; auto. rewrite G. now destruct kv. }
  split; auto. split; auto. apply (lookup_unique t (i, fst kv, snd kv) ND H).
Qed.

Lemma Rep_free t nodes n m i : Rep t nodes n m -> aget m i = None -> ~ In i (idxs t).
Proof.
  intros R G H. apply in_idxs in H. destruct H as (c & Hc & <-).
  destruct (Rep_in _ _ _ _ _ R Hc) as (_ & G'). congruence.
Qed.

(** inserting a fresh entry *)
Lemma Rep_insert t t' nodes n m i k v :
  Rep t nodes n m -> 0 <= i < Z.of_nat (length m) -> aget m i = None ->
  Permutation (contents t') ((i, k, v) :: contents t) ->
  Rep t' (upd nodes (Z.to_nat i) true) (n + 1) (aset m i (Some (k, v))).
Proof.
  intros R Ri G P. pose proof (Rep_free _ _ _ _ _ R G) as NI. destruct R as (A & B & ND & M).
  rewrite aget_mget in G by auto. unfold aset.
  split; [|split; [|split]].
  - rewrite map_upd. now rewrite A.
  - rewrite held_count_upd by lia. fold (mget m i). rewrite G. cbn. lia.
  - unfold idxs in *. eapply Permutation_NoDup; [apply Permutation_sym, Permutation_map, P|].
    cbn [map]. constructor; auto.
  - intros c. rewrite length_upd. split.
    + intros H. eapply Permutation_in in H; [|exact P]. destruct H as [<-|H].
      * cbn. split; auto. now rewrite mget_upd_same.
      * pose proof (proj1 (M c) H) as (Rc & Gc). split; auto.
        rewrite mget_upd_other; auto; try lia. intros E. apply NI. rewrite E. apply in_idxs; eauto.
    + intros (Rc & Gc). eapply Permutation_in; [apply Permutation_sym, P|].
      destruct (Z.eq_dec (c_idx c) i) as [E|N].
      * left. rewrite E, mget_upd_same in Gc by auto. inversion Gc. destruct c as ((ci & ck) & cv). cbn in *. congruence.
      * right. apply M. split; auto. rewrite mget_upd_other in Gc; auto; lia.
Qed.

(** removing an entry *)
Lemma Rep_remove t t' nodes n m c :
  Rep t nodes n m -> Permutation (contents t) (c :: contents t') ->
  Rep t' (upd nodes (Z.to_nat (c_idx c)) false) (n - 1) (aset m (c_idx c) None).
Proof.
  intros R P. pose proof R as (A & B & ND & M).
  assert (Hc : In c (contents t)) by (eapply Permutation_in; [apply Permutation_sym, P | now left]).
  pose proof (proj1 (M c) Hc) as (Rc & Gc).
  assert (ND' : NoDup (c_idx c :: idxs t')).
  { unfold idxs in *. change (c_idx c :: map c_idx (contents t')) with (map c_idx (c :: contents t')).
    eapply Permutation_NoDup; [apply Permutation_map, P | exact ND]. }
  apply NoDup_cons_iff in ND' as (NI & ND''). unfold aset.
  split; [|split; [|split; [exact ND''|]]].
  - rewrite map_upd. now rewrite A.
  - rewrite held_count_upd by lia. fold (mget m (c_idx c)). rewrite Gc. cbn. lia.
  - intros c'. rewrite length_upd. split.
    + intros H. assert (H' : In c' (contents t)) by (eapply Permutation_in; [apply Permutation_sym, P | now right]).
      pose proof (proj1 (M c') H') as (Rc' & Gc'). split; auto.
      rewrite mget_upd_other; auto; try lia. intros E. apply NI. rewrite E. apply in_idxs; eauto.
    + intros (Rc' & Gc'). destruct (Z.eq_dec (c_idx c') (c_idx c)) as [E|N].
      * rewrite E, mget_upd_same in Gc' by auto. discriminate.
      * rewrite mget_upd_other in Gc' by lia.
        assert (H' : In c' (contents t)) by (apply M; auto).
        eapply Permutation_in in H'; [|exact P]. destruct H' as [<-|H']; [congruence | auto].
Qed.

Lemma upd_nth_same {A} (l : list A) j v d : (j < length l)%nat -> nth j l d = v -> upd l j v = l.
Proof. revert j; induction l as [|a l IH]; intros [|j] H E; cbn in *; try lia; [now subst | f_equal; apply IH; auto; lia]. Qed.

(** replacing the key of an entry *)
Lemma Rep_change t t' nodes n m i k0 v k :
  Rep t nodes n m -> In (i, k0, v) (contents t) ->
  (forall c, In c (contents t') <-> (c = (i, k, v) \/ (In c (contents t) /\ c_idx c <> i))) ->
  idxs t' = idxs t ->
  Rep t' nodes n (aset m i (Some (k, v))).
Proof.
  intros R H C IE. pose proof R as (A & B & ND & M).
  pose proof (proj1 (M _) H) as (Ri & Gi). cbn in Ri, Gi. unfold aset.
  split; [|split; [|split]].
  - rewrite map_upd. rewrite A. symmetry. apply (upd_nth_same _ _ _ false); [rewrite map_length; lia|].
    change false with (is_some (@None (Z * Z))). rewrite map_nth. unfold mget in Gi. now rewrite Gi.
  - rewrite held_count_upd by lia. fold (mget m i). rewrite Gi. cbn. lia.
  - now rewrite IE.
  - intros c. rewrite length_upd. rewrite C. split.
    + intros [-> | (Hc & N)].
      * cbn. split; auto. now rewrite mget_upd_same.
      * pose proof (proj1 (M c) Hc) as (Rc & Gc). split; auto. rewrite mget_upd_other; auto; lia.
    + intros (Rc & Gc). destruct (Z.eq_dec (c_idx c) i) as [E|N].
      * left. rewrite E, mget_upd_same in Gc by auto. inversion Gc. destruct c as ((ci & ck) & cv). cbn in *. congruence.
      * right. split; auto. apply M. split; auto. rewrite mget_upd_other in Gc; auto; lia.
Qed.

Lemma Rep_empty (cap : nat) : Rep Leaf (repeat false cap) 0 (repeat None cap).
Proof.
  split; [|split; [|split]].
  - induction cap; cbn; congruence.
  - now rewrite held_count_repeat.
  - constructor.
  - intros c. cbn [contents]. split; [contradiction|]. intros (R & G). unfold mget in G.
    rewrite nth_repeat_lt' in G; [discriminate|]. rewrite repeat_length in R. lia.
Qed.

(** ContainsKey / ContainsValue loops *)
Lemma scan_spec (f : Z -> Z -> bool) t : forall (ms : amap) off,
  0 <= off ->
  (forall j kv, (j < length ms)%nat -> nth j ms None = Some kv ->
                lookup (off + Z.of_nat j) t = Some (off + Z.of_nat j, fst kv, snd kv)) ->
  scan (fun c => f (c_key c) (c_val c)) t (map is_some ms) off
  = Ok (existsb (fun o => match o with Some kv => f (fst kv) (snd kv) | None => false end) ms).
Proof.
  induction ms as [|o ms IH]; intros off Ho H; [reflexivity|].
  cbn [map scan existsb].
  assert (IH' : scan (fun c => f (c_key c) (c_val c)) t (map is_some ms) (off + 1) =
                Ok (existsb (fun o => match o with Some kv => f (fst kv) (snd kv) | None => false end) ms)).
  { apply IH; [lia|]. intros j kv Hj E. replace (off + 1 + Z.of_nat j) with (off + Z.of_nat (S j)) by lia.
    apply H; [cbn; lia | exact E]. }
  destruct o as [kv|]; cbn [is_some].
  - specialize (H 0%nat kv ltac:(cbn; lia) eq_refl). rewrite Z.add_0_r in H. rewrite H. cbn [c_key c_val fst snd].
    destruct (f (fst kv) (snd kv)); [reflexivity | exact IH'].
  - exact IH'.
Qed.

Lemma scan_rep (f : Z -> Z -> bool) t nodes n m :
  Rep t nodes n m ->
  scan (fun c => f (c_key c) (c_val c)) t nodes 0
  = Ok (existsb (fun o => match o with Some kv => f (fst kv) (snd kv) | None => false end) m).
Proof.
  intros R. pose proof R as (A & _). rewrite A. apply scan_spec; [lia|].
  intros j kv Hj E. cbn [Z.add].
  assert (G : aget m (Z.of_nat j) = Some kv).
  { rewrite aget_mget by lia. unfold mget. now rewrite Nat2Z.id. }
  now destruct (Rep_lookup _ _ _ _ _ _ R G) as (_ & L & _).
Qed.

(** * heap order on forests *)
Section HeapOrder.
Variable cmp : Z -> Z -> Z.
Hypothesis TP : TotalPreorder cmp.

Definition lble (lb : option Z) (k : Z) : Prop :=
  match lb with Some b => cmp b k <= 0 | None => True end.

(** every node's key is bounded by its parent's key; [lb] bounds the top level of the chain *)
Fixpoint ho (lb : option Z) (t : bt) : Prop :=
  match t with
  | Leaf => True
  | Nd c _ _ ch sib => lble lb (c_key c) /\ ho (Some (c_key c)) ch /\ ho lb sib
  end.

Lemma lble_trans lb a b : lble lb a -> cmp a b <= 0 -> lble lb b.
Proof. destruct lb; cbn; auto. intros. eapply (cmp_tr cmp TP); eauto. Qed.

Lemma ho_weaken lb lb' t : (forall k, lble lb k -> lble lb' k) -> ho lb t -> ho lb' t.
Proof. induction t as [|c d m ch IHc sib IHs]; cbn [ho]; auto. intros W (A & B & C). auto. Qed.

Lemma ho_none lb t : ho lb t -> ho None t.
Proof. apply ho_weaken. intros; exact I. Qed.

Lemma ho_lower a b t : cmp a b <= 0 -> ho (Some b) t -> ho (Some a) t.
Proof. intros H. apply ho_weaken. intros k. cbn. intros. eapply (cmp_tr cmp TP); eauto. Qed.

Lemma ho_lower_lb lb b t : lble lb b -> ho (Some b) t -> ho lb t.
Proof. intros H. apply ho_weaken. intros k Hk. eapply lble_trans; eauto. Qed.

(** every entry of a chain bounded by [b] has a key not before [b] *)
Lemma ho_all b t : ho (Some b) t -> forall c, In c (contents t) -> cmp b (c_key c) <= 0.
Proof.
  revert b; induction t as [|c0 d m ch IHc sib IHs]; intros b H c Hc; cbn [ho contents] in *; [contradiction|].
  destruct H as (A & B & C). destruct Hc as [<-|Hc]; [exact A|].
  apply in_app_or in Hc. destruct Hc as [Hc|Hc]; [|eauto].
  eapply (cmp_tr cmp TP); [exact A|]. eauto.
Qed.

(** rebound a chain: only the top-level keys matter *)
Lemma ho_rebound lb lb' t :
  ho lb t -> (forall r, In r (to_list t) -> lble lb' (c_key (rt_c r))) -> ho lb' t.
Proof.
  induction t as [|c d m ch IHc sib IHs]; cbn [ho to_list]; auto. intros (A & B & C) H.
  split; [apply (H (c, d, m, ch)); now left|]. split; auto. apply IHs; auto. intros r Hr. apply H. now right.
Qed.

Lemma ho_top lb t r : ho lb t -> In r (to_list t) -> lble lb (c_key (rt_c r)) /\ ho (Some (c_key (rt_c r))) (rt_ch r).
Proof.
  induction t as [|c d m ch IHc sib IHs]; cbn [ho to_list]; [contradiction|]. intros (A & B & C) [<-|H]; auto.
Qed.

(** [hoX x lb t]: heap order except at the node labelled [x], whose own key is unconstrained
    and whose children are bounded by the bound of [x]'s chain *)
Fixpoint hoX (x : Z) (lb : option Z) (t : bt) : Prop :=
  match t with
  | Leaf => True
  | Nd c _ _ ch sib =>
      if c_idx c =? x then ho lb ch /\ hoX x lb sib
      else lble lb (c_key c) /\ hoX x (Some (c_key c)) ch /\ hoX x lb sib
  end.

(** [hoD y lb t]: heap order except for the child edges of the node labelled [y], whose
    children are bounded by the bound of [y]'s chain *)
Fixpoint hoD (y : Z) (lb : option Z) (t : bt) : Prop :=
  match t with
  | Leaf => True
  | Nd c _ _ ch sib =>
      lble lb (c_key c) /\ (if c_idx c =? y then ho lb ch else hoD y (Some (c_key c)) ch) /\ hoD y lb sib
  end.

Lemma hoX_notin x lb t : ~ In x (idxs t) -> (hoX x lb t <-> ho lb t).
Proof.
  revert lb; induction t as [|c d m ch IHc sib IHs]; intros lb NI; cbn [hoX ho]; [tauto|].
  unfold idxs in *. cbn [contents map] in NI. rewrite map_app in NI.
  destruct (c_idx c =? x) eqn:E; [exfalso; apply NI; left; lia|].
  rewrite IHc, IHs; [tauto| |]; intros H; apply NI; right; apply in_or_app; auto.
Qed.

Lemma hoD_notin y lb t : ~ In y (idxs t) -> (hoD y lb t <-> ho lb t).
Proof.
  revert lb; induction t as [|c d m ch IHc sib IHs]; intros lb NI; cbn [hoD ho]; [tauto|].
  unfold idxs in *. cbn [contents map] in NI. rewrite map_app in NI.
  destruct (c_idx c =? y) eqn:E; [exfalso; apply NI; left; lia|].
  rewrite IHc, IHs; [tauto| |]; intros H; apply NI; right; apply in_or_app; auto.
Qed.

Lemma ho_hoD y lb t : ho lb t -> hoD y lb t.
Proof.
  revert lb; induction t as [|c d m ch IHc sib IHs]; intros lb; cbn [hoD ho]; auto.
  intros (A & B & C). split; auto. split; auto.
  destruct (c_idx c =? y); auto. eapply ho_lower_lb; eauto.
Qed.

Lemma ho_hoX x lb t : ho lb t -> hoX x lb t.
Proof.
  revert lb; induction t as [|c d m ch IHc sib IHs]; intros lb; cbn [hoX ho]; auto.
  intros (A & B & C). destruct (c_idx c =? x); auto. split; auto. eapply ho_lower_lb; eauto.
Qed.

(** n.key = key keeps everything but the node itself *)
Lemma set_key_hoX x k lb t : ho lb t -> hoX x lb (set_key x k t).
Proof.
  revert lb; induction t as [|c d m ch IHc sib IHs]; intros lb; cbn [set_key hoX ho]; auto.
  intros (A & B & C). destruct (c_idx c =? x) eqn:E.
  - cbn [hoX c_idx fst]. replace (c_idx c =? x) with true. split; [eapply ho_lower_lb; eauto|].
    apply ho_hoX; auto.
  - cbn [hoX]. rewrite E. auto.
Qed.

End HeapOrder.
