(** C05 — proofs for the indexed binary heap model (ModelBin.v): every operation keeps
    [pos]/[heap] mutually inverse, the heap order and n = #held, never panics or hangs, and
    its result is the one the index map [b_kvs] allows. *)
From Algo.C05 Require Import Base ModelBin Spec.
From Coq Require Import Lia.
Open Scope Z_scope.

Ltac Zify.zify_post_hook ::= Z.to_euclidean_division_equations.

(** * checked list access *)
Definition zn {A} (l : list A) (i : Z) (d : A) : A := nth (Z.to_nat i) l d.

Lemma getR_zn {A} (l : list A) i d :
  0 <= i < Z.of_nat (length l) -> getR l i = Ok (zn l i d).
Proof.
  intros H. unfold getR, zn. destruct (i <? 0) eqn:E; [lia|].
  destruct (nth_error l (Z.to_nat i)) eqn:N.
  - f_equal. symmetry. now apply nth_error_nth.
  - apply nth_error_None in N. lia.
Qed.

Lemma length_upd {A} (l : list A) i v : length (upd l i v) = length l.
Proof. revert i; induction l; intros [|i]; simpl; auto. Qed.

Lemma nth_upd_same {A} (l : list A) i v d : (i < length l)%nat -> nth i (upd l i v) d = v.
Proof. revert i; induction l; intros [|i] H; simpl in *; try lia; auto. apply IHl. lia. Qed.

Lemma nth_upd_other {A} (l : list A) i j v d : i <> j -> nth j (upd l i v) d = nth j l d.
Proof. revert i j; induction l; intros [|i] [|j] H; simpl; auto; try lia. Qed.

Lemma setR_ok {A} (l : list A) i v :
  0 <= i < Z.of_nat (length l) -> setR l i v = Ok (upd l (Z.to_nat i) v).
Proof.
  intros H. unfold setR. destruct (i <? 0) eqn:E1; [lia|].
  destruct (Z.of_nat (length l) <=? i) eqn:E2; [lia|]. reflexivity.
Qed.

Lemma zn_upd_same {A} (l : list A) i v d :
  0 <= i < Z.of_nat (length l) -> zn (upd l (Z.to_nat i) v) i d = v.
Proof. intros H. unfold zn. apply nth_upd_same. lia. Qed.

Lemma zn_upd_other {A} (l : list A) i j v d :
  0 <= i -> 0 <= j -> i <> j -> zn (upd l (Z.to_nat i) v) j d = zn l j d.
Proof. intros Hi Hj H. unfold zn. apply nth_upd_other. lia. Qed.

Lemma nth_repeat_lt' {A} (x : A) n i d : (i < n)%nat -> nth i (repeat x n) d = x.
Proof. revert i; induction n; intros [|i] H; simpl; try lia; auto. apply IHn. lia. Qed.

Lemma zn_repeat {A} (x : A) n i d : 0 <= i < Z.of_nat n -> zn (repeat x n) i d = x.
Proof. intros H. unfold zn. apply nth_repeat_lt'. lia. Qed.

(** * the invariant *)
Definition Hp (h : ibin) (k : Z) : Z := zn (b_heap h) k 0.          (* heap[k] *)
Definition Ps (h : ibin) (i : Z) : Z := zn (b_pos h) i (-1).        (* pos[i] *)
Definition Kv (h : ibin) (i : Z) : option (Z * Z) := zn (b_kvs h) i None.   (* kvs[i] *)
Definition keyi (h : ibin) (i : Z) : Z := match Kv h i with Some kv => fst kv | None => 0 end.
Definition key (h : ibin) (k : Z) : Z := keyi h (Hp h k).            (* kvs[heap[k]].Key *)

Definition inheap (h : ibin) (i : Z) : Prop := exists j, 1 <= j <= b_n h /\ Hp h j = i.

(** lengths and positions 1..n: in range, [pos] is the inverse, entry present *)
Definition WF (cap : Z) (h : ibin) : Prop :=
  Z.of_nat (length (b_heap h)) = cap + 1 /\ Z.of_nat (length (b_pos h)) = cap /\
  Z.of_nat (length (b_kvs h)) = cap /\ 0 <= b_n h <= cap /\
  forall k, 1 <= k <= b_n h -> 0 <= Hp h k < cap /\ Ps h (Hp h k) = k /\ Kv h (Hp h k) <> None.

Lemma WF_inj cap h a b : WF cap h -> 1 <= a <= b_n h -> 1 <= b <= b_n h -> Hp h a = Hp h b -> a = b.
Proof.
  intros (_ & _ & _ & _ & W) Ha Hb E.
  destruct (W a Ha) as (_ & Pa & _), (W b Hb) as (_ & Pb & _). rewrite E in Pa. congruence.
Qed.

Section Bin.
Variable cmp : Z -> Z -> Z.
Hypothesis TP : TotalPreorder cmp.

Lemma cmp_refl a : cmp a a = 0.
Proof. pose proof (cmp_antisym _ TP a a). lia. Qed.
Lemma cmp_gt_lt a b : cmp a b > 0 -> cmp b a < 0.
Proof. pose proof (cmp_antisym _ TP a b). lia. Qed.
Lemma cmp_lt_le a b : cmp a b < 0 -> cmp a b <= 0.
Proof. lia. Qed.
Lemma cmp_nle_le a b : ~ cmp a b <= 0 -> cmp b a <= 0.
Proof. pose proof (cmp_antisym _ TP a b). lia. Qed.
Lemma cmp_nlt_le a b : ~ cmp a b < 0 -> cmp b a <= 0.
Proof. pose proof (cmp_antisym _ TP a b). lia. Qed.
Lemma cmp_tr a b c : cmp a b <= 0 -> cmp b c <= 0 -> cmp a c <= 0.
Proof. apply (cmp_trans _ TP). Qed.

(** a position whose entry can be compared *)
Definition vpos (h : ibin) (a : Z) : Prop :=
  0 <= a < Z.of_nat (length (b_heap h)) /\ 0 <= Hp h a < Z.of_nat (length (b_kvs h)) /\ Kv h (Hp h a) <> None.

Lemma WF_vpos cap h a : WF cap h -> 1 <= a <= b_n h -> vpos h a.
Proof.
  intros (L1 & L2 & L3 & Hn & W) Ha. destruct (W a Ha) as (R & _ & K).
  unfold vpos. repeat split; try lia; auto.
Qed.

Lemma key_at_spec h i : 0 <= i < Z.of_nat (length (b_kvs h)) -> Kv h i <> None -> key_at h i = Ok (keyi h i).
Proof.
  intros R K. unfold key_at. rewrite (getR_zn _ _ None R). cbn [bind].
  unfold keyi, Kv in *. destruct (zn (b_kvs h) i None); [reflexivity | congruence].
Qed.

Lemma compare_spec h a b : vpos h a -> vpos h b -> compare cmp h a b = Ok (cmp (key h a) (key h b)).
Proof.
  intros (Ra & Ia & Ka) (Rb & Ib & Kb). unfold compare.
  rewrite (getR_zn _ _ 0 Ra), (getR_zn _ _ 0 Rb). cbn [bind].
  fold (Hp h a) (Hp h b). rewrite (key_at_spec _ _ Ia Ka), (key_at_spec _ _ Ib Kb). reflexivity.
Qed.

(** frame of the internal moves: n, kvs and the set of indices on the heap stay; pos only
    changes for indices on the heap *)
Definition Frame (h h' : ibin) : Prop :=
  b_n h' = b_n h /\ b_kvs h' = b_kvs h /\
  (forall i, inheap h' i <-> inheap h i) /\
  (forall i, 0 <= i -> ~ inheap h i -> Ps h' i = Ps h i).

Lemma Frame_refl h : Frame h h.
Proof. unfold Frame; intuition. Qed.

Lemma Frame_trans h1 h2 h3 : Frame h1 h2 -> Frame h2 h3 -> Frame h1 h3.
Proof.
  intros (N1 & K1 & I1 & P1) (N2 & K2 & I2 & P2). unfold Frame. repeat split; try congruence.
  - intros H. apply I1, I2, H.
  - intros H. apply I2, I1, H.
  - intros i Hi H. rewrite P2, P1; auto. intros H'. apply H, I1, H'.
Qed.

Lemma swap_spec cap h a b :
  WF cap h -> 1 <= a <= b_n h -> 1 <= b <= b_n h ->
  exists h', swap h a b = Ok h' /\ WF cap h' /\ Frame h h' /\
    Hp h' a = Hp h b /\ Hp h' b = Hp h a /\ (forall k, 0 <= k -> k <> a -> k <> b -> Hp h' k = Hp h k).
Proof.
  intros W Ha Hb. pose proof W as (L1 & L2 & L3 & Hn & Wk).
  destruct (Wk a Ha) as (Ra & Pa & Ka), (Wk b Hb) as (Rb & Pb & Kb).
  unfold swap.
  rewrite (getR_zn _ a 0) by lia. rewrite (getR_zn _ b 0) by lia. cbn [bind].
  fold (Hp h a) (Hp h b).
  rewrite setR_ok by lia. cbn [bind].
  rewrite setR_ok by (rewrite length_upd; lia). cbn [bind].
  set (hp2 := upd (upd (b_heap h) (Z.to_nat a) (Hp h b)) (Z.to_nat b) (Hp h a)).
  assert (Lh : length hp2 = length (b_heap h)) by (unfold hp2; now rewrite !length_upd).
  assert (Ea : zn hp2 a 0 = Hp h b).
  { unfold hp2. destruct (Z.eq_dec a b) as [->|N].
    - rewrite zn_upd_same by (rewrite length_upd; lia). reflexivity.
    - rewrite zn_upd_other by lia. apply zn_upd_same. lia. }
  assert (Eb : zn hp2 b 0 = Hp h a).
  { unfold hp2. apply zn_upd_same. rewrite length_upd. lia. }
  assert (Eo : forall k, 0 <= k -> k <> a -> k <> b -> zn hp2 k 0 = Hp h k).
  { intros k Hk Na Nb. unfold hp2. rewrite !zn_upd_other by lia. reflexivity. }
  rewrite (getR_zn hp2 a 0) by lia. rewrite (getR_zn hp2 b 0) by lia. cbn [bind].
  rewrite Ea, Eb.
  rewrite setR_ok by lia. cbn [bind].
  rewrite setR_ok by (rewrite length_upd; lia). cbn [bind].
  set (p2 := upd (upd (b_pos h) (Z.to_nat (Hp h b)) a) (Z.to_nat (Hp h a)) b).
  eexists. split; [reflexivity|].
  assert (PA : zn p2 (Hp h a) (-1) = b).
  { unfold p2. apply zn_upd_same. rewrite length_upd. lia. }
  assert (PB : zn p2 (Hp h b) (-1) = a).
  { unfold p2. destruct (Z.eq_dec (Hp h a) (Hp h b)) as [E|N].
    - rewrite <- E. rewrite zn_upd_same by (rewrite length_upd; lia).
      symmetry. eapply WF_inj; eauto.
    - rewrite zn_upd_other by lia. apply zn_upd_same. lia. }
  assert (PO : forall i, 0 <= i -> i <> Hp h a -> i <> Hp h b -> zn p2 i (-1) = Ps h i).
  { intros i Hi Na Nb. unfold p2. rewrite !zn_upd_other by lia. reflexivity. }
  set (h' := {| b_n := b_n h; b_heap := hp2; b_pos := p2; b_kvs := b_kvs h |}).
  assert (HA : Hp h' a = Hp h b) by exact Ea.
  assert (HB : Hp h' b = Hp h a) by exact Eb.
  assert (HO : forall k, 0 <= k -> k <> a -> k <> b -> Hp h' k = Hp h k) by exact Eo.
  assert (IH : forall i, inheap h' i <-> inheap h i).
  { intros i; split; intros (j & Hj & E); cbn [b_n h'] in Hj.
    - destruct (Z.eq_dec j a) as [->|Na]; [exists b; split; [lia | congruence]|].
      destruct (Z.eq_dec j b) as [->|Nb]; [exists a; split; [lia | congruence]|].
      exists j; split; [lia|]. rewrite <- HO; auto; lia.
    - destruct (Z.eq_dec j a) as [->|Na]; [exists b; cbn [b_n h']; split; [lia | congruence]|].
      destruct (Z.eq_dec j b) as [->|Nb]; [exists a; cbn [b_n h']; split; [lia | congruence]|].
      exists j; cbn [b_n h']; split; [lia|]. rewrite HO; auto; lia. }
  split; [|split; [|auto]].
  - (* WF *)
    unfold WF. cbn [b_n b_heap b_pos b_kvs h'].
    split; [lia|]. split; [unfold p2; rewrite !length_upd; lia|]. split; [lia|]. split; [lia|].
    intros k Hk. fold (Hp h' k).
    destruct (Z.eq_dec k a) as [->|Na]; [rewrite HA; repeat split; try lia; auto|].
    destruct (Z.eq_dec k b) as [->|Nb]; [rewrite HB; repeat split; try lia; auto|].
    rewrite HO by lia. destruct (Wk k Hk) as (Rk & Pk & Kk). repeat split; try lia; auto.
    unfold Ps; cbn [b_pos h']. rewrite PO; try lia; auto.
    + intros E. apply Na. eapply WF_inj; eauto.
    + intros E. apply Nb. eapply WF_inj; eauto.
  - (* Frame *)
    unfold Frame. cbn [b_n b_kvs h']. repeat split; auto; try apply IH.
    intros i Hi NI. unfold Ps at 1; cbn [b_pos h']. apply PO; auto.
    + intros ->. apply NI. exists a; auto.
    + intros ->. apply NI. exists b; auto.
Qed.

Lemma keyi_frame h h' i : b_kvs h' = b_kvs h -> keyi h' i = keyi h i.
Proof. intros E. unfold keyi, Kv. now rewrite E. Qed.

(** * heap order *)
Definition ok (h : ibin) (j : Z) : Prop := cmp (key h (j / 2)) (key h j) <= 0.
Definition full_ho (h : ibin) : Prop := forall j, 2 <= j <= b_n h -> ok h j.
(** promote at k: edges not touching k hold, k's parent bounds k's children, and (b) k's own
    child edges hold *)
Definition I_prom (h : ibin) (k : Z) (b : bool) : Prop :=
  (forall j, 2 <= j <= b_n h -> j <> k -> j / 2 <> k -> ok h j) /\
  (forall c, 2 <= c <= b_n h -> c / 2 = k -> 2 <= k -> cmp (key h (k / 2)) (key h c) <= 0) /\
  (b = true -> forall c, 2 <= c <= b_n h -> c / 2 = k -> ok h c).
(** demote at k: every edge except k's child edges holds, and k's parent bounds k's children *)
Definition J_dem (h : ibin) (k : Z) : Prop :=
  (forall j, 2 <= j <= b_n h -> j / 2 <> k -> ok h j) /\
  (forall c, 2 <= c <= b_n h -> c / 2 = k -> 2 <= k -> cmp (key h (k / 2)) (key h c) <= 0).

Lemma full_J h k : full_ho h -> J_dem h k.
Proof.
  intros F. split; [intros; now apply F|].
  intros c Hc E Hk. assert (O1 := F c Hc). assert (O2 : ok h k) by (apply F; lia).
  unfold ok in *. rewrite E in O1. eapply cmp_tr; eauto.
Qed.

Lemma prom_done h k b : I_prom h k b -> (2 <= k -> ok h k) -> (b = true -> full_ho h) /\ J_dem h k.
Proof.
  intros (E1 & E2 & E3) Ok. split.
  - intros -> j Hj. destruct (Z.eq_dec j k) as [->|N]; [apply Ok; lia|].
    destruct (Z.eq_dec (j / 2) k); [now apply E3 | now apply E1].
  - split; auto. intros j Hj N. destruct (Z.eq_dec j k) as [->|N']; [apply Ok; lia | now apply E1].
Qed.

Lemma promote_spec cap fuel : forall h k b,
  WF cap h -> 1 <= k <= b_n h -> (Z.to_nat k < fuel)%nat -> I_prom h k b ->
  exists h', promote cmp fuel h k = Ok h' /\ WF cap h' /\ Frame h h' /\
             (full_ho h' \/ (h' = h /\ (2 <= k -> ok h k))).
Proof.
  induction fuel as [|f IH]; intros h k b W Hk Hf I; [lia|].
  cbn [promote]. destruct (k >? 1) eqn:K1.
  2:{ exists h. split; [reflexivity|]. split; [auto|]. split; [apply Frame_refl|]. right. split; auto. lia. }
  assert (Hk2 : 1 <= k / 2 <= b_n h) by lia.
  rewrite (compare_spec h (k / 2) k) by (eapply WF_vpos; eauto). cbn [bind].
  fold (ok h k). destruct (cmp (key h (k / 2)) (key h k) >? 0) eqn:C.
  2:{ exists h. split; [reflexivity|]. split; [auto|]. split; [apply Frame_refl|]. right. split; auto. intros _. unfold ok. lia. }
  destruct (swap_spec cap h k (k / 2) W Hk Hk2) as (h1 & S & W1 & F1 & A1 & B1 & O1).
  rewrite S. cbn [bind].
  pose proof F1 as (N1 & KV1 & _ & _).
  assert (KeyA : key h1 k = key h (k / 2)) by (unfold key; rewrite A1; now apply keyi_frame).
  assert (KeyB : key h1 (k / 2) = key h k) by (unfold key; rewrite B1; now apply keyi_frame).
  assert (KeyO : forall j, 0 <= j -> j <> k -> j <> k / 2 -> key h1 j = key h j).
  { intros j Hj Na Nb. unfold key. rewrite O1 by auto. now apply keyi_frame. }
  destruct I as (E1 & E2 & E3).
  assert (I1 : I_prom h1 (k / 2) true).
  { rewrite <- N1 in *. repeat split.
    - (* edges not touching k/2 *)
      intros j Hj Nj Nj2. unfold ok.
      destruct (Z.eq_dec j k) as [->|Nk]; [lia|].
      destruct (Z.eq_dec (j / 2) k) as [Ek|Nk2].
      + (* child of k: old parent's key now sits at k *)
        rewrite Ek, KeyA, KeyO by lia. apply E2; auto; lia.
      + rewrite !KeyO by lia. apply E1; auto; lia.
    - (* grandparent bounds the children of k/2 *)
      intros c Hc Ec Hk4. destruct (Z.eq_dec c k) as [->|Nk].
      + rewrite KeyA, KeyO by lia. apply (E1 (k / 2)); lia.
      + rewrite !KeyO by lia.
        assert (O1' : ok h (k / 2)) by (apply E1; lia).
        assert (O2' : ok h c) by (apply E1; lia).
        unfold ok in *. rewrite Ec in O2'. eapply cmp_tr; eauto.
    - (* child edges of k/2 *)
      intros _ c Hc Ec. unfold ok. rewrite Ec, KeyB.
      destruct (Z.eq_dec c k) as [->|Nk].
      + rewrite KeyA. apply cmp_lt_le, cmp_gt_lt. lia.
      + rewrite KeyO by lia.
        assert (O2' : ok h c) by (apply E1; lia). unfold ok in O2'. rewrite Ec in O2'.
        eapply cmp_tr; [|exact O2']. apply cmp_lt_le, cmp_gt_lt. lia. }
  destruct (IH h1 (k / 2) true W1 ltac:(lia) ltac:(lia) I1) as (h2 & P2 & W2 & F2 & R2).
  exists h2. rewrite P2. split; [reflexivity|]. split; [auto|]. split; [eapply Frame_trans; eauto|].
  left. destruct R2 as [R2 | (-> & R2)]; auto.
  apply (prom_done _ _ _ I1); auto.
Qed.

Lemma demote_spec cap fuel : forall h k,
  WF cap h -> 1 <= k -> (Z.to_nat (b_n h - k) < fuel)%nat -> J_dem h k ->
  exists h', demote cmp fuel h k = Ok h' /\ WF cap h' /\ Frame h h' /\ full_ho h'.
Proof.
  induction fuel as [|f IH]; intros h k W Hk Hf (E1 & E2); [lia|].
  cbn [demote]. cbv zeta. destruct (2 * k <=? b_n h) eqn:K2.
  2:{ exists h. split; [reflexivity|]. split; [auto|]. split; [apply Frame_refl|].
      intros j Hj. apply E1; auto. lia. }
  (* the child j' chosen by the code bounds every child of k *)
  assert (exists j', (if 2 * k <? b_n h
                      then c <- compare cmp h (2 * k + 1) (2 * k) ;; Ok (if c <? 0 then 2 * k + 1 else 2 * k)
                      else Ok (2 * k)) = Ok j' /\
                     (j' = 2 * k \/ j' = 2 * k + 1) /\ j' <= b_n h /\
                     forall c, 2 <= c <= b_n h -> c / 2 = k -> cmp (key h j') (key h c) <= 0) as (j' & EJ & HJ & HJn & HJc).
  { destruct (2 * k <? b_n h) eqn:K3.
    - rewrite (compare_spec h (2 * k + 1) (2 * k)) by (eapply WF_vpos; eauto; lia). cbn [bind].
      destruct (cmp (key h (2 * k + 1)) (key h (2 * k)) <? 0) eqn:C; eexists; (split; [reflexivity|]).
      + split; [lia|]. split; [lia|]. intros c Hc Ec.
        assert (c = 2 * k \/ c = 2 * k + 1) as [-> | ->] by lia; [lia | rewrite cmp_refl; lia].
      + split; [lia|]. split; [lia|]. intros c Hc Ec.
        assert (c = 2 * k \/ c = 2 * k + 1) as [-> | ->] by lia; [rewrite cmp_refl; lia |].
        apply cmp_nlt_le. lia.
    - eexists; split; [reflexivity|]. split; [lia|]. split; [lia|]. intros c Hc Ec.
      assert (c = 2 * k) as -> by lia. rewrite cmp_refl; lia. }
  rewrite EJ. cbn [bind].
  assert (Hkn : 1 <= k <= b_n h) by lia. assert (Hjn : 1 <= j' <= b_n h) by lia.
  rewrite (compare_spec h k j') by (eapply WF_vpos; eauto). cbn [bind].
  destruct (cmp (key h k) (key h j') <? 0) eqn:C.
  { exists h. split; [reflexivity|]. split; [auto|]. split; [apply Frame_refl|].
    intros j Hj. destruct (Z.eq_dec (j / 2) k) as [Ej|Nj]; [|now apply E1].
    unfold ok. rewrite Ej. eapply cmp_tr; [|apply HJc; auto]. lia. }
  destruct (swap_spec cap h k j' W Hkn Hjn) as (h1 & S & W1 & F1 & A1 & B1 & O1).
  rewrite S. cbn [bind].
  pose proof F1 as (N1 & KV1 & _ & _).
  assert (KeyA : key h1 k = key h j') by (unfold key; rewrite A1; now apply keyi_frame).
  assert (KeyB : key h1 j' = key h k) by (unfold key; rewrite B1; now apply keyi_frame).
  assert (KeyO : forall j, 0 <= j -> j <> k -> j <> j' -> key h1 j = key h j).
  { intros j Hj Na Nb. unfold key. rewrite O1 by auto. now apply keyi_frame. }
  assert (J1 : J_dem h1 j').
  { rewrite <- N1 in *. split.
    - intros j Hj Nj. unfold ok.
      destruct (Z.eq_dec j j') as [->|Nj'].
      + assert (j' / 2 = k) as -> by lia. rewrite KeyA, KeyB. apply cmp_nlt_le. lia.
      + destruct (Z.eq_dec (j / 2) k) as [Ej|Nk2].
        * rewrite Ej, KeyA, KeyO by lia. apply HJc; auto.
        * destruct (Z.eq_dec j k) as [->|Nk].
          -- rewrite KeyA, KeyO by lia. apply E2; auto; lia.
          -- rewrite !KeyO by lia. apply E1; auto.
    - intros c Hc Ec _. assert (j' / 2 = k) as -> by lia. rewrite KeyA, KeyO by lia.
      assert (O2 : ok h c) by (apply E1; lia). unfold ok in O2. now rewrite Ec in O2. }
  destruct (IH h1 j' W1 ltac:(lia) ltac:(lia) J1) as (h2 & P2 & W2 & F2 & R2).
  exists h2. rewrite P2. split; [reflexivity|]. split; [auto|]. split; [eapply Frame_trans; eauto|]. auto.
Qed.

(** * the full invariant and the operations *)
Definition Inv (cap : Z) (h : ibin) : Prop :=
  WF cap h /\
  (forall i, 0 <= i < cap -> inheap h i \/ (Ps h i = -1 /\ Kv h i = None)) /\
  held_count (b_kvs h) = b_n h /\ full_ho h.

Lemma held_count_cons o l : held_count (o :: l) = (if is_some o then 1 else 0) + held_count l.
Proof. unfold held_count. cbn [filter]. destruct (is_some o); cbn [length]; lia. Qed.

Lemma held_count_bounds l : 0 <= held_count l <= Z.of_nat (length l).
Proof. induction l as [|o l IH]; [cbn; lia|]. rewrite held_count_cons. cbn [length]. destruct (is_some o); lia. Qed.

Lemma held_count_upd l i o :
  (i < length l)%nat ->
  held_count (upd l i o) = held_count l - (if is_some (nth i l None) then 1 else 0) + (if is_some o then 1 else 0).
Proof.
  revert i; induction l as [|x l IH]; intros [|i] H; cbn [length] in H; try lia.
  - cbn [upd nth]. rewrite !held_count_cons. lia.
  - cbn [upd nth]. rewrite !held_count_cons, IH by lia. lia.
Qed.

Lemma held_count_free l i : (i < length l)%nat -> nth i l None = None -> held_count l < Z.of_nat (length l).
Proof.
  revert i; induction l as [|x l IH]; intros [|i] H E; cbn [length] in *; try lia.
  - cbn [nth] in E. subst. rewrite held_count_cons. pose proof (held_count_bounds l). cbn. lia.
  - cbn [nth] in E. rewrite held_count_cons. specialize (IH i ltac:(lia) E). destruct (is_some x); lia.
Qed.

Lemma held_count_repeat n : held_count (repeat None n) = 0.
Proof. induction n; [reflexivity|]. cbn [repeat]. rewrite held_count_cons. cbn. lia. Qed.

Lemma inheap_pos cap h i :
  WF cap h -> inheap h i -> 0 <= i < cap /\ 1 <= Ps h i <= b_n h /\ Hp h (Ps h i) = i /\ Kv h i <> None.
Proof.
  intros (_ & _ & _ & _ & W) (j & Hj & E). destruct (W j Hj) as (R & P & K). subst i.
  rewrite P. repeat split; auto; lia.
Qed.

Lemma aget_kv cap h i : WF cap h -> 0 <= i < cap -> aget (b_kvs h) i = Kv h i.
Proof.
  intros (_ & _ & L & _) R. unfold aget, in_range, Kv, zn.
  destruct (0 <=? i) eqn:A; [|lia]. destruct (i <? Z.of_nat (length (b_kvs h))) eqn:B; [|lia]. reflexivity.
Qed.

Lemma aget_out cap h i : WF cap h -> ~ 0 <= i < cap -> aget (b_kvs h) i = None.
Proof.
  intros (_ & _ & L & _) R. unfold aget, in_range.
  destruct (0 <=? i) eqn:A; destruct (i <? Z.of_nat (length (b_kvs h))) eqn:B; cbn; auto. lia.
Qed.

Lemma held_iff cap h i : Inv cap h -> 0 <= i < cap -> (Ps h i <> -1 <-> Kv h i <> None) /\ (Kv h i <> None -> inheap h i).
Proof.
  intros (W & D & _ & _) R. destruct (D i R) as [I | (P & K)].
  - destruct (inheap_pos _ _ _ W I) as (_ & Pp & _ & Kk). split; [split; intros; auto; lia | auto].
  - rewrite P, K. split; [split; intros; congruence | congruence].
Qed.

Lemma contains_index_spec cap h i :
  Inv cap h -> ModelBin.contains_index h i = Ok (is_some (aget (b_kvs h) i)).
Proof.
  intros I. pose proof I as (W & _). pose proof W as (L1 & L2 & L3 & _).
  unfold ModelBin.contains_index. rewrite L3.
  destruct ((0 <=? i) && (i <? cap)) eqn:R.
  - assert (Ri : 0 <= i < cap) by lia.
    rewrite (getR_zn _ i (-1)) by lia. cbn [bind]. fold (Ps h i).
    rewrite (aget_kv _ _ _ W Ri). destruct (held_iff _ _ _ I Ri) as (HI & _).
    f_equal. destruct (Ps h i =? -1) eqn:E; destruct (Kv h i); cbn; auto.
    + exfalso. assert (Ps h i = -1) by lia. apply HI; congruence.
    + exfalso. assert (Ps h i <> -1) by lia. apply HI in H. congruence.
  - rewrite (aget_out _ _ _ W) by lia. reflexivity.
Qed.

Lemma root_min cap h : WF cap h -> full_ho h -> forall j, 1 <= j <= b_n h -> cmp (key h 1) (key h j) <= 0.
Proof.
  intros W F j. assert (G : forall n j, Z.to_nat j = n -> 1 <= j <= b_n h -> cmp (key h 1) (key h j) <= 0).
  { induction n as [n IH] using lt_wf_ind. intros j' E Hj.
    destruct (Z.eq_dec j' 1) as [->|N]; [rewrite cmp_refl; lia|].
    assert (O : ok h j') by (apply F; lia). unfold ok in O.
    eapply cmp_tr; [|exact O]. apply (IH (Z.to_nat (j' / 2))); try lia. }
  apply (G (Z.to_nat j)); auto.
Qed.

(** every held entry is bounded by the root key *)
Lemma extremal_root cap h :
  Inv cap h -> 1 <= b_n h -> extremal cmp (b_kvs h) (key h 1) = true.
Proof.
  intros I Hn. pose proof I as (W & D & _ & F). pose proof W as (_ & _ & L3 & _).
  unfold extremal. apply forallb_forall. intros o Ho.
  destruct o as [kv|]; auto.
  destruct (In_nth _ _ None Ho) as (i & Hi & E).
  assert (Ri : 0 <= Z.of_nat i < cap) by lia.
  assert (K : Kv h (Z.of_nat i) = Some kv) by (unfold Kv, zn; now rewrite Nat2Z.id).
  destruct (held_iff _ _ _ I Ri) as (_ & HI). destruct (HI ltac:(congruence)) as (j & Hj & Ej).
  pose proof (root_min _ _ W F j Hj) as M. unfold key at 2 in M. rewrite Ej in M.
  unfold keyi in M. rewrite K in M. apply Z.leb_le. exact M.
Qed.

Lemma D_frame cap h h' :
  WF cap h -> Frame h h' ->
  (forall i, 0 <= i < cap -> inheap h i \/ (Ps h i = -1 /\ Kv h i = None)) ->
  (forall i, 0 <= i < cap -> inheap h' i \/ (Ps h' i = -1 /\ Kv h' i = None)).
Proof.
  intros W (N & K & IH & P) D i R. destruct (D i R) as [I | (Pi & Ki)].
  - left. now apply IH.
  - right. split.
    + rewrite P; auto; [lia|]. intros I. destruct (inheap_pos _ _ _ W I) as (_ & Pp & _). lia.
    + unfold Kv in *. now rewrite K.
Qed.

Definition fits (fuel : nat) (cap : Z) : Prop := (Z.to_nat (cap + 1) < fuel)%nat.

Lemma fuel_fits cap h : WF cap h -> fits (fuel_of h) cap.
Proof. intros (L1 & _). unfold fits, fuel_of. lia. Qed.

Lemma insert_spec cap h i k v :
  Inv cap h ->
  exists h' b, ibin_insert cmp h i k v = Ok (h', OBool b) /\ Inv cap h' /\
               spec_step cmp (b_kvs h) (Insert i k v) (OBool b) = Some (b_kvs h').
Proof.
  intros I. pose proof I as (W & D & C & F). pose proof W as (L1 & L2 & L3 & Hn & Wk).
  unfold ibin_insert. cbn [spec_step].
  destruct ((i <? 0) || (Z.of_nat (length (b_kvs h)) <=? i)) eqn:OOR.
  { exists h, false. cbn [bind]. split; [reflexivity|]. split; [auto|].
    rewrite (aget_out _ _ _ W) by lia. unfold in_range.
    replace ((0 <=? i) && (i <? Z.of_nat (length (b_kvs h)))) with false by lia. reflexivity. }
  assert (Ri : 0 <= i < cap) by lia.
  rewrite (contains_index_spec _ _ _ I). cbn [bind].
  unfold in_range. replace ((0 <=? i) && (i <? Z.of_nat (length (b_kvs h)))) with true by lia.
  destruct (is_some (aget (b_kvs h) i)) eqn:Held.
  { exists h, false. split; [reflexivity|]. split; [auto|]. reflexivity. }
  cbn [negb andb guard].
  rewrite (aget_kv _ _ _ W Ri) in Held.
  assert (Ki : Kv h i = None) by (destruct (Kv h i); [discriminate | reflexivity]).
  assert (NI : ~ inheap h i).
  { intros X. destruct (inheap_pos _ _ _ W X) as (_ & _ & _ & X'). congruence. }
  assert (Pi : Ps h i = -1) by (destruct (D i Ri) as [X | (X & _)]; [contradiction | exact X]).
  assert (Hn' : b_n h < cap).
  { rewrite <- C, <- L3. apply (held_count_free _ (Z.to_nat i)); [lia|]. exact Ki. }
  rewrite setR_ok by lia. cbn [bind]. rewrite setR_ok by lia. cbn [bind]. rewrite setR_ok by lia. cbn [bind].
  set (n' := b_n h + 1).
  set (h1 := {| b_n := n'; b_heap := upd (b_heap h) (Z.to_nat n') i;
                b_pos := upd (b_pos h) (Z.to_nat i) n'; b_kvs := upd (b_kvs h) (Z.to_nat i) (Some (k, v)) |}).
  assert (H1n : Hp h1 n' = i) by (unfold Hp; cbn [b_heap h1]; apply zn_upd_same; lia).
  assert (H1o : forall j, 0 <= j -> j <> n' -> Hp h1 j = Hp h j).
  { intros j Hj N. unfold Hp; cbn [b_heap h1]. apply zn_upd_other; lia. }
  assert (P1i : Ps h1 i = n') by (unfold Ps; cbn [b_pos h1]; apply zn_upd_same; lia).
  assert (P1o : forall x, 0 <= x -> x <> i -> Ps h1 x = Ps h x).
  { intros x Hx N. unfold Ps; cbn [b_pos h1]. apply zn_upd_other; lia. }
  assert (K1i : Kv h1 i = Some (k, v)) by (unfold Kv; cbn [b_kvs h1]; apply zn_upd_same; lia).
  assert (K1o : forall x, 0 <= x -> x <> i -> Kv h1 x = Kv h x).
  { intros x Hx N. unfold Kv; cbn [b_kvs h1]. apply zn_upd_other; lia. }
  assert (Hne : forall j, 1 <= j <= b_n h -> Hp h j <> i).
  { intros j Hj E. apply NI. exists j; auto. }
  assert (Key1 : forall j, 1 <= j <= b_n h -> key h1 j = key h j).
  { intros j Hj. unfold key, keyi. rewrite H1o by lia.
    rewrite K1o; [reflexivity | destruct (Wk j Hj); lia | now apply Hne]. }
  assert (W1 : WF cap h1).
  { unfold WF. cbn [b_n b_heap b_pos b_kvs h1]. rewrite !length_upd.
    split; [lia|]. split; [lia|]. split; [lia|]. split; [lia|].
    intros j Hj. destruct (Z.eq_dec j n') as [->|N].
    - rewrite H1n. repeat split; try lia; auto. congruence.
    - assert (Hj' : 1 <= j <= b_n h) by lia. destruct (Wk j Hj') as (Rj & Pj & Kj).
      rewrite H1o by lia. pose proof (Hne j Hj').
      rewrite P1o, K1o by lia. repeat split; auto; lia. }
  assert (I1 : I_prom h1 n' true).
  { repeat split; cbn [b_n h1].
    - intros j Hj N1 N2. unfold ok. rewrite !Key1 by lia. apply F. lia.
    - intros c Hc Ec. lia.
    - intros _ c Hc Ec. lia. }
  destruct (promote_spec cap (fuel_of h) h1 n' true W1 ltac:(cbn [b_n h1]; lia)
              ltac:(pose proof (fuel_fits _ _ W); unfold fits in *; lia) I1)
    as (h2 & P2 & W2 & F2 & R2).
  fold n' h1. rewrite P2. cbn [bind].
  exists h2, true. split; [reflexivity|].
  pose proof F2 as (N2 & KV2 & IH2 & PP2).
  assert (FH : full_ho h2).
  { destruct R2 as [R2 | (-> & R2)]; auto. apply (prom_done _ _ _ I1); auto. }
  split; [|unfold aset; now rewrite KV2].
  split; [auto|]. split; [|split; [|auto]].
  - apply (D_frame _ _ _ W1 F2). intros x Rx.
    destruct (Z.eq_dec x i) as [->|N].
    + left. exists n'. cbn [b_n h1]. split; [lia | auto].
    + destruct (D x Rx) as [(j & Hj & E) | (Px & Kx)].
      * left. exists j. cbn [b_n h1]. split; [lia|]. rewrite H1o; auto; lia.
      * right. rewrite P1o, K1o by lia. auto.
  - rewrite KV2, N2. cbn [b_kvs b_n h1]. rewrite held_count_upd by lia.
    unfold Kv, zn in Ki. rewrite Ki. cbn. lia.
Qed.

Lemma change_key_spec cap h i k :
  Inv cap h ->
  exists h' b, ibin_change_key cmp h i k = Ok (h', OBool b) /\ Inv cap h' /\
               spec_step cmp (b_kvs h) (ChangeKey i k) (OBool b) = Some (b_kvs h').
Proof.
  intros I. pose proof I as (W & D & C & F). pose proof W as (L1 & L2 & L3 & Hn & Wk).
  unfold ibin_change_key. cbn [spec_step].
  rewrite (contains_index_spec _ _ _ I). cbn [bind].
  destruct (aget (b_kvs h) i) as [kv|] eqn:A; cbn [is_some negb].
  2:{ exists h, false. split; [reflexivity|]. split; [auto|]. reflexivity. }
  assert (Ri : 0 <= i < cap).
  { destruct (Z.le_gt_cases 0 i), (Z.lt_ge_cases i cap); try lia; rewrite (aget_out _ _ _ W) in A by lia; discriminate. }
  rewrite (aget_kv _ _ _ W Ri) in A.
  rewrite (getR_zn _ i None) by lia. cbn [bind]. fold (Kv h i). rewrite A.
  rewrite setR_ok by lia. cbn [bind].
  destruct (held_iff _ _ _ I Ri) as (_ & HI). pose proof (HI ltac:(congruence)) as IHi.
  destruct (inheap_pos _ _ _ W IHi) as (_ & Pp & Hpp & _).
  set (p := Ps h i) in *.
  set (h1 := {| b_n := b_n h; b_heap := b_heap h; b_pos := b_pos h;
                b_kvs := upd (b_kvs h) (Z.to_nat i) (Some (k, snd kv)) |}).
  assert (K1i : Kv h1 i = Some (k, snd kv)) by (unfold Kv; cbn [b_kvs h1]; apply zn_upd_same; lia).
  assert (K1o : forall x, 0 <= x -> x <> i -> Kv h1 x = Kv h x).
  { intros x Hx N. unfold Kv; cbn [b_kvs h1]. apply zn_upd_other; lia. }
  assert (K1n : forall x, 0 <= x -> Kv h x <> None -> Kv h1 x <> None).
  { intros x Hx N. destruct (Z.eq_dec x i) as [->|N']; [congruence | now rewrite K1o]. }
  assert (W1 : WF cap h1).
  { unfold WF. cbn [b_n b_heap b_pos b_kvs h1]. rewrite !length_upd.
    split; [lia|]. split; [lia|]. split; [lia|]. split; [lia|].
    intros j Hj. destruct (Wk j Hj) as (Rj & Pj & Kj).
    change (Hp h1 j) with (Hp h j). change (Ps h1 (Hp h j)) with (Ps h (Hp h j)).
    split; [lia|]. split; [exact Pj|]. apply K1n; auto; lia. }
  assert (Key1 : forall j, 1 <= j <= b_n h -> j <> p -> key h1 j = key h j).
  { intros j Hj N. unfold key, keyi. change (Hp h1 j) with (Hp h j).
    rewrite K1o; [reflexivity | destruct (Wk j Hj); lia |].
    intros E. apply N. apply (WF_inj cap h j p W Hj Pp). rewrite Hpp. exact E. }
  assert (I1 : I_prom h1 p false).
  { repeat split; cbn [b_n h1]; try discriminate.
    - intros j Hj N1 N2. unfold ok. rewrite !Key1 by lia. apply F. lia.
    - intros c Hc Ec Hp2. rewrite !Key1 by lia.
      assert (O1 : ok h c) by (apply F; lia). assert (O2 : ok h p) by (apply F; lia).
      unfold ok in *. rewrite Ec in O1. eapply cmp_tr; eauto. }
  change (getR (b_pos h1) i) with (getR (b_pos h) i).
  rewrite (getR_zn _ i (-1)) by lia. cbn [bind]. fold (Ps h i). fold p.
  destruct (promote_spec cap (fuel_of h) h1 p false W1 ltac:(cbn [b_n h1]; lia)
              ltac:(pose proof (fuel_fits _ _ W); unfold fits in *; lia) I1)
    as (h2 & P2 & W2 & F2 & R2).
  rewrite P2. cbn [bind].
  pose proof F2 as (N2 & KV2 & IH2 & PP2).
  assert (IH1i : inheap h1 i) by exact IHi.
  assert (IH2i : inheap h2 i) by now apply IH2.
  destruct (inheap_pos _ _ _ W2 IH2i) as (_ & Pp2 & Hpp2 & _).
  pose proof W2 as (L21 & L22 & L23 & _).
  rewrite (getR_zn _ i (-1)) by lia. cbn [bind]. fold (Ps h2 i).
  assert (J2 : J_dem h2 (Ps h2 i)).
  { destruct R2 as [R2 | (-> & R2)]; [now apply full_J|].
    change (Ps h1 i) with p. apply (prom_done _ _ _ I1); auto. }
  destruct (demote_spec cap (fuel_of h) h2 (Ps h2 i) W2 ltac:(lia)
              ltac:(pose proof (fuel_fits _ _ W); unfold fits in *; cbn [b_n h1] in *; lia) J2)
    as (h3 & P3 & W3 & F3 & FH3).
  rewrite P3. cbn [bind].
  exists h3, true. split; [reflexivity|].
  pose proof F3 as (N3 & KV3 & _ & _).
  split; [|unfold aset; cbn [guard]; now rewrite KV3, KV2].
  split; [auto|]. split; [|split; [|auto]].
  - apply (D_frame _ _ _ W2 F3). apply (D_frame _ _ _ W1 F2). intros x Rx.
    destruct (D x Rx) as [X | (Px & Kx)]; [left; exact X|].
    right. split; [exact Px|]. rewrite K1o; auto; [lia|]. intros ->. congruence.
  - rewrite KV3, KV2, N3, N2. cbn [b_kvs b_n h1]. rewrite held_count_upd by lia.
    unfold Kv, zn in A. rewrite A. cbn. lia.
Qed.

(** removal: swap position k with the last one and shrink *)
Lemma swap_last cap h k :
  Inv cap h -> 1 <= k <= b_n h ->
  exists h1, swap h k (b_n h) = Ok h1 /\
    let g := with_n h1 (b_n h - 1) in
    WF cap g /\ b_kvs g = b_kvs h /\ Hp g (b_n h) = Hp h k /\
    (forall j, 1 <= j <= b_n h - 1 -> j <> k -> Hp g j = Hp h j) /\
    (k < b_n h -> Hp g k = Hp h (b_n h)) /\
    (forall x, 0 <= x -> ~ inheap h x -> Ps g x = Ps h x) /\
    ~ inheap g (Hp h k) /\
    (forall x, inheap g x -> inheap h x) /\
    (forall x, inheap h x -> x <> Hp h k -> inheap g x) /\
    Z.of_nat (length (b_heap g)) = cap + 1.
Proof.
  intros I Hk. pose proof I as (W & D & C & F). pose proof W as (L1 & L2 & L3 & Hn & Wk).
  destruct (swap_spec cap h k (b_n h) W Hk ltac:(lia)) as (h1 & S & W1 & F1 & A1 & B1 & O1).
  exists h1. split; [exact S|]. cbv zeta.
  pose proof F1 as (N1 & KV1 & IH1 & PP1). pose proof W1 as (L11 & L12 & L13 & Hn1 & Wk1).
  set (g := with_n h1 (b_n h - 1)).
  assert (HG : forall j, Hp g j = Hp h1 j) by reflexivity.
  assert (GL : Hp g (b_n h) = Hp h k) by (rewrite HG; exact B1).
  assert (GO : forall j, 1 <= j <= b_n h - 1 -> j <> k -> Hp g j = Hp h j).
  { intros j Hj N. rewrite HG. apply O1; lia. }
  assert (GK : k < b_n h -> Hp g k = Hp h (b_n h)) by (intros _; rewrite HG; exact A1).
  assert (WG : WF cap g).
  { unfold WF. cbn [b_n b_heap b_pos b_kvs g with_n].
    split; [lia|]. split; [lia|]. split; [lia|]. split; [lia|].
    intros j Hj. apply Wk1. lia. }
  assert (NIG : ~ inheap g (Hp h k)).
  { intros (j & Hj & E). cbn [b_n g with_n] in Hj. rewrite HG, <- B1 in E.
    assert (j = b_n h) by (eapply (WF_inj cap h1); eauto; lia). lia. }
  split; [exact WG|]. split; [exact KV1|]. split; [exact GL|]. split; [exact GO|]. split; [exact GK|].
  split; [intros x Hx NI; apply PP1; auto|]. split; [exact NIG|].
  split; [|split; [|exact L11]].
  - intros x (j & Hj & E). cbn [b_n g with_n] in Hj. apply IH1. exists j. split; [lia | exact E].
  - intros x IX NX. apply IH1 in IX. destruct IX as (j & Hj & E).
    destruct (Z.eq_dec j (b_n h)) as [->|N]; [rewrite B1 in E; congruence|].
    exists j. cbn [b_n g with_n]. split; [lia | exact E].
Qed.

(** the end of Delete / DeleteIndex: pos[i] = -1, kvs[i] = nil *)
Lemma finish_remove cap h g g2 i kv :
  Inv cap h -> 1 <= b_n h -> 0 <= i < cap -> Kv h i = Some kv ->
  WF cap g -> b_n g = b_n h - 1 -> b_kvs g = b_kvs h ->
  (forall x, 0 <= x -> ~ inheap h x -> Ps g x = Ps h x) ->
  ~ inheap g i -> (forall x, inheap g x -> inheap h x) -> (forall x, inheap h x -> x <> i -> inheap g x) ->
  WF cap g2 -> Frame g g2 -> full_ho g2 ->
  exists h3, clear g2 i = Ok h3 /\ Inv cap h3 /\ b_kvs h3 = aset (b_kvs h) i None.
Proof.
  intros I Hn Ri Ki WG NG KG PG NIG IG1 IG2 W2 F2 FH2.
  pose proof I as (W & D & C & F). pose proof W as (L1 & L2 & L3 & _ & Wk).
  pose proof F2 as (N2 & KV2 & IH2 & PP2). pose proof W2 as (L21 & L22 & L23 & Hn2 & Wk2).
  unfold clear. rewrite setR_ok by lia. cbn [bind]. rewrite setR_ok by lia. cbn [bind].
  set (h3 := {| b_n := b_n g2; b_heap := b_heap g2; b_pos := upd (b_pos g2) (Z.to_nat i) (-1);
                b_kvs := upd (b_kvs g2) (Z.to_nat i) None |}).
  exists h3. split; [reflexivity|].
  assert (NI2 : ~ inheap g2 i) by (intros X; apply NIG, IH2, X).
  assert (P3o : forall x, 0 <= x -> x <> i -> Ps h3 x = Ps g2 x).
  { intros x Hx N. unfold Ps; cbn [b_pos h3]. apply zn_upd_other; lia. }
  assert (K3o : forall x, 0 <= x -> x <> i -> Kv h3 x = Kv g2 x).
  { intros x Hx N. unfold Kv; cbn [b_kvs h3]. apply zn_upd_other; lia. }
  assert (P3i : Ps h3 i = -1) by (unfold Ps; cbn [b_pos h3]; apply zn_upd_same; lia).
  assert (K3i : Kv h3 i = None) by (unfold Kv; cbn [b_kvs h3]; apply zn_upd_same; lia).
  assert (Hne : forall j, 1 <= j <= b_n g2 -> Hp g2 j <> i).
  { intros j Hj E. apply NI2. exists j; auto. }
  assert (IH3 : forall x, inheap h3 x <-> inheap g2 x) by (intros x; split; intros X; exact X).
  split; [|unfold aset; cbn [b_kvs h3]; now rewrite KV2, KG].
  split; [|split; [|split]].
  - unfold WF. cbn [b_n b_heap b_pos b_kvs h3]. rewrite !length_upd.
    split; [lia|]. split; [lia|]. split; [lia|]. split; [lia|].
    intros j Hj. destruct (Wk2 j Hj) as (Rj & Pj & Kj). pose proof (Hne j Hj).
    change (Hp h3 j) with (Hp g2 j). rewrite P3o, K3o by lia. auto.
  - intros x Rx. destruct (Z.eq_dec x i) as [->|N]; [right; auto|].
    destruct (D x Rx) as [X | (Px & Kx)].
    + left. apply IH3, IH2, IG2; auto.
    + right. rewrite P3o, K3o by lia.
      assert (NX : ~ inheap h x).
      { intros X. destruct (inheap_pos _ _ _ W X) as (_ & Pp & _). lia. }
      split.
      * rewrite PP2; [|lia|intros X; apply NX, IG1, X]. rewrite PG; auto; lia.
      * unfold Kv in *. now rewrite KV2, KG.
  - cbn [b_kvs b_n h3]. rewrite held_count_upd by lia. rewrite KV2, KG, N2, NG.
    unfold Kv, zn in Ki. rewrite Ki. cbn. lia.
  - intros j Hj. cbn [b_n h3] in Hj. specialize (FH2 j Hj). unfold ok, key, keyi in *.
    change (Hp h3 (j / 2)) with (Hp g2 (j / 2)). change (Hp h3 j) with (Hp g2 j).
    rewrite !K3o; auto.
    + destruct (Wk2 j ltac:(lia)); lia.
    + apply Hne; lia.
    + destruct (Wk2 (j / 2) ltac:(lia)); lia.
    + apply Hne; lia.
Qed.

Lemma key_g h g j : b_kvs g = b_kvs h -> Hp g j = Hp h j -> key g j = key h j.
Proof. intros E1 E2. unfold key. rewrite E2. now apply keyi_frame. Qed.

Lemma holds_self cap h i kv : WF cap h -> 0 <= i < cap -> Kv h i = Some kv -> holds (b_kvs h) i (fst kv) (snd kv) = true.
Proof. intros W R K. unfold holds. rewrite (aget_kv _ _ _ W R), K. now rewrite !Z.eqb_refl. Qed.

Lemma delete_spec cap h :
  Inv cap h ->
  exists h' r, ibin_delete cmp h = Ok (h', r) /\ Inv cap h' /\
               spec_step cmp (b_kvs h) Delete r = Some (b_kvs h').
Proof.
  intros I. pose proof I as (W & D & C & F). pose proof W as (L1 & L2 & L3 & Hn & Wk).
  unfold ibin_delete. destruct (b_n h =? 0) eqn:N0.
  { exists h, ONoEntry. split; [reflexivity|]. split; [auto|]. cbn [spec_step]. rewrite C, N0. reflexivity. }
  assert (Hn1 : 1 <= b_n h) by lia.
  destruct (Wk 1 ltac:(lia)) as (Ri & Pi & Ki). set (i := Hp h 1) in *.
  rewrite (getR_zn _ 1 0) by lia. cbn [bind]. fold (Hp h 1). fold i.
  rewrite (getR_zn _ i None) by lia. cbn [bind]. fold (Kv h i).
  destruct (Kv h i) as [kv|] eqn:Kvi; [|congruence].
  destruct (swap_last cap h 1 I ltac:(lia)) as (h1 & S & WG & KG & GL & GO & GK & PG & NIG & IG1 & IG2 & LG).
  rewrite S. cbn [bind].
  set (g := with_n h1 (b_n h - 1)) in *.
  assert (J : J_dem g 1).
  { split; [|intros; lia]. intros j Hj Nj. cbn [b_n g with_n] in Hj. unfold ok.
    rewrite !(key_g h g) by (auto; apply GO; lia). apply F. lia. }
  destruct (demote_spec cap (fuel_of h) g 1 WG ltac:(lia)
              ltac:(pose proof (fuel_fits _ _ W); unfold fits in *; cbn [b_n g with_n]; lia) J)
    as (g2 & P2 & W2 & F2 & FH2).
  rewrite P2. cbn [bind].
  destruct (finish_remove cap h g g2 i kv I Hn1 Ri Kvi WG eq_refl KG PG NIG IG1 IG2 W2 F2 FH2)
    as (h3 & CL & I3 & K3).
  rewrite CL. cbn [bind].
  exists h3, (OEntry i (fst kv) (snd kv)). split; [reflexivity|]. split; [auto|].
  cbn [spec_step]. rewrite (holds_self _ _ _ _ W Ri Kvi).
  replace (fst kv) with (key h 1) by (unfold key, keyi; fold i; now rewrite Kvi).
  rewrite (extremal_root _ _ I Hn1). cbn [andb guard]. now rewrite K3.
Qed.

Lemma delete_index_spec cap h i :
  Inv cap h ->
  exists h' r, ibin_delete_index cmp h i = Ok (h', r) /\ Inv cap h' /\
               spec_step cmp (b_kvs h) (DeleteIndex i) r = Some (b_kvs h').
Proof.
  intros I. pose proof I as (W & D & C & F). pose proof W as (L1 & L2 & L3 & Hn & Wk).
  unfold ibin_delete_index. cbn [spec_step].
  rewrite (contains_index_spec _ _ _ I). cbn [bind].
  destruct (aget (b_kvs h) i) as [kv|] eqn:A; cbn [is_some negb].
  2:{ exists h, ONoKV. split; [reflexivity|]. split; [auto|]. cbn [spec_step]. try rewrite A. reflexivity. }
  assert (Ri : 0 <= i < cap).
  { destruct (Z.le_gt_cases 0 i), (Z.lt_ge_cases i cap); try lia; rewrite (aget_out _ _ _ W) in A by lia; discriminate. }
  rewrite (aget_kv _ _ _ W Ri) in A.
  destruct (held_iff _ _ _ I Ri) as (_ & HI). pose proof (HI ltac:(congruence)) as IHi.
  destruct (inheap_pos _ _ _ W IHi) as (_ & Pp & Hpp & _).
  rewrite (getR_zn _ i (-1)) by lia. cbn [bind]. fold (Ps h i).
  rewrite (getR_zn _ i None) by lia. cbn [bind]. fold (Kv h i). rewrite A.
  set (k := Ps h i) in *.
  assert (Hn1 : 1 <= b_n h) by lia.
  destruct (swap_last cap h k I Pp) as (h1 & S & WG & KG & GL & GO & GK & PG & NIG & IG1 & IG2 & LG).
  rewrite S. cbn [bind]. rewrite Hpp in *.
  set (g := with_n h1 (b_n h - 1)) in *.
  assert (exists g2, (h2 <- promote cmp (fuel_of h) g k ;; demote cmp (fuel_of h) h2 k) = Ok g2 /\
                     WF cap g2 /\ Frame g g2 /\ full_ho g2) as (g2 & P2 & W2 & F2 & FH2).
  { destruct (Z.eq_dec k (b_n h)) as [E|NE].
    - (* the deleted entry was the last one: nothing moves *)
      assert (FG : full_ho g).
      { intros j Hj. cbn [b_n g with_n] in Hj. unfold ok.
        rewrite !(key_g h g) by (auto; apply GO; lia). apply F. lia. }
      assert (PR : promote cmp (fuel_of h) g k = Ok g).
      { unfold fuel_of. cbn [promote]. destruct (k >? 1) eqn:K1; [|reflexivity].
        rewrite (compare_spec g (k / 2) k).
        - cbn [bind]. rewrite (key_g h g (k / 2)) by (auto; apply GO; lia).
          rewrite (key_g h g k) by (auto; rewrite E, GL, <- E; auto).
          assert (O : ok h k) by (apply F; lia). unfold ok in O.
          destruct (cmp (key h (k / 2)) (key h k) >? 0) eqn:CC; [lia | reflexivity].
        - eapply WF_vpos; eauto. cbn [b_n g with_n]. lia.
        - unfold vpos. rewrite E, GL. rewrite KG. unfold Kv. rewrite KG. fold (Kv h i). rewrite A.
          repeat split; try lia; congruence. }
      rewrite PR. cbn [bind]. exists g. split.
      + unfold fuel_of. cbn [demote]. cbv zeta. cbn [b_n g with_n].
        destruct (2 * k <=? b_n h - 1) eqn:K2; [lia | reflexivity].
      + split; [auto|]. split; [apply Frame_refl | auto].
    - assert (Hk' : 1 <= k <= b_n g) by (cbn [b_n g with_n]; lia).
      assert (KeyO : forall j, 1 <= j <= b_n h - 1 -> j <> k -> key g j = key h j).
      { intros j Hj N. apply key_g; auto. }
      assert (I1 : I_prom g k false).
      { repeat split; cbn [b_n g with_n]; try discriminate.
        - intros j Hj N1 N2. unfold ok. rewrite !KeyO by lia. apply F. lia.
        - intros c Hc Ec Hk2. rewrite !KeyO by lia.
          assert (O1 : ok h c) by (apply F; lia). assert (O2 : ok h k) by (apply F; lia).
          unfold ok in *. rewrite Ec in O1. eapply cmp_tr; eauto. }
      destruct (promote_spec cap (fuel_of h) g k false WG Hk'
                  ltac:(pose proof (fuel_fits _ _ W); unfold fits in *; lia) I1)
        as (g1 & P1 & W1 & F1 & R1).
      rewrite P1. cbn [bind].
      assert (J1 : J_dem g1 k).
      { destruct R1 as [R1 | (-> & R1)]; [now apply full_J|]. apply (prom_done _ _ _ I1); auto. }
      destruct (demote_spec cap (fuel_of h) g1 k W1 ltac:(lia)
                  ltac:(pose proof (fuel_fits _ _ W); destruct F1 as (N1 & _); unfold fits in *; rewrite N1; cbn [b_n g with_n]; lia) J1)
        as (g2 & P2 & W2 & F2 & FH2).
      exists g2. split; [exact P2|]. split; [auto|]. split; [eapply Frame_trans; eauto | auto]. }
  destruct (promote cmp (fuel_of h) g k) as [h2| |] eqn:PR; cbn [bind] in P2; try discriminate.
  cbn [bind]. rewrite P2. cbn [bind].
  destruct (finish_remove cap h g g2 i kv I Hn1 Ri A WG eq_refl KG PG NIG IG1 IG2 W2 F2 FH2)
    as (h3 & CL & I3 & K3).
  rewrite CL. cbn [bind].
  exists h3, (OKV (fst kv) (snd kv)). split; [reflexivity|]. split; [auto|].
  cbn [spec_step]. rewrite (holds_self _ _ _ _ W Ri A). cbn [guard]. now rewrite K3.
Qed.

Lemma Inv_fresh (cap : nat) :
  Inv (Z.of_nat cap) {| b_n := 0; b_heap := repeat 0 (S cap); b_pos := repeat (-1) cap; b_kvs := repeat None cap |}.
Proof.
  split; [|split; [|split]].
  - unfold WF. cbn [b_n b_heap b_pos b_kvs]. rewrite !repeat_length.
    split; [lia|]. split; [lia|]. split; [lia|]. split; [lia|]. intros k Hk. lia.
  - intros i Ri. right. unfold Ps, Kv. cbn [b_pos b_kvs]. rewrite !zn_repeat by lia. auto.
  - cbn [b_kvs b_n]. apply held_count_repeat.
  - intros j Hj. cbn [b_n] in Hj. lia.
Qed.

Lemma Inv_new (cap : nat) : Inv (Z.of_nat cap) (ibin_new cap).
Proof. apply Inv_fresh. Qed.

Lemma delete_all_spec cap h : Inv (Z.of_nat cap) h ->
  Inv (Z.of_nat cap) (ibin_delete_all h) /\ b_kvs (ibin_delete_all h) = repeat None (length (b_kvs h)).
Proof.
  intros (W & _). destruct W as (L1 & L2 & L3 & _). unfold ibin_delete_all.
  replace (length (b_heap h)) with (S cap) by lia. replace (length (b_pos h)) with cap by lia.
  replace (length (b_kvs h)) with cap by lia. split; [apply Inv_fresh | reflexivity].
Qed.

Lemma step_spec (cap : nat) h o :
  Inv (Z.of_nat cap) h ->
  exists h' r, ibin_step cmp h o = Ok (h', r) /\ Inv (Z.of_nat cap) h' /\
               spec_step cmp (b_kvs h) o r = Some (b_kvs h').
Proof.
  intros I. pose proof I as (W & D & C & F). pose proof W as (L1 & L2 & L3 & Hn & Wk).
  destruct o as [i k v | i k | | i | | | i | i | k | v | | ]; cbn [ibin_step].
  - destruct (insert_spec _ h i k v I) as (h' & b & E & I' & S). eauto.
  - destruct (change_key_spec _ h i k I) as (h' & b & E & I' & S). eauto.
  - apply delete_spec, I.
  - apply delete_index_spec, I.
  - destruct (delete_all_spec _ _ I) as (I' & K). exists (ibin_delete_all h), OUnit.
    split; [reflexivity|]. split; [auto|]. cbn [spec_step]. now rewrite K.
  - (* Peek *)
    unfold ibin_peek. destruct (b_n h =? 0) eqn:N0.
    + exists h, ONoEntry. cbn [bind]. split; [reflexivity|]. split; [auto|]. cbn [spec_step]. rewrite C, N0. reflexivity.
    + assert (Hn1 : 1 <= b_n h) by lia. destruct (Wk 1 ltac:(lia)) as (Ri & Pi & Ki). set (i := Hp h 1) in *.
      rewrite (getR_zn _ 1 0) by lia. cbn [bind]. fold (Hp h 1). fold i.
      rewrite (getR_zn _ i None) by lia. cbn [bind]. fold (Kv h i).
      destruct (Kv h i) as [kv|] eqn:Kvi; [|congruence]. cbn [bind].
      exists h, (OEntry i (fst kv) (snd kv)). split; [reflexivity|]. split; [auto|].
      cbn [spec_step]. rewrite (holds_self _ _ _ _ W Ri Kvi).
      replace (fst kv) with (key h 1) by (unfold key, keyi; fold i; now rewrite Kvi).
      rewrite (extremal_root _ _ I Hn1). reflexivity.
  - (* PeekIndex *)
    unfold ibin_peek_index. rewrite (contains_index_spec _ _ _ I). cbn [bind].
    destruct (aget (b_kvs h) i) as [kv|] eqn:A; cbn [is_some negb].
    2:{ exists h, ONoKV. split; [reflexivity|]. split; [auto|]. cbn [spec_step]. try rewrite A. reflexivity. }
    assert (Ri : 0 <= i < Z.of_nat cap).
    { destruct (Z.le_gt_cases 0 i), (Z.lt_ge_cases i (Z.of_nat cap)); try lia; rewrite (aget_out _ _ _ W) in A by lia; discriminate. }
    rewrite (aget_kv _ _ _ W Ri) in A.
    rewrite (getR_zn _ i None) by lia. cbn [bind]. fold (Kv h i). rewrite A. cbn [bind].
    exists h, (OKV (fst kv) (snd kv)). split; [reflexivity|]. split; [auto|].
    cbn [spec_step]. rewrite (holds_self _ _ _ _ W Ri A). reflexivity.
  - rewrite (contains_index_spec _ _ _ I). cbn [bind]. eexists h, _. split; [reflexivity|]. split; [auto|].
    cbn [spec_step]. now rewrite Bool.eqb_reflx.
  - eexists h, _. split; [reflexivity|]. split; [auto|]. cbn [spec_step].
    unfold ibin_contains_key, has_key. now rewrite Bool.eqb_reflx.
  - eexists h, _. split; [reflexivity|]. split; [auto|]. cbn [spec_step].
    unfold ibin_contains_value, has_val. now rewrite Bool.eqb_reflx.
  - eexists h, _. split; [reflexivity|]. split; [auto|]. cbn [spec_step]. rewrite C, Z.eqb_refl. reflexivity.
  - eexists h, _. split; [reflexivity|]. split; [auto|]. cbn [spec_step]. rewrite C, Bool.eqb_reflx. reflexivity.
Qed.

End Bin.
