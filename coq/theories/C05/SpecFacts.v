(** C05 — what the executable specification [spec_step] says, in logical terms. *)
From Algo.C05 Require Import Base Spec.
From Coq Require Import Lia.
Open Scope Z_scope.

Definition held (m : amap) (i k v : Z) : Prop := aget m i = Some (k, v).
Definition free_slot (m : amap) (i : Z) : Prop := 0 <= i < Z.of_nat (length m) /\ aget m i = None.

Lemma guard_some {A} b (a a' : A) : guard b a = Some a' -> b = true /\ a' = a.
Proof. destruct b; cbn; intros H; inversion H; auto. Qed.

Lemma holds_iff m i k v : holds m i k v = true <-> held m i k v.
Proof.
  unfold holds, held. destruct (aget m i) as [[k' v']|]; cbn; [|split; discriminate].
  rewrite andb_true_iff, !Z.eqb_eq. split; [intros (-> & ->); reflexivity | intros H; inversion H; auto].
Qed.

Lemma aget_in m i kv : aget m i = Some kv -> 0 <= i < Z.of_nat (length m) /\ nth (Z.to_nat i) m None = Some kv.
Proof.
  unfold aget, in_range. destruct (0 <=? i) eqn:A; destruct (i <? Z.of_nat (length m)) eqn:B; cbn; try discriminate.
  intros H. split; [lia | exact H].
Qed.

Lemma extremal_iff cmp m k :
  extremal cmp m k = true <-> (forall j k' v', held m j k' v' -> cmp k k' <= 0).
Proof.
  unfold extremal. rewrite forallb_forall. split.
  - intros H j k' v' Hj. destruct (aget_in _ _ _ Hj) as (R & N).
    assert (In (Some (k', v')) m) by (rewrite <- N; apply nth_In; lia).
    specialize (H _ H0). cbn in H. lia.
  - intros H o Ho. destruct o as [[k' v']|]; auto.
    destruct (In_nth _ _ None Ho) as (j & Hj & E). apply Z.leb_le. apply (H (Z.of_nat j) k' v').
    unfold held, aget, in_range. rewrite Nat2Z.id, E.
    destruct (0 <=? Z.of_nat j) eqn:A; destruct (Z.of_nat j <? Z.of_nat (length m)) eqn:B; cbn; auto; lia.
Qed.

Lemma has_key_iff cmp m k : has_key cmp m k = true <-> exists j k' v', held m j k' v' /\ cmp k' k = 0.
Proof.
  unfold has_key. rewrite existsb_exists. split.
  - intros (o & Ho & T). destruct o as [[k' v']|]; [|discriminate].
    destruct (In_nth _ _ None Ho) as (j & Hj & E). exists (Z.of_nat j), k', v'. cbn in T. split; [|lia].
    unfold held, aget, in_range. rewrite Nat2Z.id, E.
    destruct (0 <=? Z.of_nat j) eqn:A; destruct (Z.of_nat j <? Z.of_nat (length m)) eqn:B; cbn; auto; lia.
  - intros (j & k' & v' & Hj & C). destruct (aget_in _ _ _ Hj) as (R & N).
    exists (Some (k', v')). split; [rewrite <- N; apply nth_In; lia | cbn; lia].
Qed.

Lemma has_val_iff m v : has_val m v = true <-> exists j k', held m j k' v.
Proof.
  unfold has_val. rewrite existsb_exists. split.
  - intros (o & Ho & T). destruct o as [[k' v']|]; [|discriminate].
    destruct (In_nth _ _ None Ho) as (j & Hj & E). exists (Z.of_nat j), k'. cbn in T. assert (v' = v) by lia. subst v'.
    unfold held, aget, in_range. rewrite Nat2Z.id, E.
    destruct (0 <=? Z.of_nat j) eqn:A; destruct (Z.of_nat j <? Z.of_nat (length m)) eqn:B; cbn; auto; lia.
  - intros (j & k' & Hj). destruct (aget_in _ _ _ Hj) as (R & N).
    exists (Some (k', v)). split; [rewrite <- N; apply nth_In; lia | cbn; lia].
Qed.

(** what a permitted result means, operation by operation *)
Lemma spec_insert cmp m i k v b m' :
  spec_step cmp m (Insert i k v) (OBool b) = Some m' ->
  (b = true <-> free_slot m i) /\ m' = (if b then aset m i (Some (k, v)) else m).
Proof.
  cbn [spec_step]. unfold free_slot, in_range.
  destruct ((0 <=? i) && (i <? Z.of_nat (length m))) eqn:R; cbn [andb].
  - destruct (aget m i) as [kv|] eqn:G; cbn [is_some negb]; intros H; apply guard_some in H; destruct H as (Hb & ->).
    + destruct b; [discriminate|]. split; [split; [discriminate | intros (_ & X); discriminate] | reflexivity].
    + subst b. split; [split; auto; intros _; split; [lia | reflexivity] | reflexivity].
  - intros H. apply guard_some in H. destruct H as (Hb & ->). destruct b; [discriminate|].
    split; [split; [discriminate | intros (X & _); lia] | reflexivity].
Qed.

Lemma spec_change_key cmp m i k b m' :
  spec_step cmp m (ChangeKey i k) (OBool b) = Some m' ->
  (b = true <-> exists k0 v, held m i k0 v) /\
  (forall k0 v, held m i k0 v -> m' = aset m i (Some (k, v))) /\ (b = false -> m' = m).
Proof.
  cbn [spec_step]. unfold held. destruct (aget m i) as [[k0 v]|]; intros H; apply guard_some in H; destruct H as (Hb & ->).
  - subst b. split; [split; eauto|]. split; [intros k1 v1 E; inversion E; reflexivity | discriminate].
  - destruct b; [discriminate|]. split; [split; [discriminate | intros (? & ? & X); discriminate]|].
    split; [intros ? ? X; discriminate | reflexivity].
Qed.

Lemma spec_delete cmp m i k v m' :
  spec_step cmp m Delete (OEntry i k v) = Some m' ->
  held m i k v /\ (forall j k' v', held m j k' v' -> cmp k k' <= 0) /\ m' = aset m i None.
Proof.
  cbn [spec_step]. intros H. apply guard_some in H. destruct H as (Hb & ->). apply andb_true_iff in Hb.
  destruct Hb as (A & B). split; [now apply holds_iff|]. split; [now apply extremal_iff | reflexivity].
Qed.

Lemma spec_peek cmp m i k v m' :
  spec_step cmp m Peek (OEntry i k v) = Some m' ->
  held m i k v /\ (forall j k' v', held m j k' v' -> cmp k k' <= 0) /\ m' = m.
Proof.
  cbn [spec_step]. intros H. apply guard_some in H. destruct H as (Hb & ->). apply andb_true_iff in Hb.
  destruct Hb as (A & B). split; [now apply holds_iff|]. split; [now apply extremal_iff | reflexivity].
Qed.

Lemma spec_empty cmp m o m' :
  (o = Delete \/ o = Peek) -> spec_step cmp m o ONoEntry = Some m' -> held_count m = 0 /\ m' = m.
Proof.
  intros [-> | ->]; cbn [spec_step]; intros H; apply guard_some in H; destruct H as (Hb & ->); split; auto; lia.
Qed.

Lemma spec_delete_index cmp m i r m' :
  spec_step cmp m (DeleteIndex i) r = Some m' ->
  (exists k v, r = OKV k v /\ held m i k v /\ m' = aset m i None) \/ (r = ONoKV /\ aget m i = None /\ m' = m).
Proof.
  cbn [spec_step]. destruct r; try discriminate; intros H; apply guard_some in H; destruct H as (Hb & ->).
  - left. exists k, v. split; auto. split; [now apply holds_iff | reflexivity].
  - right. split; auto. split; auto. destruct (aget m i); [discriminate | reflexivity].
Qed.

Lemma spec_peek_index cmp m i r m' :
  spec_step cmp m (PeekIndex i) r = Some m' ->
  m' = m /\ ((exists k v, r = OKV k v /\ held m i k v) \/ (r = ONoKV /\ aget m i = None)).
Proof.
  cbn [spec_step]. destruct r; try discriminate; intros H; apply guard_some in H; destruct H as (Hb & ->); split; auto.
  - left. exists k, v. split; auto. now apply holds_iff.
  - right. split; auto. destruct (aget m i); [discriminate | reflexivity].
Qed.

Lemma spec_contains cmp m o b m' :
  spec_step cmp m o (OBool b) = Some m' ->
  match o with
  | ContainsIndex i => m' = m /\ (b = true <-> exists k v, held m i k v)
  | ContainsKey k => m' = m /\ (b = true <-> exists j k' v', held m j k' v' /\ cmp k' k = 0)
  | ContainsValue v => m' = m /\ (b = true <-> exists j k', held m j k' v)
  | IsEmpty => m' = m /\ (b = true <-> held_count m = 0)
  | _ => True
  end.
Proof.
  destruct o; auto; cbn [spec_step]; intros H; apply guard_some in H; destruct H as (Hb & ->);
    apply Bool.eqb_prop in Hb; subst b; (split; [reflexivity|]).
  - unfold held. destruct (aget m i) as [[k v]|]; cbn; split; eauto; try discriminate. intros (? & ? & X); discriminate.
  - apply has_key_iff.
  - apply has_val_iff.
  - split; intros H; lia.
Qed.

Lemma spec_size cmp m n m' : spec_step cmp m Size (OInt n) = Some m' -> m' = m /\ n = held_count m.
Proof. cbn [spec_step]. intros H. apply guard_some in H. destruct H as (Hb & ->). split; auto. lia. Qed.
