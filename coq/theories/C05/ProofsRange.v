(** C05 — out-of-range indices are rejected with a false result, in every state (reachable or
    not) of the three models: no slice is touched. *)
From Algo.C05 Require Import Model.
From Coq Require Import Lia.
Open Scope Z_scope.

Definition cap_of (s : state) : Z :=
  match s with
  | SBin h => Z.of_nat (length (b_kvs h))
  | SBinom h => Z.of_nat (length (bm_nodes h))
  | SFib h => Z.of_nat (length (f_nodes h))
  end.

Lemma oor_test (i n : Z) : i < 0 \/ n <= i -> (0 <=? i) && (i <? n) = false.
Proof. intros [H | H]; [apply andb_false_intro1 | apply andb_false_intro2]; lia. Qed.

Lemma oor_test2 (i n : Z) : i < 0 \/ n <= i -> (i <? 0) || (n <=? i) = true.
Proof. intros [H | H]; apply orb_true_iff; [left | right]; lia. Qed.

Lemma out_of_range_rejected cmp s i :
  i < 0 \/ cap_of s <= i ->
  (forall k v, step cmp s (Insert i k v) = Ok (s, OBool false)) /\
  (forall k, step cmp s (ChangeKey i k) = Ok (s, OBool false)) /\
  step cmp s (DeleteIndex i) = Ok (s, ONoKV) /\
  step cmp s (PeekIndex i) = Ok (s, ONoKV) /\
  step cmp s (ContainsIndex i) = Ok (s, OBool false).
Proof.
  intros H. destruct s as [h | h | h]; cbn [cap_of] in H.
  - pose proof (oor_test _ _ H) as T. pose proof (oor_test2 _ _ H) as T2.
    cbn [step ibin_step].
    unfold ibin_insert, ibin_change_key, ibin_delete_index, ibin_peek_index, ModelBin.contains_index.
    rewrite T, T2. cbn. repeat split; reflexivity.
  - pose proof (oor_test _ _ H) as T. pose proof (oor_test2 _ _ H) as T2.
    cbn [step ibinom_step].
    unfold ibinom_insert, ibinom_change_key, ibinom_delete_index, ibinom_peek_index, ModelBinom.contains_index.
    rewrite T, T2. cbn. repeat split; reflexivity.
  - pose proof (oor_test _ _ H) as T. pose proof (oor_test2 _ _ H) as T2.
    cbn [step ifib_step].
    unfold ifib_insert, ifib_change_key, ifib_delete_index, ifib_peek_index, ModelFib.contains_index.
    rewrite T, T2. cbn. repeat split; reflexivity.
Qed.
