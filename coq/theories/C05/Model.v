(** C05 — the three indexed heaps behind one interface (used by the theorems and by the
    extracted driver).  No proofs here. *)
From Algo.C05 Require Export Base ModelBin ModelBinom ModelFib.
Open Scope Z_scope.

Inductive impl := IBin | IBinom | IFib.
Inductive state := SBin (h : ibin) | SBinom (h : ibinom) | SFib (h : ifib).

Definition new (i : impl) (cap : nat) : state :=
  match i with
  | IBin => SBin (ibin_new cap)
  | IBinom => SBinom (ibinom_new cap)
  | IFib => SFib (ifib_new cap)
  end.

Definition step (cmp : Z -> Z -> Z) (s : state) (o : op) : res (state * out) :=
  match s with
  | SBin h => '(h', r) <- ibin_step cmp h o ;; Ok (SBin h', r)
  | SBinom h => '(h', r) <- ibinom_step cmp h o ;; Ok (SBinom h', r)
  | SFib h => '(h', r) <- ifib_step cmp h o ;; Ok (SFib h', r)
  end.

(** outputs of a whole history; a panic or hang of any operation is the result of the run *)
Fixpoint run_from (cmp : Z -> Z -> Z) (s : state) (ops : list op) : res (list out) :=
  match ops with
  | [] => Ok []
  | o :: t => '(s', r) <- step cmp s o ;; rs <- run_from cmp s' t ;; Ok (r :: rs)
  end.

Definition run (cmp : Z -> Z -> Z) (i : impl) (cap : nat) (ops : list op) : res (list out) :=
  run_from cmp (new i cap) ops.

(** layout as printed by the hook VerifC05Dump *)
Inductive layout :=
| LBin (n : Z) (heap pos : list Z) (held : list bool)
| LForest (n : Z) (toks : list tok).

Definition layout_of (s : state) : layout :=
  match s with
  | SBin h => match ibin_dump h with (n, hp, ps, hd) => LBin n hp ps hd end
  | SBinom h => LForest (bm_n h) (dump (bm_head h))
  | SFib h => LForest (f_n h) (dump (f_ring h))
  end.
