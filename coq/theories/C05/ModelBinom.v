(** C05 — model of heap/indexed_binomial.go (after the fixes of D05a/D05b).

    The forest is the LCRS tree of Base.v ([d] = order, [m] unused).  Go nodes are mutable
    records reached through [nodes[i]]; the pure model reaches "the node that currently
    carries index i" by searching the forest for the (unique) index label, and [nodes] is
    reduced to its non-nil flags.  [swap(child, parent)] exchanges (index, key, val) of two
    nodes, so in the model contents move along the path while the shape stays. *)
From Algo.C05 Require Export Base.
Open Scope Z_scope.

Record ibinom := { bm_n : Z; bm_head : bt; bm_nodes : list bool }.

Definition ibinom_new (cap : nat) : ibinom :=
  {| bm_n := 0; bm_head := Leaf; bm_nodes := repeat false cap |}.

Section WithCmp.
Variable cmp : Z -> Z -> Z.

(** merge(h1, h2): merge of two root lists by order ([h1.order < h2.order] takes h1). *)
Fixpoint merge (h1 : bt) : bt -> bt :=
  fix aux (h2 : bt) : bt :=
    match h1, h2 with
    | Leaf, _ => h2
    | _, Leaf => h1
    | Nd c1 d1 m1 ch1 s1, Nd c2 d2 m2 ch2 s2 =>
        if d1 <? d2 then Nd c1 d1 m1 ch1 (merge s1 h2) else Nd c2 d2 m2 ch2 (aux s2)
    end.

(** consolidate: [cons_go curr rest] is the loop with [curr] detached from its sibling link.
    link(child, parent): child.sibling = parent.child; parent.child = child; parent.order++ *)
Fixpoint cons_go (cc : content) (cd : Z) (cm : bool) (cch : bt) (rest : bt) : bt :=
  match rest with
  | Leaf => Nd cc cd cm cch Leaf
  | Nd nc nd nm nch nsib =>
      let third := match nsib with Nd _ d3 _ _ _ => d3 =? cd | Leaf => false end in
      if negb (cd =? nd) || third then Nd cc cd cm cch (cons_go nc nd nm nch nsib)
      else if cmp (c_key nc) (c_key cc) >? 0 then cons_go cc (cd + 1) cm (Nd nc nd nm nch cch) nsib
      else cons_go nc (nd + 1) nm (Nd cc cd cm cch nch) nsib
  end.

Definition consolidate (head : bt) : bt :=
  match head with Leaf => Leaf | Nd c d m ch sib => cons_go c d m ch sib end.

Definition union (h1 h2 : bt) : bt := consolidate (merge h1 h2).

(** findExt: position (in the sibling chain) of the first node whose key is strictly smaller
    than every earlier one. *)
Fixpoint ext_from (best : nat) (bkey : Z) (pos : nat) (t : bt) : nat :=
  match t with
  | Leaf => best
  | Nd c _ _ _ sib =>
      if cmp (c_key c) bkey <? 0 then ext_from pos (c_key c) (S pos) sib
      else ext_from best bkey (S pos) sib
  end.
Definition ext_pos (t : bt) : option nat :=
  match t with Leaf => None | Nd c _ _ _ sib => Some (ext_from 0%nat (c_key c) 1%nat sib) end.

(** childrenToRootList: reverse the child list. *)
Fixpoint rev_chain (t acc : bt) : bt :=
  match t with Leaf => acc | Nd c d m ch sib => rev_chain sib (Nd c d m ch acc) end.

(** promote(n) for the node carrying index [i], as a recursion over the path to it:
    [prom force i pc t] works on the sibling chain [t] whose parent carries [pc] ([None] for
    the root list); it returns the new chain and [Some c] when the parent must take content
    [c] (a swap with the parent happened).  [force] = the unconditional bubbling of DeleteIndex. *)
Fixpoint prom (force : bool) (i : Z) (pc : option content) (t : bt) : option (bt * option content) :=
  match t with
  | Leaf => None
  | Nd c d m ch sib =>
      if c_idx c =? i then
        match pc with
        | Some p => if force || (cmp (c_key p) (c_key c) >? 0) then Some (Nd p d m ch sib, Some c)
                    else Some (t, None)
        | None => Some (t, None)
        end
      else
        match prom force i (Some c) ch with
        | Some (ch', Some c') =>
            match pc with
            | Some p => if force || (cmp (c_key p) (c_key c') >? 0) then Some (Nd p d m ch' sib, Some c')
                        else Some (Nd c' d m ch' sib, None)
            | None => Some (Nd c' d m ch' sib, None)
            end
        | Some (ch', None) => Some (Nd c d m ch' sib, None)
        | None =>
            match prom force i pc sib with
            | Some (sib', r) => Some (Nd c d m ch sib', r)
            | None => None
            end
        end
  end.

(** demote: [push a c k] gives content [a] to the k-th node of chain [c] and sifts it down
    (swap with the extremal child while that child's key is strictly smaller). *)
Definition chain_content (t : bt) (k : nat) : option content :=
  match chain_nth t k with Some r => Some (rt_c r) | None => None end.

Fixpoint push (a : content) (c : bt) (k : nat) {struct c} : bt :=
  match c with
  | Leaf => Leaf
  | Nd b d m bch bsib =>
      match k with
      | S k' => Nd b d m bch (push a bsib k')
      | O =>
          match ext_pos bch with
          | Some j =>
              match chain_content bch j with
              | Some e => if cmp (c_key e) (c_key a) <? 0 then Nd e d m (push a bch j) bsib
                          else Nd a d m bch bsib
              | None => Nd a d m bch bsib
              end
          | None => Nd a d m bch bsib
          end
      end
  end.

(** demote(n) for the node that carries index label [x]. *)
Fixpoint dem (x : Z) (t : bt) : bt :=
  match t with
  | Leaf => Leaf
  | Nd c d m ch sib =>
      if c_idx c =? x then push c t 0
      else match lookup x ch with
           | Some _ => Nd c d m (dem x ch) sib
           | None => Nd c d m ch (dem x sib)
           end
  end.

(** position in the root list of the root carrying index [i]
    (for prev, curr = nil, head; curr != n; ...: running off the list is a nil dereference). *)
Fixpoint root_pos (i : Z) (t : bt) (k : nat) : option nat :=
  match t with
  | Leaf => None
  | Nd c _ _ _ sib => if c_idx c =? i then Some k else root_pos i sib (S k)
  end.

Definition contains_index (h : ibinom) (i : Z) : bool :=
  (0 <=? i) && (i <? Z.of_nat (length (bm_nodes h))) && nth (Z.to_nat i) (bm_nodes h) false.

Definition ibinom_insert (h : ibinom) (i k v : Z) : res (ibinom * out) :=
  if (i <? 0) || (Z.of_nat (length (bm_nodes h)) <=? i) || contains_index h i then Ok (h, OBool false)
  else
    let hd := union (bm_head h) (Nd (i, k, v) 0 false Leaf Leaf) in
    nodes <- setR (bm_nodes h) i true ;;
    Ok ({| bm_n := bm_n h + 1; bm_head := hd; bm_nodes := nodes |}, OBool true).

Definition ibinom_change_key (h : ibinom) (i k : Z) : res (ibinom * out) :=
  if negb (contains_index h i) then Ok (h, OBool false)
  else
    match parent_of i None (bm_head h) with
    | None => Panic                       (* nodes[i] is not in the forest *)
    | Some pc =>
        let t1 := set_key i k (bm_head h) in
        match prom false i None t1 with
        | None => Panic
        | Some (t2, _) =>
            (* demote(n) acts on the node ChangeKey started from: after a first swap that
               node carries the former parent's content *)
            let x := match pc with
                     | Some p => if cmp (c_key p) k >? 0 then c_idx p else i
                     | None => i
                     end in
            Ok ({| bm_n := bm_n h; bm_head := dem x t2; bm_nodes := bm_nodes h |}, OBool true)
        end
    end.

(** remove the k-th root, turn its children into a root list, union *)
Definition remove_root (h : ibinom) (k : nat) : res (ibinom * content) :=
  match chain_nth (bm_head h) k with
  | None => Panic
  | Some r =>
      let hd := union (chain_remove (bm_head h) k) (rev_chain (rt_ch r) Leaf) in
      nodes <- setR (bm_nodes h) (c_idx (rt_c r)) false ;;
      Ok ({| bm_n := bm_n h - 1; bm_head := hd; bm_nodes := nodes |}, rt_c r)
  end.

Definition ibinom_delete (h : ibinom) : res (ibinom * out) :=
  match ext_pos (bm_head h) with
  | None => Ok (h, ONoEntry)
  | Some k => '(h', c) <- remove_root h k ;; Ok (h', OEntry (c_idx c) (c_key c) (c_val c))
  end.

Definition ibinom_delete_index (h : ibinom) (i : Z) : res (ibinom * out) :=
  if negb (contains_index h i) then Ok (h, ONoKV)
  else
    match prom true i None (bm_head h) with
    | None => Panic
    | Some (t1, _) =>
        match root_pos i t1 0%nat with
        | None => Panic
        | Some k =>
            '(h', c) <- remove_root {| bm_n := bm_n h; bm_head := t1; bm_nodes := bm_nodes h |} k ;;
            Ok (h', OKV (c_key c) (c_val c))
        end
    end.

Definition ibinom_delete_all (h : ibinom) : ibinom :=
  {| bm_n := 0; bm_head := Leaf; bm_nodes := repeat false (length (bm_nodes h)) |}.

Definition ibinom_peek (h : ibinom) : res out :=
  match ext_pos (bm_head h) with
  | None => Ok ONoEntry
  | Some k => match chain_content (bm_head h) k with
              | Some c => Ok (OEntry (c_idx c) (c_key c) (c_val c))
              | None => Panic
              end
  end.

Definition ibinom_peek_index (h : ibinom) (i : Z) : res out :=
  if negb (contains_index h i) then Ok ONoKV
  else match lookup i (bm_head h) with
       | Some c => Ok (OKV (c_key c) (c_val c))
       | None => Panic
       end.

Definition ibinom_step (h : ibinom) (o : op) : res (ibinom * out) :=
  match o with
  | Insert i k v => ibinom_insert h i k v
  | ChangeKey i k => ibinom_change_key h i k
  | Delete => ibinom_delete h
  | DeleteIndex i => ibinom_delete_index h i
  | DeleteAll => Ok (ibinom_delete_all h, OUnit)
  | Peek => r <- ibinom_peek h ;; Ok (h, r)
  | PeekIndex i => r <- ibinom_peek_index h i ;; Ok (h, r)
  | ContainsIndex i => Ok (h, OBool (contains_index h i))
  | ContainsKey k => b <- scan (fun c => cmp (c_key c) k =? 0) (bm_head h) (bm_nodes h) 0 ;; Ok (h, OBool b)
  | ContainsValue v => b <- scan (fun c => c_val c =? v) (bm_head h) (bm_nodes h) 0 ;; Ok (h, OBool b)
  | Size => Ok (h, OInt (bm_n h))
  | IsEmpty => Ok (h, OBool (match bm_head h with Leaf => true | _ => false end))
  end.

End WithCmp.
