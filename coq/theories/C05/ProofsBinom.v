(** C05 — proofs for the indexed binomial heap model (ModelBinom.v). *)
From Algo.C05 Require Import Base ModelBinom Spec ProofsBin ProofsTree.
From Coq Require Import Lia Permutation.
Open Scope Z_scope.

(** * shape-only facts (no comparator needed) *)
Lemma contents_set_key i k t :
  NoDup (idxs t) ->
  contents (set_key i k t) = map (fun c => if c_idx c =? i then (c_idx c, k, c_val c) else c) (contents t).
Proof.
  assert (Id : forall t, ~ In i (idxs t) ->
          map (fun c => if c_idx c =? i then (c_idx c, k, c_val c) else c) (contents t) = contents t).
  { intros t0 NI. rewrite <- (map_id (contents t0)) at 2. apply map_ext_in. intros c Hc.
    destruct (c_idx c =? i) eqn:E; auto. exfalso. apply NI, in_idxs. exists c. split; auto. lia. }
  induction t as [|c d m ch IHc sib IHs]; intros ND; [reflexivity|].
  destruct (idxs_nd_cons _ _ _ _ _ ND) as (NC & NS & N1 & N2 & DJ).
  cbn [set_key contents map]. destruct (c_idx c =? i) eqn:E.
  - cbn [contents]. rewrite map_app. assert (c_idx c = i) by lia. subst i. now rewrite !Id.
  - cbn [contents]. rewrite map_app, IHc, IHs; auto.
Qed.

Lemma chain_remove_perm t : forall k r, chain_nth t k = Some r ->
  Permutation (contents t) (rt_c r :: contents (rt_ch r) ++ contents (chain_remove t k)).
Proof.
  induction t as [|c d m ch IHc sib IHs]; intros k r H; [destruct k; discriminate|].
  destruct k as [|k]; cbn [chain_nth chain_remove contents] in *.
  - inversion H; subst. cbn. reflexivity.
  - specialize (IHs k r H). cbn [contents]. perm.
Qed.

Lemma chain_nth_in t : forall k r, chain_nth t k = Some r -> In r (to_list t).
Proof.
  induction t as [|c d m ch IHc sib IHs]; intros [|k] r H; cbn [chain_nth to_list] in *; try discriminate.
  - inversion H. now left.
  - right. eauto.
Qed.

Lemma rev_chain_perm t : forall acc, Permutation (contents (rev_chain t acc)) (contents t ++ contents acc).
Proof.
  induction t as [|c d m ch IHc sib IHs]; intros acc; cbn [rev_chain contents]; [reflexivity|].
  specialize (IHs (Nd c d m ch acc)). cbn [contents] in IHs. perm.
Qed.

Lemma merge_nd_nd c1 d1 m1 ch1 s1 c2 d2 m2 ch2 s2 :
  merge (Nd c1 d1 m1 ch1 s1) (Nd c2 d2 m2 ch2 s2) =
  if d1 <? d2 then Nd c1 d1 m1 ch1 (merge s1 (Nd c2 d2 m2 ch2 s2))
  else Nd c2 d2 m2 ch2 (merge (Nd c1 d1 m1 ch1 s1) s2).
Proof. reflexivity. Qed.

Lemma merge_perm a : forall b, Permutation (contents (merge a b)) (contents a ++ contents b).
Proof.
  induction a as [|c1 d1 m1 ch1 IHc s1 IHs]; intros b.
  - destruct b; reflexivity.
  - induction b as [|c2 d2 m2 ch2 IHc2 s2 IHs2]; [cbn; now rewrite app_nil_r|].
    rewrite merge_nd_nd. destruct (d1 <? d2).
    + specialize (IHs (Nd c2 d2 m2 ch2 s2)). cbn [contents] in *. perm.
    + cbn [contents] in *. perm.
Qed.

Section Binom.
Variable cmp : Z -> Z -> Z.
Hypothesis TP : TotalPreorder cmp.

Notation ho := (ho cmp).
Notation hoX := (hoX cmp).
Notation hoD := (hoD cmp).
Notation lble := (lble cmp).

Lemma cons_go_perm rest : forall cc cd cm cch,
  Permutation (contents (cons_go cmp cc cd cm cch rest)) (cc :: contents cch ++ contents rest).
Proof.
  induction rest as [|nc nd nm nch IHc nsib IHs]; intros cc cd cm cch; cbn [cons_go].
  - reflexivity.
  - destruct (negb (cd =? nd) || match nsib with Nd _ d3 _ _ _ => d3 =? cd | Leaf => false end).
    + specialize (IHs nc nd nm nch). cbn [contents]. perm.
    + destruct (cmp (c_key nc) (c_key cc) >? 0).
      * specialize (IHs cc (cd + 1) cm (Nd nc nd nm nch cch)). cbn [contents] in *. perm.
      * specialize (IHs nc (nd + 1) nm (Nd cc cd cm cch nch)). cbn [contents] in *. perm.
Qed.

Lemma union_perm a b : Permutation (contents (union cmp a b)) (contents a ++ contents b).
Proof.
  unfold union, consolidate. pose proof (merge_perm a b) as P.
  destruct (merge a b) as [|c d m ch sib]; [exact P|].
  pose proof (cons_go_perm sib c d m ch) as Q. cbn [contents] in *. perm.
Qed.

Lemma merge_ho a : forall b, ho None a -> ho None b -> ho None (merge a b).
Proof.
  induction a as [|c1 d1 m1 ch1 IHc s1 IHs]; intros b Ha Hb.
  - destruct b; auto.
  - induction b as [|c2 d2 m2 ch2 IHc2 s2 IHs2]; [auto|].
    rewrite merge_nd_nd. destruct (d1 <? d2).
    + cbn [ProofsTree.ho] in *. destruct Ha as (A1 & A2 & A3). repeat split; auto.
    + cbn [ProofsTree.ho] in Hb |- *. destruct Hb as (B1 & B2 & B3). repeat split; auto.
Qed.

Lemma cons_go_ho rest : forall cc cd cm cch,
  ho (Some (c_key cc)) cch -> ho None rest -> ho None (cons_go cmp cc cd cm cch rest).
Proof.
  induction rest as [|nc nd nm nch IHc nsib IHs]; intros cc cd cm cch Hc Hr; cbn [cons_go].
  - cbn. auto.
  - cbn [ProofsTree.ho] in Hr. destruct Hr as (_ & R2 & R3).
    destruct (negb (cd =? nd) || match nsib with Nd _ d3 _ _ _ => d3 =? cd | Leaf => false end).
    + cbn [ProofsTree.ho]. repeat split; auto.
    + destruct (cmp (c_key nc) (c_key cc) >? 0) eqn:C.
      * apply IHs; auto. cbn [ProofsTree.ho]. repeat split; auto. cbn.
        apply (cmp_lt_le cmp), (cmp_gt_lt cmp TP). lia.
      * apply IHs; auto. cbn [ProofsTree.ho]. repeat split; auto. cbn. lia.
Qed.

Lemma union_ho a b : ho None a -> ho None b -> ho None (union cmp a b).
Proof.
  intros Ha Hb. unfold union, consolidate. pose proof (merge_ho a b Ha Hb) as H.
  destruct (merge a b) as [|c d m ch sib]; auto. cbn [ProofsTree.ho] in H. destruct H as (_ & H2 & H3).
  now apply cons_go_ho.
Qed.

Lemma rev_chain_ho t : forall lb acc, ho lb t -> ho None acc -> ho None (rev_chain t acc).
Proof.
  induction t as [|c d m ch IHc sib IHs]; intros lb acc Ht Ha; cbn [rev_chain]; auto.
  cbn [ProofsTree.ho] in Ht. destruct Ht as (A & B & C). eapply IHs; eauto. cbn. auto.
Qed.

Lemma chain_remove_ho t : forall lb k, ho lb t -> ho lb (chain_remove t k).
Proof.
  induction t as [|c d m ch IHc sib IHs]; intros lb [|k] H; cbn [chain_remove]; auto.
  - cbn in H. tauto.
  - cbn [ProofsTree.ho] in *. destruct H as (A & B & C). auto.
Qed.

(** findExt: the chosen root is the first one no other root comes strictly before *)
Lemma ext_from_spec t : forall best bkey pos,
  (best < pos)%nat ->
  let k := ext_from cmp best bkey pos t in
  (k = best \/ exists r, chain_nth t (k - pos) = Some r /\ (pos <= k)%nat) /\
  (forall kk, (k = best -> kk = bkey) -> (forall r, (pos <= k)%nat -> chain_nth t (k - pos) = Some r -> kk = c_key (rt_c r)) ->
     cmp kk bkey <= 0 /\ forall r, In r (to_list t) -> cmp kk (c_key (rt_c r)) <= 0).
Proof.
  induction t as [|c d m ch IHc sib IHs]; intros best bkey pos Hb; cbn [ext_from]; cbv zeta.
  - split; [now left|]. intros kk E _. rewrite (E eq_refl). split; [rewrite (cmp_refl cmp TP); lia | intros r []].
  - destruct (cmp (c_key c) bkey <? 0) eqn:C.
    + specialize (IHs pos (c_key c) (S pos) ltac:(lia)). cbv zeta in IHs.
      set (k := ext_from cmp pos (c_key c) (S pos) sib) in *. destruct IHs as (W & M).
      split.
      * right. destruct W as [->|(r & Hr & Hk)].
        -- exists (c, d, m, ch). rewrite Nat.sub_diag. cbn. auto.
        -- exists r. split; [|lia]. replace (k - pos)%nat with (S (k - S pos)) by lia. exact Hr.
      * intros kk E1 E2. assert (Hk : (pos <= k)%nat) by (destruct W as [->|(r & _ & Hk)]; lia).
        assert (k <> best) by lia.
        destruct (M kk) as (M1 & M2).
        -- intros ->. specialize (E2 (c, d, m, ch) ltac:(lia)). rewrite Nat.sub_diag in E2. now apply E2.
        -- intros r Hk' Hr. apply E2; [lia|]. replace (k - pos)%nat with (S (k - S pos)) by lia. exact Hr.
        -- split.
           ++ eapply (cmp_tr cmp TP); [exact M1|]. lia.
           ++ intros r [<-|Hr]; [exact M1 | auto].
    + specialize (IHs best bkey (S pos) ltac:(lia)). cbv zeta in IHs.
      set (k := ext_from cmp best bkey (S pos) sib) in *. destruct IHs as (W & M).
      split.
      * destruct W as [->|(r & Hr & Hk)]; [now left|]. right. exists r. split; [|lia].
        replace (k - pos)%nat with (S (k - S pos)) by lia. exact Hr.
      * intros kk E1 E2. destruct (M kk) as (M1 & M2); auto.
        -- intros r Hk Hr. apply E2; [lia|]. replace (k - pos)%nat with (S (k - S pos)) by lia. exact Hr.
        -- split; auto. intros r [<-|Hr]; auto. cbn.
           eapply (cmp_tr cmp TP); [exact M1|]. apply (cmp_nlt_le cmp TP). lia.
Qed.

Lemma ext_pos_spec t k : ext_pos cmp t = Some k ->
  exists r, chain_nth t k = Some r /\ forall r', In r' (to_list t) -> cmp (c_key (rt_c r)) (c_key (rt_c r')) <= 0.
Proof.
  destruct t as [|c d m ch sib]; [discriminate|]. cbn [ext_pos]. intros H. injection H as E.
  pose proof (ext_from_spec sib 0%nat (c_key c) 1%nat ltac:(lia)) as S. cbv zeta in S. rewrite E in S.
  clear E. destruct S as (W & M).
  destruct W as [E|(r & Hr & Hk)].
  - subst k. exists (c, d, m, ch). split; [reflexivity|]. destruct (M (c_key c)) as (M1 & M2); auto.
    + intros r Hk. lia.
    + intros r' [<-|Hr']; auto.
  - exists r. split; [destruct k; [lia|]; cbn [chain_nth]; replace (S k - 1)%nat with k in Hr by lia; exact Hr|].
    destruct (M (c_key (rt_c r))) as (M1 & M2).
    + intros ->. lia.
    + intros r0 _ Hr0. congruence.
    + intros r' [<-|Hr']; auto.
Qed.

Lemma ext_pos_none t : ext_pos cmp t = None -> t = Leaf.
Proof. destruct t; [auto | discriminate]. Qed.

(** * promote *)
Lemma prom_notin force x : forall t pc, ~ In x (idxs t) -> prom cmp force x pc t = None.
Proof.
  induction t as [|c d m ch IHc sib IHs]; intros pc NI; [reflexivity|].
  unfold idxs in NI. cbn [contents map] in NI. rewrite map_app in NI.
  cbn [prom]. destruct (c_idx c =? x) eqn:E; [exfalso; apply NI; left; lia|].
  rewrite IHc by (intros H; apply NI; right; apply in_or_app; auto).
  rewrite IHs by (intros H; apply NI; right; apply in_or_app; auto). reflexivity.
Qed.

Lemma idxs_nd x c d m ch sib :
  In x (idxs (Nd c d m ch sib)) <-> x = c_idx c \/ In x (idxs ch) \/ In x (idxs sib).
Proof.
  unfold idxs. cbn [contents map In]. rewrite map_app, in_app_iff. intuition.
Qed.

Lemma parent_notin x : forall t pc, ~ In x (idxs t) -> parent_of x pc t = None.
Proof.
  induction t as [|c d m ch IHc sib IHs]; intros pc NI; [reflexivity|].
  rewrite idxs_nd in NI. cbn [parent_of]. destruct (c_idx c =? x) eqn:E; [exfalso; apply NI; left; lia|].
  rewrite IHc, IHs; auto.
Qed.

Lemma parent_isin x : forall t pc, In x (idxs t) -> exists r, parent_of x pc t = Some r.
Proof.
  induction t as [|c d m ch IHc sib IHs]; intros pc IN; [destruct IN|].
  apply idxs_nd in IN. cbn [parent_of]. destruct (c_idx c =? x) eqn:E; [eauto|].
  destruct IN as [IN|[IN|IN]]; [lia| |].
  - destruct (IHc (Some c) IN) as (r & ->). eauto.
  - destruct (parent_of x (Some c) ch); eauto.
Qed.

Definition okey (pc : option content) : option Z := option_map c_key pc.

Lemma ho_nd lb c d m ch sib : lble lb (c_key c) -> ho (Some (c_key c)) ch -> ho lb sib -> ho lb (Nd c d m ch sib).
Proof. intros. cbn [ProofsTree.ho]. auto. Qed.

Lemma lble_refl k : lble (Some k) k.
Proof. cbn. rewrite (cmp_refl cmp TP). lia. Qed.

Lemma prom_spec x : forall t pc,
  NoDup (idxs t) -> In x (idxs t) -> hoX x (okey pc) t ->
  exists t' r, prom cmp false x pc t = Some (t', r) /\
    match r with
    | Some c' => exists p, pc = Some p /\ cmp (c_key p) (c_key c') > 0 /\ ho (Some (c_key p)) t' /\
                           Permutation (c' :: contents t') (p :: contents t)
    | None => Permutation (contents t') (contents t) /\
              (ho (okey pc) t' \/
               (t' = t /\ hoD x (okey pc) t /\
                forall p cx, parent_of x pc t = Some (Some p) -> lookup x t = Some cx ->
                             ~ cmp (c_key p) (c_key cx) > 0))
    end.
Proof.
  induction t as [|c d m ch IHc sib IHs]; intros pc ND IN HX; [destruct IN|].
  destruct (idxs_nd_cons _ _ _ _ _ ND) as (NC & NS & N1 & N2 & DJ).
  cbn [prom hoX parent_of lookup] in *. destruct (c_idx c =? x) eqn:E.
  - (* the node itself *)
    destruct HX as (Hch & Hsib). assert (Ex : c_idx c = x) by lia.
    assert (Hs : ho (okey pc) sib) by (apply (hoX_notin cmp x); [now rewrite <- Ex | exact Hsib]).
    destruct pc as [p|]; cbn [okey option_map] in *.
    + destruct (cmp (c_key p) (c_key c) >? 0) eqn:C; cbn [orb].
      * eexists _, _. split; [reflexivity|]. exists p. split; [reflexivity|]. split; [lia|]. split.
        -- apply ho_nd; [apply lble_refl | exact Hch | exact Hs].
        -- cbn [contents]. perm.
      * eexists _, _. split; [reflexivity|]. split; [reflexivity|]. right. split; [reflexivity|]. split.
        -- cbn [ProofsTree.hoD]. rewrite E. split; [cbn; lia|]. split; [exact Hch|]. now apply ho_hoD.
        -- intros p0 cx H1 H2. inversion H1; inversion H2; subst. lia.
    + eexists _, _. split; [reflexivity|]. split; [reflexivity|]. right. split; [reflexivity|]. split.
      * cbn [ProofsTree.hoD]. rewrite E. split; [exact I|]. split; [exact Hch|]. now apply ho_hoD.
      * intros p0 cx H1. inversion H1.
  - destruct HX as (Hc & Hch & Hsib). apply idxs_nd in IN. destruct IN as [IN|[IN|IN]]; [lia| |].
    + (* below this node *)
      assert (NSx : ~ In x (idxs sib)) by (now apply DJ).
      assert (Hs : ho (okey pc) sib) by (apply (hoX_notin cmp x); auto).
      destruct (IHc (Some c) NC IN Hch) as (ch' & r' & P & R). rewrite P.
      destruct r' as [c'|].
      * destruct R as (p0 & Ep & Cc & Hch' & Pm). inversion Ep; subst p0; clear Ep.
        assert (Lc : cmp (c_key c') (c_key c) <= 0) by (apply (cmp_lt_le cmp), (cmp_gt_lt cmp TP); exact Cc).
        destruct pc as [p|]; cbn [okey option_map orb] in *.
        -- destruct (cmp (c_key p) (c_key c') >? 0) eqn:C.
           ++ eexists _, _. split; [reflexivity|]. exists p. split; [reflexivity|]. split; [lia|]. split.
              ** apply ho_nd; [apply lble_refl | eapply (ho_lower cmp TP); [exact Hc | exact Hch'] | exact Hs].
              ** cbn [contents]. perm.
           ++ eexists _, _. split; [reflexivity|]. split; [cbn [contents]; perm|]. left.
              apply ho_nd; [cbn; lia | eapply (ho_lower cmp TP); [exact Lc | exact Hch'] | exact Hs].
        -- eexists _, _. split; [reflexivity|]. split; [cbn [contents]; perm|]. left.
           apply ho_nd; [exact I | eapply (ho_lower cmp TP); [exact Lc | exact Hch'] | exact Hs].
      * destruct R as (Pm & R). eexists _, _. split; [reflexivity|]. split; [cbn [contents]; perm|].
        destruct R as [R | (-> & R1 & R2)].
        -- left. apply ho_nd; [exact Hc | exact R | exact Hs].
        -- right. split; [reflexivity|]. split.
           ++ cbn [ProofsTree.hoD]. rewrite E. split; [exact Hc|]. split; [exact R1|]. now apply ho_hoD.
           ++ intros p0 cx H1 H2. destruct (parent_isin x ch (Some c) IN) as (pp & PO). rewrite PO in H1.
              destruct (lookup_isin _ _ IN) as (cc & LK). rewrite LK in H2.
              inversion H1; inversion H2; subst. eapply R2; eauto.
    + (* further along the chain *)
      assert (NCx : ~ In x (idxs ch)) by (intros H; eapply DJ; eauto).
      assert (Hc' : ho (Some (c_key c)) ch) by (apply (hoX_notin cmp x); auto).
      rewrite (prom_notin false x ch (Some c) NCx).
      destruct (IHs pc NS IN Hsib) as (sib' & r & P & R). rewrite P.
      eexists _, _. split; [reflexivity|].
      rewrite (parent_notin x ch (Some c) NCx), (lookup_notin x ch NCx).
      destruct r as [c'|].
      * destruct R as (p & -> & Cc & Hs' & Pm). exists p. split; [reflexivity|]. split; [exact Cc|]. split.
        -- apply ho_nd; [|exact Hc'|exact Hs']. cbn in Hc |- *. exact Hc.
        -- cbn [contents]. perm.
      * destruct R as (Pm & R). split; [cbn [contents]; perm|].
        destruct R as [R | (-> & R1 & R2)].
        -- left. apply ho_nd; [exact Hc | exact Hc' | exact R].
        -- right. split; [reflexivity|]. split; [|exact R2].
           cbn [ProofsTree.hoD]. rewrite E. split; [exact Hc|]. split; [|exact R1]. apply (hoD_notin cmp x); auto.
Qed.

(** * demote *)
Fixpoint hoK (k : nat) (lb : option Z) (c : bt) {struct c} : Prop :=
  match c with
  | Leaf => True
  | Nd b _ _ bch bsib =>
      match k with
      | O => ho lb bch /\ ho lb bsib
      | S k' => lble lb (c_key b) /\ ho (Some (c_key b)) bch /\ hoK k' lb bsib
      end
  end.

Lemma ho_hoK : forall t j lb r,
  ho lb t -> chain_nth t j = Some r ->
  (forall r', In r' (to_list t) -> cmp (c_key (rt_c r)) (c_key (rt_c r')) <= 0) ->
  hoK j (Some (c_key (rt_c r))) t.
Proof.
  induction t as [|b d m bch IHc bsib IHs]; intros j lb r H N M; [exact I|].
  cbn [ProofsTree.ho] in H. destruct H as (A & B & C). cbn [to_list] in M.
  destruct j as [|j]; cbn [chain_nth hoK] in *.
  - inversion N; subst r. cbn [rt_c fst] in *. split; [exact B|].
    eapply ho_rebound; [exact C|]. intros r' Hr'. cbn. apply M. now right.
  - split; [cbn; apply (M (b, d, m, bch)); now left|]. split; [exact B|].
    eapply IHs; eauto. intros r' Hr'. apply M. now right.
Qed.

Lemma push_spec : forall c a k lb b0,
  chain_nth c k = Some b0 -> hoK k lb c -> lble lb (c_key a) ->
  ho lb (push cmp a c k) /\ Permutation (rt_c b0 :: contents (push cmp a c k)) (a :: contents c).
Proof.
  induction c as [|b d m bch IHc bsib IHs]; intros a k lb b0 N HK La; [destruct k; discriminate|].
  destruct k as [|k]; cbn [chain_nth hoK push] in *.
  - inversion N; subst b0; clear N. cbn [rt_c fst]. destruct HK as (Hch & Hsib).
    destruct (ext_pos cmp bch) as [j|] eqn:EP.
    + destruct (ext_pos_spec _ _ EP) as (r & Nr & Mr). unfold chain_content. rewrite Nr.
      destruct (cmp (c_key (rt_c r)) (c_key a) <? 0) eqn:C.
      * pose proof (ho_hoK _ _ _ _ Hch Nr Mr) as HK'.
        destruct (IHc a j (Some (c_key (rt_c r))) r Nr HK' ltac:(cbn; lia)) as (H1 & P1).
        split.
        -- apply ho_nd; [|exact H1|exact Hsib]. apply (ho_top cmp _ _ _ Hch (chain_nth_in _ _ _ Nr)).
        -- cbn [contents]. perm.
      * split; [|cbn [contents]; perm]. apply ho_nd; [exact La| |exact Hsib].
        eapply ho_rebound; [exact Hch|]. intros r' Hr'. cbn.
        eapply (cmp_tr cmp TP); [|apply Mr; exact Hr']. apply (cmp_nlt_le cmp TP). lia.
    + apply ext_pos_none in EP. subst bch. split; [|cbn [contents]; perm]. apply ho_nd; [exact La|exact I|exact Hsib].
  - destruct HK as (A & B & C). destruct (IHs a k lb b0 N C La) as (H1 & P1). split.
    + apply ho_nd; auto.
    + cbn [contents]. perm.
Qed.

Lemma dem_spec y : forall t lb,
  NoDup (idxs t) -> hoD y lb t -> ho lb (dem cmp y t) /\ Permutation (contents (dem cmp y t)) (contents t).
Proof.
  induction t as [|c d m ch IHc sib IHs]; intros lb ND HD; [split; [exact I | reflexivity]|].
  destruct (idxs_nd_cons _ _ _ _ _ ND) as (NC & NS & N1 & N2 & DJ).
  cbn [ProofsTree.hoD] in HD. destruct HD as (A & B & C). cbn [dem].
  destruct (c_idx c =? y) eqn:E.
  - assert (Hs : ho lb sib) by (apply (hoD_notin cmp y); [replace y with (c_idx c) by lia; exact N2 | exact C]).
    destruct (push_spec (Nd c d m ch sib) c 0%nat lb (c, d, m, ch) eq_refl (conj B Hs) A) as (H1 & P1).
    split; [exact H1|]. cbn [rt_c fst] in P1. perm.
  - destruct (lookup y ch) as [cy|] eqn:L.
    + assert (INy : In y (idxs ch)).
      { destruct (lookup_in _ _ _ L) as (Hc & Ec). apply in_idxs. eauto. }
      assert (Hs : ho lb sib) by (apply (hoD_notin cmp y); [now apply DJ | exact C]).
      destruct (IHc (Some (c_key c)) NC B) as (H1 & P1). split.
      * apply ho_nd; auto.
      * cbn [contents]. perm.
    + assert (NIy : ~ In y (idxs ch)).
      { intros H. destruct (lookup_isin _ _ H). congruence. }
      assert (Hc : ho (Some (c_key c)) ch) by (apply (hoD_notin cmp y); auto).
      destruct (IHs lb NS C) as (H1 & P1). split.
      * apply ho_nd; auto.
      * cbn [contents]. perm.
Qed.

(** * the unconditional bubbling of DeleteIndex *)
Lemma bubble_spec x : forall t p,
  NoDup (idxs t) -> In x (idxs t) -> ho (Some (c_key p)) t ->
  exists t' cx, prom cmp true x (Some p) t = Some (t', Some cx) /\ lookup x t = Some cx /\
                ho (Some (c_key p)) t' /\ Permutation (cx :: contents t') (p :: contents t).
Proof.
  induction t as [|c d m ch IHc sib IHs]; intros p ND IN H; [destruct IN|].
  destruct (idxs_nd_cons _ _ _ _ _ ND) as (NC & NS & N1 & N2 & DJ).
  cbn [ProofsTree.ho] in H. destruct H as (A & B & C).
  cbn [prom lookup]. destruct (c_idx c =? x) eqn:E; cbn [orb].
  - eexists _, _. split; [reflexivity|]. split; [reflexivity|]. split.
    + apply ho_nd; [apply lble_refl | eapply (ho_lower cmp TP); [exact A | exact B] | exact C].
    + cbn [contents]. perm.
  - apply idxs_nd in IN. destruct IN as [IN|[IN|IN]]; [lia| |].
    + destruct (IHc c NC IN B) as (ch' & cx & P & L & H' & Pm). rewrite P, L.
      eexists _, _. split; [reflexivity|]. split; [reflexivity|]. split.
      * apply ho_nd; [apply lble_refl | eapply (ho_lower cmp TP); [exact A | exact H'] | exact C].
      * cbn [contents]. perm.
    + assert (NCx : ~ In x (idxs ch)) by (intros X; eapply DJ; eauto).
      rewrite (prom_notin true x ch (Some c) NCx), (lookup_notin x ch NCx).
      destruct (IHs p NS IN C) as (sib' & cx & P & L & H' & Pm). rewrite P, L.
      eexists _, _. split; [reflexivity|]. split; [reflexivity|]. split.
      * apply ho_nd; auto.
      * cbn [contents]. perm.
Qed.

Lemma bubble_root x : forall t k0,
  NoDup (idxs t) -> In x (idxs t) -> ho None t ->
  exists t' k r, prom cmp true x None t = Some (t', None) /\ root_pos x t' k0 = Some (k0 + k)%nat /\
                 chain_nth t' k = Some r /\ lookup x t = Some (rt_c r) /\
                 Permutation (contents t') (contents t) /\
                 ho None (chain_remove t' k) /\ ho None (rt_ch r).
Proof.
  induction t as [|c d m ch IHc sib IHs]; intros k0 ND IN H; [destruct IN|].
  destruct (idxs_nd_cons _ _ _ _ _ ND) as (NC & NS & N1 & N2 & DJ).
  cbn [ProofsTree.ho] in H. destruct H as (_ & B & C).
  cbn [prom lookup]. destruct (c_idx c =? x) eqn:E.
  - exists (Nd c d m ch sib), 0%nat, (c, d, m, ch). cbn [root_pos chain_nth chain_remove rt_c rt_ch fst snd].
    rewrite E, Nat.add_0_r. repeat split; auto. eapply ho_none; eauto.
  - apply idxs_nd in IN. destruct IN as [IN|[IN|IN]]; [lia| |].
    + destruct (bubble_spec x ch c NC IN B) as (ch' & cx & P & L & H' & Pm). rewrite P, L.
      exists (Nd cx d m ch' sib), 0%nat, (cx, d, m, ch'). cbn [root_pos chain_nth chain_remove rt_c rt_ch fst snd].
      destruct (lookup_in _ _ _ L) as (_ & Ex). replace (c_idx cx =? x) with true by lia.
      rewrite Nat.add_0_r. split; [reflexivity|]. split; [reflexivity|]. split; [reflexivity|]. split; [reflexivity|].
      split; [cbn [contents]; perm|]. split; [exact C|]. eapply ho_none; eauto.
    + assert (NCx : ~ In x (idxs ch)) by (intros X; eapply DJ; eauto).
      rewrite (prom_notin true x ch (Some c) NCx), (lookup_notin x ch NCx).
      destruct (IHs (S k0) NS IN C) as (sib' & k & r & P & RP & CN & L & Pm & H1 & H2). rewrite P.
      exists (Nd c d m ch sib'), (S k), r. cbn [root_pos chain_nth chain_remove]. rewrite E.
      split; [reflexivity|]. split; [rewrite RP; f_equal; lia|]. split; [exact CN|]. split; [exact L|].
      split; [cbn [contents]; perm|]. split; [|exact H2]. apply ho_nd; [exact I | exact B | exact H1].
Qed.

(** * set_key *)
Lemma set_key_facts i k t k0 v :
  NoDup (idxs t) -> In (i, k0, v) (contents t) ->
  idxs (set_key i k t) = idxs t /\
  (forall c, In c (contents (set_key i k t)) <-> (c = (i, k, v) \/ (In c (contents t) /\ c_idx c <> i))).
Proof.
  intros ND H. rewrite (contents_set_key i k t ND). unfold idxs. rewrite (contents_set_key i k t ND). split.
  - rewrite map_map. apply map_ext. intros c. destruct (c_idx c =? i); reflexivity.
  - intros c. rewrite in_map_iff. split.
    + intros (c0 & E & H0). destruct (c_idx c0 =? i) eqn:Ei.
      * left. assert (c0 = (i, k0, v)) by (eapply NoDup_idx_inj; eauto; cbn; lia). subst. reflexivity.
      * right. subst. split; auto. lia.
    + intros [-> | (Hc & N)].
      * exists (i, k0, v). split; auto. cbn [c_idx fst]. now rewrite Z.eqb_refl.
      * exists c. split; auto. destruct (c_idx c =? i) eqn:Ei; [lia | reflexivity].
Qed.

Lemma parent_of_set_key i k : forall t pc, parent_of i pc (set_key i k t) = parent_of i pc t.
Proof.
  induction t as [|c d m ch IHc sib IHs]; intros pc; [reflexivity|].
  cbn [set_key]. destruct (c_idx c =? i) eqn:E.
  - cbn [parent_of c_idx fst]. now rewrite E.
  - cbn [parent_of]. now rewrite E, IHc, IHs.
Qed.

(** * counting *)
Lemma held_count_zero (m : amap) : (forall j, (j < length m)%nat -> nth j m None = None) -> held_count m = 0.
Proof.
  induction m as [|o m IH]; intros H; [reflexivity|]. rewrite held_count_cons.
  rewrite (H 0%nat ltac:(cbn; lia) : o = None). cbn [is_some]. rewrite IH; [lia|].
  intros j Hj. apply (H (S j)). cbn. lia.
Qed.

Lemma held_count_pos (m : amap) j kv : (j < length m)%nat -> nth j m None = Some kv -> 0 < held_count m.
Proof.
  revert j; induction m as [|o m IH]; intros [|j] Hj E; cbn [length nth] in *; try lia.
  - subst. rewrite held_count_cons. pose proof (held_count_bounds m). cbn [is_some]. lia.
  - rewrite held_count_cons. specialize (IH j ltac:(lia) E). destruct (is_some o); lia.
Qed.

Lemma Rep_leaf_iff t nodes n m : Rep t nodes n m -> (t = Leaf <-> n = 0).
Proof.
  intros (A & B & ND & M). split.
  - intros ->. rewrite B. apply held_count_zero. intros j Hj.
    destruct (nth j m None) as [kv|] eqn:E; auto. exfalso.
    apply (proj2 (M (Z.of_nat j, fst kv, snd kv))). cbn [c_idx c_key c_val fst snd]. split; [lia|].
    unfold mget. rewrite Nat2Z.id, E. now destruct kv.
  - intros N0. destruct t as [|c d mm ch sib]; auto. exfalso.
    destruct (proj1 (M c) ltac:(now left)) as (R & G). unfold mget in G.
    pose proof (held_count_pos m (Z.to_nat (c_idx c)) _ ltac:(lia) G). lia.
Qed.

Lemma contents_roots t c : In c (contents t) ->
  exists r, In r (to_list t) /\ (c = rt_c r \/ In c (contents (rt_ch r))).
Proof.
  induction t as [|c0 d m ch IHc sib IHs]; intros H; [destruct H|].
  cbn [contents to_list] in *. destruct H as [<-|H].
  - exists (c0, d, m, ch). split; [now left | now left].
  - apply in_app_or in H. destruct H as [H|H].
    + exists (c0, d, m, ch). split; [now left | now right].
    + destruct (IHs H) as (r & Hr & X). exists r. split; [now right | exact X].
Qed.

(** the key of the root chosen by findExt bounds every key of the map *)
Lemma extremal_ext t nodes n m r :
  Rep t nodes n m -> ho None t -> In r (to_list t) ->
  (forall r', In r' (to_list t) -> cmp (c_key (rt_c r)) (c_key (rt_c r')) <= 0) ->
  extremal cmp m (c_key (rt_c r)) = true.
Proof.
  intros R H Hr Min. unfold extremal. apply forallb_forall. intros o Ho. destruct o as [kv|]; auto.
  destruct (In_nth _ _ None Ho) as (j & Hj & E).
  assert (G : aget m (Z.of_nat j) = Some kv).
  { rewrite aget_mget by lia. unfold mget. now rewrite Nat2Z.id. }
  destruct (Rep_lookup _ _ _ _ _ _ R G) as (_ & _ & Hc).
  destruct (contents_roots _ _ Hc) as (r' & Hr' & X). apply Z.leb_le.
  specialize (Min r' Hr'). destruct X as [X|X].
  - rewrite <- X in Min. cbn [c_key fst snd] in Min. exact Min.
  - destruct (ho_top cmp _ _ _ H Hr') as (_ & H').
    pose proof (ho_all cmp TP _ _ H' _ X) as B. cbn [c_key fst snd] in B.
    eapply (cmp_tr cmp TP); eauto.
Qed.

(** * the operations *)
Definition InvB (h : ibinom) (m : amap) : Prop :=
  Rep (bm_head h) (bm_nodes h) (bm_n h) m /\ ho None (bm_head h).

Lemma contains_index_B h m i : InvB h m -> ModelBinom.contains_index h i = is_some (aget m i).
Proof. intros ((A & _) & _). unfold ModelBinom.contains_index. rewrite A. apply flag_spec. Qed.

Lemma nodes_len h m : InvB h m -> length (bm_nodes h) = length m.
Proof. intros ((A & _) & _). rewrite A. apply map_length. Qed.

Lemma holds_in t nodes n m c : Rep t nodes n m -> In c (contents t) -> holds m (c_idx c) (c_key c) (c_val c) = true.
Proof. intros R H. destruct (Rep_in _ _ _ _ _ R H) as (_ & G). unfold holds. rewrite G. cbn. now rewrite !Z.eqb_refl. Qed.

Lemma remove_root_spec h m k r :
  Rep (bm_head h) (bm_nodes h) (bm_n h) m -> chain_nth (bm_head h) k = Some r ->
  ho None (chain_remove (bm_head h) k) -> ho None (rt_ch r) ->
  exists h', remove_root cmp h k = Ok (h', rt_c r) /\ InvB h' (aset m (c_idx (rt_c r)) None).
Proof.
  intros R N H1 H2. unfold remove_root. rewrite N.
  pose proof (chain_remove_perm _ _ _ N) as P.
  assert (Hc : In (rt_c r) (contents (bm_head h))) by (eapply Permutation_in; [apply Permutation_sym, P | now left]).
  destruct (Rep_in _ _ _ _ _ R Hc) as (Ri & _).
  assert (NL : length (bm_nodes h) = length m) by (destruct R as (A & _); rewrite A; apply map_length).
  rewrite <- NL in Ri.
  rewrite setR_ok by lia. cbn [bind]. eexists. split; [reflexivity|]. split; cbn [bm_head bm_nodes bm_n].
  - eapply Rep_remove; [exact R|].
    pose proof (union_perm (chain_remove (bm_head h) k) (rev_chain (rt_ch r) Leaf)) as U.
    pose proof (rev_chain_perm (rt_ch r) Leaf) as V. cbn [contents] in V. perm.
  - apply union_ho; [exact H1|]. eapply rev_chain_ho; [exact H2 | constructor].
Qed.

Lemma step_spec_B h m o :
  InvB h m ->
  exists h' r m', ibinom_step cmp h o = Ok (h', r) /\ spec_step cmp m o r = Some m' /\ InvB h' m'.
Proof.
  intros I. pose proof I as (R & H). pose proof (nodes_len _ _ I) as NL.
  destruct o as [i k v | i k | | i | | | i | i | k | v | | ]; cbn [ibinom_step].
  - (* Insert *)
    unfold ibinom_insert. rewrite (contains_index_B _ _ _ I), NL. cbn [spec_step]. unfold in_range.
    destruct ((i <? 0) || (Z.of_nat (length m) <=? i)) eqn:OOR; cbn [orb].
    { exists h, (OBool false), m. split; [reflexivity|]. split; [|exact I].
      replace ((0 <=? i) && (i <? Z.of_nat (length m))) with false by lia. reflexivity. }
    replace ((0 <=? i) && (i <? Z.of_nat (length m))) with true by lia.
    destruct (is_some (aget m i)) eqn:Held; cbn [negb andb].
    { exists h, (OBool false), m. split; [reflexivity|]. split; [reflexivity | exact I]. }
    assert (G : aget m i = None) by (destruct (aget m i); [discriminate | reflexivity]).
    rewrite setR_ok by lia. cbn [bind].
    eexists _, (OBool true), _. split; [reflexivity|]. split; [reflexivity|]. split; cbn [bm_head bm_nodes bm_n].
    + eapply Rep_insert; eauto; [lia|].
      pose proof (union_perm (bm_head h) (Nd (i, k, v) 0 false Leaf Leaf)) as U. cbn [contents] in U. perm.
    + apply union_ho; [exact H|]. cbn. auto.
  - (* ChangeKey *)
    unfold ibinom_change_key. rewrite (contains_index_B _ _ _ I). cbn [spec_step].
    destruct (aget m i) as [kv|] eqn:G; cbn [is_some negb].
    2:{ exists h, (OBool false), m. split; [reflexivity|]. split; [reflexivity | exact I]. }
    destruct (Rep_lookup _ _ _ _ _ _ R G) as (Ri & L & Hc).
    pose proof R as (_ & _ & ND & _).
    assert (INi : In i (idxs (bm_head h))) by (apply in_idxs; eexists; split; [exact Hc | reflexivity]).
    destruct (parent_isin i _ None INi) as (pc0 & PO). rewrite PO.
    destruct (set_key_facts i k _ _ _ ND Hc) as (IE & CI).
    set (t1 := set_key i k (bm_head h)) in *.
    assert (ND1 : NoDup (idxs t1)) by now rewrite IE.
    assert (IN1 : In i (idxs t1)) by now rewrite IE.
    assert (HX : hoX i (okey None) t1) by (apply set_key_hoX; [exact TP | exact H]).
    destruct (prom_spec i t1 None ND1 IN1 HX) as (t2 & r & P & Post). rewrite P.
    destruct r as [c'|]; [destruct Post as (p & Ep & _); discriminate|].
    destruct Post as (Pm & Post). cbn [okey option_map] in Post.
    set (y := match pc0 with Some p => if cmp (c_key p) k >? 0 then c_idx p else i | None => i end).
    assert (ND2 : NoDup (idxs t2)).
    { unfold idxs in *. eapply Permutation_NoDup; [apply Permutation_sym, Permutation_map, Pm | exact ND1]. }
    assert (HD : hoD y None t2).
    { destruct Post as [Hf | (-> & Hd & Pc)]; [now apply (ho_hoD cmp TP)|].
      assert (L1 : lookup i t1 = Some (i, k, snd kv)).
      { apply (lookup_unique t1 (i, k, snd kv) ND1). apply CI. now left. }
      unfold t1 in Pc. rewrite parent_of_set_key in Pc. fold t1 in Pc.
      replace y with i; [exact Hd|]. unfold y. destruct pc0 as [p|]; auto.
      specialize (Pc p _ PO L1). cbn [c_key fst snd] in Pc.
      destruct (cmp (c_key p) k >? 0) eqn:C; [lia | reflexivity]. }
    destruct (dem_spec y t2 None ND2 HD) as (H3 & P3).
    eexists _, (OBool true), _. split; [reflexivity|]. split; [reflexivity|].
    split; cbn [bm_head bm_nodes bm_n]; [|exact H3].
    eapply Rep_perm; [|eapply (Rep_change _ t1); eauto].
    transitivity (contents t2); [apply Permutation_sym, Pm | apply Permutation_sym, P3].
  - (* Delete *)
    unfold ibinom_delete. destruct (ext_pos cmp (bm_head h)) as [k|] eqn:EP.
    + destruct (ext_pos_spec _ _ EP) as (r & N & Min).
      pose proof (chain_nth_in _ _ _ N) as Hr. destruct (ho_top cmp _ _ _ H Hr) as (_ & Hch).
      destruct (remove_root_spec h m k r R N (chain_remove_ho _ _ _ H) (ho_none cmp _ _ Hch)) as (h' & RR & I').
      rewrite RR. cbn [bind]. eexists _, _, _. split; [reflexivity|]. split; [|exact I'].
      cbn [spec_step].
      assert (Hc : In (rt_c r) (contents (bm_head h))).
      { eapply Permutation_in; [apply Permutation_sym, (chain_remove_perm _ _ _ N) | now left]. }
      rewrite (holds_in _ _ _ _ _ R Hc), (extremal_ext _ _ _ _ _ R H Hr Min). reflexivity.
    + apply ext_pos_none in EP. exists h, ONoEntry, m. split; [reflexivity|]. split; [|exact I].
      cbn [spec_step]. destruct R as (_ & B & _). pose proof (proj1 (Rep_leaf_iff _ _ _ _ (proj1 I)) EP) as N0.
      rewrite <- B, N0. reflexivity.
  - (* DeleteIndex *)
    unfold ibinom_delete_index. rewrite (contains_index_B _ _ _ I). cbn [spec_step].
    destruct (aget m i) as [kv|] eqn:G; cbn [is_some negb].
    2:{ exists h, ONoKV, m. split; [reflexivity|]. split; [|exact I]. cbn [spec_step]. try rewrite G. reflexivity. }
    destruct (Rep_lookup _ _ _ _ _ _ R G) as (Ri & L & Hc).
    pose proof R as (_ & _ & ND & _).
    assert (INi : In i (idxs (bm_head h))) by (apply in_idxs; eexists; split; [exact Hc | reflexivity]).
    destruct (bubble_root i _ 0%nat ND INi H) as (t1 & k & r & P & RP & CN & Lr & Pm & H1 & H2).
    rewrite P, RP. cbn [Nat.add].
    set (h1 := {| bm_n := bm_n h; bm_head := t1; bm_nodes := bm_nodes h |}).
    assert (R1 : Rep (bm_head h1) (bm_nodes h1) (bm_n h1) m).
    { cbn [bm_head bm_nodes bm_n h1]. eapply Rep_perm; [apply Permutation_sym, Pm | exact R]. }
    destruct (remove_root_spec h1 m k r R1 CN H1 H2) as (h' & RR & I').
    rewrite RR. cbn [bind]. rewrite L in Lr. inversion Lr as [Er].
    eexists _, _, _. split; [reflexivity|].
    rewrite <- Er in I'. cbn [c_idx c_key c_val fst snd] in *.
    split; [|exact I']. cbn [spec_step]. unfold holds. rewrite G, !Z.eqb_refl. reflexivity.
  - (* DeleteAll *)
    exists (ibinom_delete_all h), OUnit, (repeat None (length m)). split; [reflexivity|]. split; [reflexivity|].
    unfold ibinom_delete_all. rewrite NL. split; cbn [bm_head bm_nodes bm_n]; [apply Rep_empty | constructor].
  - (* Peek *)
    unfold ibinom_peek. destruct (ext_pos cmp (bm_head h)) as [k|] eqn:EP.
    + destruct (ext_pos_spec _ _ EP) as (r & N & Min). unfold chain_content. rewrite N. cbn [bind].
      pose proof (chain_nth_in _ _ _ N) as Hr.
      assert (Hc : In (rt_c r) (contents (bm_head h))).
      { eapply Permutation_in; [apply Permutation_sym, (chain_remove_perm _ _ _ N) | now left]. }
      eexists h, _, m. split; [reflexivity|]. split; [|exact I]. cbn [spec_step].
      rewrite (holds_in _ _ _ _ _ R Hc), (extremal_ext _ _ _ _ _ R H Hr Min). reflexivity.
    + apply ext_pos_none in EP. exists h, ONoEntry, m. cbn [bind]. split; [reflexivity|]. split; [|exact I].
      cbn [spec_step]. pose proof R as (_ & B & _). pose proof (proj1 (Rep_leaf_iff _ _ _ _ R) EP) as N0.
      rewrite <- B, N0. reflexivity.
  - (* PeekIndex *)
    unfold ibinom_peek_index. rewrite (contains_index_B _ _ _ I).
    destruct (aget m i) as [kv|] eqn:G; cbn [is_some negb].
    + destruct (Rep_lookup _ _ _ _ _ _ R G) as (Ri & L & Hc). rewrite L. cbn [bind c_key c_val fst snd].
      eexists h, _, m. split; [reflexivity|]. split; [|exact I]. cbn [spec_step].
      unfold holds. rewrite G, !Z.eqb_refl. reflexivity.
    + exists h, ONoKV, m. cbn [bind]. split; [reflexivity|]. split; [|exact I]. cbn [spec_step]. try rewrite G. reflexivity.
  - eexists h, _, m. split; [reflexivity|]. split; [|exact I]. cbn [spec_step].
    rewrite (contains_index_B _ _ _ I). now rewrite Bool.eqb_reflx.
  - rewrite (scan_rep (fun k' _ => cmp k' k =? 0) _ _ _ _ R). cbn [bind].
    eexists h, _, m. split; [reflexivity|]. split; [|exact I]. cbn [spec_step]. unfold has_key. now rewrite Bool.eqb_reflx.
  - rewrite (scan_rep (fun _ v' => v' =? v) _ _ _ _ R). cbn [bind].
    eexists h, _, m. split; [reflexivity|]. split; [|exact I]. cbn [spec_step]. unfold has_val. now rewrite Bool.eqb_reflx.
  - eexists h, _, m. split; [reflexivity|]. split; [|exact I]. cbn [spec_step].
    destruct R as (_ & B & _). rewrite <- B, Z.eqb_refl. reflexivity.
  - eexists h, _, m. split; [reflexivity|]. split; [|exact I]. cbn [spec_step].
    pose proof (Rep_leaf_iff _ _ _ _ R) as LI. pose proof R as (_ & B & _). rewrite <- B.
    destruct (bm_head h) eqn:Eh.
    + rewrite (proj1 LI eq_refl). reflexivity.
    + destruct (bm_n h =? 0) eqn:N0; [|reflexivity]. assert (bm_n h = 0) by lia.
      destruct LI as (_ & LI). specialize (LI H0). discriminate.
Qed.

End Binom.
