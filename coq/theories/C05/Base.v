(** C05 — common definitions of the indexed-heap models (no proofs here).

    Conventions: Go [int] is [Z]; keys and values are [Z]; the comparator [cmp] is an
    arbitrary function [Z -> Z -> Z] (negative / zero / positive), a parameter of every
    operation; value equality is [Z.eqb].  Slices are lists; an out-of-range slice access
    and a nil dereference are the result [Panic]; loops without a structural argument run on
    fuel and fuel exhaustion is the result [Hang]. *)
From Coq Require Export List ZArith Bool.
Export ListNotations.
Open Scope Z_scope.

Inductive res (A : Type) : Type := Ok (a : A) | Panic | Hang.
Arguments Ok {A} a.
Arguments Panic {A}.
Arguments Hang {A}.

Definition bind {A B} (r : res A) (f : A -> res B) : res B :=
  match r with Ok a => f a | Panic => Panic | Hang => Hang end.
Notation "x <- e ;; f" := (bind e (fun x => f)) (at level 61, e at next level, right associativity).
Notation "' p <- e ;; f" := (bind e (fun p => f)) (at level 61, p pattern, e at next level, right associativity).

(** Operations of [heap.IndexedHeap] and their observable results. *)
Inductive op :=
| Insert (i k v : Z) | ChangeKey (i k : Z) | Delete | DeleteIndex (i : Z) | DeleteAll
| Peek | PeekIndex (i : Z) | ContainsIndex (i : Z) | ContainsKey (k : Z) | ContainsValue (v : Z)
| Size | IsEmpty.

Inductive out :=
| OBool (b : bool)            (* Insert, ChangeKey, ContainsIndex/Key/Value, IsEmpty *)
| OEntry (i k v : Z)          (* Peek/Delete: (i, k, v, true) *)
| ONoEntry                    (* Peek/Delete: (-1, zero, zero, false) *)
| OKV (k v : Z)               (* PeekIndex/DeleteIndex: (k, v, true) *)
| ONoKV                       (* PeekIndex/DeleteIndex: (zero, zero, false) *)
| OUnit                       (* DeleteAll *)
| OInt (n : Z).               (* Size *)

(** The two comparators the harness uses (generic.NewCompareFunc[int] and its inverse). *)
Definition cmp_min (a b : Z) : Z := match a ?= b with Lt => -1 | Eq => 0 | Gt => 1 end.
Definition cmp_max (a b : Z) : Z := cmp_min b a.
(** comparators that return magnitudes (the contract of generic.CompareFunc is only
    negative / zero / positive): a - b, 3 * (a - b) and the reversed b - a *)
Definition cmp_sub (a b : Z) : Z := a - b.
Definition cmp_sub3 (a b : Z) : Z := 3 * (a - b).
Definition cmp_rsub (a b : Z) : Z := b - a.

(** Checked slice access. *)
Definition getR {A} (l : list A) (i : Z) : res A :=
  if i <? 0 then Panic else match nth_error l (Z.to_nat i) with Some x => Ok x | None => Panic end.

Fixpoint upd {A} (l : list A) (i : nat) (v : A) : list A :=
  match l, i with
  | [], _ => []
  | _ :: t, O => v :: t
  | h :: t, S i' => h :: upd t i' v
  end.

Definition setR {A} (l : list A) (i : Z) (v : A) : res (list A) :=
  if (i <? 0) || (Z.of_nat (length l) <=? i) then Panic else Ok (upd l (Z.to_nat i) v).

Definition in_range {A} (l : list A) (i : Z) : bool := (0 <=? i) && (i <? Z.of_nat (length l)).

(** A heap entry: (index, key, value). *)
Notation content := (Z * Z * Z)%type (only parsing).
Definition c_idx (c : content) : Z := fst (fst c).
Definition c_key (c : content) : Z := snd (fst c).
Definition c_val (c : content) : Z := snd c.

(** Left-child/right-sibling trees, exactly the Go node layout without the back pointers
    ([parent], [prev]): [d] is [order] (binomial) or [degree] (Fibonacci), [m] is [mark]
    (always [false] for binomial nodes).  A sibling chain is the root list / child list of
    the binomial heap, and a circular ring read from its entry pointer for the Fibonacci heap. *)
Inductive bt := Leaf | Nd (c : content) (d : Z) (m : bool) (ch sib : bt).

(** A tree without its sibling link. *)
Definition rt := (content * Z * bool * bt)%type.
Definition rt_c (r : rt) : content := fst (fst (fst r)).
Definition rt_d (r : rt) : Z := snd (fst (fst r)).
Definition rt_m (r : rt) : bool := snd (fst r).
Definition rt_ch (r : rt) : bt := snd r.

Fixpoint to_list (t : bt) : list rt :=
  match t with Leaf => [] | Nd c d m ch sib => (c, d, m, ch) :: to_list sib end.
Fixpoint of_list (l : list rt) : bt :=
  match l with [] => Leaf | (c, d, m, ch) :: r => Nd c d m ch (of_list r) end.

(** All entries of a forest, pre-order. *)
Fixpoint contents (t : bt) : list content :=
  match t with Leaf => [] | Nd c _ _ ch sib => c :: contents ch ++ contents sib end.

(** Entry carrying index [i] (first in pre-order). *)
Fixpoint lookup (i : Z) (t : bt) : option content :=
  match t with
  | Leaf => None
  | Nd c _ _ ch sib =>
      if c_idx c =? i then Some c
      else match lookup i ch with Some r => Some r | None => lookup i sib end
  end.

Fixpoint chain_nth (t : bt) (k : nat) : option rt :=
  match t, k with
  | Leaf, _ => None
  | Nd c d m ch _, O => Some (c, d, m, ch)
  | Nd _ _ _ _ sib, S k' => chain_nth sib k'
  end.
Fixpoint chain_remove (t : bt) (k : nat) : bt :=
  match t, k with
  | Leaf, _ => Leaf
  | Nd _ _ _ _ sib, O => sib
  | Nd c d m ch sib, S k' => Nd c d m ch (chain_remove sib k')
  end.


(** n.key = key for the node carrying index [i]. *)
Fixpoint set_key (i k : Z) (t : bt) : bt :=
  match t with
  | Leaf => Leaf
  | Nd c d m ch sib =>
      if c_idx c =? i then Nd (c_idx c, k, c_val c) d m ch sib
      else Nd c d m (set_key i k ch) (set_key i k sib)
  end.

(** content of the parent of the node carrying index [i] ([pc] = content above this chain). *)
Fixpoint parent_of (i : Z) (pc : option content) (t : bt) : option (option content) :=
  match t with
  | Leaf => None
  | Nd c _ _ ch sib =>
      if c_idx c =? i then Some pc
      else match parent_of i (Some c) ch with
           | Some r => Some r
           | None => parent_of i pc sib
           end
  end.


(** [for i := 0; i < len(nodes); i++ { if nodes[i] != nil && test(nodes[i]) ... }] over a forest:
    [held] are the non-nil flags of [nodes]; a held index without a node is a nil dereference. *)
Fixpoint scan (test : content -> bool) (t : bt) (held : list bool) (i : Z) : res bool :=
  match held with
  | [] => Ok false
  | false :: r => scan test t r (i + 1)
  | true :: r =>
      match lookup i t with
      | None => Panic
      | Some c => if test c then Ok true else scan test t r (i + 1)
      end
  end.

(** Dump of a forest in the format of the hook [VerifC05Dump]: a list of tokens. *)
Inductive tok := TOpen (c : content) (d : Z) (m : bool) | TClose.
Fixpoint dump (t : bt) : list tok :=
  match t with
  | Leaf => []
  | Nd c d m ch sib => TOpen c d m :: dump ch ++ TClose :: dump sib
  end.
