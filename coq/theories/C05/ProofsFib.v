(** C05 — proofs for the indexed Fibonacci heap model (ModelFib.v): every run that does not
    end in [Panic]/[Hang] is a valid trace of the index map (heap order, index map, extremal
    entry pointer).  The missing part (no [Panic]: degree bound of consolidate; no [Hang]:
    fuel) is stated in Properties/C05.v. *)
From Algo.C05 Require Import Base ModelFib Spec ProofsBin ProofsTree ProofsBinom.
From Coq Require Import Lia Permutation.
Open Scope Z_scope.

(** * rings as lists of trees *)
Definition rcont (r : rt) : list content := rt_c r :: contents (rt_ch r).
Definition lcontents (l : list rt) : list content := flat_map rcont l.
Definition labels (l : list rt) : list Z := map rt_idx l.

Lemma of_to t : of_list (to_list t) = t.
Proof. induction t as [|c d m ch _ sib IH]; cbn; [reflexivity | now rewrite IH]. Qed.

Lemma to_of l : to_list (of_list l) = l.
Proof. induction l as [|[[[c d] m] ch] l IH]; cbn; [reflexivity | now rewrite IH]. Qed.

Lemma contents_of_list l : contents (of_list l) = lcontents l.
Proof.
  induction l as [|[[[c d] m] ch] l IH]; cbn [of_list contents lcontents flat_map]; [reflexivity|].
  unfold rcont at 1. cbn [rt_c rt_ch fst snd app]. unfold lcontents in IH. now rewrite IH.
Qed.

Lemma contents_to_list t : lcontents (to_list t) = contents t.
Proof. rewrite <- contents_of_list. now rewrite of_to. Qed.

Lemma lcontents_app l1 l2 : lcontents (l1 ++ l2) = lcontents l1 ++ lcontents l2.
Proof. apply flat_map_app. Qed.

Lemma lcontents_perm l1 l2 : Permutation l1 l2 -> Permutation (lcontents l1) (lcontents l2).
Proof. apply Permutation_flat_map. Qed.

Lemma labels_sub l : forall x, In x (labels l) -> In x (map c_idx (lcontents l)).
Proof.
  intros x H. unfold labels in H. apply in_map_iff in H. destruct H as (r & <- & Hr).
  apply in_map_iff. exists (rt_c r). split; [reflexivity|]. unfold lcontents. apply in_flat_map.
  exists r. split; auto. now left.
Qed.

Lemma labels_nodup l : NoDup (map c_idx (lcontents l)) -> NoDup (labels l).
Proof.
  induction l as [|r l IH]; intros ND; [constructor|].
  cbn [lcontents flat_map] in ND. rewrite map_app in ND. destruct (NoDup_app_inv _ _ ND) as (N1 & N2 & DJ).
  cbn [labels map]. constructor; [|now apply IH].
  intros H. apply (DJ (rt_idx r)); [cbn; now left | now apply labels_sub].
Qed.

Lemma ring_find_in x l r : ring_find x l = Some r -> In r l /\ rt_idx r = x.
Proof.
  induction l as [|a l IH]; cbn [ring_find]; [discriminate|]. destruct (rt_idx a =? x) eqn:E.
  - intros H. inversion H; subst. split; [now left | lia].
  - intros H. destruct (IH H). split; [now right | auto].
Qed.

Lemma ring_find_some x l : In x (labels l) -> exists r, ring_find x l = Some r.
Proof.
  induction l as [|a l IH]; cbn [labels map In ring_find]; [contradiction|]. intros [E|H].
  - replace (rt_idx a =? x) with true by lia. eauto.
  - destruct (rt_idx a =? x); eauto.
Qed.

Lemma ring_find_unique x l r : NoDup (labels l) -> In r l -> rt_idx r = x -> ring_find x l = Some r.
Proof.
  induction l as [|a l IH]; intros ND H E; [destruct H|]. cbn [labels map] in ND.
  apply NoDup_cons_iff in ND as (NI & ND). cbn [ring_find]. destruct H as [->|H].
  - replace (rt_idx r =? x) with true by lia. reflexivity.
  - destruct (rt_idx a =? x) eqn:Ea; [|auto]. exfalso. apply NI. replace (rt_idx a) with x by lia.
    rewrite <- E. unfold labels. now apply in_map.
Qed.

Lemma ring_remove_perm x l r : ring_find x l = Some r -> Permutation l (r :: ring_remove x l).
Proof.
  induction l as [|a l IH]; cbn [ring_find ring_remove]; [discriminate|]. destruct (rt_idx a =? x).
  - intros H. inversion H. reflexivity.
  - intros H. rewrite (IH H) at 1. apply perm_swap.
Qed.

Lemma ring_update_perm x f l r : ring_find x l = Some r -> Permutation (ring_update x f l) (f r :: ring_remove x l).
Proof.
  induction l as [|a l IH]; cbn [ring_find ring_update ring_remove]; [discriminate|]. destruct (rt_idx a =? x).
  - intros H. inversion H. reflexivity.
  - intros H. rewrite (IH H). apply perm_swap.
Qed.

Lemma ring_find_remove_other x y l : x <> y -> ring_find y (ring_remove x l) = ring_find y l.
Proof.
  intros N. induction l as [|a l IH]; cbn [ring_remove ring_find]; [reflexivity|].
  destruct (rt_idx a =? x) eqn:Ex.
  - destruct (rt_idx a =? y) eqn:Ey; [lia | reflexivity].
  - cbn [ring_find]. now rewrite IH.
Qed.

(** rotation *)
Lemma rotate_go_spec x : forall l acc l', rotate_go x l acc = Some l' ->
  exists A r B, l = A ++ r :: B /\ rt_idx r = x /\ l' = (r :: B) ++ rev acc ++ A.
Proof.
  induction l as [|a l IH]; intros acc l' H; cbn [rotate_go] in H; [discriminate|].
  destruct (rt_idx a =? x) eqn:E.
  - inversion H; subst. exists [], a, l. cbn. rewrite app_nil_r. split; [reflexivity|]. split; [lia | reflexivity].
  - destruct (IH _ _ H) as (A & r & B & -> & Er & ->). exists (a :: A), r, B. split; [reflexivity|]. split; [exact Er|].
    cbn [rev]. rewrite <- !app_assoc. reflexivity.
Qed.

Lemma rotate_to_spec x l l' : rotate_to x l = Some l' ->
  exists A r B, l = A ++ r :: B /\ rt_idx r = x /\ l' = (r :: B) ++ A.
Proof.
  intros H. destruct (rotate_go_spec x l [] l' H) as (A & r & B & E1 & E2 & E3). cbn [rev app] in E3.
  exists A, r, B. auto.
Qed.

Lemma rotate_to_perm x l l' : rotate_to x l = Some l' -> Permutation l' l.
Proof.
  intros H. destruct (rotate_to_spec _ _ _ H) as (A & r & B & -> & _ & ->). apply Permutation_app_comm.
Qed.

Lemma rotate_to_some x l : In x (labels l) -> exists l', rotate_to x l = Some l'.
Proof.
  unfold rotate_to. generalize (@nil rt) as acc. induction l as [|a l IH]; intros acc H; [destruct H|].
  cbn [rotate_go]. destruct (rt_idx a =? x) eqn:E; [eauto|]. apply IH.
  cbn [labels map In] in H. destruct H; [lia | auto].
Qed.

(** successor in the ring *)
Lemma ring_next_go_split x first : forall A r B,
  ~ In x (labels A) -> rt_idx r = x ->
  ring_next_go x first (A ++ r :: B) = Some (match B with b :: _ => rt_idx b | [] => first end).
Proof.
  induction A as [|a A IH]; intros r B NI E; cbn [app ring_next_go].
  - replace (rt_idx r =? x) with true by lia. reflexivity.
  - cbn [labels map In] in NI. destruct (rt_idx a =? x) eqn:Ea; [exfalso; apply NI; left; lia|].
    apply IH; auto.
Qed.

Definition hd_label (l : list rt) (d : Z) : Z := match l with r :: _ => rt_idx r | [] => d end.

Lemma ring_next_split x A r B :
  ~ In x (labels A) -> rt_idx r = x ->
  ring_next x (A ++ r :: B) = Some (match B with b :: _ => rt_idx b | [] => hd_label A x end).
Proof.
  intros NI E. unfold ring_next. destruct A as [|a A].
  - cbn [app]. pose proof (ring_next_go_split x (rt_idx r) [] r B NI E) as H. cbn [app] in H. rewrite H.
    destruct B; cbn; congruence.
  - cbn [app]. change (a :: A ++ r :: B) with ((a :: A) ++ r :: B). now rewrite ring_next_go_split.
Qed.

Lemma labels_app l1 l2 : labels (l1 ++ l2) = labels l1 ++ labels l2.
Proof. apply map_app. Qed.

Lemma ring_next_rot x A B :
  NoDup (labels (A ++ B)) -> In x (labels (A ++ B)) -> ring_next x (A ++ B) = ring_next x (B ++ A).
Proof.
  intros ND IN. rewrite labels_app in *. destruct (NoDup_app_inv _ _ ND) as (NA & NB & DJ).
  apply in_app_or in IN. destruct IN as [IN|IN].
  - (* x in A *)
    unfold labels in IN. apply in_map_iff in IN. destruct IN as (r & E & Hr).
    apply in_split in Hr. destruct Hr as (A1 & A2 & ->).
    assert (N1 : ~ In x (labels A1)).
    { rewrite labels_app in NA. destruct (NoDup_app_inv _ _ NA) as (_ & _ & D). intros H. apply (D x H). cbn. left. exact E. }
    assert (NBx : ~ In x (labels B)).
    { apply DJ. rewrite labels_app. apply in_or_app. right. cbn. left. exact E. }
    rewrite <- app_assoc. cbn [app]. rewrite (ring_next_split x A1 r (A2 ++ B) N1 E).
    rewrite app_assoc. rewrite (ring_next_split x (B ++ A1) r A2); [|rewrite labels_app; intros H; apply in_app_or in H; tauto|exact E].
    destruct A2 as [|a A2]; cbn [app]; [|reflexivity].
    destruct B as [|b B]; cbn [app hd_label]; reflexivity.
  - (* x in B *)
    unfold labels in IN. apply in_map_iff in IN. destruct IN as (r & E & Hr).
    apply in_split in Hr. destruct Hr as (B1 & B2 & ->).
    assert (N1 : ~ In x (labels B1)).
    { rewrite labels_app in NB. destruct (NoDup_app_inv _ _ NB) as (_ & _ & D). intros H. apply (D x H). cbn. left. exact E. }
    assert (NAx : ~ In x (labels A)).
    { intros H. apply (DJ x H). rewrite labels_app. apply in_or_app. right. cbn. left. exact E. }
    rewrite app_assoc. rewrite (ring_next_split x (A ++ B1) r B2); [|rewrite labels_app; intros H; apply in_app_or in H; tauto|exact E].
    rewrite <- app_assoc. cbn [app]. rewrite (ring_next_split x B1 r (B2 ++ A) N1 E).
    destruct B2 as [|b B2]; cbn [app]; [|reflexivity].
    destruct A as [|a A]; cbn [app hd_label]; reflexivity.
Qed.

Section Fib.
Variable cmp : Z -> Z -> Z.
Hypothesis TP : TotalPreorder cmp.

Notation ho := (ho cmp).
Notation lble := (lble cmp).

Definition rkey (r : rt) : Z := c_key (rt_c r).
Definition rok (r : rt) : Prop := ho (Some (rkey r)) (rt_ch r).
Definition Good (l : list rt) : Prop := Forall rok l /\ NoDup (map c_idx (lcontents l)).

Lemma ho_of_list lb l : ho lb (of_list l) <-> Forall (fun r => lble lb (rkey r) /\ rok r) l.
Proof.
  induction l as [|[[[c d] m] ch] l IH]; cbn [of_list ProofsTree.ho]; [split; auto|].
  rewrite IH. split.
  - intros (A & B & C). constructor; auto.
  - intros H. inversion H as [|? ? (A & B) C]; subst. auto.
Qed.

Lemma Good_perm l l' : Permutation l l' -> Good l -> Good l'.
Proof.
  intros P (F & ND). split.
  - eapply Permutation_Forall; eauto.
  - eapply Permutation_NoDup; [apply Permutation_map, lcontents_perm, P | exact ND].
Qed.

(** linking [rx] under [ry] (ry's key not after rx's) *)
Lemma link_good l x y rx ry :
  Good l -> x <> y -> ring_find x l = Some rx -> ring_find y l = Some ry -> cmp (rkey ry) (rkey rx) <= 0 ->
  let l2 := ring_update y (fun r => (rt_c r, rt_d r + 1, rt_m r, nd_of rx (rt_ch r))) (ring_remove x l) in
  Good l2 /\ Permutation (lcontents l2) (lcontents l) /\
  (forall z, z <> x -> In z (labels l) -> In z (labels l2)) /\
  ring_find y l2 = Some (rt_c ry, rt_d ry + 1, rt_m ry, nd_of rx (rt_ch ry)).
Proof.
  intros (F & ND) N Fx Fy C l2.
  assert (Fy' : ring_find y (ring_remove x l) = Some ry) by (rewrite ring_find_remove_other; auto).
  pose proof (ring_remove_perm _ _ _ Fx) as P1.
  pose proof (ring_update_perm y (fun r => (rt_c r, rt_d r + 1, rt_m r, nd_of rx (rt_ch r))) _ _ Fy') as P2.
  pose proof (ring_remove_perm _ _ _ Fy') as P3. fold l2 in P2.
  set (ry' := (rt_c ry, rt_d ry + 1, rt_m ry, nd_of rx (rt_ch ry))) in *.
  set (rest := ring_remove y (ring_remove x l)) in *.
  assert (PL : Permutation l (rx :: ry :: rest)) by (rewrite P1 at 1; now rewrite P3 at 1).
  assert (PC : Permutation (lcontents l2) (lcontents l)).
  { rewrite (lcontents_perm _ _ P2), (lcontents_perm _ _ PL).
    cbn [lcontents flat_map]. unfold rcont, ry', nd_of. cbn [rt_c rt_ch fst snd contents]. perm. }
  assert (FL : Forall rok (rx :: ry :: rest)) by (eapply Permutation_Forall; eauto).
  inversion FL as [|? ? Rx FL']; subst. inversion FL' as [|? ? Ry FR]; subst.
  split; [split|split; [exact PC|split]].
  - eapply Permutation_Forall; [apply Permutation_sym, P2|]. constructor; [|exact FR].
    unfold rok, ry', rkey, nd_of in *. cbn [rt_c rt_ch fst snd ProofsTree.ho]. repeat split; auto.
  - eapply Permutation_NoDup; [apply Permutation_sym, Permutation_map, PC | exact ND].
  - intros z Nz Hz. unfold labels in *. eapply Permutation_in; [apply Permutation_sym, Permutation_map, P2|].
    eapply Permutation_in in Hz; [|apply Permutation_map, PL]. cbn [map In] in *.
    destruct (ring_find_in _ _ _ Fx) as (_ & Ex). destruct Hz as [Hz|[Hz|Hz]]; [congruence | left; exact Hz | right; exact Hz].
  - pose proof (labels_nodup _ ND) as NL.
    assert (NL2 : NoDup (labels l2)).
    { apply labels_nodup. eapply Permutation_NoDup; [apply Permutation_sym, Permutation_map, PC | exact ND]. }
    apply ring_find_unique; auto.
    + eapply Permutation_in; [apply Permutation_sym, P2 | now left].
    + destruct (ring_find_in _ _ _ Fy) as (_ & Ey). exact Ey.
Qed.

(** * consolidate *)
Definition reg (roots : list (option Z)) (r : rt) : Prop := getR roots (rt_d r) = Ok (Some (rt_idx r)).

Lemma cons_inner_spec : forall fuel l roots x linked l1 roots1 x1 linked1,
  cons_inner cmp fuel l roots x linked = Ok (l1, roots1, x1, linked1) ->
  Good l ->
  Good l1 /\ Permutation (lcontents l1) (lcontents l) /\
  (exists rx1, ring_find x1 l1 = Some rx1 /\
               (getR roots1 (rt_d rx1) = Ok None \/ getR roots1 (rt_d rx1) = Ok (Some x1))) /\
  (linked1 = false -> l1 = l /\ roots1 = roots /\ x1 = x /\ linked = false).
Proof.
  induction fuel as [|f IH]; intros l roots x linked l1 roots1 x1 linked1 H G; cbn [cons_inner] in H; [discriminate|].
  destruct (ring_find x l) as [rx|] eqn:Fx; [|discriminate].
  destruct (getR roots (rt_d rx)) as [y| |] eqn:Gy; cbn [bind] in H; try discriminate.
  destruct y as [yl|].
  2:{ inversion H; subst. split; [auto|]. split; [reflexivity|]. split; [eauto|]. auto. }
  destruct (yl =? x) eqn:Eyx.
  { inversion H; subst. split; [auto|]. split; [reflexivity|]. split; [|auto].
    exists rx. split; auto. right. rewrite Gy. do 2 f_equal. lia. }
  destruct (setR roots (rt_d rx) None) as [roots'| |] eqn:Sr; cbn [bind] in H; try discriminate.
  destruct (ring_find yl l) as [ry|] eqn:Fy; [|discriminate].
  assert (Nxy : x <> yl) by lia.
  destruct (cmp (c_key (rt_c rx)) (c_key (rt_c ry)) >? 0) eqn:C.
  - assert (Cle : cmp (rkey ry) (rkey rx) <= 0).
    { apply (cmp_lt_le cmp), (cmp_gt_lt cmp TP). unfold rkey. lia. }
    destruct (link_good l x yl rx ry G Nxy Fx Fy Cle) as (G2 & P2 & _ & _).
    destruct (IH _ _ _ _ _ _ _ _ H G2) as (G1 & P1 & E1 & L1).
    split; [exact G1|]. split; [now rewrite P1|]. split; [exact E1|].
    intros ->. destruct (L1 eq_refl) as (_ & _ & _ & X). discriminate.
  - assert (Cle : cmp (rkey rx) (rkey ry) <= 0) by (unfold rkey; lia).
    destruct (link_good l yl x ry rx G ltac:(lia) Fy Fx Cle) as (G2 & P2 & _ & _).
    destruct (IH _ _ _ _ _ _ _ _ H G2) as (G1 & P1 & E1 & L1).
    split; [exact G1|]. split; [now rewrite P1|]. split; [exact E1|].
    intros ->. destruct (L1 eq_refl) as (_ & _ & _ & X). discriminate.
Qed.

Lemma getR_setR_same {A} (l l' : list A) i v : setR l i v = Ok l' -> getR l' i = Ok v.
Proof.
  unfold setR. destruct ((i <? 0) || (Z.of_nat (length l) <=? i)) eqn:E; [discriminate|]. intros H. inversion H; subst.
  rewrite (getR_zn _ i v) by (rewrite length_upd; lia). f_equal. apply zn_upd_same. lia.
Qed.

Lemma getR_setR_other {A} (l l' : list A) i j v : setR l i v = Ok l' -> i <> j -> getR l' j = getR l j.
Proof.
  unfold setR. destruct ((i <? 0) || (Z.of_nat (length l) <=? i)) eqn:E; [discriminate|]. intros H N. inversion H; subst.
  unfold getR. destruct (j <? 0) eqn:Ej; [reflexivity|].
  assert (nth_error (upd l (Z.to_nat i) v) (Z.to_nat j) = nth_error l (Z.to_nat j)).
  { assert (Z.to_nat i <> Z.to_nat j) by lia. revert H0. generalize (Z.to_nat i) (Z.to_nat j). clear.
    induction l as [|a l IH]; intros [|a'] [|b'] N; cbn; auto; try lia. }
  now rewrite H0.
Qed.

Lemma hd_label_app l c post d : hd_label (l ++ c :: post) d = hd_label (l ++ [c]) d.
Proof. destruct l; reflexivity. Qed.

Lemma cons_outer_spec : forall fuel l roots curr stop l1 roots1,
  cons_outer cmp fuel l roots curr stop = Ok (l1, roots1) ->
  Good l ->
  (exists A B pre c post, l = A ++ B /\ B ++ A = pre ++ c :: post /\ hd_label (pre ++ c :: post) 0 = stop /\
                          rt_idx c = curr /\ Forall (reg roots) pre) ->
  Good l1 /\ Permutation (lcontents l1) (lcontents l) /\ Forall (reg roots1) l1.
Proof.
  induction fuel as [|f IH]; intros l roots curr stop l1 roots1 H G INV; cbn [cons_outer] in H; [discriminate|].
  destruct (cons_inner cmp (S (length l)) l roots curr false) as [[[[l' roots'] x] linked]| |] eqn:CI; cbn [bind] in H; try discriminate.
  destruct (cons_inner_spec _ _ _ _ _ _ _ _ _ CI G) as (G' & P' & (rx1 & Fx1 & EX) & LK).
  rewrite Fx1 in H.
  destruct (setR roots' (rt_d rx1) (Some x)) as [roots2| |] eqn:SR; cbn [bind] in H; try discriminate.
  destruct (ring_next x l') as [nx|] eqn:RN; [|discriminate].
  pose proof (labels_nodup _ (proj2 G')) as NL'.
  destruct (ring_find_in _ _ _ Fx1) as (Inx & Ex1).
  assert (REGx : reg roots2 rx1) by (unfold reg; rewrite Ex1; eapply getR_setR_same; eauto).
  destruct linked.
  - (* a link happened: restart from x *)
    clear LK INV. apply in_split in Inx. destruct Inx as (A' & B' & EL).
    assert (NA : ~ In x (labels A')).
    { rewrite EL, labels_app in NL'. destruct (NoDup_app_inv _ _ NL') as (_ & _ & D). intros X. apply (D x X). cbn. left. exact Ex1. }
    rewrite EL in RN. rewrite (ring_next_split x A' rx1 B' NA Ex1) in RN. inversion RN as [Enx]; clear RN.
    destruct (nx =? x) eqn:T.
    + inversion H; subst l1 roots1. split; [exact G'|]. split; [exact P'|].
      (* the ring is the single root x *)
      assert (B' = [] /\ A' = []) as (-> & ->).
      { rewrite EL, labels_app in NL'. destruct (NoDup_app_inv _ _ NL') as (_ & NB & D). cbn [labels map] in NB.
        apply NoDup_cons_iff in NB as (NB1 & _).
        destruct B' as [|b B']; [|exfalso; apply NB1; cbn; left; lia].
        split; auto. destruct A' as [|a A']; auto. exfalso. apply NA. cbn. left. cbn in Enx. lia. }
      rewrite EL. cbn. constructor; auto.
    + assert (R : Good l1 /\ Permutation (lcontents l1) (lcontents l') /\ Forall (reg roots1) l1);
        [apply (IH _ _ _ _ _ _ H G')|destruct R as (G1 & P1 & F1); split; [exact G1|]; split; [now rewrite P1|exact F1]].
      * (* ghost: the ring read from x *)
        destruct (B' ++ A') as [|c' post] eqn:EBA.
        { exfalso. apply app_eq_nil in EBA. destruct EBA as (-> & ->). cbn in Enx. lia. }
        exists A', (rx1 :: B'), [rx1], c', post. split; [exact EL|]. split; [cbn; now rewrite EBA|].
        split; [cbn; exact Ex1|]. split; [|constructor; auto].
        destruct B' as [|b B'']; cbn [app] in EBA.
        -- destruct A' as [|a A'']; [discriminate|]. inversion EBA; subst. reflexivity.
        -- inversion EBA; subst. reflexivity.
  - (* no link: x = curr, the table only gains x *)
    destruct (LK eq_refl) as (-> & -> & -> & _). clear LK.
    destruct INV as (A & B & pre & c & post & EL & ER & HS & Ec & FR).
    pose proof (labels_nodup _ (proj2 G)) as NL.
    assert (NR : NoDup (labels (pre ++ c :: post))).
    { rewrite <- ER. rewrite EL in NL. unfold labels in *. eapply Permutation_NoDup; [|exact NL].
      apply Permutation_map, Permutation_app_comm. }
    assert (Erc : rx1 = c).
    { assert (Inc : In c l) by (rewrite EL; eapply Permutation_in; [apply Permutation_app_comm|]; rewrite ER; apply in_or_app; right; now left).
      pose proof (ring_find_unique curr l c NL Inc Ec) as U. congruence. }
    subst rx1.
    assert (Npre : ~ In curr (labels pre)).
    { rewrite labels_app in NR. destruct (NoDup_app_inv _ _ NR) as (_ & _ & D). intros X. apply (D curr X). cbn. left. exact Ec. }
    assert (FR2 : Forall (reg roots2) (pre ++ [c])).
    { apply Forall_app. split; [|constructor; auto].
      rewrite Forall_forall in *. intros r Hr. specialize (FR r Hr). unfold reg in *.
      destruct (Z.eq_dec (rt_d c) (rt_d r)) as [Ed|Nd].
      - exfalso. rewrite <- Ed in FR. apply Npre. destruct EX as [EX|EX]; rewrite EX in FR; [discriminate|].
        inversion FR as [E']. unfold labels. now apply in_map.
      - rewrite (getR_setR_other _ _ _ _ _ SR Nd). exact FR. }
    assert (ENX : nx = match post with b :: _ => rt_idx b | [] => hd_label pre curr end).
    { rewrite EL in RN. rewrite ring_next_rot in RN; [|rewrite <- EL; exact NL|].
      - rewrite ER in RN. rewrite (ring_next_split curr pre c post Npre Ec) in RN. now inversion RN.
      - rewrite <- EL. unfold labels. rewrite <- Ec. now apply in_map. }
    destruct (nx =? stop) eqn:T.
    + inversion H; subst l1 roots1. split; [exact G|]. split; [reflexivity|].
      destruct post as [|b post'].
      * rewrite Forall_forall in *. intros r Hr. apply FR2. rewrite <- ER.
        rewrite EL in Hr. eapply Permutation_in; [apply Permutation_app_comm | exact Hr].
      * (* the successor cannot be the head of the ring *)
        exfalso. rewrite labels_app in NR. cbn [labels map] in NR.
        assert (Hb : rt_idx b = stop) by lia.
        destruct pre as [|p pre']; cbn [hd_label app] in HS.
        -- apply NoDup_cons_iff in NR as (NR1 & _). apply NR1. cbn. left. lia.
        -- destruct (NoDup_app_inv _ _ NR) as (_ & _ & D). apply (D stop); [cbn; left; exact HS|].
           cbn. right. left. exact Hb.
    + destruct post as [|b post'].
      * exfalso. destruct pre as [|p pre']; cbn [hd_label app] in *; lia.
      * apply (IH _ _ _ _ _ _ H G). exists A, B, (pre ++ [c]), b, post'.
        split; [exact EL|]. split; [rewrite ER, <- app_assoc; reflexivity|]. split; [|split; [lia | exact FR2]].
        rewrite <- HS. destruct pre; reflexivity.
Qed.

Definition ext_ok (l : list rt) : Prop :=
  match l with [] => True | e :: _ => Forall (fun r => cmp (rkey e) (rkey r) <= 0) l end.

Lemma pick_roots_spec l : forall roots e ekey e',
  pick_roots cmp l e ekey roots = Ok e' ->
  (exists re, ring_find e l = Some re /\ rkey re = ekey) ->
  exists re', ring_find e' l = Some re' /\ cmp (rkey re') ekey <= 0 /\
              forall y ry, In (Some y) roots -> ring_find y l = Some ry -> cmp (rkey re') (rkey ry) <= 0.
Proof.
  induction roots as [|o roots IH]; intros e ekey e' H (re & Fe & Ke); cbn [pick_roots] in H.
  - inversion H; subst e'. exists re. split; [exact Fe|]. split; [rewrite Ke, (cmp_refl cmp TP); lia|]. intros y ry [].
  - destruct o as [r|].
    + destruct (ring_find r l) as [rr|] eqn:Fr; [|discriminate].
      destruct (cmp ekey (c_key (rt_c rr)) <=? 0) eqn:C.
      * destruct (IH _ _ _ H (ex_intro _ re (conj Fe Ke))) as (re' & F' & C' & A'). exists re'. split; [exact F'|]. split; [exact C'|].
        intros y ry [E|Hy] Fy; [|eauto]. inversion E; subst y. rewrite Fr in Fy. inversion Fy; subst ry.
        eapply (cmp_tr cmp TP); [exact C'|]. unfold rkey. lia.
      * destruct (IH _ _ _ H (ex_intro _ rr (conj Fr eq_refl))) as (re' & F' & C' & A'). exists re'. split; [exact F'|].
        assert (Lk : cmp (rkey rr) ekey <= 0) by (apply (cmp_nle_le cmp TP); unfold rkey; lia).
        split; [eapply (cmp_tr cmp TP); eauto|].
        intros y ry [E|Hy] Fy; [|eauto]. inversion E; subst y. rewrite Fr in Fy. inversion Fy; subst ry. exact C'.
    + destruct (IH _ _ _ H (ex_intro _ re (conj Fe Ke))) as (re' & F' & C' & A'). exists re'. split; [exact F'|]. split; [exact C'|].
      intros y ry [E|Hy] Fy; [discriminate | eauto].
Qed.

Lemma getR_in {A} (l : list A) i v : getR l i = Ok v -> In v l.
Proof.
  unfold getR. destruct (i <? 0); [discriminate|]. destruct (nth_error l (Z.to_nat i)) eqn:E; [|discriminate].
  intros H. inversion H; subst. eapply nth_error_In; eauto.
Qed.

Lemma consolidate_spec n l l2 :
  consolidate cmp n l = Ok l2 -> Good l ->
  Good l2 /\ Permutation (lcontents l2) (lcontents l) /\ ext_ok l2 /\ l2 <> [].
Proof.
  unfold consolidate. destruct l as [|r0 t]; [discriminate|]. intros H G.
  destruct (cons_outer cmp _ (r0 :: t) _ (rt_idx r0) (rt_idx r0)) as [[l1 roots1]| |] eqn:CO; cbn [bind] in H; try discriminate.
  assert (INV0 : exists A B pre c post, r0 :: t = A ++ B /\ B ++ A = pre ++ c :: post /\
                   hd_label (pre ++ c :: post) 0 = rt_idx r0 /\ rt_idx c = rt_idx r0 /\ Forall (reg (repeat None (Z.to_nat (max_degree n)))) pre).
  { exists [], (r0 :: t), [], r0, t. cbn [app]. rewrite app_nil_r. repeat split; auto. }
  destruct (cons_outer_spec _ _ _ _ _ _ _ CO G INV0) as (G1 & P1 & F1).
  destruct l1 as [|e0 t1]; [discriminate|].
  destruct (pick_roots cmp (e0 :: t1) (rt_idx e0) (c_key (rt_c e0)) roots1) as [e| |] eqn:PR; cbn [bind] in H; try discriminate.
  destruct (rotate_to e (e0 :: t1)) as [l2'|] eqn:RT; [|discriminate]. inversion H; subst l2'. clear H.
  pose proof (labels_nodup _ (proj2 G1)) as NL.
  assert (E0 : exists re, ring_find (rt_idx e0) (e0 :: t1) = Some re /\ rkey re = c_key (rt_c e0)).
  { exists e0. split; [|reflexivity]. cbn [ring_find]. now rewrite Z.eqb_refl. }
  destruct (pick_roots_spec _ _ _ _ _ PR E0) as (re & Fe & Ce & Ae).
  pose proof (rotate_to_perm _ _ _ RT) as PM.
  destruct (rotate_to_spec _ _ _ RT) as (A & r & B & EL & Er & E2).
  assert (r = re).
  { destruct (ring_find_in _ _ _ Fe) as (Ire & Ere).
    assert (Ir : In r (e0 :: t1)) by (rewrite EL; apply in_or_app; right; now left).
    pose proof (ring_find_unique e _ r NL Ir Er). congruence. }
  subst r.
  split; [eapply Good_perm; [apply Permutation_sym, PM | exact G1]|].
  split; [rewrite (lcontents_perm _ _ PM); exact P1|].
  split; [|rewrite E2; discriminate].
  assert (EO : Forall (fun r => cmp (rkey re) (rkey r) <= 0) l2).
  { eapply Permutation_Forall; [apply Permutation_sym, PM|].
    rewrite Forall_forall in *. intros r Hr. specialize (F1 r Hr). unfold reg in F1.
    apply (Ae (rt_idx r) r); [eapply getR_in; eauto | apply ring_find_unique; auto]. }
  rewrite E2 in EO |- *. exact EO.
Qed.

(** * cutAndCascade *)
(** heap order except for the edge between [x] and its parent *)
Fixpoint hoP (x : Z) (lb : option Z) (t : bt) : Prop :=
  match t with
  | Leaf => True
  | Nd c _ _ ch sib =>
      (if c_idx c =? x then True else lble lb (c_key c)) /\ hoP x (Some (c_key c)) ch /\ hoP x lb sib
  end.

Lemma ho_hoP x lb t : ho lb t -> hoP x lb t.
Proof.
  revert lb; induction t as [|c d m ch IHc sib IHs]; intros lb; cbn [hoP ProofsTree.ho]; auto.
  intros (A & B & C). split; [destruct (c_idx c =? x); auto|]. auto.
Qed.

Lemma hoP_notin x lb t : ~ In x (idxs t) -> hoP x lb t -> ho lb t.
Proof.
  revert lb; induction t as [|c d m ch IHc sib IHs]; intros lb NI; cbn [hoP ProofsTree.ho]; auto.
  rewrite idxs_nd in NI. intros (A & B & C). destruct (c_idx c =? x) eqn:E; [exfalso; apply NI; left; lia|].
  split; [exact A|]. split; [apply IHc | apply IHs]; auto.
Qed.

Lemma cc_some x : forall t root, In x (idxs t) -> exists r, cc root x t = Some r.
Proof.
  induction t as [|c d m ch IHc sib IHs]; intros root IN; [destruct IN|].
  apply idxs_nd in IN. cbn [cc]. destruct (c_idx c =? x) eqn:E; [destruct root; eauto|].
  destruct IN as [IN|[IN|IN]]; [lia| |].
  - destruct (IHc false IN) as ([[ch' cuts] lost] & ->). destruct lost; [|eauto].
    destruct (negb m || root); eauto.
  - destruct (cc false x ch) as [[[ch' cuts] lost]|].
    + destruct lost; [|eauto]. destruct (negb m || root); eauto.
    + destruct (IHs root IN) as ([[sib' cuts] lost] & ->). eauto.
Qed.

Lemma lcontents_cons r l : lcontents (r :: l) = rt_c r :: contents (rt_ch r) ++ lcontents l.
Proof. reflexivity. Qed.

Lemma lcontents_single r : lcontents [r] = rt_c r :: contents (rt_ch r).
Proof. unfold lcontents. cbn [flat_map]. now rewrite app_nil_r. Qed.

Lemma cc_none_notin x : forall t root, cc root x t = None -> ~ In x (idxs t).
Proof. intros t root H Y. destruct (cc_some x t root Y). congruence. Qed.

Lemma cc_some_in x : forall t root r, cc root x t = Some r -> In x (idxs t).
Proof.
  induction t as [|c d m ch IHc sib IHs]; intros root r H; [discriminate|].
  apply idxs_nd. cbn [cc] in H. destruct (c_idx c =? x) eqn:E; [left; lia|]. right.
  destruct (cc false x ch) as [r1|] eqn:C1; [left; eapply IHc; eauto|].
  destruct (cc root x sib) as [r2|] eqn:C2; [right; eapply IHs; eauto | discriminate].
Qed.

Lemma cc_spec x : forall t root lb t' cuts lost,
  cc root x t = Some (t', cuts, lost) -> NoDup (idxs t) -> hoP x lb t -> (root = true -> lb = None) ->
  ho lb t' /\ Forall rok cuts /\ Permutation (contents t) (contents t' ++ lcontents cuts) /\
  (root = true -> map rt_c (to_list t') = map rt_c (to_list t)).
Proof.
  induction t as [|c d m ch IHc sib IHs]; intros root lb t' cuts lost H ND HP RL; cbn [cc] in H; [discriminate|].
  destruct (idxs_nd_cons _ _ _ _ _ ND) as (NC & NS & N1 & N2 & DJ).
  cbn [hoP] in HP. destruct HP as (A & B & C).
  destruct (c_idx c =? x) eqn:E.
  - assert (Ex : c_idx c = x) by lia.
    assert (Hc : ho (Some (c_key c)) ch) by (apply (hoP_notin x); [now rewrite <- Ex | exact B]).
    assert (Hs : ho lb sib) by (apply (hoP_notin x); [now rewrite <- Ex | exact C]).
    destruct root.
    + inversion H; subst. rewrite (RL eq_refl) in *. split; [apply ho_nd; auto; exact I|]. split; [constructor|].
      split; [now rewrite app_nil_r|]. reflexivity.
    + inversion H; subst. split; [exact Hs|]. split; [constructor; [exact Hc | constructor]|].
      split; [rewrite lcontents_single; cbn [contents rt_c rt_ch fst snd]; perm|]. discriminate.
  - destruct (cc false x ch) as [[[ch' cuts0] lost0]|] eqn:CC.
    + assert (INx : In x (idxs ch)).
      { eapply cc_some_in; eauto. }
      assert (Hs : ho lb sib) by (apply (hoP_notin x); [now apply DJ | exact C]).
      destruct (IHc false (Some (c_key c)) _ _ _ CC NC B ltac:(discriminate)) as (H1 & F1 & P1 & _).
      destruct lost0.
      * destruct (negb m || root) eqn:MR.
        -- inversion H; subst. split; [apply ho_nd; auto|]. split; [exact F1|].
           split; [cbn [contents]; perm|]. intros _. reflexivity.
        -- inversion H; subst. split; [exact Hs|]. split; [apply Forall_app; split; [exact F1 | constructor; [exact H1 | constructor]]|].
           split; [rewrite lcontents_app, lcontents_single; cbn [contents rt_c rt_ch fst snd]; perm|].
           intros ->. rewrite orb_true_r in MR. discriminate.
      * inversion H; subst. split; [apply ho_nd; auto|]. split; [exact F1|]. split; [cbn [contents]; perm|].
        reflexivity.
    + destruct (cc root x sib) as [[[sib' cuts0] lost0]|] eqn:CS; [|discriminate]. inversion H; subst.
      pose proof (cc_none_notin _ _ _ CC) as NIx.
      assert (Hc : ho (Some (c_key c)) ch) by (apply (hoP_notin x); auto).
      destruct (IHs root lb _ _ _ CS NS C RL) as (H1 & F1 & P1 & R1).
      split; [apply ho_nd; auto|]. split; [exact F1|]. split; [cbn [contents]; perm|].
      intros Rt. cbn [to_list map]. now rewrite (R1 Rt).
Qed.

(** * the operations *)
Definition InvF (h : ifib) (m : amap) : Prop :=
  Rep (f_ring h) (f_nodes h) (f_n h) m /\ Forall rok (to_list (f_ring h)) /\ ext_ok (to_list (f_ring h)).

Lemma InvF_ho h m : InvF h m -> ho None (f_ring h).
Proof.
  intros (_ & F & _). rewrite <- (of_to (f_ring h)). apply ho_of_list.
  eapply Forall_impl; [|exact F]. intros r Hr. split; [exact I | exact Hr].
Qed.

Lemma ho_rok lb t : ho lb t -> Forall rok (to_list t).
Proof.
  intros H. rewrite <- (of_to t) in H. apply ho_of_list in H. eapply Forall_impl; [|exact H]. now intros r (_ & Hr).
Qed.

Lemma meld_perm (l1 l2 : list rt) : Permutation (meld l1 l2) (l1 ++ l2).
Proof.
  destruct l1 as [|a l1]; [reflexivity|]. destruct l2 as [|b l2]; [now rewrite app_nil_r|].
  cbn [meld]. apply Permutation_app_head. change (b :: l2) with ([b] ++ l2). apply Permutation_app_comm.
Qed.

Lemma contains_index_F h m i : InvF h m -> ModelFib.contains_index h i = is_some (aget m i).
Proof. intros ((A & _) & _). unfold ModelFib.contains_index. rewrite A. apply flag_spec. Qed.

Lemma nodes_len_F h m : InvF h m -> length (f_nodes h) = length m.
Proof. intros ((A & _) & _). rewrite A. apply map_length. Qed.

Lemma finish_delete_spec h m rest r h' :
  finish_delete cmp h rest r = Ok h' ->
  Rep (f_ring h) (f_nodes h) (f_n h) m -> Good (r :: rest) ->
  Permutation (lcontents (r :: rest)) (contents (f_ring h)) ->
  InvF h' (aset m (rt_idx r) None).
Proof.
  unfold finish_delete. intros H R (FR & ND) P.
  set (l := meld rest (to_list (rt_ch r))) in *.
  assert (PL : Permutation (rt_c r :: lcontents l) (lcontents (r :: rest))).
  { unfold l. rewrite (lcontents_perm _ _ (meld_perm _ _)), lcontents_app, contents_to_list.
    rewrite lcontents_cons. clear. perm. }
  assert (GL : Good l).
  { inversion FR as [|? ? Rr Frest]; subst. split.
    - unfold l. eapply Permutation_Forall; [apply Permutation_sym, meld_perm|]. apply Forall_app. split; [exact Frest|].
      eapply ho_rok; exact Rr.
    - assert (N : NoDup (map c_idx (rt_c r :: lcontents l))).
      { eapply Permutation_NoDup; [apply Permutation_sym, Permutation_map, PL | exact ND]. }
      cbn [map] in N. now apply NoDup_cons_iff in N as (_ & N). }
  assert (Hc : In (rt_c r) (contents (f_ring h))).
  { eapply Permutation_in; [exact P|]. rewrite lcontents_cons. now left. }
  destruct (Rep_in _ _ _ _ _ R Hc) as (Ri & _).
  assert (NL : length (f_nodes h) = length m) by (destruct R as (A & _); rewrite A; apply map_length).
  rewrite setR_ok in H by (unfold rt_idx; lia). cbn [bind] in H.
  destruct l as [|a l0] eqn:El.
  - inversion H; subst h'. split; cbn [f_ring f_nodes f_n]; [|split; constructor].
    eapply (Rep_remove _ Leaf _ _ _ (rt_c r)); [exact R|]. cbn [contents]. rewrite <- P, <- PL. reflexivity.
  - destruct (consolidate cmp (f_n h - 1) (a :: l0)) as [l'| |] eqn:CS; cbn [bind] in H; try discriminate.
    inversion H; subst h'. destruct (consolidate_spec _ _ _ CS GL) as ((F' & N') & P' & E' & _).
    split; cbn [f_ring f_nodes f_n]; [|rewrite to_of; split; auto].
    eapply (Rep_remove _ _ _ _ _ (rt_c r)); [exact R|]. rewrite contents_of_list, <- P, <- PL.
    apply perm_skip. now apply Permutation_sym.
Qed.

Lemma holds_rep t nodes n m c : Rep t nodes n m -> In c (contents t) -> holds m (c_idx c) (c_key c) (c_val c) = true.
Proof. intros R H. destruct (Rep_in _ _ _ _ _ R H) as (_ & G). unfold holds. rewrite G. cbn. now rewrite !Z.eqb_refl. Qed.

Lemma ext_head_extremal h m e rest :
  InvF h m -> to_list (f_ring h) = e :: rest -> extremal cmp m (rkey e) = true.
Proof.
  intros I E. pose proof I as (R & F & X). rewrite E in X. cbn [ext_ok] in X.
  apply (extremal_ext cmp TP (f_ring h) _ _ m e R (InvF_ho _ _ I)).
  - rewrite E. now left.
  - intros r' Hr'. rewrite E in Hr'. rewrite Forall_forall in X. now apply X.
Qed.

Lemma delete_spec_F h m h' r :
  InvF h m -> ifib_delete cmp h = Ok (h', r) -> exists m', spec_step cmp m Delete r = Some m' /\ InvF h' m'.
Proof.
  intros I H. pose proof I as (R & F & X). unfold ifib_delete in H.
  destruct (to_list (f_ring h)) as [|e rest] eqn:E.
  - inversion H; subst h' r. exists m. split; [|exact I]. cbn [spec_step].
    assert (f_ring h = Leaf) by (destruct (f_ring h); [reflexivity | discriminate]).
    pose proof (proj1 (Rep_leaf_iff _ _ _ _ R) H0) as N0. destruct R as (_ & B & _). rewrite <- B, N0. reflexivity.
  - destruct (finish_delete cmp h rest e) as [h1| |] eqn:FD; cbn [bind] in H; try discriminate. inversion H; subst h' r.
    assert (P : Permutation (lcontents (e :: rest)) (contents (f_ring h))) by (rewrite <- E, contents_to_list; reflexivity).
    assert (G : Good (e :: rest)).
    { split; [exact F|]. destruct R as (_ & _ & ND & _). unfold idxs in ND. now rewrite <- contents_to_list, E in ND. }
    pose proof (finish_delete_spec _ _ _ _ _ FD R G P) as I1.
    eexists. split; [|exact I1]. cbn [spec_step].
    assert (Hc : In (rt_c e) (contents (f_ring h))).
    { eapply Permutation_in; [exact P|]. rewrite lcontents_cons. now left. }
    pose proof (holds_rep _ _ _ _ _ R Hc) as HH. unfold rt_idx. rewrite HH.
    pose proof (ext_head_extremal _ _ _ _ I E) as EE. unfold rkey in EE. rewrite EE. reflexivity.
Qed.

Lemma insert_spec_F h m i k v h' r :
  InvF h m -> ifib_insert cmp h i k v = Ok (h', r) ->
  exists m', spec_step cmp m (Insert i k v) r = Some m' /\ InvF h' m'.
Proof.
  intros I H. pose proof I as (R & F & X). pose proof (nodes_len_F _ _ I) as NL.
  unfold ifib_insert in H. rewrite (contains_index_F _ _ _ I), NL in H. cbn [spec_step]. unfold in_range.
  destruct ((i <? 0) || (Z.of_nat (length m) <=? i)) eqn:OOR; cbn [orb] in H.
  { inversion H; subst h' r. exists m. split; [|exact I].
    replace ((0 <=? i) && (i <? Z.of_nat (length m))) with false by lia. reflexivity. }
  replace ((0 <=? i) && (i <? Z.of_nat (length m))) with true by lia.
  destruct (is_some (aget m i)) eqn:Held; cbn [negb andb] in *.
  { inversion H; subst h' r. exists m. split; [reflexivity | exact I]. }
  assert (G : aget m i = None) by (destruct (aget m i); [discriminate | reflexivity]).
  rewrite setR_ok in H by lia. cbn [bind] in H. inversion H; subst h' r. clear H.
  eexists. split; [reflexivity|].
  set (n := ((i, k, v), 0, false, Leaf) : rt).
  assert (Rn : rok n) by exact I0 || (unfold rok; cbn; exact Logic.I).
  destruct (to_list (f_ring h)) as [|e t] eqn:E.
  - split; cbn [f_ring f_nodes f_n]; [|cbn [of_list to_list]; split; [repeat constructor|]].
    + eapply Rep_insert; eauto; [lia|]. rewrite <- (contents_to_list (f_ring h)), E. cbn. reflexivity.
    + cbn [ext_ok]. constructor; [|constructor]. rewrite (cmp_refl cmp TP). lia.
  - destruct (cmp (c_key (rt_c e)) k <=? 0) eqn:C.
    + split; cbn [f_ring f_nodes f_n]; [|rewrite to_of; split].
      * eapply Rep_insert; eauto; [lia|]. change (e :: t ++ [n]) with ((e :: t) ++ [n]).
        rewrite contents_of_list, lcontents_app, <- E, contents_to_list.
        rewrite lcontents_single. cbn [n rt_c rt_ch fst snd contents]. perm.
      * change (e :: t ++ [n]) with ((e :: t) ++ [n]). apply Forall_app. split; [exact F | constructor; [exact Rn | constructor]].
      * cbn [ext_ok] in X |- *. change (e :: t ++ [n]) with ((e :: t) ++ [n]). apply Forall_app. split; [exact X|].
        constructor; [|constructor]. unfold rkey at 2. cbn [n rt_c fst snd c_key]. unfold rkey. lia.
    + split; cbn [f_ring f_nodes f_n]; [|rewrite to_of; split].
      * eapply Rep_insert; eauto; [lia|]. rewrite contents_of_list.
        change (n :: e :: t) with ([n] ++ (e :: t)). rewrite lcontents_app, <- E, contents_to_list, lcontents_single.
        cbn [n rt_c rt_ch fst snd contents]. perm.
      * constructor; [exact Rn | exact F].
      * cbn [ext_ok] in *. constructor; [rewrite (cmp_refl cmp TP); lia|].
        assert (Lk : cmp k (rkey e) <= 0) by (apply (cmp_nle_le cmp TP); unfold rkey; lia).
        eapply Forall_impl; [|exact X]. intros r Hr. cbn [n rkey rt_c fst snd c_key] in *.
        eapply (cmp_tr cmp TP); eauto.
Qed.

Lemma cut_and_cascade_spec x t l :
  cut_and_cascade x t = Ok l -> NoDup (idxs t) -> hoP x None t ->
  Good l /\ Permutation (lcontents l) (contents t) /\
  exists t' cuts, l = to_list t' ++ cuts /\ map rt_c (to_list t') = map rt_c (to_list t).
Proof.
  unfold cut_and_cascade. destruct (cc true x t) as [[[t' cuts] lost]|] eqn:CC; [|discriminate].
  intros H ND HP. inversion H; subst l. clear H.
  destruct (cc_spec x t true None t' cuts lost CC ND HP ltac:(reflexivity)) as (H1 & F1 & P1 & R1).
  assert (PL : Permutation (lcontents (to_list t' ++ cuts)) (contents t)).
  { rewrite lcontents_app, contents_to_list. now apply Permutation_sym. }
  split; [split|split; [exact PL|]].
  - apply Forall_app. split; [eapply ho_rok; eauto | exact F1].
  - unfold idxs in ND. eapply Permutation_NoDup; [apply Permutation_sym, Permutation_map, PL | exact ND].
  - exists t', cuts. split; [reflexivity | now apply R1].
Qed.

Lemma delete_index_spec_F h m i h' r :
  InvF h m -> ifib_delete_index cmp h i = Ok (h', r) ->
  exists m', spec_step cmp m (DeleteIndex i) r = Some m' /\ InvF h' m'.
Proof.
  intros I H. pose proof I as (R & F & X). unfold ifib_delete_index in H.
  rewrite (contains_index_F _ _ _ I) in H. cbn [spec_step].
  destruct (aget m i) as [kv|] eqn:G; cbn [is_some negb] in H.
  2:{ inversion H; subst h' r. exists m. split; [|exact I]. cbn [spec_step]. try rewrite G. reflexivity. }
  destruct (cut_and_cascade i (f_ring h)) as [l| |] eqn:CC; cbn [bind] in H; try discriminate.
  destruct (ring_find i l) as [r0|] eqn:RF; [|discriminate].
  destruct (finish_delete cmp h (ring_remove i l) r0) as [h1| |] eqn:FD; cbn [bind] in H; try discriminate.
  inversion H; subst h' r. clear H.
  pose proof R as (_ & _ & ND & _).
  destruct (cut_and_cascade_spec _ _ _ CC ND (ho_hoP i None _ (InvF_ho _ _ I))) as (GL & PL & _).
  pose proof (ring_remove_perm _ _ _ RF) as PR.
  assert (G1 : Good (r0 :: ring_remove i l)) by (eapply Good_perm; eauto).
  assert (P1 : Permutation (lcontents (r0 :: ring_remove i l)) (contents (f_ring h))).
  { rewrite <- PL. apply lcontents_perm. now apply Permutation_sym. }
  pose proof (finish_delete_spec _ _ _ _ _ FD R G1 P1) as I1.
  destruct (ring_find_in _ _ _ RF) as (_ & Ei). rewrite Ei in I1.
  eexists. split; [|exact I1]. cbn [spec_step].
  assert (Hc : In (rt_c r0) (contents (f_ring h))).
  { eapply Permutation_in; [exact P1|]. rewrite lcontents_cons. now left. }
  pose proof (holds_rep _ _ _ _ _ R Hc) as HH. unfold rt_idx in Ei. rewrite Ei in HH. rewrite HH. reflexivity.
Qed.

(** * ChangeKey *)
Lemma set_key_notin i k t : ~ In i (idxs t) -> set_key i k t = t.
Proof.
  induction t as [|c d m ch IHc sib IHs]; intros NI; [reflexivity|]. rewrite idxs_nd in NI.
  cbn [set_key]. destruct (c_idx c =? i) eqn:E; [exfalso; apply NI; left; lia|].
  rewrite IHc, IHs; auto.
Qed.

Lemma in_contents_idxs c t : In c (contents t) -> In (c_idx c) (idxs t).
Proof. intros H. apply in_idxs. eauto. Qed.

Lemma contents_nd c0 c d m ch sib : In c0 (contents (Nd c d m ch sib)) <-> c0 = c \/ In c0 (contents ch) \/ In c0 (contents sib).
Proof. cbn [contents In]. rewrite in_app_iff. intuition. Qed.

Lemma set_key_hoP i k k0 v : forall t lb,
  ho lb t -> NoDup (idxs t) -> In (i, k0, v) (contents t) -> cmp k k0 <= 0 -> hoP i lb (set_key i k t).
Proof.
  induction t as [|c d m ch IHc sib IHs]; intros lb H ND IN Ck; [destruct IN|].
  destruct (idxs_nd_cons _ _ _ _ _ ND) as (NC & NS & N1 & N2 & DJ).
  cbn [ProofsTree.ho] in H. destruct H as (A & B & C). cbn [set_key].
  destruct (c_idx c =? i) eqn:E.
  - assert (c = (i, k0, v)).
    { eapply (NoDup_idx_inj (Nd c d m ch sib)); eauto; [now left | cbn; lia]. }
    subst c. cbn [hoP c_idx c_key c_val fst snd] in *. rewrite E. split; [exact I|].
    split; apply ho_hoP; auto. eapply (ho_lower cmp TP); eauto.
  - cbn [hoP]. rewrite E. split; [exact A|]. apply contents_nd in IN. destruct IN as [EQ|[IN|IN]]; [subst c; cbn in E; lia| |].
    + split; [apply IHc; auto|]. rewrite set_key_notin; [now apply ho_hoP|]. apply DJ. now apply in_contents_idxs in IN.
    + split; [|apply IHs; auto]. rewrite set_key_notin; [now apply ho_hoP|].
      intros Y. apply (DJ _ Y). now apply in_contents_idxs in IN.
Qed.

Lemma set_key_ho i k k0 v : forall t pc,
  ho (okey pc) t -> NoDup (idxs t) -> In (i, k0, v) (contents t) -> cmp k k0 <= 0 ->
  (forall p, parent_of i pc t = Some (Some p) -> cmp (c_key p) k <= 0) ->
  ho (okey pc) (set_key i k t).
Proof.
  induction t as [|c d m ch IHc sib IHs]; intros pc H ND IN Ck PP; [destruct IN|].
  destruct (idxs_nd_cons _ _ _ _ _ ND) as (NC & NS & N1 & N2 & DJ).
  cbn [ProofsTree.ho] in H. destruct H as (A & B & C). cbn [set_key parent_of] in *.
  destruct (c_idx c =? i) eqn:E.
  - assert (c = (i, k0, v)).
    { eapply (NoDup_idx_inj (Nd c d m ch sib)); eauto; [now left | cbn; lia]. }
    subst c. cbn [c_idx c_key c_val fst snd] in *. apply ho_nd; cbn [c_key fst snd]; auto.
    + destruct pc as [p|]; cbn; [apply PP; reflexivity | exact I].
    + eapply (ho_lower cmp TP); eauto.
  - apply contents_nd in IN. destruct IN as [EQ|[IN|IN]]; [subst c; cbn in E; lia| |].
    + pose proof (in_contents_idxs _ _ IN) as INi. cbn [c_idx fst] in INi.
      destruct (parent_isin i ch (Some c) INi) as (rr & PO). rewrite PO in PP.
      apply ho_nd; auto.
      * apply (IHc (Some c)); auto. intros p Hp. apply PP. congruence.
      * rewrite set_key_notin; auto.
    + pose proof (in_contents_idxs _ _ IN) as INi. cbn [c_idx fst] in INi.
      assert (NCi : ~ In i (idxs ch)) by (intros Y; apply (DJ _ Y INi)).
      rewrite (parent_notin i ch (Some c) NCi) in PP.
      apply ho_nd; auto. rewrite set_key_notin; auto.
Qed.

Lemma head_min_all t e rest :
  to_list t = e :: rest -> ext_ok (e :: rest) -> ho None t ->
  forall c, In c (contents t) -> cmp (rkey e) (c_key c) <= 0.
Proof.
  intros E X H c Hc. destruct (contents_roots _ _ Hc) as (r & Hr & Y). rewrite E in Hr.
  cbn [ext_ok] in X. rewrite Forall_forall in X. specialize (X r Hr).
  destruct Y as [->|Y]; [exact X|].
  destruct (ho_top cmp _ _ r H ltac:(rewrite E; exact Hr)) as (_ & Hch).
  eapply (cmp_tr cmp TP); [exact X|]. eapply (ho_all cmp TP); eauto.
Qed.

Hypothesis cmp_eq0 : forall a b, cmp a b = 0 -> a = b.

Lemma upd_upd {A} (l : list A) i a b : upd (upd l i a) i b = upd l i b.
Proof. revert i; induction l; intros [|i]; cbn; auto. now rewrite IHl. Qed.

Lemma to_list_set_key_hd i k c d m ch sib :
  exists r rest, to_list (set_key i k (Nd c d m ch sib)) = r :: rest /\
                 rt_c r = (if c_idx c =? i then (c_idx c, k, c_val c) else c).
Proof. cbn [set_key]. destruct (c_idx c =? i); cbn [to_list]; eauto. Qed.

Lemma change_key_spec_F h m i k h' r :
  InvF h m -> ifib_change_key cmp h i k = Ok (h', r) ->
  exists m', spec_step cmp m (ChangeKey i k) r = Some m' /\ InvF h' m'.
Proof.
  intros I H. pose proof I as (R & F & X). unfold ifib_change_key in H.
  rewrite (contains_index_F _ _ _ I) in H. cbn [spec_step].
  destruct (aget m i) as [kv|] eqn:G; cbn [is_some negb] in H.
  2:{ inversion H; subst h' r. exists m. split; [reflexivity | exact I]. }
  destruct (Rep_lookup _ _ _ _ _ _ R G) as (Ri & L & Hc). rewrite L in H.
  pose proof R as (_ & _ & ND & _).
  pose proof (in_contents_idxs _ _ Hc) as INi. cbn [c_idx fst] in INi.
  destruct (parent_isin i _ None INi) as (pc & PO). rewrite PO in H.
  cbn [c_key c_val fst snd] in H.
  destruct (cmp k (fst kv) <? 0) eqn:Cd.
  - (* decrease *)
    assert (Ck : cmp k (fst kv) <= 0) by lia.
    destruct (set_key_facts i k _ _ _ ND Hc) as (IE & CI).
    set (t1 := set_key i k (f_ring h)) in *.
    assert (ND1 : NoDup (idxs t1)) by now rewrite IE.
    destruct (match pc with
              | Some p => if cmp (c_key p) k >? 0 then cut_and_cascade i t1 else Ok (to_list t1)
              | None => Ok (to_list t1)
              end) as [l| |] eqn:EL; cbn [bind] in H; try discriminate.
    (* the root list after the (possible) cut *)
    assert (LL : Good l /\ Permutation (lcontents l) (contents t1) /\
                 exists t' cuts, l = to_list t' ++ cuts /\ map rt_c (to_list t') = map rt_c (to_list t1)).
    { assert (CutCase : cut_and_cascade i t1 = Ok l ->
                        Good l /\ Permutation (lcontents l) (contents t1) /\
                        exists t' cuts, l = to_list t' ++ cuts /\ map rt_c (to_list t') = map rt_c (to_list t1)).
      { intros CC. apply (cut_and_cascade_spec _ _ _ CC ND1).
        eapply set_key_hoP; eauto. apply (InvF_ho _ _ I). }
      assert (NoCut : (forall p, pc = Some p -> cmp (c_key p) k <= 0) ->
                      Good (to_list t1) /\ Permutation (lcontents (to_list t1)) (contents t1) /\
                      exists t' cuts, to_list t1 = to_list t' ++ cuts /\ map rt_c (to_list t') = map rt_c (to_list t1)).
      { intros PP. assert (H1 : ho None t1).
        { apply (set_key_ho i k (fst kv) (snd kv) (f_ring h) None); auto; [apply (InvF_ho _ _ I)|].
          intros p Hp. apply PP. congruence. }
        split; [split; [eapply ho_rok; eauto | now rewrite contents_to_list]|].
        split; [now rewrite contents_to_list|]. exists t1, []. now rewrite app_nil_r. }
      destruct pc as [p|].
      - destruct (cmp (c_key p) k >? 0) eqn:Cp; [now apply CutCase|].
        inversion EL as [EQ]. try rewrite <- EQ. apply NoCut. intros p0 E0. inversion E0; subst. lia.
      - inversion EL as [EQ]. try rewrite <- EQ. apply NoCut. discriminate. }
    destruct LL as (GL & PL & t' & cuts & El & Ert).
    (* the old head bounds every old entry *)
    destruct (f_ring h) as [|c0 d0 m0 ch0 sib0] eqn:ER; [destruct Hc|].
    pose proof (head_min_all (Nd c0 d0 m0 ch0 sib0) (c0, d0, m0, ch0) (to_list sib0) eq_refl) as HM.
    pose proof (InvF_ho _ _ I) as HO. try rewrite ER in HO. try rewrite ER in X. specialize (HM X HO).
    change (rkey (c0, d0, m0, ch0)) with (c_key c0) in HM.
    (* the head of l *)
    destruct (to_list_set_key_hd i k c0 d0 m0 ch0 sib0) as (rh & resth & Eh & Ech). fold t1 in Eh.
    destruct l as [|e lt]; [discriminate|].
    assert (Ee : rt_c e = (if c_idx c0 =? i then (c_idx c0, k, c_val c0) else c0)).
    { rewrite Eh in Ert. destruct (to_list t') as [|e' lt']; [discriminate|]. cbn [map app] in *.
      inversion El; subst e. inversion Ert. congruence. }
    assert (KeK0 : cmp (rkey e) (c_key c0) <= 0).
    { unfold rkey. rewrite Ee. destruct (c_idx c0 =? i) eqn:E0.
      - assert (c0 = (i, fst kv, snd kv)).
        { eapply (NoDup_idx_inj (Nd c0 d0 m0 ch0 sib0)); eauto; [now left | cbn; lia]. }
        subst c0. cbn [c_key fst snd]. exact Ck.
      - rewrite (cmp_refl cmp TP). lia. }
    assert (F1 : forall c', In c' (lcontents (e :: lt)) -> c' = (i, k, snd kv) \/ cmp (c_key c0) (c_key c') <= 0).
    { intros c' Hc'. eapply Permutation_in in Hc'; [|exact PL]. apply CI in Hc'.
      destruct Hc' as [->|(Hc' & _)]; [now left | right; now apply HM]. }
    assert (RepF : forall lf, Permutation lf (e :: lt) ->
                   Rep (of_list lf) (f_nodes h) (f_n h) (aset m i (Some (k, snd kv))) /\ Forall rok (to_list (of_list lf))).
    { intros lf Pf. split.
      - eapply Rep_perm; [|eapply (Rep_change _ t1 _ _ _ i (fst kv) (snd kv) k); eauto].
        + rewrite contents_of_list, (lcontents_perm _ _ Pf). now apply Permutation_sym.
      - rewrite to_of. eapply Permutation_Forall; [apply Permutation_sym, Pf | exact (proj1 GL)]. }
    assert (rootc : forall r0, In r0 (e :: lt) -> In (rt_c r0) (lcontents (e :: lt))).
    { intros r0 Hr0. unfold lcontents. apply in_flat_map. exists r0. split; auto. now left. }
    destruct (cmp (c_key (rt_c e)) k <=? 0) eqn:Ce.
    + inversion H; subst h' r. eexists. split; [reflexivity|].
      destruct (RepF (e :: lt) (Permutation_refl _)) as (R1 & Fr1).
      split; [exact R1|]. split; [exact Fr1|].
      change (ext_ok (to_list (of_list (e :: lt)))). rewrite to_of. cbn [ext_ok]. apply Forall_forall. intros r0 Hr0.
      destruct (F1 _ (rootc _ Hr0)) as [E1|E1].
      * unfold rkey at 2. rewrite E1. cbn [c_key fst snd]. unfold rkey. lia.
      * eapply (cmp_tr cmp TP); eauto.
    + destruct (rotate_to i (e :: lt)) as [l'|] eqn:RT; [|discriminate].
      inversion H; subst h' r. eexists. split; [reflexivity|].
      pose proof (rotate_to_perm _ _ _ RT) as PM.
      destruct (RepF l' PM) as (R1 & Fr1).
      split; [exact R1|]. split; [exact Fr1|].
      change (ext_ok (to_list (of_list l'))). rewrite to_of. destruct (rotate_to_spec _ _ _ RT) as (A & ri & B & EAB & Eri & E2).
      assert (Hri : In ri (e :: lt)) by (rewrite EAB; apply in_or_app; right; now left).
      assert (Kri : rkey ri = k).
      { destruct (F1 _ (rootc _ Hri)) as [E1|E1]; [unfold rkey; now rewrite E1|].
        (* the entry labelled i is the changed one *)
        pose proof (rootc _ Hri) as Hci. eapply Permutation_in in Hci; [|exact PL]. apply CI in Hci.
        destruct Hci as [E3|(_ & N3)]; [unfold rkey; now rewrite E3 | unfold rt_idx in Eri; contradiction]. }
      assert (Lk : cmp k (rkey e) <= 0) by (apply (cmp_nle_le cmp TP); unfold rkey; lia).
      assert (EO : Forall (fun r0 => cmp (rkey ri) (rkey r0) <= 0) l').
      2:{ rewrite E2 in EO |- *. exact EO. }
      apply Forall_forall. intros r0 Hr0.
      eapply Permutation_in in Hr0; [|exact PM]. rewrite Kri.
      destruct (F1 _ (rootc _ Hr0)) as [E1|E1].
      * unfold rkey. rewrite E1. cbn [c_key fst snd]. rewrite (cmp_refl cmp TP). lia.
      * eapply (cmp_tr cmp TP); [exact Lk|]. eapply (cmp_tr cmp TP); eauto.
  - destruct (cmp k (fst kv) >? 0) eqn:Ci.
    + (* increase: DeleteIndex then Insert *)
      destruct (ifib_delete_index cmp h i) as [[h1 r1]| |] eqn:DI; cbn [bind] in H; try discriminate.
      destruct (ifib_insert cmp h1 i k (snd kv)) as [[h2 r2]| |] eqn:IN; cbn [bind] in H; try discriminate.
      inversion H; subst h' r. clear H.
      destruct (delete_index_spec_F _ _ _ _ _ I DI) as (m1 & S1 & I1).
      cbn [spec_step] in S1. destruct r1; try discriminate; unfold guard in S1.
      2:{ rewrite G in S1. discriminate. }
      destruct (holds m i k0 v); [|discriminate]. inversion S1; subst m1. clear S1.
      destruct (insert_spec_F _ _ _ _ _ _ _ I1 IN) as (m2 & S2 & I2).
      cbn [spec_step] in S2. unfold aset in S2 at 1 2. unfold in_range in S2. rewrite length_upd in S2.
      replace ((0 <=? i) && (i <? Z.of_nat (length m))) with true in S2 by lia.
      rewrite aget_mget in S2 by (rewrite length_upd; lia). rewrite mget_upd_same in S2 by lia.
      cbn [is_some negb andb] in S2. destruct r2; try discriminate. destruct b; [|discriminate].
      cbn [guard] in S2. inversion S2; subst m2. exists (aset m i (Some (k, snd kv))). split; [reflexivity|].
      unfold aset in *. now rewrite upd_upd in I2.
    + (* equivalent key: nothing happens, and the key is the same *)
      inversion H; subst h' r. assert (k = fst kv) by (apply cmp_eq0; lia). subst k.
      exists m. split; [|exact I]. cbn [guard]. f_equal. unfold aset. apply upd_nth_same with (d := None); [lia|].
      rewrite aget_mget in G by lia. unfold mget in G. rewrite G. now destruct kv.
Qed.

Lemma InvF_new (cap : nat) : InvF (ifib_new cap) (repeat None cap).
Proof. split; [apply Rep_empty | split; constructor]. Qed.

Lemma step_spec_F h m o h' r :
  InvF h m -> ifib_step cmp h o = Ok (h', r) -> exists m', spec_step cmp m o r = Some m' /\ InvF h' m'.
Proof.
  intros I H. pose proof I as (R & F & X). pose proof (nodes_len_F _ _ I) as NL.
  destruct o as [i k v | i k | | i | | | i | i | k | v | | ]; cbn [ifib_step] in H.
  - eapply insert_spec_F; eauto.
  - eapply change_key_spec_F; eauto.
  - eapply delete_spec_F; eauto.
  - eapply delete_index_spec_F; eauto.
  - inversion H; subst h' r. exists (repeat None (length m)). split; [reflexivity|].
    unfold ifib_delete_all. rewrite NL. apply InvF_new.
  - (* Peek *)
    inversion H; subst h' r. exists m. split; [|exact I]. unfold ifib_peek. cbn [spec_step].
    destruct (f_ring h) as [|c d mm ch sib] eqn:ER.
    + pose proof (proj1 (Rep_leaf_iff _ _ _ _ R) eq_refl) as N0. destruct R as (_ & B & _). rewrite <- B, N0. reflexivity.
    + assert (Hc : In c (contents (Nd c d mm ch sib))) by now left.
      rewrite (holds_rep _ _ _ _ _ R Hc).
      assert (E : to_list (f_ring h) = (c, d, mm, ch) :: to_list sib) by now rewrite ER.
      pose proof (ext_head_extremal _ _ _ _ I E) as EE. unfold rkey in EE. cbn [rt_c fst] in EE. rewrite EE. reflexivity.
  - (* PeekIndex *)
    unfold ifib_peek_index in H. rewrite (contains_index_F _ _ _ I) in H.
    destruct (aget m i) as [kv|] eqn:G; cbn [is_some negb] in H.
    + destruct (Rep_lookup _ _ _ _ _ _ R G) as (Ri & L & Hc). rewrite L in H. cbn [bind c_key c_val fst snd] in H.
      inversion H; subst h' r. exists m. split; [|exact I]. cbn [spec_step]. unfold holds. rewrite G, !Z.eqb_refl. reflexivity.
    + cbn [bind] in H. inversion H; subst h' r. exists m. split; [|exact I]. cbn [spec_step]. try rewrite G. reflexivity.
  - inversion H; subst h' r. exists m. split; [|exact I]. cbn [spec_step].
    rewrite (contains_index_F _ _ _ I). now rewrite Bool.eqb_reflx.
  - rewrite (scan_rep (fun k' _ => cmp k' k =? 0) _ _ _ _ R) in H. cbn [bind] in H.
    inversion H; subst h' r. exists m. split; [|exact I]. cbn [spec_step]. unfold has_key. now rewrite Bool.eqb_reflx.
  - rewrite (scan_rep (fun _ v' => v' =? v) _ _ _ _ R) in H. cbn [bind] in H.
    inversion H; subst h' r. exists m. split; [|exact I]. cbn [spec_step]. unfold has_val. now rewrite Bool.eqb_reflx.
  - inversion H; subst h' r. exists m. split; [|exact I]. cbn [spec_step].
    destruct R as (_ & B & _). rewrite <- B, Z.eqb_refl. reflexivity.
  - inversion H; subst h' r. exists m. split; [|exact I]. cbn [spec_step].
    pose proof (Rep_leaf_iff _ _ _ _ R) as LI. pose proof R as (_ & B & _). rewrite <- B.
    destruct (f_ring h) eqn:Eh.
    + rewrite (proj1 LI eq_refl). reflexivity.
    + destruct (f_n h =? 0) eqn:N0; [|reflexivity]. assert (f_n h = 0) by lia.
      destruct LI as (_ & LI). specialize (LI H0). discriminate.
Qed.

End Fib.
